/-
  C06 — value ordering is a total preorder; sort and merge honour it at any memory limit.
  Property theorems only.  Tables come from Zed.Generated.C06 (regenerated from /repo/type.go,
  runtime/sam/expr/sort.go, eval.go on every check); the model is Zed.Model.Compare.
-/
import Zed.Proofs.Rows
import Zed.Proofs.Merge
import Zed.Proofs.MergeOp
import Zed.Proofs.NullsSites
namespace Zed.Props.C06
open Zed

/-- Obligation on the regenerated facts: the shape of `compareValues`/`compareNumbers` the model
    was written for (case order, special ids, the two tail statements, the fast-path body). -/
theorem compare_shape :
    Generated.C06.compareCases =
      ["zed.IsNumber(aid) && zed.IsNumber(bid)", "aid != bid", "aid == zed.IDBool",
       "aid == zed.IDBytes", "aid == zed.IDString", "aid == zed.IDIP", "aid == zed.IDType"] ∧
    Generated.C06.specialIds = [idBool, idBytes, idString, idIP, idType] ∧
    Generated.C06.compareTail =
      ["if innerType := zed.InnerType(a.Type()); innerType != nil",
       "return bytes.Compare(a.Bytes(), b.Bytes())"] ∧
    Generated.C06.compareNumbersCases =
      ["zed.IsFloat(aid)", "zed.IsFloat(bid)", "zed.IsSigned(aid)", "zed.IsSigned(bid)",
       "default: return cmp.Compare(a.Uint(), b.Uint())"] ∧
    Generated.C06.fastSigned = ["i64s[i] = val.Int()"] ∧
    Generated.C06.fastUnsigned =
      ["v := val.Uint()", "if v > math.MaxInt64 { v = math.MaxInt64 }", "i64s[i] = int64(v)"] := by
  decide

/-- Obligation on the regenerated facts: the null branches of `compareValues` are antisymmetric
    (a null against a non-null gives opposite signs in the two argument orders) and follow
    `nullsMax`; the fast path's null sentinels are the matching extremes. -/
theorem null_branches :
    ordOfInt Generated.C06.bothNull = .eq ∧
    ordOfInt Generated.C06.nullA.1 = .gt ∧ ordOfInt Generated.C06.nullA.2 = .lt ∧
    ordOfInt Generated.C06.nullB.1 = .lt ∧ ordOfInt Generated.C06.nullB.2 = .gt ∧
    Generated.C06.fastNullSentinel = ("MaxInt64", "MinInt64") := by decide

/-! ### the order on values

  Full statement (`compare_total_preorder`): for every `nullsMax` and all values `a b c`,
  `cmpVal a a = eq`, `cmpVal b a = (cmpVal a b).swap` and
  `cmpVal a b ≠ gt → cmpVal b c ≠ gt → cmpVal a c ≠ gt`.
  Reflexivity and antisymmetry hold for all values; transitivity is FALSE of the current code
  (`not_compare_transitive`) and is proved under the guards `Val.ok` (well-formed: the shape of
  the value is the one its type prescribes) and `PairOK` (no integer beyond ±2^53 meets a
  float) in `compare_total_preorder_partial`. -/

theorem compare_refl (nullsMax : Bool) (a : Val) : cmpVal nullsMax a a = .eq := cmpVal_refl nullsMax a

theorem compare_antisymm (nullsMax : Bool) (a b : Val) :
    cmpVal nullsMax b a = (cmpVal nullsMax a b).swap := cmpVal_swap nullsMax a b

def tInt64 : Ty := .prim 9
def tFloat64 : Ty := .prim 16
/-- int64 2^53 + 1 -/
def wA : Val := .num tInt64 (.int 9007199254740993)
/-- float64 2^53 -/
def wB : Val := .num tFloat64 (.float (.fin ((9007199254740992 : Int) * scale)))
/-- int64 2^53 -/
def wC : Val := .num tInt64 (.int 9007199254740992)

set_option exponentiation.threshold 2000 in
set_option maxRecDepth 20000 in
/-- `2^53+1 ≤ 2^53. ≤ 2^53` but `2^53+1 > 2^53` (all three well-formed values). -/
theorem not_compare_transitive :
    ¬ (∀ (nullsMax : Bool) (a b c : Val), a.ok = true → b.ok = true → c.ok = true →
        cmpVal nullsMax a b ≠ .gt → cmpVal nullsMax b c ≠ .gt → cmpVal nullsMax a c ≠ .gt) := by
  intro h
  exact h true wA wB wC (by decide) (by decide) (by decide) (by decide) (by decide) (by decide)

set_option exponentiation.threshold 2000 in
set_option maxRecDepth 20000 in
/-- the float the model decodes from the bytes of float64 2^53 is `wB`'s -/
example : decodeFloat [0, 0, 0, 0, 0, 0, 0x40, 0x43] = some (.fin ((9007199254740992 : Int) * scale)) := by
  decide

def tXY : Ty := .named [120] (.named [121] tInt64)
def tXZ : Ty := .named [120] (.named [122] tInt64)
def tRA : Ty := .record (.cons [97] tXY .nil)
def tRB : Ty := .record (.cons [97] tXZ .nil)

/-- values of two record types that differ only below the outermost name of a field's named
    type were all "equal" across the two types before /repo commit 2f4e3fba9 (a second source of
    non-transitivity, finding C06:transitivity:nested-named-type, now fixed); they are ordered
    by type now -/
example : cmpVal true (.raw tRA [2, 4]) (.raw tRB [2, 2]) = .lt ∧
    cmpVal true (.raw tRB [2, 2]) (.raw tRA [2, 2]) = .gt := by decide

theorem compare_total_preorder_partial (nullsMax : Bool) (a b c : Val)
    (oka : a.ok = true) (okb : b.ok = true) (okc : c.ok = true)
    (pab : PairOK a b) (pbc : PairOK b c) (pac : PairOK a c) :
    cmpVal nullsMax a a = .eq ∧ cmpVal nullsMax b a = (cmpVal nullsMax a b).swap ∧
    (cmpVal nullsMax a b ≠ .gt → cmpVal nullsMax b c ≠ .gt → cmpVal nullsMax a c ≠ .gt) :=
  ⟨cmpVal_refl nullsMax a, cmpVal_swap nullsMax a b,
   (cmpVal_STr nullsMax a b c oka okb okc pab pbc pac).le⟩

/-- equality under the order is transitive as well (same guards) -/
theorem compare_eq_trans_partial (nullsMax : Bool) (a b c : Val)
    (oka : a.ok = true) (okb : b.ok = true) (okc : c.ok = true)
    (pab : PairOK a b) (pbc : PairOK b c) (pac : PairOK a c) :
    cmpVal nullsMax a b = .eq → cmpVal nullsMax b c = .eq → cmpVal nullsMax a c = .eq :=
  (cmpVal_STr nullsMax a b c oka okb okc pab pbc pac).eq_eq

set_option exponentiation.threshold 2000 in
set_option maxRecDepth 20000 in
/-- non-vacuity: a float meets integers within ±2^53, and the witness pair of
    `not_compare_transitive` is exactly what `PairOK` excludes. -/
example : wC.ok = true ∧ wB.ok = true ∧ PairOK wC wB ∧ ¬ PairOK wA wB := by
  refine ⟨by decide, by decide, ?_, ?_⟩
  · intro _; exact ⟨by decide, by decide⟩
  · intro h; exact absurd (h (Or.inr rfl)).1 (by decide)

/-! ### the bulk sorter -/

/-- `sortStableIndices` (int64 fast path, null sentinels, clamping of large uint64) orders
    exactly like `Comparator.Compare`, for every input of well-formed keys. -/
theorem fastpath_agrees (nullsMax : Bool) (dirs : List Bool) (rows : List Row)
    (hok : ∀ r ∈ rows, ∀ k ∈ r.keys, k.ok = true) :
    sortRows nullsMax dirs rows = sortRowsRef nullsMax dirs rows :=
  sortRows_eq_ref nullsMax dirs rows hok

/-- the sort output is a permutation of the input, non-decreasing under `Comparator.Compare`, and
    stable (a sub-sequence of the input that is already in order keeps its order; in particular
    rows with equal keys). -/
theorem sort_perm_sorted_stable (nullsMax : Bool) (dirs : List Bool) (m : Bool) (rows : List Row)
    (h : ∀ r ∈ rows, r.okFor dirs m) :
    (sortRows nullsMax dirs rows).Perm rows ∧
    (sortRows nullsMax dirs rows).Pairwise (fun a b => cmpRow nullsMax dirs a b ≠ .gt) ∧
    (∀ c : List Row, c.Sublist rows → c.Pairwise (fun a b => cmpRow nullsMax dirs a b ≠ .gt) →
      c.Sublist (sortRows nullsMax dirs rows)) := by
  rw [sortRows_ok_eq nullsMax dirs m rows h]
  have tr := fun a b c (ha : a.okFor dirs m) (hb : b.okFor dirs m) (hc : c.okFor dirs m) =>
    leRow_trans nullsMax dirs m a b c ha hb hc
  have to := fun a b (_ : a.okFor dirs m) (_ : b.okFor dirs m) => leRow_total nullsMax dirs a b
  refine ⟨List.mergeSort_perm _ _, ?_, ?_⟩
  · exact (sorted_on (fun r => r.okFor dirs m) (leRow nullsMax dirs) tr to rows h).imp
      (fun hab => (leRow_iff nullsMax dirs _ _).mp hab)
  · intro c hs hc
    exact stable_on (fun r => r.okFor dirs m) (leRow nullsMax dirs) tr to rows c h
      (hc.imp (fun hab => (leRow_iff nullsMax dirs _ _).mpr hab)) hs

/-- **spill invariance**: for every way of cutting the input into runs (any memory limit, any
    batch sizes), sorting the runs and merging them with the run ordinal as tie-break gives the
    in-memory stable sort of the whole input. -/
theorem spill_invariant (nullsMax : Bool) (dirs : List Bool) (m : Bool) (chunks : List (List Row))
    (h : ∀ c ∈ chunks, ∀ r ∈ c, r.okFor dirs m) :
    sortSpill nullsMax dirs chunks = sortRows nullsMax dirs chunks.flatten :=
  sortSpill_eq nullsMax dirs m chunks h

/-- the sort operator (flags → comparator, run formation by byte budget, spill, merge) gives the
    same output for every memory limit -/
theorem sortOp_limit_irrelevant (nullsFirst reverse : Bool) (dirs : List Bool) (m : Bool)
    (limit limit' : Nat) (batches : List (List (Row × Nat)))
    (h : ∀ r ∈ batchRows batches, r.okFor (sortConfig nullsFirst reverse dirs).2 m) :
    sortOp nullsFirst reverse dirs limit batches = sortOp nullsFirst reverse dirs limit' batches := by
  rw [sortOp_eq nullsFirst reverse dirs m limit batches h, sortOp_eq nullsFirst reverse dirs m limit' batches h]

/-! ### merge

  `merge.Op` pops the parent whose head is minimal (which one among equal heads is up to the
  heap) and emits either one value or — when the last value of the rest of that parent's batch
  is not greater than the other heads — that whole rest (`MergeStep`, Proofs/Merge). -/

/-- **merge_sorted**: for every run of that nondeterministic process over parents that are each
    sorted, the output is sorted and contains every input value exactly once. -/
theorem merge_sorted {α : Type} (le : α → α → Bool)
    (trans : ∀ a b c, le a b = true → le b c = true → le a c = true) (refl : ∀ a, le a a = true)
    (parents : List (List α)) (out : List α) (h : MergeRun le parents out)
    (hs : ∀ p ∈ parents, p.Pairwise (fun a b => le a b = true)) :
    out.Pairwise (fun a b => le a b = true) ∧ out.Perm parents.flatten :=
  Zed.merge_sorted le trans refl parents out h hs

/-- the Comparator's `le` on guarded rows satisfies the hypotheses of `merge_sorted` -/
theorem merge_sorted_rows_hyps (nullsMax : Bool) (dirs : List Bool) (m : Bool) :
    (∀ a b c : Row, a.okFor dirs m → b.okFor dirs m → c.okFor dirs m →
      leRow nullsMax dirs a b = true → leRow nullsMax dirs b c = true → leRow nullsMax dirs a c = true) ∧
    (∀ a : Row, leRow nullsMax dirs a a = true) :=
  ⟨fun a b c ha hb hc => leRow_trans nullsMax dirs m a b c ha hb hc,
   fun a => by have := leRow_total nullsMax dirs a a; simpa using this⟩

/-- Obligation on the regenerated facts: the shape of `merge.Op` the replay model
    (`Zed.Model.MergeOp`) was written for — `Pull` pops the heap's minimum, the whole-batch rule, the
    fall back to a `zbuf` puller over `Read`, `Read` taking `hol[0].vals[0]`, the heap order, EOS on an
    empty heap, and a puller batch being full at `PullerBatchValues` values. -/
theorem mergeOp_shape :
    Generated.C06.mergeBatchRule = "o.Len() == 0 || o.cmp(min.vals[len(min.vals)-1], o.hol[0].vals[0]) <= 0" ∧
    Generated.C06.mergeBatchBody =
      ["batch := min.batch", "if len(min.vals) < len(batch.Values())", "ok, err := min.replenish()",
       "if err != nil", "if ok", "return batch, nil"] ∧
    Generated.C06.mergeReadPath = ["heap.Push(o, min)", "return zbuf.NewPuller(o).Pull(false)"] ∧
    Generated.C06.mergeEos = "return nil, o.start()" ∧
    Generated.C06.mergeRead =
      ["if o.unref != nil", "if o.Len() == 0", "u := o.hol[0]", "val := &u.vals[0]", "u.vals = u.vals[1:]",
       "if len(u.vals) == 0", "heap.Fix(o, 0)", "return val, nil"] ∧
    Generated.C06.mergeLess = "o.cmp(o.hol[i].vals[0], o.hol[j].vals[0]) < 0" ∧
    Generated.C06.pullerBatchFull = "bufFull || len(b.vals) == cap(b.vals)" ∧
    Generated.C06.pullerBatchCap = "make([]zed.Value, PullerBatchValues)" ∧
    0 < pullerBatchValues := by decide

/-- **merge_sorted for every choice sequence of the heap** (`merge.Op` itself: heap of parents,
    refill, whole-batch emission rule, read path with the puller's value limit).  `acceptRun` replays
    a sequence of `Pull` results — for every value the parent the heap chose — against the rules of
    merge.go; the T2 tie sends what the real operator did.  Every accepted sequence over sorted
    parents is sorted and delivers every input value exactly once. -/
theorem mergeOp_sorted {α : Type} (le : α → α → Bool)
    (trans : ∀ a b c, le a b = true → le b c = true → le a c = true) (refl : ∀ a, le a a = true)
    (limit : Nat) (parents : MState α) (choices : List (List Nat)) (outs : List (List α))
    (hn : MNoEmpty parents) (h : acceptRun le limit parents choices = some outs)
    (hs : ∀ p ∈ parents, p.flatten.Pairwise (fun a b => le a b = true)) :
    outs.flatten.Pairwise (fun a b => le a b = true) ∧
    outs.flatten.Perm (parents.map List.flatten).flatten :=
  mergeOp_sorted_on le (fun _ => True) (fun a b c _ _ _ => trans a b c) refl limit parents choices outs hn h
    (fun _ _ _ _ _ _ => trivial) hs

/-- the same for rows under the Comparator (`Compare(a, b) <= 0`), guarded rows only -/
theorem mergeOp_sorted_rows (nullsMax : Bool) (dirs : List Bool) (m : Bool)
    (parents : MState Row) (choices : List (List Nat)) (outs : List (List Row))
    (hn : MNoEmpty parents)
    (h : acceptRun (leRowM nullsMax dirs) pullerBatchValues parents choices = some outs)
    (hok : ∀ p ∈ parents, ∀ b ∈ p, ∀ r ∈ b, r.okFor dirs m)
    (hs : ∀ p ∈ parents, p.flatten.Pairwise (fun a b => leRowM nullsMax dirs a b = true)) :
    outs.flatten.Pairwise (fun a b => leRowM nullsMax dirs a b = true) ∧
    outs.flatten.Perm (parents.map List.flatten).flatten := by
  have e : leRowM nullsMax dirs = leRow nullsMax dirs := by
    funext a b
    have := leRow_iff nullsMax dirs a b
    cases h1 : leRow nullsMax dirs a b <;> cases h2 : cmpRow nullsMax dirs a b <;>
      simp_all [leRowM]
  rw [e] at h hs ⊢
  exact mergeOp_sorted_on (leRow nullsMax dirs) (fun r => r.okFor dirs m)
    (fun a b c ha hb hc => leRow_trans nullsMax dirs m a b c ha hb hc)
    (fun a => by have := leRow_total nullsMax dirs a a; simpa using this)
    pullerBatchValues parents choices outs hn h hok hs

/-! ### nulls first or last: one flag, many sites

  `Comparator.Compare` swaps the operands of a descending key before `compareValues` applies
  `nullsMax`; nulls therefore follow the other values of a key iff `nullsMax ≠ descending`
  (`nullsLast`).  The table of every construction of a comparator in the repository is regenerated
  (`comparatorSites`: file:function, constructor, what is passed for `nullsMax`). -/

/-- Obligation on the regenerated table: these are all the places that construct a comparator and
    what each passes for `nullsMax` (a new site, or a changed argument, has to be classified here);
    `sort.Op.setComparator`, the compare() function's default, the optimizer's pruning call,
    `lake.ImportComparator` and the parallelizer's guard are the statements the model was written for. -/
theorem comparator_sites_known :
    Generated.C06.comparatorSites =
      [("cmd/super/internal/lakemanage/scan.go:newRunBuilder", "expr.NewValueCompareFn", "true"),
       ("compiler/kernel/op.go:Builder.compile", "expr.NewComparator", "true"),
       ("lake/writer.go:NewWriter", "lake.ImportComparator", "(by callee)"),
       ("lake/writer.go:NewSortedWriter", "lake.ImportComparator", "(by callee)"),
       ("lake/writer.go:ImportComparator", "zbuf.NewComparatorNullsMax", "(by callee)"),
       ("runtime/sam/expr/extent/span.go:NewGenericFromOrder", "expr.NewValueCompareFn", "o == order.Asc"),
       ("runtime/sam/expr/function/compare.go:NewCompare", "expr.NewValueCompareFn", "true"),
       ("runtime/sam/expr/function/compare.go:NewCompare", "expr.NewValueCompareFn", "false"),
       ("runtime/sam/expr/sort.go:NewCompareFn", "expr.NewComparator", "parameter nullsMax"),
       ("runtime/sam/expr/sort.go:NewValueCompareFn", "expr.NewComparator", "parameter nullsMax"),
       ("runtime/sam/op/groupby/groupby.go:NewAggregator", "expr.NewComparator", "true"),
       ("runtime/sam/op/groupby/groupby.go:NewAggregator", "expr.NewCompareFn", "true"),
       ("runtime/sam/op/groupby/groupby.go:NewAggregator", "expr.NewComparator", "true"),
       ("runtime/sam/op/join/join.go:New", "expr.NewValueCompareFn", "true"),
       ("runtime/sam/op/meta/lister.go:sortObjects", "expr.NewValueCompareFn", "true"),
       ("runtime/sam/op/meta/sequence.go:newObjectsScanner", "lake.ImportComparator", "(by callee)"),
       ("runtime/sam/op/meta/slicer.go:NewSlicer", "expr.NewValueCompareFn", "true"),
       ("runtime/sam/op/sort/sort.go:Op.setComparator", "expr.NewComparator",
         "nullsMax := !o.nullsFirst; if resolvers[0].Order == order.Desc nullsMax = !nullsMax"),
       ("runtime/sam/op/top/top.go:Op.consume", "expr.NewCompareFn", "false"),
       ("vng/primitive.go:NewPrimitiveEncoder", "expr.NewValueCompareFn", "false"),
       ("vng/primitive.go:PrimitiveEncoder.makeDict", "expr.NewValueCompareFn", "false"),
       ("zbuf/merger.go:NewComparator", "expr.NewComparator", "nullsMax := sortKeys[0].Order == order.Asc"),
       ("zbuf/merger.go:NewComparatorNullsMax", "expr.NewComparator", "true")] ∧
    (Generated.C06.comparatorSites.all fun s => (NullsRule.ofText s.2.1 s.2.2).isSome) = true ∧
    (nullIsMaxSites.all fun w =>
      Generated.C06.comparatorSites.any (·.1 == w) &&
      (Generated.C06.comparatorSites.filter (·.1 == w)).all fun s =>
        match NullsRule.ofText s.2.1 s.2.2 with
        | some (.always true) => true
        | some (.callee n) => n == "lake.ImportComparator" || n == "zbuf.NewComparatorNullsMax"
        | _ => false) = true ∧
    Generated.C06.importComparator = ["return zbuf.NewComparatorNullsMax(zctx, pool.SortKeys)"] ∧
    Generated.C06.sortSetComparator =
      ["nullsMax := !o.nullsFirst",
       "if o.reverse { for k := range resolvers { resolvers[k].Order = !resolvers[k].Order } }",
       "if resolvers[0].Order == order.Desc { nullsMax = !nullsMax }",
       "o.comparator = expr.NewComparator(nullsMax, resolvers...).WithMissingAsNull()"] ∧
    Generated.C06.compareFuncCall =
      ["nullsMax := true", "if len(args) == 3 { … nullsMax = args[2].Bool() }", "cmp := e.nullsMax",
       "if !nullsMax { cmp = e.nullsMin }", "return zed.NewInt64(int64(cmp(args[0], args[1])))"] ∧
    Generated.C06.optimizerCompare.head? = some "nullsMax := &dag.Literal{Kind: \"Literal\", Value: \"true\"}" ∧
    Generated.C06.parallelSortGuard = "op.Reverse || op.NullsFirst || op.Args[0].Order == order.Desc => return" := by
  decide

/-- **nulls_consistency** — nulls first/last across sort, merge, the lake and compare(), over the
    rules of the regenerated table:
    (a) under flag `nm` a null key of a key with direction `d` follows every non-null value iff
        `nm ≠ d`, and precedes it otherwise (both argument orders);
    (b) the sort operator puts the nulls of its first key last iff `-nulls first` is not given —
        whatever `-r`, the direction and the further keys;
    (c) every null-is-the-maximum site (lake writer and reader, kernel merge, join, groupby, lister,
        slicer: `comparator_sites_known`) puts nulls last for ascending and first for descending keys,
        and so does compare() by default and in the optimizer's pruning predicate (flag `true`);
    (d) `zbuf.NewComparator` (flag = first key ascending) puts nulls last in both directions and is the
        default sort's comparator flag;
    (e) the sort's comparator on one key is the merge's / the lake's comparator for the (possibly
        reversed) direction exactly when `nullsFirst` equals "that direction is descending"; so the
        parallelizer's guard (not `-r`, not `-nulls first`, ascending) implies equality, and a plain
        `sort k desc` does NOT have the order of a descending pool or merge. -/
theorem nulls_consistency :
    (∀ (nm d : Bool) (t : Ty) (x : Val), x.isNull = false →
      cmpKeys nm [d] [.null t] [x] = (if nullsLast nm d then .gt else .lt) ∧
      cmpKeys nm [d] [x] [.null t] = (if nullsLast nm d then .lt else .gt)) ∧
    (∀ (nf rev d : Bool) (ds : List Bool),
      nullsLast (sortConfig nf rev (d :: ds)).1 ((sortConfig nf rev (d :: ds)).2.headD false) = !nf ∧
      (sortConfig nf rev (d :: ds)).1 = NullsRule.sortFlags.flag nf false (d != rev)) ∧
    (∀ (nf p d : Bool), nullsLast ((NullsRule.always true).flag nf p d) d = !d ∧
      nullsLast ((NullsRule.callee "lake.ImportComparator").flag nf p d) d = !d ∧
      nullsLast ((NullsRule.callee "zbuf.NewComparatorNullsMax").flag nf p d) d = !d) ∧
    (∀ (nf p d : Bool), nullsLast (NullsRule.primaryAsc.flag nf p d) d = true ∧
      NullsRule.primaryAsc.flag nf p d = (sortConfig false false [d]).1) ∧
    (∀ (nf rev d : Bool), sortConfig nf rev [d] = (true, [d != rev]) ↔ nf = (d != rev)) ∧
    sortConfig false false [false] = (true, [false]) ∧
    sortConfig false false [true] ≠ (true, [true]) := by
  refine ⟨fun nm d t x hx => ⟨cmpKeys_null_left nm d t x hx, cmpKeys_null_right nm d t x hx⟩, ?_, ?_, ?_, ?_, ?_, ?_⟩
  · intro nf rev d ds; cases nf <;> cases rev <;> cases d <;> simp [sortConfig, nullsLast, NullsRule.flag]
  · intro nf p d; cases d <;> simp [nullsLast, NullsRule.flag]
  · intro nf p d; cases d <;> simp [nullsLast, NullsRule.flag, sortConfig]
  · intro nf rev d; cases nf <;> cases rev <;> cases d <;> simp [sortConfig]
  · decide
  · decide

/-- non-vacuity of the row guard -/
example : (Row.mk [.num tInt64 (.int 5), .null tFloat64] 0).okFor [false, true] true := by
  refine ⟨rfl, ?_⟩
  intro k hk
  simp only [List.mem_cons, List.mem_nil_iff, or_false] at hk
  rcases hk with rfl | rfl <;> exact ⟨by decide, by decide⟩

end Zed.Props.C06
