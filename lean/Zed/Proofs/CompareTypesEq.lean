import Zed.Proofs.CompareTypesSwap
namespace Zed
open Zed.Ord

theorem cmpS_ne_eq_diffkind (u v : Ty) (hu : u.isNamed = false) (hv : v.isNamed = false) (h : u.kind ≠ v.kind) :
    cmpS u v ≠ .eq := by
  rw [cmpS_kind u v hu hv h]; simpa [Nat.compare_eq_eq] using h

theorem cmpTy_eq_iff_of (a b : Ty) (ha : a.isNamed = false)
    (hS : a ≠ b.under → b.under.isNamed = false → cmpS a b.under ≠ .eq) :
    (cmpTy a b = .eq ↔ a = b) := by
  rw [cmpTy_def]
  have hau := Ty.under_of_not_named ha
  by_cases h : a.under = b.under
  · rw [if_pos h, cmpRank_eq, cmpChain_eq_iff]
    exact ⟨fun hr => Ty.eq_of_under_chain a b h hr, fun e => by rw [e]⟩
  · rw [if_neg h]
    constructor
    · intro he
      rw [hau] at h he
      exact absurd he (hS h (Ty.under_not_named b))
    · intro e; exact absurd (by rw [e]) h

mutual
theorem cmpTy_eq_iff : (a b : Ty) → (cmpTy a b = .eq ↔ a = b)
  | .named n x, b => by
    have hu : (Ty.named n x).under = x.under := rfl
    rw [cmpTy_def]
    by_cases h : (Ty.named n x).under = b.under
    · rw [if_pos h, cmpRank_eq, cmpChain_eq_iff]
      exact ⟨fun hr => Ty.eq_of_under_chain _ b h hr, fun e => by rw [e]⟩
    · rw [if_neg h]
      constructor
      · intro he
        rw [hu] at h he
        have ih := cmpTy_eq_iff x b.under
        rw [cmpTy_def, Ty.under_under, if_neg h] at ih
        have := ih.mp he
        exact absurd (by rw [this, Ty.under_under]) h
      · intro e; exact absurd (by rw [e]) h
  | .prim i, b => by
    refine cmpTy_eq_iff_of _ b rfl (fun h hv => ?_)
    generalize b.under = v at *
    cases v with
    | prim j => simp only [cmpS_prim, ne_eq, Nat.compare_eq_eq]; intro e; exact h (by rw [e])
    | named => simp [Ty.isNamed] at hv
    | _ => exact cmpS_ne_eq_diffkind _ _ rfl rfl (by simp)
  | .record fs, b => by
    refine cmpTy_eq_iff_of _ b rfl (fun h hv => ?_)
    generalize b.under = v at *
    cases v with
    | record gs =>
      intro he
      simp only [cmpS_record, Ordering.then_eq_eq, Nat.compare_eq_eq] at he
      exact h (by rw [cmpFs_eq fs gs he.1 he.2.1 he.2.2])
    | named => simp [Ty.isNamed] at hv
    | _ => exact cmpS_ne_eq_diffkind _ _ rfl rfl (by simp)
  | .array x, b => by
    refine cmpTy_eq_iff_of _ b rfl (fun h hv => ?_)
    generalize b.under = v at *
    cases v with
    | array y =>
      intro he; rw [cmpS_array] at he
      exact h (by rw [(cmpTy_eq_iff x y).mp he])
    | named => simp [Ty.isNamed] at hv
    | _ => exact cmpS_ne_eq_diffkind _ _ rfl rfl (by simp)
  | .set x, b => by
    refine cmpTy_eq_iff_of _ b rfl (fun h hv => ?_)
    generalize b.under = v at *
    cases v with
    | set y =>
      intro he; rw [cmpS_set] at he
      exact h (by rw [(cmpTy_eq_iff x y).mp he])
    | named => simp [Ty.isNamed] at hv
    | _ => exact cmpS_ne_eq_diffkind _ _ rfl rfl (by simp)
  | .error x, b => by
    refine cmpTy_eq_iff_of _ b rfl (fun h hv => ?_)
    generalize b.under = v at *
    cases v with
    | error y =>
      intro he; rw [cmpS_error] at he
      exact h (by rw [(cmpTy_eq_iff x y).mp he])
    | named => simp [Ty.isNamed] at hv
    | _ => exact cmpS_ne_eq_diffkind _ _ rfl rfl (by simp)
  | .map k w, b => by
    refine cmpTy_eq_iff_of _ b rfl (fun h hv => ?_)
    generalize b.under = v at *
    cases v with
    | map k' w' =>
      intro he
      simp only [cmpS_map, Ordering.then_eq_eq] at he
      exact h (by rw [(cmpTy_eq_iff k k').mp he.1, (cmpTy_eq_iff w w').mp he.2])
    | named => simp [Ty.isNamed] at hv
    | _ => exact cmpS_ne_eq_diffkind _ _ rfl rfl (by simp)
  | .union ts, b => by
    refine cmpTy_eq_iff_of _ b rfl (fun h hv => ?_)
    generalize b.under = v at *
    cases v with
    | union us =>
      intro he
      simp only [cmpS_union, Ordering.then_eq_eq, Nat.compare_eq_eq] at he
      exact h (by rw [cmpTs_eq ts us he.1 he.2])
    | named => simp [Ty.isNamed] at hv
    | _ => exact cmpS_ne_eq_diffkind _ _ rfl rfl (by simp)
  | .enum s, b => by
    refine cmpTy_eq_iff_of _ b rfl (fun h hv => ?_)
    generalize b.under = v at *
    cases v with
    | enum s' =>
      intro he
      simp only [cmpS_enum, Ordering.then_eq_eq, Nat.compare_eq_eq] at he
      exact h (by rw [(cmpNames_eq_iff s s' he.1).mp he.2])
    | named => simp [Ty.isNamed] at hv
    | _ => exact cmpS_ne_eq_diffkind _ _ rfl rfl (by simp)
theorem cmpFs_eq : (fs gs : Fields) → fs.length = gs.length →
    cmpFieldNames fs gs = .eq → cmpFs fs gs = .eq → fs = gs
  | .nil, .nil, _, _, _ => rfl
  | .nil, .cons _ _ _, hl, _, _ => by simp [Fields.length] at hl
  | .cons _ _ _, .nil, hl, _, _ => by simp [Fields.length] at hl
  | .cons n x r, .cons m y s, hl, hn, hc => by
    simp only [Fields.length, Nat.add_right_cancel_iff] at hl
    simp only [cmpFieldNames, Ordering.then_eq_eq, cmpBytes_eq_iff] at hn
    simp only [cmpFs_cons, Ordering.then_eq_eq] at hc
    rw [hn.1, (cmpTy_eq_iff x y).mp hc.1, cmpFs_eq r s hl hn.2 hc.2]
theorem cmpTs_eq : (ts us : Tys) → ts.length = us.length →
    cmpTs ts us = .eq → ts = us
  | .nil, .nil, _, _ => rfl
  | .nil, .cons _ _, hl, _ => by simp [Tys.length] at hl
  | .cons _ _, .nil, hl, _ => by simp [Tys.length] at hl
  | .cons x r, .cons y s, hl, hc => by
    simp only [Tys.length, Nat.add_right_cancel_iff] at hl
    simp only [cmpTs_cons, Ordering.then_eq_eq] at hc
    rw [(cmpTy_eq_iff x y).mp hc.1, cmpTs_eq r s hl hc.2]
end

end Zed
