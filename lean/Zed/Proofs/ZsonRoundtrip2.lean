import Zed.Proofs.ZsonRoundtrip1
/-!
  C02 — value round trip, plain fragment, part 2: records, `normalizeElems` on containers
  (uniform element type; fully populated union), arrays, sets, maps, unions, and the mutual
  induction over values (`goodV_all`).
-/
namespace Zed.Zson
open Generated

theorem mkFields_self : (fs : Fields) → mkFields fs.names (fieldTypes fs) = fs
  | .nil => rfl
  | .cons n t r => by simp [Fields.names, fieldTypes, mkFields, mkFields_self r]

theorem tvsOf_types : (fs : Fields) → (vs : Vals) → wfVals fs vs = true → (tvsOf fs vs).map (·.1) = fieldTypes fs
  | .nil, .nil, _ => rfl
  | .cons _ t fr, .cons v vr, h => by
    simp only [wfVals, Bool.and_eq_true] at h
    simp [tvsOf, fieldTypes, tvsOf_types fr vr h.2]
  | .nil, .cons _ _, h => by simp [wfVals] at h
  | .cons _ _ _, .nil, h => by simp [wfVals] at h

theorem tvsOf_vals : (fs : Fields) → (vs : Vals) → wfVals fs vs = true →
    Vals.ofList ((tvsOf fs vs).map (·.2)) = stripVals vs
  | .nil, .nil, _ => rfl
  | .cons _ t fr, .cons v vr, h => by
    simp only [wfVals, Bool.and_eq_true] at h
    simp [tvsOf, Vals.ofList, stripVals, tvsOf_vals fr vr h.2]
  | .nil, .cons _ _, h => by simp [wfVals] at h
  | .cons _ _ _, .nil, h => by simp [wfVals] at h

theorem ofList_map_strip : (vs : Vals) → Vals.ofList (vs.toList.map strip) = stripVals vs
  | .nil => rfl
  | .cons v r => by simp [Vals.toList, Vals.ofList, stripVals, ofList_map_strip r]

theorem decoP_selfdesc (t : Ty) (h : selfDescribing t = true) : decoP t false = [] := by
  unfold decoP
  by_cases hi : implied t = true <;> simp [hi, h]

theorem good_record (fs : Fields) (vs : Vals) (e : Bool) (hp : plainTy (.record fs) = true)
    (hw : wfTy (.record fs) = true) (hv : wfVal (.record fs) (.record vs) = true)
    (hF : GoodFields fs vs) : GoodV (.record fs) (.record vs) e := by
  intro pi fst a0
  obtain ⟨afs, hf, hn, hl, hA, hB⟩ := hF pi fst a0
  simp only [wfVal] at hv
  have hw' := hw
  simp only [wfTy, Bool.and_eq_true, Bool.not_eq_true'] at hw'
  have hfmt : fmtValue fst (.record fs) (.record vs) false pi true e = (fst, .record afs, []) := by
    simp [fmtValue, hasName_plain fst _ hp, hf, finish, decorateM_plain fst _ false hp,
      decoP_selfdesc (.record fs) (by simp [selfDescribing])]
  refine ⟨_, _, hfmt, by simp, ?_, ?_⟩
  · have : expA (.record fs) (.record vs) e = (.record fs, .record (stripVals vs)) := by
      simp [expA, Ty.isUnion, strip]
    rw [this]
    simp [convertValue, viaUnion, convertAny, hA, hn, tvsOf_types fs vs hv, mkFields_self, hw'.2,
      tvsOf_vals fs vs hv, bind, Except.bind, pure, Except.pure]
  · intro _
    simp [convertValue, viaUnion, Ty.under, unionMembers, convertAny, hl, hB, tvsOf_vals fs vs hv, strip,
      bind, Except.bind, pure, Except.pure]


/-! ### `normalizeElems` -/

theorem foldl_insertUniq_same (et : Ty) : (n : Nat) →
    (List.replicate n et).foldl (fun acc t => insertUniq t acc) [et] = [et]
  | 0 => rfl
  | n + 1 => by simp [List.replicate, List.foldl, insertUniq, foldl_insertUniq_same et n]

theorem uniqueTypes_const {α} (et : Ty) (l : List α) (hne : l ≠ []) :
    uniqueTypes (l.map (fun _ => et)) = if et = tyNull then [] else [et] := by
  unfold uniqueTypes
  have hm : l.map (fun _ => et) = List.replicate l.length et := by
    induction l with
    | nil => rfl
    | cons a r ih => simp [List.replicate]
  rw [hm]
  by_cases hn : et = tyNull
  · subst hn; simp
  · have : (List.replicate l.length et).filter (· != tyNull) = List.replicate l.length et := by
      apply List.filter_eq_self.mpr
      intro x hx
      have := List.eq_of_mem_replicate hx
      simp [this, hn]
    rw [this]
    cases l with
    | nil => exact absurd rfl hne
    | cons a r =>
      simp only [List.length_cons, List.replicate, List.foldl, insertUniq, hn, if_false]
      exact foldl_insertUniq_same et r.length

theorem norm_nonunion {α} (et : Ty) (l : List α) (f : α → Val) (hne : l ≠ []) :
    normalizeElems (l.map (fun v => (et, f v))) = .ok (l.map f, et) := by
  unfold normalizeElems
  have h1 : (l.map (fun v => (et, f v))).map (·.1) = l.map (fun _ => et) := by simp [List.map_map, Function.comp_def]
  have h2 : (l.map (fun v => (et, f v))).map (·.2) = l.map f := by simp [List.map_map, Function.comp_def]
  rw [h1, h2, uniqueTypes_const et l hne]
  by_cases hn : et = tyNull
  · subst hn; simp
  · simp [hn]

theorem wf_tyNull (v : Val) (h : wfVal tyNull v = true) : v = .null := by
  cases v <;> simp_all [wfVal, tyNull, primOK]
  all_goals (exact absurd h.1.1 (by decide))

theorem get?_mem : (ts : Tys) → (n : Nat) → (m : Ty) → ts.get? n = some m → m ∈ ts.toList
  | .cons t r, 0, m, h => by simp [Tys.get?] at h; simp [Tys.toList, h]
  | .cons t r, n + 1, m, h => by
    simp only [Tys.get?] at h
    simp [Tys.toList, get?_mem r n m h]
  | .nil, _, _, h => by simp [Tys.get?] at h

theorem indexOf_get? : (ts : Tys) → (n : Nat) → (m : Ty) → chain ts.toList = true → ts.get? n = some m →
    ts.indexOf m = some n
  | .cons t r, 0, m, _, h => by simp [Tys.get?] at h; simp [Tys.indexOf, h]
  | .cons t r, n + 1, m, hc, h => by
    simp only [Tys.get?] at h
    simp only [Tys.toList, chain, Bool.and_eq_true] at hc
    have hm := get?_mem r n m h
    have hne := (chainFrom_mem t r.toList hc.1 m hm).2.2
    simp [Tys.indexOf, hne, indexOf_get? r n m hc.2 h]
  | .nil, _, _, _, h => by simp [Tys.get?] at h

/-- the member type an element of a union container is analysed to. -/
def elemTy (ts : Tys) : Val → Ty
  | .union tag _ => (ts.get? tag).getD tyNull
  | _ => tyNull

theorem expA_union_fst (ts : Tys) (v : Val) : (expA (.union ts) v true).1 = elemTy ts v := by
  cases v <;> simp [expA, Ty.isUnion, elemTy]

theorem seen_props (ts : Tys) : (vs : Vals) → (acc : List Ty) → acc.Nodup →
    (seenTypes (.union ts) vs acc).Nodup ∧
    ∀ x ∈ seenTypes (.union ts) vs acc, x ∈ acc ∨ ∃ v ∈ vs.toList, elemMember (.union ts) v = some x
  | .nil, acc, h => by
    simp only [seenTypes]
    exact ⟨h, fun x hx => Or.inl hx⟩
  | .cons v r, acc, h => by
    simp only [seenTypes]
    have hn : (seenAdd acc (elemMember (.union ts) v)).Nodup := by
      unfold seenAdd
      cases hm : elemMember (.union ts) v with
      | none => exact h
      | some t =>
        simp only
        split
        · exact h
        · rename_i hc
          exact List.nodup_cons.mpr ⟨by simpa using hc, h⟩
    obtain ⟨h1, h2⟩ := seen_props ts r _ hn
    refine ⟨h1, fun x hx => ?_⟩
    rcases h2 x hx with h3 | ⟨w, hw, he⟩
    · unfold seenAdd at h3
      cases hm : elemMember (.union ts) v with
      | none => rw [hm] at h3; exact Or.inl h3
      | some t =>
        rw [hm] at h3
        simp only at h3
        split at h3
        · exact Or.inl h3
        · rcases List.mem_cons.mp h3 with h4 | h4
          · exact Or.inr ⟨v, by simp [Vals.toList], by rw [hm, h4]⟩
          · exact Or.inl h4
    · exact Or.inr ⟨w, by simp [Vals.toList, hw], he⟩

theorem Tys.toList_length : (ts : Tys) → ts.toList.length = ts.length
  | .nil => rfl
  | .cons _ r => by simp [Tys.toList, Tys.length, Tys.toList_length r]

theorem wfElems_mem (et : Ty) : (vs : Vals) → wfElems et vs = true → ∀ v ∈ vs.toList, wfVal et v = true
  | .nil, _, v, hv => by simp [Vals.toList] at hv
  | .cons x r, h, v, hv => by
    simp only [wfElems, Bool.and_eq_true] at h
    rcases List.mem_cons.mp (by simpa [Vals.toList] using hv) with rfl | h2
    · exact h.1
    · exact wfElems_mem et r h.2 v h2

theorem mapM_ok {α β} (f : α → Except Err β) (g : α → β) : (l : List α) → (∀ x ∈ l, f x = .ok (g x)) →
    l.mapM f = .ok (l.map g)
  | [], _ => rfl
  | x :: r, h => by
    simp [List.mapM_cons, h x (by simp), mapM_ok f g r (fun y hy => h y (by simp [hy])), bind, Except.bind, pure, Except.pure]

theorem norm_union (ts : Tys) (vs : Vals) (hw : wfTy (.union ts) = true)
    (hv : wfElems (.union ts) vs = true)
    (hseen : needsDecoration (.union ts) (seenTypes (.union ts) vs []) = false) :
    normalizeElems (vs.toList.map (fun v => expA (.union ts) v true)) =
      .ok (vs.toList.map strip, .union ts) := by
  simp only [wfTy, Bool.and_eq_true, decide_eq_true_eq] at hw
  obtain ⟨⟨_, hlen⟩, hchain⟩ := hw
  -- elements are nulls or tagged members
  have helems : ∀ v ∈ vs.toList, v = .null ∨ ∃ tag inner m, v = .union tag inner ∧ ts.get? tag = some m ∧ m ≠ tyNull := by
    intro v hvm
    have hwv := wfElems_mem _ vs hv v hvm
    cases v with
    | null => exact Or.inl rfl
    | union tag inner =>
      simp only [wfVal, Bool.and_eq_true, bne_iff_ne, ne_eq] at hwv
      cases hg : ts.get? tag with
      | none => simp [hg] at hwv
      | some m =>
        simp only [hg] at hwv
        refine Or.inr ⟨tag, inner, m, rfl, hg, ?_⟩
        intro hm; subst hm
        exact hwv.1 (wf_tyNull inner hwv.2)
    | _ => simp [wfVal] at hwv
  -- the seen set covers every member
  have hsp := seen_props ts vs [] List.nodup_nil
  have hcov : ∀ m ∈ ts.toList, m ∈ seenTypes (.union ts) vs [] := by
    apply covers_of_length _ _ hsp.1
    · intro x hx
      rcases hsp.2 x hx with h | ⟨v, hvm, he⟩
      · simp at h
      · rcases helems v hvm with rfl | ⟨tag, inner, m, rfl, hg, _⟩
        · simp [elemMember] at he
        · simp only [elemMember, hg, Option.some.injEq] at he
          subst he; exact get?_mem ts tag m hg
    · simp only [needsDecoration, Ty.under, unionLen, Ty.isNamed, Bool.false_or, decide_eq_false_iff_not,
        Nat.not_lt] at hseen
      have := Tys.toList_length ts
      omega
  -- types of the analysed elements
  let L := vs.toList.map (elemTy ts)
  have hL : (vs.toList.map (fun v => expA (.union ts) v true)).map (·.1) = L := by
    simp [L, List.map_map, Function.comp_def, expA_union_fst]
  have h1 : ∀ x ∈ L.filter (· != tyNull), x ∈ ts.toList := by
    intro x hx
    obtain ⟨hxL, hxn⟩ := List.mem_filter.mp hx
    obtain ⟨v, hvm, rfl⟩ := List.mem_map.mp hxL
    rcases helems v hvm with rfl | ⟨tag, inner, m, rfl, hg, _⟩
    · simp [elemTy] at hxn
    · simp only [elemTy, hg, Option.getD_some]; exact get?_mem ts tag m hg
  have h2 : ∀ m ∈ ts.toList, m ∈ L.filter (· != tyNull) := by
    intro m hm
    rcases hsp.2 m (hcov m hm) with h | ⟨v, hvm, he⟩
    · simp at h
    · rcases helems v hvm with rfl | ⟨tag, inner, m', rfl, hg, hne⟩
      · simp [elemMember] at he
      · simp only [elemMember, hg, Option.some.injEq] at he
        subst he
        apply List.mem_filter.mpr
        refine ⟨List.mem_map.mpr ⟨_, hvm, by simp [elemTy, hg]⟩, by simpa using hne⟩
  have huniq : uniqueTypes L = ts.toList := by
    unfold uniqueTypes
    exact foldl_insertUniq_eq ts.toList hchain _ h1 h2
  unfold normalizeElems
  rw [hL, huniq]
  -- at least two members
  have hlen2 : 2 ≤ ts.toList.length := by
    have := Tys.toList_length ts
    omega
  match hts : ts.toList, hlen2 with
  | a :: b :: rest, _ =>
    simp only
    rw [← hts, lookupUnion_chain ts hchain]
    simp only
    have hmap : (vs.toList.map (fun v => expA (.union ts) v true)).mapM
        (fun tv => (convertUnion tv ts (.union ts)).map (·.2)) =
        .ok ((vs.toList.map (fun v => expA (.union ts) v true)).map (fun tv =>
          if tv.1 = tyNull then Val.null else .union ((ts.indexOf tv.1).getD 0) tv.2)) := by
      apply mapM_ok
      intro tv htv
      obtain ⟨v, hvm, rfl⟩ := List.mem_map.mp htv
      rcases helems v hvm with rfl | ⟨tag, inner, m, rfl, hg, hne⟩
      · simp [expA, Ty.isUnion, convertUnion, Except.map]
      · simp [expA, Ty.isUnion, convertUnion, hg, hne, indexOf_get? ts tag m hchain hg, Except.map]
    rw [hmap]
    simp only [bind, Except.bind, pure, Except.pure, List.map_map]
    congr 2
    apply List.map_congr_left
    intro v hvm
    rcases helems v hvm with rfl | ⟨tag, inner, m, rfl, hg, hne⟩
    · simp [expA, Ty.isUnion, strip]
    · simp [expA, Ty.isUnion, strip, hg, hne, indexOf_get? ts tag m hchain hg]


/-- `value (T)` when the inner value has no typedefs to enter: the inner value is converted
    with the decorator type as enclosing type. -/
theorem conv_cast (st : AState) (y : AVal) (T : ATy) (t : Ty) (p : Option Ty)
    (hpre : preDefs st y = .ok st)
    (hT : convertType st T = .ok (st, t)) (hu : unionMembers t.under = none)
    (hp : p = none ∨ p = some t) :
    convertValue st (.cast y T) p = convertValue st y (some t) := by
  simp only [convertValue, hpre, pure, Except.pure, bind, Except.bind, hT, castStep, hu]
  rcases hp with rfl | rfl
  · simp only [typeCheck]
    cases convertValue st y (some t) <;> rfl
  · simp only [typeCheck, if_true, hu]
    cases convertValue st y (some t) <;> rfl

theorem conv_implied_some (st : AState) (a : AAny) (t : Ty) (hu : unionMembers t.under = none) :
    convertValue st (.implied a) (some t) = convertAny st a (some t) := by
  simp [convertValue, viaUnion, hu]

theorem tyNull_ne_array (et : Ty) : Ty.array et ≠ tyNull := by simp [tyNull]
theorem tyNull_ne_set (et : Ty) : Ty.set et ≠ tyNull := by simp [tyNull]
theorem tyNull_ne_map (k v : Ty) : Ty.map k v ≠ tyNull := by simp [tyNull]

theorem needsDecoration_notUnion (et : Ty) (seen : List Ty) (hp : plainTy et = true) (h : et.isUnion = false) :
    needsDecoration et seen = false := by
  unfold needsDecoration
  rw [under_plain et hp]
  cases et <;> simp_all [unionLen, Ty.isUnion]

theorem expA_notUnion (et : Ty) (v : Val) (e : Bool) (h : et.isUnion = false) : expA et v e = (et, strip v) := by
  simp [expA, h]

theorem good_array (et : Ty) (vs : Vals) (e : Bool) (hp : plainTy (.array et) = true)
    (hw : wfTy (.array et) = true) (hv : wfVal (.array et) (.array vs) = true)
    (hE : GoodElems et vs) : GoodV (.array et) (.array vs) e := by
  intro pi fst a0
  obtain ⟨asts, hf, hA, hB⟩ := hE pi fst a0
  simp only [wfVal] at hv
  have hpe : plainTy et = true := by simpa [plainTy] using hp
  have hwe : wfTy et = true := by simpa [wfTy] using hw
  have hT := convertType_plain a0 (.array et) hp hw
  have hu : unionMembers (Ty.array et).under = none := rfl
  have hexp : expA (.array et) (.array vs) e = (.array et, .array (stripVals vs)) := by
    simp [expA, Ty.isUnion, strip]
  have hstrip : strip (.array vs) = .array (stripVals vs) := by simp [strip]
  -- conversion of the `Any` under the array type
  have hcast : convertAny a0 (.array asts) (some (.array et)) = .ok (a0, (.array et, .array (stripVals vs))) := by
    simp [convertAny, Ty.under, hB, bind, Except.bind, pure, Except.pure, List.map_map, Function.comp_def,
      ofList_map_strip]
  have hdeco : ∀ d ∈ [Deco.cast (tyAst (Ty.array et))], GoodDeco d := by
    intro d hd; simp at hd; subst hd; exact ⟨_, hp, hw, rfl⟩
  cases vs with
  | nil =>
    have hfmt : fmtValue fst (.array et) (.array .nil) false pi true e =
        (fst, .array asts, [.cast (tyAst (.array et))]) := by
      simp [fmtValue, hasName_plain fst _ hp, hf, finish, decorateM_plain fst _ true hp, decoP_null_eq,
        tyNull_ne_array]
    refine ⟨_, _, hfmt, hdeco, ?_, ?_⟩
    · rw [hexp, mkVal_cast1, conv_cast_implied a0 _ _ _ none hT hu (Or.inl rfl)]; exact hcast
    · intro _
      rw [hstrip, mkVal_cast1, conv_cast_implied a0 _ _ _ (some _) hT hu (Or.inr rfl)]; exact hcast
  | cons x r =>
    by_cases hnd : needsDecoration et (seenTypes et (.cons x r) []) = true
    · have hfmt : fmtValue fst (.array et) (.array (.cons x r)) false pi true e =
          (fst, .array asts, [.cast (tyAst (.array et))]) := by
        simp [fmtValue, hasName_plain fst _ hp, hf, finish, decorateM_plain fst _ true hp,
          decorateM_plain fst _ false hp, decoP_null_eq, tyNull_ne_array, hnd,
          decoP_selfdesc (.array et) (by simp [selfDescribing])]
      refine ⟨_, _, hfmt, hdeco, ?_, ?_⟩
      · rw [hexp, mkVal_cast1, conv_cast_implied a0 _ _ _ none hT hu (Or.inl rfl)]; exact hcast
      · intro _
        rw [hstrip, mkVal_cast1, conv_cast_implied a0 _ _ _ (some _) hT hu (Or.inr rfl)]; exact hcast
    · have hnd' : needsDecoration et (seenTypes et (.cons x r) []) = false := by simpa using hnd
      have hfmt : fmtValue fst (.array et) (.array (.cons x r)) false pi true e = (fst, .array asts, []) := by
        simp [fmtValue, hasName_plain fst _ hp, hf, finish, decorateM_plain fst _ false hp, hnd',
          decoP_selfdesc (.array et) (by simp [selfDescribing])]
      refine ⟨_, _, hfmt, by simp, ?_, ?_⟩
      · rw [hexp, mkVal_nil]
        have hnorm : normalizeElems ((Vals.cons x r).toList.map (fun v => expA et v true)) =
            .ok ((Vals.cons x r).toList.map strip, et) := by
          by_cases hun : et.isUnion = true
          · obtain ⟨ts, rfl⟩ : ∃ ts, et = .union ts := by
              cases et <;> simp_all [Ty.isUnion]
            exact norm_union ts _ hwe hv hnd'
          · have hun' : et.isUnion = false := by simpa using hun
            simp only [expA_notUnion et _ true hun']
            exact norm_nonunion et _ strip (by simp [Vals.toList])
        have hne : ((Vals.cons x r).toList.map (fun v => expA et v true)).isEmpty = false := by
          simp [Vals.toList]
        simp only [convertValue, viaUnion, convertAny, hA, bind, Except.bind, pure, Except.pure, hne, hnorm]
        simp [ofList_map_strip]
      · intro _
        rw [hstrip, mkVal_nil, conv_implied_some a0 _ _ hu]; exact hcast

theorem good_set (et : Ty) (vs : Vals) (e : Bool) (hp : plainTy (.set et) = true)
    (hw : wfTy (.set et) = true) (hv : wfVal (.set et) (.set vs) = true)
    (hE : GoodElems et vs) : GoodV (.set et) (.set vs) e := by
  intro pi fst a0
  obtain ⟨asts, hf, hA, hB⟩ := hE pi fst a0
  simp only [wfVal] at hv
  have hpe : plainTy et = true := by simpa [plainTy] using hp
  have hwe : wfTy et = true := by simpa [wfTy] using hw
  have hT := convertType_plain a0 (.set et) hp hw
  have hu : unionMembers (Ty.set et).under = none := rfl
  have hexp : expA (.set et) (.set vs) e = (.set et, .set (stripVals vs)) := by
    simp [expA, Ty.isUnion, strip]
  have hstrip : strip (.set vs) = .set (stripVals vs) := by simp [strip]
  -- conversion of the `Any` under the array type
  have hcast : convertAny a0 (.set asts) (some (.set et)) = .ok (a0, (.set et, .set (stripVals vs))) := by
    simp [convertAny, Ty.under, hB, bind, Except.bind, pure, Except.pure, List.map_map, Function.comp_def,
      ofList_map_strip]
  have hdeco : ∀ d ∈ [Deco.cast (tyAst (Ty.set et))], GoodDeco d := by
    intro d hd; simp at hd; subst hd; exact ⟨_, hp, hw, rfl⟩
  cases vs with
  | nil =>
    have hfmt : fmtValue fst (.set et) (.set .nil) false pi true e =
        (fst, .set asts, [.cast (tyAst (.set et))]) := by
      simp [fmtValue, hasName_plain fst _ hp, hf, finish, decorateM_plain fst _ true hp, decoP_null_eq,
        tyNull_ne_set]
    refine ⟨_, _, hfmt, hdeco, ?_, ?_⟩
    · rw [hexp, mkVal_cast1, conv_cast_implied a0 _ _ _ none hT hu (Or.inl rfl)]; exact hcast
    · intro _
      rw [hstrip, mkVal_cast1, conv_cast_implied a0 _ _ _ (some _) hT hu (Or.inr rfl)]; exact hcast
  | cons x r =>
    by_cases hnd : needsDecoration et (seenTypes et (.cons x r) []) = true
    · have hfmt : fmtValue fst (.set et) (.set (.cons x r)) false pi true e =
          (fst, .set asts, [.cast (tyAst (.set et))]) := by
        simp [fmtValue, hasName_plain fst _ hp, hf, finish, decorateM_plain fst _ true hp,
          decorateM_plain fst _ false hp, decoP_null_eq, tyNull_ne_set, hnd,
          decoP_selfdesc (.set et) (by simp [selfDescribing])]
      refine ⟨_, _, hfmt, hdeco, ?_, ?_⟩
      · rw [hexp, mkVal_cast1, conv_cast_implied a0 _ _ _ none hT hu (Or.inl rfl)]; exact hcast
      · intro _
        rw [hstrip, mkVal_cast1, conv_cast_implied a0 _ _ _ (some _) hT hu (Or.inr rfl)]; exact hcast
    · have hnd' : needsDecoration et (seenTypes et (.cons x r) []) = false := by simpa using hnd
      have hfmt : fmtValue fst (.set et) (.set (.cons x r)) false pi true e = (fst, .set asts, []) := by
        simp [fmtValue, hasName_plain fst _ hp, hf, finish, decorateM_plain fst _ false hp, hnd',
          decoP_selfdesc (.set et) (by simp [selfDescribing])]
      refine ⟨_, _, hfmt, by simp, ?_, ?_⟩
      · rw [hexp, mkVal_nil]
        have hnorm : normalizeElems ((Vals.cons x r).toList.map (fun v => expA et v true)) =
            .ok ((Vals.cons x r).toList.map strip, et) := by
          by_cases hun : et.isUnion = true
          · obtain ⟨ts, rfl⟩ : ∃ ts, et = .union ts := by
              cases et <;> simp_all [Ty.isUnion]
            exact norm_union ts _ hwe hv hnd'
          · have hun' : et.isUnion = false := by simpa using hun
            simp only [expA_notUnion et _ true hun']
            exact norm_nonunion et _ strip (by simp [Vals.toList])
        have hne : ((Vals.cons x r).toList.map (fun v => expA et v true)).isEmpty = false := by
          simp [Vals.toList]
        simp only [convertValue, viaUnion, convertAny, hA, bind, Except.bind, pure, Except.pure, hne, hnorm]
        simp [ofList_map_strip]
      · intro _
        rw [hstrip, mkVal_nil, conv_implied_some a0 _ _ hu]; exact hcast

theorem seenKeys_eq (kt : Ty) : (es : Entries) → (acc : List Ty) →
    seenKeys kt es acc = seenTypes kt (Vals.ofList (entryKeys es)) acc
  | .nil, _ => rfl
  | .cons k _ r, acc => by simp [seenKeys, entryKeys, Vals.ofList, seenTypes, seenKeys_eq kt r]

theorem seenVals_eq (vt : Ty) : (es : Entries) → (acc : List Ty) →
    seenVals vt es acc = seenTypes vt (Vals.ofList (entryVals es)) acc
  | .nil, _ => rfl
  | .cons _ v r, acc => by simp [seenVals, entryVals, Vals.ofList, seenTypes, seenVals_eq vt r]

theorem Vals.toList_ofList : (l : List Val) → (Vals.ofList l).toList = l
  | [] => rfl
  | v :: r => by simp [Vals.ofList, Vals.toList, Vals.toList_ofList r]

theorem wfEntries_keys (kt vt : Ty) : (es : Entries) → wfEntries kt vt es = true →
    wfElems kt (Vals.ofList (entryKeys es)) = true ∧ wfElems vt (Vals.ofList (entryVals es)) = true
  | .nil, _ => by simp [entryKeys, entryVals, Vals.ofList, wfElems]
  | .cons k v r, h => by
    simp only [wfEntries, Bool.and_eq_true] at h
    have := wfEntries_keys kt vt r h.2
    simp [entryKeys, entryVals, Vals.ofList, wfElems, h.1.1, h.1.2, this.1, this.2]

theorem entriesOf_strip : (es : Entries) →
    entriesOf ((entryKeys es).map strip) ((entryVals es).map strip) = stripEntries es
  | .nil => rfl
  | .cons k v r => by simp [entryKeys, entryVals, entriesOf, stripEntries, entriesOf_strip r]

/-- `normalizeElems` on one side of a map whose sides need no decorator. -/
theorem norm_side (et : Ty) (l : List Val) (hne : l ≠ []) (hpe : plainTy et = true) (hwe : wfTy et = true)
    (hv : wfElems et (Vals.ofList l) = true)
    (hnd : needsDecoration et (seenTypes et (Vals.ofList l) []) = false) :
    normalizeElems (l.map (fun v => expA et v true)) = .ok (l.map strip, et) := by
  by_cases hun : et.isUnion = true
  · obtain ⟨ts, rfl⟩ : ∃ ts, et = .union ts := by
      cases et <;> simp_all [Ty.isUnion]
    have := norm_union ts (Vals.ofList l) hwe hv hnd
    rwa [Vals.toList_ofList] at this
  · have hun' : et.isUnion = false := by simpa using hun
    simp only [expA_notUnion et _ true hun']
    exact norm_nonunion et _ strip hne

theorem good_map (kt vt : Ty) (es : Entries) (e : Bool) (hp : plainTy (.map kt vt) = true)
    (hw : wfTy (.map kt vt) = true) (hv : wfVal (.map kt vt) (.map es) = true)
    (hE : GoodEntries kt vt es) : GoodV (.map kt vt) (.map es) e := by
  intro pi fst a0
  obtain ⟨aes, hf, hA, hB⟩ := hE pi fst a0
  simp only [wfVal] at hv
  have hpk : plainTy kt = true ∧ plainTy vt = true := by simpa [plainTy] using hp
  have hwk : wfTy kt = true ∧ wfTy vt = true := by simpa [wfTy] using hw
  have hT := convertType_plain a0 (.map kt vt) hp hw
  have hu : unionMembers (Ty.map kt vt).under = none := rfl
  have hexp : expA (.map kt vt) (.map es) e = (.map kt vt, .map (stripEntries es)) := by
    simp [expA, Ty.isUnion, strip]
  have hstrip : strip (.map es) = .map (stripEntries es) := by simp [strip]
  have hcast : convertAny a0 (.map aes) (some (.map kt vt)) = .ok (a0, (.map kt vt, .map (stripEntries es))) := by
    simp [convertAny, Ty.under, hB, bind, Except.bind, pure, Except.pure, List.map_map, Function.comp_def,
      entriesOf_strip]
  have hgd : GoodDeco (Deco.cast (tyAst (Ty.map kt vt))) := ⟨_, hp, hw, rfl⟩
  have hpre : preDefs a0 (.cast (.implied (.map aes)) (tyAst (.map kt vt))) = .ok a0 := by
    simp [preDefs, hT, bind, Except.bind, pure, Except.pure]
  by_cases hnd : (needsDecoration kt (seenKeys kt es []) || needsDecoration vt (seenVals vt es [])) = true
  · cases es with
    | nil =>
      have hfmt : fmtValue fst (.map kt vt) (.map .nil) false pi true e =
          (fst, .map aes, [.cast (tyAst (.map kt vt)), .cast (tyAst (.map kt vt))]) := by
        simp [fmtValue, hasName_plain fst _ hp, hf, finish, decorateM_plain fst _ true hp, decoP_null_eq,
          tyNull_ne_map, hnd]
      refine ⟨_, _, hfmt, by intro d hd; simp at hd; subst hd; exact hgd, ?_, ?_⟩
      · rw [hexp, mkVal_cast2, conv_cast a0 _ _ _ none hpre hT hu (Or.inl rfl),
          conv_cast_implied a0 _ _ _ (some _) hT hu (Or.inr rfl)]; exact hcast
      · intro _
        rw [hstrip, mkVal_cast2, conv_cast a0 _ _ _ (some _) hpre hT hu (Or.inr rfl),
          conv_cast_implied a0 _ _ _ (some _) hT hu (Or.inr rfl)]; exact hcast
    | cons k v r =>
      have hfmt : fmtValue fst (.map kt vt) (.map (.cons k v r)) false pi true e =
          (fst, .map aes, [.cast (tyAst (.map kt vt))]) := by
        simp [fmtValue, hasName_plain fst _ hp, hf, finish, decorateM_plain fst _ true hp,
          decorateM_plain fst _ false hp, decoP_null_eq, tyNull_ne_map, hnd,
          decoP_selfdesc (.map kt vt) (by simp [selfDescribing])]
      refine ⟨_, _, hfmt, by intro d hd; simp at hd; subst hd; exact hgd, ?_, ?_⟩
      · rw [hexp, mkVal_cast1, conv_cast_implied a0 _ _ _ none hT hu (Or.inl rfl)]; exact hcast
      · intro _
        rw [hstrip, mkVal_cast1, conv_cast_implied a0 _ _ _ (some _) hT hu (Or.inr rfl)]; exact hcast
  · have hnd' : (needsDecoration kt (seenKeys kt es []) || needsDecoration vt (seenVals vt es [])) = false := by
      simpa using hnd
    simp only [Bool.or_eq_false_iff] at hnd'
    cases es with
    | nil =>
      have hfmt : fmtValue fst (.map kt vt) (.map .nil) false pi true e =
          (fst, .map aes, [.cast (tyAst (.map kt vt))]) := by
        simp [fmtValue, hasName_plain fst _ hp, hf, finish, decorateM_plain fst _ true hp, decoP_null_eq,
          tyNull_ne_map, hnd'.1, hnd'.2]
      refine ⟨_, _, hfmt, by intro d hd; simp at hd; subst hd; exact hgd, ?_, ?_⟩
      · rw [hexp, mkVal_cast1, conv_cast_implied a0 _ _ _ none hT hu (Or.inl rfl)]; exact hcast
      · intro _
        rw [hstrip, mkVal_cast1, conv_cast_implied a0 _ _ _ (some _) hT hu (Or.inr rfl)]; exact hcast
    | cons k v r =>
      have hfmt : fmtValue fst (.map kt vt) (.map (.cons k v r)) false pi true e = (fst, .map aes, []) := by
        simp [fmtValue, hasName_plain fst _ hp, hf, finish, decorateM_plain fst _ false hp, hnd'.1, hnd'.2,
          decoP_selfdesc (.map kt vt) (by simp [selfDescribing])]
      refine ⟨_, _, hfmt, by simp, ?_, ?_⟩
      · rw [hexp, mkVal_nil]
        have hwe := wfEntries_keys kt vt _ hv
        have hk := norm_side kt (entryKeys (.cons k v r)) (by simp [entryKeys]) hpk.1 hwk.1 hwe.1
          (by rw [← seenKeys_eq]; exact hnd'.1)
        have hvv := norm_side vt (entryVals (.cons k v r)) (by simp [entryVals]) hpk.2 hwk.2 hwe.2
          (by rw [← seenVals_eq]; exact hnd'.2)
        have hne : ((entryKeys (Entries.cons k v r)).map (fun v => expA kt v true)).isEmpty = false := by
          simp [entryKeys]
        simp only [convertValue, viaUnion, convertAny, hA, bind, Except.bind, pure, Except.pure, hne, hk, hvv]
        simp [entriesOf_strip]
      · intro _
        rw [hstrip, mkVal_nil, conv_implied_some a0 _ _ hu]; exact hcast

theorem mkVal_shape (any : AAny) (ds : List Deco) (h : ∀ d ∈ ds, GoodDeco d) :
    mkVal any ds = .implied any ∨ ∃ y t', plainTy t' = true ∧ wfTy t' = true ∧ mkVal any ds = .cast y (tyAst t') := by
  rcases List.eq_nil_or_concat ds with rfl | ⟨ds', d, rfl⟩
  · exact Or.inl rfl
  · obtain ⟨t', hp, hw, rfl⟩ := h d (by simp)
    refine Or.inr ⟨mkVal any ds', t', hp, hw, ?_⟩
    have := mkVal_append_cast any (tyAst t') ds' (fun x hx => (h x (by simp [hx])).isCast)
    simpa using this

theorem preDefs_mkVal (a0 : AState) (any : AAny) (ds : List Deco) (h : ∀ d ∈ ds, GoodDeco d) :
    preDefs a0 (mkVal any ds) = .ok a0 := by
  rcases mkVal_shape any ds h with h1 | ⟨y, t', hp, hw, h1⟩
  · rw [h1]; rfl
  · rw [h1]; simp [preDefs, convertType_plain a0 t' hp hw, bind, Except.bind, pure, Except.pure]

theorem mkVal_not_def (any : AAny) (ds : List Deco) (h : ∀ d ∈ ds, GoodDeco d) :
    ∀ a n, mkVal any ds ≠ .def_ a n := by
  intro a n
  rcases mkVal_shape any ds h with h1 | ⟨y, t', _, _, h1⟩ <;> rw [h1] <;> simp

theorem plainTys_get : (ts : Tys) → (n : Nat) → (m : Ty) → plainTys ts = true → ts.get? n = some m → plainTy m = true
  | .cons t r, 0, m, h, hg => by
    simp only [plainTys, Bool.and_eq_true] at h
    simp [Tys.get?] at hg; subst hg; exact h.1
  | .cons t r, n + 1, m, h, hg => by
    simp only [plainTys, Bool.and_eq_true] at h
    simp only [Tys.get?] at hg
    exact plainTys_get r n m h.2 hg
  | .nil, _, _, _, hg => by simp [Tys.get?] at hg

theorem wfTys_get : (ts : Tys) → (n : Nat) → (m : Ty) → wfTys ts = true → ts.get? n = some m → wfTy m = true
  | .cons t r, 0, m, h, hg => by
    simp only [wfTys, Bool.and_eq_true] at h
    simp [Tys.get?] at hg; subst hg; exact h.1
  | .cons t r, n + 1, m, h, hg => by
    simp only [wfTys, Bool.and_eq_true] at h
    simp only [Tys.get?] at hg
    exact wfTys_get r n m h.2 hg
  | .nil, _, _, _, hg => by simp [Tys.get?] at hg

theorem good_union (ts : Tys) (tag : Nat) (inner : Val) (m : Ty) (e : Bool)
    (hp : plainTy (.union ts) = true) (hw : wfTy (.union ts) = true)
    (hg : ts.get? tag = some m) (hnn : inner ≠ .null) (hvi : wfVal m inner = true)
    (hI : GoodV m inner false) : GoodV (.union ts) (.union tag inner) e := by
  intro pi fst a0
  have hw' := hw
  simp only [wfTy, Bool.and_eq_true, decide_eq_true_eq] at hw'
  obtain ⟨⟨_, _⟩, hchain⟩ := hw'
  have hmn : m ≠ tyNull := by
    intro h; subst h; exact hnn (wf_tyNull inner hvi)
  have hidx := indexOf_get? ts tag m hchain hg
  have hexpI : expA m inner false = (m, strip inner) := by simp [expA]
  have hcu : convertUnion (m, strip inner) ts (.union ts) = .ok (.union ts, .union tag (strip inner)) := by
    simp [convertUnion, hmn, hidx]
  cases e with
  | true =>
    obtain ⟨any, ds, hf, hd, hA, _⟩ := hI pi fst a0
    refine ⟨any, ds, ?_, hd, ?_, ?_⟩
    · simp [fmtValue, hg, hf]
    · rw [hA, hexpI]; simp [expA, Ty.isUnion, hg]
    · intro _
      rw [convertValue_union_parent a0 ts _ (mkVal_not_def any ds hd), hA, hexpI]
      simp [Except.bind, hcu, Except.map, strip]
  | false =>
    obtain ⟨any, ds, hf, hd, hA, _⟩ := hI true fst a0
    have hdeco : decoP (.union ts) false = [.cast (tyAst (.union ts))] := by
      simp [decoP, implied, selfDescribing]
    have hfmt : fmtValue fst (.union ts) (.union tag inner) false pi true false =
        (fst, any, ds ++ [.cast (tyAst (.union ts))]) := by
      simp [fmtValue, hg, hf, finish, decorateM_plain fst _ false hp, hdeco]
    refine ⟨any, _, hfmt, ?_, ?_, ?_⟩
    · intro d hdm
      rcases List.mem_append.mp hdm with h | h
      · exact hd d h
      · simp at h; subst h; exact ⟨_, hp, hw, rfl⟩
    · rw [mkVal_append_cast any _ ds (fun x hx => (hd x hx).isCast)]
      have hu : unionMembers (Ty.union ts).under = some ts := rfl
      simp [convertValue, preDefs_mkVal a0 any ds hd, convertType_plain a0 _ hp hw, castStep, typeCheck, hu,
        hA, hexpI, hcu, bind, Except.bind, pure, Except.pure, expA, Ty.isUnion, strip]
    · intro h
      simp [Ty.isUnion] at h

theorem decoP_cases (t : Ty) : decoP t false = [] ∨ decoP t false = [.cast (tyAst t)] := by
  unfold decoP
  split
  · exact Or.inl rfl
  · split
    · exact Or.inl rfl
    · exact Or.inr rfl

/-- the inner value of an error value (written with `decorate = false`) read under its type. -/
theorem error_inner (u : Ty) (v' : Val) (pi : Bool) (fst : FState) (a0 : AState)
    (hpu : plainTy u = true) (hwu : wfTy u = true) (hnn : v'.isNull = false) (hvi : wfVal u v' = true)
    (hbe : bareEmpty v' = false) (hI : GoodV u v' false) :
    ∃ any ds0, fmtValue fst u v' false pi false false = (fst, any, ds0) ∧ (∀ d ∈ ds0, GoodDeco d) ∧
      convertValue a0 (mkVal any ds0) (some u) = .ok (a0, (u, strip v')) ∧
      (implied u = true → convertValue a0 (mkVal any ds0) none = .ok (a0, (u, strip v'))) := by
  obtain ⟨any, ds, hf, hd, hA, hB⟩ := hI pi fst a0
  have hsplit := fmt_deco_split fst u v' pi hpu hvi hnn hbe
  rw [hf] at hsplit
  generalize hr : fmtValue fst u v' false pi false false = r at hsplit
  obtain ⟨r1, r2, ds0⟩ := r
  simp only [Prod.mk.injEq] at hsplit
  obtain ⟨h1, h2, h3⟩ := hsplit
  subst h1 h2
  have hd0 : ∀ d ∈ ds0, GoodDeco d := fun d hx => hd d (by rw [h3]; exact List.mem_append_left _ hx)
  have hexp : expA u v' false = (u, strip v') := by simp [expA]
  rw [hexp] at hA
  have hT := convertType_plain a0 u hpu hwu
  refine ⟨_, ds0, rfl, hd0, ?_, ?_⟩
  · by_cases hun : u.isUnion = true
    · obtain ⟨ts, rfl⟩ : ∃ ts, u = .union ts := by cases u <;> simp_all [Ty.isUnion]
      have hdp : decoP (.union ts) false = [.cast (tyAst (.union ts))] := by simp [decoP, implied, selfDescribing]
      rw [hdp] at h3
      rw [h3, mkVal_append_cast _ _ ds0 (fun x hx => (hd0 x hx).isCast)] at hA
      have hu : unionMembers (Ty.union ts).under = some ts := rfl
      simp only [convertValue, preDefs_mkVal a0 _ ds0 hd0, pure, Except.pure, bind, Except.bind, hT, castStep,
        typeCheck, hu] at hA
      rw [convertValue_union_parent a0 ts _ (mkVal_not_def _ ds0 hd0)]
      cases hy : convertValue a0 (mkVal any ds0) none with
      | error e => simp [hy] at hA
      | ok r =>
        obtain ⟨s1, tv⟩ := r
        simp only [hy] at hA
        cases hcu : convertUnion tv ts (.union ts) with
        | error e => simp [hcu] at hA
        | ok r2 =>
          simp only [hcu, Except.ok.injEq, Prod.mk.injEq] at hA
          simp [Except.bind, hcu, Except.map, hA.1, hA.2]
    · have hun' : u.isUnion = false := by simpa using hun
      have hB' := hB (Or.inl hun')
      rcases decoP_cases u with hdp | hdp
      · rw [hdp, List.append_nil] at h3; subst h3; exact hB'
      · rw [hdp] at h3
        rw [h3, mkVal_append_cast _ _ ds0 (fun x hx => (hd0 x hx).isCast),
          conv_cast a0 _ _ u (some u) (preDefs_mkVal a0 _ ds0 hd0) hT
            (by rw [under_plain u hpu]; exact unionMembers_notUnion u hun') (Or.inr rfl)] at hB'
        exact hB'
  · intro hi
    have hdp : decoP u false = [] := by simp [decoP, hi]
    rw [hdp, List.append_nil] at h3; subst h3; exact hA

theorem good_error (u : Ty) (v' : Val) (e : Bool) (hp : plainTy (.error u) = true) (hw : wfTy (.error u) = true)
    (hnn : v'.isNull = false) (hvi : wfVal u v' = true) (hbe : bareEmpty v' = false)
    (hI : GoodV u v' false) : GoodV (.error u) (.error v') e := by
  intro pi fst a0
  have hpu : plainTy u = true := by simpa [plainTy] using hp
  have hwu : wfTy u = true := by simpa [wfTy] using hw
  obtain ⟨any, ds0, hf, hd0, hB0, hA0⟩ := error_inner u v' pi fst a0 hpu hwu hnn hvi hbe hI
  have hT := convertType_plain a0 (.error u) hp hw
  have hu : unionMembers (Ty.error u).under = none := rfl
  have hexp : expA (.error u) (.error v') e = (.error u, .error (strip v')) := by
    simp [expA, Ty.isUnion, strip]
  have hstrip : strip (.error v') = .error (strip v') := by simp [strip]
  have hcast : convertAny a0 (.error (mkVal any ds0)) (some (.error u)) = .ok (a0, (.error u, .error (strip v'))) := by
    simp [convertAny, Ty.under, hB0, bind, Except.bind, pure, Except.pure]
  by_cases hi : implied u = true
  · have hdp : decoP (.error u) false = [] := by simp [decoP, implied, hi]
    have hfmt : fmtValue fst (.error u) (.error v') false pi true e = (fst, .error (mkVal any ds0), []) := by
      simp [fmtValue, hasName_plain fst _ hp, hf, finish, decorateM_plain fst _ false hp, hdp]
    refine ⟨_, _, hfmt, by simp, ?_, ?_⟩
    · rw [hexp, mkVal_nil]
      simp [convertValue, viaUnion, convertAny, hA0 hi, bind, Except.bind, pure, Except.pure]
    · intro _
      rw [hstrip, mkVal_nil, conv_implied_some a0 _ _ hu]; exact hcast
  · have hi' : implied u = false := by simpa using hi
    have hdp : decoP (.error u) false = [.cast (tyAst (.error u))] := by
      simp [decoP, implied, selfDescribing, hi']
    have hfmt : fmtValue fst (.error u) (.error v') false pi true e =
        (fst, .error (mkVal any ds0), [.cast (tyAst (.error u))]) := by
      simp [fmtValue, hasName_plain fst _ hp, hf, finish, decorateM_plain fst _ false hp, hdp]
    refine ⟨_, _, hfmt, by intro d hd; simp at hd; subst hd; exact ⟨_, hp, hw, rfl⟩, ?_, ?_⟩
    · rw [hexp, mkVal_cast1, conv_cast_implied a0 _ _ _ none hT hu (Or.inl rfl)]; exact hcast
    · intro _
      rw [hstrip, mkVal_cast1, conv_cast_implied a0 _ _ _ (some _) hT hu (Or.inr rfl)]; exact hcast

mutual
/-- every well-formed value of a plain type formats to syntax that analyses back to it. -/
theorem goodV_all : (v : Val) → ∀ (t : Ty) (e : Bool), plainTy t = true → wfTy t = true → wfVal t v = true →
    errOK v = true → GoodV t v e
  | .null, t, e, hp, hw, _, _ => good_null t e hp hw
  | .prim text, t, e, _, _, hv, _ => by
    cases t with
    | prim id => exact good_prim id text e hv
    | _ => simp [wfVal] at hv
  | .typeval ty, t, e, _, _, hv, _ => by
    cases t with
    | prim id => exact good_typeval id ty e hv
    | _ => simp [wfVal] at hv
  | .enum sel, t, e, _, hw, hv, _ => by
    cases t with
    | enum syms => exact good_enum syms sel e hw hv
    | _ => simp [wfVal] at hv
  | .record vs, t, e, hp, hw, hv, he => by
    cases t with
    | record fs =>
      have hp' : plainFields fs = true := by simpa [plainTy] using hp
      have hw' : wfFields fs = true := by
        simp only [wfTy, Bool.and_eq_true] at hw; exact hw.1
      have hv' : wfVals fs vs = true := by simpa [wfVal] using hv
      exact good_record fs vs e hp hw hv (goodFields_all vs fs hp' hw' hv' (by simpa [errOK] using he))
    | _ => simp [wfVal] at hv
  | .array vs, t, e, hp, hw, hv, he => by
    cases t with
    | array et =>
      exact good_array et vs e hp hw hv
        (goodElems_all vs et (by simpa [plainTy] using hp) (by simpa [wfTy] using hw) (by simpa [wfVal] using hv)
          (by simpa [errOK] using he))
    | _ => simp [wfVal] at hv
  | .set vs, t, e, hp, hw, hv, he => by
    cases t with
    | set et =>
      exact good_set et vs e hp hw hv
        (goodElems_all vs et (by simpa [plainTy] using hp) (by simpa [wfTy] using hw) (by simpa [wfVal] using hv)
          (by simpa [errOK] using he))
    | _ => simp [wfVal] at hv
  | .map es, t, e, hp, hw, hv, he => by
    cases t with
    | map kt vt =>
      have hp' : plainTy kt = true ∧ plainTy vt = true := by simpa [plainTy] using hp
      have hw' : wfTy kt = true ∧ wfTy vt = true := by simpa [wfTy] using hw
      exact good_map kt vt es e hp hw hv
        (goodEntries_all es kt vt hp'.1 hp'.2 hw'.1 hw'.2 (by simpa [wfVal] using hv) (by simpa [errOK] using he))
    | _ => simp [wfVal] at hv
  | .union tag inner, t, e, hp, hw, hv, he => by
    cases t with
    | union ts =>
      simp only [wfVal, Bool.and_eq_true, bne_iff_ne, ne_eq] at hv
      cases hg : ts.get? tag with
      | none => simp [hg] at hv
      | some m =>
        simp only [hg] at hv
        have hpm := plainTys_get ts tag m (by simpa [plainTy] using hp) hg
        have hwm := wfTys_get ts tag m (by simp only [wfTy, Bool.and_eq_true] at hw; exact hw.1.1) hg
        exact good_union ts tag inner m e hp hw hg hv.1 hv.2
          (goodV_all inner m false hpm hwm hv.2 (by simpa [errOK] using he))
    | _ => simp [wfVal] at hv
  | .error v, t, e, hp, hw, hv, he => by
    cases t with
    | error u =>
      simp only [wfVal, Bool.and_eq_true, bne_iff_ne, ne_eq] at hv
      simp only [errOK, Bool.and_eq_true, Bool.not_eq_true'] at he
      have hnn : v.isNull = false := by cases v <;> simp_all [Val.isNull]
      exact good_error u v e hp hw hnn hv.2 he.1
        (goodV_all v u false (by simpa [plainTy] using hp) (by simpa [wfTy] using hw) hv.2 he.2)
    | _ => simp [wfVal] at hv
  | .named v, t, e, hp, _, hv, _ => by
    cases t with
    | named n u => simp [plainTy] at hp
    | _ => simp [wfVal] at hv
theorem goodFields_all : (vs : Vals) → ∀ (fs : Fields), plainFields fs = true → wfFields fs = true →
    wfVals fs vs = true → errOKs vs = true → GoodFields fs vs
  | .nil, fs, _, _, hv, _ => by
    cases fs with
    | nil => exact goodFields_nil
    | cons _ _ _ => simp [wfVals] at hv
  | .cons v vr, fs, hp, hw, hv, he => by
    simp only [errOKs, Bool.and_eq_true] at he
    cases fs with
    | nil => simp [wfVals] at hv
    | cons n t fr =>
      simp only [plainFields, Bool.and_eq_true, Bool.not_eq_true'] at hp
      simp only [wfFields, Bool.and_eq_true] at hw
      simp only [wfVals, Bool.and_eq_true] at hv
      exact goodFields_cons n t fr v vr hp.1.2 (goodV_all v t false hp.1.1 hw.1 hv.1 he.1)
        (goodFields_all vr fr hp.2 hw.2 hv.2 he.2)
theorem goodElems_all : (vs : Vals) → ∀ (et : Ty), plainTy et = true → wfTy et = true →
    wfElems et vs = true → errOKs vs = true → GoodElems et vs
  | .nil, et, _, _, _, _ => goodElems_nil et
  | .cons v vr, et, hp, hw, hv, he => by
    simp only [wfElems, Bool.and_eq_true] at hv
    simp only [errOKs, Bool.and_eq_true] at he
    exact goodElems_cons et v vr (goodV_all v et true hp hw hv.1 he.1) (goodElems_all vr et hp hw hv.2 he.2)
theorem goodEntries_all : (es : Entries) → ∀ (kt vt : Ty), plainTy kt = true → plainTy vt = true →
    wfTy kt = true → wfTy vt = true → wfEntries kt vt es = true → errOKe es = true → GoodEntries kt vt es
  | .nil, kt, vt, _, _, _, _, _, _ => goodEntries_nil kt vt
  | .cons k v r, kt, vt, hpk, hpv, hwk, hwv, hv, he => by
    simp only [wfEntries, Bool.and_eq_true] at hv
    simp only [errOKe, Bool.and_eq_true] at he
    exact goodEntries_cons kt vt k v r (goodV_all k kt true hpk hwk hv.1.1 he.1.1)
      (goodV_all v vt true hpv hwv hv.1.2 he.1.2) (goodEntries_all r kt vt hpk hpv hwk hwv hv.2 he.2)
end

end Zed.Zson
