package lakeh

import (
	"encoding/hex"
	"fmt"
	"sort"
	"strconv"
	"strings"
)

// ---- request -------------------------------------------------------------------------

func ints(xs []int) string {
	var sb strings.Builder
	sb.WriteByte('(')
	for i, x := range xs {
		if i > 0 {
			sb.WriteByte(' ')
		}
		sb.WriteString(strconv.Itoa(x))
	}
	sb.WriteByte(')')
	return sb.String()
}

func partsS(parts [][]int) string {
	var sb strings.Builder
	sb.WriteString("(parts")
	for _, p := range parts {
		sb.WriteByte(' ')
		sb.WriteString(ints(p))
	}
	sb.WriteByte(')')
	return sb.String()
}

func hexAtom(b []byte) string {
	if len(b) == 0 {
		return "-"
	}
	return hex.EncodeToString(b)
}

// ModelRequest renders the history, with the partitions / predicate truth sets observed on
// the real run, as one request line of the driver protocol.
func ModelRequest(prop string, h *History, t *Table, obs []*StepObs) string {
	var sb strings.Builder
	dir := "asc"
	if h.Cfg.Desc {
		dir = "desc"
	}
	fmt.Fprintf(&sb, "(%s run (cfg %s %d %d) (vals", prop, dir, h.Cfg.ModelThresh(), h.Cfg.ModelStride())
	for _, v := range t.Vals {
		fmt.Fprintf(&sb, " (%s %s %s %d %d)", v.MKey, v.MKey, hexAtom(v.Bytes), v.Ty, v.KB)
	}
	sb.WriteString(") (ops")
	for i, op := range h.Ops {
		var parts [][]int
		var dels []int
		if i < len(obs) && obs[i] != nil {
			parts = obs[i].Parts
			dels = obs[i].Dels
		}
		sb.WriteByte(' ')
		switch op.Kind {
		case "load":
			fmt.Fprintf(&sb, "(load %d %s %s)", op.Branch, ints(op.Vals), partsS(parts))
		case "delete":
			fmt.Fprintf(&sb, "(delete %d %s)", op.Branch, ints(op.IDs))
		case "delwhere":
			fmt.Fprintf(&sb, "(delwhere %d %s %s)", op.Branch, ints(dels), partsS(parts))
		case "compact":
			v := 0
			if op.Vec {
				v = 1
			}
			fmt.Fprintf(&sb, "(compact %d %s %d %s)", op.Branch, ints(op.IDs), v, partsS(parts))
		case "addvec":
			fmt.Fprintf(&sb, "(addvec %d %s)", op.Branch, ints(op.IDs))
		case "delvec":
			fmt.Fprintf(&sb, "(delvec %d %s)", op.Branch, ints(op.IDs))
		case "vacuum":
			fmt.Fprintf(&sb, "(vacuum %d)", op.Commit)
		case "branch":
			fmt.Fprintf(&sb, "(branch %d %d)", op.Name, op.Commit)
		case "merge":
			fmt.Fprintf(&sb, "(merge %d %d)", op.Child, op.Branch)
		case "revert":
			fmt.Fprintf(&sb, "(revert %d %d)", op.Branch, op.Commit)
		}
	}
	sb.WriteString("))")
	return sb.String()
}

// ---- answer --------------------------------------------------------------------------

type sx struct {
	atom string
	list []*sx
	isL  bool
}

func parseSx(s string) (*sx, error) {
	pos := 0
	var rec func() (*sx, error)
	rec = func() (*sx, error) {
		for pos < len(s) && s[pos] == ' ' {
			pos++
		}
		if pos >= len(s) {
			return nil, fmt.Errorf("unexpected end")
		}
		if s[pos] == '(' {
			pos++
			n := &sx{isL: true}
			for {
				for pos < len(s) && s[pos] == ' ' {
					pos++
				}
				if pos >= len(s) {
					return nil, fmt.Errorf("unclosed list")
				}
				if s[pos] == ')' {
					pos++
					return n, nil
				}
				c, err := rec()
				if err != nil {
					return nil, err
				}
				n.list = append(n.list, c)
			}
		}
		st := pos
		for pos < len(s) && s[pos] != ' ' && s[pos] != '(' && s[pos] != ')' {
			pos++
		}
		return &sx{atom: s[st:pos]}, nil
	}
	return rec()
}

func (n *sx) ints(from int) ([]int, error) {
	var out []int
	for _, c := range n.list[from:] {
		k, err := strconv.Atoi(c.atom)
		if err != nil {
			return nil, err
		}
		out = append(out, k)
	}
	return out, nil
}

// ParseModelAnswer decodes the driver's answer into per-step observations.
func ParseModelAnswer(ans string) ([]*StepObs, error) {
	if !strings.HasPrefix(ans, "(") {
		return nil, fmt.Errorf("model answered %q", ans)
	}
	root, err := parseSx(ans)
	if err != nil {
		return nil, err
	}
	var out []*StepObs
	for _, st := range root.list {
		if !st.isL || len(st.list) != 4 || st.list[0].atom != "step" {
			return nil, fmt.Errorf("bad step")
		}
		o := &StepObs{Res: st.list[1].atom}
		for _, b := range st.list[2].list[1:] {
			bo := BranchObs{Status: b.list[2].atom}
			bo.Name, _ = strconv.Atoi(b.list[0].atom)
			bo.Tip, _ = strconv.Atoi(b.list[1].atom)
			for _, ob := range b.list[3].list[1:] {
				oo := ObjObs{Min: ob.list[1].atom, Max: ob.list[2].atom, Vec: ob.list[4].atom == "1"}
				oo.ID, _ = strconv.Atoi(ob.list[0].atom)
				oo.Count, _ = strconv.Atoi(ob.list[3].atom)
				for _, se := range ob.list[5].list[1:] {
					so := SeekObs{Min: se.list[0].atom, Max: se.list[1].atom}
					so.Off, _ = strconv.Atoi(se.list[2].atom)
					so.Cnt, _ = strconv.Atoi(se.list[3].atom)
					oo.Seek = append(oo.Seek, so)
				}
				if len(ob.list) == 7 && ob.list[6].atom == "gone" {
					oo.Gone = true
				} else {
					oo.Toks, err = ob.ints(6)
					if err != nil {
						return nil, err
					}
				}
				bo.Objs = append(bo.Objs, oo)
			}
			sortObjs(bo.Objs)
			bo.Scan, err = b.list[4].ints(1)
			if err != nil {
				return nil, err
			}
			o.Branches = append(o.Branches, bo)
		}
		for _, c := range st.list[3].list[1:] {
			co := CommitObs{Status: c.list[1].atom}
			co.ID, _ = strconv.Atoi(c.list[0].atom)
			co.Scan, err = c.list[2].ints(1)
			if err != nil {
				return nil, err
			}
			o.Commits = append(o.Commits, co)
		}
		out = append(out, o)
	}
	return out, nil
}

func sortObjs(os []ObjObs) {
	for i := 1; i < len(os); i++ {
		for j := i; j > 0 && os[j].ID < os[j-1].ID; j-- {
			os[j], os[j-1] = os[j-1], os[j]
		}
	}
}

// CompareStep returns a description of the first difference between the real and the
// model observation of one step ("" = agree).  Scans are compared with equal-key runs
// canonicalised.  On a branch with the empty-bytes lister hazard (known finding
// lister-order:empty-bytes-key: the real order of the objects follows Go map iteration and
// the scan may be out of order) the scans are compared as multisets only; hazardBefore says
// that some branch had the hazard at this or an earlier step (commit scans).
func CompareStep(t *Table, cfg Cfg, real, model *StepObs, commits, hazardBefore bool) string {
	sameScan := func(hazard bool, a, b []int) bool {
		if hazard {
			return EqInts(sortedInts(a), sortedInts(b))
		}
		return EqInts(t.CanonTies(a), t.CanonTies(b))
	}
	rr, mr := real.Res, model.Res
	if strings.HasPrefix(rr, "other:") {
		rr = "other"
	}
	if rr != mr {
		return fmt.Sprintf("result: real %s (%s), model %s", real.Res, real.ErrText, mr)
	}
	if len(real.Branches) != len(model.Branches) {
		return fmt.Sprintf("branch count: real %d, model %d", len(real.Branches), len(model.Branches))
	}
	for i, rb := range real.Branches {
		mb := model.Branches[i]
		if rb.Name != mb.Name || rb.Tip != mb.Tip {
			return fmt.Sprintf("branch %d: real b%d@c%d, model b%d@c%d", i, rb.Name, rb.Tip, mb.Name, mb.Tip)
		}
		if rb.Status != mb.Status {
			return fmt.Sprintf("branch b%d status: real %s, model %s", rb.Name, rb.Status, mb.Status)
		}
		if rb.Status != "ok" && rb.Status != "missing-file" {
			continue
		}
		if len(rb.Objs) != len(mb.Objs) {
			return fmt.Sprintf("branch b%d: real %d objects %v, model %d objects %v", rb.Name, len(rb.Objs), objIDs(rb.Objs), len(mb.Objs), objIDs(mb.Objs))
		}
		for j, ro := range rb.Objs {
			mo := mb.Objs[j]
			if ro.ID != mo.ID || ro.Min != mo.Min || ro.Max != mo.Max || ro.Count != mo.Count || ro.Vec != mo.Vec || ro.Gone != mo.Gone || !EqInts(ro.Toks, mo.Toks) || fmt.Sprint(ro.Seek) != fmt.Sprint(mo.Seek) {
				return fmt.Sprintf("branch b%d object: real %+v, model %+v", rb.Name, ro, mo)
			}
		}
		if rb.Status == "ok" && !sameScan(emptyBytesHazard(cfg, &rb), rb.Scan, mb.Scan) {
			return fmt.Sprintf("branch b%d scan: real %v, model %v", rb.Name, rb.Scan, mb.Scan)
		}
	}
	if commits {
		if len(real.Commits) != len(model.Commits) {
			return fmt.Sprintf("commit count: real %d, model %d", len(real.Commits), len(model.Commits))
		}
		for i, rc := range real.Commits {
			mc := model.Commits[i]
			if rc.Status != mc.Status {
				return fmt.Sprintf("commit c%d status: real %s, model %s", rc.ID, rc.Status, mc.Status)
			}
			if rc.Status == "ok" && !sameScan(hazardBefore, rc.Scan, mc.Scan) {
				return fmt.Sprintf("commit c%d scan: real %v, model %v", rc.ID, rc.Scan, mc.Scan)
			}
		}
	}
	return ""
}

func sortedInts(a []int) []int {
	out := append([]int(nil), a...)
	sort.Ints(out)
	return out
}

func objIDs(os []ObjObs) []int {
	var out []int
	for _, o := range os {
		out = append(out, o.ID)
	}
	return out
}
