package main

// Canonical, context-independent rendering of real types and values.  Two values are "the
// identical type and value" for C02 iff their renderings are equal:
//   - types structurally (names included); union members as a *set* (sorted by rendering):
//     the member order of a union is a function of the type context (zed.CompareTypes orders
//     named types over the same primitive by context id), which is C05's business; union
//     values are rendered with the member type instead of the tag;
//   - primitive bodies byte for byte, except that every NaN is "nan";
//   - null is distinct from every non-null body.

import (
	"encoding/binary"
	"encoding/hex"
	"fmt"
	"math"
	"sort"
	"strings"

	zed "github.com/brimdata/super"
	"github.com/brimdata/super/zcode"
	"github.com/brimdata/super/zson"
	"github.com/x448/float16"
)

func canonType(t zed.Type) string {
	var b strings.Builder
	canonTypeTo(&b, t)
	return b.String()
}

func canonTypeTo(b *strings.Builder, t zed.Type) {
	switch t := t.(type) {
	case nil:
		b.WriteString("(nil)")
	case *zed.TypeNamed:
		b.WriteString("(named " + HexAtom([]byte(t.Name)) + " ")
		canonTypeTo(b, t.Type)
		b.WriteString(")")
	case *zed.TypeRecord:
		b.WriteString("(record")
		for _, f := range t.Fields {
			b.WriteString(" (" + HexAtom([]byte(f.Name)) + " ")
			canonTypeTo(b, f.Type)
			b.WriteString(")")
		}
		b.WriteString(")")
	case *zed.TypeArray:
		b.WriteString("(array ")
		canonTypeTo(b, t.Type)
		b.WriteString(")")
	case *zed.TypeSet:
		b.WriteString("(set ")
		canonTypeTo(b, t.Type)
		b.WriteString(")")
	case *zed.TypeMap:
		b.WriteString("(map ")
		canonTypeTo(b, t.KeyType)
		b.WriteString(" ")
		canonTypeTo(b, t.ValType)
		b.WriteString(")")
	case *zed.TypeUnion:
		var ms []string
		for _, m := range t.Types {
			ms = append(ms, canonType(m))
		}
		sort.Strings(ms)
		b.WriteString("(union")
		for _, m := range ms {
			b.WriteString(" " + m)
		}
		b.WriteString(")")
	case *zed.TypeEnum:
		b.WriteString("(enum")
		for _, s := range t.Symbols {
			b.WriteString(" " + HexAtom([]byte(s)))
		}
		b.WriteString(")")
	case *zed.TypeError:
		b.WriteString("(error ")
		canonTypeTo(b, t.Type)
		b.WriteString(")")
	default:
		fmt.Fprintf(b, "(prim %d)", t.ID())
	}
}

// primRender renders a non-null primitive body.
type primRender func(t zed.Type, body zcode.Bytes) string

// rawPrim: bytes, NaN collapsed.
func rawPrim(t zed.Type, body zcode.Bytes) string {
	switch t.ID() {
	case idFloat16:
		if len(body) == 2 && float16.Frombits(binary.LittleEndian.Uint16(body)).IsNaN() {
			return "nan"
		}
	case idFloat32:
		if len(body) == 4 && math.IsNaN(float64(math.Float32frombits(binary.LittleEndian.Uint32(body)))) {
			return "nan"
		}
	case idFloat64:
		if len(body) == 8 && math.IsNaN(math.Float64frombits(binary.LittleEndian.Uint64(body))) {
			return "nan"
		}
	}
	return HexAtom(body)
}

// textPrim: the text the real formatter prints for the primitive (strings: raw bytes) —
// the form in which primitives travel to and from the Lean model.
func textPrim(t zed.Type, body zcode.Bytes) string {
	if t.ID() == idString {
		return HexAtom(body)
	}
	return HexAtom([]byte(zson.FormatPrimitive(t, body)))
}

func canonValue(zctx *zed.Context, v zed.Value, pr primRender) (s string, err error) {
	defer func() {
		if r := recover(); r != nil {
			err = fmt.Errorf("malformed value: %v", r)
		}
	}()
	var b strings.Builder
	b.WriteString("(val " + canonType(v.Type()) + " ")
	canonValTo(zctx, &b, v.Type(), v.Bytes(), pr)
	b.WriteString(")")
	return b.String(), nil
}

func canonValTo(zctx *zed.Context, b *strings.Builder, typ zed.Type, body zcode.Bytes, pr primRender) {
	if body == nil {
		b.WriteString("null")
		return
	}
	switch t := typ.(type) {
	case *zed.TypeNamed:
		canonValTo(zctx, b, t.Type, body, pr)
	case *zed.TypeError:
		b.WriteString("(err ")
		canonValTo(zctx, b, t.Type, body, pr)
		b.WriteString(")")
	case *zed.TypeRecord:
		b.WriteString("(rec")
		it := body.Iter()
		for _, f := range t.Fields {
			b.WriteString(" ")
			canonValTo(zctx, b, f.Type, it.Next(), pr)
		}
		if !it.Done() {
			panic("record body too long")
		}
		b.WriteString(")")
	case *zed.TypeArray:
		b.WriteString("(arr")
		for it := body.Iter(); !it.Done(); {
			b.WriteString(" ")
			canonValTo(zctx, b, t.Type, it.Next(), pr)
		}
		b.WriteString(")")
	case *zed.TypeSet:
		// element order is a function of body bytes (NormalizeSet); with union tags being
		// context dependent the order is not canonical: sort renderings.
		var es []string
		for it := body.Iter(); !it.Done(); {
			var eb strings.Builder
			canonValTo(zctx, &eb, t.Type, it.Next(), pr)
			es = append(es, eb.String())
		}
		sort.Strings(es)
		b.WriteString("(set")
		for _, e := range es {
			b.WriteString(" " + e)
		}
		b.WriteString(")")
	case *zed.TypeMap:
		var es []string
		for it := body.Iter(); !it.Done(); {
			var eb strings.Builder
			eb.WriteString("(")
			canonValTo(zctx, &eb, t.KeyType, it.Next(), pr)
			eb.WriteString(" ")
			canonValTo(zctx, &eb, t.ValType, it.Next(), pr)
			eb.WriteString(")")
			es = append(es, eb.String())
		}
		sort.Strings(es)
		b.WriteString("(map")
		for _, e := range es {
			b.WriteString(" " + e)
		}
		b.WriteString(")")
	case *zed.TypeUnion:
		it := body.Iter()
		tag := int(zed.DecodeInt(it.Next()))
		if tag < 0 || tag >= len(t.Types) {
			panic("union tag out of range")
		}
		b.WriteString("(u " + canonType(t.Types[tag]) + " ")
		canonValTo(zctx, b, t.Types[tag], it.Next(), pr)
		b.WriteString(")")
	case *zed.TypeEnum:
		sel := int(zed.DecodeUint(body))
		if sel < 0 || sel >= len(t.Symbols) {
			b.WriteString(fmt.Sprintf("(enum-out-of-range %d)", sel))
			return
		}
		b.WriteString("(enum " + HexAtom([]byte(t.Symbols[sel])) + ")")
	case *zed.TypeOfType:
		tt, err := zctx.LookupByValue(body)
		if err != nil {
			panic(err)
		}
		b.WriteString("(tv " + canonType(tt) + ")")
	default:
		b.WriteString("(p " + pr(typ, body) + ")")
	}
}

var _ = hex.EncodeToString
