package main

import (
	"encoding/json"
	"fmt"
	"strings"
	"time"

	. "verifharness/hlib"

	zed "github.com/brimdata/super"
)

func runC09(c *Ctx) {
	c.Rule("ops/lake: 1..3 objects of 1..8 (sometimes 300) records {k, f} where f ranges over strings, int64/int32/uint8/uint64, float64, bool, null, ip, duration, time, bytes, arrays, records, a named string type and a union, with nulls, records without f, two top-level types per object, 1/2/3/300 distinct values per column (const / dictionary / plain encodings); " +
		"the real CountByString / Sum operators over the real vector-cache vectors vs the Lean model and vs the sequential runtime; the same single-object pool queried before and after AddVectors. vcomp: VectorCompile vs CompileQuery for programs drawn from the operators / expressions the generated tables say the vector compiler accepts. A case is distinct by its objects (or program + input).")
	h := &harness{c: c, w: &Worker{}}
	defer h.w.Close()

	if c.Replay != nil {
		var r rcase
		if err := json.Unmarshal(c.Replay, &r); err != nil {
			c.Note("replay not understood: %v", err)
			return
		}
		switch r.Check {
		case "vexpr":
			if r.XCase != nil {
				h.vexprCheck(r.XCase)
			}
		case "vcomp":
			h.vcompCheck(r.Query, r.Input, "")
		case "lake":
			h.lakeCheck(caseOfReplay(&r))
		default:
			h.opsCheck(caseOfReplay(&r))
		}
		return
	}
	for _, raw := range c.CorpusCases() {
		var r rcase
		if json.Unmarshal(raw, &r) == nil && r.Check != "vcomp" {
			c.Stat("corpus")
			h.opsCheck(caseOfReplay(&r))
		}
	}
	if c.Want("known") {
		for _, oc := range knownCases() {
			h.opsCheck(oc)
		}
		for _, k := range knownVcomp {
			h.vcompCheck(k.q, k.in, k.key)
		}
	}
	if c.Want("ops") {
		n := c.N(220, 4000)
		for i := 0; i < n; i++ {
			h.opsCheck(randomCase(c))
		}
	}
	if c.Want("lake") {
		// known mechanisms end to end
		for _, oc := range knownCases() {
			h.lakeCheck(oc)
		}
		// three dictionary-encoded objects sharing keys, two scan legs: whichever way the
		// scheduler deals them, one leg scans two of them and countDict overwrites
		h.lakeCheck(&ocase{Label: "dict-three-objects", Types: []*TSpec{Prim(zed.IDString)},
			Objects: [][]rec{strRecs("a", "b", "a"), strRecs("a", "b", "a"), strRecs("a", "b", "a")}})
		n := c.N(25, 300)
		for i := 0; i < n; i++ {
			oc := randomCase(c)
			switch c.Rng.Intn(4) {
			case 0:
				oc = constStringObjects(c)
			case 1:
				oc = dictStringObjects(c)
			}
			h.lakeCheck(oc)
		}
	}
	if c.Want("vcomp") {
		h.vcompRandom()
	}
	if c.Want("vexpr") {
		n := c.N(150, 3000)
		for i := 0; i < n; i++ {
			h.vexprCheck(h.genXCase())
		}
	}
	c.Res.Stats["worker:restarts"] = h.w.Restarts
}

// ---- generation of objects ---------------------------------------------------------------------

var fTypePool = []*TSpec{
	Prim(zed.IDString), Prim(zed.IDString), Prim(zed.IDString), Prim(zed.IDString),
	Prim(zed.IDInt64), Prim(zed.IDInt64), Prim(zed.IDInt32), Prim(zed.IDUint8), Prim(zed.IDUint64),
	Prim(zed.IDFloat64), Prim(zed.IDBool), Prim(zed.IDNull), Prim(zed.IDIP), Prim(zed.IDDuration),
	Prim(zed.IDTime), Prim(zed.IDBytes), Prim(zed.IDInt8), Prim(zed.IDUint16), Prim(zed.IDFloat32),
	{Kind: "array", Elems: []*TSpec{Prim(zed.IDInt64)}},
	{Kind: "record", Fields: []TField{{Name: "x", Type: Prim(zed.IDInt64)}}},
	{Kind: "named", Name: "mystr", Elems: []*TSpec{Prim(zed.IDString)}},
	{Kind: "union", Elems: []*TSpec{Prim(zed.IDInt64), Prim(zed.IDString)}},
	{Kind: "set", Elems: []*TSpec{Prim(zed.IDString)}},
	{Kind: "map", Elems: []*TSpec{Prim(zed.IDString), Prim(zed.IDInt64)}},
	{Kind: "error", Elems: []*TSpec{Prim(zed.IDString)}},
}

func randomCase(c *Ctx) *ocase {
	r := c.Rng
	oc := &ocase{Label: "random"}
	zctx := zed.NewContext()
	nt := 1 + r.Intn(3)
	if r.Intn(3) == 0 {
		// all-string cases: where the operators are meant to work
		oc.Types = []*TSpec{Prim(zed.IDString)}
	} else {
		for i := 0; i < nt; i++ {
			s, _, err := CanonSpec(zctx, fTypePool[r.Intn(len(fTypePool))])
			if err != nil {
				continue
			}
			dup := false
			for _, t := range oc.Types {
				if t.Descr() == s.Descr() {
					dup = true
				}
			}
			if !dup {
				oc.Types = append(oc.Types, s)
			}
		}
	}
	nobj := 1 + r.Intn(3)
	if r.Intn(2) == 0 {
		nobj = 1
	}
	for o := 0; o < nobj; o++ {
		g := NewVGen(r)
		// per object: which types of f occur, whether some records lack f / carry g
		var use []int
		for i := range oc.Types {
			if r.Intn(2) == 0 {
				use = append(use, i)
			}
		}
		if len(use) == 0 {
			use = []int{r.Intn(len(oc.Types))}
		}
		for _, i := range use {
			p := &VPolicy{Distinct: []int{1, 1, 2, 3, 300}[r.Intn(5)], NullP: []float64{0, 0, 0, 0.3, 1}[r.Intn(5)], MaxLen: 2, LenZeroP: 0.3}
			setPolicyAll(g, oc.Types[i], p)
		}
		missing := r.Intn(6) == 0
		extra := r.Intn(6) == 0
		n := 1 + r.Intn(8)
		if r.Intn(12) == 0 {
			n = 300
		}
		var recs []rec
		for k := 0; k < n; k++ {
			if missing && r.Intn(3) == 0 {
				recs = append(recs, rec{T: -1})
				continue
			}
			ti := use[r.Intn(len(use))]
			recs = append(recs, rec{F: g.Value(oc.Types[ti], 0), T: ti, Extra: extra && r.Intn(2) == 0})
		}
		oc.Objects = append(oc.Objects, recs)
	}
	return oc
}

func setPolicyAll(g *VGen, t *TSpec, p *VPolicy) {
	g.SetPolicy(t, p)
	inner := &VPolicy{Distinct: p.Distinct, NullP: 0, MaxLen: p.MaxLen, LenZeroP: p.LenZeroP}
	for _, e := range t.Elems {
		setPolicyAll(g, e, inner)
	}
	for _, f := range t.Fields {
		setPolicyAll(g, f.Type, inner)
	}
}

func strRecs(ss ...string) []rec {
	var out []rec
	for _, s := range ss {
		out = append(out, rec{F: VPrim([]byte(s)), T: 0})
	}
	return out
}

// constStringObjects: several objects whose f column is one repeated string each (const
// encoded): the only multi-object shape whose vector result does not depend on how the
// scan legs share the objects.
func constStringObjects(c *Ctx) *ocase {
	oc := &ocase{Label: "const-strings", Types: []*TSpec{Prim(zed.IDString)}}
	for o := 0; o < 2+c.Rng.Intn(2); o++ {
		s := []string{"a", "b", ""}[c.Rng.Intn(3)]
		var ss []string
		for k := 0; k < 1+c.Rng.Intn(4); k++ {
			ss = append(ss, s)
		}
		oc.Objects = append(oc.Objects, strRecs(ss...))
	}
	return oc
}

// dictStringObjects: 2..4 objects of dictionary-encoded string columns with shared keys.
func dictStringObjects(c *Ctx) *ocase {
	oc := &ocase{Label: "dict-strings", Types: []*TSpec{Prim(zed.IDString)}}
	keys := []string{"a", "b", "c", ""}
	for o := 0; o < 2+c.Rng.Intn(3); o++ {
		var ss []string
		for k := 0; k < 2+c.Rng.Intn(5); k++ {
			ss = append(ss, keys[c.Rng.Intn(len(keys))])
		}
		oc.Objects = append(oc.Objects, strRecs(ss...))
	}
	return oc
}

// knownCases: the witnesses of findings/C09.json and of the not_… theorems of Props/C09.lean.
func knownCases() []*ocase {
	str, i64 := Prim(zed.IDString), Prim(zed.IDInt64)
	ints := func(t int, xs ...int64) []rec {
		var out []rec
		for _, x := range xs {
			out = append(out, rec{F: VPrim(zed.EncodeInt(x)), T: t})
		}
		return out
	}
	return []*ocase{
		// countDict assigns: a b a | a c
		{Label: "dict-across-objects", Types: []*TSpec{str}, Objects: [][]rec{strRecs("a", "b", "a"), strRecs("a", "c")}},
		// int64 column, two distinct values: dictionary of ints → unchecked assertion
		{Label: "non-string-dict", Types: []*TSpec{i64}, Objects: [][]rec{ints(0, 1, 2)}},
		// uint8 column (never dictionary encoded) → switch default
		{Label: "non-string-flat", Types: []*TSpec{Prim(zed.IDUint8)}, Objects: [][]rec{{{F: VPrim(zed.EncodeUint(1)), T: 0}, {F: VPrim(zed.EncodeUint(2)), T: 0}}}},
		// a record without f
		{Label: "missing", Types: []*TSpec{str}, Objects: [][]rec{{{T: -1}}}},
		// const int column: dropped by count() by, ignored by sum
		{Label: "const-int", Types: []*TSpec{i64}, Objects: [][]rec{ints(0, 5, 5)}},
		// null slots
		{Label: "null-const-string", Types: []*TSpec{str}, Objects: [][]rec{{{F: VPrim([]byte("a")), T: 0}, {F: VNull(), T: 0}}}},
		{Label: "null-only-string", Types: []*TSpec{str}, Objects: [][]rec{{{F: VNull(), T: 0}}}},
		{Label: "null-type", Types: []*TSpec{Prim(zed.IDNull)}, Objects: [][]rec{{{F: VNull(), T: 0}}}},
		// floats / uints for sum
		{Label: "floats", Types: []*TSpec{Prim(zed.IDFloat64)}, Objects: [][]rec{{{F: VPrim(zed.EncodeFloat64(1.5)), T: 0}, {F: VPrim(zed.EncodeFloat64(2)), T: 0}}}},
		{Label: "uints", Types: []*TSpec{Prim(zed.IDUint64)}, Objects: [][]rec{{{F: VPrim(zed.EncodeUint(1)), T: 0}, {F: VPrim(zed.EncodeUint(2)), T: 0}}}},
		// named string type
		{Label: "named-string", Types: []*TSpec{{Kind: "named", Name: "mystr", Elems: []*TSpec{str}}}, Objects: [][]rec{strRecs("a", "b")}},
	}
}

// ---- lake: before / after AddVectors ---------------------------------------------------------------
//
// The planner vectorizes only when the query runs with more than one scan leg, and the legs
// pull objects from one shared lister: which leg scans which object is up to the scheduler.
// The check is schedule-independent: the oracle compares multisets (a correct vector runtime
// gives the sequential result under every schedule), and the real result with vector copies
// must be one of the results the model predicts for SOME distribution of the objects over
// the legs (every set partition into at most `legs` blocks, lister order inside a block,
// partial results combined as the final summarize does).

// setPartitions: all partitions of 0..n-1 into at most maxBlocks blocks (blocks in order of
// their smallest element, elements ascending).
func setPartitions(n, maxBlocks int) [][][]int {
	var out [][][]int
	labels := make([]int, n)
	var rec func(i, used int)
	rec = func(i, used int) {
		if i == n {
			blocks := make([][]int, used)
			for k, l := range labels {
				blocks[l] = append(blocks[l], k)
			}
			out = append(out, blocks)
			return
		}
		for l := 0; l <= used && l < maxBlocks; l++ {
			labels[i] = l
			nu := used
			if l == used {
				nu++
			}
			rec(i+1, nu)
		}
	}
	if n == 0 {
		return [][][]int{{}}
	}
	rec(0, 0)
	return out
}

// modelLakeOutcomes: the canonical results the model allows for the vectorized query.
func (h *harness) modelLakeOutcomes(oc *ocase, agg string, legs int) map[string]bool {
	objs := oc.modelObjectList()
	out := map[string]bool{}
	vals := oc.intVals()
	for _, part := range setPartitions(len(objs), legs) {
		panicked := false
		counts := map[string]int{}
		total := int64(0)
		for _, block := range part {
			var sb strings.Builder
			for _, i := range block {
				sb.WriteByte(' ')
				sb.WriteString(objs[i])
			}
			if agg == "countby" {
				ans := h.c.Model().Call("(C09 countby" + sb.String() + ")")
				if !strings.HasPrefix(ans, "ok") {
					panicked = true
					break
				}
				for _, r := range splitRows(strings.TrimPrefix(ans, "ok")) {
					// r = ((type value) count)
					i := strings.LastIndex(r, " ")
					n := 0
					fmt.Sscanf(r[i+1:len(r)-1], "%d", &n)
					counts[r[1:i]] += n
				}
			} else {
				ans := h.c.Model().Call("(C09 sum " + vals + sb.String() + ")")
				if !strings.HasPrefix(ans, "ok ") {
					panicked = true
					break
				}
				var n int64
				fmt.Sscanf(strings.TrimPrefix(ans, "ok "), "%d", &n)
				total += n // int64 wrap-around like the combiner
			}
		}
		switch {
		case panicked:
			out["panic"] = true
		case agg == "countby":
			var rows []string
			for k, n := range counts {
				rows = append(rows, fmt.Sprintf("(%s %d)", k, n))
			}
			out["ok "+strings.Join(sorted(rows), " ")] = true
		default:
			out[fmt.Sprintf("ok %d", total)] = true
		}
	}
	return out
}

// lakeTimedOut: the worker call hit its limit, or a query inside it hit its context deadline.
func lakeTimedOut(crashed bool, msg string, resp *wResp) bool {
	if crashed {
		return strings.HasPrefix(msg, "timeout")
	}
	for _, rs := range [][]qRes{resp.Before, resp.After} {
		for _, r := range rs {
			if strings.Contains(r.Err, "context deadline exceeded") {
				return true
			}
		}
	}
	return false
}

func (h *harness) lakeCheck(oc *ocase) {
	c := h.c
	c.Eval("lake" + oc.key())
	c.Stat(fmt.Sprintf("lake:objects:%d", len(oc.Objects)))
	req := oc.wreq("lake")
	req.Queries = []string{"count() by f", "sum(f)"}
	legs := 16
	if len(oc.Objects) > 1 {
		// two legs: with three objects some leg scans at least two of them
		req.Parallelism = 2
		legs = 2
	}
	var resp wResp
	crashed, msg := h.w.Call(req, 90*time.Second, &resp)
	if !crashed {
		for _, r := range resp.After {
			if strings.Contains(r.Err, "[vcache-fetch-deadlock]") {
				// the goroutine dump taken at the deadline shows the lock-order deadlock of
				// vcache.Cache (model: Zed.VecCacheLock, theorem not_vcache_fetch_deadlock_free)
				c.Stat("lake:vcache-fetch-deadlock")
				c.Fail("oracle", "C09:lake:vcache-fetch-deadlock", "lake query with vector copies never finishes ("+trunc(r.Err, 120)+"): one goroutine holds c.mu inside vcache.Cache.lock waiting for the object mutex, its owner waits for c.mu inside Cache.Fetch; objects"+trunc(oc.modelObjects(), 300), oc.replay("lake"))
				return
			}
		}
	}
	if lakeTimedOut(crashed, msg, &resp) {
		// a starved machine, not the code under test, is the usual cause: the case is run once
		// more with a longer limit, and only a second timeout is reported
		c.Stat("lake:timeout-retried")
		resp = wResp{}
		crashed, msg = h.w.Call(req, 240*time.Second, &resp)
	}
	aggs := []string{"countby", "sum"}
	if crashed {
		_, o := h.failsAgg(oc, "countby")
		key := "C09:lake:unexplained-crash"
		if o != nil {
			if k := h.keyOf(oc, "countby", "panic", o); !strings.Contains(k, "unexplained") {
				key = k
			}
		}
		c.Fail("panic", key, "lake query with vector copies crashed the process: "+firstPanicLine(msg)+" for"+trunc(oc.modelObjects(), 300), oc.replay("lake"))
		return
	}
	if resp.Err != "" {
		c.Fail("correspondence", "C09:lake:setup", "lake setup failed: "+trunc(resp.Err, 300), oc.replay("lake"))
		return
	}
	for i, agg := range aggs {
		b, a := resp.Before[i], resp.After[i]
		if b.Err != "" {
			c.Stat("lake:sequential-error")
			continue
		}
		// T2: the result with vectors is one the model allows for some schedule
		real := ""
		switch {
		case a.Err != "" && strings.Contains(a.Err, "panic"):
			real = "panic"
		case a.Err != "":
			real = "error " + trunc(a.Err, 100)
		case agg == "countby":
			real = "ok " + strings.Join(cbRowsCanon(a.Rows), " ")
		default:
			real = "ok " + strings.Join(a.Out, " ")
		}
		if agg == "sum" && oc.intValsAmbiguous() {
			c.Stat("lake:sum:tie-skipped(body ambiguous between a signed and an unsigned type)")
		} else if len(oc.Objects) <= 4 {
			c.Res.ModelCases++
			outs := h.modelLakeOutcomes(oc, agg, legs)
			c.Stat(fmt.Sprintf("lake:model-outcomes:%d", len(outs)))
			if !outs[real] {
				var all []string
				for k := range outs {
					all = append(all, trunc(k, 160))
				}
				c.Fail("correspondence", "C09:corr:lake:"+agg, fmt.Sprintf("`%s` with vector copies gives %s, which the model predicts for no distribution of the %d objects over %d scan legs (model: %s); objects%s", req.Queries[i], trunc(real, 200), len(oc.Objects), legs, strings.Join(sorted(all), " | "), trunc(oc.modelObjects(), 300)), oc.replay("lake"))
			} else {
				c.Stat("lake:" + agg + ":model-explains")
			}
		}
		class := ""
		switch {
		case a.Err != "" && strings.Contains(a.Err, "panic"):
			class = "panic"
		case a.Err != "":
			class = "error"
		case !SameMultiset(a.Out, b.Out):
			class = "diff"
		}
		if class == "" {
			c.Stat("lake:" + agg + ":agrees")
			continue
		}
		c.Stat("lake:" + agg + ":" + class)
		_, o := h.failsAgg(oc, agg)
		key := "C09:lake:unexplained-" + class
		if o != nil {
			if k := h.keyOf(oc, agg, class, o); !strings.Contains(k, "unexplained") {
				key = k
			}
		}
		if h.seen == nil {
			h.seen = map[string]bool{}
		}
		if h.seen["lake:"+key] {
			c.Stat("lake:repeat:" + key)
			continue
		}
		h.seen["lake:"+key] = true
		kind := "oracle"
		if class == "panic" {
			kind = "panic"
		}
		q := req.Queries[i]
		c.Fail(kind, key, fmt.Sprintf("`from pool | %s` (%d objects, %d scan legs) changes when vector copies are added: without=%s with=%s (%s); objects%s", q, len(oc.Objects), legs, trunc(strings.Join(b.Out, " "), 200), trunc(strings.Join(a.Out, " "), 200), trunc(strings.SplitN(a.Err, "\n", 2)[0], 120), trunc(oc.modelObjects(), 300)), oc.replay("lake"))
	}
}

// ---- vcomp: whole programs through compiler.VectorCompile -----------------------------------------------

type vprog struct {
	q   string
	ops []string // dag operators / expression kinds needed
}

// programs on which the two runtimes are expected to agree (fields a b s r of the inputs)
var vprogs = []vprog{
	{"yield a", []string{"Yield", "This"}}, {"yield this", []string{"Yield", "This"}},
	{"yield {x:a,y:b}", []string{"Yield", "RecordExpr"}}, {"yield r.x", []string{"Yield", "This"}},
	{"yield r", []string{"Yield"}}, {"yield 1", []string{"Yield", "Literal"}}, {"yield \"s\"", []string{"Yield", "Literal"}},
	{"cut a", []string{"Cut"}}, {"cut a,b", []string{"Cut"}}, {"cut b,a", []string{"Cut"}}, {"cut r.x", []string{"Cut"}},
	{"cut x:=a", []string{"Cut"}}, {"drop a", []string{"Drop"}}, {"drop b", []string{"Drop"}}, {"drop a,b", []string{"Drop"}},
	{"put x:=1", []string{"Put", "Literal"}}, {"put x:=a", []string{"Put"}}, {"put a:=b", []string{"Put"}},
	{"rename x:=a", []string{"Rename"}}, {"rename b:=a", []string{"Rename"}}, {"rename r.z:=r.x", []string{"Rename"}},
	{"where a>1", []string{"Filter", "BinaryExpr", ">"}}, {"where s==\"x\"", []string{"Filter", "BinaryExpr", "=="}},
	{"head 1", []string{"Head"}}, {"head 2", []string{"Head"}}, {"head 5", []string{"Head"}},
	{"tail 1", []string{"Tail"}}, {"tail 2", []string{"Tail"}}, {"tail 5", []string{"Tail"}},
	{"sort a", []string{"Sort"}}, {"sort -r a", []string{"Sort"}}, {"sort b", []string{"Sort"}}, {"sort a,b", []string{"Sort"}},
	{"over this", []string{"Over"}}, {"pass", []string{"Pass"}},
	{"yield len(a)", []string{"Yield", "Call"}}, {"yield kind(a)", []string{"Yield", "Call"}},
	{"yield upper(s)", []string{"Yield", "Call"}}, {"yield lower(s)", []string{"Yield", "Call"}}, {"yield fields(this)", []string{"Yield", "Call"}},
	{"yield a | head 1", []string{"Yield", "Head"}}, {"sort a | head 1", []string{"Sort", "Head"}},
	{"cut a | sort a | tail 1", []string{"Cut", "Sort", "Tail"}},
	{"yield a+b", []string{"Yield", "BinaryExpr", "+"}}, {"yield a*b", []string{"Yield", "BinaryExpr", "*"}},
	{"yield a-b", []string{"Yield", "BinaryExpr", "-"}}, {"yield a<b", []string{"Yield", "BinaryExpr", "<"}},
	{"yield a==b", []string{"Yield", "BinaryExpr", "=="}}, {"yield a!=b", []string{"Yield", "BinaryExpr", "!="}},
	{"yield a<=b and b>0", []string{"Yield", "BinaryExpr", "<=", "and", ">"}},
	{"yield a>b or a==b", []string{"Yield", "BinaryExpr", ">", "or", "=="}},
	{"yield !(a==b)", []string{"Yield", "UnaryExpr", "!", "=="}},
}

// arithmetic / comparison programs are only run over inputs where a and b are non-null int64
// in every record (the null / mixed-type behaviour of vam/expr is recorded separately)
func needsCleanInts(p vprog) bool {
	for _, o := range p.ops {
		switch o {
		case "+", "-", "*", "<", "<=", ">", ">=", "==", "!=", "and", "or", "!":
			if strings.Contains(p.q, "a") && strings.Contains(p.q, "b") && !strings.Contains(p.q, "s==") && !strings.Contains(p.q, "a>1") {
				return true
			}
		}
	}
	return false
}

type vknown struct{ q, in, key string }

var knownVcomp = []vknown{
	{"yield a+1", `{a:1} {a:null(int64)} {a:7}`, "C09:vexpr:arith-null-operand"},
	{"yield a==1", `{a:1} {a:null(int64)} {a:7}`, "C09:vexpr:compare-null-operand"},
	{"where a>1 | yield b", `{a:1,b:2} {a:3,b:-4} {a:5,b:6}`, "C09:vop:field-access-on-view"},
	{"yield a/b", `{a:1,b:0} {a:2,b:1}`, "C09:vexpr:divide-by-zero-panic"},
	{"yield !p", `{p:true} {p:null(bool)}`, "C09:vexpr:logic-null-operand"},
	{"yield p==p", `{p:true} {p:false}`, "C09:vexpr:compare-bool"},
	{"yield a==s", `{a:1,s:"x"} {a:2,s:"y"}`, "C09:vexpr:ill-typed"},
	{"yield !(a==b)", `{a:0,b:0}`, "C09:vexpr:logic-const-operand"},
}

func (h *harness) accepted() map[string]bool {
	acc := map[string]bool{}
	facts := h.c.Model().Call("(C09 facts)")
	x, err := ParseSX("(" + facts + ")")
	if err != nil {
		h.c.Fail("correspondence", "C09:corr:facts", "cannot read the generated tables through the driver: "+facts, nil)
		return acc
	}
	for _, l := range x.List {
		for _, e := range l.List[1:] {
			acc[e.Atom] = true
		}
	}
	return acc
}

func (h *harness) vcompRandom() {
	c := h.c
	acc := h.accepted()
	r := c.Rng
	n := c.N(6, 60)
	for i := 0; i < n; i++ {
		// input: records {a:int64,b:int64,s:string,r:{x:int64,y:string}}, optionally a second
		// top-level type without b, optionally nulls in s / r
		var recs []string
		clean := true
		m := 1 + r.Intn(6)
		second := r.Intn(3) == 0
		nulls := r.Intn(3) == 0
		for k := 0; k < m; k++ {
			a, b := r.Intn(7)-2, r.Intn(5)-1
			s := []string{"x", "y", "", "Zed"}[r.Intn(4)]
			sv := fmt.Sprintf("%q", s)
			rv := fmt.Sprintf("{x:%d,y:%q}", r.Intn(4), s)
			if nulls && r.Intn(3) == 0 {
				sv = "null(string)"
			}
			if nulls && r.Intn(4) == 0 {
				rv = "null({x:int64,y:string})"
			}
			if second && r.Intn(3) == 0 {
				recs = append(recs, fmt.Sprintf("{a:%d,s:%s}", a, sv))
				clean = false
				continue
			}
			recs = append(recs, fmt.Sprintf("{a:%d,b:%d,s:%s,r:%s}", a, b, sv, rv))
		}
		input := strings.Join(recs, " ")
		var qs []string
		for _, p := range vprogs {
			ok := true
			for _, o := range p.ops {
				if !acc[o] {
					ok = false
				}
			}
			if !ok {
				c.Stat("vcomp:not-accepted-by-tables")
				continue
			}
			if needsCleanInts(p) && !clean {
				continue
			}
			if nulls && (strings.Contains(p.q, "upper") || strings.Contains(p.q, "lower") || strings.Contains(p.q, "r.") || strings.Contains(p.q, "s==") || strings.Contains(p.q, "drop") || strings.Contains(p.q, "sort")) {
				continue
			}
			qs = append(qs, p.q)
		}
		h.vcompBatch(qs, input)
	}
}

func (h *harness) vcompBatch(qs []string, input string) {
	c := h.c
	req := wReq{Op: "vcompile", Input: input, Queries: qs}
	var resp wResp
	crashed, msg := h.w.Call(&req, 120*time.Second, &resp)
	if crashed {
		for _, q := range qs {
			h.vcompCheck(q, input, "")
		}
		_ = msg
		return
	}
	for i, q := range qs {
		c.Eval("vcomp:" + q + "|" + input)
		h.vcompJudge(q, input, resp.Before[i], resp.After[i], "")
	}
}

func (h *harness) vcompCheck(q, input, knownKey string) {
	c := h.c
	c.Eval("vcomp:" + q + "|" + input)
	req := wReq{Op: "vcompile", Input: input, Queries: []string{q}}
	var resp wResp
	crashed, msg := h.w.Call(&req, 60*time.Second, &resp)
	if crashed {
		key := knownKey
		if key == "" {
			key = "C09:vcompile:crash:" + opOf(q)
		}
		c.Fail("panic", key, fmt.Sprintf("VectorCompile `%s` over %s crashed the process: %s", q, trunc(input, 200), firstPanicLine(msg)), &rcase{Check: "vcomp", Query: q, Input: input})
		return
	}
	h.vcompJudge(q, input, resp.Before[0], resp.After[0], knownKey)
}

func opOf(q string) string { return strings.Fields(q)[0] }

func (h *harness) vcompJudge(q, input string, seq, vec qRes, knownKey string) {
	c := h.c
	c.Stat("vcomp:programs")
	class := ""
	switch {
	case strings.HasPrefix(vec.Err, "error: compile:") || strings.HasPrefix(vec.Err, "compile:"):
		c.Stat("vcomp:rejected-by-vector-compiler")
		return
	case strings.HasPrefix(vec.Err, "panic"):
		class = "panic"
	case vec.Err != "" && seq.Err == "":
		class = "error"
	case vec.Err == "" && seq.Err != "":
		class = "diff"
	case vec.Err != "" && seq.Err != "":
		c.Stat("vcomp:both-error")
		return
	case strings.Join(vec.Out, " ") != strings.Join(seq.Out, " "):
		class = "diff"
	}
	if class == "" {
		c.Stat("vcomp:agrees")
		return
	}
	key := knownKey
	if key == "" {
		key = "C09:vcompile:" + class + ":" + opOf(q)
		// the logical operators reject a Const operand (a comparison over const-encoded
		// columns, e.g. a single record): every result is error("not type bool")
		if class == "diff" && usesLogic(q) && allAre(vec.Out, `error("not type bool")`) {
			key = "C09:vexpr:logic-const-operand"
		}
	}
	kind := "oracle"
	if class == "panic" {
		kind = "panic"
	}
	c.Fail(kind, key, fmt.Sprintf("`%s` over %s: sequential=%s vector=%s %s", q, trunc(input, 200), trunc(strings.Join(seq.Out, " "), 160), trunc(strings.Join(vec.Out, " "), 160), trunc(strings.SplitN(vec.Err, "\n", 2)[0], 120)), &rcase{Check: "vcomp", Query: q, Input: input})
}

func usesLogic(q string) bool {
	return strings.Contains(q, " and ") || strings.Contains(q, " or ") || strings.Contains(q, "!(")
}

func allAre(xs []string, s string) bool {
	if len(xs) == 0 {
		return false
	}
	for _, x := range xs {
		if x != s {
			return false
		}
	}
	return true
}
