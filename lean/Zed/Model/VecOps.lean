/-
  Model of the reachable vector operators (C09): the planner predicate
  (compiler/optimizer/vam.go Vectorize / isScanWithVectors / IsCountByString / IsSum), the
  field vector an operator receives (runtime/vcache loader + projection + vam/expr DotExpr),
  `CountByString.update / count / countDict / countFixed / materialize` and
  `Sum.update / materialize` (runtime/vam/op/agg.go), and the sequential reference
  (`count() by f`, `sum(f)` of the sam runtime, as far as the statements below need it).

  The dispatch of the two operators follows the kind lists of `Zed.Generated.C09`, the kind a
  primitive column is loaded as follows `loadValsKinds` of `Zed.Generated.C03`; both are
  regenerated from the Go source on every check.  The bugs of the current code are modelled
  as they are (assignment in `countDict`, null slots of flat string vectors counted as "",
  null slots of a Const counted as the value, kinds outside the switch: panic or ignored).
-/
import Zed.Generated.C09
import Zed.Model.VngColumns
import Zed.Model.VecLoad
deriving instance DecidableEq for Except

namespace Zed.Vec
open Zed.Vng

def lookupS (k : String) : List (String × String) → Option String
  | [] => none
  | (a, b) :: r => if a == k then some b else lookupS k r

/-- the vector kind a non-dictionary primitive column of type id is loaded as
    (`loadVals`' case for the type, via `LookupPrimitiveByID`). -/
def kindOfPrim (id : Nat) : String :=
  match (Zed.Generated.C03.primitiveTypes.find? (·.1 == id)) with
  | none => "?"
  | some (_, tn) => (lookupS tn Zed.Generated.C03.loadValsKinds).getD "?"

/-- the column of field `f` inside one top-level type of one object. -/
inductive FCol where
  | missing (n : Nat)                 -- the type has no field f (or is not a record)
  | col (t : Ty) (vs : List Val)      -- the values of f, in order
  deriving Repr, DecidableEq

/-- What the operator's `c.field.Eval(val)` yields, as far as the operators look at it. -/
inductive FVec where
  | flat (kind : String) (vals : List (Option Bytes))            -- Uint Int Float Bool Bytes String IP Net TypeValue
  | dict (kind : String) (entries : List (Bytes × Nat)) (len : Nat)  -- vector.Dict over a flat vector of `kind`
  | const (id : Nat) (v : Bytes) (len : Nat)                     -- vector.Const of primitive type id (len incl. null slots)
  | constNull (len : Nat)                                        -- vector.Const(zed.Null)
  | other (kind : String) (len : Nat)                            -- Record Array Set Map Union Error Named
  | loadFails (why : String)                                     -- the cache loader fails / panics
  deriving Repr, DecidableEq

def FVec.kind : FVec → String
  | .flat k _ => k
  | .dict _ _ _ => "Dict"
  | .const _ _ _ => "Const"
  | .constNull _ => "Const"
  | .other k _ => k
  | .loadFails _ => "-"

def optBytes : Val → Option Bytes
  | .prim b => some b
  | _ => none

/-- loader + projection `[f]` + `DotExpr` for one column. -/
def fieldVec : FCol → FVec
  | .missing n => .other "Error" n
  | .col (.prim id) vs =>
    if id = 29 then .constNull vs.length
    else
      match primEncode id true ((nonNull vs).map Val.primBytes) with
      | .const v _ => .const id v vs.length
      | .dict es _ _ => .dict (kindOfPrim id) es vs.length
      | .plain _ _ =>
        if kindOfPrim id = "Net" ∧ (nonNull vs) ≠ [] ∧ netAllocated = false then .loadFails "net: nil slice indexed"
        else .flat (kindOfPrim id) (vs.map optBytes)
  | .col (.enum _) _ => .loadFails "enum: no case in the loader"
  | .col (.named _ _) vs => .other "Named" vs.length
  | .col (.record _) vs => .other "Record" vs.length
  | .col (.array _) vs => .other "Array" vs.length
  | .col (.set _) vs => .other "Set" vs.length
  | .col (.map _ _) vs => .other "Map" vs.length
  | .col (.union _) vs => .other "Union" vs.length
  | .col (.error _) vs => .other "Error" vs.length

/-! ### CountByString -/

/-- `c.table[k] += n` -/
def tblAdd : List (Bytes × Nat) → Bytes → Nat → List (Bytes × Nat)
  | [], k, n => [(k, n)]
  | (a, c) :: r, k, n => if a = k then (a, c + n) :: r else (a, c) :: tblAdd r k n

/-- `c.table[k] = n` -/
def tblSet : List (Bytes × Nat) → Bytes → Nat → List (Bytes × Nat)
  | [], k, n => [(k, n)]
  | (a, c) :: r, k, n => if a = k then (a, n) :: r else (a, c) :: tblSet r k n

structure CBState where
  table : List (Bytes × Nat) := []
  nulls : Nat := 0
  deriving Repr, DecidableEq

open Zed.Generated.C09 in
/-- `countDict`: the table update found in the source (`=` on the current tree). -/
def dictUpd (t : List (Bytes × Nat)) (k : Bytes) (n : Nat) : List (Bytes × Nat) :=
  if countDictUpdates == ["table+="] then tblAdd t k n else tblSet t k n

open Zed.Generated.C09 in
/-- `CountByString.update` for one (non-Dynamic) vector. -/
def cbUpdate (s : CBState) (v : FVec) : Except String CBState :=
  match v with
  | .loadFails why => .error ("load: " ++ why)
  | _ =>
    if !(countByKinds.contains v.kind) then
      (if countByKindsDefault == "panic" then .error ("UNKNOWN " ++ v.kind) else .ok s)
    else
      match v with
      | .flat _ vals =>            -- `count`: every slot, the null ones as ""
        .ok { s with table := vals.foldl (fun t x => tblAdd t (x.getD []) 1) s.table }
      | .dict kind es _ =>         -- `countDict(val.Any.(*vector.String), val.Counts)`
        if kind == "String" then .ok { s with table := es.foldl (fun t e => dictUpd t e.1 e.2) s.table }
        else .error ("interface conversion: vector.Any is *vector." ++ kind ++ ", not *vector.String")
      | .const id val len =>       -- `countFixed`
        match (countFixedIDs.find? (·.1 == id)) with
        | some (_, "table") => .ok { s with table := tblAdd s.table val len }
        | some (_, "nulls") => .ok { s with nulls := s.nulls + len }
        | _ => .ok s
      | .constNull len =>
        match (countFixedIDs.find? (·.1 == 29)) with
        | some (_, "nulls") => .ok { s with nulls := s.nulls + len }
        | some (_, "table") => .ok { s with table := tblAdd s.table [] len }
        | _ => .ok s
      | _ => .ok s

/-- one leg: objects in scan order, each a `Dynamic` of its top-level types in first-seen
    order (`update` recurses into `Dynamic.Values`). -/
def cbRun (objs : List (List FCol)) : Except String CBState :=
  (objs.flatten.map fieldVec).foldlM cbUpdate {}

/-- an output row: the key (`none` = null) with its type, and the count. -/
abbrev Row := (Ty × Val) × Nat

def strTy : Ty := .prim 25

/-- `materialize`: one row per table entry, plus a null(string) row when nulls > 0. -/
def cbRows (s : CBState) : List Row :=
  s.table.map (fun e => ((strTy, Val.prim e.1), e.2)) ++
    (if s.nulls > 0 then [((strTy, Val.null), s.nulls)] else [])

/-! ### Sum -/

open Zed.Generated.C09 in
/-- `Sum.update`; `val` = `zed.DecodeInt` / `DecodeUint` reinterpreted as int64. -/
def sumUpdate (val : Bytes → Int) (acc : Int) (v : FVec) : Except String Int :=
  match v with
  | .loadFails why => .error ("load: " ++ why)
  | _ =>
    if !(sumKinds.contains v.kind) then
      (if sumKindsDefault == "panic" then .error ("UNKNOWN " ++ v.kind) else .ok acc)
    else
      match v with
      | .flat _ vals => .ok (vals.foldl (fun a x => a + (x.map val).getD 0) acc)
      | .dict kind es _ =>
        if sumDictKinds.contains kind then .ok (es.foldl (fun a e => a + val e.1 * e.2) acc) else .ok acc
      | _ => .ok acc

def sumRun (val : Bytes → Int) (objs : List (List FCol)) : Except String Int :=
  (objs.flatten.map fieldVec).foldlM (sumUpdate val) 0

/-- two's complement int64 of an integer (Go's `+=` on int64 wraps). -/
def wrap64 (x : Int) : Int := (x + 2 ^ 63) % 2 ^ 64 - 2 ^ 63

/-! ### Sequential reference -/

/-- `count() by f` of the sequential runtime: one group per distinct (type, value) of `f`,
    null values of each type included, records without `f` under `error("missing")`. -/
def seqKey : Option (Ty × Val) → Ty × Val
  | none => (missingTy, missingVal)
  | some p => p
where
  missingTy : Ty := .error (.prim 25)
  missingVal : Val := .prim [109, 105, 115, 115, 105, 110, 103]

def rowAdd : List Row → (Ty × Val) → List Row
  | [], k => [(k, 1)]
  | (a, c) :: r, k => if a = k then (a, c + 1) :: r else (a, c) :: rowAdd r k

def seqCountBy (xs : List (Option (Ty × Val))) : List Row :=
  xs.foldl (fun t x => rowAdd t (seqKey x)) []

/-- total count of key `k` in a list of rows. -/
def cnt (rows : List Row) (k : Ty × Val) : Nat :=
  ((rows.filter fun r => r.1 == k).map (·.2)).sum

/-- rows are well-formed: distinct keys, positive counts. -/
def rowsOK (rows : List Row) : Prop := (rows.map (·.1)).Nodup ∧ ∀ r ∈ rows, r.2 > 0

/-- two outputs agree as multisets of rows. -/
def RowsAgree (a b : List Row) : Prop := rowsOK a ∧ rowsOK b ∧ ∀ k, cnt a k = cnt b k

/-- the values of `f` of an object, record by record (write order inside a type group is all
    the aggregates depend on). -/
def FCol.values : FCol → List (Option (Ty × Val))
  | .missing n => List.replicate n none
  | .col t vs => vs.map fun v => some (t, v)

def _root_.Zed.Vng.PCol.isConst : PCol → Bool
  | .const _ _ => true
  | _ => false

/-! ### Planner -/

inductive Shape where
  | countBy | sum | other
  deriving Repr, DecidableEq

/-- `Optimizer.Vectorize` on `[SeqScan, op, …]`: vectorized iff the pool has at least one
    object, every object has a vector copy, and the operator after the scan is
    `count() by <field>` or `sum(<field>)`.  (Only called when parallelism > 1.) -/
def vectorized (shape : Shape) (hasVector : List Bool) : Bool :=
  hasVector != [] && hasVector.all id && (shape == .countBy || shape == .sum)

end Zed.Vec
