import Zed.Proofs.ZsonTypeRT
import Zed.Proofs.ZsonUnique
/-!
  C02 — value round trip, plain fragment, part 1: decorators, the union-parent lemma, the
  leaves (null, primitive, type value, enum) and the list-level induction steps.
-/
namespace Zed.Zson
open Generated

/-- the decorator `Formatter.decorate(typ, false, null)` writes for a plain type. -/
def decoP (t : Ty) (null : Bool) : List Deco :=
  if (!(null && t != tyNull) && implied t) then []
  else if selfDescribing t && !null then []
  else [.cast (tyAst t)]

theorem nameOf_plain (st : FState) (t : Ty) (h : plainTy t = true) : st.nameOf t = none := by
  cases t <;> simp_all [FState.nameOf, plainTy]

theorem hasName_plain (st : FState) (t : Ty) (h : plainTy t = true) : st.hasName t = false := by
  cases t <;> simp_all [FState.hasName, plainTy]

theorem decorateM_plain (st : FState) (t : Ty) (null : Bool) (h : plainTy t = true) :
    decorateM st t false null = (st, decoP t null) := by
  unfold decorateM decoP
  simp only [Bool.false_or, nameOf_plain st t h, fmtType_plain st t h]
  split
  · rfl
  · split
    · cases t <;> simp_all [plainTy]
    · rfl

def isCast : Deco → Bool
  | .cast _ => true
  | .def_ _ => false

theorem wrapDecos_append_cast (T : ATy) : (ds : List Deco) → (v : AVal) → (∀ d ∈ ds, isCast d = true) →
    wrapDecos v (ds ++ [.cast T]) = .cast (wrapDecos v ds) T
  | [], v, _ => by simp [wrapDecos]
  | .cast T2 :: ds, v, h => by
    simp only [List.cons_append, wrapDecos]
    exact wrapDecos_append_cast T ds _ (fun d hd => h d (by simp [hd]))
  | .def_ n :: ds, v, h => by
    have := h (.def_ n) (by simp)
    simp [isCast] at this

theorem mkVal_append_cast (a : AAny) (T : ATy) (ds : List Deco) (h : ∀ d ∈ ds, isCast d = true) :
    mkVal a (ds ++ [.cast T]) = .cast (mkVal a ds) T := by
  cases ds with
  | nil => simp [mkVal, wrapDecos]
  | cons d ds =>
    cases d with
    | def_ n => have := h (.def_ n) (by simp); simp [isCast] at this
    | cast T2 =>
      simp only [List.cons_append, mkVal]
      exact wrapDecos_append_cast T ds _ (fun d hd => h d (by simp [hd]))

/-- a decorator carrying the type syntax of a well-formed plain type. -/
def GoodDeco (d : Deco) : Prop := ∃ t', plainTy t' = true ∧ wfTy t' = true ∧ d = .cast (tyAst t')

theorem GoodDeco.isCast {d : Deco} (h : GoodDeco d) : isCast d = true := by
  obtain ⟨_, _, _, rfl⟩ := h; rfl

theorem decoP_good (t : Ty) (null : Bool) (hp : plainTy t = true) (hw : wfTy t = true) :
    ∀ d ∈ decoP t null, GoodDeco d := by
  intro d hd
  unfold decoP at hd
  split at hd
  · simp at hd
  · split at hd
    · simp at hd
    · simp at hd; subst hd; exact ⟨t, hp, hw, rfl⟩

theorem decoP_isCast (t : Ty) (null : Bool) : ∀ d ∈ decoP t null, isCast d = true := by
  intro d hd
  unfold decoP at hd
  split at hd
  · simp at hd
  · split at hd
    · simp at hd
    · simp at hd; subst hd; rfl

theorem typeCheck_union (castT : Ty) (ms : Tys) : typeCheck castT (some (.union ms)) = .ok () := by
  unfold typeCheck
  simp only
  split
  · rfl
  · have : (unionMembers (Ty.union ms).under).isSome = true := rfl
    rw [if_pos this]

theorem castStep_union_parent (castT : Ty) (ms : Tys) (run : Option Ty → Except Err (AState × TV)) :
    castStep (some (.union ms)) castT run =
      (castStep none castT run).bind fun r =>
        (convertUnion r.2 ms (.union ms)).map fun u => (r.1, u) := by
  unfold castStep
  have hu : unionMembers (Ty.union ms).under = some ms := rfl
  have hn : typeCheck castT none = .ok () := rfl
  rw [typeCheck_union, hn]
  simp only [hu, bind, Except.bind, pure, Except.pure]
  cases unionMembers castT.under with
  | none =>
    simp only
    cases run (some castT) with
    | error e => rfl
    | ok r =>
      obtain ⟨s, tv⟩ := r
      simp only
      cases convertUnion tv ms (.union ms) <;> rfl
  | some ms2 =>
    simp only
    cases run none with
    | error e => rfl
    | ok r =>
      obtain ⟨s, tv⟩ := r
      simp only
      cases convertUnion tv ms2 castT with
      | error e => rfl
      | ok r2 =>
        simp only
        cases convertUnion r2 ms (.union ms) <;> rfl

/-- an enclosing union type only adds a final `convertUnion`. -/
theorem convertValue_union_parent (st : AState) (ms : Tys) : (x : AVal) → (∀ a n, x ≠ .def_ a n) →
    convertValue st x (some (.union ms)) =
      (convertValue st x none).bind fun r =>
        (convertUnion r.2 ms (.union ms)).map fun u => (r.1, u)
  | .implied a, _ => by
    simp only [convertValue, viaUnion, Ty.under, unionMembers]
    cases convertAny st a none with
    | error e => rfl
    | ok r =>
      obtain ⟨s, tv⟩ := r
      simp only [bind, Except.bind]
      cases convertUnion tv ms (.union ms) <;> rfl
  | .def_ a n, h => absurd rfl (h a n)
  | .cast of ty, _ => by
    simp only [convertValue]
    generalize preDefs st of = pre
    cases pre with
    | error e => rfl
    | ok st1 =>
      simp only [bind, Except.bind]
      cases convertType st1 ty with
      | error e => rfl
      | ok r =>
        obtain ⟨st2, castT⟩ := r
        simp only
        exact castStep_union_parent castT ms _


theorem under_plain (t : Ty) (h : plainTy t = true) : t.under = t := by
  cases t <;> simp_all [Ty.under, plainTy]

theorem unionMembers_notUnion (t : Ty) (h : t.isUnion = false) : unionMembers t = none := by
  cases t <;> simp_all [Ty.isUnion, unionMembers]

theorem except_bind_pure_pair {ε α β} (x : Except ε (α × β)) :
    (x >>= fun r => pure (r.1, r.2)) = x := by
  cases x <;> rfl

/-- `value (type)` with a non-union decorator type, analysed with no enclosing type or with
    that same type: the `Any` is converted with the decorator type as its cast. -/
theorem conv_cast_implied (st : AState) (a : AAny) (T : ATy) (t : Ty) (p : Option Ty)
    (hT : convertType st T = .ok (st, t)) (hu : unionMembers t.under = none)
    (hp : p = none ∨ p = some t) :
    convertValue st (.cast (.implied a) T) p = convertAny st a (some t) := by
  simp only [convertValue, preDefs, pure, Except.pure, bind, Except.bind, hT, castStep, hu, viaUnion]
  rcases hp with rfl | rfl
  · simp only [typeCheck]
    cases convertAny st a (some t) <;> rfl
  · simp only [typeCheck, if_true, hu]
    cases convertAny st a (some t) <;> rfl

/-- what the analysis of a formatted value is expected to return when nothing encloses it:
    an element of a union-typed container comes back as its member (the container then
    rebuilds the union), everything else as itself. -/
def expA (t : Ty) (v : Val) (e : Bool) : TV :=
  if e && t.isUnion then
    match t, v with
    | .union ts, .union tag inner => ((ts.get? tag).getD tyNull, strip inner)
    | _, _ => (tyNull, .null)
  else (t, strip v)

def GoodV (t : Ty) (v : Val) (e : Bool) : Prop :=
  ∀ (pi : Bool) (fst : FState) (a0 : AState), ∃ any ds,
    fmtValue fst t v false pi true e = (fst, any, ds) ∧ (∀ d ∈ ds, GoodDeco d) ∧
    convertValue a0 (mkVal any ds) none = .ok (a0, expA t v e) ∧
    ((t.isUnion = false ∨ e = true) → convertValue a0 (mkVal any ds) (some t) = .ok (a0, (t, strip v)))

theorem castOk_null (id : Nat) : castOk C02.idNull id = true := by
  simp [castOk]

theorem lookup_null : lookupPrimitive (ascii "null") = some C02.idNull := by decide

theorem ascii_null_ne_string : ascii "null" ≠ ascii "string" := by decide

theorem implied_tyNull : implied tyNull = true := by decide

/-- converting the `null` literal under a plain cast. -/
theorem convAny_null_cast (a0 : AState) (t : Ty) :
    convertAny a0 nullAny (some t) = .ok (a0, (t, .null)) := by
  simp [convertAny, nullAny, lookup_null, ascii_null_ne_string, castOk_null]

theorem convAny_null_none (a0 : AState) :
    convertAny a0 nullAny none = .ok (a0, (tyNull, .null)) := by
  simp [convertAny, nullAny, lookup_null, tyNull]

theorem decoP_null_eq (t : Ty) : decoP t true = if t = tyNull then [] else [.cast (tyAst t)] := by
  unfold decoP
  by_cases hn : t = tyNull
  · subst hn; simp [implied_tyNull]
  · simp [hn]

@[simp] theorem mkVal_nil (a : AAny) : mkVal a [] = .implied a := rfl
@[simp] theorem mkVal_cast1 (a : AAny) (T : ATy) : mkVal a [.cast T] = .cast (.implied a) T := rfl
@[simp] theorem mkVal_cast2 (a : AAny) (T T2 : ATy) :
    mkVal a [.cast T, .cast T2] = .cast (.cast (.implied a) T) T2 := rfl

/-- a null of any plain type. -/
theorem good_null (t : Ty) (e : Bool) (hp : plainTy t = true) (hw : wfTy t = true) : GoodV t .null e := by
  intro pi fst a0
  by_cases hu : (e && t.under.isUnion) = true
  · -- element of a union container: a bare `null`
    have hu' : (e && t.isUnion) = true := by rw [under_plain t hp] at hu; exact hu
    refine ⟨nullAny, [], ?_, by simp, ?_, ?_⟩
    · simp [fmtValue, hu]
    · simp only [mkVal_nil, convertValue, viaUnion, convAny_null_none, expA, hu', if_true]
    · intro _
      simp only [Bool.and_eq_true] at hu'
      obtain ⟨ms, rfl⟩ : ∃ ms, t = .union ms := by
        cases t <;> simp_all [Ty.isUnion]
      rw [convertValue_union_parent a0 ms _ (by intro a n h; simp at h)]
      simp [convertValue, viaUnion, convAny_null_none, Except.bind, convertUnion, strip, Except.map]
  · have hu' : (e && t.isUnion) = false := by
      rw [under_plain t hp] at hu; simpa using hu
    have hfmt : fmtValue fst t .null false pi true e = (fst, nullAny, decoP t true) := by
      simp [fmtValue, hu, decorateM_plain fst t true hp]
    refine ⟨nullAny, decoP t true, hfmt, decoP_good t true hp hw, ?_, ?_⟩
    · simp only [expA, hu', strip, decoP_null_eq]
      by_cases hn : t = tyNull
      · subst hn
        simp [convertValue, viaUnion, convAny_null_none]
      · simp only [hn, if_false, mkVal_cast1]
        by_cases hun : t.isUnion = true
        · obtain ⟨ms, rfl⟩ : ∃ ms, t = .union ms := by
            cases t <;> simp_all [Ty.isUnion]
          simp [convertValue, preDefs, convertType_plain a0 _ hp hw, castStep, typeCheck, Ty.under,
            unionMembers, viaUnion, convAny_null_none, convertUnion, bind, Except.bind, pure, Except.pure]
        · have hun' : t.isUnion = false := by simpa using hun
          rw [conv_cast_implied a0 nullAny (tyAst t) t none (convertType_plain a0 t hp hw)
            (by rw [under_plain t hp]; exact unionMembers_notUnion t hun') (Or.inl rfl)]
          simpa using convAny_null_cast a0 t
    · intro hcond
      have hun' : t.isUnion = false := by
        rcases hcond with h | h
        · exact h
        · subst h; simpa using hu'
      simp only [strip, decoP_null_eq]
      by_cases hn : t = tyNull
      · subst hn
        have : unionMembers tyNull.under = none := rfl
        simp only [if_true, mkVal_nil, convertValue, viaUnion, this]
        exact convAny_null_cast a0 _
      · simp only [hn, if_false, mkVal_cast1]
        rw [conv_cast_implied a0 nullAny (tyAst t) t (some t) (convertType_plain a0 t hp hw)
          (by rw [under_plain t hp]; exact unionMembers_notUnion t hun') (Or.inr rfl)]
        exact convAny_null_cast a0 t


theorem implied_prim (id : Nat) : implied (.prim id) = C02.impliedPrims.contains id := by
  simp [implied]

theorem decoP_prim (id : Nat) :
    decoP (.prim id) false = if id ∈ C02.impliedPrims then [] else [.cast (.prim (primName id))] := by
  unfold decoP
  by_cases h : id ∈ C02.impliedPrims <;> simp [implied_prim, selfDescribing, tyAst, h]

theorem convAny_prim_cast (a0 : AState) (cls : Name) (text : Bytes) (cid id : Nat)
    (h1 : lookupPrimitive cls = some cid) (h2 : castOk cid id = true) (h3 : cid ≠ C02.idNull) :
    convertAny a0 (.prim cls text) (some (.prim id)) = .ok (a0, (.prim id, .prim text)) := by
  have : (if cls = ascii "string" then enumSyms (Ty.prim id) else none) = none := by
    split <;> rfl
  simp [convertAny, h1, this, Ty.id, h2, h3]

theorem good_prim (id : Nat) (text : Bytes) (e : Bool) (hv : wfVal (.prim id) (.prim text) = true) :
    GoodV (.prim id) (.prim text) e := by
  intro pi fst a0
  simp only [wfVal, primOK, Bool.and_eq_true, bne_iff_ne, ne_eq] at hv
  obtain ⟨⟨⟨hvalid, hnn⟩, hnt⟩, hcls⟩ := hv
  cases hl : lookupPrimitive (lexClass id text) with
  | none => simp [hl] at hcls
  | some cid =>
    simp only [hl, Bool.and_eq_true, bne_iff_ne, ne_eq, Bool.or_eq_true, Bool.not_eq_true', beq_iff_eq] at hcls
    obtain ⟨⟨hcast, hcn⟩, himp⟩ := hcls
    have hu : (e && (Ty.prim id).under.isUnion) = false := by simp [Ty.under, Ty.isUnion]
    have hp : plainTy (.prim id) = true := rfl
    have hw : wfTy (.prim id) = true := by simpa [wfTy] using hvalid
    have hfmt : fmtValue fst (.prim id) (.prim text) false pi true e =
        (fst, .prim (lexClass id text) text, decoP (.prim id) false) := by
      simp [fmtValue, finish, decorateM_plain fst _ false hp]
    refine ⟨_, _, hfmt, decoP_good _ _ hp hw, ?_, ?_⟩
    · have : expA (.prim id) (.prim text) e = (.prim id, .prim text) := by
        simp [expA, Ty.isUnion, strip]
      rw [this, decoP_prim]
      by_cases hi : id ∈ C02.impliedPrims
      · have hcid : cid = id := by
          rcases himp with h | h
          · simp [hi] at h
          · exact h
        subst hcid
        simp [hi, convertValue, viaUnion, convertAny, hl, hcn]
      · simp only [hi, if_false, mkVal_cast1, Bool.false_eq_true]
        rw [conv_cast_implied a0 _ _ (.prim id) none (by simp [convertType, lookup_primName id hvalid])
          (by simp [Ty.under, unionMembers]) (Or.inl rfl)]
        exact convAny_prim_cast a0 _ _ cid id hl hcast hcn
    · intro _
      simp only [strip]
      rw [decoP_prim]
      by_cases hi : id ∈ C02.impliedPrims
      · simp only [hi, if_true, mkVal_nil, convertValue, viaUnion, Ty.under, unionMembers]
        exact convAny_prim_cast a0 _ _ cid id hl hcast hcn
      · simp only [hi, if_false, mkVal_cast1, Bool.false_eq_true]
        rw [conv_cast_implied a0 _ _ (.prim id) (some (.prim id)) (by simp [convertType, lookup_primName id hvalid])
          (by simp [Ty.under, unionMembers]) (Or.inr rfl)]
        exact convAny_prim_cast a0 _ _ cid id hl hcast hcn

theorem implied_idType : C02.idType ∈ C02.impliedPrims := by decide

theorem good_typeval (id : Nat) (ty : Ty) (e : Bool) (hv : wfVal (.prim id) (.typeval ty) = true) :
    GoodV (.prim id) (.typeval ty) e := by
  intro pi fst a0
  simp only [wfVal, Bool.and_eq_true, beq_iff_eq] at hv
  obtain ⟨⟨hid, hwt⟩, hpt⟩ := hv
  subst hid
  have hp : plainTy (.prim C02.idType) = true := rfl
  have hfmt : fmtValue fst (.prim C02.idType) (.typeval ty) false pi true e =
      (fst, .typeval (tyAst ty), []) := by
    simp [fmtValue, finish, decorateM_plain fst _ false hp, canonType_plain [] ty hpt, decoP_prim, implied_idType]
  refine ⟨_, _, hfmt, by simp, ?_, ?_⟩
  · have : expA (.prim C02.idType) (.typeval ty) e = (tyType, .typeval ty) := by
      simp [expA, Ty.isUnion, strip, tyType]
    rw [this]
    simp [convertValue, viaUnion, convertAny, convertType_plain a0 ty hpt hwt, bind, Except.bind, pure, Except.pure]
  · intro _
    simp [convertValue, viaUnion, Ty.under, unionMembers, convertAny, tyType, convertType_plain a0 ty hpt hwt,
      bind, Except.bind, pure, Except.pure, strip]

theorem findIdx_getD : (syms : List Name) → (sel : Nat) → syms.Nodup → sel < syms.length →
    syms.findIdx (fun x => x == syms.getD sel []) = sel
  | [], sel, _, h => by simp at h
  | x :: r, 0, _, _ => by
    rw [List.getD_cons_zero, List.findIdx_cons]; simp
  | x :: r, sel + 1, hn, h => by
    have hn' := List.nodup_cons.mp hn
    have hlt : sel < r.length := by simpa using h
    have hmem : r.getD sel [] ∈ r := by
      rw [List.getD_eq_getElem?_getD, List.getElem?_eq_getElem hlt]; simp
    have hne : (x == r.getD sel []) = false := by
      simp only [beq_eq_false_iff_ne, ne_eq]
      intro h2; rw [h2] at hn'; exact hn'.1 hmem
    rw [List.getD_cons_succ, List.findIdx_cons, hne, findIdx_getD r sel hn'.2 hlt]
    rfl

theorem enumIndex_getD (syms : List Name) (sel : Nat) (hn : syms.Nodup) (h : sel < syms.length) :
    enumIndex syms (syms.getD sel []) = some sel := by
  unfold enumIndex
  rw [findIdx_getD syms sel hn h]
  simp [h]

theorem good_enum (syms : List Name) (sel : Nat) (e : Bool) (hw : wfTy (.enum syms) = true)
    (hv : wfVal (.enum syms) (.enum sel) = true) : GoodV (.enum syms) (.enum sel) e := by
  intro pi fst a0
  simp only [wfVal, decide_eq_true_eq] at hv
  have hw' := hw
  simp only [wfTy, Bool.and_eq_true, Bool.not_eq_true', decide_eq_true_eq] at hw'
  have hp : plainTy (.enum syms) = true := rfl
  have hd : decoP (.enum syms) false = [.cast (.enum syms)] := by
    simp [decoP, implied, selfDescribing, tyAst]
  have hfmt : fmtValue fst (.enum syms) (.enum sel) false pi true e =
      (fst, .enum (syms.getD sel []), [.cast (.enum syms)]) := by
    simp [fmtValue, finish, decorateM_plain fst _ false hp, hd]
  have hT : convertType a0 (.enum syms) = .ok (a0, .enum syms) := by
    have := convertType_plain a0 (.enum syms) hp hw
    simpa [tyAst] using this
  have hconv : convertAny a0 (.enum (syms.getD sel [])) (some (.enum syms)) = .ok (a0, (.enum syms, .enum sel)) := by
    simp only [convertAny, Ty.under]
    rw [enumIndex_getD syms sel hw'.2 hv]
  refine ⟨_, _, hfmt, by intro d hd; simp at hd; subst hd; exact ⟨.enum syms, hp, hw, by simp [tyAst]⟩, ?_, ?_⟩
  · have : expA (.enum syms) (.enum sel) e = (.enum syms, .enum sel) := by
      simp [expA, Ty.isUnion, strip]
    rw [this, mkVal_cast1, conv_cast_implied a0 _ _ (.enum syms) none hT (by simp [Ty.under, unionMembers]) (Or.inl rfl)]
    exact hconv
  · intro _
    rw [mkVal_cast1, conv_cast_implied a0 _ _ (.enum syms) (some _) hT (by simp [Ty.under, unionMembers]) (Or.inr rfl)]
    simpa [strip] using hconv


/-- formatting with and without the trailing `decorate` differ by exactly that decorator. -/
theorem fmt_deco_split (fst : FState) (t : Ty) (v : Val) (pi : Bool) (hp : plainTy t = true)
    (hv : wfVal t v = true) (hn : v.isNull = false) (hb : bareEmpty v = false) :
    fmtValue fst t v false pi true false =
      ((fmtValue fst t v false pi false false).1, (fmtValue fst t v false pi false false).2.1,
        (fmtValue fst t v false pi false false).2.2 ++ decoP t false) := by
  cases v with
  | null => simp [Val.isNull] at hn
  | prim text => cases t <;> simp_all [wfVal, fmtValue, finish, decorateM_plain]
  | typeval ty => cases t <;> simp_all [wfVal, fmtValue, finish, decorateM_plain]
  | enum sel => cases t <;> simp_all [wfVal, fmtValue, finish, decorateM_plain]
  | record vs => cases t <;> simp_all [wfVal, fmtValue, finish, decorateM_plain]
  | array vs =>
    cases t <;> simp_all [wfVal]
    cases vs <;> simp_all [bareEmpty, fmtValue, finish, decorateM_plain]
  | set vs =>
    cases t <;> simp_all [wfVal]
    cases vs <;> simp_all [bareEmpty, fmtValue, finish, decorateM_plain]
  | map es =>
    cases t <;> simp_all [wfVal]
    cases es <;> simp_all [bareEmpty, fmtValue, finish, decorateM_plain]
  | union tag inner => cases t <;> simp_all [wfVal, fmtValue, finish, decorateM_plain]
  | error v' => cases t <;> simp_all [wfVal, plainTy, fmtValue, finish, decorateM_plain]
  | named v' => cases t <;> simp_all [wfVal, plainTy]



/-! ### lists of values -/

def tvsOf : Fields → Vals → List TV
  | .cons _ t fr, .cons v vr => (t, strip v) :: tvsOf fr vr
  | _, _ => []

def GoodFields (fs : Fields) (vs : Vals) : Prop :=
  ∀ (pi : Bool) (fst : FState) (a0 : AState), ∃ afs,
    fmtFields fst fs vs false pi = (fst, afs) ∧ afs.names = fs.names ∧ afs.length = fs.length ∧
    convertFields a0 afs none = .ok (a0, tvsOf fs vs) ∧
    convertFields a0 afs (some (fieldTypes fs)) = .ok (a0, tvsOf fs vs)

def GoodElems (et : Ty) (vs : Vals) : Prop :=
  ∀ (pi : Bool) (fst : FState) (a0 : AState), ∃ asts,
    fmtElems fst et vs false pi = (fst, asts) ∧
    convertElems a0 asts none = .ok (a0, vs.toList.map (fun v => expA et v true)) ∧
    convertElems a0 asts (some et) = .ok (a0, vs.toList.map (fun v => (et, strip v)))

def entryKeys : Entries → List Val
  | .nil => []
  | .cons k _ r => k :: entryKeys r
def entryVals : Entries → List Val
  | .nil => []
  | .cons _ v r => v :: entryVals r

def GoodEntries (kt vt : Ty) (es : Entries) : Prop :=
  ∀ (pi : Bool) (fst : FState) (a0 : AState), ∃ aes,
    fmtEntries fst kt vt es false pi = (fst, aes) ∧
    convertEntries a0 aes none = .ok (a0, (entryKeys es).map (fun v => expA kt v true),
      (entryVals es).map (fun v => expA vt v true)) ∧
    convertEntries a0 aes (some (kt, vt)) = .ok (a0, (entryKeys es).map (fun v => (kt, strip v)),
      (entryVals es).map (fun v => (vt, strip v)))

theorem goodFields_nil : GoodFields .nil .nil := by
  intro pi fst a0
  exact ⟨.nil, by simp [fmtFields], rfl, rfl, by simp [convertFields, tvsOf], by simp [convertFields, tvsOf]⟩

theorem goodFields_cons (n : Name) (t : Ty) (fr : Fields) (v : Val) (vr : Vals)
    (hnu : t.isUnion = false) (h1 : GoodV t v false) (h2 : GoodFields fr vr) :
    GoodFields (.cons n t fr) (.cons v vr) := by
  intro pi fst a0
  obtain ⟨any, ds, hf, _, hA, hB⟩ := h1 pi fst a0
  obtain ⟨afs, hf2, hn, hl, hA2, hB2⟩ := h2 pi fst a0
  refine ⟨.cons n (mkVal any ds) afs, ?_, ?_, ?_, ?_, ?_⟩
  · simp [fmtFields, hf, hf2]
  · simp [AVFields.names, Fields.names, hn]
  · simp [AVFields.length, Fields.length, hl]
  · have : expA t v false = (t, strip v) := by simp [expA]
    simp [convertFields, hA, hA2, this, tvsOf, bind, Except.bind, pure, Except.pure]
  · simp [convertFields, fieldTypes, hB (Or.inl hnu), hB2, tvsOf, bind, Except.bind, pure, Except.pure]

theorem goodElems_nil (et : Ty) : GoodElems et .nil := by
  intro pi fst a0
  exact ⟨.nil, by simp [fmtElems], by simp [convertElems, Vals.toList], by simp [convertElems, Vals.toList]⟩

theorem goodElems_cons (et : Ty) (v : Val) (vr : Vals) (h1 : GoodV et v true) (h2 : GoodElems et vr) :
    GoodElems et (.cons v vr) := by
  intro pi fst a0
  obtain ⟨any, ds, hf, _, hA, hB⟩ := h1 pi fst a0
  obtain ⟨asts, hf2, hA2, hB2⟩ := h2 pi fst a0
  refine ⟨.cons (mkVal any ds) asts, ?_, ?_, ?_⟩
  · simp [fmtElems, hf, hf2]
  · simp [convertElems, hA, hA2, Vals.toList, bind, Except.bind, pure, Except.pure]
  · simp [convertElems, hB (Or.inr rfl), hB2, Vals.toList, bind, Except.bind, pure, Except.pure]

theorem goodEntries_nil (kt vt : Ty) : GoodEntries kt vt .nil := by
  intro pi fst a0
  exact ⟨.nil, by simp [fmtEntries], by simp [convertEntries, entryKeys, entryVals],
    by simp [convertEntries, entryKeys, entryVals]⟩

theorem goodEntries_cons (kt vt : Ty) (k v : Val) (r : Entries) (h1 : GoodV kt k true) (h2 : GoodV vt v true)
    (h3 : GoodEntries kt vt r) : GoodEntries kt vt (.cons k v r) := by
  intro pi fst a0
  obtain ⟨ka, kds, hfk, _, hAk, hBk⟩ := h1 pi fst a0
  obtain ⟨va, vds, hfv, _, hAv, hBv⟩ := h2 pi fst a0
  obtain ⟨aes, hf3, hA3, hB3⟩ := h3 pi fst a0
  refine ⟨.cons (mkVal ka kds) (mkVal va vds) aes, ?_, ?_, ?_⟩
  · simp [fmtEntries, hfk, hfv, hf3]
  · simp [convertEntries, hAk, hAv, hA3, entryKeys, entryVals, bind, Except.bind, pure, Except.pure]
  · simp [convertEntries, hBk (Or.inr rfl), hBv (Or.inr rfl), hB3, entryKeys, entryVals, bind, Except.bind, pure, Except.pure]

end Zed.Zson
