/-
  Model of the VNG primitive column encodings (C03): plain / dictionary / const.
  Anchors: vng/primitive.go  NewPrimitiveEncoder, PrimitiveEncoder.{Write,update,Encode,
           makeDictVector,Const,Metadata,makeDict}, PrimitiveBuilder.ReadBytes,
           DictBuilder.ReadBytes, ConstBuilder.Build;  vng/builder.go (Primitive / Const cases).

  Parameters come from `Zed.Generated.C03` (regenerated from the Go source on every check):
  `maxDictSize`, `dictOverflowOp`, `dictExcludedIDs`, `constAtDictSize`, `selectorBits`.

  Not modelled: the order of the dictionary entries (the real `makeDict` sorts them with the
  value comparator; selectors are positions in that same slice, so any order round-trips —
  the model keeps first-seen order), min/max statistics, segment compression.
-/
import Zed.Generated.C03
namespace Zed.Vng
open Zed.Generated.C03

abbrev Bytes := List UInt8

/-- `p.dict[string(body)]++` on a count map kept as an association list (first-seen order). -/
def dictIncr : List (Bytes × Nat) → Bytes → List (Bytes × Nat)
  | [], b => [(b, 1)]
  | (k, c) :: r, b => if k = b then (k, c + 1) :: r else (k, c) :: dictIncr r b

/-- `len(p.dict) > MaxDictSize` with the operator found in the source. -/
def dictOverflow (n : Nat) : Bool :=
  if dictOverflowOp == ">" then decide (n > maxDictSize)
  else if dictOverflowOp == ">=" then decide (n ≥ maxDictSize)
  else true

/-- State of a `PrimitiveEncoder`: bodies written (`p.bytes`), the count map (`none` = nil
    map: dictionary disabled), `p.count`. -/
structure PrimEnc where
  vals : List Bytes := []
  dict : Option (List (Bytes × Nat)) := none
  count : Nat := 0
  deriving Repr, DecidableEq

/-- `NewPrimitiveEncoder(typ, useDict)`; `id` = `typ.ID()`. -/
def PrimEnc.new (id : Nat) (useDict : Bool) : PrimEnc :=
  { dict := if useDict && !(dictExcludedIDs.contains id) then some [] else none }

/-- `Write(body)` = `update(body)` + append to `p.bytes`. -/
def PrimEnc.write (s : PrimEnc) (b : Bytes) : PrimEnc :=
  { vals := s.vals ++ [b]
    dict := match s.dict with
      | none => none
      | some d => let d' := dictIncr d b; if dictOverflow d'.length then none else some d'
    count := s.count + 1 }

/-- position of `b` in the dictionary (`pos[string(bytes)]`). -/
def dictIndex : List (Bytes × Nat) → Bytes → Nat
  | [], _ => 0
  | (k, _) :: r, b => if k = b then 0 else dictIndex r b + 1

/-- `byte(off)`: the selector is truncated to `selectorBits` bits. -/
def selectorOf (i : Nat) : Nat := i % 2 ^ selectorBits

/-- What `Encode` + `Metadata` leave behind for one primitive column. -/
inductive PCol where
  | plain (vals : List Bytes) (count : Nat)
  | dict (entries : List (Bytes × Nat)) (sel : List Nat) (count : Nat)
  | const (v : Bytes) (count : Nat)
  deriving Repr, DecidableEq

/-- `Encode` (dictionary vector when the map survived) + `Metadata` (Const when the map has
    exactly `constAtDictSize` = 1 entry, Dict when it has more, plain when empty or nil). -/
def PrimEnc.finish (s : PrimEnc) : PCol :=
  match s.dict with
  | none => .plain s.vals s.count
  | some d =>
    if d.length = 0 then .plain s.vals s.count
    else if d.length = constAtDictSize then
      match d with
      | (v, _) :: _ => .const v s.count
      | [] => .plain s.vals s.count
    else .dict d (s.vals.map fun b => selectorOf (dictIndex d b)) s.count

def primEncode (id : Nat) (useDict : Bool) (xs : List Bytes) : PCol :=
  (xs.foldl PrimEnc.write (PrimEnc.new id useDict)).finish

def PCol.len : PCol → Nat
  | .plain _ c => c
  | .dict _ _ c => c
  | .const _ c => c

/-- `DictBuilder.ReadBytes` over all selectors; `none` = "selector out of range". -/
def dictBuild (entries : List (Bytes × Nat)) : List Nat → Option (List Bytes)
  | [] => some []
  | s :: r =>
    match entries[s]? with
    | none => none
    | some e => (dictBuild entries r).map (e.1 :: ·)

/-- The three leaf builders, read to exhaustion. -/
def PCol.build : PCol → Option (List Bytes)
  | .plain vals _ => some vals
  | .dict entries sel _ => dictBuild entries sel
  | .const v count => some (List.replicate count v)

end Zed.Vng
