package main

// Generators for C02: type specs (hlib.TSpec) over the whole type system with hostile names,
// value specs (VSpec) with boundary primitives, and the builder that turns (TSpec, VSpec)
// into a real zed.Value (sets and maps normalised by the real NormalizeSet/NormalizeMap:
// un-normalised bodies are outside the property's claim).

import (
	"encoding/binary"
	"encoding/hex"
	"fmt"
	"math"
	"math/rand"
	"net/netip"
	"strings"
	"unicode/utf8"

	zed "github.com/brimdata/super"
	"github.com/brimdata/super/zcode"
	"golang.org/x/text/unicode/norm"
)

// VSpec is a context-independent value tree, read against a TSpec.
//
//	prim            Hex = body bytes ("" = empty body)
//	record          Elems = one per field
//	array / set     Elems = elements
//	map             Elems = k0 v0 k1 v1 …
//	union           Tag + Elems[0]
//	enum            Tag = selector
//	type            T
//	named / error   transparent (the VSpec is that of the inner type)
type VSpec struct {
	Null  bool     `json:"null,omitempty"`
	Hex   string   `json:"hex,omitempty"`
	Elems []*VSpec `json:"elems,omitempty"`
	Tag   int      `json:"tag,omitempty"`
	T     *TSpec   `json:"t,omitempty"`
}

const (
	idUint8, idUint16, idUint32, idUint64 = 0, 1, 2, 3
	idInt8, idInt16, idInt32, idInt64     = 6, 7, 8, 9
	idDuration, idTime                    = 12, 13
	idFloat16, idFloat32, idFloat64       = 14, 15, 16
	idBool, idBytes, idString, idIP       = 23, 24, 25, 26
	idNet, idType, idNull                 = 27, 28, 29
)

var fieldNames = []string{
	"a", "b", "c", "ab", "x", "y", "ts", "id", "_", "$x", "a1", "é", "日本", "😀",
	"", "a b", "true", "false", "null", "error", "enum", "type", "int64", "NaN", "nan", "inf", "Inf",
	"1", "1a", "a.b", "a\"b", "a\\b", "a\nb", "\x01", "\x7f", "0x1", "-", "a:b", "a,b", "{", "=x", "a/b", " ", "a\tb", "'", "\x1f", " ",
}

var typeNames = []string{
	"x", "y", "z", "port", "conn", "é", "日本", "_t", "$", "a.b", "x1",
	"a b", "true", "false", "nan", "error", "enum", ".a", "1a", "1.5", "0x1f", "1e3", "a\"b", "a=b", "a\nb", "a,b", "-", "😀", "(", "\x01",
}

// numericTypeNames are outside the claim (docs/formats/zson.md: "Type names may not be
// numeric"); generated only when asked for, to record how the code treats them.
var numericTypeNames = []string{"1", "007", "42"}

var stringPool = []string{
	"", "a", "hello world", "\"", "\\", "\"\\\"", "a\"b\\c", "\n", "\r\n", "\t", "\b\f", "\x00", "\x01\x02\x1f", "\x7f",
	"é", "日本語", "😀", "a😀b", "  ", " ", "\ufeff", "�", "null", "true", "1", "0x00", "<int64>", "%a", "error(1)",
	"/", "</script>", "'", "\\u0041", "\\n", "\u0080", "߿ࠀ￿\U00010000\U0010ffff", "ÅÅ", "ﬁ",
}

var primIDs = []int{0, 1, 2, 3, 6, 7, 8, 9, 12, 13, 14, 15, 16, 23, 24, 25, 26, 27, 28, 29}

type gen struct {
	r        *rand.Rand
	numeric  bool     // allow numeric type names
	noHostle bool     // only plain identifiers (used to separate name defects from structure defects)
	plain    bool     // the fragment of the Lean theorem: no named types, no error types, no union-typed record field
	tame     bool     // avoid the primitive values with known text defects (-0, v4-mapped addresses)
	pool     []*TSpec // named types to reuse: the same type occurs several times in a value / a stream
}

func (g *gen) pick(xs []string) string { return xs[g.r.Intn(len(xs))] }

func (g *gen) fieldName() string {
	if g.noHostle || g.r.Intn(3) > 0 {
		return fieldNames[g.r.Intn(14)]
	}
	return g.pick(fieldNames)
}

func (g *gen) typeName() string {
	if g.numeric && g.r.Intn(4) == 0 {
		return g.pick(numericTypeNames)
	}
	if g.noHostle || g.r.Intn(3) > 0 {
		return typeNames[g.r.Intn(11)]
	}
	return g.pick(typeNames)
}

func (g *gen) primType() *TSpec {
	// bias toward the interesting ones
	if g.r.Intn(3) == 0 {
		return Prim([]int{idInt64, idString, idFloat64, idInt32, idUint8, idNull, idIP}[g.r.Intn(7)])
	}
	return Prim(primIDs[g.r.Intn(len(primIDs))])
}

func (g *gen) genType(depth int) *TSpec {
	r := g.r
	if len(g.pool) > 0 && r.Intn(4) == 0 {
		return cloneT(g.pool[r.Intn(len(g.pool))])
	}
	if depth <= 0 || r.Intn(4) == 0 {
		return g.primType()
	}
	k := r.Intn(13)
	if g.plain && k >= 11 {
		k = r.Intn(11) // error types are inside the proved fragment, named types are not
	}
	switch k {
	case 0, 1, 2:
		n := r.Intn(4)
		s := &TSpec{Kind: "record"}
		used := map[string]bool{}
		for i := 0; i < n; i++ {
			nm := g.fieldName()
			if used[nm] {
				continue
			}
			used[nm] = true
			ft := g.genType(depth - 1)
			for g.plain && ft.Kind == "union" {
				ft = g.genType(depth - 1)
			}
			s.Fields = append(s.Fields, TField{Name: nm, Type: ft})
		}
		return s
	case 3:
		return &TSpec{Kind: "array", Elems: []*TSpec{g.genType(depth - 1)}}
	case 4:
		return &TSpec{Kind: "set", Elems: []*TSpec{g.genType(depth - 1)}}
	case 5:
		return &TSpec{Kind: "map", Elems: []*TSpec{g.genType(depth - 1), g.genType(depth - 1)}}
	case 6, 7, 8:
		n := 2 + r.Intn(3)
		s := &TSpec{Kind: "union"}
		seen := map[string]bool{}
		for i := 0; i < n || len(s.Elems) < 2; i++ {
			m := g.genType(depth - 1)
			d := m.Descr()
			if seen[d] {
				continue
			}
			seen[d] = true
			s.Elems = append(s.Elems, m)
		}
		return s
	case 9:
		n := 1 + r.Intn(3)
		s := &TSpec{Kind: "enum"}
		used := map[string]bool{}
		for i := 0; i < n || len(s.Syms) == 0; i++ {
			nm := g.fieldName()
			if g.tame {
				nm = fieldNames[g.r.Intn(13)] // identifiers only
			}
			if used[nm] {
				continue
			}
			used[nm] = true
			s.Syms = append(s.Syms, nm)
		}
		return s
	case 10:
		return &TSpec{Kind: "error", Elems: []*TSpec{g.genType(depth - 1)}}
	default:
		return &TSpec{Kind: "named", Name: g.typeName(), Elems: []*TSpec{g.genType(depth - 1)}}
	}
}

func le16(v uint16) []byte { b := make([]byte, 2); binary.LittleEndian.PutUint16(b, v); return b }

func (g *gen) primBytes(id int) []byte {
	for {
		b := g.primBytes1(id)
		if !g.tame || primHazard(id, b) == "" {
			return b
		}
	}
}

func (g *gen) primBytes1(id int) []byte {
	r := g.r
	pickU := func(xs ...uint64) []byte {
		return zed.EncodeUint(xs[r.Intn(len(xs))])
	}
	pickI := func(xs ...int64) []byte {
		return zed.EncodeInt(xs[r.Intn(len(xs))])
	}
	switch id {
	case idUint8:
		return pickU(0, 1, 7, 127, 128, 255)
	case idUint16:
		return pickU(0, 1, 255, 256, 65535)
	case idUint32:
		return pickU(0, 1, 65536, math.MaxUint32)
	case idUint64:
		return pickU(0, 1, math.MaxInt64, math.MaxInt64+1, math.MaxUint64, uint64(r.Int63()))
	case idInt8:
		return pickI(0, 1, -1, 127, -128)
	case idInt16:
		return pickI(0, 1, -1, math.MaxInt16, math.MinInt16)
	case idInt32:
		return pickI(0, 1, -1, math.MaxInt32, math.MinInt32)
	case idInt64:
		return pickI(0, 1, -1, 42, math.MaxInt64, math.MinInt64, 1<<53, 1<<53+1, r.Int63()-r.Int63())
	case idDuration:
		return pickI(0, 1, -1, 1000, 1e9, 60e9, 3600e9, 86400e9, 7*86400e9, 365*86400e9, 90*60e9+1, math.MaxInt64, math.MinInt64, math.MinInt64+1, 1500e6, -1500, r.Int63()-r.Int63())
	case idTime:
		return pickI(0, 1, -1, 1e18, 1e9, math.MaxInt64, math.MinInt64, 1600000000123456789, -2208988800e9, 4102444800e9, r.Int63()-r.Int63())
	case idFloat16:
		bits := []uint16{0, 0x8000, 0x3c00, 0xbc00, 0x3e00, 0x7bff, 0xfbff, 0x0001, 0x8001, 0x03ff, 0x0400, 0x7c00, 0xfc00, 0x7e00, 0x3555, 0x2e66, 0x6400, 0x7000, uint16(r.Intn(0x7c00))}
		return le16(bits[r.Intn(len(bits))])
	case idFloat32:
		fs := []float32{0, float32(math.Copysign(0, -1)), 1, -1, 1.5, 0.1, 16777216, 16777217, 1e10, 1e30, -1e30, math.MaxFloat32, math.SmallestNonzeroFloat32,
			float32(math.Inf(1)), float32(math.Inf(-1)), float32(math.NaN()), 9.223372e18, -9.223372e18, 1e-7, 123456.789, r.Float32(), float32(r.NormFloat64() * 1e6)}
		if r.Intn(3) == 0 {
			bs := floatBoundaries32()
			return zed.EncodeFloat32(bs[r.Intn(len(bs))])
		}
		return zed.EncodeFloat32(fs[r.Intn(len(fs))])
	case idFloat64:
		fs := []float64{0, math.Copysign(0, -1), 1, -1, 1.5, 0.1, 1 << 53, 1<<53 + 2, 1e15, 1e16, 1e21, 1e22, 1e300, -1e300, math.MaxFloat64, math.SmallestNonzeroFloat64,
			math.Inf(1), math.Inf(-1), math.NaN(), 9223372036854775807, 9223372036854775808, -9223372036854775808, 1e-7, 5e-5, 123456.789, 2.2250738585072014e-308, r.Float64(), r.NormFloat64() * 1e9, float64(r.Int63())}
		if r.Intn(3) == 0 {
			bs := floatBoundaries64()
			return zed.EncodeFloat64(bs[r.Intn(len(bs))])
		}
		return zed.EncodeFloat64(fs[r.Intn(len(fs))])
	case idBool:
		return zed.EncodeBool(r.Intn(2) == 0)
	case idBytes:
		n := []int{0, 0, 1, 2, 5, 17}[r.Intn(6)]
		b := make([]byte, n)
		r.Read(b)
		return b
	case idString:
		if r.Intn(6) == 0 {
			return []byte(randString(r))
		}
		if r.Intn(8) == 0 {
			return []byte(g.pick(fieldNames))
		}
		return []byte(g.pick(stringPool))
	case idIP:
		ips := []string{"0.0.0.0", "255.255.255.255", "127.0.0.1", "10.1.2.3", "::", "::1", "2001:db8::1", "::ffff:1.2.3.4", "fe80::1", "ffff:ffff:ffff:ffff:ffff:ffff:ffff:ffff",
			"1:2:3:4:5:6:7:8", "::ffff:0:0", "64:ff9b::1.2.3.4", "1::", "0:0:1::", "a::b"}
		return zed.EncodeIP(netip.MustParseAddr(ips[r.Intn(len(ips))]))
	case idNet:
		nets := []string{"10.0.0.0/8", "0.0.0.0/0", "1.2.3.4/32", "192.168.1.0/24", "::/0", "2001:db8::/32", "::1/128", "::ffff:1.2.3.0/120", "fe80::/10", "128.0.0.0/1", "::/1", "8000::/1"}
		return zed.EncodeNet(netip.MustParsePrefix(nets[r.Intn(len(nets))]))
	}
	panic(fmt.Sprint("primBytes ", id))
}

func randString(r *rand.Rand) string {
	n := r.Intn(6)
	var b strings.Builder
	for i := 0; i < n; i++ {
		switch r.Intn(6) {
		case 0:
			b.WriteRune(rune(r.Intn(0x20)))
		case 1:
			b.WriteRune(rune(0x20 + r.Intn(0x60)))
		case 2:
			b.WriteRune(rune(0x80 + r.Intn(0x780)))
		case 3:
			c := rune(0x800 + r.Intn(0xf800))
			if c >= 0xd800 && c < 0xe000 {
				c = 0x4e00
			}
			b.WriteRune(c)
		case 4:
			b.WriteRune(rune(0x10000 + r.Intn(0x100000)))
		default:
			b.WriteByte("\"\\/'`(){}[]|<>,:= %"[r.Intn(19)])
		}
	}
	s := b.String()
	if !utf8.ValidString(s) || !norm.NFC.IsNormalString(s) {
		return "n"
	}
	return s
}

// genVal draws a value of type t.  nullP: probability (in 1/16) of null at each position.
func (g *gen) genVal(t *TSpec, depth int, nullP int) *VSpec {
	r := g.r
	if t.Kind == "prim" && t.ID == idNull {
		return &VSpec{Null: true}
	}
	if r.Intn(16) < nullP {
		return &VSpec{Null: true}
	}
	size := func() int {
		if depth <= 0 {
			return r.Intn(2)
		}
		return []int{0, 0, 1, 1, 2, 2, 3, 4}[r.Intn(8)]
	}
	switch t.Kind {
	case "prim":
		if t.ID == idType {
			return &VSpec{T: g.genType(2)}
		}
		return &VSpec{Hex: hex.EncodeToString(g.primBytes(t.ID))}
	case "record":
		v := &VSpec{}
		for _, f := range t.Fields {
			v.Elems = append(v.Elems, g.genVal(f.Type, depth-1, nullP))
		}
		return v
	case "array", "set":
		v := &VSpec{}
		n := size()
		if t.Elems[0].Kind == "prim" && t.Elems[0].ID == idNull && n > 2 {
			n = 2
		}
		for i := 0; i < n; i++ {
			v.Elems = append(v.Elems, g.genVal(t.Elems[0], depth-1, nullP))
		}
		return v
	case "map":
		v := &VSpec{}
		n := size()
		for i := 0; i < n; i++ {
			v.Elems = append(v.Elems, g.genVal(t.Elems[0], depth-1, nullP), g.genVal(t.Elems[1], depth-1, nullP))
		}
		return v
	case "union":
		tag := r.Intn(len(t.Elems))
		// a null inside a union is the null of the union itself
		inner := g.genVal(t.Elems[tag], depth-1, 0)
		if inner.Null {
			return &VSpec{Null: true}
		}
		return &VSpec{Tag: tag, Elems: []*VSpec{inner}}
	case "enum":
		return &VSpec{Tag: r.Intn(len(t.Syms))}
	case "named", "error":
		return g.genVal(t.Elems[0], depth, nullP)
	}
	panic("genVal " + t.Kind)
}

// unionBias: for containers of union type, optionally restrict the members used so that
// "not all members seen" and "all members seen" both occur often.
func (g *gen) genCase(depth int) (*TSpec, *VSpec) {
	t := g.genType(depth)
	nullP := []int{0, 1, 1, 3, 8}[g.r.Intn(5)]
	v := g.genVal(t, depth+1, nullP)
	if g.plain {
		// the theorem's guard: the value as a whole is not an empty container
		for k := 0; k < 10 && !v.Null && len(v.Elems) == 0 && (t.Kind == "array" || t.Kind == "set" || t.Kind == "map"); k++ {
			v = g.genVal(t, depth+1, nullP)
		}
	}
	return t, v
}

// ---- building real values ------------------------------------------------------------

// realType builds t in zctx and canonicalises union member order the way the context
// does (LookupTypeUnion sorts), returning the spec re-read from the real type so that
// VSpec tags refer to the real member order.
func realType(zctx *zed.Context, t *TSpec) (zed.Type, error) {
	return t.Build(zctx)
}

func under(t zed.Type) zed.Type {
	for {
		switch tt := t.(type) {
		case *zed.TypeNamed:
			t = tt.Type
		default:
			return t
		}
	}
}

// memberIndex finds the member of the real union that has the structure of spec member m.
func memberIndex(u *zed.TypeUnion, m *TSpec) int {
	d := m.Canon()
	for i, t := range u.Types {
		if canonType(t) == d {
			return i
		}
	}
	return -1
}

// buildVal appends the value v (read against spec ts) of real type typ to b.
func buildVal(zctx *zed.Context, b *zcode.Builder, ts *TSpec, typ zed.Type, v *VSpec) error {
	if v.Null {
		b.Append(nil)
		return nil
	}
	switch t := typ.(type) {
	case *zed.TypeNamed:
		return buildVal(zctx, b, ts.Elems[0], t.Type, v)
	case *zed.TypeError:
		return buildVal(zctx, b, ts.Elems[0], t.Type, v)
	case *zed.TypeRecord:
		if len(v.Elems) != len(t.Fields) {
			return fmt.Errorf("record arity")
		}
		b.BeginContainer()
		for i, f := range t.Fields {
			if err := buildVal(zctx, b, ts.Fields[i].Type, f.Type, v.Elems[i]); err != nil {
				return err
			}
		}
		b.EndContainer()
	case *zed.TypeArray:
		b.BeginContainer()
		for _, e := range v.Elems {
			if err := buildVal(zctx, b, ts.Elems[0], t.Type, e); err != nil {
				return err
			}
		}
		b.EndContainer()
	case *zed.TypeSet:
		b.BeginContainer()
		for _, e := range v.Elems {
			if err := buildVal(zctx, b, ts.Elems[0], t.Type, e); err != nil {
				return err
			}
		}
		b.TransformContainer(zed.NormalizeSet)
		b.EndContainer()
	case *zed.TypeMap:
		b.BeginContainer()
		for i := 0; i+1 < len(v.Elems); i += 2 {
			if err := buildVal(zctx, b, ts.Elems[0], t.KeyType, v.Elems[i]); err != nil {
				return err
			}
			if err := buildVal(zctx, b, ts.Elems[1], t.ValType, v.Elems[i+1]); err != nil {
				return err
			}
		}
		b.TransformContainer(normalizeMapDedup)
		b.EndContainer()
	case *zed.TypeUnion:
		if v.Tag < 0 || v.Tag >= len(ts.Elems) || len(v.Elems) != 1 {
			return fmt.Errorf("union tag")
		}
		k := memberIndex(t, ts.Elems[v.Tag])
		if k < 0 {
			return fmt.Errorf("union member not found in real type")
		}
		b.BeginContainer()
		b.Append(zed.EncodeInt(int64(k)))
		if err := buildVal(zctx, b, ts.Elems[v.Tag], t.Types[k], v.Elems[0]); err != nil {
			return err
		}
		b.EndContainer()
	case *zed.TypeEnum:
		if v.Tag < 0 || v.Tag >= len(t.Symbols) {
			return fmt.Errorf("enum selector")
		}
		b.Append(zed.EncodeUint(uint64(v.Tag)))
	case *zed.TypeOfType:
		if v.T == nil {
			return fmt.Errorf("type value without spec")
		}
		tt, err := v.T.Build(zctx)
		if err != nil {
			return err
		}
		b.Append(zed.EncodeTypeValue(tt))
	default:
		raw, err := hex.DecodeString(v.Hex)
		if err != nil {
			return err
		}
		if raw == nil {
			raw = []byte{}
		}
		b.Append(raw)
	}
	return nil
}

// normalizeMapDedup: NormalizeMap sorts by key bytes but keeps duplicate keys; a map with a
// repeated key is not a well-formed map value, so drop all but the first of each key.
func normalizeMapDedup(zv zcode.Bytes) zcode.Bytes {
	zv = zed.NormalizeMap(zv)
	var out zcode.Bytes
	var prev zcode.Bytes
	first := true
	for it := zv.Iter(); !it.Done(); {
		k := it.NextTagAndBody()
		v := it.NextTagAndBody()
		if !first && string(k) == string(prev) {
			continue
		}
		first = false
		prev = k
		out = append(out, k...)
		out = append(out, v...)
	}
	if out == nil {
		out = zcode.Bytes{}
	}
	return out
}

func makeValue(zctx *zed.Context, t *TSpec, v *VSpec) (zed.Value, error) {
	typ, err := realType(zctx, t)
	if err != nil {
		return zed.Null, err
	}
	b := zcode.NewBuilder()
	if err := buildVal(zctx, b, t, typ, v); err != nil {
		return zed.Null, err
	}
	it := b.Bytes().Iter()
	return zed.NewValue(typ, it.Next()).Copy(), nil
}

// makePool draws n named types with distinct names (later ones may mention earlier ones).
func (g *gen) makePool(n int, names []string) {
	g.pool = nil
	for i := 0; i < n && i < len(names); i++ {
		u := g.genType(1 + g.r.Intn(2))
		g.pool = append(g.pool, &TSpec{Kind: "named", Name: names[i], Elems: []*TSpec{u}})
	}
}
