import Zed.Proofs.ContextOps
namespace Zed
open Zcode List Generated.C05
namespace Ctx

theorem toNat_byteOf (n : Nat) (h : n < 256) : (byteOf n).toNat = n := byte_toNat n h

theorem decodeTV_array (f : Nat) (c : Ctx) (tv : Bytes) :
    decodeTV (f + 1) c (byteOf tvArray :: tv) =
      match decodeTV f c tv with
      | (c, none) => (c, none)
      | (c, some (t, tv)) => ((c.lookupArray t).2, some ((c.lookupArray t).1, tv)) := by
  rw [decodeTV]
  have : (byteOf tvArray).toNat = tvArray := toNat_byteOf _ (by decide)
  simp only [this]
  simp only [show tvArray ≠ tvNameDef from by decide, show tvArray ≠ tvNameRef from by decide,
    show tvArray ≠ tvRecord from by decide, if_false, if_true]
  rfl

theorem decodeTV_set (f : Nat) (c : Ctx) (tv : Bytes) :
    decodeTV (f + 1) c (byteOf tvSet :: tv) =
      match decodeTV f c tv with
      | (c, none) => (c, none)
      | (c, some (t, tv)) => ((c.lookupSet t).2, some ((c.lookupSet t).1, tv)) := by
  rw [decodeTV]
  have : (byteOf tvSet).toNat = tvSet := toNat_byteOf _ (by decide)
  simp only [this]
  simp only [show tvSet ≠ tvNameDef from by decide, show tvSet ≠ tvNameRef from by decide,
    show tvSet ≠ tvRecord from by decide, show tvSet ≠ tvArray from by decide, if_false, if_true]
  rfl

theorem decodeTV_error (f : Nat) (c : Ctx) (tv : Bytes) :
    decodeTV (f + 1) c (byteOf tvError :: tv) =
      match decodeTV f c tv with
      | (c, none) => (c, none)
      | (c, some (t, tv)) => ((c.lookupError t).2, some ((c.lookupError t).1, tv)) := by
  rw [decodeTV]
  have : (byteOf tvError).toNat = tvError := toNat_byteOf _ (by decide)
  simp only [this]
  simp only [show tvError ≠ tvNameDef from by decide, show tvError ≠ tvNameRef from by decide,
    show tvError ≠ tvRecord from by decide, show tvError ≠ tvArray from by decide,
    show tvError ≠ tvSet from by decide, show tvError ≠ tvMap from by decide,
    show tvError ≠ tvUnion from by decide, show tvError ≠ tvEnum from by decide, if_false, if_true]
  rfl

theorem decodeTV_map (f : Nat) (c : Ctx) (tv : Bytes) :
    decodeTV (f + 1) c (byteOf tvMap :: tv) =
      match decodeTV f c tv with
      | (c, none) => (c, none)
      | (c, some (k, tv)) =>
        match decodeTV f c tv with
        | (c, none) => (c, none)
        | (c, some (v, tv)) => ((c.lookupMap k v).2, some ((c.lookupMap k v).1, tv)) := by
  rw [decodeTV]
  have : (byteOf tvMap).toNat = tvMap := toNat_byteOf _ (by decide)
  simp only [this]
  simp only [show tvMap ≠ tvNameDef from by decide, show tvMap ≠ tvNameRef from by decide,
    show tvMap ≠ tvRecord from by decide, show tvMap ≠ tvArray from by decide,
    show tvMap ≠ tvSet from by decide, if_false, if_true]
  rfl

theorem decodeTV_record (f : Nat) (c : Ctx) (tv : Bytes) :
    decodeTV (f + 1) c (byteOf tvRecord :: tv) =
      match decodeLength tv with
      | none => (c, none)
      | some (n, tv) =>
        if n > maxRecordFields then (c, none) else
        match decodeFields f n c tv with
        | (c, none) => (c, none)
        | (c, some (fs, tv)) =>
          match c.lookupRecord fs with
          | (none, c) => (c, none)
          | (some t, c) => (c, some (t, tv)) := by
  rw [decodeTV]
  have : (byteOf tvRecord).toNat = tvRecord := toNat_byteOf _ (by decide)
  simp only [this]
  simp only [show tvRecord ≠ tvNameDef from by decide, show tvRecord ≠ tvNameRef from by decide, if_false, if_true]
  rfl

theorem decodeTV_union (f : Nat) (c : Ctx) (tv : Bytes) :
    decodeTV (f + 1) c (byteOf tvUnion :: tv) =
      match decodeLength tv with
      | none => (c, none)
      | some (n, tv) =>
        if n > maxUnionTypes then (c, none) else
        match decodeTys f n c tv with
        | (c, none) => (c, none)
        | (c, some (ts, tv)) => ((c.lookupUnion ts).2, some ((c.lookupUnion ts).1, tv)) := by
  rw [decodeTV]
  have : (byteOf tvUnion).toNat = tvUnion := toNat_byteOf _ (by decide)
  simp only [this]
  simp only [show tvUnion ≠ tvNameDef from by decide, show tvUnion ≠ tvNameRef from by decide,
    show tvUnion ≠ tvRecord from by decide, show tvUnion ≠ tvArray from by decide,
    show tvUnion ≠ tvSet from by decide, show tvUnion ≠ tvMap from by decide, if_false, if_true]
  rfl

theorem decodeTV_enum (f : Nat) (c : Ctx) (tv : Bytes) :
    decodeTV (f + 1) c (byteOf tvEnum :: tv) =
      match decodeLength tv with
      | none => (c, none)
      | some (n, tv) =>
        if n > maxEnumSymbols then (c, none) else
        match decodeSyms n tv with
        | none => (c, none)
        | some (syms, tv) => ((c.lookupEnum syms).2, some ((c.lookupEnum syms).1, tv)) := by
  rw [decodeTV]
  have : (byteOf tvEnum).toNat = tvEnum := toNat_byteOf _ (by decide)
  simp only [this]
  simp only [show tvEnum ≠ tvNameDef from by decide, show tvEnum ≠ tvNameRef from by decide,
    show tvEnum ≠ tvRecord from by decide, show tvEnum ≠ tvArray from by decide,
    show tvEnum ≠ tvSet from by decide, show tvEnum ≠ tvMap from by decide,
    show tvEnum ≠ tvUnion from by decide, if_false, if_true]
  rfl

theorem decodeTV_namedef (f : Nat) (c : Ctx) (tv : Bytes) :
    decodeTV (f + 1) c (byteOf tvNameDef :: tv) =
      match decodeName tv with
      | none => (c, none)
      | some (name, tv) =>
        match decodeTV f c tv with
        | (c, none) => (c, none)
        | (c, some (t, tv)) =>
          match c.lookupNamed name t with
          | (none, c) => (c, none)
          | (some nt, c) => (c, some (nt, tv)) := by
  rw [decodeTV]
  have : (byteOf tvNameDef).toNat = tvNameDef := toNat_byteOf _ (by decide)
  simp only [this, if_true]
  rfl

theorem decodeTV_nameref (f : Nat) (c : Ctx) (tv : Bytes) :
    decodeTV (f + 1) c (byteOf tvNameRef :: tv) =
      match decodeName tv with
      | none => (c, none)
      | some (name, tv) =>
        match c.lookupTypeDef name with
        | none => (c, none)
        | some t => (c, some (t, tv)) := by
  rw [decodeTV]
  have : (byteOf tvNameRef).toNat = tvNameRef := toNat_byteOf _ (by decide)
  simp only [this]
  simp only [show tvNameRef ≠ tvNameDef from by decide, if_false, if_true]
  rfl

theorem decodeTV_prim (f : Nat) (c : Ctx) (i : Nat) (tv : Bytes) (w : (Ty.prim i).wf = true) :
    decodeTV (f + 1) c (byteOf i :: tv) = (c, some (.prim i, tv)) := by
  have hi := prim_wf_lt w
  rw [decodeTV]
  have : (byteOf i).toNat = i := toNat_byteOf _ (by omega)
  simp only [this]
  have h1 : i ≠ tvNameDef := by intro e; rw [e] at hi; revert hi; decide
  have h2 : i ≠ tvNameRef := by intro e; rw [e] at hi; revert hi; decide
  have h3 : i ≠ tvRecord := by intro e; rw [e] at hi; revert hi; decide
  have h4 : i ≠ tvArray := by intro e; rw [e] at hi; revert hi; decide
  have h5 : i ≠ tvSet := by intro e; rw [e] at hi; revert hi; decide
  have h6 : i ≠ tvMap := by intro e; rw [e] at hi; revert hi; decide
  have h7 : i ≠ tvUnion := by intro e; rw [e] at hi; revert hi; decide
  have h8 : i ≠ tvEnum := by intro e; rw [e] at hi; revert hi; decide
  have h9 : i ≠ tvError := by intro e; rw [e] at hi; revert hi; decide
  simp only [h1, h2, h3, h4, h5, h6, h7, h8, h9, if_false]
  simp only [Ty.wf, beq_iff_eq] at w
  rw [w]

end Ctx
end Zed
