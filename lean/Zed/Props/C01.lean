/-
  C01 — ZNG binary stream round trip is the identity.
  Property theorems only.  Wire constants and header expressions come from
  Zed.Generated.C01 (regenerated from zio/zngio, zcode and type.go on every check).
  Models: Zed/Model/Zng*.lean.  Helper lemmas: Zed/Proofs/Zng*.lean.
-/
import Zed.Proofs.ZngZcode
import Zed.Proofs.ZngTypes
import Zed.Proofs.ZngFrames
import Zed.Proofs.ZngScanner
import Zed.Proofs.ZngRoundtrip
import Zed.Proofs.ZngPeeker
namespace Zed.Props.C01
open Zed.Zng Zed.Generated.C01

/-! ## T1 obligations: the regenerated tables say what the model and docs/formats/zng.md assume -/

/-- The wire constants are the ones of the ZNG specification (docs/formats/zng.md): a change of
    any of them is a change of the format, even if writer and reader change together. -/
theorem wire_constants_match_spec :
    (typesFrame, valuesFrame, controlFrame, eos, compressionFormatLZ4) = (0, 1, 2, 255, 0) ∧
    (typeDefRecord, typeDefArray, typeDefSet, typeDefMap, typeDefUnion, typeDefEnum, typeDefError, typeDefName)
      = (0, 1, 2, 3, 4, 5, 6, 7) ∧
    idTypeComplex = 30 ∧ tagNull = 0 ∧ versionMask = 128 ∧ compressedMask = 64 ∧
    primitiveIDs = [0, 1, 2, 3, 6, 7, 8, 9, 12, 13, 14, 15, 16, 23, 24, 25, 26, 27, 28, 29] := by
  decide

/-- Order in which the header fields are appended, flush order (types frame first), the empty
    block rule and the shape of `EndStream` — the straight-line facts the writer model is
    written against. -/
theorem writer_shape :
    writeHeaderLayout = ["byte:byte(code)", "uvarint:uint64(size >> 4)"] ∧
    writeCompHeaderLayout = ["byte:byte(code)", "uvarint:uint64(zlen >> 4)", "byte:byte(CompressionFormatLZ4)", "uvarint:uint64(size)"] ∧
    writeValueLayout = ["binary.AppendUvarint(w.values, uint64(id))", "zcode.Append(w.values, val.Bytes())"] ∧
    flushOrder = ["TypesFrame:w.types.bytes", "ValuesFrame:w.values"] ∧
    writeBlockFirstStmt = "if len(b) == 0 { return nil }" ∧
    endStreamStmts = ["if err := w.flush(); err != nil { return err }",
      "if w.flushed != w.position { if err := w.write([]byte{EOS}); err != nil { return err } w.flushed = w.position }",
      "w.types.Reset()", "return nil"] ∧
    eosAction = "p.types.reset(); continue" ∧
    maxSizeChecks = ["readFrame: size > p.maxSize", "readCompressedFrame: size < 0 || size > p.maxSize"] := by
  decide

/-- The flush condition is monotone in both buffer lengths and fires exactly at the threshold
    (so a frame is never held back once a buffer has reached `thresh`). -/
theorem flushCond_spec (v t thresh : Nat) :
    flushCond v t thresh = true ↔ (thresh ≤ v ∨ thresh ≤ t) := by
  simp [flushCond]

/-- Writer and reader subtract/add the same amount for the compression sub-header. -/
theorem comp_extra_agree (size : Nat) : writeCompExtra size = readCompExtra size := rfl

/-! ## uvarint and zcode -/

theorem uvarint_roundtrip (n : Nat) (rest : Bytes) (hn : n < two64) :
    readUvarint (uvarint n ++ rest) = .ok (n, rest) :=
  readUvarint_uvarint n rest hn

example : (12345 : Nat) < two64 := by decide

/-- **zcode_roundtrip.**  Iterating over the concatenated encodings of any list of bodies
    gives back exactly that list — `none` (null) and `some []` (empty) stay different. -/
theorem zcode_roundtrip (vs : List (Option Bytes)) (h : ∀ v ∈ vs, BodyFits v) :
    ziterAll (zappendAll vs) = .ok vs :=
  ziterAll_zappendAll vs h

/-- non-vacuity of `BodyFits`, and null ≠ empty on the wire -/
example : ∀ v ∈ [none, some [], some [1, 2]], BodyFits v := by decide

theorem zcode_null_ne_empty : zappend none ≠ zappend (some []) ∧
    ziterAll (zappend none) = .ok [none] ∧ ziterAll (zappend (some [])) = .ok [some []] := by
  refine ⟨?_, ?_, ?_⟩
  · simp only [zappend, tagNull, toTag, List.length_nil, List.append_nil]
    rw [uvarint_small 0 (by decide), uvarint_small (0 + 1) (by decide)]
    decide
  · have := zcode_roundtrip [none] (by decide); simpa [zappendAll] using this
  · have := zcode_roundtrip [some []] (by decide); simpa [zappendAll] using this

/-! ## frame headers -/

/-- **frame header encode/decode inverse** (uncompressed frames, all three kinds): the reader
    recovers kind and payload from `writeHeader`'s bytes, and asks the allocator for no more than
    `maxSize`. -/
theorem frame_header_roundtrip (o : ROpts) (decomp : Bytes → Nat → Option Bytes) (kind : Nat) (hk : kind < 3)
    (payload rest : Bytes) (hs : payload.length < two63) (hfit : payload.length ≤ o.maxSize) :
    ∃ c tl al, frameHeader kind payload.length ++ payload ++ rest = c :: tl ∧
      c.toNat ≠ eos ∧ c.toNat &&& versionMask = 0 ∧ frameTypeOf c.toNat = kind ∧
      c.toNat &&& compressedMask = 0 ∧
      readFrame o decomp c.toNat tl = .ok payload rest al ∧ ∀ a ∈ al, a ≤ o.maxSize :=
  readFrame_plain o decomp kind hk payload rest hs hfit

example : ([1, 2, 3] : Bytes).length < two63 ∧ ([1, 2, 3] : Bytes).length ≤ (⟨1024, false⟩ : ROpts).maxSize := by decide

/-! ## typedefs -/

/-- **typedefs_before_use.**  For every well-formed type, every encoder state whose cache is
    consistent and every context tag: the typedef bytes one `Encode` call appends decode —
    starting from the context *before* the call, i.e. using only ids defined earlier in the
    stream segment — to exactly the encoder's context after the call, and the id the call
    returns denotes the type.  (`small` = every integer written fits a Go `int`.) -/
theorem typedefs_before_use (cid : Nat) (t : ZTy) (s : EncSt) (hv : t.valid = true) (hc : CacheOk s)
    (hs : (encTy cid t s).1.small = true) :
    ∃ d, (encTy cid t s).1.bytes = s.bytes ++ d ∧
      decTypedefs s.ctx d = .ok (encTy cid t s).1.ctx ∧
      (encTy cid t s).1.ctx.typeOfId (((encTy cid t s).2 : Nat) : Int) = some t ∧
      CacheOk (encTy cid t s).1 := by
  obtain ⟨hok, hid⟩ := encTy_spec cid t s hv hc hs
  obtain ⟨d, hd, hdec⟩ := hok.dec
  refine ⟨d, hd, ?_, hid, hok.cache⟩
  have := hdec []
  rw [List.append_nil, decTypedefs_nil] at this
  exact this

/-- non-vacuity: a named record with a union, an enum, a set and a map is well-formed, the
    initial encoder state is consistent, and the sizes fit -/
example :
    let t : ZTy := .named [112] (.record (.cons [97] (.union (.cons (.prim 9) (.cons (.prim 25) .nil)))
      (.cons [98] (.enum [[120], [121]]) (.cons [99] (.map (.prim 25) (.set (.prim 26))) .nil))))
    t.valid = true ∧ CacheOk ({} : EncSt) ∧ (encTy 0 t {}).1.small = true := by
  refine ⟨by decide, ?_, by decide⟩
  intro c t h; simp at h

/-! ## the stream round trip -/

/-- hypotheses of the round trip, all decidable given the inputs:
    * every written type is well-formed (`ZTy.valid`: what `zed.Context` only ever builds) and,
      if the reader validates, every written value passes `Validate`;
    * `small`: every integer the writer emitted (type ids, counts, string, body and frame lengths)
      fits a Go `int`;
    * every frame fits the reader's limit (`ReaderOpts.Max`). -/
def RoundtripOk (wo : WOpts) (ro : ROpts) (comp : Bytes → Option Bytes) (ops : List WOp) : Prop :=
  (∀ v ∈ opsValues ops, v.ty.valid = true ∧ (ro.validate = true → validate v.ty v.body = true)) ∧
  (writeAll wo comp ops).small = true ∧ (writeAll wo comp ops).enc.small = true ∧
  (writeAll wo comp ops).maxFrame ≤ ro.maxSize

/-- **zng_roundtrip.**  For every sequence of writer operations (values whose types come from any
    number of type contexts, explicit end-of-stream markers anywhere — leading, doubled, trailing —
    and control messages), every frame threshold (including 0 and 1), compression on or off with
    ANY compressor/decompressor pair satisfying `decomp (comp b) = b` (the compressor may decline
    any block), and every reader limit and validation setting: reading the bytes of the closed
    writer delivers exactly the written values — same number, same order, same structural types,
    same body bytes with null and empty kept apart — and then ends cleanly.
    (The reader is the sequential one; `scanner_order` below carries the result over to every
    schedule of the threaded scanner.) -/
theorem zng_roundtrip (wo : WOpts) (ro : ROpts) (comp : Bytes → Option Bytes) (decomp : Bytes → Nat → Option Bytes)
    (hlz : ∀ b z, comp b = some z → decomp z b.length = some b)
    (ops : List WOp) (h : RoundtripOk wo ro comp ops) :
    (readAll ro decomp (writeAll wo comp ops).out).vals = (opsValues ops).map (fun v => ⟨v.ty, v.body⟩) ∧
    (readAll ro decomp (writeAll wo comp ops).out).out = .eof :=
  roundtrip wo ro comp decomp hlz ops h.1 ⟨h.2.1, h.2.2.1, h.2.2.2⟩

/-- **zng_concat.**  Streams written by independent writers can be concatenated: the reader
    delivers the values of the first, then those of the second (each closed writer leaves the
    reader in its initial state). -/
theorem zng_concat (wo₁ wo₂ : WOpts) (ro : ROpts) (comp : Bytes → Option Bytes) (decomp : Bytes → Nat → Option Bytes)
    (hlz : ∀ b z, comp b = some z → decomp z b.length = some b)
    (ops₁ ops₂ : List WOp) (h₁ : RoundtripOk wo₁ ro comp ops₁) (h₂ : RoundtripOk wo₂ ro comp ops₂) :
    (readAll ro decomp ((writeAll wo₁ comp ops₁).out ++ (writeAll wo₂ comp ops₂).out)).vals =
      (opsValues ops₁ ++ opsValues ops₂).map (fun v => ⟨v.ty, v.body⟩) ∧
    (readAll ro decomp ((writeAll wo₁ comp ops₁).out ++ (writeAll wo₂ comp ops₂).out)).out = .eof := by
  have p1 := roundtrip_prefix wo₁ ro comp decomp hlz ops₁ h₁.1 ⟨h₁.2.1, h₁.2.2.1, h₁.2.2.2⟩ (writeAll wo₂ comp ops₂).out
  have p2 := zng_roundtrip wo₂ ro comp decomp hlz ops₂ h₂
  unfold readAll at p2 ⊢
  exact ⟨by rw [p1.1, p2.1, List.map_append], by rw [p1.2, p2.2]⟩

/-- non-vacuity: two values of a record type with a union and a null, an end-of-stream in the
    middle, threshold 1, an identity "compressor", a validating reader -/
example :
    let t : ZTy := .record (.cons [97] (.union (.cons (.prim 9) (.cons (.prim 25) .nil))) (.cons [98] (.prim 25) .nil))
    let ops : List WOp := [.write ⟨0, t, some [3, 2, 2, 0]⟩, .endStream, .write ⟨1, t, none⟩]
    (∀ b z, (fun b => some b : Bytes → Option Bytes) b = some z → (fun z _ => some z : Bytes → Nat → Option Bytes) z b.length = some b) ∧
    (∀ v ∈ opsValues ops, v.ty.valid = true) := by
  refine ⟨?_, ?_⟩
  · intro b z h; simp at h; simp [h]
  · decide

/-- a concrete, fully evaluated instance of all hypotheses: an array value, an end-of-stream
    marker, a null of another type from a second context, frame threshold 1, no compression -/
theorem roundtripOk_example : RoundtripOk ⟨false, 1⟩ ⟨1000, false⟩ (fun _ => none)
    [.write ⟨0, .array (.prim 9), some [2, 2]⟩, .endStream, .write ⟨1, .prim 25, none⟩] := by
  refine ⟨by decide, ?_, ?_, ?_⟩ <;>
    simp (config := { decide := true }) [writeAll, WSt.run, WSt.step, encTy, WSt.addValue, WSt.flush, WSt.writeBlock, flushCond, blockSmall, blockMax,
      bodySmall, two63, uvarint_small, zappend, toTag, tagNull, EncSt.finish, EncSt.put, EncSt.putUv, Ctx.enter, Ctx.find, typeDefArray, idTypeComplex,
      typesFrame, valuesFrame]

/-- … to which `zng_roundtrip` applies -/
example : (readAll ⟨1000, false⟩ (fun _ _ => none)
    (writeAll ⟨false, 1⟩ (fun _ => none) [.write ⟨0, .array (.prim 9), some [2, 2]⟩, .endStream, .write ⟨1, .prim 25, none⟩]).out).vals
    = [⟨.array (.prim 9), some [2, 2]⟩, ⟨.prim 25, none⟩] :=
  (zng_roundtrip _ _ _ _ (by intro b z h; cases h) _ roundtripOk_example).1

/-! ## read buffer -/

/-- **read_buffer_independent.**  `pkg/peeker` with the chunking of the underlying reader made
    explicit (`Peeker.PState`: buffered bytes + the chunks the source will still deliver, any
    number, any sizes — whatever `ReaderOpts.Size` and the `io.Reader` do): every client that asks
    for single bytes and for blocks of at most `limit` bytes (readmax ≥ largest frame), looks at the
    answers and stops at the first failure — which is how `parser.read` uses the peeker — computes
    the same result as on the unchunked input. -/
theorem read_buffer_independent {α : Type} (limit : Nat) (hl : 1 ≤ limit) (p : Peeker.Prog α)
    (hb : p.Bounded limit) (buffered : Bytes) (chunks : List Bytes) :
    p.runP limit ⟨buffered, chunks, false⟩ = p.runL limit (buffered ++ chunks.flatten) :=
  Peeker.prog_sim limit hl p ⟨buffered, chunks, false⟩ _ ⟨rfl, rfl⟩ hb

/-- instance: the frame reader (`parser.readFrame`: length varint byte by byte, limit test,
    payload) returns the same payload or the same failure as the model's `readPlainFrame`, for every
    chunking of the input -/
theorem readFrame_chunk_independent (o : ROpts) (hl : 1 ≤ o.maxSize) (code : Nat) (buffered : Bytes) (chunks : List Bytes) :
    (Peeker.plainFrameProg o code).runP o.maxSize ⟨buffered, chunks, false⟩ =
      Peeker.frameAnswer (readPlainFrame o code (buffered ++ chunks.flatten)) := by
  rw [read_buffer_independent o.maxSize hl _ (Peeker.plainFrameProg_bounded o code)]
  exact Peeker.plainFrameProg_runL o code _

/-- non-vacuity: three chunks of one byte each -/
example : (Peeker.plainFrameProg ⟨16, false⟩ 0x12).runP 16 ⟨[], [[0], [7], [9]], false⟩ = .ok [7, 9] := by rfl

/-! ## threaded scanner -/

/-- **scanner_order.**  For every number of workers, every classification of items into
    work/control, and **every** schedule of dispatch / control / worker-completion / pull steps
    (steps that are not enabled cannot happen and are skipped): what `Pull` has delivered is
    exactly the results of items `0 … pulled-1` in stream order — the results of the frames in
    frame order, which is what the single-threaded reader produces. -/
theorem scanner_order {R : Type} (res : Nat → R) (isWork : Nat → Bool) (total threads : Nat)
    (sched : List Scanner.Action) :
    let s := Scanner.run res isWork total (Scanner.init threads) sched
    s.delivered = (List.range s.pulled).map res ∧ s.pulled ≤ s.next ∧
      s.queue = List.range' s.pulled (s.next - s.pulled) := by
  have h := Scanner.inv_run res isWork total sched (Scanner.init threads) (Scanner.inv_init res threads)
  exact ⟨h.delivered, h.le, h.queue⟩

/-- When everything has been parsed and pulled, the whole output is the frame results in order. -/
theorem scanner_complete {R : Type} (res : Nat → R) (isWork : Nat → Bool) (total threads : Nat)
    (sched : List Scanner.Action)
    (hdone : (Scanner.run res isWork total (Scanner.init threads) sched).pulled = total) :
    (Scanner.run res isWork total (Scanner.init threads) sched).delivered = (List.range total).map res := by
  have h := (scanner_order res isWork total threads sched).1
  rw [hdone] at h; exact h

/-- non-vacuity: a schedule in which the later worker finishes first still ends with
    everything delivered -/
example : (Scanner.run (R := Nat) id (fun _ => true) 2 (Scanner.init 2)
    [.dispatch, .dispatch, .finish 1, .pull, .finish 0, .pull, .pull]).pulled = 2 := by decide

end Zed.Props.C01
