import Zed.Generated.C19
/-!
  C19 model — `api/client/request.go`: every request body passes through `recordReader`, which
  keeps a copy of its first `limit` bytes so that the request can be replayed (redirect, expired
  token).  One `Read` of the wrapped reader yields a chunk; the recorder hands on
  `forwardAll = true`: the whole chunk (the count the wrapped reader returned), or
  `forwardAll = false`: only as much as it recorded — what a Read that returns its own clamped
  count does.  Which of the two the code does is regenerated
  (`Zed.Generated.C19.recordReaderReturnsReadCount`).
-/
namespace Zed.Svc

structure Recorder (α : Type) where
  buf : List α := []
  noreplay : Bool := false

/-- one `recordReader.Read`: the new state and the bytes the caller (the HTTP transport) sees -/
def recRead {α : Type} (forwardAll : Bool) (limit : Nat) (st : Recorder α) (chunk : List α) :
    Recorder α × List α :=
  if st.buf.length < limit then
    let cc := chunk.take (limit - st.buf.length)
    ({ st with buf := st.buf ++ cc }, if forwardAll then chunk else cc)
  else
    ({ st with noreplay := true }, chunk)

/-- a whole body, as the sequence of chunks the wrapped reader returns -/
def recRun {α : Type} (forwardAll : Bool) (limit : Nat) : Recorder α → List (List α) → Recorder α × List α
  | st, [] => (st, [])
  | st, c :: cs =>
    let (st1, out) := recRead forwardAll limit st c
    let (st2, rest) := recRun forwardAll limit st1 cs
    (st2, out ++ rest)

/-- the recorder as the code has it -/
def recRunCode {α : Type} (chunks : List (List α)) : Recorder α × List α :=
  recRun Generated.C19.recordReaderReturnsReadCount Generated.C19.recordLimit {} chunks

end Zed.Svc
