/-
  Lemmas for C04 (Props/C04.lean): byte search, sub-value serialisations, Walk.
-/
import Zed.Model.BfFilter
namespace Zed.Bf

/-! ## byte search -/

theorem prefixBy_append (eq : UInt8 → UInt8 → Bool) :
    ∀ (pat a b : Bytes), prefixBy eq pat a = true → prefixBy eq pat (a ++ b) = true
  | [], a, b, _ => by cases h : a ++ b <;> rfl
  | _ :: _, [], _, h => by simp [prefixBy] at h
  | p :: ps, x :: xs, b, h => by
    simp only [prefixBy, Bool.and_eq_true] at h
    simp only [List.cons_append, prefixBy, Bool.and_eq_true]
    exact ⟨h.1, prefixBy_append eq ps xs b h.2⟩

theorem findBy_append_right (eq : UInt8 → UInt8 → Bool) (pat : Bytes) :
    ∀ (a b : Bytes), findBy eq pat a = true → findBy eq pat (a ++ b) = true
  | [], b, h => by
    simp only [findBy] at h
    have := prefixBy_append eq pat [] b h
    simp only [List.nil_append] at this ⊢
    cases b with
    | nil => simpa [findBy] using this
    | cons y ys => simp [findBy, this]
  | x :: xs, b, h => by
    simp only [findBy, Bool.or_eq_true] at h
    simp only [List.cons_append, findBy, Bool.or_eq_true]
    rcases h with h | h
    · exact Or.inl (prefixBy_append eq pat (x :: xs) b h)
    · exact Or.inr (findBy_append_right eq pat xs b h)

theorem findBy_append_left (eq : UInt8 → UInt8 → Bool) (pat : Bytes) :
    ∀ (a b : Bytes), findBy eq pat b = true → findBy eq pat (a ++ b) = true
  | [], _, h => h
  | x :: xs, b, h => by
    simp only [List.cons_append, findBy, Bool.or_eq_true]
    exact Or.inr (findBy_append_left eq pat xs b h)

/-- `a` occurs contiguously in `b`. -/
def Infix (a b : Bytes) : Prop := ∃ pre post, b = pre ++ a ++ post

theorem Infix.refl (a : Bytes) : Infix a a := ⟨[], [], by simp⟩

theorem Infix.trans {a b c : Bytes} (h1 : Infix a b) (h2 : Infix b c) : Infix a c := by
  obtain ⟨p1, q1, rfl⟩ := h1
  obtain ⟨p2, q2, rfl⟩ := h2
  exact ⟨p2 ++ p1, q1 ++ q2, by simp [List.append_assoc]⟩

theorem Infix.append_left {a b : Bytes} (pre : Bytes) (h : Infix a b) : Infix a (pre ++ b) := by
  obtain ⟨p, q, rfl⟩ := h
  exact ⟨pre ++ p, q, by simp [List.append_assoc]⟩

theorem Infix.append_right {a b : Bytes} (post : Bytes) (h : Infix a b) : Infix a (b ++ post) := by
  obtain ⟨p, q, rfl⟩ := h
  exact ⟨p, q ++ post, by simp [List.append_assoc]⟩

theorem findBy_infix (eq : UInt8 → UInt8 → Bool) (pat : Bytes) {a b : Bytes} (h : Infix a b)
    (hf : findBy eq pat a = true) : findBy eq pat b = true := by
  obtain ⟨p, q, rfl⟩ := h
  exact findBy_append_right eq pat _ q (findBy_append_left eq pat p a hf)

theorem prefixBy_self (eq : UInt8 → UInt8 → Bool) (hrefl : ∀ x, eq x x = true) :
    ∀ pat : Bytes, prefixBy eq pat pat = true
  | [] => rfl
  | p :: ps => by simp [prefixBy, hrefl, prefixBy_self eq hrefl ps]

theorem findBy_self (eq : UInt8 → UInt8 → Bool) (hrefl : ∀ x, eq x x = true) (pat : Bytes) :
    findBy eq pat pat = true := by
  cases pat with
  | nil => rfl
  | cons p ps => simp [findBy, prefixBy_self eq hrefl (p :: ps)]

theorem lowerAscii_idem (b : UInt8) : lowerAscii (lowerAscii b) = lowerAscii b := by
  unfold lowerAscii
  split
  · rename_i h
    have hb : (b + 32).toNat = b.toNat + 32 := by
      rw [UInt8.toNat_add]; simp; omega
    have : ¬ (65 ≤ (b + 32).toNat ∧ (b + 32).toNat ≤ 90) := by omega
    rw [if_neg this]
  · rfl

theorem prefixBy_lower (pat : Bytes) : ∀ s : Bytes,
    prefixBy foldEq (pat.map lowerAscii) s = prefixBy foldEq pat s := by
  induction pat with
  | nil => intro s; rfl
  | cons p ps ih =>
    intro s
    cases s with
    | nil => rfl
    | cons x xs => simp [prefixBy, foldEq, lowerAscii_idem, ih xs]

theorem findBy_lower (pat : Bytes) : ∀ s : Bytes,
    findBy foldEq (pat.map lowerAscii) s = findBy foldEq pat s
  | [] => by simp [findBy, prefixBy_lower]
  | x :: xs => by simp [findBy, prefixBy_lower, findBy_lower pat xs]

/-! ## sub-values are contiguous in the serialisation -/

theorem enc_prim_infix (b : Bytes) : Infix b (enc (.prim b)) :=
  ⟨uvarint (b.length + 1), [], by simp [enc]⟩

theorem enc_cont_infix (items : Vals) : Infix (encs items) (enc (.cont items)) :=
  ⟨uvarint ((encs items).length + 1), [], by simp [enc]⟩

theorem vals_any_infix : ∀ (items : Vals) (f : Val → Bool), items.any f = true →
    ∃ v, f v = true ∧ Infix (enc v) (encs items)
  | .nil, _, h => by simp [Vals.any] at h
  | .cons v r, f, h => by
    simp only [Vals.any, Bool.or_eq_true] at h
    rcases h with h | h
    · exact ⟨v, h, ⟨[], encs r, by simp [encs]⟩⟩
    · obtain ⟨w, hw, hi⟩ := vals_any_infix r f h
      exact ⟨w, hw, by simp only [encs]; exact hi.append_left _⟩

theorem vals_anyKV_infix : ∀ (items : Vals) (fk fv : Val → Bool), items.anyKV fk fv = true →
    ∃ v, (fk v = true ∨ fv v = true) ∧ Infix (enc v) (encs items)
  | .nil, _, _, h => by simp [Vals.anyKV] at h
  | .cons _ .nil, _, _, h => by simp [Vals.anyKV] at h
  | .cons k (.cons v r), fk, fv, h => by
    simp only [Vals.anyKV, Bool.or_eq_true] at h
    rcases h with (h | h) | h
    · exact ⟨k, Or.inl h, ⟨[], encs (.cons v r), by simp [encs]⟩⟩
    · exact ⟨v, Or.inr h, ⟨enc k, encs r, by simp [encs]⟩⟩
    · obtain ⟨w, hw, hi⟩ := vals_anyKV_infix r fk fv h
      refine ⟨w, hw, ?_⟩
      simp only [encs]
      exact (hi.append_left _).append_left _

theorem getField_infix : ∀ (fs : Fields) (items : Vals) (name : Bytes) (t : Ty) (v : Val),
    getField fs items name = some (t, v) → Infix (enc v) (encs items)
  | .cons n ft r, .cons x xs, name, t, v, h => by
    simp only [getField] at h
    split at h
    · simp only [Option.some.injEq, Prod.mk.injEq] at h
      obtain ⟨_, rfl⟩ := h
      exact ⟨[], encs xs, by simp [encs]⟩
    · have := getField_infix r xs name t v h
      simp only [encs]; exact this.append_left _
  | .nil, _, _, _, _, h => by simp [getField] at h
  | .cons _ _ _, .nil, _, _, _, h => by simp [getField] at h

theorem getPath_infix : ∀ (p : List Bytes) (t : Ty) (v : Val) (t' : Ty) (v' : Val),
    getPath t v p = some (t', v') → Infix (enc v') (enc v)
  | [], t, v, t', v', h => by
    simp only [getPath, Option.some.injEq, Prod.mk.injEq] at h
    obtain ⟨_, rfl⟩ := h; exact Infix.refl _
  | name :: rest, t, v, t', v', h => by
    simp only [getPath] at h
    split at h
    · rename_i _ _ fs items _
      split at h
      · rename_i ft fv hgf
        have h1 := getPath_infix rest ft fv t' v' h
        have h2 := getField_infix fs items name ft fv hgf
        exact h1.trans (h2.trans (enc_cont_infix items))
      · simp at h
    · simp at h

/-- every (type, body) pair `Walk` visits is a sub-value, contiguous in the serialisation. -/
theorem walkAny_infix (t : Ty) : ∀ (visit : Ty → Val → Bool) (skip : Bool) (v : Val),
    walkAny visit skip t v = true → ∃ t' v', visit t' v' = true ∧ Infix (enc v') (enc v) := by
  apply @Ty.rec
    (motive_1 := fun t => ∀ (visit : Ty → Val → Bool) (skip : Bool) (v : Val),
      walkAny visit skip t v = true → ∃ t' v', visit t' v' = true ∧ Infix (enc v') (enc v))
    (motive_2 := fun fs => ∀ (visit : Ty → Val → Bool) (items : Vals),
      walkFields visit fs items = true → ∃ t' v', visit t' v' = true ∧ Infix (enc v') (encs items))
    (motive_3 := fun ts => ∀ (visit : Ty → Val → Bool) (n : Nat) (v : Val),
      walkUnion visit ts n v = true → ∃ t' v', visit t' v' = true ∧ Infix (enc v') (enc v))
  case prim =>
    intro id visit skip v h
    cases skip <;> simp only [walkAny] at h <;> exact ⟨_, _, h, Infix.refl _⟩
  case enum =>
    intro n visit skip v h
    cases skip <;> simp only [walkAny] at h <;> exact ⟨_, _, h, Infix.refl _⟩
  case record =>
    intro fs ih visit skip v h
    cases skip <;> simp only [walkAny, Bool.or_eq_true] at h <;>
    · rcases h with h | h
      · exact ⟨_, _, h, Infix.refl _⟩
      · split at h
        · rename_i items
          obtain ⟨t', v', hv, hi⟩ := ih visit items h
          exact ⟨t', v', hv, hi.trans (enc_cont_infix items)⟩
        · simp at h
  case array =>
    intro t ih visit skip v h
    cases skip <;> simp only [walkAny, Bool.or_eq_true] at h <;>
    · rcases h with h | h
      · exact ⟨_, _, h, Infix.refl _⟩
      · split at h
        · rename_i items
          obtain ⟨w, hw, hi⟩ := vals_any_infix items _ h
          obtain ⟨t', v', hv, hi'⟩ := ih visit false w hw
          exact ⟨t', v', hv, hi'.trans (hi.trans (enc_cont_infix items))⟩
        · simp at h
  case set =>
    intro t ih visit skip v h
    cases skip <;> simp only [walkAny, Bool.or_eq_true] at h <;>
    · rcases h with h | h
      · exact ⟨_, _, h, Infix.refl _⟩
      · split at h
        · rename_i items
          obtain ⟨w, hw, hi⟩ := vals_any_infix items _ h
          obtain ⟨t', v', hv, hi'⟩ := ih visit true w hw
          exact ⟨t', v', hv, hi'.trans (hi.trans (enc_cont_infix items))⟩
        · simp at h
  case map =>
    intro k e ihk ihe visit skip v h
    cases skip <;> simp only [walkAny, Bool.or_eq_true] at h <;>
    · rcases h with h | h
      · exact ⟨_, _, h, Infix.refl _⟩
      · split at h
        · rename_i items
          obtain ⟨w, hw, hi⟩ := vals_anyKV_infix items _ _ h
          rcases hw with hw | hw
          · obtain ⟨t', v', hv, hi'⟩ := ihk visit true w hw
            exact ⟨t', v', hv, hi'.trans (hi.trans (enc_cont_infix items))⟩
          · obtain ⟨t', v', hv, hi'⟩ := ihe visit true w hw
            exact ⟨t', v', hv, hi'.trans (hi.trans (enc_cont_infix items))⟩
        · simp at h
  case union =>
    intro ts ih visit skip v h
    cases skip <;> simp only [walkAny, Bool.or_eq_true] at h <;>
    · rcases h with h | h
      · exact ⟨_, _, h, Infix.refl _⟩
      · split at h
        · rename_i tag x
          split at h
          · rename_i i _
            obtain ⟨t', v', hv, hi⟩ := ih visit i x h
            refine ⟨t', v', hv, hi.trans ?_⟩
            refine Infix.trans ?_ (enc_cont_infix _)
            exact ⟨enc (.prim tag), [], by simp [encs]⟩
          · simp at h
        · simp at h
  case named =>
    intro n t ih visit skip v h
    cases skip
    · simp only [walkAny, Bool.or_eq_true] at h
      rcases h with h | h
      · exact ⟨_, _, h, Infix.refl _⟩
      · exact ih visit false v h
    · simp only [walkAny] at h
      exact ih visit true v h
  case error =>
    intro t ih visit skip v h
    cases skip <;> simp only [walkAny, Bool.or_eq_true] at h <;>
    · rcases h with h | h
      · exact ⟨_, _, h, Infix.refl _⟩
      · exact ih visit false v h
  case nil =>
    intro visit items h
    simp [walkFields] at h
  case cons =>
    intro n t r iht ihr visit items h
    cases items with
    | nil => simp [walkFields] at h
    | cons x xs =>
      simp only [walkFields, Bool.or_eq_true] at h
      rcases h with h | h
      · obtain ⟨t', v', hv, hi⟩ := iht visit false x h
        exact ⟨t', v', hv, hi.trans ⟨[], encs xs, by simp [encs]⟩⟩
      · obtain ⟨t', v', hv, hi⟩ := ihr visit xs h
        exact ⟨t', v', hv, by simp only [encs]; exact hi.append_left _⟩
  case nil =>
    intro visit n v h
    simp [walkUnion] at h
  case cons =>
    intro t r iht ihr visit n v h
    cases n with
    | zero => simp only [walkUnion] at h; exact iht visit false v h
    | succ m => simp only [walkUnion] at h; exact ihr visit m v h

/-! ## the field-name part of a keyword search -/

/-- the visit of `searchString.Eval`'s walk. -/
def searchVisit (term : Bytes) (ty : Ty) (b : Val) : Bool := searchType term ty || strLeaf term ty b

theorem matchType_of_searchType (term : Bytes) : ∀ (t : Ty), searchType term t = true → matchType term t = true
  | .named _ t, h => by
    simp only [matchType]
    exact matchType_of_searchType term t (by simpa [searchType, recordNames] using h)
  | .record fs, h => by
    simp only [searchType, recordNames] at h
    simp [matchType, h]
  | .prim _, h => by simp [searchType, recordNames] at h
  | .enum _, h => by simp [searchType, recordNames] at h
  | .array _, h => by simp [searchType, recordNames] at h
  | .set _, h => by simp [searchType, recordNames] at h
  | .map _ _, h => by simp [searchType, recordNames] at h
  | .union _, h => by simp [searchType, recordNames] at h
  | .error _, h => by simp [searchType, recordNames] at h

theorem matchType_under : ∀ (t : Ty), matchType term t = matchType term (under t)
  | .named _ t => by simp only [matchType, under]; exact matchType_under t
  | .prim _ | .enum _ | .record _ | .array _ | .set _ | .map _ _ | .union _ | .error _ => rfl

theorem strLeaf_record (term : Bytes) (fs : Fields) (v : Val) : strLeaf term (.record fs) v = false := by
  simp [strLeaf, under]

theorem vals_any_imp : ∀ (items : Vals) (f : Val → Bool) (P : Prop) (g : Val → Bool),
    (∀ v, f v = true → P ∨ g v = true) → items.any f = true → P ∨ items.any g = true
  | .nil, _, _, _, _, h => by simp [Vals.any] at h
  | .cons v r, f, P, g, hfg, h => by
    simp only [Vals.any, Bool.or_eq_true] at h ⊢
    rcases h with h | h
    · rcases hfg v h with hp | hg
      · exact Or.inl hp
      · exact Or.inr (Or.inl hg)
    · rcases vals_any_imp r f P g hfg h with hp | hg
      · exact Or.inl hp
      · exact Or.inr (Or.inr hg)

theorem vals_anyKV_imp : ∀ (items : Vals) (f f' : Val → Bool) (P : Prop) (g g' : Val → Bool),
    (∀ v, f v = true → P ∨ g v = true) → (∀ v, f' v = true → P ∨ g' v = true) →
    items.anyKV f f' = true → P ∨ items.anyKV g g' = true
  | .nil, _, _, _, _, _, _, _, h => by simp [Vals.anyKV] at h
  | .cons _ .nil, _, _, _, _, _, _, _, h => by simp [Vals.anyKV] at h
  | .cons k (.cons v r), f, f', P, g, g', hf, hf', h => by
    simp only [Vals.anyKV, Bool.or_eq_true] at h ⊢
    rcases h with (h | h) | h
    · rcases hf k h with hp | hg
      · exact Or.inl hp
      · exact Or.inr (Or.inl (Or.inl hg))
    · rcases hf' v h with hp | hg
      · exact Or.inl hp
      · exact Or.inr (Or.inl (Or.inr hg))
    · rcases vals_anyKV_imp r f f' P g g' hf hf' h with hp | hg
      · exact Or.inl hp
      · exact Or.inr (Or.inr hg)

/-- a keyword search that succeeds in the walk succeeds through a leaf name of a record type
    inside the walked type — which `FieldNameFinder.matchType` sees — or through a string leaf. -/
theorem walkAny_search (term : Bytes) (t : Ty) : ∀ (skip : Bool) (v : Val),
    walkAny (searchVisit term) skip t v = true →
      matchType term t = true ∨ walkAny (strLeaf term) skip t v = true := by
  apply @Ty.rec
    (motive_1 := fun t => ∀ (skip : Bool) (v : Val),
      walkAny (searchVisit term) skip t v = true →
        matchType term t = true ∨ walkAny (strLeaf term) skip t v = true)
    (motive_2 := fun fs => ∀ (items : Vals),
      walkFields (searchVisit term) fs items = true →
        matchFields term fs = true ∨ walkFields (strLeaf term) fs items = true)
    (motive_3 := fun ts => ∀ (n : Nat) (v : Val),
      walkUnion (searchVisit term) ts n v = true →
        matchTys term ts = true ∨ walkUnion (strLeaf term) ts n v = true)
  case prim =>
    intro id skip v h
    cases skip <;> simp only [walkAny, searchVisit, searchType, recordNames, Bool.false_or] at h <;>
      exact Or.inr (by simp [walkAny, h])
  case enum =>
    intro n skip v h
    cases skip <;> simp only [walkAny, searchVisit, searchType, recordNames, Bool.false_or] at h <;>
      exact Or.inr (by simp [walkAny, h])
  case record =>
    intro fs ih skip v h
    have key : walkAny (searchVisit term) skip (.record fs) v = true →
        matchType term (.record fs) = true ∨ walkAny (strLeaf term) skip (.record fs) v = true := by
      intro h
      cases skip <;> simp only [walkAny, Bool.or_eq_true] at h <;>
      · rcases h with h | h
        · simp only [searchVisit, strLeaf_record, Bool.or_false] at h
          exact Or.inl (matchType_of_searchType term _ h)
        · split at h
          · rename_i _ items _
            rcases ih items h with h' | h'
            · exact Or.inl (by simp [matchType, h'])
            · exact Or.inr (by simp [walkAny, h'])
          · simp at h
    exact key h
  case array =>
    intro t ih skip v h
    have key : walkAny (searchVisit term) skip (.array t) v = true →
        matchType term (.array t) = true ∨ walkAny (strLeaf term) skip (.array t) v = true := by
      intro h
      cases skip <;> simp only [walkAny, Bool.or_eq_true] at h <;>
      · rcases h with h | h
        · simp only [searchVisit, searchType, recordNames, Bool.false_or] at h
          exact Or.inr (by simp [walkAny, h])
        · split at h
          · rename_i _ items _
            rcases vals_any_imp items _ (matchType term t = true) _ (ih false) h with h' | h'
            · exact Or.inl (by simpa [matchType] using h')
            · exact Or.inr (by simp [walkAny, h'])
          · simp at h
    exact key h
  case set =>
    intro t ih skip v h
    have key : walkAny (searchVisit term) skip (.set t) v = true →
        matchType term (.set t) = true ∨ walkAny (strLeaf term) skip (.set t) v = true := by
      intro h
      cases skip <;> simp only [walkAny, Bool.or_eq_true] at h <;>
      · rcases h with h | h
        · simp only [searchVisit, searchType, recordNames, Bool.false_or] at h
          exact Or.inr (by simp [walkAny, h])
        · split at h
          · rename_i _ items _
            rcases vals_any_imp items _ (matchType term t = true) _ (ih true) h with h' | h'
            · exact Or.inl (by simpa [matchType] using h')
            · exact Or.inr (by simp [walkAny, h'])
          · simp at h
    exact key h
  case map =>
    intro k e ihk ihe skip v h
    have key : walkAny (searchVisit term) skip (.map k e) v = true →
        matchType term (.map k e) = true ∨ walkAny (strLeaf term) skip (.map k e) v = true := by
      intro h
      cases skip <;> simp only [walkAny, Bool.or_eq_true] at h <;>
      · rcases h with h | h
        · simp only [searchVisit, searchType, recordNames, Bool.false_or] at h
          exact Or.inr (by simp [walkAny, h])
        · split at h
          · rename_i _ items _
            have hk : ∀ v, walkAny (searchVisit term) true k v = true →
                (matchType term k = true ∨ matchType term e = true) ∨ walkAny (strLeaf term) true k v = true := by
              intro v hv; rcases ihk true v hv with h1 | h1
              · exact Or.inl (Or.inl h1)
              · exact Or.inr h1
            have he : ∀ v, walkAny (searchVisit term) true e v = true →
                (matchType term k = true ∨ matchType term e = true) ∨ walkAny (strLeaf term) true e v = true := by
              intro v hv; rcases ihe true v hv with h1 | h1
              · exact Or.inl (Or.inr h1)
              · exact Or.inr h1
            rcases vals_anyKV_imp items _ _ _ _ _ hk he h with h' | h'
            · exact Or.inl (by simpa [matchType] using h')
            · exact Or.inr (by simp [walkAny, h'])
          · simp at h
    exact key h
  case union =>
    intro ts ih skip v h
    have key : walkAny (searchVisit term) skip (.union ts) v = true →
        matchType term (.union ts) = true ∨ walkAny (strLeaf term) skip (.union ts) v = true := by
      intro h
      cases skip <;> simp only [walkAny, Bool.or_eq_true] at h <;>
      · rcases h with h | h
        · simp only [searchVisit, searchType, recordNames, Bool.false_or] at h
          exact Or.inr (by simp [walkAny, h])
        · split at h
          · rename_i _ tag x _
            split at h
            · rename_i i hd
              rcases ih i x h with h' | h'
              · exact Or.inl (by simpa [matchType] using h')
              · exact Or.inr (by simp [walkAny, hd, h'])
            · simp at h
          · simp at h
    exact key h
  case named =>
    intro n t ih skip v h
    cases skip
    · simp only [walkAny, Bool.or_eq_true] at h
      rcases h with h | h
      · simp only [searchVisit, Bool.or_eq_true] at h
        rcases h with h | h
        · exact Or.inl (matchType_of_searchType term _ h)
        · exact Or.inr (by simp [walkAny, h])
      · rcases ih false v h with h' | h'
        · exact Or.inl (by simpa [matchType] using h')
        · exact Or.inr (by simp [walkAny, h'])
    · simp only [walkAny] at h
      rcases ih true v h with h' | h'
      · exact Or.inl (by simpa [matchType] using h')
      · exact Or.inr (by simpa [walkAny] using h')
  case error =>
    intro t ih skip v h
    have key : walkAny (searchVisit term) skip (.error t) v = true →
        matchType term (.error t) = true ∨ walkAny (strLeaf term) skip (.error t) v = true := by
      intro h
      cases skip <;> simp only [walkAny, Bool.or_eq_true] at h <;>
      · rcases h with h | h
        · simp only [searchVisit, searchType, recordNames, Bool.false_or] at h
          exact Or.inr (by simp [walkAny, h])
        · rcases ih false v h with h' | h'
          · exact Or.inl (by simpa [matchType] using h')
          · exact Or.inr (by simp [walkAny, h'])
    exact key h
  case nil => intro items h; simp [walkFields] at h
  case cons =>
    intro n t r iht ihr items h
    cases items with
    | nil => simp [walkFields] at h
    | cons x xs =>
      simp only [walkFields, Bool.or_eq_true] at h
      rcases h with h | h
      · rcases iht false x h with h' | h'
        · exact Or.inl (by simp [matchFields, h'])
        · exact Or.inr (by simp [walkFields, h'])
      · rcases ihr xs h with h' | h'
        · exact Or.inl (by simp [matchFields, h'])
        · exact Or.inr (by simp [walkFields, h'])
  case nil => intro n v h; simp [walkUnion] at h
  case cons =>
    intro t r iht ihr n v h
    cases n with
    | zero =>
      simp only [walkUnion] at h
      rcases iht false v h with h' | h'
      · exact Or.inl (by simp [matchTys, h'])
      · exact Or.inr (by simpa [walkUnion] using h')
    | succ m =>
      simp only [walkUnion] at h
      rcases ihr m v h with h' | h'
      · exact Or.inl (by simp [matchTys, h'])
      · exact Or.inr (by simpa [walkUnion] using h')

theorem strLeaf_findBy (term : Bytes) (t : Ty) (v : Val) (h : strLeaf term t v = true) :
    findBy foldEq term (enc v) = true := by
  unfold strLeaf at h
  split at h
  · rename_i _ _ id b _
    simp only [Bool.and_eq_true] at h
    exact findBy_infix foldEq term (enc_prim_infix b) h.2
  · simp at h

/-- `searchString.Eval` true on a value: a leaf name of a record type inside the value's type
    contains the term, or the term occurs (ASCII case folded) in the value's serialisation. -/
theorem searchString_sound (term : Bytes) (t : Ty) (v : Val)
    (h : searchStringEval term t v = true) :
    matchType term t = true ∨ findBy foldEq term (enc v) = true := by
  simp only [searchStringEval, Bool.or_eq_true] at h
  rcases h with h | h
  · exact Or.inl (matchType_of_searchType term t h)
  · have hw : walkAny (searchVisit term) false t v = true := h
    rcases walkAny_search term t false v hw with h' | h'
    · exact Or.inl h'
    · obtain ⟨t', v', hv, hi⟩ := walkAny_infix t (strLeaf term) false v h'
      exact Or.inr (findBy_infix foldEq term hi (strLeaf_findBy term t' v' hv))

/-! ## field access -/

theorem getField_match (term : Bytes) : ∀ (fs : Fields) (items : Vals) (name : Bytes) (t : Ty) (v : Val),
    getField fs items name = some (t, v) → matchType term t = true → matchFields term fs = true
  | .cons n ft r, .cons x xs, name, t, v, h, hs => by
    simp only [getField] at h
    split at h
    · simp only [Option.some.injEq, Prod.mk.injEq] at h
      obtain ⟨rfl, _⟩ := h
      simp [matchFields, hs]
    · have := getField_match term r xs name t v h hs
      simp [matchFields, this]
  | .nil, _, _, _, _, h, _ => by simp [getField] at h
  | .cons _ _ _, .nil, _, _, _, h, _ => by simp [getField] at h

/-- a record type inside a field reached through records is inside the enclosing type. -/
theorem getPath_match (term : Bytes) : ∀ (p : List Bytes) (t : Ty) (v : Val) (t' : Ty) (v' : Val),
    getPath t v p = some (t', v') → matchType term t' = true → matchType term t = true
  | [], t, v, t', v', h, hs => by
    simp only [getPath, Option.some.injEq, Prod.mk.injEq] at h
    obtain ⟨rfl, _⟩ := h; exact hs
  | name :: rest, t, v, t', v', h, hs => by
    simp only [getPath] at h
    split at h
    · rename_i _ _ fs items hu
      split at h
      · rename_i ft fv hgf
        have h1 := getPath_match term rest ft fv t' v' h hs
        have h2 := getField_match term fs items name ft fv hgf h1
        rw [matchType_under t, hu]
        simp [matchType, h2]
      · simp at h
    · simp at h

/-! ## frames -/

theorem encFrame_infix : ∀ (frame : List (Nat × Val)) (m : Nat × Val), m ∈ frame →
    Infix (enc m.2) (encFrame frame)
  | [], _, h => by simp at h
  | (id, v) :: r, m, h => by
    simp only [List.mem_cons] at h
    rcases h with rfl | h
    · exact ⟨uvarint id, encFrame r, by simp [encFrame, encMsg]⟩
    · simp only [encFrame]; exact (encFrame_infix r m h).append_left _

theorem fieldNameFind_of_mem (ctx : Ctx) (term : Bytes) : ∀ (frame : List (Nat × Val)) (m : Nat × Val) (t : Ty),
    m ∈ frame → ctx m.1 = some t → matchType term t = true → fieldNameFind ctx term frame = true
  | [], _, _, h, _, _ => by simp at h
  | (id, v) :: r, m, t, h, hc, hs => by
    simp only [List.mem_cons] at h
    simp only [fieldNameFind, Bool.or_eq_true]
    rcases h with rfl | h
    · left
      simp only [hc]
      split
      · rename_i fs hu
        rw [matchType_under t, hu] at hs; exact hs
      · rfl
    · exact Or.inr (fieldNameFind_of_mem ctx term r m t h hc hs)

theorem Tri.and_eq_tt {a b : Tri} (h : a.and b = .tt) : a = .tt ∧ b = .tt := by
  cases a <;> cases b <;> simp_all [Tri.and]

theorem Tri.or_eq_tt {a b : Tri} (h : a.or b = .tt) : a = .tt ∨ b = .tt := by
  cases a <;> cases b <;> simp_all [Tri.or]

theorem ofBool_eq_tt {b : Bool} (h : ofBool b = .tt) : b = true := by
  cases b <;> simp_all [ofBool]

end Zed.Bf
