/-
  Path replay: `Store.Snapshot` of a commit = snapshot of any ancestor + the actions in between;
  `PatchOfPath` plays exactly those actions.  Ties the patch-level merge / revert theorems to
  pool states.  Helper lemmas for C15.
-/
import Zed.Proofs.LakeUnfold
import Zed.Proofs.LakeRevert
namespace Zed.Lake
variable {K : Type}

theorem pathAt_mid (pre post : List (Commit K)) (co : Commit K) :
    pathAt (pre ++ [co] ++ post) (pre.length + 1) =
      (pre.length + 1) :: (if co.parent < pre.length + 1 then pathAt (pre ++ [co] ++ post) co.parent else []) := by
  have h1 : pathAt (pre ++ [co] ++ post) (pre.length + 1) = (pre.length + 1) :: parentPath (pathsOf pre) co.parent := by
    unfold pathAt
    rw [parentPath_prefix (pre ++ [co]) post _ (by simp)]
    exact pathAt_new pre co
  rw [h1]
  by_cases hp : co.parent < pre.length + 1
  · simp only [hp, if_true]
    congr 1
    unfold pathAt
    rw [List.append_assoc, parentPath_prefix pre _ co.parent (by omega)]
  · simp only [hp, if_false]
    congr 1
    unfold parentPath
    have h0 : co.parent ≠ 0 := by omega
    simp only [h0, if_false]
    have : (pathsOf pre)[co.parent - 1]? = none := by
      rw [List.getElem?_eq_none_iff, pathsOf_length]; omega
    rw [this]; rfl

theorem pathAt_unfold (cs : List (Commit K)) (c : Nat) (co : Commit K) (h : getCommit cs c = some co) :
    pathAt cs c = c :: (if co.parent < c then pathAt cs co.parent else []) := by
  obtain ⟨pre, post, hcs, hc⟩ := getCommit_split cs c co h
  subst hcs; subst hc
  exact pathAt_mid pre post co

theorem pathAt_none (cs : List (Commit K)) (c : Nat) (h : getCommit cs c = none) : pathAt cs c = [] := by
  unfold pathAt parentPath
  by_cases h0 : c = 0
  · simp [h0]
  · simp only [h0, if_false]
    unfold getCommit at h
    simp only [h0, if_false] at h
    have : (pathsOf cs)[c - 1]? = none := by
      rw [List.getElem?_eq_none_iff, pathsOf_length]
      exact List.getElem?_eq_none_iff.mp h
    rw [this]; rfl

theorem pathActions_cons (cs : List (Commit K)) (c : Nat) (l : List Nat) (co : Commit K)
    (h : getCommit cs c = some co) : pathActions cs (c :: l) = pathActions cs l ++ co.acts := by
  unfold pathActions
  simp [List.reverse_cons, List.flatMap_append, h]

/-- **path replay**: the snapshot of a commit is the snapshot of any commit on its parent chain
    with the actions of the commits in between played on it, oldest first -/
theorem snapAt_replay (cs : List (Commit K)) (c : Nat) :
    ∀ anc, anc ∈ pathAt cs c → ∀ S, snapAt cs c = .ok S →
      ∃ B, snapAt cs anc = .ok B ∧
        play B (pathActions cs ((pathAt cs c).takeWhile (· != anc))) = .ok S := by
  induction c using Nat.strongRecOn with
  | ind c ih =>
    intro anc hanc S hS
    cases hg : getCommit cs c with
    | none => rw [pathAt_none cs c hg] at hanc; cases hanc
    | some co =>
      rw [pathAt_unfold cs c co hg] at hanc ⊢
      by_cases hca : c = anc
      · subst hca
        refine ⟨S, hS, ?_⟩
        simp [List.takeWhile_cons, pathActions, play]
      · have hne : (c != anc) = true := by simpa using hca
        simp only [List.takeWhile_cons, hne, if_true]
        simp only [List.mem_cons] at hanc
        rcases hanc with h1 | h1
        · exact absurd h1.symm hca
        · rw [snapAt_unfold cs c co hg] at hS
          by_cases hp : co.parent < c
          · simp only [hp, if_true] at hS h1 ⊢
            cases hps : snapAt cs co.parent with
            | error e => simp [hps] at hS
            | ok S' =>
              simp only [hps] at hS
              obtain ⟨B, hB, hplay⟩ := ih co.parent hp anc h1 S' hps
              refine ⟨B, hB, ?_⟩
              rw [pathActions_cons cs c _ co hg, play_append, hplay]
              exact hS
          · simp only [hp, if_false] at h1
            cases h1

theorem take_findIdx (p : List Nat) (q : Nat → Bool) (i : Nat) (h : p.findIdx? q = some i) :
    p.take i = p.takeWhile (fun x => !q x) := by
  induction p generalizing i with
  | nil => simp at h
  | cons x xs ih =>
    simp only [List.findIdx?_cons] at h
    cases hq : q x
    · simp only [hq, Bool.false_eq_true, if_false, Option.map_eq_some_iff] at h
      obtain ⟨j, hj, hji⟩ := h
      subst hji
      simp [List.takeWhile_cons, hq, ih j hj]
    · simp only [hq, if_true, Option.some.injEq] at h
      subst h
      simp [List.takeWhile_cons, hq]

theorem dropLast_take_succ {α : Type} (l : List α) (i : Nat) (h : i < l.length) :
    (l.take (i + 1)).dropLast = l.take i := by
  rw [List.dropLast_eq_take, List.length_take, List.take_take]
  congr 1
  omega

/-- the commits `PatchOfPath(base, baseID, commit)` plays: those on `commit`'s path before `baseID` -/
theorem pathRange_dropLast (cs : List (Commit K)) (c anc : Nat) (h : anc ∈ pathAt cs c) :
    (pathRange cs c anc).dropLast = (pathAt cs c).takeWhile (· != anc) := by
  unfold pathRange
  simp only []
  cases hf : (pathAt cs c).findIdx? (· == anc) with
  | none =>
    exfalso
    rw [List.findIdx?_eq_none_iff] at hf
    have := hf anc h
    simp at this
  | some i =>
    simp only []
    have hlt : i < (pathAt cs c).length := by
      have := List.findIdx?_eq_some_iff_getElem.mp hf
      exact this.1
    rw [dropLast_take_succ _ _ hlt]
    rw [take_findIdx _ _ i hf]
    congr 1

theorem commonAncestor_mem (a b : List Nat) (h : commonAncestor a b ≠ 0) :
    commonAncestor a b ∈ a ∧ commonAncestor a b ∈ b := by
  unfold commonAncestor at h ⊢
  cases hf : b.find? (a.contains ·) with
  | none => rw [hf] at h; exact absurd rfl h
  | some id =>
    simp only []
    have h1 := List.find?_some hf
    have h2 := List.mem_of_find?_eq_some hf
    exact ⟨by simpa using h1, h2⟩

/-- `PatchOfPath` from an ancestor: the patch and the tip snapshot come from the same actions -/
theorem patchOfPath_replay (cs : List (Commit K)) (c anc : Nat) (hanc : anc ∈ pathAt cs c)
    (S : Snap K) (hS : snapAt cs c = .ok S) :
    ∃ B, snapAt cs anc = .ok B ∧ ∃ A, play B A = .ok S ∧
      patchOfPath cs B anc c = (Patch.new (.snap B)).play A := by
  obtain ⟨B, hB, hplay⟩ := snapAt_replay cs c anc hanc S hS
  refine ⟨B, hB, _, hplay, ?_⟩
  unfold patchOfPath
  simp only [pathRange_dropLast cs c anc hanc]

end Zed.Lake
