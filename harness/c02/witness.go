package main

// The concrete witnesses of the defects recorded in findings/C02.json (and of the Lean
// `not_…` theorems), replayed on the real code on every run.

import (
	"encoding/hex"
	"math"
	"net/netip"
	h "verifharness/hlib"

	zed "github.com/brimdata/super"
)

type witness struct {
	name string
	key  string
	cs   rtCase
}

func hx(b []byte) string { return hex.EncodeToString(b) }

func pv(b []byte) *VSpec { return &VSpec{Hex: hx(b)} }

func named(n string, t *TSpec) *TSpec { return &TSpec{Kind: "named", Name: n, Elems: []*TSpec{t}} }
func arr(t *TSpec) *TSpec             { return &TSpec{Kind: "array", Elems: []*TSpec{t}} }
func set(t *TSpec) *TSpec             { return &TSpec{Kind: "set", Elems: []*TSpec{t}} }
func mapT(k, v *TSpec) *TSpec         { return &TSpec{Kind: "map", Elems: []*TSpec{k, v}} }
func errT(t *TSpec) *TSpec            { return &TSpec{Kind: "error", Elems: []*TSpec{t}} }
func union(ts ...*TSpec) *TSpec       { return &TSpec{Kind: "union", Elems: ts} }
func enum(s ...string) *TSpec         { return &TSpec{Kind: "enum", Syms: s} }
func rec1(n string, t *TSpec) *TSpec {
	return &TSpec{Kind: "record", Fields: []TField{{Name: n, Type: t}}}
}

func one(t *TSpec, v *VSpec) rtCase { return rtCase{Mode: "value", Vals: []tv{{t, v}}} }

func witnesses() []witness {
	i1 := pv(zed.EncodeInt(1))
	p := "C02:roundtrip:"
	return []witness{
		{"-0. is written 0.", p + "float-negative-zero", one(Prim(idFloat64), pv(zed.EncodeFloat64(math.Copysign(0, -1))))},
		{"%a (e=enum(a,b))", p + "named-enum-value", one(named("e", enum("a", "b")), &VSpec{Tag: 0})},
		{"[] of type [int64]", p + "empty-container-undecorated", one(arr(Prim(idInt64)), &VSpec{})},
		{"|{}| of type |{string:int32}|", p + "empty-container-undecorated", one(mapT(Prim(idString), Prim(idInt32)), &VSpec{})},
		{"%a b (enum(\"a b\"))", p + "enum-symbol-not-identifier", one(enum("a b"), &VSpec{Tag: 0})},
		{"null of type [\"a b\"=int64]", p + "type-name-needs-quotes", one(arr(named("a b", Prim(idInt64))), &VSpec{Null: true})},
		{"null of type [error=int64]", p + "type-name-keyword", one(arr(named("error", Prim(idInt64))), &VSpec{Null: true})},
		{"null of type [.a=int64]", p + "type-name-leading-dot", one(arr(named(".a", Prim(idInt64))), &VSpec{Null: true})},
		{"::ffff:1.2.3.4", p + "ip-v4-mapped", one(Prim(idIP), pv(zed.EncodeIP(netip.MustParseAddr("::ffff:1.2.3.4"))))},
		{"::ffff:1.2.3.0/120", p + "net-v4-mapped", one(Prim(idNet), pv(zed.EncodeNet(netip.MustParsePrefix("::ffff:1.2.3.0/120"))))},
		{"|{1.2.3.4:1970-01-01T00:00:00Z}|", p + "map-entry-lexer-ambiguity", one(mapT(Prim(idIP), Prim(idTime)),
			&VSpec{Elems: []*VSpec{pv(zed.EncodeIP(netip.MustParseAddr("1.2.3.4"))), pv(zed.EncodeInt(0))}})},
		{"1 of type x=(x=int64)", p + "named-over-same-name", one(named("x", named("x", Prim(idInt64))), i1)},
		{"1 of type z=(y=int64)", p + "named-over-named", one(named("z", named("y", Prim(idInt64))), i1)},
		{"{a:null(z=int64),b:{c:1(uint8)}(z={c:uint8})}", p + "same-name-two-types", one(&TSpec{Kind: "record", Fields: []TField{
			{Name: "a", Type: named("z", Prim(idInt64))}, {Name: "b", Type: named("z", rec1("c", Prim(idUint8)))}}},
			&VSpec{Elems: []*VSpec{{Null: true}, {Elems: []*VSpec{pv(zed.EncodeUint(1))}}}})},
		{"{a:1(t=uint8),b:<t=int8>,c:2(t)}", p + "type-value-rebinds-name", one(&TSpec{Kind: "record", Fields: []TField{
			{Name: "a", Type: named("t", Prim(idUint8))}, {Name: "b", Type: Prim(idType)}, {Name: "c", Type: named("t", Prim(idUint8))}}},
			&VSpec{Elems: []*VSpec{pv(zed.EncodeUint(1)), {T: named("t", Prim(idInt8))}, pv(zed.EncodeUint(2))}})},
		{"[1(int32),\"a\"](=x) then [1,\"a\"](x)", p + "known-name-union-elements-undecorated", rtCase{Mode: "format", Vals: []tv{
			{named("x", arr(union(Prim(idInt32), Prim(idString)))), &VSpec{Elems: []*VSpec{{Tag: 0, Elems: []*VSpec{i1}}, {Tag: 1, Elems: []*VSpec{pv([]byte("a"))}}}}},
			{named("x", arr(union(Prim(idInt32), Prim(idString)))), &VSpec{Elems: []*VSpec{{Tag: 0, Elems: []*VSpec{i1}}, {Tag: 1, Elems: []*VSpec{pv([]byte("a"))}}}}}}}},
		{"[1] of type x=[(int64,string)]", p + "named-partial-union-container", one(named("x", arr(union(Prim(idInt64), Prim(idString)))),
			&VSpec{Elems: []*VSpec{{Tag: 0, Elems: []*VSpec{i1}}}})},
		{"[1(x=int32)] of type [(int64,x=int32)]", p + "typedef-in-value-used-by-decorator", one(arr(union(Prim(idInt64), named("x", Prim(idInt32)))),
			&VSpec{Elems: []*VSpec{{Tag: 1, Elems: []*VSpec{i1}}}})},
		{"error({b:1(int32)((int32,int64))})", p + "union-field-under-decorator", one(errT(rec1("b", union(Prim(idInt32), Prim(idInt64)))),
			&VSpec{Elems: []*VSpec{{Tag: 0, Elems: []*VSpec{i1}}}})},
		{"error(\"a\"(=x)) of type error((int64,x=string))", p + "short-typedef-under-decorator", one(errT(union(Prim(idInt64), named("x", Prim(idString)))),
			&VSpec{Tag: 1, Elems: []*VSpec{pv([]byte("a"))}})},
	}
}

var jsonWitnesses = []struct{ key, text string }{
	{"C02:json:duplicate-key", `{"a":1,"a":"x"}`},
	{"C02:json:integer-above-int64", `9223372036854775808`},
	{"C02:json:lone-surrogate-escape", `"\udc00"`},
	{"C02:json:surrogate-pair-escape", `"é\ud83d\ude00"`},
}

// witnessRT replays every recorded witness; each one that still fails is reported under its
// key (KNOWN-FINDING), each one that no longer fails is noted (the defect is gone).
func witnessRT(c *h.Ctx) {
	for _, w := range witnesses() {
		cs := w.cs
		res := runRT(&cs)
		c.Eval("witness:" + w.name)
		if res.ok {
			c.Note("witness %q (%s) round-trips now: the recorded defect is gone", w.name, w.key)
			c.Stat("witness:fixed")
			continue
		}
		got := classifyRT(&cs, res)
		c.Stat("witness:reproduced")
		kind := "oracle"
		if res.panic {
			kind = "panic"
		}
		if got != w.key {
			// the witness fails, but not the way it is recorded: report what it is now
			c.Fail(kind, got, "witness "+w.name+" (recorded as "+w.key+"): "+res.class+": "+res.detail+"; text="+clip(res.text, 200), replayObj{Check: "oracle", RT: &cs})
			continue
		}
		c.Fail(kind, w.key, "witness "+w.name+": "+res.class+": "+res.detail+"; text="+clip(res.text, 200), replayObj{Check: "oracle", RT: &cs})
	}
	for _, w := range jsonWitnesses {
		c.Eval("witness:" + w.text)
		before := len(c.Res.Failures)
		jsonText(c, w.text)
		if len(c.Res.Failures) == before {
			c.Note("JSON witness %s (%s) is read alike by both readers now: the recorded defect is gone", w.text, w.key)
			c.Stat("witness:fixed")
		} else {
			c.Stat("witness:reproduced")
		}
	}
}
