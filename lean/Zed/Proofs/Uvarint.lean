import Zed.Model.TyContext
namespace Zed
open Zcode List

theorem byte_toNat (n : Nat) (h : n < 256) : (UInt8.ofNat n).toNat = n := by
  simp [UInt8.toNat_ofNat, Nat.mod_eq_of_lt h]

theorem readUvarintAux_uvarintF : (k : Nat) → (f : Nat) → (n i acc sh : Nat) → (rest : Bytes) →
    n < 128 ^ (k + 1) → k + 1 ≤ f → i + k ≤ 8 →
    readUvarintAux i acc sh (uvarintF f n ++ rest) = some (acc + n * 2 ^ sh, rest)
  | _, 0, _, _, _, _, _, _, hf, _ => by omega
  | k, f+1, n, i, acc, sh, rest, hn, hf, hi => by
    by_cases h : n < 128
    · simp only [uvarintF, h, if_true, singleton_append, readUvarintAux]
      have hb := byte_toNat n (by omega)
      rw [hb]
      have h1 : ¬ i = 10 := by omega
      have h2 : ¬ (i = 9 ∧ n > 1) := by omega
      simp [h1, h, h2]
    · simp only [uvarintF, h, if_false, cons_append, readUvarintAux]
      have hb := byte_toNat (n % 128 + 128) (by omega)
      rw [hb]
      have h1 : ¬ i = 10 := by omega
      have h3 : ¬ (n % 128 + 128 < 128) := by omega
      simp only [h1, h3, if_false]
      cases k with
      | zero => simp at hn; omega
      | succ k' =>
        have hn' : n / 128 < 128 ^ (k' + 1) := by
          rw [Nat.div_lt_iff_lt_mul (by decide)]
          calc n < 128 ^ (k' + 1 + 1) := hn
            _ = 128 ^ (k' + 1) * 128 := by rw [Nat.pow_succ]
        rw [readUvarintAux_uvarintF k' f (n / 128) (i + 1) _ (sh + 7) rest hn' (by omega) (by omega)]
        congr 2
        have e1 : (n % 128 + 128) % 128 = n % 128 := by omega
        rw [e1, Nat.pow_add]
        have := Nat.div_add_mod n 128
        have e2 : n / 128 * (2 ^ sh * 2 ^ 7) = 128 * (n / 128) * 2 ^ sh := by
          rw [show (2:Nat) ^ 7 = 128 from rfl]; rw [Nat.mul_comm (2 ^ sh) 128, ← Nat.mul_assoc, Nat.mul_comm (n / 128) 128]
        rw [e2, Nat.add_assoc, ← Nat.add_mul, Nat.add_comm (n % 128), this]

theorem readUvarint_uvarint (n : Nat) (rest : Bytes) (h : n < 2 ^ 63) :
    readUvarint (uvarint n ++ rest) = some (n, rest) := by
  unfold readUvarint uvarint
  have := readUvarintAux_uvarintF 8 20 n 0 0 0 rest (by simpa using h) (by decide) (by decide)
  simpa using this

theorem decodeLength_uvarint (n : Nat) (rest : Bytes) (h : n < 2 ^ 63) :
    decodeLength (uvarint n ++ rest) = some (n, rest) := by
  unfold decodeLength
  rw [readUvarint_uvarint n rest h]
  simp [h]

theorem decodeName_encodeName (nm : Name) (rest : Bytes) (h : nm.length < 2 ^ 63) :
    decodeName (encodeName nm ++ rest) = some (nm, rest) := by
  unfold decodeName encodeName
  rw [append_assoc, decodeLength_uvarint _ _ h]
  simp

theorem uvarint_ne_nil (n : Nat) : uvarint n ≠ [] := by
  show uvarintF (19 + 1) n ≠ []
  rw [uvarintF]; split <;> simp

theorem uvarint_length_pos (n : Nat) : 0 < (uvarint n).length := by
  have := uvarint_ne_nil n
  cases h : uvarint n <;> simp_all

end Zed
