import Zed.Proofs.ZsonRoundtrip3
/-!
  C02 — a first-occurrence value of a *named* type over a plain type (`value (=n)` for
  self-describing types, `value (n=type)` otherwise): the formatter's typedef table and the
  analyzer's name table receive the same binding.
-/
namespace Zed.Zson
open Generated

/-- no decorator follows a (non-null, non-empty) value of a self-describing plain type whose
    union element types are fully populated. -/
theorem selfdesc_ds (fst : FState) (t : Ty) (v : Val) (pi : Bool) (hs : selfDescribing t = true)
    (hp : plainTy t = true) (hv : wfVal t v = true) (hn : v.isNull = false) (hb : bareEmpty v = false)
    (hod : noOwnDeco t v = true) :
    (fmtValue fst t v false pi true false).2.2 = [] := by
  have hd : decoP t false = [] := decoP_selfdesc t hs
  cases v with
  | null => simp [Val.isNull] at hn
  | prim text =>
    cases t with
    | prim id => simp [fmtValue, finish, decorateM_plain fst _ false hp, hd]
    | _ => simp [wfVal] at hv
  | typeval ty =>
    cases t with
    | prim id => simp [fmtValue, finish, decorateM_plain fst _ false hp, hd]
    | _ => simp [wfVal] at hv
  | enum sel =>
    cases t with
    | enum syms => simp [selfDescribing, implied] at hs
    | _ => simp [wfVal] at hv
  | record vs =>
    cases t with
    | record fs => simp [fmtValue, finish, decorateM_plain _ _ false hp, hd]
    | _ => simp [wfVal] at hv
  | array vs =>
    cases t with
    | array et =>
      cases vs with
      | nil => simp [bareEmpty] at hb
      | cons x r =>
        simp only [noOwnDeco, Bool.not_eq_true'] at hod
        simp [fmtValue, finish, decorateM_plain _ _ false hp, hd, hod]
    | _ => simp [wfVal] at hv
  | set vs =>
    cases t with
    | set et =>
      cases vs with
      | nil => simp [bareEmpty] at hb
      | cons x r =>
        simp only [noOwnDeco, Bool.not_eq_true'] at hod
        simp [fmtValue, finish, decorateM_plain _ _ false hp, hd, hod]
    | _ => simp [wfVal] at hv
  | map es =>
    cases t with
    | map kt vt =>
      cases es with
      | nil => simp [bareEmpty] at hb
      | cons k x r =>
        simp only [noOwnDeco, Bool.not_eq_true', Bool.or_eq_false_iff] at hod
        simp [fmtValue, finish, decorateM_plain _ _ false hp, hd, hod.1, hod.2]
    | _ => simp [wfVal] at hv
  | union tag inner =>
    cases t with
    | union ts => simp [selfDescribing, implied] at hs
    | _ => simp [wfVal] at hv
  | error v' =>
    cases t with
    | error u => simp [fmtValue, finish, decorateM_plain _ _ false hp, hd]
    | _ => simp [wfVal] at hv
  | named v' =>
    cases t with
    | named n u => simp [plainTy] at hp
    | _ => simp [wfVal] at hv

theorem enterTypeDef_ok (a0 : AState) (n : Name) (u : Ty) (h : nameOK n = true) :
    enterTypeDef a0 n u = .ok (aPush a0 n (.named n u), some (.named n u)) := by
  simp only [nameOK, Bool.and_eq_true, Bool.not_eq_true', Option.isNone_iff_eq_none] at h
  simp [enterTypeDef, h.1.2, h.2, aPush]

theorem nameOf_unbound (fst : FState) (n : Name) (u : Ty) (h : fst.hasName (.named n u) = false) :
    fst.nameOf (.named n u) = none := by
  simp only [FState.hasName, Bool.or_eq_false_iff, Option.isSome_eq_false_iff, Option.isNone_iff_eq_none] at h
  by_cases hn : n = []
  · simp [FState.nameOf, hn]
  · cases hp : fst.permanent with
    | none => simp [FState.nameOf, hn, h.1, hp]
    | some p =>
      have := h.2
      simp only [hp, Option.isSome_eq_false_iff, Option.isNone_iff_eq_none] at this
      simp [FState.nameOf, hn, h.1, hp, this]

/-- a first-occurrence value of a named type over a self-describing plain type: `value (=n)`. -/
theorem named_top_selfdesc (fst : FState) (a0 : AState) (n : Name) (u : Ty) (v' : Val)
    (hok : nameOK n = true) (hs : selfDescribing u = true) (hp : plainTy u = true) (hw : wfTy u = true)
    (hv : wfVal u v' = true) (hn : v'.isNull = false) (hb : bareEmpty v' = false)
    (hod : noOwnDeco u v' = true) (herr : errOK v' = true) (hfst : fst.hasName (.named n u) = false) :
    (fmtTop fst (.named n u) (.named v')).1 = fst.saveType n (.named n u) ∧
    analyzeTop a0 (fmtTop fst (.named n u) (.named v')).2 =
      .ok (aPush a0 n (.named n u), (.named n u, .named v')) := by
  obtain ⟨any, ds, hf, _, hA, _⟩ := goodV_all v' u false hp hw hv herr false fst a0
  have hds : ds = [] := by
    have := selfdesc_ds fst u v' false hs hp hv hn hb hod
    rw [hf] at this; exact this
  subst hds
  have hsplit := fmt_deco_split fst u v' false hp hv hn hb
  rw [hf, decoP_selfdesc u hs] at hsplit
  have h1 : (fmtValue fst u v' false false false false).1 = fst := by
    have := congrArg (·.1) hsplit; simpa using this.symm
  have h2 : (fmtValue fst u v' false false false false).2.1 = any := by
    have := congrArg (·.2.1) hsplit; simpa using this.symm
  have h3 : (fmtValue fst u v' false false false false).2.2 = [] := by
    have := congrArg (·.2.2) hsplit; simpa using this.symm
  have hfmt : fmtTop fst (.named n u) (.named v') = (fst.saveType n (.named n u), .def_ any n) := by
    unfold fmtTop
    simp only [hfst, implied, Val.isNull]
    simp only [fmtValue, Bool.false_and, Bool.false_eq_true, if_false, hfst, Bool.or_self, finish]
    rw [show fmtValue fst u v' false false false false = (fst, any, []) from Prod.ext h1 (Prod.ext h2 h3)]
    simp [decorateM, implied, nameOf_unbound fst n u hfst, selfDescribing, hs, mkVal, wrapDecos]
  rw [hfmt]
  refine ⟨rfl, ?_⟩
  have hany : convertAny a0 any none = .ok (a0, (u, strip v')) := by
    simpa [convertValue, viaUnion, expA] using hA
  have hwf : wfVal (.named n u) (.named v') = true := by
    have : v' ≠ .null := by cases v' <;> simp_all [Val.isNull]
    simp [wfVal, hv, this]
  simp only [analyzeTop, convertValue, viaUnion, hany, bind, Except.bind, enterTypeDef_ok a0 n u hok, pure,
    Except.pure, Except.map]
  have := wrapAll_strip (.named v') (.named n u) hwf
  simp only [strip] at this
  rw [this]


theorem fmtType_named_unbound (fst : FState) (n : Name) (u : Ty) (h : fst.nameOf (.named n u) = none)
    (hp : plainTy u = true) :
    fmtType fst (.named n u) = (fst.saveType n (.named n u), .def_ n (tyAst u)) := by
  rw [fmtType]
  simp only [h]
  rw [fmtType_plain _ u hp]

theorem convertType_def (a0 : AState) (n : Name) (u : Ty) (hok : nameOK n = true) (hp : plainTy u = true)
    (hw : wfTy u = true) :
    convertType a0 (.def_ n (tyAst u)) = .ok (aPush a0 n (.named n u), .named n u) := by
  simp [convertType, convertType_plain a0 u hp hw, enterTypeDef_ok a0 n u hok, bind, Except.bind, pure, Except.pure]

/-- a first-occurrence value of a named type over a primitive type that is not implied:
    `text (n=prim)`. -/
theorem named_top_prim (fst : FState) (a0 : AState) (n : Name) (id : Nat) (text : Bytes)
    (hok : nameOK n = true) (hni : id ∉ C02.impliedPrims) (hv : wfVal (.prim id) (.prim text) = true)
    (hfst : fst.hasName (.named n (.prim id)) = false) :
    (fmtTop fst (.named n (.prim id)) (.named (.prim text))).1 = fst.saveType n (.named n (.prim id)) ∧
    analyzeTop a0 (fmtTop fst (.named n (.prim id)) (.named (.prim text))).2 =
      .ok (aPush a0 n (.named n (.prim id)), (.named n (.prim id), .named (.prim text))) := by
  have hv' := hv
  simp only [wfVal, primOK, Bool.and_eq_true, bne_iff_ne, ne_eq] at hv'
  obtain ⟨⟨⟨hvalid, _⟩, _⟩, hcls⟩ := hv'
  cases hl : lookupPrimitive (lexClass id text) with
  | none => simp [hl] at hcls
  | some cid =>
    simp only [hl, Bool.and_eq_true, bne_iff_ne, ne_eq] at hcls
    obtain ⟨⟨hcast, hcn⟩, _⟩ := hcls
    have hp : plainTy (.prim id) = true := rfl
    have hw : wfTy (.prim id) = true := by simpa [wfTy] using hvalid
    have hfmt : fmtTop fst (.named n (.prim id)) (.named (.prim text)) =
        (fst.saveType n (.named n (.prim id)),
          .cast (.implied (.prim (lexClass id text) text)) (.def_ n (.prim (primName id)))) := by
      unfold fmtTop
      simp only [hfst, implied, Val.isNull]
      simp [fmtValue, hfst, finish, decorateM, implied, nameOf_unbound fst n _ hfst, selfDescribing, hni,
        fmtType, mkVal, wrapDecos]
    rw [hfmt]
    refine ⟨by simp, ?_⟩
    have hT := convertType_def a0 n (.prim id) hok hp hw
    simp only [tyAst] at hT
    have hany : convertAny (aPush a0 n (.named n (.prim id))) (.prim (lexClass id text) text)
        (some (.named n (.prim id))) =
        .ok (aPush a0 n (.named n (.prim id)), (.named n (.prim id), .prim text)) := by
      have : (if lexClass id text = ascii "string" then enumSyms (Ty.named n (Ty.prim id)) else none) = none := by
        split <;> rfl
      simp [convertAny, hl, this, Ty.id, hcast, hcn]
    simp only [analyzeTop, convertValue, preDefs, pure, Except.pure, bind, Except.bind, hT, castStep, typeCheck,
      Ty.under, unionMembers, viaUnion, hany, Except.map]
    simp [wrapAll]

theorem convertUnion_cast (tv : TV) (ms : Tys) (c1 c2 : Ty) (x : Val)
    (h : convertUnion tv ms c1 = .ok (c1, x)) : convertUnion tv ms c2 = .ok (c2, x) := by
  unfold convertUnion at h ⊢
  by_cases hn : tv.1 = tyNull
  · simp only [hn, if_true] at h ⊢
    simp only [Except.ok.injEq, Prod.mk.injEq] at h
    simp [h.2]
  · simp only [hn, if_false] at h ⊢
    cases hi : ms.indexOf tv.1 with
    | none => simp [hi] at h
    | some k =>
      simp only [hi, Except.ok.injEq, Prod.mk.injEq] at h ⊢
      exact ⟨trivial, h.2⟩

/-- a first-occurrence value of a named union type: `member (n=(…))`. -/
theorem named_top_union (fst : FState) (a0 : AState) (n : Name) (ts : Tys) (tag : Nat) (inner : Val)
    (hok : nameOK n = true) (hp : plainTy (.union ts) = true) (hw : wfTy (.union ts) = true)
    (hv : wfVal (.union ts) (.union tag inner) = true) (herr : errOK inner = true)
    (hfst : fst.hasName (.named n (.union ts)) = false) :
    (fmtTop fst (.named n (.union ts)) (.named (.union tag inner))).1 = fst.saveType n (.named n (.union ts)) ∧
    analyzeTop a0 (fmtTop fst (.named n (.union ts)) (.named (.union tag inner))).2 =
      .ok (aPush a0 n (.named n (.union ts)), (.named n (.union ts), .named (.union tag inner))) := by
  have hv' := hv
  simp only [wfVal, Bool.and_eq_true, bne_iff_ne, ne_eq] at hv'
  cases hg : ts.get? tag with
  | none => simp [hg] at hv'
  | some m =>
    simp only [hg] at hv'
    have hpm := plainTys_get ts tag m (by simpa [plainTy] using hp) hg
    have hwm := wfTys_get ts tag m (by simp only [wfTy, Bool.and_eq_true] at hw; exact hw.1.1) hg
    have hw' := hw
    simp only [wfTy, Bool.and_eq_true, decide_eq_true_eq] at hw'
    have hchain := hw'.2
    obtain ⟨any, ds, hf, hd, hA, _⟩ :=
      goodV_all inner m false hpm hwm hv'.2 herr true fst (aPush a0 n (.named n (.union ts)))
    have hmn : m ≠ tyNull := by
      intro h; subst h; exact hv'.1 (wf_tyNull inner hv'.2)
    have hidx := indexOf_get? ts tag m hchain hg
    have hfmt : fmtTop fst (.named n (.union ts)) (.named (.union tag inner)) =
        (fst.saveType n (.named n (.union ts)), .cast (mkVal any ds) (.def_ n (tyAst (.union ts)))) := by
      unfold fmtTop
      simp only [hfst, implied, Val.isNull]
      simp only [fmtValue, Bool.false_and, Bool.false_eq_true, if_false, hfst, Bool.or_self, finish, hg,
        Option.getD_some, hf]
      simp only [decorateM, Bool.false_or, implied, Bool.and_false, Bool.false_eq_true, if_false,
        nameOf_unbound fst n _ hfst, selfDescribing, Bool.false_and]
      rw [fmtType_named_unbound fst n _ (nameOf_unbound fst n _ hfst) hp]
      simp only
      rw [mkVal_append_cast any _ ds (fun x hx => (hd x hx).isCast)]
    rw [hfmt]
    refine ⟨by simp, ?_⟩
    have hT := convertType_def a0 n (.union ts) hok hp hw
    have hu : unionMembers (Ty.named n (Ty.union ts)).under = some ts := rfl
    have hexp : expA m inner false = (m, strip inner) := by simp [expA]
    have hcu : convertUnion (m, strip inner) ts (.named n (.union ts)) =
        .ok (.named n (.union ts), .union tag (strip inner)) := by
      simp [convertUnion, hmn, hidx]
    have hwf : wfVal (.named n (.union ts)) (.named (.union tag inner)) = true := by
      simp [wfVal, hg, hv'.1, hv'.2]
    simp only [analyzeTop, convertValue, preDefs_mkVal a0 any ds hd, pure, Except.pure, bind, Except.bind, hT,
      castStep, typeCheck, hu, hA, hexp, hcu, Except.map]
    have := wrapAll_strip (.named (.union tag inner)) (.named n (.union ts)) hwf
    simp only [strip] at this
    rw [this]


/-- a first-occurrence value of a named error type that is not implied: `error(…) (n=error(T))`. -/
theorem named_top_error (fst : FState) (a0 : AState) (n : Name) (x : Ty) (w : Val)
    (hok : nameOK n = true) (hp : plainTy x = true) (hw : wfTy x = true) (hni : implied x = false)
    (hv : wfVal x w = true) (hnn : w.isNull = false) (hbe : bareEmpty w = false) (herr : errOK w = true)
    (hfst : fst.hasName (.named n (.error x)) = false) :
    (fmtTop fst (.named n (.error x)) (.named (.error w))).1 = fst.saveType n (.named n (.error x)) ∧
    analyzeTop a0 (fmtTop fst (.named n (.error x)) (.named (.error w))).2 =
      .ok (aPush a0 n (.named n (.error x)), (.named n (.error x), .named (.error w))) := by
  have hI := goodV_all w x false hp hw hv herr
  have hpe : plainTy (.error x) = true := by simpa [plainTy] using hp
  have hwe : wfTy (.error x) = true := by simpa [wfTy] using hw
  obtain ⟨any, ds0, hf, hd0, hB0, _⟩ :=
    error_inner x w false fst (aPush a0 n (.named n (.error x))) hp hw hnn hv hbe hI
  have hfmt : fmtTop fst (.named n (.error x)) (.named (.error w)) =
      (fst.saveType n (.named n (.error x)),
        .cast (.implied (.error (mkVal any ds0))) (.def_ n (tyAst (.error x)))) := by
    unfold fmtTop
    simp only [hfst, implied, Val.isNull]
    simp only [fmtValue, Bool.false_and, Bool.false_eq_true, if_false, hfst, Bool.or_self, finish,
      hasName_plain fst _ hpe, hf]
    simp only [decorateM, Bool.false_or, implied, Bool.and_false, Bool.false_eq_true, if_false,
      nameOf_unbound fst n _ hfst, selfDescribing, hni, Bool.false_and, Bool.and_self]
    rw [fmtType_named_unbound fst n _ (nameOf_unbound fst n _ hfst) hpe]
    simp [mkVal, wrapDecos]
  rw [hfmt]
  refine ⟨by simp, ?_⟩
  have hT := convertType_def a0 n (.error x) hok hpe hwe
  have hu : unionMembers (Ty.named n (Ty.error x)).under = none := rfl
  have hany : convertAny (aPush a0 n (.named n (.error x))) (.error (mkVal any ds0)) (some (.named n (.error x))) =
      .ok (aPush a0 n (.named n (.error x)), (.named n (.error x), .error (strip w))) := by
    simp [convertAny, Ty.under, hB0, bind, Except.bind, pure, Except.pure]
  have hwf : wfVal (.named n (.error x)) (.named (.error w)) = true := by
    have : w ≠ .null := by cases w <;> simp_all [Val.isNull]
    simp [wfVal, hv, this]
  have hwrap := wrapAll_strip (.named (.error w)) (.named n (.error x)) hwf
  simp only [strip] at hwrap
  simp only [analyzeTop, convertValue, preDefs, pure, Except.pure, bind, Except.bind, hT, castStep, typeCheck,
    hu, viaUnion, hany, Except.map, hwrap]

/-- all three shapes together. -/
theorem named_top (fst : FState) (a0 : AState) (n : Name) (u : Ty) (v' : Val)
    (hok : nameOK n = true) (hp : plainTy u = true) (hw : wfTy u = true)
    (hv : wfVal u v' = true) (hn : v'.isNull = false) (hb : bareEmpty v' = false)
    (hod : noOwnDeco u v' = true) (hen : enumSyms u = none) (herr : errOK v' = true)
    (hfst : fst.hasName (.named n u) = false) :
    (fmtTop fst (.named n u) (.named v')).1 = fst.saveType n (.named n u) ∧
    analyzeTop a0 (fmtTop fst (.named n u) (.named v')).2 =
      .ok (aPush a0 n (.named n u), (.named n u, .named v')) := by
  by_cases hs : selfDescribing u = true
  · exact named_top_selfdesc fst a0 n u v' hok hs hp hw hv hn hb hod herr hfst
  · cases u with
    | prim id =>
      have hni : id ∉ C02.impliedPrims := by simpa [selfDescribing, implied] using hs
      cases v' with
      | prim text => exact named_top_prim fst a0 n id text hok hni hv hfst
      | typeval ty =>
        simp only [wfVal, Bool.and_eq_true, beq_iff_eq] at hv
        exact absurd (hv.1.1 ▸ implied_idType) hni
      | null => simp [Val.isNull] at hn
      | _ => simp [wfVal] at hv
    | union ts =>
      cases v' with
      | union tag inner => exact named_top_union fst a0 n ts tag inner hok hp hw hv (by simpa [errOK] using herr) hfst
      | null => simp [Val.isNull] at hn
      | _ => simp [wfVal] at hv
    | enum syms => simp [enumSyms] at hen
    | record fs => simp [selfDescribing] at hs
    | array t => simp [selfDescribing] at hs
    | set t => simp [selfDescribing] at hs
    | map k v => simp [selfDescribing] at hs
    | error x =>
      have hni : implied x = false := by simpa [selfDescribing, implied] using hs
      cases v' with
      | error w =>
        simp only [wfVal, Bool.and_eq_true, bne_iff_ne, ne_eq] at hv
        simp only [errOK, Bool.and_eq_true, Bool.not_eq_true'] at herr
        have hnw : w.isNull = false := by cases w <;> simp_all [Val.isNull]
        exact named_top_error fst a0 n x w hok (by simpa [plainTy] using hp) (by simpa [wfTy] using hw) hni hv.2 hnw
          herr.1 herr.2 hfst
      | null => simp [Val.isNull] at hn
      | _ => simp [wfVal] at hv
    | named m t => simp [plainTy] at hp

end Zed.Zson
