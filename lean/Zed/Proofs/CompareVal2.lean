import Zed.Proofs.CompareVal1
namespace Zed
open Zed.Ord

def shapeIdx : Val → Nat
  | .null _ => 0 | .num _ _ => 1 | .bool _ _ => 2 | .bytes _ _ => 3 | .string _ _ => 4
  | .ip _ _ => 5 | .typ _ _ => 6 | .seq _ _ => 7 | .raw _ _ => 8

def tyShape (t : Ty) : Nat :=
  match t.primId? with
  | some id =>
    if isNumberId id then 1 else if id = idBool then 2 else if id = idBytes then 3
    else if id = idString then 4 else if id = idIP then 5 else if id = idType then 6 else 8
  | none => if t.inner?.isSome then 7 else 8

theorem ids_facts : idBool = 23 ∧ idBytes = 24 ∧ idString = 25 ∧ idIP = 26 ∧ idType = 28 := by decide

theorem isNumberId_iff (id : Nat) : isNumberId id = true ↔ id ≤ 22 := by
  simp [isNumberId, evalBounds, evalBound, Generated.C06.isNumber]; omega

theorem primId_inner_none {t : Ty} {id : Nat} (h : t.primId? = some id) : t.inner? = none := by
  unfold Ty.primId? at h; unfold Ty.inner?
  cases hu : t.under <;> simp [hu] at h ⊢

theorem shape_of_ok (v : Val) (h : v.ok = true) (hn : v.isNull = false) : shapeIdx v = tyShape v.ty := by
  obtain ⟨h1, h2, h3, h4, h5⟩ := ids_facts
  cases v with
  | null t => simp [Val.isNull] at hn
  | num t n =>
    simp only [Val.ok] at h
    cases hp : t.primId? with
    | none => simp [hp] at h
    | some id => simp [hp] at h; simp [shapeIdx, tyShape, Val.ty, hp, h.1]
  | bool t x =>
    simp only [Val.ok, beq_iff_eq] at h
    simp [shapeIdx, tyShape, Val.ty, h, isNumberId_iff, h1]
  | bytes t x =>
    simp only [Val.ok, beq_iff_eq] at h
    simp [shapeIdx, tyShape, Val.ty, h, isNumberId_iff, h1, h2]
  | string t x =>
    simp only [Val.ok, beq_iff_eq] at h
    simp [shapeIdx, tyShape, Val.ty, h, isNumberId_iff, h1, h2, h3]
  | ip t x =>
    simp only [Val.ok, Bool.and_eq_true, beq_iff_eq] at h
    simp [shapeIdx, tyShape, Val.ty, h.1, isNumberId_iff, h1, h2, h3, h4]
  | typ t x =>
    simp only [Val.ok, beq_iff_eq] at h
    simp [shapeIdx, tyShape, Val.ty, h, isNumberId_iff, h1, h2, h3, h4, h5]
  | seq t es =>
    simp only [Val.ok] at h
    cases hi : t.inner? with
    | none => simp [hi] at h
    | some e =>
      have : t.primId? = none := by
        cases hp : t.primId? with
        | none => rfl
        | some id => rw [primId_inner_none hp] at hi; simp at hi
      simp [shapeIdx, tyShape, Val.ty, hi, this]
  | raw t x =>
    simp only [Val.ok, Bool.and_eq_true] at h
    cases hp : t.primId? with
    | none => simp [shapeIdx, tyShape, Val.ty, hp, Option.isNone_iff_eq_none.mp h.1]
    | some id =>
      simp [hp, specialPrim] at h
      simp [shapeIdx, tyShape, Val.ty, hp, h.2.1, h.2.2]

theorem tyShape_under (s t : Ty) (h : s.under = t.under) : tyShape s = tyShape t := by
  unfold tyShape Ty.primId? Ty.inner?; rw [h]

end Zed
namespace Zed
open Zed.Ord

theorem vk_ty_of {v : Val} {u : Ty} (h : vk v = .ty u) : v.isNull = false ∧ v.ty.isNumber = false ∧ v.ty.under = u := by
  unfold vk at h
  split at h
  · simp at h
  · split at h
    · simp at h
    · simp only [VK.ty.injEq] at h
      exact ⟨by simpa using ‹¬ v.isNull = true›, by simpa using ‹¬ v.ty.isNumber = true›, h⟩

theorem vk_num_of {v : Val} (h : vk v = .num) : v.isNull = false ∧ v.ty.isNumber = true := by
  unfold vk at h
  split at h
  · simp at h
  · split at h
    · exact ⟨by simpa using ‹¬ v.isNull = true›, ‹_›⟩
    · simp at h

theorem num_of_ok {v : Val} (h : v.ok = true) (hk : vk v = .num) : ∃ t n, v = .num t n := by
  obtain ⟨hn, hnum⟩ := vk_num_of hk
  have hs := shape_of_ok v h hn
  obtain ⟨i, hu, hi⟩ := isNumber_under hnum
  have : tyShape v.ty = 1 := by simp [tyShape, Ty.primId?, hu, hi]
  rw [this] at hs
  cases v <;> simp [shapeIdx] at hs
  exact ⟨_, _, rfl⟩

theorem num_ok_isNumber {t : Ty} {n : Num} (h : (Val.num t n).ok = true) : t.isNumber = true := by
  simp only [Val.ok] at h
  cases hp : t.primId? with
  | none => simp [hp] at h
  | some id => simp [hp] at h; simp [Ty.isNumber, hp, h.1]

theorem bool_STr (x y z : Bool) :
    STr (if x = y then .eq else if x then .gt else .lt) (if y = z then .eq else if y then .gt else .lt)
      (if x = z then Ordering.eq else if x then .gt else .lt) := by
  cases x <;> cases y <;> cases z <;> decide

/-- the laws for one triple of well-formed values, given the laws for the elements of
    arrays/sets (`hseq`) -/
theorem cmpVal_STr_of (nm : Bool) (a b c : Val) (oka : a.ok = true) (okb : b.ok = true) (okc : c.ok = true)
    (pab : PairOK a b) (pbc : PairOK b c) (pac : PairOK a c)
    (hseq : ∀ t xs t' ys t'' zs, a = .seq t xs → b = .seq t' ys → c = .seq t'' zs →
      t.under = t'.under → t'.under = t''.under →
      STr (cmpVals nm xs ys) (cmpVals nm ys zs) (cmpVals nm xs zs)) :
    STr (cmpVal nm a b) (cmpVal nm b c) (cmpVal nm a c) := by
  rw [cmpVal_classified nm a b, cmpVal_classified nm b c, cmpVal_classified nm a c]
  have ka := vk_ok a; have kb := vk_ok b; have kc := vk_ok c
  have hmem : ∀ k, k ∈ [vk a, vk b, vk c] → VKok k := by
    intro k hk
    simp only [List.mem_cons, List.mem_nil_iff, or_false] at hk
    rcases hk with rfl | rfl | rfl <;> assumption
  refine STr.classified (cmpVK nm) (vk a) (vk b) (vk c) _ _ _
    (fun k k' hk hk' => cmpVK_eq_iff nm k k' (hmem k hk) (hmem k' hk'))
    (fun k k' hk hk' => cmpVK_swap nm k k' (hmem k hk) (hmem k' hk'))
    (cmpVK_STr nm _ _ _ ka kb kc) ?_
  intro e1 e2
  unfold within
  rw [← e1] -- all three classes are `vk a`
  cases hk : vk a with
  | nullv => simp [STr]
  | num =>
    obtain ⟨ta, na, rfl⟩ := num_of_ok oka hk
    obtain ⟨tb, nb, rfl⟩ := num_of_ok okb (e1 ▸ hk)
    obtain ⟨tc, nc, rfl⟩ := num_of_ok okc (e2 ▸ (e1 ▸ hk : vk (Val.num tb nb) = .num))
    simp only [PairOK, Val.num?] at pab pbc pac
    simp only [Val.num?]
    rw [cmpNum_eq_exact _ _ pab, cmpNum_eq_exact _ _ pbc, cmpNum_eq_exact _ _ pac]
    exact cmpF_STr _ _ _
  | ty u =>
    simp only
    obtain ⟨na, nna, ua⟩ := vk_ty_of hk
    obtain ⟨nb, nnb, ub⟩ := vk_ty_of (e1 ▸ hk : vk b = .ty u)
    obtain ⟨nc, nnc, uc⟩ := vk_ty_of (e2 ▸ (e1 ▸ hk : vk b = .ty u) : vk c = .ty u)
    have sa := shape_of_ok a oka na
    have sb := shape_of_ok b okb nb
    have sc := shape_of_ok c okc nc
    rw [tyShape_under b.ty a.ty (ub.trans ua.symm)] at sb
    rw [tyShape_under c.ty a.ty (uc.trans ua.symm)] at sc
    rw [← sa] at sb sc
    cases a <;> cases b <;> simp only [shapeIdx] at sb <;> (try omega) <;>
      cases c <;> simp only [shapeIdx] at sc <;> (try omega)
    · simp [Val.isNull] at na
    · have := num_ok_isNumber oka
      simp only [Val.ty] at nna
      rw [nna] at this; exact absurd this (by simp)
    · simp only [cmpSameOf, cmpLeaf]; exact bool_STr _ _ _
    · simp only [cmpSameOf, cmpLeaf, Val.payload]; exact cmpBytes_STr _ _ _
    · simp only [cmpSameOf, cmpLeaf, Val.payload]; exact cmpBytes_STr _ _ _
    · simp only [cmpSameOf, cmpLeaf]
      exact STr.then (STr_compare_nat _ _ _) (fun _ _ => cmpBytes_STr _ _ _)
    · simp only [cmpSameOf, cmpLeaf]
      exact cmpTy_STr _ _ _
    · simp only [cmpSameOf]
      simp only [Val.ty] at ua ub uc
      exact hseq _ _ _ _ _ _ rfl rfl rfl (ua.trans ub.symm) (ub.trans uc.symm)
    · simp only [cmpSameOf, cmpLeaf, Val.payload]; exact cmpBytes_STr _ _ _

end Zed
namespace Zed
open Zed.Ord

theorem class_excl (id : Nat) :
    ¬ (isSignedId id = true ∧ isUnsignedId id = true) ∧ ¬ (isSignedId id = true ∧ isFloatId id = true) ∧
    ¬ (isUnsignedId id = true ∧ isFloatId id = true) := by
  simp [isSignedId, isUnsignedId, isFloatId, evalBounds, evalBound, Generated.C06.isSigned,
    Generated.C06.isUnsigned, Generated.C06.isFloat]
  omega

theorem pairOK_same_ty (x y : Val) (okx : x.ok = true) (oky : y.ok = true) (h : x.ty = y.ty) : PairOK x y := by
  unfold PairOK
  cases x <;> cases y <;> simp only [Val.num?] <;> try trivial
  rename_i t n t' n'
  simp only [Val.ty] at h
  subst h
  simp only [Val.ok] at okx oky
  cases hp : t.primId? with
  | none => simp [hp] at okx
  | some id =>
    simp only [hp, Bool.and_eq_true] at okx oky
    have ex := class_excl id
    intro hf
    cases n <;> cases n' <;> simp [numOk, Num.isFloat, IntSafe] at okx oky hf ⊢ <;> simp_all

theorem inner_of_under {s t : Ty} (h : s.under = t.under) : s.inner? = t.inner? := by
  unfold Ty.inner?; rw [h]

theorem seq_ok {t : Ty} {xs : Vals} (h : (Val.seq t xs).ok = true) : ∃ e, t.inner? = some e ∧ xs.okAll e = true := by
  simp only [Val.ok] at h
  cases hi : t.inner? with
  | none => simp [hi] at h
  | some e => exact ⟨e, rfl, by simpa [hi] using h⟩

mutual
theorem cmpVal_STr (nm : Bool) : (a b c : Val) → a.ok = true → b.ok = true → c.ok = true →
    PairOK a b → PairOK b c → PairOK a c → STr (cmpVal nm a b) (cmpVal nm b c) (cmpVal nm a c)
  | .seq t xs, b, c, oka, okb, okc, p1, p2, p3 =>
    cmpVal_STr_of nm _ b c oka okb okc p1 p2 p3 (fun t1 xs1 t' ys t'' zs ha hb hc hu1 hu2 => by
      cases ha; subst hb hc
      obtain ⟨e, he, hx⟩ := seq_ok oka
      obtain ⟨e', he', hy⟩ := seq_ok okb
      obtain ⟨e'', he'', hz⟩ := seq_ok okc
      have e1 : e' = e := by
        have := inner_of_under hu1; rw [he, he'] at this; exact (Option.some.inj this).symm
      have e2 : e'' = e := by
        have := inner_of_under (hu1.trans hu2); rw [he, he''] at this; exact (Option.some.inj this).symm
      subst e1 e2
      exact cmpVals_STr nm xs ys zs _ hx hy hz)
  | .null t, b, c, oka, okb, okc, p1, p2, p3 =>
    cmpVal_STr_of nm _ b c oka okb okc p1 p2 p3 (fun _ _ _ _ _ _ ha => by cases ha)
  | .num t n, b, c, oka, okb, okc, p1, p2, p3 =>
    cmpVal_STr_of nm _ b c oka okb okc p1 p2 p3 (fun _ _ _ _ _ _ ha => by cases ha)
  | .bool t n, b, c, oka, okb, okc, p1, p2, p3 =>
    cmpVal_STr_of nm _ b c oka okb okc p1 p2 p3 (fun _ _ _ _ _ _ ha => by cases ha)
  | .bytes t n, b, c, oka, okb, okc, p1, p2, p3 =>
    cmpVal_STr_of nm _ b c oka okb okc p1 p2 p3 (fun _ _ _ _ _ _ ha => by cases ha)
  | .string t n, b, c, oka, okb, okc, p1, p2, p3 =>
    cmpVal_STr_of nm _ b c oka okb okc p1 p2 p3 (fun _ _ _ _ _ _ ha => by cases ha)
  | .ip t n, b, c, oka, okb, okc, p1, p2, p3 =>
    cmpVal_STr_of nm _ b c oka okb okc p1 p2 p3 (fun _ _ _ _ _ _ ha => by cases ha)
  | .typ t n, b, c, oka, okb, okc, p1, p2, p3 =>
    cmpVal_STr_of nm _ b c oka okb okc p1 p2 p3 (fun _ _ _ _ _ _ ha => by cases ha)
  | .raw t n, b, c, oka, okb, okc, p1, p2, p3 =>
    cmpVal_STr_of nm _ b c oka okb okc p1 p2 p3 (fun _ _ _ _ _ _ ha => by cases ha)
theorem cmpVals_STr (nm : Bool) : (xs ys zs : Vals) → (e : Ty) → xs.okAll e = true → ys.okAll e = true →
    zs.okAll e = true → STr (cmpVals nm xs ys) (cmpVals nm ys zs) (cmpVals nm xs zs)
  | .nil, .nil, .nil, _, _, _, _ => by simp [cmpVals, STr]
  | .nil, .nil, .cons _ _, _, _, _, _ => by simp [cmpVals, STr]
  | .nil, .cons _ _, .nil, _, _, _, _ => by simp [cmpVals, STr]
  | .nil, .cons y ys, .cons z zs, _, _, _, _ => by
    simp only [cmpVals]; cases (cmpVal nm y z).then (cmpVals nm ys zs) <;> simp [STr]
  | .cons _ _, .nil, .nil, _, _, _, _ => by simp [cmpVals, STr]
  | .cons _ _, .nil, .cons _ _, _, _, _, _ => by simp [cmpVals, STr]
  | .cons x xs, .cons y ys, .nil, _, _, _, _ => by
    simp only [cmpVals]; cases (cmpVal nm x y).then (cmpVals nm xs ys) <;> simp [STr]
  | .cons x xs, .cons y ys, .cons z zs, e, hx, hy, hz => by
    simp only [Vals.okAll, Bool.and_eq_true, beq_iff_eq] at hx hy hz
    simp only [cmpVals]
    exact STr.then
      (cmpVal_STr nm x y z hx.1.2 hy.1.2 hz.1.2
        (pairOK_same_ty x y hx.1.2 hy.1.2 (hx.1.1.trans hy.1.1.symm))
        (pairOK_same_ty y z hy.1.2 hz.1.2 (hy.1.1.trans hz.1.1.symm))
        (pairOK_same_ty x z hx.1.2 hz.1.2 (hx.1.1.trans hz.1.1.symm)))
      (fun _ _ => cmpVals_STr nm xs ys zs e hx.2 hy.2 hz.2)
end

end Zed
