/-
  Simulation between `commits.Patch` (as coded) and `commits.Snapshot`: playing the same
  actions on `NewPatch(B)` and on the snapshot `B`, when both succeed, keeps
     S  =  (B \ p.deletedObjects) ∪ p.diff            (as sets of object ids)
  Helper lemmas for C15.
-/
import Zed.Proofs.LakeSnap
namespace Zed.Lake
variable {K : Type}

theorem find_isSome (s : Snap K) (id : Nat) : (s.find id).isSome = s.hasObj id := by
  unfold Snap.find Snap.hasObj
  induction s.objs with
  | nil => rfl
  | cons o os ih =>
    simp only [List.find?_cons, List.any_cons]
    cases h : (o.id == id) <;> simp [ih]

theorem view_snap_exists (B : Snap K) (id : Nat) : (View.snap B).exists_ id = B.hasObj id := by
  simp [View.exists_, View.lookup, find_isSome]

/-- `Patch.Lookup` on a patch over a snapshot: the diff, else the base — deletedObjects are
    NOT consulted -/
theorem patch_exists (p : Patch K) (B : Snap K) (hb : p.base = .snap B) (id : Nat) :
    p.exists_ id = (p.diff.hasObj id || B.hasObj id) := by
  unfold Patch.exists_ Patch.toView View.exists_ View.lookup
  rw [hb]
  cases hf : p.diff.find id with
  | none =>
    have : p.diff.hasObj id = false := by rw [← find_isSome, hf]; rfl
    simp [this, View.lookup, find_isSome]
  | some o =>
    have : p.diff.hasObj id = true := by rw [← find_isSome, hf]; rfl
    simp [this]

/-- the simulation relation -/
structure Rel (B : Snap K) (p : Patch K) (S : Snap K) : Prop where
  base : p.base = .snap B
  mem : ∀ id, S.hasObj id = ((B.hasObj id && !p.delObjs.contains id) || p.diff.hasObj id)
  delIn : ∀ id, p.delObjs.contains id = true → B.hasObj id = true
  diffOut : ∀ id, p.diff.hasObj id = true → B.hasObj id = false
  delNodup : p.delObjs.Nodup
  diffNodup : (p.diff.objs.map (·.id)).Nodup

theorem Rel.init (B : Snap K) : Rel B (Patch.new (.snap B)) B where
  base := rfl
  mem := by intro id; simp [Patch.new, Snap.hasObj]
  delIn := by intro id h; simp [Patch.new] at h
  diffOut := by intro id h; simp [Patch.new, Snap.hasObj] at h
  delNodup := by simp [Patch.new]
  diffNodup := by simp [Patch.new]

theorem hasObj_vecs (s : Snap K) (v : List Nat) (id : Nat) :
    ({ s with vecs := v } : Snap K).hasObj id = s.hasObj id := rfl

theorem nodup_ids_append (s : Snap K) (o : Obj K) (hn : (s.objs.map (·.id)).Nodup)
    (ho : s.hasObj o.id = false) : ((s.objs ++ [o]).map (·.id)).Nodup := by
  rw [List.map_append, List.nodup_append]
  refine ⟨hn, by simp, ?_⟩
  intro a ha b hb
  simp only [List.map_cons, List.map_nil, List.mem_singleton] at hb
  subst hb
  intro hab
  subst hab
  obtain ⟨x, hx, hxa⟩ := List.mem_map.mp ha
  have : s.hasObj o.id = true := by
    simp only [Snap.hasObj, List.any_eq_true]
    exact ⟨x, hx, by simpa using hxa⟩
  rw [ho] at this; cases this

theorem nodup_ids_filter (s : Snap K) (x : Nat) (hn : (s.objs.map (·.id)).Nodup) :
    ((s.objs.filter (·.id != x)).map (·.id)).Nodup := by
  have : (s.objs.filter (·.id != x)).map (·.id) = (s.objs.map (·.id)).filter (· != x) := by
    rw [List.filter_map]; rfl
  rw [this]; exact hn.filter _

theorem sim_step (B : Snap K) (p p' : Patch K) (S S' : Snap K) (a : Action K)
    (r : Rel B p S) (hp : p.playAction a = .ok p') (hs : playAction S a = .ok S') : Rel B p' S' := by
  cases a with
  | add o =>
    simp only [Patch.playAction, Patch.addObj] at hp
    simp only [playAction] at hs
    rw [r.base, view_snap_exists] at hp
    split at hp
    · cases hp
    · rename_i hB
      have hB : B.hasObj o.id = false := by simpa using hB
      cases hd : p.diff.addObj o with
      | error e => simp [hd] at hp
      | ok d =>
        simp only [hd, Except.ok.injEq] at hp
        subst hp
        obtain ⟨hdn, hde⟩ := addObj_ok _ _ _ hd
        exact {
          base := by first | exact r.base | rfl
          mem := by
            intro id
            rw [hasObj_addObj S S' o hs, r.mem id, hasObj_addObj _ _ _ hd]
            simp [Bool.or_assoc]
          delIn := r.delIn
          diffOut := by
            intro id h
            rw [hasObj_addObj _ _ _ hd] at h
            by_cases he : o.id = id
            · rw [← he]; exact hB
            · have : (o.id == id) = false := by simpa using he
              rw [this, Bool.or_false] at h
              exact r.diffOut id h
          delNodup := r.delNodup
          diffNodup := by rw [hde]; exact nodup_ids_append _ _ r.diffNodup hdn }
  | del x =>
    simp only [Patch.playAction, Patch.delObj] at hp
    simp only [playAction] at hs
    have hSx := (delObj_ok S S' x hs).1
    split at hp
    · rename_i hdx
      cases hd : p.diff.delObj x with
      | error e => simp [hd] at hp
      | ok d =>
        simp only [hd, Except.ok.injEq] at hp
        subst hp
        have hBx := r.diffOut x hdx
        exact {
          base := by first | exact r.base | rfl
          mem := by
            intro id
            rw [hasObj_delObj S S' x hs, r.mem id, hasObj_delObj _ _ _ hd]
            by_cases he : x = id
            · subst he; simp [hBx]
            · have : (x != id) = true := by simpa using he
              simp [this]
          delIn := r.delIn
          diffOut := by
            intro id h
            rw [hasObj_delObj _ _ _ hd] at h
            exact r.diffOut id (by simp only [Bool.and_eq_true] at h; exact h.1)
          delNodup := r.delNodup
          diffNodup := by rw [(delObj_ok _ _ _ hd).2]; exact nodup_ids_filter _ _ r.diffNodup }
    · rename_i hdx
      have hdx : p.diff.hasObj x = false := by simpa using hdx
      rw [r.base, view_snap_exists] at hp
      split at hp
      · cases hp
      · rename_i hBx
        have hBx : B.hasObj x = true := by simpa using hBx
        cases hp
        have hnc : p.delObjs.contains x = false := by
          have := r.mem x
          rw [hSx, hBx, hdx] at this
          simpa using this.symm
        exact {
          base := by first | exact r.base | rfl
          mem := by
            intro id
            rw [hasObj_delObj S S' x hs, r.mem id]
            simp only [List.contains_eq_mem, List.mem_append, List.mem_singleton]
            by_cases he : x = id
            · subst he; simp [hdx]
            · have h1 : (x != id) = true := by simpa using he
              have h2 : ¬ id = x := fun h => he h.symm
              simp [h1, h2]
          delIn := by
            intro id h
            simp only [List.contains_eq_mem, List.mem_append, List.mem_singleton, decide_eq_true_eq] at h
            rcases h with h | h
            · exact r.delIn id (by simpa using h)
            · subst h; exact hBx
          diffOut := r.diffOut
          delNodup := by
            rw [List.nodup_append]
            refine ⟨r.delNodup, by simp, ?_⟩
            intro a ha b hb
            simp only [List.mem_singleton] at hb
            subst hb
            intro hab; subst hab
            have : p.delObjs.contains a = true := by simpa using ha
            rw [hnc] at this; cases this
          diffNodup := r.diffNodup }
  | addVec v =>
    simp only [Patch.playAction, Patch.addVec] at hp
    simp only [playAction, Snap.addVec] at hs
    split at hp
    · cases hp
    · cases hd : p.diff.addVec v with
      | error e => simp [hd] at hp
      | ok d =>
        simp only [hd, Except.ok.injEq] at hp
        subst hp
        have hd' : d.objs = p.diff.objs := by
          simp only [Snap.addVec] at hd
          split at hd <;> first | (cases hd; rfl) | cases hd
        split at hs
        · cases hs
        · cases hs
          exact { base := r.base, mem := by intro id; simpa [Snap.hasObj, hd'] using r.mem id,
                  delIn := r.delIn, diffOut := by intro id h; exact r.diffOut id (by simpa [Snap.hasObj, hd'] using h),
                  delNodup := r.delNodup, diffNodup := by simpa [hd'] using r.diffNodup }
  | delVec v =>
    simp only [Patch.playAction, Patch.delVec] at hp
    simp only [playAction, Snap.delVec] at hs
    have hS' : S'.objs = S.objs := by
      split at hs <;> first | (cases hs; rfl) | cases hs
    split at hp
    · cases hd : p.diff.delVec v with
      | error e => simp [hd] at hp
      | ok d =>
        simp only [hd, Except.ok.injEq] at hp
        subst hp
        have hd' : d.objs = p.diff.objs := by
          simp only [Snap.delVec] at hd
          split at hd <;> first | (cases hd; rfl) | cases hd
        exact { base := r.base, mem := by intro id; simpa [Snap.hasObj, hd', hS'] using r.mem id,
                delIn := r.delIn, diffOut := by intro id h; exact r.diffOut id (by simpa [Snap.hasObj, hd'] using h),
                delNodup := r.delNodup, diffNodup := by simpa [hd'] using r.diffNodup }
    · split at hp
      · cases hp
      · cases hp
        exact { base := r.base, mem := by intro id; simpa [Snap.hasObj, hS'] using r.mem id,
                delIn := r.delIn, diffOut := r.diffOut, delNodup := r.delNodup, diffNodup := r.diffNodup }

theorem sim (B : Snap K) (as : List (Action K)) (p p' : Patch K) (S S' : Snap K)
    (r : Rel B p S) (hp : p.play as = .ok p') (hs : play S as = .ok S') : Rel B p' S' := by
  induction as generalizing p S with
  | nil =>
    simp only [Patch.play, Except.ok.injEq] at hp
    simp only [play, Except.ok.injEq] at hs
    subst hp; subst hs; exact r
  | cons a as ih =>
    simp only [Patch.play] at hp
    simp only [play] at hs
    cases hpa : p.playAction a with
    | error e => simp [hpa] at hp
    | ok p1 =>
      cases hsa : playAction S a with
      | error e => simp [hsa] at hs
      | ok S1 =>
        simp only [hpa] at hp
        simp only [hsa] at hs
        exact ih p1 S1 (sim_step B p p1 S S1 a r hpa hsa) hp hs

end Zed.Lake
