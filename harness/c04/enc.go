package main

import (
	"bytes"
	"fmt"
	"io"
	"runtime/debug"
	"strings"
	"time"

	zed "github.com/brimdata/super"
	"github.com/brimdata/super/compiler/optimizer/demand"
	"github.com/brimdata/super/zio"
	"github.com/brimdata/super/zio/vngio"
	"github.com/brimdata/super/zio/zjsonio"
	"github.com/brimdata/super/zio/zngio"
	"github.com/brimdata/super/zio/zsonio"
	"github.com/brimdata/super/zson"
	. "verifharness/hlib"
)

// encCfg is one physical presentation of the value list.
type encCfg struct {
	Format   string `json:"format"` // zson | zjson | vng | zng
	Compress bool   `json:"compress,omitempty"`
	Thresh   int    `json:"thresh,omitempty"`    // zng frame threshold (bytes); 0 = default
	EOSEvery int    `json:"eos_every,omitempty"` // end the stream after every n values (0 = never)
	Threads  int    `json:"threads,omitempty"`
	ReadSize int    `json:"readsize,omitempty"`
	Validate bool   `json:"validate,omitempty"`
}

func (e encCfg) String() string {
	if e.Format != "zng" {
		return e.Format
	}
	return fmt.Sprintf("zng(compress=%v,thresh=%d,eos=%d,threads=%d,readsize=%d,validate=%v)", e.Compress, e.Thresh, e.EOSEvery, e.Threads, e.ReadSize, e.Validate)
}

type encCase struct {
	Check  string   `json:"check"`
	Prog   string   `json:"prog"`
	Values []string `json:"values"`
	Encs   []encCfg `json:"encs"`
	Bag    bool     `json:"bag,omitempty"` // compare as multisets (the program defines no order)
	GC     bool     `json:"gc,omitempty"`  // run with GC percent 1
}

type nopCloser struct{ io.Writer }

func (nopCloser) Close() error { return nil }

// encode serialises the values (ZSON texts) in the given format with the real writers.
func encode(values []string, e encCfg) ([]byte, error) {
	zctx := zed.NewContext()
	var vals []zed.Value
	for _, t := range values {
		v, err := zson.ParseValue(zctx, t)
		if err != nil {
			return nil, err
		}
		vals = append(vals, v)
	}
	var buf bytes.Buffer
	switch e.Format {
	case "zson":
		return []byte(strings.Join(values, "\n")), nil
	case "zjson":
		w := zjsonio.NewWriter(nopCloser{&buf})
		for _, v := range vals {
			if err := w.Write(v); err != nil {
				return nil, err
			}
		}
		if err := w.Close(); err != nil {
			return nil, err
		}
		return buf.Bytes(), nil
	case "vng":
		w := vngio.NewWriter(nopCloser{&buf})
		for _, v := range vals {
			if err := w.Write(v); err != nil {
				return nil, err
			}
		}
		if err := w.Close(); err != nil {
			return nil, err
		}
		return buf.Bytes(), nil
	case "zng":
		th := e.Thresh
		if th == 0 {
			th = zngio.DefaultFrameThresh
		}
		w := zngio.NewWriterWithOpts(nopCloser{&buf}, zngio.WriterOpts{Compress: e.Compress, FrameThresh: th})
		for i, v := range vals {
			if err := w.Write(v); err != nil {
				return nil, err
			}
			if e.EOSEvery > 0 && (i+1)%e.EOSEvery == 0 {
				if err := w.EndStream(); err != nil {
					return nil, err
				}
			}
		}
		if err := w.Close(); err != nil {
			return nil, err
		}
		return buf.Bytes(), nil
	}
	return nil, fmt.Errorf("unknown format %q", e.Format)
}

func reader(zctx *zed.Context, data []byte, e encCfg) (zio.Reader, error) {
	switch e.Format {
	case "zson":
		return zsonio.NewReader(zctx, bytes.NewReader(data)), nil
	case "zjson":
		return zjsonio.NewReader(zctx, bytes.NewReader(data)), nil
	case "vng":
		return vngio.NewReader(zctx, bytes.NewReader(data), demand.All())
	case "zng":
		return zngio.NewReaderWithOpts(zctx, bytes.NewReader(data), zngio.ReaderOpts{Threads: e.Threads, Size: e.ReadSize, Validate: e.Validate}), nil
	}
	return nil, fmt.Errorf("unknown format %q", e.Format)
}

// runOver runs the program (optimized plan: what every user gets) over one presentation.
func (c *encCase) runOver(e encCfg) (PlanResult, error) {
	data, err := encode(c.Values, e)
	if err != nil {
		return PlanResult{}, err
	}
	res := RunPlan(PlanCfg{Query: c.Prog, Optimize: true, Timeout: 5 * time.Minute, Readers: func(zctx *zed.Context) ([]zio.Reader, error) {
		r, err := reader(zctx, data, e)
		if err != nil {
			return nil, err
		}
		return []zio.Reader{r}, nil
	}})
	return res, nil
}

func isTimeout(r PlanResult) bool {
	return strings.Contains(r.Err, "context deadline exceeded") || strings.Contains(r.Err, "context canceled")
}

func (c *encCase) same(a, b PlanResult) bool {
	if a.Failed() || b.Failed() {
		return a.Failed() && b.Failed()
	}
	if c.Bag {
		return SameMultiset(a.Out, b.Out)
	}
	return SameSeq(a.Out, b.Out)
}

// differs returns the first presentation whose result differs from the ZSON reference.
func (c *encCase) differs() (enc *encCfg, ref, got PlanResult, skipped []string) {
	if c.GC {
		old := debug.SetGCPercent(1)
		defer debug.SetGCPercent(old)
	}
	ref, err := c.runOver(encCfg{Format: "zson"})
	if err != nil {
		return nil, ref, got, []string{"zson:" + err.Error()}
	}
	for i := range c.Encs {
		e := c.Encs[i]
		r, err := c.runOver(e)
		if err != nil {
			skipped = append(skipped, e.Format)
			continue
		}
		if isTimeout(r) || isTimeout(ref) {
			// wall-clock dependent (GC percent 1 under load): inconclusive, never a verdict
			skipped = append(skipped, "timeout")
			continue
		}
		if !c.same(ref, r) {
			return &c.Encs[i], ref, r, skipped
		}
	}
	return nil, ref, got, skipped
}

type encReport struct {
	c     *encCase
	stats map[string]int
	kind  string
	key   string
	what  string
	min   *encCase
}

// evaluate runs the case over every presentation and, on a difference, shrinks and classifies it.
func (c *encCase) evaluate() *encReport {
	r := &encReport{c: c, stats: map[string]int{}}
	enc, ref, got, skipped := c.differs()
	for _, s := range skipped {
		r.stats[c.Check+":unencodable-"+firstWord(s)]++
	}
	r.stats[c.Check+":presentations"] += len(c.Encs) - len(skipped)
	if ref.Failed() {
		r.stats[c.Check+":program-error"]++
	} else if len(ref.Out) > 0 {
		r.stats[c.Check+":nonempty"]++
	}
	if enc == nil {
		return r
	}
	// shrink: only the differing presentation, then fewer values
	min := *c
	min.Encs = []encCfg{*enc}
	bad := func(t *encCase) bool { e, _, _, _ := t.differs(); return e != nil }
	budget := 40
	for n := len(min.Values) / 2; n >= 1 && budget > 0; {
		removed := false
		for i := 0; i+n <= len(min.Values) && budget > 0; i += n {
			t := min
			t.Values = append(append([]string{}, min.Values[:i]...), min.Values[i+n:]...)
			budget--
			if bad(&t) {
				min = t
				removed = true
				break
			}
		}
		if !removed {
			n /= 2
		}
	}
	if e2, ref2, got2, _ := min.differs(); e2 != nil {
		ref, got = ref2, got2
	} else {
		min = *c
		min.Encs = []encCfg{*enc}
	}
	r.key = "C04:" + c.Check + ":" + enc.Format + ":" + progShape(min.Prog)
	if k := classifyEnc(&min); k != "" {
		r.key = k
	}
	r.kind = "oracle"
	if got.Panicked {
		r.kind = "panic"
	}
	r.what = fmt.Sprintf("`%s` over %v gives %s %s as ZSON and %s %s as %s", min.Prog, clipV(min.Values),
		clipV(ref.Out), firstLine(ref.Err), clipV(got.Out), firstLine(got.Err), enc.String())
	r.min = &min
	return r
}

func (r *encReport) emit(ctx *Ctx) {
	c := r.c
	ctx.Eval(c.Check + ":" + c.Prog + ":" + fmt.Sprint(len(c.Values)) + ":" + fmt.Sprint(c.Encs))
	for k, n := range r.stats {
		ctx.StatN(k, n)
	}
	if r.min != nil {
		ctx.Fail(r.kind, r.key, r.what, r.min)
	}
}

func (c *encCase) check(ctx *Ctx) { c.evaluate().emit(ctx) }

func firstLine(s string) string {
	if i := strings.IndexByte(s, '\n'); i >= 0 {
		s = s[:i]
	}
	if len(s) > 160 {
		s = s[:160]
	}
	return s
}

func clipV(xs []string) string {
	short := func(x string) string {
		if len(x) > 120 {
			return fmt.Sprintf("%s…(%d bytes)", x[:100], len(x))
		}
		return x
	}
	var ys []string
	for i, x := range xs {
		if i == 5 {
			break
		}
		ys = append(ys, short(x))
	}
	if len(xs) > 5 {
		return fmt.Sprintf("%v… (%d)", ys, len(xs))
	}
	return fmt.Sprint(ys)
}

func progShape(p string) string {
	var ks []string
	for _, s := range strings.Split(p, " | ") {
		f := strings.Fields(s)
		if len(f) > 0 {
			ks = append(ks, f[0])
		}
	}
	return strings.Join(ks, ",")
}

// classifyEnc recognises the recorded defect: a ZNG presentation loses values because the buffer
// filter of the program's leading search rejects the frame (field name below a container).
func classifyEnc(c *encCase) string {
	if len(c.Encs) != 1 || c.Encs[0].Format != "zng" {
		return ""
	}
	first := strings.Split(c.Prog, " | ")[0]
	if !strings.HasPrefix(first, "search ") {
		return ""
	}
	pred := strings.TrimPrefix(first, "search ")
	r := bfRunReal(&bfCase{Pred: pred, Frame: c.Values})
	if r.err != "" || !(r.ev == "1" && r.bf == "0") {
		// the values may be spread over several frames: look at each alone
		for _, v := range c.Values {
			r1 := bfRunReal(&bfCase{Pred: pred, Frame: []string{v}})
			if r1.err == "" && r1.ev == "1" && r1.bf == "0" {
				return classifyUnder(pred, []string{v})
			}
		}
		return ""
	}
	return classifyUnder(pred, c.Values)
}

// ---- generators --------------------------------------------------------------------------------

func c04GenEncs(c *Ctx, n int) []encCfg {
	encs := []encCfg{{Format: "zjson"}, {Format: "vng"}, {Format: "zng", Compress: true, Threads: 1}}
	for i := 0; i < n; i++ {
		encs = append(encs, encCfg{Format: "zng", Compress: c.Rng.Intn(2) == 0,
			Thresh:   []int{1, 1, 16, 64, 1024, 0}[c.Rng.Intn(6)],
			EOSEvery: []int{0, 0, 1, 2, 5}[c.Rng.Intn(5)],
			Threads:  []int{1, 2, 3, 8, 16}[c.Rng.Intn(5)],
			ReadSize: []int{0, 0, 16, 512}[c.Rng.Intn(4)],
			Validate: c.Rng.Intn(2) == 0})
	}
	return encs
}

var c04Tails = []string{"", "", "", "yield typeof(this)", "yield {t:typeof(v),l:len(arr)}", "cut s,v", "yield nameof(v)", "yield fields(this)",
	"yield under(v)", "put t:=typeof(this)", "yield is(v, <string>)", "head 3", "sort k | head 5", "tail 2", "uniq"}
var c04Aggs = []string{"count() by typeof(this)", "count() by s", "union(typeof(v))", "collect(s)", "count(), dcount(v)", "max(s), min(s) by b",
	"any(v) by typeof(v)", "count() by v"}

func c04GenProg(c *Ctx) (string, bool) {
	var st []string
	switch c.Rng.Intn(5) {
	case 0:
		st = append(st, "search "+c04Terms[c.Rng.Intn(len(c04Terms))])
	case 1, 2, 3:
		st = append(st, "search "+c04GenPred(c, 2))
	}
	if t := c04Tails[c.Rng.Intn(len(c04Tails))]; t != "" {
		st = append(st, t)
	}
	bag := false
	if c.Rng.Intn(4) == 0 {
		st = append(st, c04Aggs[c.Rng.Intn(len(c04Aggs))])
		bag = true
	}
	if len(st) == 0 {
		st = append(st, "pass")
	}
	return strings.Join(st, " | "), bag
}

func c04GenValues(c *Ctx, n int) []string {
	var out []string
	for len(out) < n {
		if c.Rng.Intn(3) == 0 {
			out = append(out, c04Special[c.Rng.Intn(len(c04Special))])
		} else {
			out = append(out, OptGenValue(c.Rng))
		}
	}
	return out
}

func c04Enc(c *Ctx) {
	var cases []*encCase
	for i := 0; i < c.N(160, 1100); i++ {
		prog, bag := c04GenProg(c)
		cases = append(cases, &encCase{Check: "enc", Prog: prog, Bag: bag,
			Values: c04GenValues(c, []int{1, 3, 8, 30}[c.Rng.Intn(4)]), Encs: c04GenEncs(c, c.N(3, 8))})
	}
	c.Sample(cases[0])
	c04RunAll(c, cases)
}

func c04RunAll(c *Ctx, cases []*encCase) {
	reps := make([]*encReport, len(cases))
	ParallelDo(len(cases), 8, func(i int) { reps[i] = cases[i].evaluate() })
	for _, r := range reps {
		r.emit(c)
	}
}

// c04Big crosses the byte-buffer thresholds of every reader's batching: values of several KiB up
// to more than 512 KiB (zbuf.PullerBatchBytes: the generic batch of the ZSON/ZJSON/VNG readers
// holds copies of its values in one 512 KiB buffer and clones the value that does not fit; zngio
// builds its own batches per frame), several MiB in total, with programs whose operators keep
// their input batches across pulls (sort, tail, collect, fuse).  A value that does not own its
// bytes until its batch is released shows up as a difference between the text and the binary
// presentation.
func c04Big(c *Ctx) {
	progs := []string{"sort k", "sort k | head 20", "sort -r k | yield {k,n:len(s)}", "tail 3", "sort k | tail 7 | yield {k,n:len(s)}",
		"collect(s) | yield len(collect)", "fuse | sort k | head 5", "sort s | head 3 | yield k", "count() by s | sort this | yield count", "pass"}
	sizes := [][]int{{4096}, {40 << 10}, {6000, 300, 90 << 10}, {600 << 10, 1000}, {5200}, {128 << 10, 17}}
	n := c.N(6, 18)
	var cases []*encCase
	for i := 0; i < n; i++ {
		sz := sizes[i%len(sizes)]
		count := 24 + c.Rng.Intn(40)
		if sz[0] > 512<<10 {
			count = 6 + c.Rng.Intn(5)
		}
		var vals []string
		for j := 0; j < count; j++ {
			k := c.Rng.Intn(1000)
			ln := sz[j%len(sz)] + c.Rng.Intn(64)
			ch := string(rune('a' + j%26))
			vals = append(vals, fmt.Sprintf(`{k:%d,j:%d,s:"%s%d"}`, k, j, strings.Repeat(ch, ln), j))
		}
		encs := []encCfg{{Format: "zjson"}, {Format: "zng", Compress: true, Threads: 1}, {Format: "zng", Thresh: 1, Threads: 4}, {Format: "vng"}}
		cases = append(cases, &encCase{Check: "big", Prog: progs[i%len(progs)], Values: vals, Encs: encs})
	}
	c04RunAll(c, cases)
}

// c04Alias provokes buffer recycling: many values, tiny frames, many threads, values held by
// aggregations across batches, aggressive GC.
func c04Alias(c *Ctx) {
	progs := []string{"count() by typeof(this)", "union(typeof(this))", "collect(typeof(v)) | yield len(collect)", "count() by s", "collect(s) | yield len(collect)",
		"yield typeof(this) | count() by this", "search foo | count() by typeof(this)", "search s==\"foo\" | count() by typeof(this)", "max(s),min(s)",
		"put t:=typeof(this) | count() by t", "any(typeof(v)) by s", "sort s | head 50 | count() by typeof(this)", "fuse | count() by typeof(this)"}
	var cases []*encCase
	for i := 0; i < c.N(8, 12); i++ {
		n := c.N(1500, 2500)
		vals := c04GenValues(c, 60)
		var many []string
		for len(many) < n {
			many = append(many, vals[c.Rng.Intn(len(vals))])
		}
		var encs []encCfg
		for _, th := range []int{1, 40} {
			for _, threads := range []int{1, 4, 16} {
				encs = append(encs, encCfg{Format: "zng", Compress: c.Rng.Intn(2) == 0, Thresh: th, Threads: threads, EOSEvery: []int{0, 7, 100}[c.Rng.Intn(3)]})
			}
		}
		cases = append(cases, &encCase{Check: "alias", Prog: progs[i%len(progs)], Values: many, Encs: encs, Bag: true, GC: true})
	}
	for _, cs := range cases {
		cs.check(c) // sequential: SetGCPercent is process wide
	}
}
