package main

import (
	"fmt"
	"go/ast"
	"go/parser"
	"go/token"
	"path/filepath"
	"strconv"
	"strings"
)

type file struct {
	fset *token.FileSet
	f    *ast.File
	path string
}

func parseFile(repo, rel string) (*file, error) {
	fset := token.NewFileSet()
	p := filepath.Join(repo, rel)
	f, err := parser.ParseFile(fset, p, nil, parser.ParseComments)
	if err != nil {
		return nil, err
	}
	return &file{fset, f, rel}, nil
}

func (f *file) pos(n ast.Node) string {
	return fmt.Sprintf("%s:%d", f.path, f.fset.Position(n.Pos()).Line)
}

// funcDecl finds a top-level function (recv == "") or method (recv = type name).
func (f *file) funcDecl(recv, name string) (*ast.FuncDecl, error) {
	for _, d := range f.f.Decls {
		fd, ok := d.(*ast.FuncDecl)
		if !ok || fd.Name.Name != name {
			continue
		}
		r := ""
		if fd.Recv != nil && len(fd.Recv.List) == 1 {
			t := fd.Recv.List[0].Type
			if s, ok := t.(*ast.StarExpr); ok {
				t = s.X
			}
			if id, ok := t.(*ast.Ident); ok {
				r = id.Name
			}
		}
		if r == recv {
			return fd, nil
		}
	}
	return nil, fmt.Errorf("%s: func %s.%s not found", f.path, recv, name)
}

func strLit(e ast.Expr) (string, bool) {
	bl, ok := e.(*ast.BasicLit)
	if !ok || bl.Kind != token.STRING {
		return "", false
	}
	s, err := strconv.Unquote(bl.Value)
	return s, err == nil
}

func intLit(e ast.Expr) (int64, bool) {
	bl, ok := e.(*ast.BasicLit)
	if !ok || bl.Kind != token.INT {
		return 0, false
	}
	n, err := strconv.ParseInt(bl.Value, 0, 64)
	return n, err == nil
}

func identName(e ast.Expr) (string, bool) {
	id, ok := e.(*ast.Ident)
	if !ok {
		return "", false
	}
	return id.Name, true
}

// selName renders a.b (or a) as "a.b".
func selName(e ast.Expr) (string, bool) {
	switch e := e.(type) {
	case *ast.Ident:
		return e.Name, true
	case *ast.SelectorExpr:
		x, ok := selName(e.X)
		if !ok {
			return "", false
		}
		return x + "." + e.Sel.Name, true
	}
	return "", false
}

// callTo returns the args if e is a call to the function rendered as name.
func callTo(e ast.Expr, name string) ([]ast.Expr, bool) {
	c, ok := e.(*ast.CallExpr)
	if !ok {
		return nil, false
	}
	n, ok := selName(c.Fun)
	if !ok || n != name {
		return nil, false
	}
	return c.Args, true
}

// firstSwitch returns the first switch statement in body whose tag renders as tag.
func firstSwitch(body *ast.BlockStmt, tag string) *ast.SwitchStmt {
	var out *ast.SwitchStmt
	ast.Inspect(body, func(n ast.Node) bool {
		if out != nil {
			return false
		}
		if s, ok := n.(*ast.SwitchStmt); ok && s.Tag != nil {
			if t, ok := selName(s.Tag); ok && t == tag {
				out = s
				return false
			}
		}
		return true
	})
	return out
}

// singleReturn returns the expression of a body consisting of exactly `return e`.
func singleReturn(stmts []ast.Stmt) (ast.Expr, bool) {
	var rs []ast.Stmt
	for _, s := range stmts {
		if _, ok := s.(*ast.EmptyStmt); ok {
			continue
		}
		rs = append(rs, s)
	}
	if len(rs) != 1 {
		return nil, false
	}
	r, ok := rs[0].(*ast.ReturnStmt)
	if !ok || len(r.Results) != 1 {
		return nil, false
	}
	return r.Results[0], true
}

func leanStr(s string) string {
	return strconv.Quote(s)
}

func leanStrList(xs []string) string {
	q := make([]string, len(xs))
	for i, x := range xs {
		q[i] = leanStr(x)
	}
	return "[" + strings.Join(q, ", ") + "]"
}
