package main

// late: a query that fails after the response has started, through the real service.
// A pool is loaded with several data objects; one of the later objects is truncated on the
// served lake's disk; `from p` then fails while streaming.  Direct access to the same lake
// directory reports the error; the remote client must learn about it too.

import (
	"context"
	"encoding/json"
	"fmt"
	"io"
	"net/http"
	"os"
	"path/filepath"
	"strings"

	"github.com/brimdata/super/api"
	lakeapi "github.com/brimdata/super/lake/api"
	"go.uber.org/zap"

	. "verifharness/hlib"
)

type lateCase struct {
	Objects   int    `json:"objects"`    // data objects in the pool (one load each)
	PerObject int    `json:"per_object"` // records per object
	Corrupt   int    `json:"corrupt"`    // which object (in key order) is damaged
	Mode      string `json:"mode"`       // truncate | tail | empty | remove
	Pad       int    `json:"pad"`        // padding bytes per record (large objects have several ZNG frames)
	Format    string `json:"format"`
	Ctrl      bool   `json:"ctrl"`
}

func runLate(c *Ctx) {
	var cases []lateCase
	for _, f := range respFormats {
		for _, ctrl := range []bool{true, false} {
			cases = append(cases, lateCase{Objects: 3, PerObject: 40, Corrupt: 2, Mode: "truncate", Format: f, Ctrl: ctrl})
			// one large object of several frames whose tail is cut off: values stream before the error
			cases = append(cases, lateCase{Objects: 1, PerObject: 3500, Corrupt: 0, Mode: "tail", Pad: 300, Format: f, Ctrl: ctrl})
		}
	}
	for i := 0; i < c.N(5, 60); i++ {
		n := 2 + c.Rng.Intn(4)
		cases = append(cases, lateCase{
			Objects: n, PerObject: 5 + c.Rng.Intn(400), Corrupt: 1 + c.Rng.Intn(n-1),
			Mode: []string{"truncate", "empty", "remove", "tail"}[c.Rng.Intn(4)], Pad: c.Rng.Intn(3) * 1500,
			Format: respFormats[c.Rng.Intn(len(respFormats))], Ctrl: c.Rng.Intn(2) == 0,
		})
	}
	results := make([]*lateResult, len(cases))
	ParallelDo(len(cases), 6, func(i int) {
		results[i] = lateRun(cases[i])
		if results[i].harnessPanic() {
			// environment trouble (temp space, descriptors, time-outs under load) must not
			// look like a defect: the case is run again and only a repeated panic is reported
			results[i] = lateRun(cases[i])
			results[i].Stat("late:retried-after-harness-panic")
		}
	})
	for i, lc := range cases {
		reportLate(c, lc, results[i])
	}
}

type lateResult struct {
	stats []string
	fails [][3]string // kind, key, what
}

func (r *lateResult) harnessPanic() bool {
	for _, f := range r.fails {
		if f[0] == "harness-panic" {
			return true
		}
	}
	return false
}

func (r *lateResult) Stat(s string) { r.stats = append(r.stats, s) }
func (r *lateResult) Fail(kind, key, what string, _ any) {
	r.fails = append(r.fails, [3]string{kind, key, what})
}

func reportLate(c *Ctx, lc lateCase, r *lateResult) {
	c.Eval(fmt.Sprintf("late|%+v", lc))
	for _, s := range r.stats {
		c.Stat(s)
	}
	for _, f := range r.fails {
		c.Fail(f[0], f[1], f[2], lc)
	}
}

func runLateCase(c *Ctx, lc lateCase) { reportLate(c, lc, lateRun(lc)) }

func lateRun(lc lateCase) (c *lateResult) {
	c = &lateResult{}
	defer func() {
		if r := recover(); r != nil {
			c.Fail("harness-panic", "C19:late:harness-panic", fmt.Sprintf("late %+v: panic in the harness: %v\n%s", lc, r, Stack()), nil)
		}
	}()
	lateRun1(c, lc)
	return c
}

func lateRun1(c *lateResult, lc lateCase) {
	rem, err := newRemote()
	if err != nil {
		panic(err)
	}
	defer rem.close()
	fail := func(kind, key, what string) { c.Fail(kind, key, fmt.Sprintf("late %+v: %s", lc, what), lc) }
	if r := rem.exec(Op{Kind: "createPool", Pool: "p", Key: "k"}); r.Class != "ok" {
		fail("oracle", "C19:late:setup", "create pool: "+r.Err)
		return
	}
	k := 0
	pad := strings.Repeat("x", lc.Pad)
	var all []string
	for j := 0; j < lc.Objects; j++ {
		var recs []string
		for i := 0; i < lc.PerObject; i++ {
			k++
			rec := fmt.Sprintf(`{k:%d,s:"value-%d-%s",n:%d}`, k, k, pad, k%5)
			recs = append(recs, rec)
			all = append(all, rec)
		}
		if r := rem.exec(Op{Kind: "load", Pool: "p", Branch: "main", Format: "zng", Data: recs}); r.Class != "ok" {
			fail("oracle", "C19:late:setup", "load: "+r.Err)
			return
		}
	}
	ids, err := queryStrings(rem.lk, nil, "from p@main:objects | sort min | yield ksuid(id)")
	if err != nil || len(ids) != lc.Objects {
		fail("oracle", "C19:late:setup", fmt.Sprintf("objects: %v %v", ids, err))
		return
	}
	// sanity: the undamaged pool reads completely through the service
	if r := rem.exec(Op{Kind: "query", Src: "from p", Format: lc.Format, Ctrl: lc.Ctrl}); r.Class != "ok" || len(r.Values) != len(all) {
		fail("oracle", "C19:late:intact-read:"+lc.Format, fmt.Sprintf("intact pool: class %s, %d of %d values (%s)", r.Class, len(r.Values), len(all), r.Err))
		return
	}
	intact := rem.exec(Op{Kind: "query", Src: "from p", Format: lc.Format, Ctrl: lc.Ctrl}).Values
	id := strings.Trim(ids[lc.Corrupt%len(ids)], `"`)
	var path string
	filepath.Walk(rem.dir, func(p string, info os.FileInfo, err error) error {
		if err == nil && filepath.Base(p) == id+".zng" {
			path = p
		}
		return nil
	})
	if path == "" {
		fail("oracle", "C19:late:setup", "data object file not found for "+id)
		return
	}
	switch lc.Mode {
	case "truncate":
		st, _ := os.Stat(path)
		err = os.Truncate(path, st.Size()/2)
	case "tail":
		st, _ := os.Stat(path)
		err = os.Truncate(path, st.Size()-st.Size()/20)
	case "empty":
		err = os.Truncate(path, 0)
	case "remove":
		err = os.Remove(path)
	}
	if err != nil {
		panic(err)
	}
	// direct access to the same lake
	direct, err := lakeapi.OpenLocalLake(context.Background(), zap.NewNop(), rem.dir)
	if err != nil {
		panic(err)
	}
	dvals, derr := queryStrings(direct, nil, "from p")
	c.Stat("late:mode:" + lc.Mode)
	if derr == nil {
		// the damage did not make direct access fail (e.g. truncation on a frame boundary):
		// nothing to deliver
		c.Stat("late:direct-access-no-error")
		return
	}
	c.Stat("late:direct-access-error")
	c.Stat(fmt.Sprintf("late:direct-values-before-error:%s", bucket(len(dvals))))
	// through the service
	ctx, cancel := ctxT()
	defer cancel()
	qpath := "/query?ctrl=F"
	if lc.Ctrl {
		qpath = "/query?ctrl=T"
	}
	req := rem.conn.NewRequest(ctx, http.MethodPost, qpath, api.QueryRequest{Query: "from p"})
	req.Header.Set("Accept", mediaType(lc.Format))
	resp, err := rem.conn.Do(req)
	if err != nil {
		// an error status: the error was delivered before streaming started
		c.Stat("late:delivered-as-status")
		return
	}
	body, rerr := io.ReadAll(resp.Body)
	resp.Body.Close()
	reqID := resp.Header.Get(api.RequestIDHeader)
	if rerr != nil {
		c.Stat("late:delivered-as-transport-error")
		return
	}
	vals, _, lateErr, derr2 := decodeResponse(ctx, lc.Format, body)
	if derr2 != nil {
		// the partial body is not even well-formed in its format: the client does notice
		c.Stat(fmt.Sprintf("late:malformed-partial-body:%s", lc.Format))
		return
	}
	c.Stat(fmt.Sprintf("late:remote-values-before-error:%s", bucket(len(vals))))
	// whatever arrived must be a prefix of the intact result
	for i, v := range vals {
		if i >= len(intact) || intact[i] != v {
			fail("oracle", "C19:late-error:garbled:"+lc.Format, fmt.Sprintf("value %d of the partial response is not value %d of the intact result", i, i))
			return
		}
	}
	if lateErr != nil {
		c.Stat(fmt.Sprintf("late:delivered-in-band:%s:ctrl=%v", lc.Format, lc.Ctrl))
	} else {
		// out of band: GET /query/status/<request id>
		status := ""
		if reqID != "" {
			sreq := rem.conn.NewRequest(ctx, http.MethodGet, "/query/status/"+reqID, nil)
			sreq.Header.Set("Accept", api.MediaTypeJSON)
			if sresp, err := rem.conn.Do(sreq); err == nil {
				b, _ := io.ReadAll(sresp.Body)
				sresp.Body.Close()
				var qe api.QueryError
				if json.Unmarshal(b, &qe) == nil {
					status = qe.Error
				}
			}
		}
		side := "the /query/status endpoint does not report it either"
		if status != "" {
			side = fmt.Sprintf("only GET /query/status/%s (kept for 10 s) reports %q", reqID, clip(status))
			c.Stat("late:status-endpoint-has-error")
		}
		fail("oracle", fmt.Sprintf("C19:late-error:dropped:%s:ctrl=%v", lc.Format, lc.Ctrl),
			fmt.Sprintf("direct access fails with %q after %d values; the service answers 200 with %d of %d values and no error in the %s response (ctrl=%v); %s",
				clip(derr.Error()), len(dvals), len(vals), len(all), lc.Format, lc.Ctrl, side))
		if status == "" {
			fail("oracle", "C19:late-error:status-endpoint-silent:"+lc.Format, "the query status endpoint does not report the late error")
		}
	}
}

func bucket(n int) string {
	switch {
	case n == 0:
		return "0"
	case n < 100:
		return "1-99"
	default:
		return "100+"
	}
}
