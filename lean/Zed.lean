import Zed.Model.Sexp
import Zed.Model.Pruner
import Zed.Props.C16
