import Zed.Model.AggJoin
namespace Zed.Proofs.AggJoin
open Zed.Join Zed.Agg
variable {K A B : Type}

theorem eqv_comm (le : K → K → Bool) (a b : K) : eqv le a b = eqv le b a := by
  simp [eqv, Bool.and_comm]

/-- on a sorted list all of whose keys are `≥ k`, the leading run of `k`-equivalent rows is
    exactly the filter, and dropping it loses no row matching a strictly larger key -/
theorem run_spec (le : K → K → Bool) (hle : TotalPreorder le) (k : K) (L : List (K × B))
    (hs : L.Pairwise (fun a b => le a.1 b.1 = true)) (hk : ∀ x ∈ L, le k x.1 = true) :
    L.takeWhile (fun x => eqv le x.1 k) = L.filter (fun b => eqv le k b.1) ∧
    (L.dropWhile (fun x => eqv le x.1 k)).Pairwise (fun a b => le a.1 b.1 = true) ∧
    ∀ k', le k k' = true → eqv le k' k = false →
      (L.dropWhile (fun x => eqv le x.1 k)).filter (fun b => eqv le k' b.1)
        = L.filter (fun b => eqv le k' b.1) := by
  induction L with
  | nil => simp
  | cons x xs ih =>
    have hs' := List.pairwise_cons.mp hs
    have ih' := ih hs'.2 (fun y hy => hk y (List.mem_cons_of_mem _ hy))
    have hkx := hk x List.mem_cons_self
    have htr := hle.trans
    by_cases hq : eqv le x.1 k = true
    · have hq' : eqv le k x.1 = true := by rw [eqv_comm]; exact hq
      refine ⟨?_, ?_, ?_⟩
      · simp [hq, hq', ih'.1]
      · simp [hq, ih'.2.1]
      · intro k' h1 h2
        have : eqv le k' x.1 = false := by
          simp only [eqv, Bool.and_eq_true, Bool.and_eq_false_iff] at *
          grind
        simp [hq, this, ih'.2.2 k' h1 h2]
    · have hnone : ∀ y ∈ x :: xs, eqv le k y.1 = false := by
        intro y hy
        have hxy : y = x ∨ le x.1 y.1 = true := by
          rcases List.mem_cons.mp hy with h | h
          · exact Or.inl h
          · exact Or.inr (hs'.1 y h)
        simp only [eqv, Bool.and_eq_true, Bool.and_eq_false_iff] at *
        grind
      refine ⟨?_, ?_, ?_⟩
      · rw [List.takeWhile_cons, if_neg hq]
        symm
        apply List.filter_eq_nil_iff.mpr
        intro y hy; simp [hnone y hy]
      · rw [List.dropWhile_cons, if_neg hq]; exact hs
      · intro k' _ _
        simp [hq]

/-- specification of `seek` on a sorted right input -/
theorem seek_spec (le : K → K → Bool) (hle : TotalPreorder le) (k : K) (R : List (K × B))
    (hs : R.Pairwise (fun a b => le a.1 b.1 = true)) :
    (seek le k R).1 = (if R.filter (fun b => eqv le k b.1) = [] then none
                        else some (R.filter (fun b => eqv le k b.1))) ∧
    (seek le k R).2.Pairwise (fun a b => le a.1 b.1 = true) ∧
    ∀ k', le k k' = true → ((seek le k R).1 = none ∨ eqv le k' k = false) →
      (seek le k R).2.filter (fun b => eqv le k' b.1) = R.filter (fun b => eqv le k' b.1) := by
  induction R with
  | nil => simp [seek]
  | cons r rest ih =>
    have hs' := List.pairwise_cons.mp hs
    have ih' := ih hs'.2
    have htr := hle.trans
    have htot := hle.total
    unfold seek
    by_cases h1 : eqv le k r.1 = true
    · rw [if_pos h1]
      have hk : ∀ x ∈ r :: rest, le k x.1 = true := by
        intro y hy
        have hxy : y = r ∨ le r.1 y.1 = true := by
          rcases List.mem_cons.mp hy with h | h
          · exact Or.inl h
          · exact Or.inr (hs'.1 y h)
        simp only [eqv, Bool.and_eq_true] at h1
        grind
      have hrun := run_spec le hle k (r :: rest) hs hk
      have hne : (r :: rest).filter (fun b => eqv le k b.1) ≠ [] := by
        simp [h1]
      refine ⟨?_, hrun.2.1, ?_⟩
      · simp only [if_neg hne, hrun.1]
      · intro k' hk' hor
        rcases hor with h | h
        · simp at h
        · exact hrun.2.2 k' hk' h
    · rw [if_neg h1]
      by_cases h2 : lt le k r.1 = true
      · rw [if_pos h2]
        have hnone : ∀ y ∈ r :: rest, eqv le k y.1 = false := by
          intro y hy
          have hxy : y = r ∨ le r.1 y.1 = true := by
            rcases List.mem_cons.mp hy with h | h
            · exact Or.inl h
            · exact Or.inr (hs'.1 y h)
          simp only [eqv, lt, Bool.and_eq_true, Bool.and_eq_false_iff, Bool.not_eq_true'] at *
          grind
        have hnil : (r :: rest).filter (fun b => eqv le k b.1) = [] := by
          apply List.filter_eq_nil_iff.mpr
          intro y hy; simp [hnone y hy]
        refine ⟨?_, hs, ?_⟩
        · simp only [hnil, if_true]
        · intro k' _ _; rfl
      · rw [if_neg h2]
        have hrk : le k r.1 = false := by
          simp only [eqv, lt, Bool.and_eq_true, Bool.not_eq_true'] at h1 h2
          grind
        have hf : ∀ k', le k k' = true → eqv le k' r.1 = false := by
          intro k' hk'
          simp only [eqv, Bool.and_eq_false_iff]
          grind
        have hfk := hf k (hle.refl k)
        refine ⟨?_, ih'.2.1, ?_⟩
        · simp only [List.filter_cons, hfk]; exact ih'.1
        · intro k' hk' hor
          simp only [List.filter_cons, hf k' hk']
          exact ih'.2.2 k' hk' hor

/-- loop invariant of the merge join: `R` is the full right input, `F` the set of left keys still
    to come -/
structure Inv (le : K → K → Bool) (R : List (K × B)) (st : JState K B) (F : K → Prop) : Prop where
  sorted : st.right.Pairwise (fun a b => le a.1 b.1 = true)
  filt : ∀ k, F k → (∀ jk, st.joinKey = some jk → eqv le k jk = false) →
    st.right.filter (fun b => eqv le k b.1) = R.filter (fun b => eqv le k b.1)
  key : ∀ jk, st.joinKey = some jk → (∀ k, F k → le jk k = true) ∧ st.joinSet ≠ [] ∧
    st.joinSet = R.filter (fun b => eqv le jk b.1)

theorem Inv.mono {le : K → K → Bool} {R : List (K × B)} {st : JState K B} {F F' : K → Prop}
    (h : Inv le R st F) (hF : ∀ k, F' k → F k) : Inv le R st F' :=
  ⟨h.sorted, fun k hk => h.filt k (hF k hk),
   fun jk hjk => ⟨fun k hk => (h.key jk hjk).1 k (hF k hk), (h.key jk hjk).2⟩⟩

theorem filter_eqv_congr (le : K → K → Bool) (hle : TotalPreorder le) (R : List (K × B)) (k jk : K)
    (h : eqv le k jk = true) :
    R.filter (fun b => eqv le k b.1) = R.filter (fun b => eqv le jk b.1) := by
  apply List.filter_congr
  intro x _
  have htr := hle.trans
  simp only [eqv, Bool.and_eq_true] at h
  simp only [eqv]
  grind

theorem step_found (le : K → K → Bool) (hle : TotalPreorder le) (R : List (K × B))
    (st : JState K B) (F F' : K → Prop) (k : K) (js r : List (K × B))
    (hinv : Inv le R st F) (hk : F k)
    (hno : ∀ jk, st.joinKey = some jk → eqv le k jk = false)
    (hF : ∀ k', F' k' → F k' ∧ le k k' = true)
    (hseek : seek le k st.right = (some js, r)) :
    js = R.filter (fun b => eqv le k b.1) ∧ R.filter (fun b => eqv le k b.1) ≠ [] ∧
    Inv le R { right := r, joinKey := some k, joinSet := js } F' := by
  have hsp := seek_spec le hle k st.right hinv.sorted
  rw [hseek, hinv.filt k hk hno] at hsp
  have htr := hle.trans
  obtain ⟨h1, h2, h3⟩ := hsp
  have hne : R.filter (fun b => eqv le k b.1) ≠ [] := by
    intro h; simp [h] at h1
  have hjs : js = R.filter (fun b => eqv le k b.1) := by
    simpa [hne] using h1
  refine ⟨hjs, hne, ⟨h2, ?_, ?_⟩⟩
  · intro k' hk' hno'
    have hk'k : eqv le k' k = false := hno' k rfl
    have := h3 k' (hF k' hk').2 (Or.inr hk'k)
    simp only at this ⊢
    rw [this]
    apply hinv.filt k' (hF k' hk').1
    intro jk hjk
    have hjkk := (hinv.key jk hjk).1 k hk
    have := hno jk hjk
    have := (hF k' hk').2
    simp only [eqv, Bool.and_eq_false_iff] at *
    grind
  · intro jk hjk
    simp only [Option.some.injEq] at hjk
    subst hjk
    exact ⟨fun k' hk' => (hF k' hk').2, hjs ▸ hne, hjs⟩

theorem step_none (le : K → K → Bool) (hle : TotalPreorder le) (R : List (K × B))
    (st : JState K B) (F F' : K → Prop) (k : K) (r : List (K × B))
    (hinv : Inv le R st F) (hk : F k)
    (hno : ∀ jk, st.joinKey = some jk → eqv le k jk = false)
    (hF : ∀ k', F' k' → F k' ∧ le k k' = true)
    (hseek : seek le k st.right = (none, r)) :
    R.filter (fun b => eqv le k b.1) = [] ∧ Inv le R { st with right := r } F' := by
  have hsp := seek_spec le hle k st.right hinv.sorted
  rw [hseek, hinv.filt k hk hno] at hsp
  obtain ⟨h1, h2, h3⟩ := hsp
  have hnil : R.filter (fun b => eqv le k b.1) = [] := by
    by_cases h : R.filter (fun b => eqv le k b.1) = []
    · exact h
    · simp [h] at h1
  refine ⟨hnil, ⟨h2, ?_, ?_⟩⟩
  · intro k' hk' hno'
    have := h3 k' (hF k' hk').2 (Or.inl rfl)
    simp only at this ⊢
    rw [this]
    exact hinv.filt k' (hF k' hk').1 hno'
  · intro jk hjk
    exact ⟨fun k' hk' => (hinv.key jk hjk).1 k' (hF k' hk').1, (hinv.key jk hjk).2⟩

theorem step (le : K → K → Bool) (hle : TotalPreorder le) (R : List (K × B))
    (st : JState K B) (F F' : K → Prop) (k : K)
    (hinv : Inv le R st F) (hk : F k)
    (hF : ∀ k', F' k' → F k' ∧ le k k' = true) :
    (getJoinSet le st k).1 = (if R.filter (fun b => eqv le k b.1) = [] then none
                               else some (R.filter (fun b => eqv le k b.1))) ∧
    Inv le R (getJoinSet le st k).2 F' := by
  unfold getJoinSet
  split
  · rename_i jk hjk
    split
    · rename_i he
      obtain ⟨_, hne, hjs⟩ := hinv.key jk hjk
      have hc := filter_eqv_congr le hle R k jk he
      refine ⟨?_, hinv.mono (fun k' hk' => (hF k' hk').1)⟩
      simp only
      rw [hc, ← hjs, if_neg hne]
    · rename_i he
      have hno : ∀ jk', st.joinKey = some jk' → eqv le k jk' = false := by
        intro jk' h; rw [hjk] at h; simp only [Option.some.injEq] at h; subst h; simpa using he
      split
      · rename_i js r hseek
        obtain ⟨h1, h2, h3⟩ := step_found le hle R st F F' k js r hinv hk hno hF hseek
        exact ⟨by simp only [if_neg h2, h1], h3⟩
      · rename_i r hseek
        obtain ⟨h1, h3⟩ := step_none le hle R st F F' k r hinv hk hno hF hseek
        exact ⟨by simp only [h1, if_true], h3⟩
  · rename_i hjk
    have hno : ∀ jk', st.joinKey = some jk' → eqv le k jk' = false := by
      intro jk' h; rw [hjk] at h; cases h
    split
    · rename_i js r hseek
      obtain ⟨h1, h2, h3⟩ := step_found le hle R st F F' k js r hinv hk hno hF hseek
      exact ⟨by simp only [if_neg h2, h1], h3⟩
    · rename_i r hseek
      obtain ⟨h1, h3⟩ := step_none le hle R st F F' k r hinv hk hno hF hseek
      exact ⟨by simp only [h1, if_true], h3⟩

theorem mergeJoinAux_cons (le : K → K → Bool) (kind : Kind) (st : JState K B) (a : K × A)
    (rest : List (K × A)) :
    mergeJoinAux le kind st (a :: rest)
      = emit kind a (getJoinSet le st a.1).1 ++ mergeJoinAux le kind (getJoinSet le st a.1).2 rest := by
  rw [mergeJoinAux]

theorem emit_eq (kind : Kind) (a : K × A) (ms : List (K × B)) :
    emit kind a (if ms = [] then none else some ms)
      = (if ms.isEmpty then (if kind = .inner then [] else [.bare a])
         else (if kind = .anti then [] else ms.map fun b => .pair a b)) := by
  cases ms <;> simp [emit]

theorem mergeJoinAux_eq (le : K → K → Bool) (hle : TotalPreorder le) (kind : Kind)
    (R : List (K × B)) (l : List (K × A)) (st : JState K B)
    (hl : l.Pairwise (fun a b => le a.1 b.1 = true))
    (hinv : Inv le R st (fun k => ∃ a ∈ l, a.1 = k)) :
    mergeJoinAux le kind st l = nestedLoop le kind l R := by
  induction l generalizing st with
  | nil => simp [mergeJoinAux, nestedLoop]
  | cons a rest ih =>
    have hl' := List.pairwise_cons.mp hl
    have hstep := step le hle R st _ (fun k => ∃ a ∈ rest, a.1 = k) a.1 hinv
      ⟨a, List.mem_cons_self, rfl⟩
      (by
        rintro k' ⟨b, hb, rfl⟩
        exact ⟨⟨b, List.mem_cons_of_mem _ hb, rfl⟩, hl'.1 b hb⟩)
    rw [mergeJoinAux_cons, ih _ hl'.2 hstep.2, hstep.1, emit_eq]
    simp only [nestedLoop, List.flatMap_cons]

/-- merge join over sorted inputs = nested-loop join (as lists, in left order then right order) -/
theorem join_naive (le : K → K → Bool) (hle : TotalPreorder le) (kind : Kind)
    (l : List (K × A)) (r : List (K × B))
    (hl : l.Pairwise (fun a b => le a.1 b.1 = true))
    (hr : r.Pairwise (fun a b => le a.1 b.1 = true)) :
    mergeJoin le kind l r = nestedLoop le kind l r := by
  unfold mergeJoin
  apply mergeJoinAux_eq le hle kind r l _ hl
  exact ⟨hr, fun _ _ _ => rfl, fun jk hjk => by cases hjk⟩

/-- non-vacuity: a concrete instance with duplicate keys on both sides -/
example :
    let le : Int → Int → Bool := fun a b => decide (a ≤ b)
    let l : List (Int × String) := [(1, "a"), (2, "b"), (2, "c"), (4, "d")]
    let r : List (Int × Nat) := [(0, 0), (2, 10), (2, 11), (3, 12), (4, 13)]
    TotalPreorder le ∧
    l.Pairwise (fun a b => le a.1 b.1 = true) ∧ r.Pairwise (fun a b => le a.1 b.1 = true) ∧
    mergeJoin le .left l r =
      [.bare (1, "a"),
       .pair (2, "b") (2, 10), .pair (2, "b") (2, 11),
       .pair (2, "c") (2, 10), .pair (2, "c") (2, 11),
       .pair (4, "d") (4, 13)] ∧
    mergeJoin le .left l r = nestedLoop le .left l r := by
  refine ⟨intLe_totalPreorder, by decide, by decide, by decide, ?_⟩
  exact join_naive _ intLe_totalPreorder _ _ _ (by decide) (by decide)
end Zed.Proofs.AggJoin
