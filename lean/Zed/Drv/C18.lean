import Zed.Model.Sexp
import Zed.Model.Sink
/-!
  Driver glue for C18.
  `(C18 zng <thresh> <mode> <k> (w t v) … e c)`   → per-op `err:calls` list
  `(C18 direct <pkg> <mode> <k> n1 n2 …)`          → same, each op making n_i sink calls
  `(C18 buf <pkg> <cap> <mode> <k> n1 n2 … c)`     → same, each op appending n_i bytes
  mode = oneshot | sticky (a short write fails the same call as one-shot); k = -1: no failure.
-/
namespace Zed.Drv.C18
open Zed Zed.Sink

def oracleOf (mode : String) (k : Int) : Option Oracle :=
  if k < 0 then some (fun _ => false)
  else match mode with
    | "oneshot" => some (oneShot k.toNat)
    | "short" => some (oneShot k.toNat)
    | "sticky" => some (stickyFrom k.toNat)
    | _ => none

def fmt (rs : List (Bool × Nat)) : String :=
  " ".intercalate (rs.map fun (e, n) => (if e then "1" else "0") ++ ":" ++ toString n)

def zngOp : Sexp → Option ZngOp
  | .list [.atom "w", .atom t, .atom v] => do pure (.write (← t.toNat?) (← v.toNat?))
  | .atom "e" => some .endStream
  | .atom "c" => some .close
  | _ => none

def zngTrace (cfg : ZngCfg) (fail : Oracle) : List ZngOp → ZngState → List (Bool × Nat)
  | [], _ => []
  | op :: ops, s =>
    let (s1, e) := zStep cfg fail s op
    (e, s1.next - s.next) :: zngTrace cfg fail ops s1

def directTrace (fail : Oracle) (h : Handling) : List Nat → Nat → List (Bool × Nat)
  | [], _ => []
  | c :: cs, n =>
    let r := runSteps fail (List.replicate c h) n
    (r.err, r.next - n) :: directTrace fail h cs r.next

def bufOp : Sexp → Option BufOp
  | .atom "c" => some .close
  | .atom n => do pure (.write (← n.toNat?))
  | _ => none

def bufTrace (cr : Bool) (fail : Oracle) : List BufOp → BufState → List (Bool × Nat)
  | [], _ => []
  | op :: ops, s =>
    let (s1, e) := bStep cr fail s op
    (e, s1.next - s.next) :: bufTrace cr fail ops s1

def handle : List Sexp → String
  | .atom "zng" :: .atom thresh :: .atom mode :: .atom k :: ops =>
    match thresh.toNat?, k.toInt?, ops.mapM zngOp with
    | some t, some k, some ops =>
      match oracleOf mode k with
      | some f => fmt (zngTrace ⟨t, genZngSites⟩ f ops {})
      | none => "bad-op"
    | _, _, _ => "bad-op"
  | .atom "direct" :: .atom pkg :: .atom mode :: .atom k :: ns =>
    match k.toInt?, ns.mapM (fun | .atom n => n.toNat? | _ => none) with
    | some k, some ns =>
      match oracleOf mode k with
      | some f => fmt (directTrace f (if pkgAllReturned pkg ["Abort"] then .returned else .dropped) ns 0)
      | none => "bad-op"
    | _, _ => "bad-op"
  | .atom "buf" :: .atom pkg :: .atom cap :: .atom mode :: .atom k :: ops =>
    match cap.toNat?, k.toInt?, ops.mapM bufOp with
    | some cap, some k, some ops =>
      match oracleOf mode k with
      | some f => fmt (bufTrace (pkgAllReturned pkg []) f ops { cap := cap })
      | none => "bad-op"
    | _, _, _ => "bad-op"
  | _ => "bad-op"

end Zed.Drv.C18
