/-
  Unfolding `Store.Snapshot` / `Store.Path` one commit at a time (the fold along the parent
  chain), and the snapshot cache.  Helper lemmas for C13 / C15.
-/
import Zed.Proofs.LakeBasic
namespace Zed.Lake
variable {K : Type}

theorem foldl_stepSnaps_prefix (l : List (Commit K)) (acc : List (Except Err (Snap K))) :
    ∃ ext, l.foldl stepSnaps acc = acc ++ ext := by
  induction l generalizing acc with
  | nil => exact ⟨[], by simp⟩
  | cons c cs ih =>
    obtain ⟨ext, h⟩ := ih (stepSnaps acc c)
    refine ⟨commitSnap acc c :: ext, ?_⟩
    rw [List.foldl_cons, h]
    simp [stepSnaps]

theorem snapsOf_split (a b : List (Commit K)) : ∃ ext, snapsOf (a ++ b) = snapsOf a ++ ext := by
  unfold snapsOf
  rw [List.foldl_append]
  exact foldl_stepSnaps_prefix b _

/-- the snapshots of a prefix of the store are a prefix of the snapshots of the store -/
theorem parentSnap_prefix (a b : List (Commit K)) (p : Nat) (h : p ≤ a.length) :
    parentSnap (snapsOf (a ++ b)) p = parentSnap (snapsOf a) p := by
  obtain ⟨ext, he⟩ := snapsOf_split a b
  rw [he]
  unfold parentSnap
  by_cases hp : p = 0
  · simp [hp]
  · simp only [hp, if_false]
    rw [List.getElem?_append_left (by rw [snapsOf_length]; omega)]

theorem snapAt_mid (pre post : List (Commit K)) (co : Commit K) :
    snapAt (pre ++ [co] ++ post) (pre.length + 1) =
      if co.parent < pre.length + 1 then
        (match snapAt (pre ++ [co] ++ post) co.parent with
         | .ok s => play s co.acts
         | .error e => .error e)
      else .error .badParent := by
  have h1 : snapAt (pre ++ [co] ++ post) (pre.length + 1) = commitSnap (snapsOf pre) co := by
    unfold snapAt
    rw [parentSnap_prefix (pre ++ [co]) post _ (by simp)]
    exact snapAt_new pre co
  rw [h1]
  unfold commitSnap
  by_cases hp : co.parent < pre.length + 1
  · simp only [hp, if_true]
    have : snapAt (pre ++ [co] ++ post) co.parent = parentSnap (snapsOf pre) co.parent := by
      unfold snapAt
      rw [List.append_assoc, parentSnap_prefix pre _ co.parent (by omega)]
    rw [this]
    cases parentSnap (snapsOf pre) co.parent <;> rfl
  · simp only [hp, if_false]
    have : parentSnap (snapsOf pre) co.parent = .error .badParent := by
      unfold parentSnap
      have h0 : co.parent ≠ 0 := by omega
      simp only [h0, if_false]
      have : (snapsOf pre)[co.parent - 1]? = none := by
        rw [List.getElem?_eq_none_iff, snapsOf_length]; omega
      rw [this]
    rw [this]

theorem getCommit_split (cs : List (Commit K)) (c : Nat) (co : Commit K) (h : getCommit cs c = some co) :
    ∃ pre post, cs = pre ++ [co] ++ post ∧ pre.length + 1 = c := by
  unfold getCommit at h
  split at h
  · cases h
  · rename_i hc
    have hlt : c - 1 < cs.length := (List.getElem?_eq_some_iff.mp h).1
    have hget : cs[c - 1] = co := (List.getElem?_eq_some_iff.mp h).2
    refine ⟨cs.take (c - 1), cs.drop c, ?_, by rw [List.length_take]; omega⟩
    have : cs.drop (c - 1) = co :: cs.drop c := by
      rw [List.drop_eq_getElem_cons hlt, hget]
      congr 2; omega
    rw [List.append_assoc, List.singleton_append, ← this, List.take_append_drop]

/-- **unfolding `Store.Snapshot`**: the snapshot of commit `c` is its parent's snapshot with its
    actions played; the parent must be an older commit -/
theorem snapAt_unfold (cs : List (Commit K)) (c : Nat) (co : Commit K) (h : getCommit cs c = some co) :
    snapAt cs c = if co.parent < c then
        (match snapAt cs co.parent with
         | .ok s => play s co.acts
         | .error e => .error e)
      else .error .badParent := by
  obtain ⟨pre, post, hcs, hc⟩ := getCommit_split cs c co h
  subst hcs; subst hc
  exact snapAt_mid pre post co

/-! ### paths -/

theorem pathsOf_append (cs : List (Commit K)) (c : Commit K) :
    pathsOf (cs ++ [c]) = stepPaths (pathsOf cs) c := by
  simp [pathsOf, List.foldl_append]

theorem foldl_stepPaths_length (cs : List (Commit K)) (acc : List (List Nat)) :
    (cs.foldl stepPaths acc).length = acc.length + cs.length := by
  induction cs generalizing acc with
  | nil => simp
  | cons c cs ih => simp [List.foldl_cons, ih, stepPaths]; omega

theorem pathsOf_length (cs : List (Commit K)) : (pathsOf cs).length = cs.length := by
  simp [pathsOf, foldl_stepPaths_length]

theorem foldl_stepPaths_prefix (l : List (Commit K)) (acc : List (List Nat)) :
    ∃ ext, l.foldl stepPaths acc = acc ++ ext := by
  induction l generalizing acc with
  | nil => exact ⟨[], by simp⟩
  | cons c cs ih =>
    obtain ⟨ext, h⟩ := ih (stepPaths acc c)
    refine ⟨((acc.length + 1) :: parentPath acc c.parent) :: ext, ?_⟩
    rw [List.foldl_cons, h]
    simp [stepPaths]

theorem parentPath_prefix (a b : List (Commit K)) (p : Nat) (h : p ≤ a.length) :
    parentPath (pathsOf (a ++ b)) p = parentPath (pathsOf a) p := by
  have : ∃ ext, pathsOf (a ++ b) = pathsOf a ++ ext := by
    unfold pathsOf; rw [List.foldl_append]; exact foldl_stepPaths_prefix b _
  obtain ⟨ext, he⟩ := this
  rw [he]
  unfold parentPath
  by_cases hp : p = 0
  · simp [hp]
  · simp only [hp, if_false]
    rw [List.getElem?_append_left (by rw [pathsOf_length]; omega)]

/-- appending a commit does not change the path of an existing commit -/
theorem pathAt_append (cs : List (Commit K)) (c : Commit K) (k : Nat) (h : k ≤ cs.length) :
    pathAt (cs ++ [c]) k = pathAt cs k := by
  unfold pathAt
  exact parentPath_prefix cs [c] k h

/-- the path of the appended commit: itself, then its parent's path -/
theorem pathAt_new (cs : List (Commit K)) (c : Commit K) :
    pathAt (cs ++ [c]) (cs.length + 1) = (cs.length + 1) :: parentPath (pathsOf cs) c.parent := by
  unfold pathAt
  rw [pathsOf_append, stepPaths, parentPath]
  have h1 : cs.length + 1 ≠ 0 := by omega
  simp only [h1, if_false, Nat.add_sub_cancel]
  rw [List.getElem?_append_right (by rw [pathsOf_length]; omega)]
  simp [pathsOf_length]

/-! ### the snapshot cache -/

/-- `Store.Snapshot(leaf)` with its caches (the in-memory LRU and the persisted `.snap.zng`
    files, both keyed by commit id): a hit is returned as is; otherwise the walk toward the
    root stops at the first ancestor with a cache entry, whose snapshot is COPIED and the
    later commits are replayed on the copy.  (`fuel` bounds the walk; ids decrease.) -/
def snapCached (cache : List (Nat × Snap K)) (cs : List (Commit K)) : Nat → Nat → Except Err (Snap K)
  | _, 0 => .ok Snap.empty
  | 0, _ + 1 => .error .badParent
  | fuel + 1, c + 1 =>
    match cache.find? (·.1 == c + 1) with
    | some (_, s) => .ok s
    | none =>
      match getCommit cs (c + 1) with
      | none => .error .badParent
      | some co =>
        if co.parent < c + 1 then
          match snapCached cache cs fuel co.parent with
          | .ok s => play s co.acts
          | .error e => .error e
        else .error .badParent

theorem snapAt_none (cs : List (Commit K)) (c : Nat) (h0 : c ≠ 0) (h : getCommit cs c = none) :
    snapAt cs c = .error .badParent := by
  unfold getCommit at h
  simp only [h0, if_false] at h
  unfold snapAt parentSnap
  simp only [h0, if_false]
  have : (snapsOf cs)[c - 1]? = none := by
    rw [List.getElem?_eq_none_iff, snapsOf_length]
    exact List.getElem?_eq_none_iff.mp h
  rw [this]

/-- **cache_correct**: if every cache entry is the fold of the commit chain it is keyed by,
    `Store.Snapshot` with the cache returns exactly the fold — for every commit, whatever
    subset of commits has entries -/
theorem snapCached_correct (cache : List (Nat × Snap K)) (cs : List (Commit K))
    (hc : ∀ e ∈ cache, snapAt cs e.1 = .ok e.2) (fuel c : Nat) (hf : c ≤ fuel) :
    snapCached cache cs fuel c = snapAt cs c := by
  induction fuel generalizing c with
  | zero =>
    have : c = 0 := by omega
    subst this
    simp [snapCached, snapAt, parentSnap]
  | succ n ih =>
    cases c with
    | zero => simp [snapCached, snapAt, parentSnap]
    | succ c =>
      unfold snapCached
      cases hfind : cache.find? (·.1 == c + 1) with
      | some e =>
        obtain ⟨k, s⟩ := e
        have hm := List.mem_of_find?_eq_some hfind
        have hk : k = c + 1 := by simpa using List.find?_some hfind
        subst hk
        simp only []
        exact (hc _ hm).symm
      | none =>
        simp only []
        cases hg : getCommit cs (c + 1) with
        | none => simp only []; exact (snapAt_none cs (c + 1) (by omega) hg).symm
        | some co =>
          simp only []
          rw [snapAt_unfold cs (c + 1) co hg]
          by_cases hp : co.parent < c + 1
          · simp only [hp, if_true]
            rw [ih co.parent (by omega)]
          · simp only [hp, if_false]

end Zed.Lake
