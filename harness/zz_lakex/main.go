package main

import (
	"fmt"
	. "verifharness/hlib"
)

func main() {
	in := `{k:1,v:1} {k:null(int64),v:2} {v:3} {k:5,v:4} {k:"s",v:5} {k:null,v:6}`
	for _, q := range []string{"where k < 3", "yield k < 3", "yield !(k<3) or missing(k<3)", "where !(k<3) or missing(k<3)", "where !(k<3)", "where k==null", "where !(k==null)", "where !(k < 3 or k > 4)", "yield !(k < 3 and k > 4)","where k!=1", "where !(k!=1)"} {
		out, err := QueryZSON(q, in)
		fmt.Println(q, "=>", out, err)
	}
}
