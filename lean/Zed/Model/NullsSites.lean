import Zed.Model.Compare
import Zed.Generated.C06
/-!
  Where the repository decides whether nulls compare as the maximum (`nullsMax`).

  `Comparator.Compare` swaps the operands of a descending key BEFORE `compareValues` applies
  `nullsMax`, so where nulls end up in the output depends on both: nulls follow the values of a
  key iff `nullsMax ≠ descending` (`nullsLast`).  Every construction of a comparator in the
  repository (regenerated: `Generated.C06.comparatorSites`) passes one of five things for
  `nullsMax` (`NullsRule`).
-/
namespace Zed

/-- nulls come after the non-null values of a key with direction `desc` under flag `nullsMax` -/
def nullsLast (nullsMax desc : Bool) : Bool := nullsMax != desc

inductive NullsRule where
  /-- a constant -/
  | always (b : Bool)
  /-- `sortKeys[0].Order == order.Asc` / `o == order.Asc`: max for ascending, min for descending -/
  | primaryAsc
  /-- `sort.Op.setComparator`: `!nullsFirst`, flipped when the first key (after `-r`) is descending -/
  | sortFlags
  /-- the constructor's own parameter (the wrappers `NewCompareFn`, `NewValueCompareFn`) -/
  | param
  /-- a wrapper around another site (`lake.ImportComparator`, `zbuf.NewComparator*`) -/
  | callee (name : String)
  deriving Repr, DecidableEq

/-- classification of the regenerated argument text -/
def NullsRule.ofText (callee text : String) : Option NullsRule :=
  if text = "true" then some (.always true)
  else if text = "false" then some (.always false)
  else if text = "o == order.Asc" ∨ text = "nullsMax := sortKeys[0].Order == order.Asc" then some .primaryAsc
  else if text = "nullsMax := !o.nullsFirst; if resolvers[0].Order == order.Desc nullsMax = !nullsMax" then some .sortFlags
  else if text = "parameter nullsMax" then some .param
  else if text = "(by callee)" then some (.callee callee)
  else none

/-- the flag a site passes: `nullsFirst`/`param` are what the site's caller supplies, `desc` the
    direction of the first key as the site sees it (for `sort`: after `-r`) -/
def NullsRule.flag (nullsFirst param desc : Bool) : NullsRule → Bool
  | .always b => b
  | .primaryAsc => !desc
  | .sortFlags => if desc then nullsFirst else !nullsFirst
  | .param => param
  | .callee n =>
    -- lake.ImportComparator = zbuf.NewComparatorNullsMax = always true; zbuf.NewComparator = primaryAsc
    if n = "zbuf.NewComparator" then !desc else true

/-- the sites whose order other components must agree with: the lake writer and reader, the kernel's
    merge, the compare() function's default and the optimizer's pruning predicate all treat null as
    the maximum -/
def nullIsMaxSites : List String :=
  ["lake/writer.go:NewWriter", "lake/writer.go:NewSortedWriter", "lake/writer.go:ImportComparator",
   "runtime/sam/op/meta/sequence.go:newObjectsScanner", "zbuf/merger.go:NewComparatorNullsMax",
   "compiler/kernel/op.go:Builder.compile", "runtime/sam/op/meta/lister.go:sortObjects",
   "runtime/sam/op/meta/slicer.go:NewSlicer", "runtime/sam/op/join/join.go:New",
   "runtime/sam/op/groupby/groupby.go:NewAggregator", "cmd/super/internal/lakemanage/scan.go:newRunBuilder"]

end Zed
