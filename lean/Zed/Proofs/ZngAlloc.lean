import Zed.Model.ZngReader
/-! Allocation requests of the ZNG parser are bounded by the configured read limit. -/
namespace Zed.Zng
open Zed.Generated.C01

theorem peekRead_ok_len {limit : Nat} {n : Int} {bs b rest : Bytes} (h : peekRead limit n bs = .ok b rest) :
    b.length ≤ limit ∧ 0 ≤ n ∧ b.length = n.toNat := by
  unfold peekRead at h
  split at h
  · cases h
  · rename_i hn
    split at h
    · rename_i hc
      cases h
      have := (hasLen_iff bs n.toNat).mp hc.2
      simp only [List.length_take]
      omega
    · split at h
      · cases h
      · split at h <;> cases h

theorem readPlainFrame_allocs {o : ROpts} {code : Nat} {bs : Bytes} :
    (∀ p rest al, readPlainFrame o code bs = .ok p rest al → (∀ a ∈ al, a ≤ o.maxSize) ∧ p.length ≤ o.maxSize) ∧
    (∀ e al, readPlainFrame o code bs = .stop e al → ∀ a ∈ al, a ≤ o.maxSize) := by
  unfold readPlainFrame
  constructor
  · intro p rest al h
    split at h
    · cases h
    · split at h
      · cases h
      · rename_i hsz
        split at h
        · rename_i hp
          cases h
          have := peekRead_ok_len hp
          constructor
          · intro a ha; simp at ha; subst ha; omega
          · omega
        · cases h
        · cases h
  · intro e al h
    split at h
    · cases h; intro a ha; cases ha
    · split at h
      · cases h; intro a ha; cases ha
      · split at h
        · cases h
        · cases h; intro a ha; cases ha
        · cases h; intro a ha; cases ha

theorem readCompHeader_bounds {o : ROpts} {code : Nat} {bs z rest : Bytes} {f : UInt8} {size : Int}
    (h : readCompHeader o code bs = .ok f z size rest) : z.length ≤ o.maxSize ∧ size ≤ Int.ofNat o.maxSize := by
  unfold readCompHeader at h
  split at h
  · cases h
  · split at h
    · cases h
    · split at h
      · cases h
      · cases h
      · simp only at h
        split at h
        · cases h
        · rename_i hsz
          split at h
          · rename_i hp; cases h; exact ⟨(peekRead_ok_len hp).1, by omega⟩
          · cases h; exact ⟨by simp, by omega⟩
          · cases h

theorem readCompFrame_allocs {o : ROpts} {decomp : Bytes → Nat → Option Bytes} {code : Nat} {bs : Bytes} :
    (∀ p rest al, readCompFrame o decomp code bs = .ok p rest al → (∀ a ∈ al, a ≤ o.maxSize) ∧ p.length ≤ o.maxSize) ∧
    (∀ e al, readCompFrame o decomp code bs = .stop e al → ∀ a ∈ al, a ≤ o.maxSize) := by
  unfold readCompFrame
  constructor
  · intro p rest al h
    split at h
    · cases h
    · rename_i hh
      have hb := readCompHeader_bounds hh
      have hsz : ∀ {s : Int}, s ≤ Int.ofNat o.maxSize → s.toNat ≤ o.maxSize := by intro s hs; simp at hs; omega
      split at h
      · cases h
      · split at h
        · cases h
        · split at h
          · cases h
          · rename_i hlen
            cases h
            have := hsz hb.2
            constructor
            · intro a ha; simp at ha; rcases ha with rfl | rfl <;> omega
            · simp at hlen; omega
  · intro e al h
    split at h
    · cases h; intro a ha; cases ha
    · rename_i hh
      have hb := readCompHeader_bounds hh
      have hsz : ∀ {s : Int}, s ≤ Int.ofNat o.maxSize → s.toNat ≤ o.maxSize := by intro s hs; simp at hs; omega
      have := hsz hb.2
      split at h
      · cases h; intro a ha; simp at ha; rcases ha with rfl | rfl <;> omega
      · split at h
        · cases h; intro a ha; simp at ha; rcases ha with rfl | rfl <;> omega
        · split at h
          · cases h; intro a ha; simp at ha; rcases ha with rfl | rfl <;> omega
          · cases h

theorem readFrame_allocs {o : ROpts} {decomp : Bytes → Nat → Option Bytes} {code : Nat} {bs : Bytes} :
    (∀ p rest al, readFrame o decomp code bs = .ok p rest al → (∀ a ∈ al, a ≤ o.maxSize) ∧ p.length ≤ o.maxSize) ∧
    (∀ e al, readFrame o decomp code bs = .stop e al → ∀ a ∈ al, a ≤ o.maxSize) := by
  unfold readFrame
  split
  · exact readCompFrame_allocs
  · exact readPlainFrame_allocs

theorem step_allocs {o : ROpts} {decomp : Bytes → Nat → Option Bytes} {ctx : Ctx} {code : UInt8} {bs : Bytes} :
    (∀ e al, step o decomp ctx code bs = .done e al → ∀ a ∈ al, a ≤ o.maxSize) ∧
    (∀ c vs al rest, step o decomp ctx code bs = .cont c vs al rest → ∀ a ∈ al, a ≤ o.maxSize) := by
  have nil : ∀ a ∈ ([] : List Nat), a ≤ o.maxSize := by intro a ha; cases ha
  unfold step
  simp only
  constructor
  · intro e al h
    split at h
    · cases h
    · split at h
      · cases h; exact nil
      · split at h
        · split at h
          · rename_i hf; cases h; exact readFrame_allocs.2 _ _ hf
          · rename_i hf
            have := (readFrame_allocs.1 _ _ _ hf).1
            split at h
            · cases h
            · cases h; exact this
            · cases h; exact this
        · split at h
          · split at h
            · rename_i hf; cases h; exact readFrame_allocs.2 _ _ hf
            · rename_i hf
              have hb := readFrame_allocs.1 _ _ _ hf
              split at h
              · cases h
              · cases h
                split
                · exact hb.1
                · intro a ha; simp at ha; rcases ha with ha | rfl
                  · exact hb.1 a ha
                  · exact hb.2
          · split at h
            · split at h
              · rename_i hf; cases h; exact readFrame_allocs.2 _ _ hf
              · rename_i hf
                have := (readFrame_allocs.1 _ _ _ hf).1
                split at h
                · cases h; exact this
                · cases h
            · cases h; exact nil
  · intro c vs al rest h
    split at h
    · cases h; exact nil
    · split at h
      · cases h
      · split at h
        · split at h
          · cases h
          · rename_i hf
            have := (readFrame_allocs.1 _ _ _ hf).1
            split at h
            · cases h; exact this
            · cases h
            · cases h
        · split at h
          · split at h
            · cases h
            · rename_i hf
              have hb := readFrame_allocs.1 _ _ _ hf
              split at h
              · cases h
                split
                · exact hb.1
                · intro a ha; simp at ha; rcases ha with ha | rfl
                  · exact hb.1 a ha
                  · exact hb.2
              · cases h
          · split at h
            · split at h
              · cases h
              · rename_i hf
                have := (readFrame_allocs.1 _ _ _ hf).1
                split at h
                · cases h
                · cases h; exact this
            · cases h

theorem readStream_allocs (o : ROpts) (decomp : Bytes → Nat → Option Bytes) :
    ∀ (n : Nat) (ctx : Ctx) (bs : Bytes), bs.length ≤ n →
      ∀ a ∈ (readStream o decomp ctx bs).allocs, a ≤ o.maxSize := by
  intro n
  induction n with
  | zero =>
    intro ctx bs hl a ha
    have : bs = [] := List.eq_nil_of_length_eq_zero (by omega)
    subst this
    rw [readStream] at ha; cases ha
  | succ n ih =>
    intro ctx bs hl a ha
    cases bs with
    | nil => rw [readStream] at ha; cases ha
    | cons code tl =>
      rw [readStream] at ha
      split at ha
      · rename_i e al hs
        exact step_allocs.1 _ _ hs a ha
      · rename_i ctx' vs al rest hs
        simp only [List.mem_append] at ha
        rcases ha with ha | ha
        · exact step_allocs.2 _ _ _ _ hs a ha
        · have := step_progress hs
          exact ih ctx' rest (by simp at hl; omega) a ha

end Zed.Zng
