/-
  L4 — lake model, part 3: `commits.Patch`, `Diff`, `Revert` — exactly as coded.
  Anchors: lake/commits/patch.go, lake/commits/store.go (PatchOfCommit, PatchOfPath).

  Faithful to the code, bug included: `Patch.Lookup` and `Patch.SelectAll` consult the
  base view WITHOUT subtracting `deletedObjects`, so for `Diff(parent, child)` an object
  of the common base that the parent patch deleted still "exists" in the parent, the
  delete-conflict branch is unreachable for base objects, and a second `Delete` of the
  same object is emitted.
-/
import Zed.Model.LakeCommits
namespace Zed.Lake

variable {K : Type}

/-- `commits.View`: a snapshot or a patch over a view. -/
inductive View (K : Type) where
  | snap (s : Snap K)
  | patch (base : View K) (diff : Snap K) (delObjs delVecs : List Nat)

namespace View
/-- `View.Lookup` -/
def lookup : View K → Nat → Option (Obj K)
  | .snap s, id => s.find id
  | .patch b d _ _, id => match d.find id with
    | some o => some o
    | none => lookup b id

def exists_ (v : View K) (id : Nat) : Bool := (v.lookup id).isSome

/-- `View.HasVector` -/
def hasVec : View K → Nat → Bool
  | .snap s, id => s.hasVec id
  | .patch b d _ _, id => d.hasVec id || hasVec b id

/-- `View.SelectAll` (order: base first, then diff; the Go order is map order) -/
def selectAll : View K → List (Obj K)
  | .snap s => s.objs
  | .patch b d _ _ => selectAll b ++ d.objs
end View

/-- `commits.Patch` -/
structure Patch (K : Type) where
  base : View K
  diff : Snap K := {}
  delObjs : List Nat := []
  delVecs : List Nat := []

namespace Patch

def new (base : View K) : Patch K := { base := base }

def toView (p : Patch K) : View K := .patch p.base p.diff p.delObjs p.delVecs

def lookup (p : Patch K) (id : Nat) : Option (Obj K) := p.toView.lookup id
def exists_ (p : Patch K) (id : Nat) : Bool := p.toView.exists_ id
def hasVec (p : Patch K) (id : Nat) : Bool := p.toView.hasVec id
def selectAll (p : Patch K) : List (Obj K) := p.toView.selectAll

/-- `Patch.AddDataObject` -/
def addObj (p : Patch K) (o : Obj K) : Except Err (Patch K) :=
  if p.base.exists_ o.id then .error .exists_
  else match p.diff.addObj o with
    | .ok d => .ok { p with diff := d }
    | .error e => .error e

/-- `Patch.DeleteObject` -/
def delObj (p : Patch K) (id : Nat) : Except Err (Patch K) :=
  if p.diff.hasObj id then
    match p.diff.delObj id with
    | .ok d => .ok { p with diff := d }
    | .error e => .error e
  else if !p.base.exists_ id then .error .notFound
  else .ok { p with delObjs := p.delObjs ++ [id] }

/-- `Patch.AddVector` -/
def addVec (p : Patch K) (id : Nat) : Except Err (Patch K) :=
  if p.hasVec id then .error .exists_
  else match p.diff.addVec id with
    | .ok d => .ok { p with diff := d }
    | .error e => .error e

/-- `Patch.DeleteVector` -/
def delVec (p : Patch K) (id : Nat) : Except Err (Patch K) :=
  if p.diff.hasVec id then
    match p.diff.delVec id with
    | .ok d => .ok { p with diff := d }
    | .error e => .error e
  else if !p.base.hasVec id then .error .notFound
  else .ok { p with delVecs := p.delVecs ++ [id] }

/-- `PlayAction` on a patch -/
def playAction (p : Patch K) : Action K → Except Err (Patch K)
  | .add o => p.addObj o
  | .del id => p.delObj id
  | .addVec id => p.addVec id
  | .delVec id => p.delVec id

def play (p : Patch K) : List (Action K) → Except Err (Patch K)
  | [] => .ok p
  | a :: as => match p.playAction a with
    | .ok p' => play p' as
    | .error e => .error e

/-- `Patch.NewCommitObject`: deletes, adds, vector deletes, vector adds -/
def commitActions (p : Patch K) : List (Action K) :=
  p.delObjs.map .del ++ p.diff.objs.map .add ++ p.delVecs.map .delVec ++ p.diff.vecs.map .addVec

/-- the add half of `Patch.Revert`: for each delete of the patch absent from the tip, an add
    of the object as it was in the patch's base -/
def revertAdds (p : Patch K) (tip : Snap K) : List Nat → Except Err (List (Action K))
  | [] => .ok []
  | id :: ids => match p.base.lookup id with
    | none => .error .notFound
    | some o => match revertAdds p tip ids with
      | .error e => .error e
      | .ok r => .ok (if tip.hasObj id then r else .add o :: r)

/-- `Patch.Revert(tip, …)` -/
def revert (p : Patch K) (tip : Snap K) : Except Err (List (Action K)) :=
  let dels : List (Action K) := (p.diff.objs.filter (tip.hasObj ·.id)).map (.del ·.id)
  match revertAdds p tip p.delObjs with
  | .error e => .error e
  | .ok adds =>
    let acts := dels ++ adds
    if acts.isEmpty then .error .revertEmpty else .ok acts

end Patch

/-- first loop of `commits.Diff`: adds -/
def diffAdds (parent child : Patch K) (p : Patch K) (dirty : Bool) :
    List (Obj K) → Except Err (Patch K × Bool)
  | [] => .ok (p, dirty)
  | o :: os =>
    if !parent.exists_ o.id then
      if child.delObjs.contains o.id then .error .addDelConflict
      else match p.addObj o with
        | .ok p' => diffAdds parent child p' true os
        | .error e => .error e
    else diffAdds parent child p dirty os

/-- second loop of `commits.Diff`: deletes -/
def diffDels (parent : Patch K) (p : Patch K) (dirty : Bool) :
    List Nat → Except Err (Patch K × Bool)
  | [] => .ok (p, dirty)
  | id :: ids =>
    if parent.exists_ id then
      match p.delObj id with
      | .ok p' => diffDels parent p' true ids
      | .error e => .error e
    else .error .deleteConflict

/-- `commits.Diff(parent, child)` -/
def diff (parent child : Patch K) : Except Err (Patch K) :=
  match diffAdds parent child (Patch.new parent.toView) false child.selectAll with
  | .error e => .error e
  | .ok (p, dirty) =>
    match diffDels parent p dirty child.delObjs with
    | .error e => .error e
    | .ok (p', dirty') => if dirty' then .ok p' else .error .emptyDiff

/-- actions of the commits `ids` (given leaf-to-root) in root-to-leaf order -/
def pathActions (cs : List (Commit K)) (ids : List Nat) : List (Action K) :=
  ids.reverse.flatMap fun c => match getCommit cs c with
    | some co => co.acts
    | none => []

/-- `Store.PatchOfPath(base, baseID, commit)` -/
def patchOfPath (cs : List (Commit K)) (base : Snap K) (baseID commit : Nat) : Except Err (Patch K) :=
  let path := pathRange cs commit baseID
  (Patch.new (.snap base)).play (pathActions cs path.dropLast)

/-- `Store.PatchOfCommit(commit)` -/
def patchOfCommit (cs : List (Commit K)) (commit : Nat) : Except Err (Patch K) :=
  match getCommit cs commit with
  | none => .error .noCommit
  | some co =>
    match snapAt cs co.parent with
    | .error e => .error e
    | .ok base => (Patch.new (.snap base)).play co.acts

end Zed.Lake
