/-
  Key order: bounds of a key-sorted sequence, and the merge of key-sorted sequences by the
  import comparator (which refines the key order) is key-sorted.  Helper lemmas for C14.
-/
import Zed.Proofs.LakeLoad
namespace Zed.Lake
variable {K V : Type}

/-- the laws of `compareValues(·, ·, nullsMax)` used for key ranges -/
structure KeyLaws (cfg : Cfg K V) : Prop where
  refl : ∀ a, cfg.kle a a = true
  trans : ∀ a b c, cfg.kle a b = true → cfg.kle b c = true → cfg.kle a c = true

theorem kvle_trans (cfg : Cfg K V) (L : KeyLaws cfg) (a b c : V)
    (h1 : kvle cfg a b = true) (h2 : kvle cfg b c = true) : kvle cfg a c = true := by
  unfold kvle at *
  cases hd : cfg.desc
  · simp only [hd, Bool.false_eq_true, if_false] at *
    exact L.trans _ _ _ h1 h2
  · simp only [hd, if_true] at *
    exact L.trans _ _ _ h2 h1

theorem isSorted_cons (cfg : Cfg K V) (L : KeyLaws cfg) (a : V) (l : List V)
    (h : isSorted cfg (a :: l) = true) : isSorted cfg l = true ∧ ∀ v ∈ l, kvle cfg a v = true := by
  induction l generalizing a with
  | nil => simp [isSorted]
  | cons b r ih =>
    simp only [isSorted, Bool.and_eq_true] at h
    obtain ⟨hab, hbr⟩ := h
    obtain ⟨_, hall⟩ := ih b hbr
    refine ⟨hbr, ?_⟩
    intro v hv
    simp only [List.mem_cons] at hv
    rcases hv with h | h
    · subst h; exact hab
    · exact kvle_trans cfg L a b v hab (hall v h)

/-- in a key-sorted sequence the first value is a lower and the last an upper bound (pool order) -/
theorem sorted_bounds (cfg : Cfg K V) (L : KeyLaws cfg) (l : List V) (f g : V)
    (hs : isSorted cfg l = true) (hf : l.head? = some f) (hg : l.getLast? = some g) :
    ∀ v ∈ l, kvle cfg f v = true ∧ kvle cfg v g = true := by
  induction l generalizing f with
  | nil => simp at hf
  | cons a r ih =>
    simp only [List.head?_cons, Option.some.injEq] at hf
    subst hf
    obtain ⟨hr, hall⟩ := isSorted_cons cfg L a r hs
    have hrefl : ∀ x, kvle cfg x x = true := by
      intro x; unfold kvle; cases cfg.desc <;> simp [L.refl]
    intro v hv
    cases r with
    | nil =>
      simp only [List.mem_singleton] at hv
      simp only [List.getLast?_singleton, Option.some.injEq] at hg
      subst hv; subst hg; exact ⟨hrefl _, hrefl _⟩
    | cons b r' =>
      have hg' : (b :: r').getLast? = some g := by simpa [List.getLast?_cons_cons] using hg
      have ihb := ih b hr rfl hg'
      simp only [List.mem_cons] at hv
      rcases hv with h | h
      · subst h
        exact ⟨hrefl _, kvle_trans cfg L _ b g (hall b (by simp)) (ihb b (by simp)).2⟩
      · have hvm : v ∈ b :: r' := by simpa using h
        exact ⟨hall v hvm, (ihb v hvm).2⟩

/-- the import comparator `vle` (pool key, then value bytes) refines the pool-key order and is
    a total preorder — the laws of `expr.Comparator` the sortedness theorems rest on
    (proved for the concrete comparator model by C06) -/
structure OrderLaws (cfg : Cfg K V) : Prop extends KeyLaws cfg where
  vtrans : ∀ a b c, cfg.vle a b = true → cfg.vle b c = true → cfg.vle a c = true
  vtotal : ∀ a b, (cfg.vle a b || cfg.vle b a) = true
  refine1 : ∀ a b, cfg.vle a b = true → kvle cfg a b = true
  refine2 : ∀ a b, cfg.vle a b = false → kvle cfg b a = true

/-- key-sorted, as a pairwise relation -/
def SortedK (cfg : Cfg K V) (l : List V) : Prop := l.Pairwise (fun a b => kvle cfg a b = true)

theorem sortedK_merge (cfg : Cfg K V) (L : OrderLaws cfg) (l₁ l₂ : List V)
    (h₁ : SortedK cfg l₁) (h₂ : SortedK cfg l₂) : SortedK cfg (List.merge l₁ l₂ cfg.vle) := by
  unfold SortedK at *
  induction l₁ generalizing l₂ with
  | nil => simpa only [List.merge]
  | cons x l₁ ih₁ =>
    induction l₂ with
    | nil => simpa only [List.merge]
    | cons y l₂ ih₂ =>
      simp only [List.merge]
      split <;> rename_i h
      · apply List.Pairwise.cons
        · intro z m
          rw [List.mem_merge, List.mem_cons] at m
          rcases m with (m|rfl|m)
          · exact List.rel_of_pairwise_cons h₁ m
          · exact L.refine1 _ _ h
          · exact kvle_trans cfg L.toKeyLaws _ _ _ (L.refine1 _ _ h) (List.rel_of_pairwise_cons h₂ m)
        · exact ih₁ _ h₁.tail h₂
      · apply List.Pairwise.cons
        · intro z m
          rw [List.mem_merge, List.mem_cons] at m
          have h' : cfg.vle x y = false := by simpa using h
          rcases m with (⟨rfl|m⟩|m)
          · exact L.refine2 _ _ h'
          · exact kvle_trans cfg L.toKeyLaws _ _ _ (L.refine2 _ _ h') (List.rel_of_pairwise_cons h₁ m)
          · exact List.rel_of_pairwise_cons h₂ m
        · exact ih₂ h₂.tail

theorem sortedK_mergeK (cfg : Cfg K V) (L : OrderLaws cfg) (ls : List (List V))
    (h : ∀ l ∈ ls, SortedK cfg l) : SortedK cfg (mergeK cfg ls) := by
  induction ls with
  | nil => simp [mergeK, SortedK]
  | cons l ls ih =>
    simp only [mergeK, List.foldr_cons]
    exact sortedK_merge cfg L l _ (h l (by simp)) (ih (fun l' hl' => h l' (by simp [hl'])))

/-- `SortStable` by the import comparator leaves the buffer in pool-key order -/
theorem sortedK_sortVals (cfg : Cfg K V) (L : OrderLaws cfg) (l : List V) : SortedK cfg (sortVals cfg l) := by
  unfold SortedK sortVals
  have := List.pairwise_mergeSort (le := cfg.vle) (fun a b c => L.vtrans a b c) (fun a b => L.vtotal a b) l
  exact this.imp (fun {a b} hab => L.refine1 a b hab)

theorem isSorted_of_sortedK (cfg : Cfg K V) (l : List V) (h : SortedK cfg l) : isSorted cfg l = true := by
  induction l with
  | nil => rfl
  | cons a r ih =>
    cases r with
    | nil => rfl
    | cons b r' =>
      simp only [isSorted, Bool.and_eq_true]
      unfold SortedK at h
      exact ⟨List.rel_of_pairwise_cons h (by simp), ih h.tail⟩

end Zed.Lake
