/-
  Proofs about the group-by Aggregator model (C10, C08): Zed/Model/AggGroupby.lean.

  Main results
    * `groupby_agrees`            — hash table + spill + merge-regroup = one row per distinct key holding
                                    the aggregate of exactly its rows, for every limit and input order,
                                    provided no spill happens or the comparator is faithful on the keys
    * `naive_agrees`, `agree_perm`— the specification `GroupsAgree` pins the output down up to order
    * `groupby_partials_compose`  — partials-out per chunk, partials-in over the concatenation

  Method: `Same m A B` ("A and B have the same key set and the same per-key aggregate") is a
  congruence for `++`, contains `Perm`, and `GroupsAgree m out rows ↔ Nodup keys ∧ Same m out rows`.
-/
import Zed.Model.AggGroupby
namespace Zed.Proofs.AggGroupby
open Zed.Agg
variable {K S : Type} [DecidableEq K]

/-- the comparator identifies only identical keys among the keys of `rows` -/
def CompareFaithful (le : K → K → Bool) (rows : List (K × S)) : Prop :=
  ∀ a ∈ rows.map (·.1), ∀ b ∈ rows.map (·.1), eqv le a b = true → a = b

/-! ### stable insertion sort -/

theorem insertBy_perm {α : Type} (le : α → α → Bool) (x : α) (l : List α) :
    (insertBy le x l).Perm (x :: l) := by
  induction l with
  | nil => exact List.Perm.refl _
  | cons y ys ih =>
    simp only [insertBy]
    split
    · exact List.Perm.refl _
    · exact (List.Perm.cons y ih).trans (List.Perm.swap x y ys)

theorem isort_cons {α : Type} (le : α → α → Bool) (x : α) (l : List α) :
    isort le (x :: l) = insertBy le x (isort le l) := rfl

theorem isort_perm {α} (le : α → α → Bool) (l : List α) : (isort le l).Perm l := by
  induction l with
  | nil => exact List.Perm.refl _
  | cons x l ih =>
    rw [isort_cons]
    exact (insertBy_perm le x _).trans (ih.cons x)

theorem insertBy_sorted {α : Type} (le : α → α → Bool) (h : TotalPreorder le) (x : α) (l : List α)
    (hl : l.Pairwise (fun a b => le a b = true)) :
    (insertBy le x l).Pairwise (fun a b => le a b = true) := by
  induction l with
  | nil => simp [insertBy]
  | cons y ys ih =>
    rw [List.pairwise_cons] at hl
    simp only [insertBy]
    split
    · rename_i hxy
      refine List.pairwise_cons.2 ⟨?_, List.pairwise_cons.2 hl⟩
      intro z hz
      rcases List.mem_cons.1 hz with rfl | hz
      · exact hxy
      · exact h.trans _ _ _ hxy (hl.1 z hz)
    · rename_i hxy
      have hyx : le y x = true := by
        rcases h.total x y with h1 | h1
        · exact absurd h1 hxy
        · exact h1
      refine List.pairwise_cons.2 ⟨?_, ih hl.2⟩
      intro z hz
      have hz' := (insertBy_perm le x ys).mem_iff.1 hz
      rcases List.mem_cons.1 hz' with rfl | hz
      · exact hyx
      · exact hl.1 z hz

theorem isort_sorted {α} (le : α → α → Bool) (h : TotalPreorder le) (l : List α) :
    (isort le l).Pairwise (fun a b => le a b = true) := by
  induction l with
  | nil => exact List.Pairwise.nil
  | cons x l ih =>
    rw [isort_cons]
    exact insertBy_sorted le h x _ ih

omit [DecidableEq K] in
theorem rowLe_totalPreorder {le : K → K → Bool} (h : TotalPreorder le) :
    TotalPreorder (rowLe (S := S) le) :=
  ⟨fun a b => h.total a.1 b.1, fun a b c => h.trans a.1 b.1 c.1⟩

/-! ### `total` -/

theorem total_cons (m : Mon S) (k : K) (r : K × S) (rest : List (K × S)) :
    total m k (r :: rest) = if r.1 = k then m.op r.2 (total m k rest) else total m k rest := rfl

theorem total_nil (m : Mon S) (k : K) : total m k ([] : List (K × S)) = m.e := rfl

theorem total_append (m : Mon S) (hm : m.Laws) (k : K) (a b : List (K × S)) :
    total m k (a ++ b) = m.op (total m k a) (total m k b) := by
  induction a with
  | nil => simp [total_nil, hm.left_id]
  | cons r a ih =>
    rw [List.cons_append, total_cons, total_cons, ih]
    split
    · rw [hm.assoc]
    · rfl

theorem total_perm (m : Mon S) (hm : m.CommLaws) (k : K) {a b : List (K × S)} (h : a.Perm b) :
    total m k a = total m k b := by
  induction h with
  | nil => rfl
  | cons x _ ih => rw [total_cons, total_cons, ih]
  | swap x y l =>
    simp only [total_cons]
    split <;> split <;> try rfl
    rw [← hm.assoc, ← hm.assoc, hm.comm y.2 x.2]
  | trans _ _ ih₁ ih₂ => exact ih₁.trans ih₂

theorem total_of_not_mem (m : Mon S) (k : K) (l : List (K × S)) (h : k ∉ l.map (·.1)) :
    total m k l = m.e := by
  induction l with
  | nil => rfl
  | cons r l ih =>
    rw [List.map_cons, List.mem_cons, not_or] at h
    rw [total_cons, if_neg (fun e => h.1 e.symm), ih h.2]

theorem total_of_nodup (m : Mon S) (hm : m.Laws) (k : K) (s : S) (l : List (K × S))
    (hn : (l.map (·.1)).Nodup) (hmem : (k, s) ∈ l) : total m k l = s := by
  induction l with
  | nil => cases hmem
  | cons r l ih =>
    rw [List.map_cons, List.nodup_cons] at hn
    rw [total_cons]
    rcases List.mem_cons.1 hmem with rfl | h
    · rw [if_pos rfl, total_of_not_mem m _ l hn.1, hm.right_id]
    · have hk : k ∈ l.map (·.1) := List.mem_map.2 ⟨(k, s), h, rfl⟩
      have hne : ¬ r.1 = k := fun e => hn.1 (e ▸ hk)
      rw [if_neg hne, ih hn.2 h]

/-! ### `Same`: equal key sets and equal per-key aggregates -/

/-- `A` and `B` have the same set of keys and, for every key, the same aggregate -/
def Same (m : Mon S) (A B : List (K × S)) : Prop :=
  (∀ k, k ∈ A.map (·.1) ↔ k ∈ B.map (·.1)) ∧ ∀ k, total m k A = total m k B

theorem Same.refl (m : Mon S) (A : List (K × S)) : Same m A A :=
  ⟨fun _ => Iff.rfl, fun _ => rfl⟩

theorem Same.symm {m : Mon S} {A B : List (K × S)} (h : Same m A B) : Same m B A :=
  ⟨fun k => (h.1 k).symm, fun k => (h.2 k).symm⟩

theorem Same.trans {m : Mon S} {A B C : List (K × S)} (h₁ : Same m A B) (h₂ : Same m B C) :
    Same m A C :=
  ⟨fun k => (h₁.1 k).trans (h₂.1 k), fun k => (h₁.2 k).trans (h₂.2 k)⟩

theorem Same.of_perm {m : Mon S} (hm : m.CommLaws) {A B : List (K × S)} (h : A.Perm B) :
    Same m A B :=
  ⟨fun _ => (h.map (·.1)).mem_iff, fun k => total_perm m hm k h⟩

theorem Same.cons {m : Mon S} (x : K × S) {A B : List (K × S)} (h : Same m A B) :
    Same m (x :: A) (x :: B) := by
  refine ⟨fun k => ?_, fun k => ?_⟩
  · simp only [List.map_cons, List.mem_cons, h.1 k]
  · simp only [total_cons, h.2 k]

theorem Same.append {m : Mon S} (hm : m.Laws) {A A' B B' : List (K × S)}
    (h₁ : Same m A A') (h₂ : Same m B B') : Same m (A ++ B) (A' ++ B') := by
  refine ⟨fun k => ?_, fun k => ?_⟩
  · simp only [List.map_append, List.mem_append, h₁.1 k, h₂.1 k]
  · rw [total_append m hm, total_append m hm, h₁.2 k, h₂.2 k]

/-- a fresh table row `(k, e • s)` is the same as the input row `(k, s)` -/
theorem Same.fresh {m : Mon S} (hm : m.Laws) (k : K) (s : S) (A : List (K × S)) :
    Same m ((k, m.op m.e s) :: A) ((k, s) :: A) := by
  refine ⟨fun k' => ?_, fun k' => ?_⟩
  · simp only [List.map_cons]
  · simp only [total_cons, hm.left_id]

theorem agree_of_same (m : Mon S) (hm : m.Laws) {out rows : List (K × S)}
    (hn : (out.map (·.1)).Nodup) (h : Same m out rows) : GroupsAgree m out rows :=
  ⟨hn, h.1, fun k s hks => by rw [← h.2 k, total_of_nodup m hm k s out hn hks]⟩

theorem same_of_agree (m : Mon S) (hm : m.Laws) {out rows : List (K × S)}
    (h : GroupsAgree m out rows) : Same m out rows := by
  refine ⟨h.keys, fun k => ?_⟩
  by_cases hk : k ∈ out.map (·.1)
  · obtain ⟨⟨k', s⟩, hmem, rfl⟩ := List.mem_map.1 hk
    rw [total_of_nodup m hm k' s out h.nodup hmem]
    exact h.vals k' s hmem
  · rw [total_of_not_mem m k out hk, total_of_not_mem m k rows (fun h' => hk ((h.keys k).2 h'))]

theorem total_of_agree (m : Mon S) (hm : m.Laws) {out rows : List (K × S)}
    (h : GroupsAgree m out rows) (k : K) : total m k out = total m k rows :=
  (same_of_agree m hm h).2 k

/-! ### the table -/

theorem hasKey_iff (t : List (K × S)) (k : K) : hasKey t k = true ↔ k ∈ t.map (·.1) := by
  simp only [hasKey, List.any_eq_true, List.mem_map, beq_iff_eq]

theorem upsert_keys (m : Mon S) (t : List (K × S)) (k : K) (s : S) (h : k ∈ t.map (·.1)) :
    (upsert m t k s).map (·.1) = t.map (·.1) := by
  induction t with
  | nil => cases h
  | cons r t ih =>
    obtain ⟨k', s'⟩ := r
    simp only [upsert]
    split
    · rfl
    · rename_i hne
      rw [List.map_cons, List.mem_cons] at h
      rcases h with h | h
      · exact absurd h.symm hne
      · rw [List.map_cons, List.map_cons, ih h]

theorem upsert_same (m : Mon S) (hm : m.CommLaws) (t : List (K × S)) (k : K) (s : S)
    (h : k ∈ t.map (·.1)) : Same m (upsert m t k s) (t ++ [(k, s)]) := by
  induction t with
  | nil => cases h
  | cons r t ih =>
    obtain ⟨k', s'⟩ := r
    simp only [upsert]
    split
    · rename_i heq
      subst heq
      -- (k', s' • s) :: t   vs   (k', s') :: (t ++ [(k', s)])
      refine ⟨fun k => ?_, fun k => ?_⟩
      · simp only [List.map_cons, List.map_append, List.mem_cons, List.mem_append, List.map_nil,
          List.not_mem_nil, or_false]
        exact ⟨Or.inl, fun h => h.elim id Or.inl⟩
      · simp only [List.cons_append, total_cons, total_append m hm.toLaws, total_nil]
        split
        · rw [hm.right_id, hm.assoc, hm.comm s]
        · rw [hm.right_id]
    · rename_i hne
      rw [List.map_cons, List.mem_cons] at h
      rcases h with h | h
      · exact absurd h.symm hne
      · exact Same.cons _ (ih h)

/-! ### invariant of `runGB` -/

/-- after consuming `xs`: the table has one row per key, and table + spilled runs together hold
    exactly the keys and the per-key aggregates of `xs` -/
def Inv (m : Mon S) (st : GB K S) (xs : List (K × S)) : Prop :=
  (st.table.map (·.1)).Nodup ∧ Same m (st.table ++ st.runs.flatten) xs

theorem inv_init (m : Mon S) : Inv m ({} : GB K S) [] :=
  ⟨List.Pairwise.nil, Same.refl m _⟩

theorem inv_consume (m : Mon S) (hm : m.CommLaws) (le : K → K → Bool) (limit : Nat)
    (st : GB K S) (xs : List (K × S)) (r : K × S) (h : Inv m st xs) :
    Inv m (consume m le limit st r) (xs ++ [r]) := by
  obtain ⟨hn, hs⟩ := h
  obtain ⟨k, s⟩ := r
  have hstep : Same m ((st.table ++ st.runs.flatten) ++ [(k, s)]) (xs ++ [(k, s)]) :=
    Same.append hm.toLaws hs (Same.refl m _)
  have hfresh : Same m [(k, m.op m.e s)] [(k, s)] := Same.fresh hm.toLaws k s []
  unfold consume
  simp only
  split
  · rename_i hk
    rw [hasKey_iff] at hk
    refine ⟨by simp only [upsert_keys m _ k s hk]; exact hn, ?_⟩
    simp only
    refine Same.trans ?_ hstep
    refine (Same.append hm.toLaws (upsert_same m hm _ k s hk) (Same.refl m _)).trans ?_
    refine Same.of_perm hm ?_
    rw [List.append_assoc, List.append_assoc]
    exact List.Perm.append_left _ List.perm_append_comm
  · rename_i hk
    rw [hasKey_iff] at hk
    split
    · refine ⟨by simp, ?_⟩
      simp only [List.flatten_append, List.flatten_cons, List.flatten_nil, List.append_nil]
      refine Same.trans ?_ hstep
      -- [(k, e•s)] ++ (R ++ isort t)  ~  (t ++ R) ++ [(k, e•s)]
      refine Same.trans (Same.of_perm hm (List.perm_append_comm)) ?_
      refine Same.append hm.toLaws ?_ hfresh
      refine Same.of_perm hm ?_
      exact List.perm_append_comm.trans (List.Perm.append_right _ (isort_perm _ _))
    · refine ⟨?_, ?_⟩
      · simp only [List.map_append, List.map_cons, List.map_nil]
        rw [List.nodup_append]
        refine ⟨hn, by simp, ?_⟩
        intro a ha b hb
        rw [List.mem_singleton] at hb
        subst hb
        exact fun e => hk (e ▸ ha)
      · simp only
        refine Same.trans ?_ hstep
        refine Same.trans (Same.of_perm hm ?_)
          (Same.append hm.toLaws (Same.refl m (st.table ++ st.runs.flatten)) hfresh)
        rw [List.append_assoc, List.append_assoc]
        exact List.Perm.append_left _ List.perm_append_comm

theorem inv_foldl (m : Mon S) (hm : m.CommLaws) (le : K → K → Bool) (limit : Nat)
    (ys : List (K × S)) (st : GB K S) (xs : List (K × S)) (h : Inv m st xs) :
    Inv m (ys.foldl (consume m le limit) st) (xs ++ ys) := by
  induction ys generalizing st xs with
  | nil => simpa using h
  | cons y ys ih =>
    have := ih _ _ (inv_consume m hm le limit st xs y h)
    simpa [List.append_assoc] using this

theorem inv_runGB (m : Mon S) (hm : m.CommLaws) (le : K → K → Bool) (limit : Nat)
    (rows : List (K × S)) : Inv m (runGB m le limit rows) rows := by
  have := inv_foldl m hm le limit rows {} [] (inv_init m)
  simpa [runGB] using this

/-! ### `regroup` on a sorted stream -/

theorem regroup_some (m : Mon S) (hm : m.Laws) (le : K → K → Bool) (hle : TotalPreorder le)
    (ks : List K) (hf : ∀ a ∈ ks, ∀ b ∈ ks, eqv le a b = true → a = b)
    (L : List (K × S)) (k : K) (acc : S)
    (hsorted : L.Pairwise (fun a b => rowLe le a b = true))
    (hlow : ∀ r ∈ L, le k r.1 = true)
    (hk : k ∈ ks) (hL : ∀ r ∈ L, r.1 ∈ ks) :
    ((regroup m le (some (k, acc)) L).map (·.1)).Nodup ∧
      Same m (regroup m le (some (k, acc)) L) ((k, acc) :: L) := by
  induction L generalizing k acc with
  | nil => exact ⟨by simp [regroup], Same.refl m _⟩
  | cons r rest ih =>
    rw [List.pairwise_cons] at hsorted
    simp only [regroup]
    split
    · rename_i he
      have hrk : r.1 = k := (hf k hk r.1 (hL r (List.mem_cons_self)) he).symm
      obtain ⟨hn, hs⟩ := ih k (m.op acc r.2) hsorted.2
        (fun r' hr' => hlow r' (List.mem_cons_of_mem _ hr')) hk
        (fun r' hr' => hL r' (List.mem_cons_of_mem _ hr'))
      refine ⟨hn, hs.trans ?_⟩
      refine ⟨fun k' => ?_, fun k' => ?_⟩
      · simp only [List.map_cons, List.mem_cons, hrk]
        constructor
        · rintro (h | h)
          · exact Or.inl h
          · exact Or.inr (Or.inr h)
        · rintro (h | h | h)
          · exact Or.inl h
          · exact Or.inl h
          · exact Or.inr h
      · simp only [total_cons, hrk]
        split
        · rw [hm.assoc]
        · rfl
    · rename_i he
      obtain ⟨hn, hs⟩ := ih r.1 (m.op m.e r.2) hsorted.2
        (fun r' hr' => hsorted.1 r' hr') (hL r List.mem_cons_self)
        (fun r' hr' => hL r' (List.mem_cons_of_mem _ hr'))
      have hs' : Same m (regroup m le (some (r.1, m.op m.e r.2)) rest) (r :: rest) :=
        hs.trans (Same.fresh hm r.1 r.2 rest)
      -- `k` is not a key of `r :: rest`
      have hnot : k ∉ (r :: rest).map (·.1) := by
        intro hmem
        apply he
        have hkr : le k r.1 = true := hlow r List.mem_cons_self
        have hrk : le r.1 k = true := by
          rw [List.map_cons, List.mem_cons] at hmem
          rcases hmem with h | h
          · rw [← h]; exact hle.refl k
          · obtain ⟨r', hr', e⟩ := List.mem_map.1 h
            have := hsorted.1 r' hr'
            simp only [rowLe] at this
            rw [← e]; exact this
        simp only [eqv, hkr, hrk, Bool.and_self]
      refine ⟨?_, Same.cons _ hs'⟩
      rw [List.map_cons, List.nodup_cons]
      exact ⟨fun h => hnot ((hs'.1 k).1 h), hn⟩

theorem regroup_none (m : Mon S) (hm : m.Laws) (le : K → K → Bool) (hle : TotalPreorder le)
    (ks : List K) (hf : ∀ a ∈ ks, ∀ b ∈ ks, eqv le a b = true → a = b)
    (L : List (K × S))
    (hsorted : L.Pairwise (fun a b => rowLe le a b = true))
    (hL : ∀ r ∈ L, r.1 ∈ ks) :
    ((regroup m le none L).map (·.1)).Nodup ∧ Same m (regroup m le none L) L := by
  cases L with
  | nil => exact ⟨by simp [regroup], Same.refl m _⟩
  | cons r rest =>
    rw [List.pairwise_cons] at hsorted
    simp only [regroup]
    obtain ⟨hn, hs⟩ := regroup_some m hm le hle ks hf rest r.1 (m.op m.e r.2) hsorted.2
      (fun r' hr' => hsorted.1 r' hr') (hL r List.mem_cons_self)
      (fun r' hr' => hL r' (List.mem_cons_of_mem _ hr'))
    exact ⟨hn, hs.trans (Same.fresh hm r.1 r.2 rest)⟩

/-! ### main theorem -/

/-- MAIN: for every limit and every input (any order), if no spill happens or the comparator is
    faithful on the keys present, the output has exactly one row per distinct key holding the
    aggregate of exactly the rows with that key -/
theorem groupby_agrees (m : Mon S) (hm : m.CommLaws) (le : K → K → Bool) (hle : TotalPreorder le)
    (limit : Nat) (rows : List (K × S))
    (guard : spillCount m le limit rows = 0 ∨ CompareFaithful le rows) :
    GroupsAgree m (groupby m le limit rows) rows := by
  obtain ⟨hn, hs⟩ := inv_runGB m hm le limit rows
  unfold groupby finish
  generalize hst : runGB m le limit rows = st at hn hs
  split
  · rename_i hempty
    rw [List.isEmpty_iff] at hempty
    rw [hempty, List.flatten_nil, List.append_nil] at hs
    exact agree_of_same m hm.toLaws hn hs
  · rename_i hne
    have hf : CompareFaithful le rows := by
      rcases guard with h | h
      · exfalso
        apply hne
        unfold spillCount at h
        rw [hst, List.length_eq_zero_iff] at h
        rw [h]; rfl
      · exact h
    simp only
    -- the merged stream
    have hruns : Same m
        (if st.table.isEmpty then st.runs else st.runs ++ [isort (rowLe le) st.table]).flatten
        (st.table ++ st.runs.flatten) := by
      split
      · rename_i he
        rw [List.isEmpty_iff] at he
        rw [he, List.nil_append]
        exact Same.refl m _
      · simp only [List.flatten_append, List.flatten_cons, List.flatten_nil, List.append_nil]
        exact Same.of_perm hm
          (List.perm_append_comm.trans (List.Perm.append_right _ (isort_perm _ _)))
    generalize (if st.table.isEmpty then st.runs
      else st.runs ++ [isort (rowLe le) st.table]).flatten = merged at hruns
    have hL : Same m (isort (rowLe le) merged) rows :=
      (Same.of_perm hm (isort_perm _ _)).trans (hruns.trans hs)
    obtain ⟨hn', hs'⟩ := regroup_none m hm.toLaws le hle (rows.map (fun x : K × S => x.1)) hf
      (isort (rowLe le) merged) (isort_sorted _ (rowLe_totalPreorder hle) _)
      (fun r hr => (hL.1 r.1).1 (List.mem_map.2 ⟨r, hr, rfl⟩))
    exact agree_of_same m hm.toLaws hn' (hs'.trans hL)

/-! ### naive evaluation -/

theorem mem_dedupKeys (l : List K) (x : K) : x ∈ dedupKeys l ↔ x ∈ l := by
  induction l with
  | nil => simp [dedupKeys]
  | cons k ks ih =>
    simp only [dedupKeys, List.mem_cons, List.mem_filter, ih, decide_eq_true_eq]
    by_cases h : x = k
    · simp [h]
    · simp [h]

theorem nodup_dedupKeys (l : List K) : (dedupKeys l).Nodup := by
  induction l with
  | nil => exact List.Pairwise.nil
  | cons k ks ih =>
    simp only [dedupKeys]
    rw [List.nodup_cons]
    refine ⟨?_, List.Pairwise.filter _ ih⟩
    simp [List.mem_filter]

/-- the naive evaluator satisfies the same specification -/
theorem naive_agrees (m : Mon S) (hm : m.CommLaws) (rows : List (K × S)) :
    GroupsAgree m (naiveGroup m rows) rows := by
  have _ := hm
  have hmap : (naiveGroup m rows).map (·.1) = dedupKeys (rows.map (·.1)) := by
    simp [naiveGroup, Function.comp_def]
  refine ⟨by rw [hmap]; exact nodup_dedupKeys _, fun k => by rw [hmap]; exact mem_dedupKeys _ k, ?_⟩
  intro k s h
  simp only [naiveGroup, List.mem_map] at h
  obtain ⟨k', _, e⟩ := h
  cases e
  rfl

/-! ### uniqueness up to order -/

theorem nodup_of_map {α β : Type} (f : α → β) (l : List α) (h : (l.map f).Nodup) : l.Nodup := by
  induction l with
  | nil => exact List.Pairwise.nil
  | cons a l ih =>
    rw [List.map_cons, List.nodup_cons] at h
    rw [List.nodup_cons]
    exact ⟨fun ha => h.1 (List.mem_map.2 ⟨a, ha, rfl⟩), ih h.2⟩

theorem agree_mem (m : Mon S) (out₁ out₂ rows : List (K × S))
    (h₁ : GroupsAgree m out₁ rows) (h₂ : GroupsAgree m out₂ rows) (x : K × S) (hx : x ∈ out₁) :
    x ∈ out₂ := by
  obtain ⟨k, s⟩ := x
  have hk : k ∈ out₂.map (·.1) :=
    (h₂.keys k).2 ((h₁.keys k).1 (List.mem_map.2 ⟨(k, s), hx, rfl⟩))
  obtain ⟨⟨k', s'⟩, hmem, rfl⟩ := List.mem_map.1 hk
  have e₁ := h₁.vals _ _ hx
  have e₂ := h₂.vals _ _ hmem
  simp only at e₁
  rw [e₁, ← e₂]
  exact hmem

/-- two outputs that both agree with `rows` are permutations of each other -/
theorem agree_perm (m : Mon S) (out₁ out₂ rows : List (K × S))
    (h₁ : GroupsAgree m out₁ rows) (h₂ : GroupsAgree m out₂ rows) : out₁.Perm out₂ :=
  (List.perm_ext_iff_of_nodup (nodup_of_map _ _ h₁.nodup) (nodup_of_map _ _ h₂.nodup)).2
    fun x => ⟨agree_mem m out₁ out₂ rows h₁ h₂ x, agree_mem m out₂ out₁ rows h₂ h₁ x⟩

/-! ### partials-out / partials-in -/

theorem same_flatten (m : Mon S) (hm : m.Laws) (g : List (K × S) → List (K × S))
    (chunks : List (List (K × S))) (h : ∀ c ∈ chunks, Same m (g c) c) :
    Same m (chunks.map g).flatten chunks.flatten := by
  induction chunks with
  | nil => exact Same.refl m _
  | cons c cs ih =>
    rw [List.map_cons, List.flatten_cons, List.flatten_cons]
    exact Same.append hm (h c List.mem_cons_self)
      (ih fun c' hc' => h c' (List.mem_cons_of_mem _ hc'))

omit [DecidableEq K] in
theorem CompareFaithful.mono {le : K → K → Bool} {A B : List (K × S)}
    (h : CompareFaithful le B) (hsub : ∀ k, k ∈ A.map (·.1) → k ∈ B.map (·.1)) :
    CompareFaithful le A :=
  fun a ha b hb => h a (hsub a ha) b (hsub b hb)

/-- partial decomposition: split the input into chunks (= scatter legs / partials-out stages),
    group each chunk with its own limit, feed the concatenated partial rows to a second group-by
    (partials-in): the result agrees with the undivided input. Guard as above, on every stage. -/
theorem groupby_partials_compose (m : Mon S) (hm : m.CommLaws) (le : K → K → Bool)
    (hle : TotalPreorder le) (limit₁ limit₂ : Nat) (chunks : List (List (K × S)))
    (guard : CompareFaithful le chunks.flatten ∨
      ((∀ c ∈ chunks, spillCount m le limit₁ c = 0) ∧
        spillCount m le limit₂ (chunks.map (groupby m le limit₁)).flatten = 0)) :
    GroupsAgree m (groupby m le limit₂ (chunks.map (groupby m le limit₁)).flatten)
      chunks.flatten := by
  have hstage₁ : ∀ c ∈ chunks, Same m (groupby m le limit₁ c) c := by
    intro c hc
    refine same_of_agree m hm.toLaws (groupby_agrees m hm le hle limit₁ c ?_)
    rcases guard with hf | ⟨h, _⟩
    · refine Or.inr (hf.mono fun k hk => ?_)
      obtain ⟨r, hr, e⟩ := List.mem_map.1 hk
      exact List.mem_map.2 ⟨r, List.mem_flatten.2 ⟨c, hc, hr⟩, e⟩
    · exact Or.inl (h c hc)
  have hflat : Same m (chunks.map (groupby m le limit₁)).flatten chunks.flatten :=
    same_flatten m hm.toLaws _ chunks hstage₁
  have hstage₂ := groupby_agrees m hm le hle limit₂ (chunks.map (groupby m le limit₁)).flatten
    (by
      rcases guard with hf | ⟨_, h⟩
      · exact Or.inr (hf.mono fun k hk => (hflat.1 k).1 hk)
      · exact Or.inl h)
  exact agree_of_same m hm.toLaws hstage₂.nodup ((same_of_agree m hm.toLaws hstage₂).trans hflat)

/-! ### non-vacuity -/

section Examples

def natLe : Nat → Nat → Bool := fun a b => decide (a ≤ b)

theorem natLe_totalPreorder : TotalPreorder natLe :=
  ⟨fun a b => by simp only [natLe, decide_eq_true_eq]; omega,
   fun a b c => by simp only [natLe, decide_eq_true_eq]; omega⟩

def addMon : Mon Nat := ⟨(· + ·), 0⟩

theorem addMon_commLaws : addMon.CommLaws :=
  { assoc := fun a b c => Nat.add_assoc a b c
    left_id := fun a => Nat.zero_add a
    right_id := fun a => Nat.add_zero a
    comm := fun a b => Nat.add_comm a b }

/-- `≤` on `Nat` is faithful on every input -/
theorem natLe_faithful (rows : List (Nat × Nat)) : CompareFaithful natLe rows := by
  intro a _ b _ h
  simp only [eqv, natLe, Bool.and_eq_true, decide_eq_true_eq] at h
  omega

/-- 5 distinct keys, limit 2: the table spills -/
def exRows : List (Nat × Nat) :=
  [(3, 1), (1, 10), (4, 100), (1, 1000), (5, 7), (9, 2), (3, 5), (4, 1), (2, 6), (5, 3)]

example : spillCount addMon natLe 2 exRows = 4 := by decide

example : groupby addMon natLe 2 exRows = [(1, 1010), (2, 6), (3, 6), (4, 101), (5, 10), (9, 2)] := by
  decide

/-- the `CompareFaithful` disjunct of the guard, with spills happening -/
example : GroupsAgree addMon (groupby addMon natLe 2 exRows) exRows :=
  groupby_agrees addMon addMon_commLaws natLe natLe_totalPreorder 2 exRows
    (Or.inr (natLe_faithful exRows))

example : spillCount addMon natLe 10 exRows = 0 := by decide

/-- the `spillCount = 0` disjunct of the guard (limit larger than the number of groups) -/
example : GroupsAgree addMon (groupby addMon natLe 10 exRows) exRows :=
  groupby_agrees addMon addMon_commLaws natLe natLe_totalPreorder 10 exRows (Or.inl (by decide))

/-- the guard is needed: a comparator that identifies distinct keys (here: compares `k / 10`)
    makes the spill-merge combine rows of different groups -/
def coarseLe : Nat → Nat → Bool := fun a b => decide (a / 10 ≤ b / 10)

def badRows : List (Nat × Nat) := [(10, 1), (20, 1), (11, 1), (21, 1)]

example : spillCount addMon coarseLe 2 badRows > 0 := by decide
example : groupby addMon coarseLe 2 badRows = [(10, 2), (20, 2)] := by decide
example : ¬ GroupsAgree addMon (groupby addMon coarseLe 2 badRows) badRows := by
  intro h
  have := (h.keys 11).2 (by decide)
  revert this
  decide

/-- partials compose, chunks of the example, both stages spilling -/
example : GroupsAgree addMon
    (groupby addMon natLe 2 (([exRows.take 5, exRows.drop 5]).map (groupby addMon natLe 2)).flatten)
    ([exRows.take 5, exRows.drop 5]).flatten :=
  groupby_partials_compose addMon addMon_commLaws natLe natLe_totalPreorder 2 2 _
    (Or.inl (natLe_faithful _))

end Examples

end Zed.Proofs.AggGroupby
