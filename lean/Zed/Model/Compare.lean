import Zed.Model.Val
/-!
  L2 — `expr.compareValues`, `expr.Comparator` (sort.go), the int64 fast path of
  `sortStableIndices`, stable sort, the k-way merge of `spill.MergeSort` and the head-of-line
  merge of `merge.Op`.
-/
namespace Zed

def ordOfInt (i : Int) : Ordering := if i < 0 then .lt else if i = 0 then .eq else .gt

def Val.num? : Val → Option Num
  | .num _ n => some n
  | _ => none

/-- the last cases of `compareValues` for two non-container values of the same underlying
    type: bool, type values, ips (netip.Addr.Compare: bit length, then address), and bytewise
    for everything else (bytes, string, and the final `bytes.Compare(a.Bytes(), b.Bytes())`). -/
def cmpLeaf : Val → Val → Ordering
  | .bool _ x, .bool _ y => if x = y then .eq else if x then .gt else .lt
  | .typ _ x, .typ _ y => cmpTy x y
  | .ip _ x, .ip _ y => (compare x.length y.length).then (cmpBytes x y)
  | a, b => cmpBytes a.payload b.payload

/-- `expr.compareValues(a, b, nullsMax)` up to the point where two values of the same
    underlying type are compared (`same`).  The null results are the regenerated constants. -/
def cmpCore (nullsMax : Bool) (a b : Val) (same : Ordering) : Ordering :=
  if a.isNull && b.isNull then ordOfInt Generated.C06.bothNull
  else if a.isNull then ordOfInt (if nullsMax then Generated.C06.nullA.1 else Generated.C06.nullA.2)
  else if b.isNull then ordOfInt (if nullsMax then Generated.C06.nullB.1 else Generated.C06.nullB.2)
  else if a.ty.isNumber && b.ty.isNumber then
    match a.num?, b.num? with
    | some x, some y => cmpNum x y
    | _, _ => .eq
  else if a.ty.under ≠ b.ty.under then cmpTy a.ty b.ty
  else same

mutual
/-- `expr.compareValues(a, b, nullsMax)`; arrays and sets are compared element by element. -/
def cmpVal (nullsMax : Bool) : Val → Val → Ordering
  | .seq t xs, .seq t' ys => cmpCore nullsMax (.seq t xs) (.seq t' ys) (cmpVals nullsMax xs ys)
  | a, b => cmpCore nullsMax a b (cmpLeaf a b)
def cmpVals (nullsMax : Bool) : Vals → Vals → Ordering
  | .nil, .nil => .eq
  | .nil, .cons _ _ => .lt
  | .cons _ _, .nil => .gt
  | .cons x xs, .cons y ys => (cmpVal nullsMax x y).then (cmpVals nullsMax xs ys)
end

/-! ### the guard of `compare_total_preorder_partial`

  `compareNumbers` converts an integer to float64 when the other operand is a float; that is
  exact only up to 2^53.  `NumOK a b`: the comparison of `a` with `b` does not round
  (`NoLossyMix` of DESIGN.md §5 C06, for one pair). -/

def IntSafe : Num → Bool
  | .int i => i.natAbs ≤ 2 ^ 53
  | .uint u => u ≤ 2 ^ 53
  | .float _ => true

def Num.isFloat : Num → Bool
  | .float _ => true
  | _ => false

def NumOK (a b : Num) : Prop := (a.isFloat = true ∨ b.isFloat = true) → (IntSafe a = true ∧ IntSafe b = true)

def PairOK (a b : Val) : Prop :=
  match a.num?, b.num? with
  | some x, some y => NumOK x y
  | _, _ => True

/-- per-value forms: `mixGuard true v` = every integer is within ±2^53, `mixGuard false v` = `v` is
    not a float.  A set of values all satisfying one of the two is free of lossy mixes. -/
def mixGuard (intSafe : Bool) (v : Val) : Bool :=
  match v.num? with
  | some n => if intSafe then IntSafe n else !n.isFloat
  | none => true

/-! ### Comparator -/

/-- a row as the sorter sees it: the evaluated sort keys (missing already mapped to null by
    `WithMissingAsNull`) and an opaque payload (the position in the input). -/
structure Row where
  keys : List Val
  tag : Nat
  deriving Repr

/-- `Comparator.Compare`: `dirs[i] = true` = `order.Desc` (operands swapped). -/
def cmpKeys (nullsMax : Bool) : List Bool → List Val → List Val → Ordering
  | d :: ds, x :: xs, y :: ys =>
    let o := if d then cmpVal nullsMax y x else cmpVal nullsMax x y
    if o ≠ .eq then o else cmpKeys nullsMax ds xs ys
  | _, _, _ => .eq

def cmpRow (nullsMax : Bool) (dirs : List Bool) (a b : Row) : Ordering :=
  cmpKeys nullsMax dirs a.keys b.keys

/-- a row the Comparator orders exactly: one key per sort expression, every key well-formed
    (`Val.ok`), and all keys of all rows in one mix-free class (`mixGuard`). -/
def Row.okFor (dirs : List Bool) (intSafe : Bool) (r : Row) : Prop :=
  r.keys.length = dirs.length ∧ ∀ k ∈ r.keys, k.ok = true ∧ mixGuard intSafe k = true

/-! ### the int64 fast path of `sortStableIndices` -/

def sentinelOf (s : String) : Int := if s = "MaxInt64" then maxInt64 else minInt64

/-- `i64s[i]`, or `none` when the first key's id is outside the guard (`native = false`) -/
def fastKey (nullsMax : Bool) (v : Val) : Option Int :=
  match v.ty.primId? with
  | none => none
  | some id =>
    if !fastPathId id then none
    else match v with
      | .null _ => some (sentinelOf (if nullsMax then Generated.C06.fastNullSentinel.1 else Generated.C06.fastNullSentinel.2))
      | .num _ (.int i) => some i
      | .num _ (.uint u) => some (if (u : Int) > maxInt64 then maxInt64 else u)
      | _ => none

/-- the `less` closure of `sortStableIndices` when `native` holds; `ka`, `kb` are `i64s[i]`,
    `i64s[j]` (already swapped for a descending first key by the caller). -/
def lessFast (nullsMax : Bool) (dirs : List Bool) (a b : Row) (ka kb : Int) : Bool :=
  match dirs, a.keys, b.keys with
  | d :: ds, x :: xs, y :: ys =>
    let (ka, kb, x, y) := if d then (kb, ka, y, x) else (ka, kb, x, y)
    if ka ≠ kb then ka < kb
    else if ka ≠ maxInt64 ∧ ka ≠ minInt64 then cmpKeys nullsMax ds xs ys == .lt
    else
      let o := cmpVal nullsMax x y
      if o ≠ .eq then o == .lt else cmpKeys nullsMax ds xs ys == .lt
  | _, _, _ => false

def lessSlow (nullsMax : Bool) (dirs : List Bool) (a b : Row) : Bool :=
  cmpRow nullsMax dirs a b == .lt

/-- `native`: every first key is eligible -/
def allNative (nullsMax : Bool) (rows : List Row) : Bool :=
  rows.all fun r => match r.keys with
    | k :: _ => (fastKey nullsMax k).isSome
    | [] => false

/-- the comparison `sortStableIndices` sorts with -/
def lessUsed (nullsMax : Bool) (dirs : List Bool) (rows : List Row) (a b : Row) : Bool :=
  if allNative nullsMax rows then
    match a.keys, b.keys with
    | x :: _, y :: _ =>
      match fastKey nullsMax x, fastKey nullsMax y with
      | some ka, some kb => lessFast nullsMax dirs a b ka kb
      | _, _ => lessSlow nullsMax dirs a b
    | _, _ => lessSlow nullsMax dirs a b
  else lessSlow nullsMax dirs a b

/-- a stable sort by a `less` predicate (`sort.SliceStable` is a parameter of the model: it is
    taken to be *a* stable sort; `le a b = ¬ less b a`). -/
def stableSortBy {α} (less : α → α → Bool) (l : List α) : List α :=
  l.mergeSort (fun a b => !less b a)

/-- `Comparator.SortStable` / `SortStableReader` -/
def sortRows (nullsMax : Bool) (dirs : List Bool) (rows : List Row) : List Row :=
  stableSortBy (lessUsed nullsMax dirs rows) rows

def sortRowsRef (nullsMax : Bool) (dirs : List Bool) (rows : List Row) : List Row :=
  stableSortBy (lessSlow nullsMax dirs) rows

/-! ### `spill.MergeSort`: k-way merge with the run ordinal as tie-break -/

/-- index of the run whose head is minimal under `Less` (compare, then ordinal); runs are in
    ordinal order and non-empty runs only are considered.  `container/heap` is a parameter of
    the model: it is taken to return the `Less`-minimum. -/
def minRun {α} (le : α → α → Bool) : List (List α) → Option (Nat × α)
  | [] => none
  | [] :: rest => (minRun le rest).map fun (i, x) => (i + 1, x)
  | (x :: _) :: rest =>
    match minRun le rest with
    | none => some (0, x)
    | some (i, y) => if le x y then some (0, x) else some (i + 1, y)

def popRun {α} : Nat → List (List α) → List (List α)
  | _, [] => []
  | 0, r :: rest => r.tail :: rest
  | i+1, r :: rest => r :: popRun i rest

def kmergeF {α} (le : α → α → Bool) : Nat → List (List α) → List α
  | 0, _ => []
  | f+1, runs =>
    match minRun le runs with
    | none => []
    | some (i, x) => x :: kmergeF le f (popRun i runs)

def kmerge {α} (le : α → α → Bool) (runs : List (List α)) : List α :=
  kmergeF le (runs.map List.length).sum runs

/-- `sort.Op`: the input arrives in batches; a run is spilled whenever the bytes buffered reach
    the limit, so the runs are the sorted chunks of *some* chunking of the input; the output is
    the k-way merge of the runs (or the in-memory sort when nothing was spilled). -/
def sortSpill (nullsMax : Bool) (dirs : List Bool) (chunks : List (List Row)) : List Row :=
  kmerge (fun a b => !(lessSlow nullsMax dirs b a)) (chunks.map (sortRows nullsMax dirs))

/-! ### `sort.Op` (runtime/sam/op/sort/sort.go) -/

/-- `setComparator`: `-r` flips every key's order; nulls are max unless `nullsFirst`, flipped
    again when the (possibly reversed) first key is descending. -/
def sortConfig (nullsFirst reverse : Bool) (dirs : List Bool) : Bool × List Bool :=
  let dirs := if reverse then dirs.map (!·) else dirs
  let nm := !nullsFirst
  match dirs with
  | true :: _ => (!nm, dirs)
  | _ => (nm, dirs)

/-- `Op.run` up to end of input: batches are appended to `out`; after a batch the buffered
    byte count is compared with the limit and `out` is spilled as a run when it is reached.
    Returns the spilled runs (in order) and the rows still buffered. -/
def formRuns (limit : Nat) : List (List (Row × Nat)) → List Row → Nat → List (List Row) → List (List Row) × List Row
  | [], out, _, runs => (runs, out)
  | b :: rest, out, nbytes, runs =>
    let out := out ++ b.map (·.1)
    let nbytes := nbytes + (b.map (·.2)).sum
    if nbytes < limit then formRuns limit rest out nbytes runs
    else formRuns limit rest [] 0 (runs ++ [out])

/-- the whole operator on one input stream -/
def sortOp (nullsFirst reverse : Bool) (dirs : List Bool) (limit : Nat) (batches : List (List (Row × Nat))) : List Row :=
  let (nm, dirs) := sortConfig nullsFirst reverse dirs
  match formRuns limit batches [] 0 [] with
  | ([], out) => sortRows nm dirs out
  | (runs, out) =>
    let runs := if out.isEmpty then runs else runs ++ [out]
    sortSpill nm dirs runs

end Zed
