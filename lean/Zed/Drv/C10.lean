import Zed.Model.Sexp
import Zed.Model.AggMonoid
import Zed.Model.AggGroupby
import Zed.Model.AggJoin
/-!
  Driver glue for C10.

  `(C10 agg <name> <chunk> …)`            chunk = `(<v> …)`,
        v = `(<tok> <typ> <null 0|1> <kind n|u|i|f> <num> <bool -|0|1> <avg -|int>)`
        → `direct=<r> partial=<r>`: the aggregate folded over the concatenated chunks, and the
          per-chunk partials combined in chunk order.
  `(C10 groupby <limit> <row> …)`          row = `(<keytok> (<rank> …) <count> <sum> (<id> …))`
        → `spills=<n> (<keytok> <count> <sum> (<ids sorted>)) …` groups sorted by keytok
  `(C10 naive <row> …)`                    same rows → naive groups, same format (spills=0)
  `(C10 sorted <batch> …)`                 batch = `(<row> …)`; the first rank is the primary key
        (already oriented: ascending = the declared direction) → same format
  `(C10 join <kind> (<l> …) (<r> …))`     l, r = `(<rank> <id>)`; both sides are first sorted
        stably by rank (join.New inserts the sort) → `(<lid> <rid>|-) …` in output order
  `(C10 joinraw <kind> (<l> …) (<r> …))`  the same without the sort: rows in arrival order, the
        rank is the key's rank under the join's own comparator (models a side that is *declared*
        sorted, or sorted by a sort operator whose null placement differs from the join's)
  `(C10 nested <kind> (<l> …) (<r> …))`   nested loop over the same sorted sides
-/
namespace Zed.Drv.C10
open Zed Zed.Agg

def atomOf : Sexp → Option String
  | .atom s => some s
  | _ => none

def intOf : Sexp → Option Int
  | .atom s => s.toInt?
  | _ => none

def natOf : Sexp → Option Nat
  | .atom s => s.toNat?
  | _ => none

def avalOf : Sexp → Option AVal
  | .list [.atom tok, .atom typ, .atom nul, .atom kind, .atom num, .atom b, .atom avg] => do
    let k ← Kind.ofStr kind
    let n ← num.toInt?
    let isNull ← (if nul == "1" then some true else if nul == "0" then some false else none)
    let bb ← (if b == "-" then some none else if b == "1" then some (some true)
              else if b == "0" then some (some false) else none)
    let av ← (if avg == "-" then some none else (avg.toInt?).map some)
    pure { tok := tok, typ := typ, isNull := isNull, kind := k, num := n, bool := bb, avg := av }
  | _ => none

def chunkOf : Sexp → Option (List AVal)
  | .list vs => vs.mapM avalOf
  | _ => none

def showOptInt : Option Int → String
  | none => "null"
  | some n => toString n

def showMath (s : MathSt) : String := s.kind.toStr ++ ":" ++ showOptInt s.acc
def showOptBool : Option Bool → String
  | none => "null" | some true => "1" | some false => "0"
def showList (xs : List String) : String := "(" ++ " ".intercalate xs ++ ")"

/-- direct and partial evaluation of one aggregate, rendered -/
def both {M : Type} (m : Mon M) (f : AVal → M) (render : M → String) (chunks : List (List AVal)) : String :=
  "direct=" ++ render (m.fold f chunks.flatten) ++ " partial=" ++
    render (m.combineAll (chunks.map (m.fold f)))

def aggHandle (name : String) (chunks : List (List AVal)) : String :=
  let univTok := chunks.flatten.map (·.tok)
  let univTyp := chunks.flatten.map (·.typ)
  match name with
  | "count" => both countMon countF toString chunks
  | "sum" => both sumMon mathF showMath chunks
  | "min" => both minMon mathF showMath chunks
  | "max" => both maxMon mathF showMath chunks
  | "avg" => both avgMon avgF (fun s => toString s.1 ++ "/" ++ toString s.2) chunks
  | "and" => both andMon boolF showOptBool chunks
  | "or" => both orMon boolF showOptBool chunks
  | "collect" => both collectMon collectF showList chunks
  | "union" => both setMon unionF (fun s => showList (members s univTok)) chunks
  | "dcount" => both setMon dcountF (fun s => toString (members s univTok).length) chunks
  | "fuse" => both setMon fuseF (fun s => showList (members s univTyp)) chunks
  | _ => "bad-op"

/-! group-by -/

structure Key where
  tok : String
  ranks : List Int
  deriving DecidableEq, Repr

def lexLe : List Int → List Int → Bool
  | [], _ => true
  | _ :: _, [] => false
  | a :: as, b :: bs => if a < b then true else if b < a then false else lexLe as bs

def keyLe (a b : Key) : Bool := lexLe a.ranks b.ranks

abbrev St := Nat × Int × List Nat
def stMon : Mon St := ⟨fun a b => (a.1 + b.1, a.2.1 + b.2.1, a.2.2 ++ b.2.2), (0, 0, [])⟩

def rowOf : Sexp → Option (Key × St)
  | .list [.atom tok, .list ranks, .atom cnt, .atom sum, .list ids] => do
    let rs ← ranks.mapM intOf
    let c ← cnt.toNat?
    let s ← sum.toInt?
    let is ← ids.mapM natOf
    pure (⟨tok, rs⟩, (c, s, is))
  | _ => none

def insNat (x : Nat) : List Nat → List Nat
  | [] => [x]
  | y :: ys => if x ≤ y then x :: y :: ys else y :: insNat x ys

def showGroup (g : Key × St) : String :=
  "(" ++ g.1.tok ++ " " ++ toString g.2.1 ++ " " ++ toString g.2.2.1 ++ " (" ++
    " ".intercalate ((g.2.2.2.foldr insNat []).map toString) ++ "))"

def showGroups (spills : Nat) (gs : List (Key × St)) : String :=
  let sorted := isort (fun (a b : Key × St) => a.1.tok ≤ b.1.tok) gs
  "spills=" ++ toString spills ++ " " ++ " ".intercalate (sorted.map showGroup)

def primOf (k : Key) : Int := k.ranks.headD 0

/-! join -/
def jrowOf : Sexp → Option (Int × Nat)
  | .list [.atom r, .atom id] => do pure (← r.toInt?, ← id.toNat?)
  | _ => none

def jrowsOf : Sexp → Option (List (Int × Nat))
  | .list rs => rs.mapM jrowOf
  | _ => none

def intLe (a b : Int) : Bool := a ≤ b

def showOut : Join.Out (Int × Nat) (Int × Nat) → String
  | .pair a b => "(" ++ toString a.2 ++ " " ++ toString b.2 ++ ")"
  | .bare a => "(" ++ toString a.2 ++ " -)"

def sortSide (rows : List (Int × Nat)) : List (Int × Nat) :=
  isort (fun (a b : Int × Nat) => intLe a.1 b.1) rows

def handle : List Sexp → String
  | .atom "agg" :: .atom name :: chunks =>
    match chunks.mapM chunkOf with
    | some cs => aggHandle name cs
    | none => "bad-op"
  | .atom "groupby" :: .atom limit :: rows =>
    match limit.toNat?, rows.mapM rowOf with
    | some l, some rs =>
      showGroups (spillCount stMon keyLe l rs) (groupby stMon keyLe l rs)
    | _, _ => "bad-op"
  | .atom "naive" :: rows =>
    match rows.mapM rowOf with
    | some rs => showGroups 0 (naiveGroup stMon rs)
    | none => "bad-op"
  | .atom "sorted" :: batches =>
    match batches.mapM (fun | .list rs => rs.mapM rowOf | _ => none) with
    | some bs => showGroups 0 (groupbySorted stMon primOf intLe bs)
    | none => "bad-op"
  | [.atom "join", .atom kind, l, r] =>
    match Join.Kind.ofStr kind, jrowsOf l, jrowsOf r with
    | some k, some l, some r =>
      " ".intercalate ((Join.mergeJoin intLe k (sortSide l) (sortSide r)).map showOut)
    | _, _, _ => "bad-op"
  | [.atom "joinraw", .atom kind, l, r] =>
    match Join.Kind.ofStr kind, jrowsOf l, jrowsOf r with
    | some k, some l, some r => " ".intercalate ((Join.mergeJoin intLe k l r).map showOut)
    | _, _, _ => "bad-op"
  | [.atom "nested", .atom kind, l, r] =>
    match Join.Kind.ofStr kind, jrowsOf l, jrowsOf r with
    | some k, some l, some r =>
      " ".intercalate ((Join.nestedLoop intLe k (sortSide l) (sortSide r)).map showOut)
    | _, _, _ => "bad-op"
  | _ => "bad-op"

end Zed.Drv.C10
