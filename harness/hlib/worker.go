package hlib

// Crash-isolated execution of calls into the real code.
//
// Some of the code under test (the vector cache loader, vam operators behind goroutines)
// panics on goroutines the caller cannot recover from, which terminates the whole process:
// exactly the "crashes the query" outcome C03/C09 must detect.  A harness that wants to
// survive such a case runs the call in a child process: the harness binary re-executes
// itself with the single argument "-worker" and serves one JSON request per line.
//
//	func main() { hlib.WorkerMain(handler); hlib.Main("C03", run) }

import (
	"bufio"
	"bytes"
	"encoding/json"
	"fmt"
	"io"
	"os"
	"os/exec"
	"sync"
	"time"
)

// WorkerMain serves requests and exits when the process was started as a worker; otherwise
// it returns immediately.
func WorkerMain(handler func(req json.RawMessage) any) {
	if len(os.Args) < 2 || os.Args[1] != "-worker" {
		return
	}
	in := bufio.NewReaderSize(os.Stdin, 1<<20)
	out := bufio.NewWriterSize(os.Stdout, 1<<20)
	for {
		line, err := in.ReadBytes('\n')
		if len(line) > 0 {
			resp := handler(json.RawMessage(line))
			b, merr := json.Marshal(resp)
			if merr != nil {
				b, _ = json.Marshal(map[string]string{"worker_error": merr.Error()})
			}
			out.Write(b)
			out.WriteByte('\n')
			out.Flush()
		}
		if err != nil {
			os.Exit(0)
		}
	}
}

type tailBuf struct {
	mu sync.Mutex
	b  []byte
}

func (t *tailBuf) Write(p []byte) (int, error) {
	t.mu.Lock()
	defer t.mu.Unlock()
	t.b = append(t.b, p...)
	if len(t.b) > 16384 {
		t.b = append([]byte{}, t.b[:8192]...) // keep the head: the panic message comes first
	}
	return len(p), nil
}

func (t *tailBuf) String() string {
	t.mu.Lock()
	defer t.mu.Unlock()
	return string(t.b)
}

// Worker is a child process serving requests.
type Worker struct {
	cmd    *exec.Cmd
	in     io.WriteCloser
	out    *bufio.Reader
	stderr *tailBuf
	// Restarts counts crashes (each crash restarts the child lazily).
	Restarts int
}

func (w *Worker) start() error {
	exe, err := os.Executable()
	if err != nil {
		return err
	}
	cmd := exec.Command(exe, "-worker")
	cmd.Env = os.Environ()
	in, err := cmd.StdinPipe()
	if err != nil {
		return err
	}
	out, err := cmd.StdoutPipe()
	if err != nil {
		return err
	}
	w.stderr = &tailBuf{}
	cmd.Stderr = w.stderr
	if err := cmd.Start(); err != nil {
		return err
	}
	w.cmd, w.in, w.out = cmd, in, bufio.NewReaderSize(out, 1<<20)
	return nil
}

func (w *Worker) stop() {
	if w.cmd != nil {
		w.in.Close()
		w.cmd.Process.Kill()
		w.cmd.Wait()
		w.cmd = nil
	}
}

func (w *Worker) Close() { w.stop() }

// Call sends one request.  crashed is true when the child died (panic on a goroutine,
// runtime fatal error) or did not answer within the timeout; crashMsg then carries the
// head of its stderr.
func (w *Worker) Call(req any, timeout time.Duration, resp any) (crashed bool, crashMsg string) {
	if w.cmd == nil {
		if err := w.start(); err != nil {
			panic(fmt.Errorf("cannot start worker: %w", err))
		}
	}
	b, err := json.Marshal(req)
	if err != nil {
		panic(err)
	}
	b = append(bytes.ReplaceAll(b, []byte("\n"), nil), '\n')
	type res struct {
		line []byte
		err  error
	}
	ch := make(chan res, 1)
	go func() {
		if _, err := w.in.Write(b); err != nil {
			ch <- res{nil, err}
			return
		}
		line, err := w.out.ReadBytes('\n')
		ch <- res{line, err}
	}()
	select {
	case r := <-ch:
		if r.err != nil || len(r.line) == 0 {
			w.cmd.Wait()
			msg := w.stderr.String()
			w.cmd = nil
			w.Restarts++
			return true, msg
		}
		if err := json.Unmarshal(r.line, resp); err != nil {
			panic(fmt.Errorf("worker answer not understood: %v: %s", err, r.line))
		}
		return false, ""
	case <-time.After(timeout):
		msg := "timeout after " + timeout.String() + "\n" + w.stderr.String()
		w.stop()
		w.Restarts++
		return true, msg
	}
}
