package main

// C02 fact set (T1): the tables of the ZSON text layer.
//
//   primIds            TypeOfX → id            (primitive.go/type.go ID() methods + const block)
//   primitiveName      id → name               (zed.PrimitiveName switch)
//   lookupPrimitive    name → id               (zed.LookupPrimitive switch + `TypeX = &TypeOfX{}` vars)
//   impliedPrims       ids                     (zson.Implied, first case list)
//   impliedComplex     kind → rule             (zson.Implied, remaining cases, rendered and matched
//                                               against the shapes the model implements)
//   selfDescribing     kinds                   (zson.SelfDescribing)
//   castType           the boolean expression of zson.castType, rendered, plus the id bounds of
//                      zed.IsInteger / zed.IsFloat
//   formatter decorate / hasName / nameOf / needsDecoration: rendered conditions (a changed
//                      condition re-opens the proofs through `decorateCond` etc.)
//
// Everything is matched syntactically; anything not recognised is refused.

import (
	"fmt"
	"go/ast"
	"go/token"
	"regexp"
	"sort"
	"strconv"
	"strings"
)

func init() { register("C02", genC02) }

func c02Consts(f *file, into map[string]int64) {
	for _, d := range f.f.Decls {
		gd, ok := d.(*ast.GenDecl)
		if !ok || gd.Tok != token.CONST {
			continue
		}
		for _, s := range gd.Specs {
			vs := s.(*ast.ValueSpec)
			if len(vs.Names) != 1 || len(vs.Values) != 1 {
				continue
			}
			if n, ok := intLit(vs.Values[0]); ok {
				into[vs.Names[0].Name] = n
			}
		}
	}
}

func starTypeName(e ast.Expr) (string, bool) {
	s, ok := e.(*ast.StarExpr)
	if !ok {
		return "", false
	}
	n, ok := selName(s.X)
	if !ok {
		return "", false
	}
	return strings.TrimPrefix(n, "zed."), true
}

func genC02(repo string) (string, error) {
	var b strings.Builder
	typeGo, err := parseFile(repo, "type.go")
	if err != nil {
		return "", err
	}
	primGo, err := parseFile(repo, "primitive.go")
	if err != nil {
		return "", err
	}
	consts := map[string]int64{}
	c02Consts(typeGo, consts)

	// TypeOfX.ID() → const
	typeID := map[string]int64{}
	for _, f := range []*file{typeGo, primGo} {
		for _, d := range f.f.Decls {
			fd, ok := d.(*ast.FuncDecl)
			if !ok || fd.Name.Name != "ID" || fd.Recv == nil || len(fd.Recv.List) != 1 {
				continue
			}
			tn, ok := starTypeName(fd.Recv.List[0].Type)
			if !ok || !strings.HasPrefix(tn, "TypeOf") {
				continue
			}
			ret, ok := singleReturn(fd.Body.List)
			if !ok {
				return "", fmt.Errorf("%s: %s.ID is not a single return", f.pos(fd), tn)
			}
			cn, ok := identName(ret)
			if !ok {
				return "", fmt.Errorf("%s: %s.ID does not return a constant", f.pos(fd), tn)
			}
			v, ok := consts[cn]
			if !ok {
				return "", fmt.Errorf("%s: constant %s not found", f.pos(fd), cn)
			}
			typeID[tn] = v
		}
	}
	if len(typeID) < 15 {
		return "", fmt.Errorf("only %d primitive ID() methods recognised", len(typeID))
	}
	// vars TypeX = &TypeOfX{}
	varType := map[string]string{}
	for _, d := range typeGo.f.Decls {
		gd, ok := d.(*ast.GenDecl)
		if !ok || gd.Tok != token.VAR {
			continue
		}
		for _, s := range gd.Specs {
			vs := s.(*ast.ValueSpec)
			if len(vs.Names) != 1 || len(vs.Values) != 1 {
				continue
			}
			u, ok := vs.Values[0].(*ast.UnaryExpr)
			if !ok || u.Op != token.AND {
				continue
			}
			cl, ok := u.X.(*ast.CompositeLit)
			if !ok {
				continue
			}
			tn, ok := identName(cl.Type)
			if !ok {
				continue
			}
			varType[vs.Names[0].Name] = tn
		}
	}

	// PrimitiveName: switch typ.(type) { case *TypeOfX: return "x" … default: … }
	fd, err := typeGo.funcDecl("", "PrimitiveName")
	if err != nil {
		return "", err
	}
	var pn []string
	var ts *ast.TypeSwitchStmt
	ast.Inspect(fd.Body, func(n ast.Node) bool {
		if s, ok := n.(*ast.TypeSwitchStmt); ok && ts == nil {
			ts = s
		}
		return ts == nil
	})
	if ts == nil {
		return "", fmt.Errorf("%s: PrimitiveName: no type switch", typeGo.pos(fd))
	}
	for _, s := range ts.Body.List {
		cc := s.(*ast.CaseClause)
		if cc.List == nil {
			continue
		}
		ret, ok := singleReturn(cc.Body)
		if !ok {
			return "", fmt.Errorf("%s: PrimitiveName: case body not a single return", typeGo.pos(cc))
		}
		name, ok := strLit(ret)
		if !ok {
			return "", fmt.Errorf("%s: PrimitiveName: non-literal return", typeGo.pos(cc))
		}
		for _, c := range cc.List {
			tn, ok := starTypeName(c)
			if !ok {
				return "", fmt.Errorf("%s: PrimitiveName: unrecognised case", typeGo.pos(c))
			}
			id, ok := typeID[tn]
			if !ok {
				return "", fmt.Errorf("%s: PrimitiveName: no ID for %s", typeGo.pos(c), tn)
			}
			pn = append(pn, fmt.Sprintf("(%d, %s)", id, leanStr(name)))
		}
	}
	fmt.Fprintf(&b, "def primitiveName : List (Nat × String) :=\n  [%s]\n", strings.Join(pn, ", "))

	// LookupPrimitive: switch name { case "x": return TypeX … } return nil
	fd, err = typeGo.funcDecl("", "LookupPrimitive")
	if err != nil {
		return "", err
	}
	sw := firstSwitch(fd.Body, "name")
	if sw == nil {
		return "", fmt.Errorf("%s: LookupPrimitive: no `switch name`", typeGo.pos(fd))
	}
	var lp []string
	for _, s := range sw.Body.List {
		cc := s.(*ast.CaseClause)
		if cc.List == nil {
			return "", fmt.Errorf("%s: LookupPrimitive: default clause not recognised", typeGo.pos(cc))
		}
		ret, ok := singleReturn(cc.Body)
		if !ok {
			return "", fmt.Errorf("%s: LookupPrimitive: case body not a single return", typeGo.pos(cc))
		}
		vn, ok := identName(ret)
		if !ok {
			return "", fmt.Errorf("%s: LookupPrimitive: unrecognised return", typeGo.pos(cc))
		}
		tn, ok := varType[vn]
		if !ok {
			return "", fmt.Errorf("%s: LookupPrimitive: variable %s is not `&TypeOfX{}`", typeGo.pos(cc), vn)
		}
		id, ok := typeID[tn]
		if !ok {
			return "", fmt.Errorf("%s: LookupPrimitive: no ID for %s", typeGo.pos(cc), tn)
		}
		for _, c := range cc.List {
			name, ok := strLit(c)
			if !ok {
				return "", fmt.Errorf("%s: LookupPrimitive: non-literal case", typeGo.pos(c))
			}
			lp = append(lp, fmt.Sprintf("(%s, %d)", leanStr(name), id))
		}
	}
	fmt.Fprintf(&b, "def lookupPrimitive : List (String × Nat) :=\n  [%s]\n", strings.Join(lp, ", "))

	// zson.Implied
	zsonGo, err := parseFile(repo, "zson/zson.go")
	if err != nil {
		return "", err
	}
	fd, err = zsonGo.funcDecl("", "Implied")
	if err != nil {
		return "", err
	}
	ts = nil
	ast.Inspect(fd.Body, func(n ast.Node) bool {
		if s, ok := n.(*ast.TypeSwitchStmt); ok && ts == nil {
			ts = s
		}
		return ts == nil
	})
	if ts == nil {
		return "", fmt.Errorf("%s: Implied: no type switch", zsonGo.pos(fd))
	}
	var impliedPrims []int64
	var complexRules []string
	for _, s := range ts.Body.List {
		cc := s.(*ast.CaseClause)
		if cc.List == nil {
			return "", fmt.Errorf("%s: Implied: default clause not recognised", zsonGo.pos(cc))
		}
		ret, ok := singleReturn(cc.Body)
		if !ok {
			return "", fmt.Errorf("%s: Implied: case body not a single return", zsonGo.pos(cc))
		}
		rr := renderExpr(zsonGo, ret)
		for _, c := range cc.List {
			tn, ok := starTypeName(c)
			if !ok {
				return "", fmt.Errorf("%s: Implied: unrecognised case", zsonGo.pos(c))
			}
			if strings.HasPrefix(tn, "TypeOf") {
				if rr != "true" {
					return "", fmt.Errorf("%s: Implied: primitive case does not return true", zsonGo.pos(cc))
				}
				id, ok := typeID[tn]
				if !ok {
					return "", fmt.Errorf("%s: Implied: no ID for %s", zsonGo.pos(c), tn)
				}
				impliedPrims = append(impliedPrims, id)
			} else {
				complexRules = append(complexRules, fmt.Sprintf("(%s, %s)", leanStr(strings.ToLower(strings.TrimPrefix(tn, "Type"))), leanStr(rr)))
			}
		}
	}
	// the statement after the switch must be `return false`
	last := fd.Body.List[len(fd.Body.List)-1]
	if r, ok := last.(*ast.ReturnStmt); !ok || len(r.Results) != 1 || renderExpr(zsonGo, r.Results[0]) != "false" {
		return "", fmt.Errorf("%s: Implied: does not end in `return false`", zsonGo.pos(fd))
	}
	sort.Slice(impliedPrims, func(i, j int) bool { return impliedPrims[i] < impliedPrims[j] })
	var ips []string
	for _, id := range impliedPrims {
		ips = append(ips, fmt.Sprint(id))
	}
	fmt.Fprintf(&b, "def impliedPrims : List Nat := [%s]\n", strings.Join(ips, ", "))
	fmt.Fprintf(&b, "def impliedComplex : List (String × String) :=\n  [%s]\n", strings.Join(complexRules, ",\n   "))

	// zson.SelfDescribing: if Implied(typ) {return true}; switch { case kinds: return true; case *zed.TypeNamed: return SelfDescribing(typ.Type) }; return false
	fd, err = zsonGo.funcDecl("", "SelfDescribing")
	if err != nil {
		return "", err
	}
	var sd []string
	first, ok := fd.Body.List[0].(*ast.IfStmt)
	if !ok || renderExpr(zsonGo, first.Cond) != "Implied(typ)" || renderStmt(zsonGo, first.Body) != "{ return true }" {
		return "", fmt.Errorf("%s: SelfDescribing: first statement is not `if Implied(typ) { return true }`", zsonGo.pos(fd))
	}
	ts = nil
	ast.Inspect(fd.Body, func(n ast.Node) bool {
		if s, ok := n.(*ast.TypeSwitchStmt); ok && ts == nil {
			ts = s
		}
		return ts == nil
	})
	if ts == nil {
		return "", fmt.Errorf("%s: SelfDescribing: no type switch", zsonGo.pos(fd))
	}
	for _, s := range ts.Body.List {
		cc := s.(*ast.CaseClause)
		if cc.List == nil {
			return "", fmt.Errorf("%s: SelfDescribing: default clause not recognised", zsonGo.pos(cc))
		}
		ret, ok := singleReturn(cc.Body)
		if !ok {
			return "", fmt.Errorf("%s: SelfDescribing: case body not a single return", zsonGo.pos(cc))
		}
		rr := renderExpr(zsonGo, ret)
		for _, c := range cc.List {
			tn, ok := starTypeName(c)
			if !ok {
				return "", fmt.Errorf("%s: SelfDescribing: unrecognised case", zsonGo.pos(c))
			}
			sd = append(sd, fmt.Sprintf("(%s, %s)", leanStr(strings.ToLower(strings.TrimPrefix(tn, "Type"))), leanStr(rr)))
		}
	}
	last = fd.Body.List[len(fd.Body.List)-1]
	if r, ok := last.(*ast.ReturnStmt); !ok || len(r.Results) != 1 || renderExpr(zsonGo, r.Results[0]) != "false" {
		return "", fmt.Errorf("%s: SelfDescribing: does not end in `return false`", zsonGo.pos(fd))
	}
	fmt.Fprintf(&b, "def selfDescribing : List (String × String) :=\n  [%s]\n", strings.Join(sd, ", "))

	// castType + IsInteger / IsFloat bounds
	anGo, err := parseFile(repo, "zson/analyzer.go")
	if err != nil {
		return "", err
	}
	fd, err = anGo.funcDecl("", "castType")
	if err != nil {
		return "", err
	}
	var castCond string
	for _, s := range fd.Body.List {
		if is, ok := s.(*ast.IfStmt); ok {
			castCond = renderExpr(anGo, is.Cond)
			if renderStmt(anGo, is.Body) != "{ return cast, nil }" {
				return "", fmt.Errorf("%s: castType: accepting branch is not `return cast, nil`", anGo.pos(is))
			}
		}
	}
	if castCond == "" {
		return "", fmt.Errorf("%s: castType: no condition found", anGo.pos(fd))
	}
	fmt.Fprintf(&b, "def castTypeCond : String := %s\n", leanStr(castCond))
	for _, fn := range []string{"IsInteger", "IsFloat"} {
		fd, err = typeGo.funcDecl("", fn)
		if err != nil {
			return "", err
		}
		ret, ok := singleReturn(fd.Body.List)
		if !ok {
			return "", fmt.Errorf("%s: %s is not a single return", typeGo.pos(fd), fn)
		}
		fmt.Fprintf(&b, "def %sCond : String := %s\n", strings.ToLower(fn[:1])+fn[1:], leanStr(renderExpr(typeGo, ret)))
	}
	for _, cn := range []string{"IDInt256", "IDFloat16", "IDFloat256", "IDNull", "IDTypeComplex", "IDString", "IDType"} {
		v, ok := consts[cn]
		if !ok {
			return "", fmt.Errorf("type.go: constant %s not found", cn)
		}
		fmt.Fprintf(&b, "def %s : Nat := %d\n", strings.ToLower(cn[:2])+cn[2:], v)
	}

	// Analyzer.convertType, case *astzed.TypeName: the order in which a bare type name is
	// resolved (the analyzer's own table first, the shared context's typedefs as a fallback)
	fd, err = anGo.funcDecl("Analyzer", "convertType")
	if err != nil {
		return "", err
	}
	ts = nil
	ast.Inspect(fd.Body, func(n ast.Node) bool {
		if s, ok := n.(*ast.TypeSwitchStmt); ok && ts == nil {
			ts = s
		}
		return ts == nil
	})
	if ts == nil {
		return "", fmt.Errorf("%s: convertType: no type switch", anGo.pos(fd))
	}
	var tnBody []string
	for _, s := range ts.Body.List {
		cc := s.(*ast.CaseClause)
		if len(cc.List) != 1 {
			continue
		}
		if tn, ok := starTypeName(cc.List[0]); !ok || tn != "astzed.TypeName" {
			continue
		}
		for _, st := range cc.Body {
			tnBody = append(tnBody, c02StripComments(renderStmt(anGo, st)))
		}
	}
	if len(tnBody) == 0 {
		return "", fmt.Errorf("%s: convertType: case *astzed.TypeName not found", anGo.pos(fd))
	}
	fmt.Fprintf(&b, "def convertTypeNameBody : List String := %s\n", leanStrList(tnBody))

	// formatter conditions
	fmGo, err := parseFile(repo, "zson/formatter.go")
	if err != nil {
		return "", err
	}
	fd, err = fmGo.funcDecl("Formatter", "decorate")
	if err != nil {
		return "", err
	}
	var conds []string
	ast.Inspect(fd.Body, func(n ast.Node) bool {
		if is, ok := n.(*ast.IfStmt); ok {
			c := renderExpr(fmGo, is.Cond)
			if is.Init != nil {
				c = renderStmt(fmGo, is.Init) + "; " + c
			}
			conds = append(conds, c)
		}
		return true
	})
	fmt.Fprintf(&b, "def decorateConds : List String := %s\n", leanStrList(conds))
	fd, err = fmGo.funcDecl("elemHelper", "needsDecoration")
	if err != nil {
		return "", err
	}
	var nd []string
	for _, s := range fd.Body.List {
		nd = append(nd, renderStmt(fmGo, s))
	}
	fmt.Fprintf(&b, "def needsDecorationBody : List String := %s\n", leanStrList(nd))
	fd, err = fmGo.funcDecl("Formatter", "formatUnion")
	if err != nil {
		return "", err
	}
	var fu []string
	for _, s := range fd.Body.List {
		r := renderStmt(fmGo, s)
		if i := strings.LastIndex(r, "// "); i >= 0 {
			// a comment group printed in front of the statement: keep the statement only
			if j := strings.Index(r[i:], " const "); j >= 0 {
				r = r[i+j+1:]
			}
		}
		fu = append(fu, r)
	}
	fmt.Fprintf(&b, "def formatUnionBody : List String := %s\n", leanStrList(fu))
	fd, err = fmGo.funcDecl("Formatter", "formatValueAndDecorate")
	if err != nil {
		return "", err
	}
	var fv []string
	for _, s := range fd.Body.List {
		fv = append(fv, renderStmt(fmGo, s))
	}
	fmt.Fprintf(&b, "def formatValueAndDecorateBody : List String := %s\n", leanStrList(fv))

	// layout: everything the formatter writes *because of* pretty-printing.  Every statement
	// guarded by `f.tab > 0`, the value given to `newline`, the body of `indent`, and every
	// expression that mentions `newline` — rendered; the Lean side checks that they only ever
	// build blanks and line breaks next to the tokens that are written anyway.
	var tabBodies, newlineUses []string
	ast.Inspect(fmGo.f, func(n ast.Node) bool {
		switch x := n.(type) {
		case *ast.IfStmt:
			c := renderExpr(fmGo, x.Cond)
			if c == "f.tab > 0" || c == "pretty > 0" {
				tabBodies = append(tabBodies, c02StripComments(renderStmt(fmGo, x.Body)))
				if x.Else != nil {
					tabBodies = append(tabBodies, "else "+renderStmt(fmGo, x.Else))
				}
			}
		case *ast.AssignStmt, *ast.ExprStmt:
			r := renderNode(fmGo, x)
			if strings.Contains(r, "newline") && !strings.Contains(r, "{") {
				newlineUses = append(newlineUses, r)
			}
		}
		return true
	})
	sort.Strings(newlineUses)
	newlineUses = c02Uniq(newlineUses)
	sort.Strings(tabBodies)
	tabBodies = c02Uniq(tabBodies)
	fmt.Fprintf(&b, "def prettyGuardedBodies : List String := %s\n", leanStrList(tabBodies))
	fmt.Fprintf(&b, "def newlineUses : List String := %s\n", leanStrList(newlineUses))
	fd, err = fmGo.funcDecl("Formatter", "indent")
	if err != nil {
		return "", err
	}
	var ib []string
	for _, st := range fd.Body.List {
		ib = append(ib, renderStmt(fmGo, st))
	}
	fmt.Fprintf(&b, "def indentBody : List String := %s\n", leanStrList(ib))

	// escape.go: the safe set and the short escapes of QuotedString
	esGo, err := parseFile(repo, "zson/escape.go")
	if err != nil {
		return "", err
	}
	var unsafeChars []string
	found := false
	for _, d := range esGo.f.Decls {
		gd, ok := d.(*ast.GenDecl)
		if !ok || gd.Tok != token.VAR {
			continue
		}
		for _, s := range gd.Specs {
			vs := s.(*ast.ValueSpec)
			if len(vs.Names) != 1 || vs.Names[0].Name != "safeSet" || len(vs.Values) != 1 {
				continue
			}
			cl, ok := vs.Values[0].(*ast.CompositeLit)
			if !ok {
				return "", fmt.Errorf("escape.go: safeSet is not a composite literal")
			}
			found = true
			safe := map[int]bool{}
			for _, e := range cl.Elts {
				kv, ok := e.(*ast.KeyValueExpr)
				if !ok {
					return "", fmt.Errorf("escape.go: safeSet element not key: value")
				}
				kl, ok := kv.Key.(*ast.BasicLit)
				if !ok || kl.Kind != token.CHAR {
					return "", fmt.Errorf("escape.go: safeSet key not a char literal")
				}
				r, _, _, err := unquoteChar(kl.Value)
				if err != nil {
					return "", fmt.Errorf("escape.go: safeSet key %s: %v", kl.Value, err)
				}
				val, ok := identName(kv.Value)
				if !ok || (val != "true" && val != "false") {
					return "", fmt.Errorf("escape.go: safeSet value not true/false")
				}
				safe[int(r)] = val == "true"
			}
			for c := 0; c < 128; c++ {
				if !safe[c] {
					unsafeChars = append(unsafeChars, fmt.Sprint(c))
				}
			}
		}
	}
	if !found {
		return "", fmt.Errorf("escape.go: safeSet not found")
	}
	fmt.Fprintf(&b, "def unsafeAscii : List Nat := [%s]\n", strings.Join(unsafeChars, ", "))
	// short escapes: switch c { case '\\', '"': WriteByte(c); case '\b': WriteByte('b') … default: \u00XX }
	fd, err = esGo.funcDecl("", "QuotedString")
	if err != nil {
		return "", err
	}
	sw = firstSwitch(fd.Body, "c")
	if sw == nil {
		return "", fmt.Errorf("%s: QuotedString: no `switch c`", esGo.pos(fd))
	}
	var esc []string
	for _, s := range sw.Body.List {
		cc := s.(*ast.CaseClause)
		if cc.List == nil {
			continue
		}
		if len(cc.Body) != 1 {
			return "", fmt.Errorf("%s: QuotedString: escape case body not a single statement", esGo.pos(cc))
		}
		es, ok := cc.Body[0].(*ast.ExprStmt)
		if !ok {
			return "", fmt.Errorf("%s: QuotedString: escape case body not a call", esGo.pos(cc))
		}
		args, ok := callTo(es.X, "b.WriteByte")
		if !ok || len(args) != 1 {
			return "", fmt.Errorf("%s: QuotedString: escape case body not b.WriteByte(x)", esGo.pos(cc))
		}
		for _, c := range cc.List {
			cl, ok := c.(*ast.BasicLit)
			if !ok || cl.Kind != token.CHAR {
				return "", fmt.Errorf("%s: QuotedString: case not a char literal", esGo.pos(c))
			}
			from, _, _, err := unquoteChar(cl.Value)
			if err != nil {
				return "", err
			}
			var to rune
			if id, ok := identName(args[0]); ok && id == "c" {
				to = from
			} else if al, ok := args[0].(*ast.BasicLit); ok && al.Kind == token.CHAR {
				to, _, _, err = unquoteChar(al.Value)
				if err != nil {
					return "", err
				}
			} else {
				return "", fmt.Errorf("%s: QuotedString: unrecognised escape target", esGo.pos(cc))
			}
			esc = append(esc, fmt.Sprintf("(%d, %d)", from, to))
		}
	}
	fmt.Fprintf(&b, "def shortEscapes : List (Nat × Nat) := [%s]\n", strings.Join(esc, ", "))
	return b.String(), nil
}

func unquoteChar(lit string) (rune, bool, string, error) {
	if len(lit) < 3 || lit[0] != '\'' || lit[len(lit)-1] != '\'' {
		return 0, false, "", fmt.Errorf("bad char literal %s", lit)
	}
	return strconvUnquoteChar(lit[1:len(lit)-1], '\'')
}

func strconvUnquoteChar(s string, q byte) (rune, bool, string, error) {
	return strconv.UnquoteChar(s, q)
}

var c02CommentRE = regexp.MustCompile(`//[^{}]*?(named :=|typ =|return|if )`)

// c02StripComments removes the line comments the printer leaves inside a rendered statement
// (the rendering is on one line, so a comment runs up to the next statement keyword).
func c02StripComments(s string) string {
	for {
		loc := c02CommentRE.FindStringSubmatchIndex(s)
		if loc == nil {
			return s
		}
		s = s[:loc[0]] + s[loc[2]:]
	}
}

func c02Uniq(xs []string) []string {
	var out []string
	for i, x := range xs {
		if i == 0 || x != xs[i-1] {
			out = append(out, x)
		}
	}
	return out
}
