// Package hlib is the shared library of the Go side of the verification machinery (ties T2 and S of DESIGN.md).
// It is built against /repo's current working tree (replace => /repo, -tags verif), runs
// the real code and the Lean model's executable definitions (through the compiled driver)
// on the same generated inputs, and writes a result file that bin/check turns into
// evidence, KNOWN-FINDING and VIOLATION lines.
//
//	zvh-cXX -tier quick|thorough -seed N -out result.json -driver /path/to/zdriver_CXX
//	zvh-cXX -replay replay.json -out result.json -driver ...
package hlib

import (
	"flag"
	"fmt"
	"os"
	"strings"
	"time"
)

// Main is the entry point of a per-property harness binary (harness/cXX/main.go):
//
//	func main() { hlib.Main("C16", run) }
func Main(id string, fn func(*Ctx)) {
	fs := flag.NewFlagSet(id, flag.ExitOnError)
	tier := fs.String("tier", "quick", "quick|thorough")
	seed := fs.Int64("seed", 1, "PRNG seed")
	out := fs.String("out", "", "result file")
	driver := fs.String("driver", "/verif/lean/.lake/build/bin/zdriver_"+strings.ToUpper(id), "compiled Lean driver")
	replay := fs.String("replay", "", "replay file: re-run exactly this case")
	corpus := fs.String("corpus", "", "corpus directory of past minimized failures (run first)")
	only := fs.String("only", "", "comma-separated sub-checks to run (default all)")
	fs.Parse(os.Args[1:])
	c := newCtx(strings.ToUpper(id), *tier, *seed, *driver)
	c.Only = map[string]bool{}
	for _, s := range strings.Split(*only, ",") {
		if s != "" {
			c.Only[s] = true
		}
	}
	c.CorpusDir = *corpus
	if *replay != "" {
		if err := c.loadReplay(*replay); err != nil {
			fmt.Fprintln(os.Stderr, "replay:", err)
			os.Exit(2)
		}
	}
	start := time.Now()
	func() {
		defer func() {
			if r := recover(); r != nil {
				c.Fail("harness-panic", c.Prop+":harness-panic", fmt.Sprintf("harness panicked: %v", r), map[string]any{"panic": fmt.Sprint(r), "stack": Stack()})
			}
		}()
		fn(c)
	}()
	c.closeModel()
	c.Res.WallS = time.Since(start).Seconds()
	if *out != "" {
		if err := c.writeResult(*out); err != nil {
			fmt.Fprintln(os.Stderr, err)
			os.Exit(2)
		}
	}
	fmt.Printf("zvh %s tier=%s seed=%d evaluations=%d distinct=%d failures=%d wall=%.1fs\n",
		c.Prop, c.Tier, c.Seed, c.Res.Evaluations, len(c.distinct), len(c.Res.Failures), c.Res.WallS)
	for _, f := range c.Res.Failures {
		fmt.Printf("  FAIL kind=%s key=%s %s\n", f.Kind, f.Key, f.What)
	}
}
