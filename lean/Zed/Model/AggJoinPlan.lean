/-
  Model of how a join is planned and fed (C10): which side is which, which direction the merge
  join runs in, which sides get a sort inserted — and the two different null placements.
  Anchors: compiler/kernel/op.go (`case *dag.Join`: the "right" style swaps keys, parents AND
  declared directions), runtime/sam/op/join/join.go join.New (direction `o` from the left side's
  declared direction, else the right's, else ascending; a sort is inserted on a side whose
  declared direction does not have order `o`), runtime/sam/op/sort/sort.go setComparator (the
  sort operator puts nulls LAST in both directions), expr.NewValueCompareFn(o, nullsMax = true)
  (the join's comparator: nulls last ascending, FIRST descending).

  Keys are `Option Int`: `none` = null, `some r` = rank of a non-null key in the value order.
  Rows whose key is missing are dropped before (they are outside the property).
-/
import Zed.Model.AggJoin
import Zed.Model.AggGroupby
namespace Zed.Join

/-- how a join input arrives -/
inductive Leg where
  | plain        -- no known order
  | sortAsc      -- `sort k` operator in the leg
  | sortDesc     -- `sort -r k` operator in the leg
  | declAsc      -- source declared (and really) sorted ascending, nulls last
  | declDesc     -- source declared (and really) sorted descending, nulls first
  deriving DecidableEq, Repr

def Leg.ofStr : String → Option Leg
  | "-" => some .plain | "asc" => some .sortAsc | "desc" => some .sortDesc
  | "fasc" => some .declAsc | "fdesc" => some .declDesc | _ => none

/-- order.Direction the optimizer attaches to the side: 0 unknown, 1 up, -1 down -/
def Leg.dir : Leg → Int
  | .plain => 0 | .sortAsc => 1 | .sortDesc => -1 | .declAsc => 1 | .declDesc => -1

abbrev JKey := Option Int

/-- the join's comparator `o.compare` as ≤: ascending nulls last; descending: reversed ranks,
    nulls FIRST -/
def jle (desc : Bool) : JKey → JKey → Bool
  | none, none => true
  | none, some _ => desc
  | some _, none => !desc
  | some a, some b => if desc then decide (b ≤ a) else decide (a ≤ b)

/-- the sort operator's comparator: by rank in the direction, nulls LAST either way -/
def sle (desc : Bool) : JKey → JKey → Bool
  | none, none => true
  | none, some _ => false
  | some _, none => true
  | some a, some b => if desc then decide (b ≤ a) else decide (a ≤ b)

def sortOp {α : Type} (desc : Bool) (rows : List (JKey × α)) : List (JKey × α) :=
  Zed.Agg.isort (fun a b => sle desc a.1 b.1) rows

/-- what a leg delivers -/
def Leg.deliver {α : Type} (leg : Leg) (rows : List (JKey × α)) : List (JKey × α) :=
  match leg with
  | .sortAsc => sortOp false rows
  | .sortDesc => sortOp true rows
  | _ => rows

/-- join.New: (desc, sort inserted on its left, sort inserted on its right) from the declared
    directions of ITS left and right parents -/
def joinNew (leftDir rightDir : Int) : Bool × Bool × Bool :=
  let desc := if leftDir ≠ 0 then leftDir == -1 else if rightDir ≠ 0 then rightDir == -1 else false
  let has := fun (d : Int) => if desc then d == -1 else d == 1
  (desc, !has leftDir, !has rightDir)

/-- join.New's output given what its two parents deliver -/
def joinRun {A B : Type} (kind : Kind) (leftDir rightDir : Int)
    (l : List (JKey × A)) (r : List (JKey × B)) : List (Out (JKey × A) (JKey × B)) :=
  let (desc, sl, sr) := joinNew leftDir rightDir
  let l' := if sl then sortOp desc l else l
  let r' := if sr then sortOp desc r else r
  mergeJoin (jle desc) kind l' r'

inductive Style where
  | inner | left | right | anti
  deriving DecidableEq, Repr

def Style.ofStr : String → Option Style
  | "inner" => some .inner | "left" => some .left | "right" => some .right | "anti" => some .anti
  | _ => none

/-- one output row in terms of the query's own left and right inputs -/
inductive Row (A B : Type) where
  | both (a : A) (b : B)
  | leftOnly (a : A)
  | rightOnly (b : B)
  deriving DecidableEq, Repr

/-- compiler/kernel/op.go `case *dag.Join`: the right style is the left join with keys, parents
    and declared directions swapped; the others map to (anti, inner) flags. -/
def joinFull {A B : Type} (style : Style) (lleg rleg : Leg)
    (l : List (JKey × A)) (r : List (JKey × B)) : List (Row (JKey × A) (JKey × B)) :=
  let l' := lleg.deliver l
  let r' := rleg.deliver r
  match style with
  | .right =>
    (joinRun .left rleg.dir lleg.dir r' l').map fun
      | .pair b a => .both a b
      | .bare b => .rightOnly b
  | .inner => (joinRun .inner lleg.dir rleg.dir l' r').map fun
      | .pair a b => .both a b
      | .bare a => .leftOnly a
  | .left => (joinRun .left lleg.dir rleg.dir l' r').map fun
      | .pair a b => .both a b
      | .bare a => .leftOnly a
  | .anti => (joinRun .anti lleg.dir rleg.dir l' r').map fun
      | .pair a b => .both a b
      | .bare a => .leftOnly a

/-- the swap as data, for the T1 comparison: the three assignments of `case "right"` -/
def rightStyleSwaps : List String :=
  ["leftKey, rightKey = rightKey, leftKey",
   "leftParent, rightParent = rightParent, leftParent",
   "leftDir, rightDir = rightDir, leftDir"]

end Zed.Join
