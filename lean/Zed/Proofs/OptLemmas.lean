/-
  Lemmas for C07 (Props/C07.lean): filters, walk congruence, merge/sort facts.
-/
import Zed.Model.OptSem
namespace Zed.Opt
variable {V : Type}

theorem filterSem_nil (I : Interp V) (e : Expr) : filterSem I e [] = [] := rfl

theorem filterSem_cons (I : Interp V) (e : Expr) (v : V) (xs : List V) :
    filterSem I e (v :: xs) = filterOut I e v ++ filterSem I e xs := by
  simp [filterSem]

theorem filterSem_append (I : Interp V) (e : Expr) (xs ys : List V) :
    filterSem I e (xs ++ ys) = filterSem I e xs ++ filterSem I e ys := by
  simp [filterSem]

theorem evalB_and (I : Interp V) (a b : Expr) (v : V) :
    evalB I (.bin "and" a b) v = andR (evalB I a v) (evalB I b v) := by
  simp [evalB]

/-- one value through `where a | where b` and through `where a and b`. -/
theorem filterOut_and (I : Interp V) (hT : Total I) (a b : Expr) (v : V) :
    filterOut I (.bin "and" a b) v = filterSem I b (filterOut I a v) := by
  unfold filterOut
  rw [evalB_and]
  cases h : evalB I a v with
  | tt => simp [andR, filterSem, filterOut]
  | ff => simp [andR, filterSem]
  | miss => simp [andR, filterSem]
  | err w => simp [andR, filterSem, hT _ _ _ h]

theorem filterSem_and (I : Interp V) (hT : Total I) (a b : Expr) (xs : List V) :
    filterSem I (.bin "and" a b) xs = filterSem I b (filterSem I a xs) := by
  induction xs with
  | nil => rfl
  | cons v xs ih => rw [filterSem_cons, filterSem_cons, filterSem_append, ih, filterOut_and I hT]

/-- under `Total` the filter operator is `List.filter` on "predicate is true". -/
theorem filterSem_eq_keepTrue (I : Interp V) (hT : Total I) (e : Expr) (xs : List V) :
    filterSem I e xs = keepTrue I e xs := by
  induction xs with
  | nil => rfl
  | cons v xs ih =>
    rw [filterSem_cons, ih]
    unfold keepTrue filterOut
    cases h : evalB I e v with
    | tt => simp [h]
    | ff => simp [h]
    | miss => simp [h]
    | err w => simp [h, hT _ _ _ h]

theorem keepTrue_sublist (I : Interp V) (e : Expr) (xs : List V) : (keepTrue I e xs).Sublist xs := by
  unfold keepTrue; exact List.filter_sublist

theorem andR_noerr {a b : R V} (ha : ∀ w, a ≠ .err w) (hb : ∀ w, b ≠ .err w) : ∀ w, andR a b ≠ .err w := by
  intro w; cases a <;> simp_all [andR]

theorem orR_noerr {a b : R V} (ha : ∀ w, a ≠ .err w) (hb : ∀ w, b ≠ .err w) : ∀ w, orR a b ≠ .err w := by
  intro w; cases a <;> simp_all [orR]

theorem notR_noerr {a : R V} (ha : ∀ w, a ≠ .err w) : ∀ w, notR a ≠ .err w := by
  intro w; cases a <;> simp_all [notR]

/-- if no atom evaluates to an error value, no predicate does. -/
theorem evalB_noerr (I : Interp V) (h : ∀ e v w, I.atom e v ≠ .err w) :
    ∀ (e : Expr) (v w : V), evalB I e v ≠ .err w
  | .bin op a b, v, w => by
    unfold evalB
    split
    · exact andR_noerr (evalB_noerr I h a v) (evalB_noerr I h b v) w
    · split
      · exact orR_noerr (evalB_noerr I h a v) (evalB_noerr I h b v) w
      · exact h _ _ _
  | .un op a, v, w => by
    unfold evalB
    split
    · exact notR_noerr (evalB_noerr I h a v) w
    · exact h _ _ _
  | .this _, _, _ | .lit _, _, _ | .call .., _, _ | .search .., _, _ | .rmatch .., _, _
  | .rsearch .., _, _ | .dot .., _, _ | .record _, _, _ | .map _, _, _ | .agg .., _, _
  | .none, _, _ | .x .., _, _ => by unfold evalB; exact h _ _ _

theorem total_of_atom (I : Interp V) (h : ∀ e v w, I.atom e v ≠ .err w) : Total I := by
  intro e v w he; exact absurd he (evalB_noerr I h e v w)

/-! ## whole sequences -/

theorem semSeq_cons (I : Interp V) (S : Sched V) (o : Op) (r : Seq) (ins : List (List V)) :
    semSeq I S (.cons o r) ins = semSeq I S r (semOp I S o ins) := by
  simp [semSeq]

theorem semOp_filter (I : Interp V) (S : Sched V) (e : Expr) (ins : List (List V)) :
    semOp I S (.filter e) ins = [filterSem I e (S.comb ins)] := by
  simp [semOp, leafSem]

/-- the loop of `mergeFilters` on one sequence preserves its meaning (combiner "and"). -/
theorem semSeq_mergeFiltersSeq (I : Interp V) (S : Sched V) (hT : Total I)
    (hc : Zed.Generated.C07.mergeFiltersCombiner = "and") :
    ∀ (s : Seq) (ins : List (List V)), semSeq I S (mergeFiltersSeq s) ins = semSeq I S s ins
  | .nil, _ => rfl
  | .cons o r, ins => by
    have ih := semSeq_mergeFiltersSeq I S hT hc r
    unfold mergeFiltersSeq
    split
    · rename_i a b r' heq
      rw [semSeq_cons, semSeq_cons, ← ih, heq, semSeq_cons, semOp_filter, semOp_filter, semOp_filter,
        S.comb_single, hc, filterSem_and I hT]
    · rw [semSeq_cons, semSeq_cons, ih]

/-- congruence of the semantics under `walk`: a rewrite that preserves the meaning of every
    sequence it is applied to preserves the meaning of the DAG. -/
theorem walk_sound_all (I : Interp V) (S : Sched V) (over : Bool) (post : Seq → Seq)
    (hpost : ∀ s ins, semSeq I S (post s) ins = semSeq I S s ins) (o : Op) :
    ∀ ins, semOp I S (walkOp over post o) ins = semOp I S o ins := by
  apply @Op.rec
    (motive_1 := fun o => ∀ ins, semOp I S (walkOp over post o) ins = semOp I S o ins)
    (motive_2 := fun s => ∀ ins, semSeq I S (walkKids over post s) ins = semSeq I S s ins)
    (motive_3 := fun ps => (∀ x, semPaths I S (walkPaths over post ps) x = semPaths I S ps x) ∧
      (∀ sh, semScatter I S (walkPaths over post ps) sh = semScatter I S ps sh) ∧
      (walkPaths over post ps).toList.length = ps.toList.length)
  all_goals try (intros; simp [walkOp]; done)
  case fork =>
    intro ps ih ins
    unfold walkOp
    split
    · simp only [semOp]; exact ih.1 _
    · rfl
  case scatter =>
    intro ps ih ins
    unfold walkOp
    split
    · simp only [semOp]; rw [ih.2.2, ih.2.1]
    · rfl
  case mirror =>
    intro m mi ihm ihmi ins
    unfold walkOp
    split
    · simp only [semOp]; rw [hpost, hpost, ihm, ihmi]
    · rfl
  case scope =>
    intro h b ih ins
    unfold walkOp
    split
    · simp only [semOp]; rw [hpost, ih]
    · rfl
  case over =>
    intro h hb b ih ins
    unfold walkOp
    split
    · simp only [semOp]
      have : (fun xs => S.comb (semSeq I S (post (walkKids over post b)) [xs])) =
          (fun xs => S.comb (semSeq I S b [xs])) := by
        funext xs; rw [hpost, ih]
      rw [this]
    · rfl
  case nil => intro ins; rfl
  case cons =>
    intro o r iho ihr ins
    simp only [walkKids, semSeq]
    rw [iho, ihr]
  case nil => exact ⟨fun _ => rfl, fun _ => rfl, rfl⟩
  case cons =>
    intro s r ihs ihr
    refine ⟨?_, ?_, ?_⟩
    · intro x; simp only [walkPaths, semPaths]; rw [hpost, ihs, ihr.1]
    · intro sh; simp only [walkPaths, semScatter]; rw [hpost, ihs, ihr.2.1]
    · simp only [walkPaths, Seqs.toList, List.length_cons]; rw [ihr.2.2]

theorem walkKids_sound (I : Interp V) (S : Sched V) (over : Bool) (post : Seq → Seq)
    (hpost : ∀ s ins, semSeq I S (post s) ins = semSeq I S s ins) :
    ∀ (s : Seq) (ins : List (List V)), semSeq I S (walkKids over post s) ins = semSeq I S s ins
  | .nil, _ => rfl
  | .cons o r, ins => by
    simp only [walkKids, semSeq]
    rw [walk_sound_all I S over post hpost o, walkKids_sound I S over post hpost r]

theorem walk_sound (I : Interp V) (S : Sched V) (over : Bool) (post : Seq → Seq)
    (hpost : ∀ s ins, semSeq I S (post s) ins = semSeq I S s ins) (s : Seq) (ins : List (List V)) :
    semSeq I S (walk over post s) ins = semSeq I S s ins := by
  unfold walk; rw [hpost, walkKids_sound I S over post hpost]

/-! ## pass removal -/

/-- operators whose meaning depends on how many parents they have (a `pass` in front of them
    makes one parent out of several). -/
def faninSensitive : Op → Bool
  | .merge .. | .join .. | .scope .. => true
  | _ => false

theorem semOp_after_comb (I : Interp V) (S : Sched V) (o : Op) (h : faninSensitive o = false)
    (ins : List (List V)) : semOp I S o [S.comb ins] = semOp I S o ins := by
  cases o <;> simp_all [faninSensitive, semOp, S.comb_single]

/-- every `pass` of the sequence is followed by an operator that reads the combine of its
    parents anyway. -/
def passOK : Seq → Bool
  | .nil => true
  | .cons .pass .nil => false
  | .cons .pass (.cons o r) => !(faninSensitive o) && passOK (.cons o r)
  | .cons _ r => passOK r

theorem semSeq_dropPass (I : Interp V) (S : Sched V) :
    ∀ (s : Seq), passOK s = true → ∀ ins, semSeq I S (dropPass s) ins = semSeq I S s ins
  | .nil, _, _ => rfl
  | .cons o r, h, ins => by
    cases o
    case pass =>
      cases r with
      | nil => simp [passOK] at h
      | cons o' r' =>
        simp only [passOK, Bool.and_eq_true, Bool.not_eq_true'] at h
        have ih := semSeq_dropPass I S (.cons o' r') h.2
        simp only [dropPass]
        rw [ih, semSeq_cons, semSeq_cons, semSeq_cons]
        have : semOp I S .pass ins = [S.comb ins] := by simp [semOp, leafSem]
        rw [this, semOp_after_comb I S o' h.1]
    all_goals
      simp only [passOK] at h
      have ih := semSeq_dropPass I S r h
      simp only [dropPass, semSeq]
      rw [ih]

end Zed.Opt
