import Zed.Model.ZngReader
/-!
  `pkg/peeker.Reader` with the way the underlying `io.Reader` chunks the input made explicit.

  State: the buffered, unconsumed bytes (`cursor`), the chunks the source will still hand out —
  one per `Read` call of `io.ReadAtLeast`, so ANY chunking is a list of non-empty chunks, whatever
  the buffer size (`ReaderOpts.Size`) and the source are — and the `eof` flag.  `ZngReader` reads the
  input as one list (`peekRead`, pattern matching on the next byte); `read_buffer_independent` says
  the two views give the parser the same answers.
-/
namespace Zed.Zng.Peeker
open Zed.Zng

structure PState where
  cursor : Bytes
  src : List Bytes
  eof : Bool := false

/-- what is still to be read -/
def PState.rest (s : PState) : Bytes := s.cursor ++ s.src.flatten

/-- `io.ReadAtLeast(r, buffer[clen:], need-clen)`: `Read` calls until the cursor holds `need`
    bytes or the source is exhausted (then `eof`). -/
def fillLoop (need : Nat) : Bytes → List Bytes → Bytes × List Bytes × Bool
  | cur, [] => (cur, [], decide (cur.length < need))
  | cur, c :: cs => if need ≤ cur.length then (cur, c :: cs, false) else fillLoop need (cur ++ c) cs

inductive Res where
  | ok (b : Bytes)
  | eof
  | err
  deriving DecidableEq, Repr

/-- `Reader.Read(n)` (= `Peek(n)` then advance). -/
def read (limit : Nat) (n : Int) (s : PState) : Res × PState :=
  if n < 0 then (.err, s)
  else if s.cursor.isEmpty ∧ s.eof then (.eof, s)
  else
    let s1 : Option PState :=
      if s.cursor.length < n.toNat ∧ s.eof = false then
        if n.toNat > limit then none            -- ErrBufferOverflow
        else
          let (cur, src, e) := fillLoop n.toNat s.cursor s.src
          some ⟨cur, src, e⟩
      else some s
    match s1 with
    | none => (.err, s)
    | some s1 =>
      if s1.cursor.isEmpty ∧ s1.eof then (.eof, s1)
      else if s1.cursor.length < n.toNat then (.err, s1)          -- ErrTruncated
      else (.ok (s1.cursor.take n.toNat), { s1 with cursor := s1.cursor.drop n.toNat })

/-- `Reader.ReadByte`. -/
def readByte (limit : Nat) (s : PState) : Res × PState :=
  match s.cursor with
  | b :: r => (.ok [b], { s with cursor := r })
  | [] => read limit 1 s

/-- the same two operations on the input as one list (what `ZngReader` does) -/
def readL (limit : Nat) (n : Int) (bs : Bytes) : Res × Bytes :=
  match peekRead limit n bs with
  | .ok b rest => (.ok b, rest)
  | .eof => (.eof, bs)
  | .err => (.err, bs)

def readByteL (bs : Bytes) : Res × Bytes :=
  match bs with
  | b :: r => (.ok [b], r)
  | [] => (.eof, [])

/-- A client of the peeker: asks for a byte or for `n` bytes, sees the answer, goes on; it stops at
    the first answer that is not `ok` (as `parser.read` does). -/
inductive Prog (α : Type) where
  | done (a : α)
  | readByte (k : Bytes → Prog α) (fail : Res → α)
  | read (n : Int) (k : Bytes → Prog α) (fail : Res → α)

def Prog.runP {α : Type} (limit : Nat) : Prog α → PState → α
  | .done a, _ => a
  | .readByte k fail, s =>
    match Peeker.readByte limit s with
    | (.ok b, s') => (k b).runP limit s'
    | (r, _) => fail r
  | .read n k fail, s =>
    match Peeker.read limit n s with
    | (.ok b, s') => (k b).runP limit s'
    | (r, _) => fail r

def Prog.runL {α : Type} (limit : Nat) : Prog α → Bytes → α
  | .done a, _ => a
  | .readByte k fail, bs =>
    match readByteL bs with
    | (.ok b, bs') => (k b).runL limit bs'
    | (r, _) => fail r
  | .read n k fail, bs =>
    match readL limit n bs with
    | (.ok b, bs') => (k b).runL limit bs'
    | (r, _) => fail r

/-- every `Read(n)` the client issues asks for at most `limit` bytes (readmax ≥ largest frame) -/
def Prog.Bounded {α : Type} (limit : Nat) : Prog α → Prop
  | .done _ => True
  | .readByte k _ => ∀ b, (k b).Bounded limit
  | .read n k _ => n ≤ (limit : Int) ∧ ∀ b, (k b).Bounded limit

end Zed.Zng.Peeker
