/-
  C09 — the vector runtime agrees with the sequential runtime and never crashes the query;
  adding / removing vector copies never changes a result.
  Property theorems only.  Models: Zed/Model/VecOps.lean (+ the column model of C03) for the
  aggregate operators, Zed/Model/VecExpr.lean for the expression evaluators and the streaming
  operators; lemmas: Zed/Proofs/VecOps.lean, Zed/Proofs/VecExpr.lean; tables: Zed.Generated.C09 / C03, regenerated from /repo
  (runtime/vam/op/agg.go, compiler/optimizer/vam.go, compiler/kernel/vop.go, vexpr.go,
  runtime/vcache/*.go, vector/*.go) on every check.

  The full statements
      countby_agree : ∀ objs, (cbRun objs).map cbRows ≈ seqCountBy (values objs)
      sum_agree     : ∀ objs, sumRun objs = seqSum (values objs)
      vam_total     : every vector kind the loader can hand to an operator is handled
      vexpr_agree   : ∀ batch e, the vector evaluator's slots = the sequential values
      vop_agree     : ∀ batch ops, runV ops = runS ops
  are FALSE of the current code.  Below: their negations on concrete witnesses (each replayed
  on the real code by the harness and recorded as a known finding), and the `_partial`
  theorems under explicit guards.
-/
import Zed.Proofs.VecOps
import Zed.Proofs.VecExpr
import Zed.Proofs.VecCacheLock
namespace Zed.Props.C09
open Zed.Vec Zed.Vng Zed.Generated.C09

/-! ## T1 obligations -/

/-- the operator / planner functions the model mirrors have the source it was written against. -/
theorem modelled_sources_unchanged : pinnedSources =
  [("runtime/vam/op/agg.go:CountByString.Pull", "4cd1343883f9"),
   ("runtime/vam/op/agg.go:CountByString.update", "f717d48d5a1f"),
   ("runtime/vam/op/agg.go:countByString.count", "34194e831fd8"),
   ("runtime/vam/op/agg.go:countByString.countDict", "4f1644685571"),
   ("runtime/vam/op/agg.go:countByString.countFixed", "acc75b5edfc0"),
   ("runtime/vam/op/agg.go:countByString.materialize", "0329ab8282ca"),
   ("runtime/vam/op/agg.go:Sum.Pull", "4f1ab8626bf9"),
   ("runtime/vam/op/agg.go:Sum.update", "361761f6e279"),
   ("runtime/vam/op/agg.go:Sum.materialize", "39bd1945a706"),
   ("runtime/vam/expr/dot.go:DotExpr.eval", "fd7536bd3cdb"),
   ("compiler/optimizer/vam.go:Optimizer.Vectorize", "9a237303785c"),
   ("compiler/optimizer/vam.go:Optimizer.isScanWithVectors", "887531a19d64"),
   ("compiler/optimizer/vam.go:vectorize", "c9b2ff654b5d"),
   ("compiler/optimizer/vam.go:IsCountByString", "bc90a2a5db9b"),
   ("compiler/optimizer/vam.go:IsSum", "d71aac3a3e95"),
   ("compiler/optimizer/vam.go:isCount", "2962e518fca9"),
   ("compiler/optimizer/vam.go:isSum", "b1b508abd319"),
   ("compiler/optimizer/vam.go:isSingleField", "eb2b55e7bb6e"),
   ("compiler/job.go:Job.Parallelize", "cebc14195165"),
   ("runtime/vam/op/scan.go:Scanner.run", "9ec29dd02c94"),
   ("runtime/vcache/loader.go:loader.loadDict", "ffafd58ea306"),
   ("runtime/vcache/loader.go:loader.loadPrimitive", "5300522c4557"),
   ("runtime/vam/expr/arith.go:Arith.eval", "c7e8c90723d6"),
   ("runtime/vam/expr/compare.go:Compare.eval", "ed1fe4caeb04"),
   ("runtime/vam/expr/logic.go:Not.Eval", "870c255499ea"),
   ("runtime/vam/expr/logic.go:And.Eval", "6ddbd6a889a5"),
   ("runtime/vam/expr/logic.go:Or.Eval", "e0fff13b78cc"),
   ("runtime/vam/expr/logic.go:EvalBool", "ad8d684d9a8c"),
   ("runtime/vam/expr/coerce.go:coerceVals", "a93a6050251c"),
   ("runtime/vam/expr/literal.go:Literal.Eval", "55c91f408b68"),
   ("runtime/vam/expr/genarithfuncs.go:genFunc", "e8dea43fd443"),
   ("runtime/vam/expr/genarithfuncs.go:genLoop", "116f8492a68b"),
   ("runtime/vam/expr/genarithfuncs.go:genExpr", "02ad52266d9e"),
   ("runtime/vam/expr/gencomparefuncs.go:genFunc", "f6b138ec591e"),
   ("runtime/vam/expr/gencomparefuncs.go:genExpr", "02ad52266d9e"),
   ("runtime/vam/op/filter.go:Filter.Pull", "9fbb4b22146d"),
   ("runtime/vam/op/filter.go:applyMask", "457248fdfe1d"),
   ("runtime/vam/op/head.go:Head.Pull", "2a807483785e"),
   ("runtime/vam/op/tail.go:Tail.tail", "f5611f98bfd2"),
   ("runtime/vam/op/yield.go:Yield.Pull", "69883acb0d1d"),
   ("vector/kind.go:FormOf", "f218a58f7597"),
   ("vector/kind.go:KindOf", "c5f37c2071b8"),
   ("vector/bool.go:BoolValue", "f6d61cd485a7"),
   ("vector/view.go:View.Serialize", "394725c7ab0e"),
   ("runtime/sam/expr/eval.go:Compare.Eval", "1d49fb67207b"),
   ("runtime/sam/expr/eval.go:Add.Eval", "0d41cc1d90a7"),
   ("runtime/sam/expr/eval.go:And.Eval", "2b6a403f0c4a"),
   ("runtime/sam/expr/eval.go:Or.Eval", "7bc825111a2f"),
   ("runtime/sam/expr/eval.go:Not.Eval", "a24182ca581a"),
   ("runtime/sam/expr/coerce/coerce.go:Equal", "ab56a96fb8cd"),
   ("runtime/sam/expr/eval.go:Equal.Eval", "7ed2fff5f23a"),
   ("runtime/sam/expr/boolean.go:Comparison", "a023a3f014db"),
   ("runtime/sam/expr/boolean.go:comparison", "3eb80f3cfdc5"),
   ("runtime/sam/expr/boolean.go:CompareBool", "3a2960257ae4"),
   ("runtime/sam/expr/boolean.go:CompareInt64", "24a39fffbdc7"),
   ("runtime/sam/expr/boolean.go:CompareString", "51445f184563"),
   ("runtime/sam/expr/filter.go:filter.Eval", "dc43ce98549e"),
   ("compiler/kernel/expr.go:Builder.compileConstCompare", "2e6bdb119022"),
   ("compiler/kernel/op.go:Builder.evalAtCompileTime", "f7c8b332f901"),
   ("runtime/vcache/cache.go:Cache.lock", "9c3bc0df1886"),
   ("runtime/vcache/cache.go:Cache.unlock", "af4d98381415"),
   ("runtime/vcache/cache.go:Cache.Fetch", "25742982a2bb")] := rfl

/-- `Optimizer.Vectorize`: sequences shorter than two operators are left alone; the scan must
    have vectors for every object; only `count() by <field>` and `sum(<field>)` directly after
    the scan are vectorized (`vectorized` in the model). -/
theorem planner_as_modelled : vectorizeSkipWhenLen = "< 2" ∧ vectorizeTests =
  ["isScanWithVectors(seq[0])", "IsCountByString(seq[1]) -> return vectorize(seq, 2), nil", "IsSum(seq[1]) -> return vectorize(seq, 2), nil"] := ⟨rfl, rfl⟩

/-! ## vam_total: kinds handled vs kinds produced -/

/-- A vector kind is handled by `CountByString.update` when it has a case, or is a `Dynamic`
    (the operator recurses into its values first). -/
def cbHandled (k : String) : Bool :=
  countByKinds.contains k || (k == "Dynamic" && countByKindsRecursesIntoDynamic)

/-- **vam_total for count() by — FALSE**: the loader / projection / field access can produce
    kinds `CountByString.update` has no case for, and its default panics. -/
theorem not_countby_total :
    ¬ (∀ k ∈ Zed.Generated.C09.loaderVectorKinds, cbHandled k = true) ∧ countByKindsDefault = "panic" := by
  refine ⟨?_, rfl⟩
  intro h
  exact absurd (h "Int" (by decide)) (by decide)

/-- … what is handled. -/
theorem countby_total_partial (k : String) (hk : k ∈ ["String", "Dict", "Const", "Dynamic"]) :
    cbHandled k = true := by
  revert k; decide

/-- The `Dict` case asserts that the dictionary values are strings without checking, while
    the loader builds dictionaries over other kinds too: a second panic site. -/
theorem not_countby_dict_total :
    countByDictAssertion = "unchecked-String" ∧
    ∃ t ∈ Zed.Generated.C03.loadDictCases, t ≠ "TypeOfString" := by
  refine ⟨rfl, "TypeOfInt64", by decide, by decide⟩

/-- **vam_total for sum**: `Sum.update` has no panicking default (unknown kinds are ignored —
    which is what makes `sum_agree` false) and recurses into `Dynamic`. -/
theorem sum_total : sumKindsDefault = "ignore" ∧ sumKindsRecursesIntoDynamic = true := ⟨rfl, rfl⟩

/-- every vector kind that exists is either produced by the loader or is `View` (built only
    by operators): the kind list the statements above range over is complete. -/
theorem loader_kinds_complete (k : String) (hk : k ∈ vectorKindsWithSerialize) :
    k ∈ Zed.Generated.C09.loaderVectorKinds ∨ k = "View" := by
  revert k; decide

/-! ## count() by -/

/-- **countby_agree_partial.**  Guard: one object, one top-level type, the field is a string
    column without nulls (any contents: plain, dictionary or const encoded).  Then the vector
    operator does not fail and its rows agree, as a multiset, with the sequential
    `count() by f`. -/
theorem countby_agree_partial (xs : List Bytes) :
    ∃ s, cbRun [[strCol xs]] = .ok s ∧ RowsAgree (cbRows s) (seqCountBy (strCol xs).values) := by
  obtain ⟨s, hrun, hn, hc⟩ := cbRun_strCol xs
  refine ⟨s, hrun, ?_⟩
  have hrows : cbRows s = s.table.map fun e => ((strTy, Val.prim e.1), e.2) := by
    simp [cbRows, hn]
  rw [hrows]
  exact RowsAgree.of_counts
    (Counts.map_inj (fun x : Bytes => (strTy, Val.prim x)) (by intro a b h; simpa using h) hc)
    (seqCountBy_strCol xs)

-- non-vacuity: the three encodings
example : cbRun [[strCol [[97], [98], [97]]]] = .ok { table := [([97], 2), ([98], 1)], nulls := 0 } := by decide
example : cbRun [[strCol [[97], [97]]]] = .ok { table := [([97], 2)], nulls := 0 } := by decide
example : fieldVec (strCol [[97], [98], [97]]) = .dict "String" [([97], 2), ([98], 1)] 3 := by decide
example : fieldVec (strCol [[97], [97]]) = .const 25 [97] 2 := by decide

private def disagree (objs : List (List FCol)) : Prop :=
  ∀ s, cbRun objs = .ok s → ¬ RowsAgree (cbRows s) (seqCountBy (objs.flatten.flatMap FCol.values))

/-- **not_countby_agree (dictionary counts across objects)**: `countDict` assigns instead of
    adding.  Two objects `a b a` / `a c`, both dictionary encoded: the vector operator reports
    a:1 where the data has a:3. -/
theorem not_countby_agree_dict_across_objects :
    cbRun [[strCol [[97], [98], [97]]], [strCol [[97], [99]]]] =
      .ok { table := [([97], 1), ([98], 1), ([99], 1)], nulls := 0 } ∧
    cnt (seqCountBy ([strCol [[97], [98], [97]], strCol [[97], [99]]].flatMap FCol.values))
      (strTy, .prim [97]) = 3 := by decide

/-- **not_countby_agree (non-string vectors panic)**: an int64 column with two distinct values
    is dictionary encoded and hits the unchecked assertion; a uint8 column (never dictionary
    encoded) hits the switch default; a record without the field yields `error("missing")`,
    which also hits the default. -/
theorem not_countby_total_witnesses :
    cbRun [[.col (.prim 9) [.prim [2], .prim [4]]]] =
      .error "interface conversion: vector.Any is *vector.Int, not *vector.String" ∧
    cbRun [[.col (.prim 0) [.prim [1], .prim [2]]]] = .error "UNKNOWN Uint" ∧
    cbRun [[.missing 1]] = .error "UNKNOWN Error" := by decide

/-- **not_countby_agree (silently wrong)**: a const-encoded non-string column is dropped; null
    slots of a const string column are counted as the value; null slots of a flat string
    column are counted as ""; a column of type null is reported with key type string. -/
theorem not_countby_agree_witnesses :
    cbRun [[.col (.prim 9) [.prim [2]]]] = .ok {} ∧
    cbRun [[.col strTy [.prim [97], .null]]] = .ok { table := [([97], 2)], nulls := 0 } ∧
    cbRun [[.col strTy [.null]]] = .ok { table := [([], 1)], nulls := 0 } ∧
    (cbRun [[.col (.prim 29) [.null]]]).map cbRows = .ok [((strTy, .null), 1)] ∧
    seqCountBy (FCol.col (.prim 29) [.null]).values = [((.prim 29, .null), 1)] := by decide

/-! ## sum -/

/-- **sum_agree_partial.**  Guard: one object, one top-level type, the field is an integer
    column (signed or unsigned kind) without nulls that is not const-encoded.  Then the vector
    operator returns the exact sum of the values (the sequential runtime's int64 / uint64 sum
    up to the result type, see `not_sum_agree_witnesses`). -/
theorem sum_agree_partial (val : Bytes → Int) (id : Nat) (xs : List Bytes)
    (hk : kindOfPrim id = "Int" ∨ kindOfPrim id = "Uint")
    (hc : (primEncode id true xs).isConst = false) :
    sumRun val [[.col (.prim id) (xs.map Val.prim)]] = .ok (xs.map val).sum :=
  sumRun_intCol val id xs hk hc

-- non-vacuity of the guard: int64 with two distinct values (dictionary), uint8 (plain)
example : (kindOfPrim 9 = "Int" ∨ kindOfPrim 9 = "Uint") ∧ (primEncode 9 true [[2], [4], [2]]).isConst = false := by decide
example : (kindOfPrim 0 = "Int" ∨ kindOfPrim 0 = "Uint") ∧ (primEncode 0 true [[1], [1]]).isConst = false := by decide

/-- **not_sum_agree**: a const-encoded integer column (all values equal) is ignored: the sum of
    `5 5` is reported as 0; float columns are ignored; so is everything else. -/
theorem not_sum_agree_witnesses (val : Bytes → Int) :
    sumRun val [[.col (.prim 9) [.prim [10], .prim [10]]]] = .ok 0 ∧
    sumRun val [[.col (.prim 16) [.prim [1], .prim [2]]]] = .ok 0 ∧
    sumRun val [[.missing 3]] = .ok 0 := by
  refine ⟨by rfl, by rfl, by rfl⟩

/-! ## adding / removing vector copies -/

/-- the result of `from pool | count() by f` given which objects have vector copies (one
    scan leg). -/
def lakeCountBy (hasVector : List Bool) (objs : List (List FCol)) : Except String (List Row) :=
  if vectorized .countBy hasVector then (cbRun objs).map cbRows
  else .ok (seqCountBy (objs.flatten.flatMap FCol.values))

/-- **vectorize_transparent_partial.**  Under the guard of `countby_agree_partial`, whichever
    objects have vector copies, the query succeeds with the same multiset of rows. -/
theorem vectorize_transparent_partial (xs : List Bytes) (f f' : List Bool) :
    ∃ r r', lakeCountBy f [[strCol xs]] = .ok r ∧ lakeCountBy f' [[strCol xs]] = .ok r' ∧
      RowsAgree r r' := by
  obtain ⟨s, hrun, hag⟩ := countby_agree_partial xs
  have hseq : [[strCol xs]].flatten.flatMap FCol.values = (strCol xs).values := by simp
  have hsym : RowsAgree (seqCountBy (strCol xs).values) (cbRows s) :=
    ⟨hag.2.1, hag.1, fun k => (hag.2.2 k).symm⟩
  have hrefl : ∀ r, rowsOK r → RowsAgree r r := fun r h => ⟨h, h, fun _ => rfl⟩
  unfold lakeCountBy
  by_cases h1 : vectorized .countBy f = true <;> by_cases h2 : vectorized .countBy f' = true <;>
    simp only [h1, h2, if_true, if_false, hrun, hseq, Except.map, Bool.false_eq_true]
  · exact ⟨_, _, rfl, rfl, hrefl _ hag.1⟩
  · exact ⟨_, _, rfl, rfl, hag⟩
  · exact ⟨_, _, rfl, rfl, hsym⟩
  · exact ⟨_, _, rfl, rfl, hrefl _ hag.2.1⟩

/-- **not_vectorize_transparent**: with an int64 key column the same pool answers
    `count() by f` without vectors and crashes with them. -/
theorem not_vectorize_transparent :
    (lakeCountBy [false] [[.col (.prim 9) [.prim [2], .prim [4]]]]).toBool = true ∧
    (lakeCountBy [true] [[.col (.prim 9) [.prim [2], .prim [4]]]]).toBool = false := by decide

/-! ## the expression evaluators and the streaming operators (Zed/Model/VecExpr.lean) -/

section VExprSection
open Zed.VExpr

/-- T1: the kinds the generated arithmetic / comparison function tables cover, the kinds
    `vector.FormOf` knows (no Bool: comparing two Boolean vectors is "incompatible types"), and
    the operators `compiler/kernel/vexpr.go` compiles — as the model assumes. -/
theorem expr_dispatch_as_modelled :
    arithFuncKinds = ["Int", "Uint", "Float", "String"] ∧
    compareFuncKinds = ["Int", "Uint", "Float", "String", "Bytes"] ∧
    formFlatKinds = ["Int", "Uint", "Float", "Bytes", "String", "TypeValue"] ∧
    "Bool" ∉ formFlatKinds ∧
    vamBinaryOps = ["and", "or", "==", "!=", "<", "<=", ">", ">=", "+", "-", "*", "/", "%"] ∧
    vamUnaryOps = ["!"] := by
  refine ⟨rfl, rfl, rfl, by decide, rfl, rfl⟩

/-- **vexpr_agree_partial.**  For every batch whose columns have the batch length, every
    expression of the modelled subset (field access, int / string literals, + - * / %, the six
    comparisons, and / or / !) that reads only null-free columns: if the vector evaluator
    returns a value vector (it did not panic and did not produce an error vector), that vector
    has one slot per row, an all-clear null bitmap, and serialises at every slot to exactly the
    value the sequential evaluator computes for that row — whatever form (flat, dictionary,
    const) the column statistics gave the operand vectors. -/
theorem vexpr_agree_partial (b : Batch) (hwf : b.WF) (e : Expr) (v : XV)
    (hnf : NullFree b e = true) (h : evalX b e = .ok v) (hv : v.isVal = true) :
    v.len = b.n ∧ (∀ k, v.nulls.getD k false = false) ∧ ∀ k, k < b.n → v.at k = evalS b k e :=
  let g := evalX_good b hwf e v hnf h hv
  ⟨g.len, g.clear, g.atk⟩

/-- `yield <expr>` straight after the scan emits what the sequential `yield` emits. -/
theorem vyield_agree_partial (b : Batch) (hwf : b.WF) (e : Expr) (v : XV) (rest : List Op)
    (hnf : NullFree b e = true) (h : evalX b e = .ok v) (hv : v.isVal = true) :
    runV (.yieldE e :: rest) { batch := b } = .ok (runS b (.yieldE e :: rest) (List.range b.n)) :=
  vyield_agree b hwf e v rest hnf h hv

/-- `where <expr>` straight after the scan, followed by any number of `head` / `tail`, emits the
    rows the sequential pipeline emits, in the same order (all three branches of `Filter.Pull`:
    nothing kept, everything kept, a `vector.View` of the kept slots). -/
theorem vfilter_agree_partial (b : Batch) (hwf : b.WF) (e : Expr) (v : XV) (rest : List Op)
    (hnf : NullFree b e = true) (h : evalX b e = .ok v) (hv : v.isVal = true)
    (hrest : rest.all Op.plain = true) :
    runV (.filter e :: rest) { batch := b } = .ok (runS b (.filter e :: rest) (List.range b.n)) :=
  vfilter_agree b hwf e v rest hnf h hv hrest

/-- any sequence of `head` / `tail`, from any state (a view or not), emits the sequential rows:
    these operators never fail and never look at values or null bitmaps. -/
theorem vheadtail_agree (rest : List Op) (s : VState) (h : rest.all Op.plain = true) :
    runV rest s = .ok (runS s.batch rest s.slots) := runV_plain rest s h

/-! ### the unguarded statements are false: witnesses (each replayed by the harness and recorded
    as a known finding `C09:vexpr:*` / `C09:vop:field-access-on-view`) -/

private def cA : VExpr.Bytes := [97]
private def cP : VExpr.Bytes := [112]
private def cQ : VExpr.Bytes := [113]

/-- {a:5} {a:7} {a:null} {a:5}: a dictionary vector; selector 0 at the null slot. -/
def xDictNull : Batch := { n := 4, cols := [(cA, .int [some 5, some 7, none, some 5])] }
/-- {a:5} {a:null}: a Const vector. -/
def xConstNull : Batch := { n := 2, cols := [(cA, .int [some 5, none])] }
def xOne : Batch := { n := 1, cols := [(cA, .int [some 5])] }
def xBools : Batch := { n := 2, cols := [(cP, .bool [none, some true]), (cQ, .bool [some true, some true])] }
def xZero : Batch := { n := 2, cols := [(cA, .int [some 0, some 1])] }

theorem xWitnesses_wf : xDictNull.WF ∧ xConstNull.WF ∧ xOne.WF ∧ xBools.WF ∧ xZero.WF := by
  refine ⟨?_, ?_, ?_, ?_, ?_⟩ <;> (intro p hp; simp [xDictNull, xConstNull, xOne, xBools, xZero] at hp) <;>
    (first | (rcases hp with rfl | rfl <;> rfl) | (subst hp; rfl))

/-- arithmetic ignores the null bitmap: `a+1` at the null slot is 6 (dictionary: the entry of
    selector 0; const: the constant) with a clear null bit, sequentially null+1 = 1. -/
theorem not_vexpr_agree_arith_null :
    (evalX xDictNull (.arith .add (.field cA) (.litInt 1))).toOption.map (fun v => (List.range 4).map v.at)
        = some [.int 6, .int 8, .int 6, .int 6] ∧
    (List.range 4).map (fun k => evalS xDictNull k (.arith .add (.field cA) (.litInt 1)))
        = [.int 6, .int 8, .int 1, .int 6] ∧
    (evalX xConstNull (.arith .add (.field cA) (.litInt 1))).toOption.map (fun v => (List.range 2).map v.at)
        = some [.int 6, .int 6] ∧
    (List.range 2).map (fun k => evalS xConstNull k (.arith .add (.field cA) (.litInt 1)))
        = [.int 6, .int 1] := by decide

/-- comparisons ignore the null bitmap: `a==5` is true at the null slot, sequentially false. -/
theorem not_vexpr_agree_compare_null :
    (evalX xDictNull (.cmp .eq (.field cA) (.litInt 5))).toOption.map (fun v => (List.range 4).map v.at)
        = some [.bool true, .bool false, .bool true, .bool true] ∧
    (List.range 4).map (fun k => evalS xDictNull k (.cmp .eq (.field cA) (.litInt 5)))
        = [.bool true, .bool false, .bool false, .bool true] := by decide

/-- hence the guard of `vexpr_agree_partial` cannot be dropped. -/
theorem not_vexpr_agree :
    ¬ ∀ (b : Batch) (e : Expr) (v : XV), b.WF → evalX b e = .ok v → v.isVal = true →
        ∀ k, k < b.n → v.at k = evalS b k e := by
  intro h
  have := h xDictNull (.cmp .eq (.field cA) (.litInt 5)) _ xWitnesses_wf.1 rfl rfl 2 (by decide)
  revert this
  decide

/-- the logical operators reject a Const operand: `!(a==5)` over the single record {a:5} is
    error("not type bool"), sequentially false. -/
theorem not_vexpr_logic_const :
    (evalX xOne (.not (.cmp .eq (.field cA) (.litInt 5)))).toOption.map (fun v => v.at 0)
        = some (.err "not type bool") ∧
    evalS xOne 0 (.not (.cmp .eq (.field cA) (.litInt 5))) = .bool false := by decide

/-- the logical operators copy the left null bitmap: `p or q` with p null, q true is null,
    sequentially true. -/
theorem not_vexpr_logic_null :
    (evalX xBools (.or (.field cP) (.field cQ))).toOption.map (fun v => (List.range 2).map v.at)
        = some [.null .bool, .bool true] ∧
    (List.range 2).map (fun k => evalS xBools k (.or (.field cP) (.field cQ)))
        = [.bool true, .bool true] := by decide

/-- two Boolean vectors cannot be compared: `q==q` is error("incompatible types"),
    sequentially true. -/
theorem not_vexpr_compare_bool :
    (evalX xBools (.cmp .eq (.field cQ) (.field cQ))).toOption.map (fun v => (List.range 2).map v.at)
        = some [.err "incompatible types", .err "incompatible types"] ∧
    (List.range 2).map (fun k => evalS xBools k (.cmp .eq (.field cQ) (.field cQ)))
        = [.bool true, .bool true] := by decide

/-- a zero divisor at any slot panics the vector evaluator (the whole query), where the
    sequential evaluator yields error("divide by zero") for that row only. -/
theorem not_vexpr_total :
    evalX xZero (.arith .div (.litInt 1) (.field cA)) = .error "runtime error: integer divide by zero" ∧
    (List.range 2).map (fun k => evalS xZero k (.arith .div (.litInt 1) (.field cA)))
        = [.err "divide by zero", .int 1] := ⟨rfl, by decide⟩

/-- after `head` / `where` kept part of a batch, field accesses see nothing: `head 1 | yield a`
    emits error("missing"), and a second `where a==1` keeps nothing. -/
theorem not_vop_agree_on_view :
    runV [.head 1, .yieldE (.field cA)] { batch := xZero } = .ok [.val (.err "missing")] ∧
    runS xZero [.head 1, .yieldE (.field cA)] (List.range 2) = [.val (.int 0)] ∧
    runV [.filter (.cmp .eq (.field cA) (.litInt 1)), .filter (.cmp .eq (.field cA) (.litInt 1))] { batch := xZero } = .ok [] ∧
    runS xZero [.filter (.cmp .eq (.field cA) (.litInt 1)), .filter (.cmp .eq (.field cA) (.litInt 1))] (List.range 2) = [.row 1] :=
  ⟨rfl, by decide, rfl, by decide⟩

end VExprSection

/-! ## the lock protocol of the vector cache (Zed/Model/VecCacheLock.lean) -/

section CacheLockSection
open Zed.VecCacheLock

/-- T1: the order of the lock operations in `Cache.lock`, `Cache.unlock` and `Cache.Fetch` is the
    one the model's programs (`lockReleased`, `unlockOps`, `fetchOps`) spell out: since /repo
    f9684f0a8 `lock` releases `c.mu` BEFORE it blocks on the object mutex. -/
theorem cache_lock_order_as_modelled :
    cacheLockLockOps = ["c.mu.Lock", "c.mu.Unlock", "mu.Lock"] ∧
    cacheUnlockLockOps = ["c.mu.Lock", "c.locks[id].Unlock", "c.mu.Unlock"] ∧
    cacheFetchLockOps = ["c.mu.Lock", "c.mu.Unlock", "c.lock", "defer c.unlock", "c.mu.Lock",
      "c.mu.Unlock", "NewObject", "c.mu.Lock", "c.mu.Unlock"] := ⟨rfl, rfl, rfl⟩

/-- the finite reachability check behind the next theorem. -/
theorem vcache_reach_closed :
    (let ss := reach (fetchOps lockReleased) 64 [init] [init]
     ss.contains init && closed (fetchOps lockReleased) ss
       && !ss.any (deadlocked (fetchOps lockReleased))) = true := by decide +kernel

/-- **vcache_fetch_deadlock_free.**  With the current order of lock operations no schedule of
    two goroutines that run the slow path of `Cache.Fetch` for the same object reaches a state
    in which nobody can move while somebody has work left. -/
theorem vcache_fetch_deadlock_free (sched : List Bool) (s : St)
    (h : run (fetchOps lockReleased) sched init = some s) :
    deadlocked (fetchOps lockReleased) s = false := by
  have hk := vcache_reach_closed
  simp only [Bool.and_eq_true, Bool.not_eq_true'] at hk
  obtain ⟨⟨hinit, hclosed⟩, hnone⟩ := hk
  have hmem := run_mem _ _ hclosed sched init s hinit h
  have hmem' : s ∈ reach (fetchOps lockReleased) 64 [init] [init] := by simpa using hmem
  cases hd : deadlocked (fetchOps lockReleased) s with
  | false => rfl
  | true =>
    have : (reach (fetchOps lockReleased) 64 [init] [init]).any (deadlocked (fetchOps lockReleased)) = true :=
      List.any_eq_true.mpr ⟨s, hmem', hd⟩
    rw [this] at hnone
    cases hnone

/-- non-vacuity: complete runs of both goroutines exist. -/
example : ∃ sched, (run (fetchOps lockReleased) sched init).map (finished (fetchOps lockReleased)) = some true :=
  ⟨List.replicate 12 false ++ List.replicate 12 true, by decide +kernel⟩

/-- the order of operations matters: with the order `Cache.lock` had before /repo f9684f0a8
    (`lockHeld`: the deferred `c.mu.Unlock()` ran after `mu.Lock()`) goroutine 0 takes the object
    mutex and releases `c.mu`; goroutine 1 enters `lock`, takes `c.mu` and blocks on the object
    mutex; goroutine 0 then blocks on `c.mu` for its second probe.  Nobody can move, and `c.mu`
    stays held (finding `C09:lake:vcache-fetch-deadlock`, fixed; it was observed on the real
    code as lake queries ending in "context deadline exceeded" with exactly these stacks). -/
theorem not_vcache_fetch_deadlock_free_old_order :
    ∃ sched : List Bool, (run (fetchOps lockHeld) sched init).map (deadlocked (fetchOps lockHeld)) = some true :=
  ⟨[false, false, false, false, false, true, true, true], by decide +kernel⟩

end CacheLockSection

end Zed.Props.C09
