package main

// Fact set C05: the constant tables the type-value codec, the type order and the type
// context are built on (type.go, primitive.go, context.go).

import (
	"fmt"
	"go/ast"
	"go/token"
	"strings"
)

func init() { register("C05", genC05) }

// typeVarToStruct reads `var ( TypeBool = &TypeOfBool{} ... )`.
func typeVarToStruct(f *file) map[string]string {
	out := map[string]string{}
	for _, d := range f.f.Decls {
		gd, ok := d.(*ast.GenDecl)
		if !ok || gd.Tok != token.VAR {
			continue
		}
		for _, s := range gd.Specs {
			vs := s.(*ast.ValueSpec)
			if len(vs.Names) != 1 || len(vs.Values) != 1 {
				continue
			}
			u, ok := vs.Values[0].(*ast.UnaryExpr)
			if !ok || u.Op != token.AND {
				continue
			}
			cl, ok := u.X.(*ast.CompositeLit)
			if !ok || len(cl.Elts) != 0 {
				continue
			}
			if id, ok := identName(cl.Type); ok {
				out[vs.Names[0].Name] = id
			}
		}
	}
	return out
}

// idMethods reads `func (t *TypeOfX) ID() int { return IDX }` into TypeOfX -> IDX.
func idMethods(f *file, into map[string]string) {
	for _, d := range f.f.Decls {
		fd, ok := d.(*ast.FuncDecl)
		if !ok || fd.Name.Name != "ID" || fd.Recv == nil || len(fd.Recv.List) != 1 {
			continue
		}
		t := fd.Recv.List[0].Type
		if s, ok := t.(*ast.StarExpr); ok {
			t = s.X
		}
		recv, ok := identName(t)
		if !ok || !strings.HasPrefix(recv, "TypeOf") {
			continue
		}
		if ret, ok := singleReturn(fd.Body.List); ok {
			if c, ok := identName(ret); ok {
				into[recv] = c
			}
		}
	}
}

func genC05(repo string) (string, error) {
	tf, err := parseFile(repo, "type.go")
	if err != nil {
		return "", err
	}
	pf, err := parseFile(repo, "primitive.go")
	if err != nil {
		return "", err
	}
	cf, err := parseFile(repo, "context.go")
	if err != nil {
		return "", err
	}
	var ct constTable
	readConsts(tf, &ct)
	readConsts(cf, &ct)
	var b strings.Builder

	// primitive ids
	ids := ct.withPrefix("ID")
	if len(ids) == 0 {
		return "", fmt.Errorf("type.go: no ID* constants")
	}
	var idPairs []string
	for _, n := range ids {
		idPairs = append(idPairs, fmt.Sprintf("(%s, %d)", leanStr(n), ct.vals[n]))
	}
	fmt.Fprintf(&b, "def ids : List (String × Nat) :=\n  [%s]\n", strings.Join(idPairs, ", "))
	complexID, err := ct.get("IDTypeComplex")
	if err != nil {
		return "", err
	}
	fmt.Fprintf(&b, "def idTypeComplex : Nat := %d\n", complexID)

	// type value codes
	var tvPairs []string
	for _, n := range ct.withPrefix("TypeValue") {
		tvPairs = append(tvPairs, fmt.Sprintf("(%s, %d)", leanStr(n), ct.vals[n]))
	}
	fmt.Fprintf(&b, "def typeValueCodes : List (String × Nat) :=\n  [%s]\n", strings.Join(tvPairs, ", "))
	for _, n := range []string{"Record", "Array", "Set", "Map", "Union", "Enum", "Error", "NameDef", "NameRef"} {
		v, err := ct.get("TypeValue" + n)
		if err != nil {
			return "", err
		}
		fmt.Fprintf(&b, "def tv%s : Nat := %d\n", n, v)
	}

	// Kind iota order
	kinds := []string{}
	for _, n := range ct.order {
		if strings.HasSuffix(n, "Kind") {
			kinds = append(kinds, n)
		}
	}
	for i, k := range kinds {
		if ct.vals[k] != int64(i) {
			return "", fmt.Errorf("type.go: Kind constants are not a dense iota block (%s = %d)", k, ct.vals[k])
		}
	}
	fmt.Fprintf(&b, "def kinds : List String := %s\n", leanStrList(kinds))

	// LookupPrimitiveByID
	varStruct := typeVarToStruct(tf)
	idOf := map[string]string{}
	idMethods(pf, idOf)
	idMethods(tf, idOf)
	typeVarID := func(v string) (int64, error) {
		st, ok := varStruct[v]
		if !ok {
			return 0, fmt.Errorf("type.go: variable %s is not `&TypeOfX{}`", v)
		}
		c, ok := idOf[st]
		if !ok {
			return 0, fmt.Errorf("no `func (t *%s) ID() int { return IDX }`", st)
		}
		return ct.get(c)
	}
	fd, err := tf.funcDecl("", "LookupPrimitiveByID")
	if err != nil {
		return "", err
	}
	// guards before the switch: `if id < 0 {...}` and `if id >= IDTypeComplex {...}`
	var guards []string
	for _, s := range fd.Body.List {
		if is, ok := s.(*ast.IfStmt); ok {
			bs, err := boundsOf(tf, is.Cond, "id", &ct)
			if err != nil {
				return "", fmt.Errorf("LookupPrimitiveByID guard: %v", err)
			}
			if len(is.Body.List) != 1 {
				return "", fmt.Errorf("%s: LookupPrimitiveByID guard body not recognised", tf.pos(is))
			}
			if r, ok := is.Body.List[0].(*ast.ReturnStmt); !ok || len(r.Results) != 2 {
				return "", fmt.Errorf("%s: LookupPrimitiveByID guard body not a 2-value return", tf.pos(is))
			} else if id, ok := identName(r.Results[0]); !ok || id != "nil" {
				return "", fmt.Errorf("%s: LookupPrimitiveByID guard does not return nil", tf.pos(is))
			}
			guards = append(guards, leanBounds(bs))
		}
	}
	fmt.Fprintf(&b, "def primitiveByIDRejects : List (List (String × Int)) := [%s]\n", strings.Join(guards, ", "))
	sw := firstSwitch(fd.Body, "id")
	if sw == nil {
		return "", fmt.Errorf("%s: LookupPrimitiveByID: no `switch id`", tf.pos(fd))
	}
	var byID []string
	for _, s := range sw.Body.List {
		cc := s.(*ast.CaseClause)
		if cc.List == nil {
			return "", fmt.Errorf("%s: LookupPrimitiveByID: default clause not recognised", tf.pos(cc))
		}
		if len(cc.Body) != 1 {
			return "", fmt.Errorf("%s: LookupPrimitiveByID: case body not a single return", tf.pos(cc))
		}
		r, ok := cc.Body[0].(*ast.ReturnStmt)
		if !ok || len(r.Results) != 2 {
			return "", fmt.Errorf("%s: LookupPrimitiveByID: case body not a 2-value return", tf.pos(cc))
		}
		tv, ok := identName(r.Results[0])
		if e, ok2 := identName(r.Results[1]); !ok || !ok2 || e != "nil" {
			return "", fmt.Errorf("%s: LookupPrimitiveByID: unrecognised return", tf.pos(cc))
		}
		tid, err := typeVarID(tv)
		if err != nil {
			return "", err
		}
		for _, c := range cc.List {
			cn, ok := identName(c)
			if !ok {
				return "", fmt.Errorf("%s: LookupPrimitiveByID: non-constant case", tf.pos(c))
			}
			cv, err := ct.get(cn)
			if err != nil {
				return "", err
			}
			byID = append(byID, fmt.Sprintf("(%d, %d)", cv, tid))
		}
	}
	fmt.Fprintf(&b, "/-- (case id, ID() of the type returned) of LookupPrimitiveByID -/\ndef primitiveByID : List (Nat × Nat) :=\n  [%s]\n", strings.Join(byID, ", "))

	// LookupPrimitive
	fd, err = tf.funcDecl("", "LookupPrimitive")
	if err != nil {
		return "", err
	}
	sw = firstSwitch(fd.Body, "name")
	if sw == nil {
		return "", fmt.Errorf("%s: LookupPrimitive: no `switch name`", tf.pos(fd))
	}
	var names []string
	for _, s := range sw.Body.List {
		cc := s.(*ast.CaseClause)
		if cc.List == nil {
			return "", fmt.Errorf("%s: LookupPrimitive: default clause not recognised", tf.pos(cc))
		}
		ret, ok := singleReturn(cc.Body)
		if !ok {
			return "", fmt.Errorf("%s: LookupPrimitive: case body is not a single return", tf.pos(cc))
		}
		tv, ok := identName(ret)
		if !ok {
			return "", fmt.Errorf("%s: LookupPrimitive: unrecognised return", tf.pos(cc))
		}
		tid, err := typeVarID(tv)
		if err != nil {
			return "", err
		}
		for _, c := range cc.List {
			l, ok := strLit(c)
			if !ok {
				return "", fmt.Errorf("%s: LookupPrimitive: non-literal case", tf.pos(c))
			}
			var bs []string
			for _, c := range []byte(l) {
				bs = append(bs, fmt.Sprint(c))
			}
			names = append(names, fmt.Sprintf("(%s, [%s], %d)", leanStr(l), strings.Join(bs, ", "), tid))
		}
	}
	fmt.Fprintf(&b, "/-- LookupPrimitive: (name, its UTF-8 bytes, ID() of the type returned) -/\ndef primitiveNames : List (String × List UInt8 × Nat) :=\n  [%s]\n", strings.Join(names, ",\n   "))

	for _, n := range []string{"MaxEnumSymbols", "MaxRecordFields", "MaxUnionTypes"} {
		v, err := ct.get(n)
		if err != nil {
			return "", err
		}
		fmt.Fprintf(&b, "def %s%s : Nat := %d\n", strings.ToLower(n[:1]), n[1:], v)
	}

	// the context's critical sections: for every method of the concurrency model, every access
	// to the receiver in source order — mutex operations, fields, calls of other methods
	var shapes []string
	for _, m := range []string{"LookupTypeRecord", "LookupTypeSet", "LookupTypeMap", "LookupTypeArray", "LookupTypeUnion",
		"LookupTypeEnum", "LookupTypeDef", "LookupTypeNamed", "LookupTypeError", "LookupByValue", "LookupTypeValue",
		"TranslateType", "DecodeTypeValue", "enterWithLock", "nextIDWithLock"} {
		fd, err := cf.funcDecl("Context", m)
		if err != nil {
			return "", err
		}
		if fd.Recv == nil || len(fd.Recv.List) != 1 || len(fd.Recv.List[0].Names) != 1 {
			return "", fmt.Errorf("%s: %s: receiver not recognised", cf.pos(fd), m)
		}
		recv := fd.Recv.List[0].Names[0].Name
		var ev []string
		deferred := map[ast.Node]bool{}
		ast.Inspect(fd.Body, func(n ast.Node) bool {
			if d, ok := n.(*ast.DeferStmt); ok {
				deferred[d.Call] = true
			}
			call, isCall := n.(*ast.CallExpr)
			if isCall {
				// c.mu.Lock() etc.
				if sel, ok := call.Fun.(*ast.SelectorExpr); ok {
					if in, ok := sel.X.(*ast.SelectorExpr); ok {
						if x, ok := in.X.(*ast.Ident); ok && x.Name == recv && in.Sel.Name == "mu" {
							e := sel.Sel.Name
							if deferred[call] {
								e = "defer " + e
							}
							ev = append(ev, e)
							return false
						}
					}
					if x, ok := sel.X.(*ast.Ident); ok && x.Name == recv {
						ev = append(ev, sel.Sel.Name+"()")
						for _, a := range call.Args {
							ast.Inspect(a, func(n ast.Node) bool {
								if s, ok := n.(*ast.SelectorExpr); ok {
									if x, ok := s.X.(*ast.Ident); ok && x.Name == recv {
										ev = append(ev, "."+s.Sel.Name)
									}
								}
								return true
							})
						}
						return false
					}
				}
				return true
			}
			if s, ok := n.(*ast.SelectorExpr); ok {
				if x, ok := s.X.(*ast.Ident); ok && x.Name == recv {
					ev = append(ev, "."+s.Sel.Name)
					return false
				}
			}
			return true
		})
		shapes = append(shapes, fmt.Sprintf("(%s, %s)", leanStr(m), leanStrList(ev)))
	}
	fmt.Fprintf(&b, "/-- every access of a Context method to its receiver, in source order: mutex operations, fields (`.f`), method calls (`M()`) -/\ndef lockShape : List (String × List String) :=\n  [%s]\n", strings.Join(shapes, ",\n   "))
	return b.String(), nil
}
