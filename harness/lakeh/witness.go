package lakeh

import (
	"verifharness/hlib"
)

// Witnesses are the fixed histories that replay, on the real code, the concrete witnesses of
// the negated theorems (`not_…` in Props/C14.lean, Props/C15.lean) and of the recorded
// findings, so that a known finding is reproduced on every run and not only when the random
// generator happens to hit it.
func Witnesses(prop string) []*History {
	k := Cfg{Key: "k"}
	switch prop {
	case "C14":
		return []*History{
			{Profile: "witness:duplicate-id", Cfg: k, Vals: []string{"{k:1}", "{k:2}"}, Keys: []string{"i1", "i2"},
				Ops: []Op{{Kind: "load", Vals: []int{0}}, {Kind: "load", Vals: []int{1}}, {Kind: "delete", IDs: []int{1, 1}}}},
			{Profile: "witness:duplicate-vector-id", Cfg: k, Vals: []string{"{k:1}", "{k:2}"}, Keys: []string{"i1", "i2"},
				Ops: []Op{{Kind: "load", Vals: []int{0}}, {Kind: "addvec", IDs: []int{1, 1}}}},
			// descending pool, range starts 0 and null: both have empty zcode bytes
			{Profile: "witness:lister-empty-bytes", Cfg: Cfg{Key: "k", Desc: true}, Vals: []string{"{k:0}", "{k:-1}", "{k:null}", "{k:7}"}, Keys: []string{"i0", "i-1", "n", "i7"},
				Ops: []Op{{Kind: "load", Vals: []int{0}}, {Kind: "load", Vals: []int{1, 2}}, {Kind: "load", Vals: []int{3}}, {Kind: "load", Vals: []int{3}},
					{Kind: "load", Vals: []int{3}}, {Kind: "load", Vals: []int{3}}, {Kind: "load", Vals: []int{3}}, {Kind: "load", Vals: []int{3}}}},
			// nine objects with range starts null / "" / 0 (all empty bytes) compacted: the compaction
			// reads them in lister order and, in about one run in five, writes an object holding
			// missing null "" "" | missing missing null … (finding lister-order:empty-bytes-key:compact)
			{Profile: "witness:compact-empty-bytes", Cfg: Cfg{Key: "k", Desc: true},
				Vals: []string{"{v:14}", "{k:null,v:11}", "{k:null(int64),v:7}", "{k:\"\",v:3}", "{k:0,v:2}", "{k:-1,v:3}", "{k:5,v:1}"},
				Keys: []string{"n", "n", "n", "s-", "i0", "i-1", "i5"},
				Ops: []Op{{Kind: "load", Vals: []int{0, 0, 1, 2, 3, 4, 4, 5, 5}}, {Kind: "load", Vals: []int{0, 3}}, {Kind: "load", Vals: []int{2, 3}},
					{Kind: "load", Vals: []int{3, 5}}, {Kind: "load", Vals: []int{6}}, {Kind: "load", Vals: []int{4, 4}}, {Kind: "load", Vals: []int{5}},
					{Kind: "load", Vals: []int{4, 4}}, {Kind: "load", Vals: []int{4}}, {Kind: "compact", IDs: []int{1, 2, 3, 4, 5, 6, 7, 8, 9}}}},
			{Profile: "witness:this-key", Cfg: Cfg{Key: "this"}, Vals: []string{"0", "-1", "3"}, Keys: []string{"i0", "i-1", "i3"},
				Ops: []Op{{Kind: "load", Vals: []int{2, 0, 1}}}},
			{Profile: "witness:typed-null", Cfg: k, Vals: []string{"{k:null(int64),v:1}", "{k:5,v:2}"}, Keys: []string{"n", "i5"},
				Ops: []Op{{Kind: "load", Vals: []int{0}}, {Kind: "load", Vals: []int{1}}, {Kind: "delwhere", Pred: "k <= 6"}}},
			{Profile: "witness:tie-order", Cfg: Cfg{Key: "k", Thresh: 1}, Vals: []string{"{k:1,a:7}", "{k:1,b:7}", "{k:1,c:7}", "{k:1,d:7}"}, Keys: []string{"i1", "i1", "i1", "i1"},
				Ops: []Op{{Kind: "load", Vals: []int{0}}, {Kind: "load", Vals: []int{1}}, {Kind: "load", Vals: []int{2}}, {Kind: "load", Vals: []int{3}}}},
		}
	case "C15":
		vals := []string{"{k:1}", "{k:2}", "{k:3}"}
		keys := []string{"i1", "i2", "i3"}
		return []*History{
			// both sides delete the same object: the merge succeeds, the parent becomes unreadable
			{Profile: "witness:common-delete", Cfg: k, Vals: vals, Keys: keys,
				Ops: []Op{{Kind: "load", Vals: []int{0}}, {Kind: "load", Vals: []int{1}}, {Kind: "branch", Name: 1, Commit: 2},
					{Kind: "delete", Branch: 1, IDs: []int{1}}, {Kind: "delete", Branch: 0, IDs: []int{1}}, {Kind: "merge", Branch: 0, Child: 1}}},
			// the same child merged twice re-emits its delete
			{Profile: "witness:repeated-merge", Cfg: k, Vals: vals, Keys: keys,
				Ops: []Op{{Kind: "load", Vals: []int{0}}, {Kind: "load", Vals: []int{1}}, {Kind: "branch", Name: 1, Commit: 2},
					{Kind: "delete", Branch: 1, IDs: []int{1}}, {Kind: "merge", Branch: 0, Child: 1}, {Kind: "merge", Branch: 0, Child: 1}}},
			// the child deletes an object it added after the ancestor and that main took over
			{Profile: "witness:delete-of-merged-object", Cfg: k, Vals: vals, Keys: keys,
				Ops: []Op{{Kind: "load", Vals: []int{0}}, {Kind: "branch", Name: 1, Commit: 1}, {Kind: "load", Branch: 1, Vals: []int{1}},
					{Kind: "merge", Branch: 0, Child: 1}, {Kind: "delete", Branch: 1, IDs: []int{2}}, {Kind: "load", Branch: 1, Vals: []int{2}},
					{Kind: "merge", Branch: 0, Child: 1}}},
			// a clean merge and revert / revert-revert (must pass)
			{Profile: "witness:clean", Cfg: k, Vals: vals, Keys: keys,
				Ops: []Op{{Kind: "load", Vals: []int{0}}, {Kind: "branch", Name: 1, Commit: 1}, {Kind: "load", Branch: 1, Vals: []int{1}},
					{Kind: "load", Branch: 0, Vals: []int{2}}, {Kind: "merge", Branch: 0, Child: 1}, {Kind: "revert", Branch: 0, Commit: 4},
					{Kind: "revert", Branch: 0, Commit: 5}}},
		}
	}
	return nil
}

// RunWitnesses replays the fixed witnesses and compares them with the model like any other
// history.
func RunWitnesses(c *hlib.Ctx, prop string, opt Options) {
	if c.Replay != nil {
		return
	}
	if opt.Determinism > 0 {
		opt.Determinism = 12
	}
	var outs []*Outcome
	var lines []string
	for _, h := range Witnesses(prop) {
		o := RunHistory(h, nil, nil, opt)
		c.Stat("witness")
		if line := Report(c, o, opt); line != "" {
			outs = append(outs, o)
			lines = append(lines, line)
		}
	}
	if len(lines) == 0 {
		return
	}
	for k, a := range c.Model().Batch(lines) {
		CompareModel(c, outs[k], opt, a)
	}
}
