package main

// interleave — the context under EVERY interleaving of its atomic steps (Props: lock_shape,
// context_canonical_interleaved).
//
// Every Lookup* method of zed.Context is one critical section (T1 lockShape); DecodeTypeValue runs
// outside the mutex and touches the context only through those methods.  So an interleaving of
// concurrent LookupByValue calls is a sequence of public Lookup* calls, and this sub-check replays
// a schedule deterministically, one atomic step at a time, through the public API on ONE real
// context: each thread runs the program the model compiled from its bytes (`Ctx.prog`) on its own
// stack; its last step is the real LookupByValue (probe, re-decode — every call a hit —, store).
//
//   (T2) after the schedule the real context has the same types under the same ids as the model's
//        `Ctx.runSched`, and every thread the same result;
//   (S)  the type a thread assembled through the interleaved steps is pointer-identical to what the
//        context returns for its bytes, and to what every other thread with the same bytes got;
//   (S)  the same type values looked up by real goroutines at once (supporting evidence): same
//        results as the model, same set of types in the context, no duplicate structure.

import (
	"encoding/hex"
	"encoding/json"
	"fmt"
	"sort"
	"strconv"
	"strings"
	"sync"
	. "verifharness/hlib"

	zed "github.com/brimdata/super"
)

type ilCase struct {
	Check string   `json:"check"`
	TVs   []string `json:"tvs"`
	Sched []int    `json:"sched"`
}

// distinctNames renames the named types of a spec so that no name occurs twice in it.
func distinctNames(t *TSpec, ctr *int) {
	for _, e := range t.Elems {
		distinctNames(e, ctr)
	}
	for _, f := range t.Fields {
		distinctNames(f.Type, ctr)
	}
	if t.Kind == "named" {
		*ctr++
		if i := strings.Index(t.Name, "#"); i >= 0 {
			t.Name = t.Name[:i]
		}
		t.Name = fmt.Sprintf("%s#%d", t.Name, *ctr)
	}
}

func genInterleave(c *Ctx) *ilCase {
	r := c.Rng
	g := &TypeGen{Rng: r, Names: DefaultNames}
	ic := &ilCase{Check: "interleave"}
	k := 2 + r.Intn(4)
	steps := 0
	for i := 0; i < k; i++ {
		if i > 0 && r.Intn(4) == 0 {
			// the same bytes as another thread: the later probe may hit what the other stored
			ic.TVs = append(ic.TVs, ic.TVs[r.Intn(i)])
			continue
		}
		spec := g.Gen(1 + r.Intn(3))
		o := WireOpts{}
		switch r.Intn(6) {
		case 0:
			o.ReverseUnions = true
		case 1:
			o.LongLengths = true
		case 2:
			o.Trailing = []byte{byte(r.Intn(256))}
		case 3:
			o.ReverseUnions, o.LongLengths = true, true
		}
		if r.Intn(3) == 0 {
			// names may repeat inside the type; written without NameRefs
			o.ExpandRefs = true
		} else {
			ctr := r.Intn(3) // a small counter: names collide ACROSS threads (rebinding without NameRef)
			distinctNames(spec, &ctr)
		}
		ic.TVs = append(ic.TVs, hex.EncodeToString(spec.Wire(o)))
	}
	for _, h := range ic.TVs {
		steps += len(h)/2 + 3
	}
	for i, n := 0, r.Intn(steps+1); i < n; i++ {
		ic.Sched = append(ic.Sched, r.Intn(k))
	}
	// let every thread finish
	for i, h := range ic.TVs {
		for j := 0; j < len(h)/2+3; j++ {
			ic.Sched = append(ic.Sched, i)
		}
	}
	return ic
}

type ilThread struct {
	tv     []byte
	prog   []string
	parsed bool
	phase  int // 0 probe, 1 run, 2 done
	pc     int
	stack  []zed.Type
	res    zed.Type
}

func unhexList(s string) ([]string, error) {
	if s == "" {
		return nil, nil
	}
	var out []string
	for _, h := range strings.Split(s, ".") {
		if h == "-" { // the driver's atom for the empty byte string
			out = append(out, "")
			continue
		}
		b, err := hex.DecodeString(h)
		if err != nil {
			return nil, err
		}
		out = append(out, string(b))
	}
	return out, nil
}

// stepReal performs one atomic step of thread t on the real context.  keys mirrors the keys of
// toType (the probe of LookupByValue is not public): the canonical value of every type a call
// returned, and the bytes every finished LookupByValue stored.
func (t *ilThread) stepReal(zc *zed.Context, keys map[string]zed.Type) error {
	note := func(typ zed.Type) zed.Type {
		k := string(zed.EncodeTypeValue(typ))
		if _, ok := keys[k]; !ok {
			keys[k] = typ
		}
		return typ
	}
	pop := func(n int) ([]zed.Type, bool) {
		if len(t.stack) < n {
			return nil, false
		}
		ts := append([]zed.Type(nil), t.stack[len(t.stack)-n:]...)
		t.stack = t.stack[:len(t.stack)-n]
		return ts, true
	}
	abort := func() { t.phase, t.res = 2, nil }
	switch t.phase {
	case 0:
		if typ, ok := keys[string(t.tv)]; ok {
			t.phase, t.res = 2, typ
		} else {
			t.phase = 1
		}
	case 1:
		if t.pc == len(t.prog) {
			if !t.parsed || len(t.stack) == 0 {
				abort()
				return nil
			}
			mine := t.stack[len(t.stack)-1]
			typ, err := zc.LookupByValue(t.tv)
			if err != nil {
				return fmt.Errorf("the final LookupByValue failed: %v", err)
			}
			if typ != mine {
				return fmt.Errorf("the thread assembled %s (id %d) step by step, the context returns %s (id %d) for its bytes", DescrType(mine), zed.TypeID(mine), DescrType(typ), zed.TypeID(typ))
			}
			keys[string(t.tv)] = typ
			t.phase, t.res = 2, typ
			return nil
		}
		in := t.prog[t.pc]
		t.pc++
		switch {
		case in == "arr" || in == "set" || in == "err":
			ts, ok := pop(1)
			if !ok {
				abort()
				return nil
			}
			var typ zed.Type
			switch in {
			case "arr":
				typ = zc.LookupTypeArray(ts[0])
			case "set":
				typ = zc.LookupTypeSet(ts[0])
			default:
				typ = zc.LookupTypeError(ts[0])
			}
			t.stack = append(t.stack, note(typ))
		case in == "map":
			ts, ok := pop(2)
			if !ok {
				abort()
				return nil
			}
			t.stack = append(t.stack, note(zc.LookupTypeMap(ts[0], ts[1])))
		case strings.HasPrefix(in, "p"):
			id, _ := strconv.Atoi(in[1:])
			typ, err := zed.LookupPrimitiveByID(id)
			if err != nil {
				abort()
				return nil
			}
			t.stack = append(t.stack, typ)
		case strings.HasPrefix(in, "u"):
			n, _ := strconv.Atoi(in[1:])
			ts, ok := pop(n)
			if !ok {
				abort()
				return nil
			}
			t.stack = append(t.stack, note(zc.LookupTypeUnion(ts)))
		case strings.HasPrefix(in, "e:"):
			syms, err := unhexList(in[2:])
			if err != nil {
				return err
			}
			t.stack = append(t.stack, note(zc.LookupTypeEnum(syms)))
		case strings.HasPrefix(in, "r:"):
			names, err := unhexList(in[2:])
			if err != nil {
				return err
			}
			ts, ok := pop(len(names))
			if !ok {
				abort()
				return nil
			}
			fields := make([]zed.Field, len(names))
			for i := range names {
				fields[i] = zed.Field{Name: names[i], Type: ts[i]}
			}
			typ, err := zc.LookupTypeRecord(fields)
			if err != nil {
				abort()
				return nil
			}
			t.stack = append(t.stack, note(typ))
		case strings.HasPrefix(in, "n:"):
			nm, err := unhexList(in[2:])
			if err != nil || len(nm) != 1 {
				nm = []string{""}
			}
			ts, ok := pop(1)
			if !ok {
				abort()
				return nil
			}
			typ, err := zc.LookupTypeNamed(nm[0], ts[0])
			if err != nil {
				abort()
				return nil
			}
			t.stack = append(t.stack, note(typ))
		case strings.HasPrefix(in, "f:"):
			nm, err := unhexList(in[2:])
			if err != nil || len(nm) != 1 {
				nm = []string{""}
			}
			typ := zc.LookupTypeDef(nm[0])
			if typ == nil {
				abort()
				return nil
			}
			t.stack = append(t.stack, typ)
		default:
			return fmt.Errorf("instruction %q not understood", in)
		}
	}
	return nil
}

func contextTVs(zc *zed.Context) []string {
	var out []string
	for id := zed.IDTypeComplex; ; id++ {
		t, err := zc.LookupType(id)
		if err != nil {
			return out
		}
		out = append(out, hex.EncodeToString(zed.EncodeTypeValue(t)))
	}
}

func checkInterleave(c *Ctx, ic *ilCase) {
	c.Eval(fmt.Sprintf("interleave:%v:%v", ic.TVs, ic.Sched))
	var req strings.Builder
	req.WriteString("(C05 sched (")
	req.WriteString(strings.Join(ic.TVs, " "))
	req.WriteString(") (")
	for i, s := range ic.Sched {
		if i > 0 {
			req.WriteString(" ")
		}
		fmt.Fprint(&req, s)
	}
	req.WriteString("))")
	a := c.Model().Call(req.String())
	c.Res.ModelCases++
	parts := strings.Split(a, "|")
	if len(parts) != 2 {
		c.Fail("correspondence", "C05:interleave:model", "model answer not understood: "+a, ic)
		return
	}
	mth := strings.Split(parts[0], ";")
	if len(mth) != len(ic.TVs) {
		c.Fail("correspondence", "C05:interleave:model", "model answer not understood: "+a, ic)
		return
	}
	threads := make([]*ilThread, len(ic.TVs))
	wantRes := make([]string, len(ic.TVs))
	allOk := true
	for i, m := range mth {
		f := strings.Split(m, ",")
		if len(f) != 4 {
			c.Fail("correspondence", "C05:interleave:model", "model answer not understood: "+a, ic)
			return
		}
		tv, _ := hex.DecodeString(ic.TVs[i])
		threads[i] = &ilThread{tv: tv, parsed: f[1] == "1"}
		if f[2] != "" {
			threads[i].prog = strings.Split(f[2], " ")
		}
		wantRes[i] = f[3]
		if f[0] != "1" {
			allOk = false
		}
	}
	if !allOk {
		// a NameRef (or a failing step) in some program: outside the positive theorem; the NameRef
		// race has its own sub-check
		c.Stat("interleave:not-context-independent")
		return
	}
	c.Stat(fmt.Sprintf("interleave:threads:%d", len(threads)))
	// ---- deterministic replay of the schedule on one real context
	zc := zed.NewContext()
	keys := map[string]zed.Type{}
	e, _ := Protect(func() error {
		for _, s := range ic.Sched {
			if s < 0 || s >= len(threads) || threads[s].phase == 2 {
				continue
			}
			if err := threads[s].stepReal(zc, keys); err != nil {
				return fmt.Errorf("thread %d: %v", s, err)
			}
		}
		return nil
	})
	if e != nil {
		kind, key := "oracle", "C05:interleave:step"
		if strings.Contains(e.Error(), "panic") {
			kind, key = "panic", "C05:interleave:panic"
		}
		c.Fail(kind, key, e.Error(), ic)
		return
	}
	byTV := map[string]zed.Type{}
	for i, t := range threads {
		got := "running"
		if t.phase == 2 {
			got = "nil"
			if t.res != nil {
				got = hex.EncodeToString(zed.EncodeTypeValue(t.res))
				c.Stat("interleave:result:type")
				if prev, ok := byTV[ic.TVs[i]]; ok && prev != t.res {
					c.Fail("oracle", "C05:interleave:pointer", fmt.Sprintf("two threads with the bytes %s obtained different types (ids %d, %d)", ic.TVs[i], zed.TypeID(prev), zed.TypeID(t.res)), ic)
				}
				byTV[ic.TVs[i]] = t.res
			} else {
				c.Stat("interleave:result:nil")
			}
		}
		if got != wantRes[i] {
			c.Fail("correspondence", "C05:interleave:result", fmt.Sprintf("thread %d (%s): real %s, model %s", i, ic.TVs[i], got, wantRes[i]), ic)
			return
		}
	}
	realTVs := contextTVs(zc)
	if got := strings.Join(realTVs, " "); got != parts[1] {
		c.Fail("correspondence", "C05:interleave:context", fmt.Sprintf("types by id after the schedule: real [%s] model [%s]", got, parts[1]), ic)
		return
	}
	// ---- with the yield hook: the real LookupByValue of every thread in its own goroutine, one
	// critical section at a time in the order of the schedule
	if hookPresent() {
		c.Stat("interleave:hooked")
		var tvs [][]byte
		var progs [][]string
		for _, t := range threads {
			tvs = append(tvs, t.tv)
			progs = append(progs, t.prog)
		}
		hres, _, hzc, herr := runHooked(tvs, progs, ic.Sched)
		if herr != nil {
			c.Fail("correspondence", "C05:interleave:hooked:sections", herr.Error(), ic)
			return
		}
		for i := range threads {
			got := "nil"
			if hres[i] != nil {
				got = hex.EncodeToString(zed.EncodeTypeValue(hres[i]))
			}
			if got != wantRes[i] {
				c.Fail("correspondence", "C05:interleave:hooked:result", fmt.Sprintf("thread %d (%s): real goroutine under the schedule %s, model %s", i, ic.TVs[i], got, wantRes[i]), ic)
				return
			}
		}
		if got := strings.Join(contextTVs(hzc), " "); got != parts[1] {
			c.Fail("correspondence", "C05:interleave:hooked:context", fmt.Sprintf("types by id after the forced schedule: real [%s] model [%s]", got, parts[1]), ic)
			return
		}
	}
	// ---- the same lookups by real goroutines at once
	zc2 := zed.NewContext()
	res := make([]zed.Type, len(threads))
	var wg sync.WaitGroup
	var mu sync.Mutex
	var errs []string
	for i := range threads {
		wg.Add(1)
		go func(i int) {
			defer wg.Done()
			e, _ := Protect(func() error {
				t, err := zc2.LookupByValue(threads[i].tv)
				if err == nil {
					res[i] = t
				}
				return nil
			})
			if e != nil {
				mu.Lock()
				errs = append(errs, e.Error())
				mu.Unlock()
			}
		}(i)
	}
	wg.Wait()
	if len(errs) > 0 {
		c.Fail("panic", "C05:interleave:panic", errs[0], ic)
		return
	}
	byTV = map[string]zed.Type{}
	for i := range threads {
		got := "nil"
		if res[i] != nil {
			got = hex.EncodeToString(zed.EncodeTypeValue(res[i]))
			if prev, ok := byTV[ic.TVs[i]]; ok && prev != res[i] {
				c.Fail("oracle", "C05:interleave:goroutines:pointer", fmt.Sprintf("two goroutines with the bytes %s obtained different types (ids %d, %d)", ic.TVs[i], zed.TypeID(prev), zed.TypeID(res[i])), ic)
			}
			byTV[ic.TVs[i]] = res[i]
		}
		if wantRes[i] != "running" && got != wantRes[i] {
			c.Fail("oracle", "C05:interleave:goroutines:result", fmt.Sprintf("goroutine %d (%s): real %s, model (any schedule) %s", i, ic.TVs[i], got, wantRes[i]), ic)
			return
		}
	}
	// every thread finished in the schedule above, so the set of types is the model's
	a2, b2 := contextTVs(zc2), append([]string(nil), realTVs...)
	sort.Strings(a2)
	sort.Strings(b2)
	for i := 1; i < len(a2); i++ {
		if a2[i] == a2[i-1] {
			c.Fail("oracle", "C05:interleave:goroutines:duplicate", "two ids with the type value "+a2[i], ic)
			return
		}
	}
	if strings.Join(a2, " ") != strings.Join(b2, " ") {
		c.Fail("oracle", "C05:interleave:goroutines:types", fmt.Sprintf("set of types after concurrent lookups [%s] differs from the set after the replayed schedule [%s]", strings.Join(a2, " "), strings.Join(b2, " ")), ic)
	}
}

func runInterleave(c *Ctx) {
	for i, n := 0, c.N(250, 4000); i < n; i++ {
		ic := genInterleave(c)
		if i < 1 {
			c.Sample(ic)
		}
		checkInterleave(c, ic)
	}
	if hookPresent() {
		nameRefHooked(c)
	}
}

// nameRefHooked: the schedule of Props.not_context_canonical_interleaved forced on two REAL
// LookupByValue goroutines (thread 0: {f:x=int64, g:x}, thread 1: x=<other>):
// A probe · int64 · NameDef x | B probe · <other> · NameDef x | A NameRef x · record · store.
// The model says thread 0 then gets {f:x=int64, g:x=<other>}; the real code must agree with the
// model (T2), and the disagreement with what was written is the known finding.
func nameRefHooked(c *Ctx) {
	for _, other := range []int{zed.IDString, zed.IDFloat64, zed.IDIP} {
		x := func(id int) *TSpec { return &TSpec{Kind: "named", Name: "x", Elems: []*TSpec{Prim(id)}} }
		a := &TSpec{Kind: "record", Fields: []TField{{Name: "f", Type: x(zed.IDInt64)}, {Name: "g", Type: x(zed.IDInt64)}}}
		ic := &ilCase{Check: "interleave-nameref", TVs: []string{hex.EncodeToString(a.Wire(WireOpts{})), hex.EncodeToString(x(other).Wire(WireOpts{}))},
			Sched: []int{0, 0, 0, 1, 1, 1, 0, 0, 0, 1}}
		c.Eval(fmt.Sprintf("interleave:nameref:%d", other))
		ans := c.Model().Call(fmt.Sprintf("(C05 sched (%s) (0 0 0 1 1 1 0 0 0 1))", strings.Join(ic.TVs, " ")))
		c.Res.ModelCases++
		parts := strings.Split(ans, "|")
		mth := strings.Split(parts[0], ";")
		if len(parts) != 2 || len(mth) != 2 {
			c.Fail("correspondence", "C05:interleave:model", "model answer not understood: "+ans, ic)
			return
		}
		var tvs [][]byte
		var progs [][]string
		var want []string
		for i, m := range mth {
			f := strings.Split(m, ",")
			if len(f) != 4 {
				c.Fail("correspondence", "C05:interleave:model", "model answer not understood: "+ans, ic)
				return
			}
			tv, _ := hex.DecodeString(ic.TVs[i])
			tvs = append(tvs, tv)
			progs = append(progs, strings.Split(f[2], " "))
			want = append(want, f[3])
		}
		res, _, zc, err := runHooked(tvs, progs, ic.Sched)
		if err != nil {
			c.Fail("correspondence", "C05:interleave:hooked:sections", err.Error(), ic)
			return
		}
		for i := range tvs {
			got := "nil"
			if res[i] != nil {
				got = hex.EncodeToString(zed.EncodeTypeValue(res[i]))
			}
			if got != want[i] {
				c.Fail("correspondence", "C05:interleave:hooked:result", fmt.Sprintf("NameRef schedule, thread %d: real goroutine %s, model %s", i, got, want[i]), ic)
				return
			}
		}
		if got := strings.Join(contextTVs(zc), " "); got != parts[1] {
			c.Fail("correspondence", "C05:interleave:hooked:context", fmt.Sprintf("NameRef schedule: types by id real [%s] model [%s]", got, parts[1]), ic)
			return
		}
		c.Stat("interleave:nameref:hooked")
		if res[0] != nil && DescrType(res[0]) != a.Descr() {
			c.Fail("oracle", "C05:nameref:rebinding", fmt.Sprintf("two real LookupByValue goroutines forced through the schedule A:NameDef x=int64 · B:NameDef x=%s · A:NameRef x: A asked for %s and got %s", DescrType(res[1]), a.Descr(), DescrType(res[0])), ic)
		}
	}
}

func replayInterleave(c *Ctx) {
	var ic ilCase
	if json.Unmarshal(c.Replay, &ic) == nil {
		checkInterleave(c, &ic)
	}
}
