package main

import (
	. "verifharness/hlib"
)

// the recorded defect's witnesses, replayed on the real code on every run.
func c04Known(c *Ctx) {
	before := len(c.Res.Failures)
	cs := &encCase{Check: "enc", Prog: "search foo", Values: []string{"{a:[{foo:1}]}"},
		Encs: []encCfg{{Format: "zng", Compress: true, Threads: 1}, {Format: "zng", Thresh: 1, Threads: 4}}}
	cs.check(c)
	c04BF(c, []*bfCase{{Check: "bf", Pred: "foo", Frame: []string{"{a:[{foo:1}]}"}}})
	cs2 := &encCase{Check: "enc", Prog: `search grep("ab", s+t)`, Values: []string{`{s:"a",t:"b"}`},
		Encs: []encCfg{{Format: "zng", Compress: true, Threads: 1}}}
	cs2.check(c)
	if len(c.Res.Failures) < before+3 {
		c.Stat("known:no-longer-fails")
		c.Note("recorded witness no longer fails: `search foo` over {a:[{foo:1}]} as ZNG")
	}
}
