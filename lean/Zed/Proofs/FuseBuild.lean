import Zed.Proofs.FuseBasic
/-!
  C20 core lemma: a good plan builds every well-typed value into its announced type with
  exactly the same non-null leaves (`build_good`).
-/
namespace Zed.Fuse

theorem build_null (s : Step) : build s .null = .ok s.toType .null := by
  cases s <;> simp [build]

theorem leavesList_congr {t t' : Ty} (h : t.under = t'.under) : (k : Nat) → (vs : Vals) →
    leavesList t k vs = leavesList t' k vs
  | _, .nil => by simp [leavesList]
  | k, .cons v r => by simp [leavesList, leaves_under h v, leavesList_congr h (k + 1) r]

theorem hasTypeAll_of_list {vs : Vals} {a i : Ty} (hi : a.inner? = some i) (h : hasType (.list vs) a = true) :
    hasTypeAll vs i = true := by
  simpa [hasType, hi] using h

/-- elementwise building of an array / set body -/
theorem mapVals_good (c : Step) (i : Ty)
    (hc : ∀ v, hasType v i = true → ∃ v', build c v = .ok c.toType v' ∧ ∀ l, l ∈ leaves c.toType v' ↔ l ∈ leaves i v) :
    (vs : Vals) → hasTypeAll vs i = true →
      ∃ outs : List Val, mapVals (fun x => build c x) vs = outs.map (fun v' => BuildRes.ok c.toType v') ∧
        ∀ k l, l ∈ leavesList c.toType k (Vals.ofList outs) ↔ l ∈ leavesList i k vs
  | .nil, _ => ⟨[], by simp [mapVals], by simp [leavesList, Vals.ofList]⟩
  | .cons v r, h => by
    simp only [hasTypeAll, Bool.and_eq_true] at h
    obtain ⟨v', hv, hl⟩ := hc v h.1
    obtain ⟨outs, ho, hls⟩ := mapVals_good c i hc r h.2
    refine ⟨v' :: outs, by simp [mapVals, hv, ho], ?_⟩
    intro k l
    simp only [Vals.ofList, leavesList, List.mem_append, hls (k + 1) l, pre_congr hl l]

theorem collectElems_ok (t : Ty) : (outs : List Val) →
    collectElems (outs.map (fun v' => BuildRes.ok t v')) = some (.ok (outs.map fun v' => (t, v')))
  | [] => by simp [collectElems]
  | v :: r => by simp [collectElems, collectElems_ok t r, Except.map]

theorem ofList_toList : (vs : Vals) → Vals.ofList vs.toList = vs
  | .nil => rfl
  | .cons v r => by simp [Vals.toList, Vals.ofList, ofList_toList r]

theorem finishList_good (isSet : Bool) (to oi t : Ty) (hto : to.inner? = some oi) (ht : t.under = oi.under)
    (outs : List Val) :
    finishList isSet to (outs.map (fun v' => BuildRes.ok t v')) = .ok to (.list (Vals.ofList outs)) := by
  unfold finishList
  rw [collectElems_ok]
  cases outs with
  | nil => simp [Vals.ofList]
  | cons v r =>
    simp only [List.map_cons, List.all_map, List.map_map]
    have h1 : (r.all ((fun p : Ty × Val => decide (p.1 = t)) ∘ fun v' => (t, v'))) = true := by
      simp [List.all_eq_true]
    have h2 : (r.map ((fun x : Ty × Val => x.2) ∘ fun v' => (t, v'))) = r := by
      simp [Function.comp_def]
    simp [h1, h2, hto, ht]

/-- `hasType` of a union value gives the member and the well-typed inner value. -/
theorem hasType_union {tag : Nat} {x : Val} {a : Ty} (h : hasType (.union tag x) a = true) :
    ∃ m, a.members.get? tag = some m ∧ hasType x m = true := by
  simp only [hasType, Bool.and_eq_true] at h
  cases hm : a.members.get? tag with
  | none => simp [hm] at h
  | some m => simp only [hm, Bool.and_eq_true] at h; exact ⟨m, rfl, h.2.1⟩

theorem mem_indices_cons_none {i : Nat} {s : Step} {r : RSteps} : i ∈ (RSteps.cons none s r).indices ↔ i ∈ r.indices := by
  simp [RSteps.indices]

mutual
theorem build_good : (s : Step) → (a : Ty) → (v : Val) → goodStep a s = true → hasType v a = true →
    ∃ v', build s v = .ok s.toType v' ∧ ∀ l, l ∈ leaves s.toType v' ↔ l ∈ leaves a v
  | .copy to, a, v, hg, _ => by
    simp only [goodStep, beq_iff_eq] at hg
    refine ⟨v, ?_, fun l => by rw [Step.toType, leaves_under hg.symm v]⟩
    cases v <;> simp [build, Step.toType]
  | .null to, a, v, hg, ht => by
    simp only [goodStep, beq_iff_eq] at hg
    have := hasType_nullTy hg ht
    subst this
    exact ⟨.null, build_null _, by simp [leaves]⟩
  | .castPrim _ _, _, _, hg, _ => by simp [goodStep] at hg
  | .toUnion tag to, a, v, hg, _ => by
    by_cases hv : v = .null
    · subst hv; exact ⟨.null, build_null _, by simp [leaves]⟩
    · simp only [goodStep] at hg
      cases hm : to.members.get? tag with
      | none => simp [hm] at hg
      | some m =>
        simp only [hm, beq_iff_eq] at hg
        refine ⟨.union tag v, ?_, fun l => ?_⟩
        · cases v <;> simp_all [build, Step.toType]
        · simp only [Step.toType, leaves, hm, Option.getD_some]
          rw [leaves_under hg v]
  | .fromUnion to cs, a, v, hg, ht => by
    simp only [goodStep, Bool.and_eq_true] at hg
    cases v with
    | null => exact ⟨.null, build_null _, by simp [leaves]⟩
    | union tag x =>
      obtain ⟨m, hm, hx⟩ := hasType_union ht
      obtain ⟨v', h1, h2⟩ := buildNth_good cs a.members to hg.2 tag m hm x hx
      refine ⟨v', by simpa [build, Step.toType] using h1, fun l => ?_⟩
      simp only [Step.toType, leaves, hm, Option.getD_some]
      exact h2 l
    | prim id b =>
      have := (isPrim_excludes (hasType_prim_isPrim ht)).1
      simp [this] at hg
    | recd vs =>
      simp only [hasType, Bool.and_eq_true, Ty.isRecord] at ht
      simp only [Ty.isUnion] at hg
      cases hu : a.under <;> simp_all
    | list vs =>
      simp only [hasType, Ty.inner?] at ht
      simp only [Ty.isUnion] at hg
      cases hu : a.under <;> simp_all
    | map vs =>
      simp only [hasType] at ht
      simp only [Ty.isUnion] at hg
      cases hu : a.under <;> simp_all
  | .array to c, a, v, hg, ht => by
    simp only [goodStep] at hg
    cases hi : a.inner? with
    | none => simp [hi] at hg
    | some i =>
      cases ho : to.inner? with
      | none => simp [hi, ho] at hg
      | some oi =>
        simp only [hi, ho, Bool.and_eq_true, beq_iff_eq] at hg
        cases v with
        | null => exact ⟨.null, build_null _, by simp [leaves]⟩
        | list vs =>
          obtain ⟨outs, h1, h2⟩ := mapVals_good c i (fun x hx => build_good c i x hg.1 hx) vs (hasTypeAll_of_list hi ht)
          refine ⟨.list (Vals.ofList outs), ?_, fun l => ?_⟩
          · simp only [build, h1, Step.toType]
            exact finishList_good false to oi c.toType ho hg.2 outs
          · simp only [Step.toType, leaves, ho, hi, Option.getD_some]
            rw [leavesList_congr hg.2.symm 0 (Vals.ofList outs)]
            exact h2 0 l
        | prim id b =>
          have := (isPrim_excludes (hasType_prim_isPrim ht)).2.1
          simp [this] at hi
        | recd vs =>
          simp only [hasType, Bool.and_eq_true, Ty.isRecord] at ht
          simp only [Ty.inner?] at hi
          cases hu : a.under <;> simp_all
        | map vs =>
          simp only [hasType] at ht
          simp only [Ty.inner?] at hi
          cases hu : a.under <;> simp_all
        | union tag x =>
          simp only [hasType, Bool.and_eq_true, Ty.isUnion] at ht
          simp only [Ty.inner?] at hi
          cases hu : a.under <;> simp_all
  | .set to c, a, v, hg, ht => by
    simp only [goodStep] at hg
    cases hi : a.inner? with
    | none => simp [hi] at hg
    | some i =>
      cases ho : to.inner? with
      | none => simp [hi, ho] at hg
      | some oi =>
        simp only [hi, ho, Bool.and_eq_true, beq_iff_eq] at hg
        cases v with
        | null => exact ⟨.null, build_null _, by simp [leaves]⟩
        | list vs =>
          obtain ⟨outs, h1, h2⟩ := mapVals_good c i (fun x hx => build_good c i x hg.1 hx) vs (hasTypeAll_of_list hi ht)
          refine ⟨.list (Vals.ofList outs), ?_, fun l => ?_⟩
          · simp only [build, h1, Step.toType]
            exact finishList_good true to oi c.toType ho hg.2 outs
          · simp only [Step.toType, leaves, ho, hi, Option.getD_some]
            rw [leavesList_congr hg.2.symm 0 (Vals.ofList outs)]
            exact h2 0 l
        | prim id b =>
          have := (isPrim_excludes (hasType_prim_isPrim ht)).2.1
          simp [this] at hi
        | recd vs =>
          simp only [hasType, Bool.and_eq_true, Ty.isRecord] at ht
          simp only [Ty.inner?] at hi
          cases hu : a.under <;> simp_all
        | map vs =>
          simp only [hasType] at ht
          simp only [Ty.inner?] at hi
          cases hu : a.under <;> simp_all
        | union tag x =>
          simp only [hasType, Bool.and_eq_true, Ty.isUnion] at ht
          simp only [Ty.inner?] at hi
          cases hu : a.under <;> simp_all
  | .record to cs, a, v, hg, ht => by
    simp only [goodStep, Bool.and_eq_true, List.all_eq_true, List.mem_range] at hg
    obtain ⟨⟨⟨hra, hrt⟩, hgf⟩, hcov⟩ := hg
    cases v with
    | null => exact ⟨.null, build_null _, by simp [leaves]⟩
    | recd vs =>
      have hvs : hasTypeRec vs a.fields = true := by
        simp only [hasType, Bool.and_eq_true] at ht; exact ht.2
      obtain ⟨rs, h1, h2, h3⟩ := buildFields_good cs a.fields to.fields vs hgf hvs
      refine ⟨.recd (Vals.ofList (rs.map (·.2.2))), ?_, fun l => ?_⟩
      · simp only [build, h1, Step.toType, finishRecord]
        have hneed : (rs.any fun x => x.2.1.under != x.1.under) = false := by
          rw [List.any_eq_false]
          intro p hp
          simp [h2 p hp]
        simp [hneed]
      · simp only [Step.toType, leaves]
        rw [h3 l, mem_leavesRec]
        constructor
        · rintro ⟨i, _, n, t, hi, hl⟩; exact ⟨i, n, t, hi, hl⟩
        · rintro ⟨i, n, t, hi, hl⟩
          have := hcov i (get?_lt_length hi)
          exact ⟨i, by simpa using this, n, t, hi, hl⟩
    | prim id b =>
      have := (isPrim_excludes (hasType_prim_isPrim ht)).2.2
      simp [this] at hra
    | list vs =>
      simp only [hasType, Ty.inner?] at ht
      simp only [Ty.isRecord] at hra
      cases hu : a.under <;> simp_all
    | map vs =>
      simp only [hasType] at ht
      simp only [Ty.isRecord] at hra
      cases hu : a.under <;> simp_all
    | union tag x =>
      simp only [hasType, Bool.and_eq_true, Ty.isUnion] at ht
      simp only [Ty.isRecord] at hra
      cases hu : a.under <;> simp_all
theorem buildNth_good : (cs : Steps) → (ms : Tys) → (to : Ty) → goodMembers ms cs to = true →
    (tag : Nat) → (m : Ty) → ms.get? tag = some m → (x : Val) → hasType x m = true →
    ∃ v', buildNth cs tag x = .ok to v' ∧ ∀ l, l ∈ leaves to v' ↔ l ∈ leaves m x
  | .nil, .nil, _, _, _, _, hm, _, _ => by simp [Tys.get?] at hm
  | .nil, .cons _ _, _, hg, _, _, _, _, _ => by simp [goodMembers] at hg
  | .cons _ _, .nil, _, hg, _, _, _, _, _ => by simp [goodMembers] at hg
  | .cons s ss, .cons m' ms, to, hg, 0, m, hm, x, hx => by
    simp only [goodMembers, Bool.and_eq_true, beq_iff_eq] at hg
    simp only [Tys.get?, Option.some.injEq] at hm
    subst hm
    obtain ⟨v', h1, h2⟩ := build_good s m' x hg.1.1 hx
    exact ⟨v', by simpa [buildNth, hg.1.2] using h1, by rw [← hg.1.2]; exact h2⟩
  | .cons s ss, .cons m' ms, to, hg, tag + 1, m, hm, x, hx => by
    simp only [goodMembers, Bool.and_eq_true] at hg
    simp only [Tys.get?] at hm
    obtain ⟨v', h1, h2⟩ := buildNth_good ss ms to hg.2 tag m hm x hx
    exact ⟨v', by simpa [buildNth] using h1, h2⟩
theorem buildFields_good : (cs : RSteps) → (fa fo : Fields) → (vs : Vals) → goodFields fa fo cs = true →
    hasTypeRec vs fa = true →
    ∃ rs, buildFields cs vs = some (.ok rs) ∧ (∀ p ∈ rs, p.2.1 = p.1) ∧
      ∀ l, (l ∈ leavesRec fo (Vals.ofList (rs.map (·.2.2))) ↔
        ∃ i ∈ cs.indices, ∃ n t, fa.get? i = some (n, t) ∧ l ∈ pre (.fld n) (leaves t (vs.getD i)))
  | .nil, fa, .nil, vs, _, _ => ⟨[], by simp [buildFields], by simp, by simp [leavesRec, RSteps.indices, Vals.ofList]⟩
  | .nil, fa, .cons _ _ _, vs, hg, _ => by simp [goodFields] at hg
  | .cons _ _ _, fa, .nil, vs, hg, _ => by simp [goodFields] at hg
  | .cons none s cs, fa, .cons n t fo, vs, hg, hv => by
    simp only [goodFields, Bool.and_eq_true] at hg
    obtain ⟨rs, h1, h2, h3⟩ := buildFields_good cs fa fo vs hg.2 hv
    refine ⟨(s.toType, s.toType, .null) :: rs, ?_, ?_, fun l => ?_⟩
    · simp [buildFields, hg.1, h1, Except.map]
    · intro p hp
      rcases List.mem_cons.1 hp with rfl | hp
      · rfl
      · exact h2 p hp
    · simp only [List.map_cons, Vals.ofList, leavesRec, leaves_null, pre, List.map_nil, List.nil_append,
        h3 l, RSteps.indices]
  | .cons (some i) s cs, fa, .cons n t fo, vs, hg, hv => by
    simp only [goodFields, Bool.and_eq_true] at hg
    obtain ⟨hg1, hg2⟩ := hg
    obtain ⟨rs, h1, h2, h3⟩ := buildFields_good cs fa fo vs hg2 hv
    cases hfa : fa.get? i with
    | none => simp [hfa] at hg1
    | some p =>
      obtain ⟨n', ti⟩ := p
      simp only [hfa, Bool.and_eq_true, beq_iff_eq] at hg1
      obtain ⟨⟨hn, hgs⟩, hty⟩ := hg1
      subst hn
      have hxi := hasTypeRec_getD hv hfa
      obtain ⟨x', hb, hl⟩ := build_good s ti (vs.getD i) hgs hxi
      have hhere : (if s.isNull = true then BuildRes.ok s.toType Val.null else build s (vs.getD ((some i).getD 0))) = .ok s.toType x'
          ∨ ((if s.isNull = true then BuildRes.ok s.toType Val.null else build s (vs.getD ((some i).getD 0))) = .ok s.toType .null ∧ vs.getD i = .null) := by
        by_cases hn : s.isNull = true
        · right
          cases s <;> simp [Step.isNull] at hn
          simp only [goodStep, beq_iff_eq] at hgs
          exact ⟨by simp [Step.isNull], hasType_nullTy hgs hxi⟩
        · left; simp [hn, hb]
      rcases hhere with hh | ⟨hh, hnull⟩
      · refine ⟨(s.toType, s.toType, x') :: rs, ?_, ?_, fun l => ?_⟩
        · simp only [buildFields, hh, h1, Option.map_some, Except.map]
        · intro p hp
          rcases List.mem_cons.1 hp with rfl | hp
          · rfl
          · exact h2 p hp
        · simp only [List.map_cons, Vals.ofList, leavesRec, List.mem_append, h3 l, RSteps.indices, List.mem_cons]
          have hpc : ∀ l, l ∈ pre (.fld n') (leaves t x') ↔ l ∈ pre (.fld n') (leaves ti (vs.getD i)) :=
            pre_congr (fun l => by rw [leaves_under hty.symm x']; exact hl l)
          rw [hpc l]
          constructor
          · rintro (h | ⟨j, hj, r⟩)
            · exact ⟨i, Or.inl rfl, n', ti, hfa, h⟩
            · exact ⟨j, Or.inr hj, r⟩
          · rintro ⟨j, hj | hj, n2, t2, hj2, hl2⟩
            · subst hj
              rw [hfa] at hj2
              simp only [Option.some.injEq, Prod.mk.injEq] at hj2
              obtain ⟨rfl, rfl⟩ := hj2
              exact Or.inl hl2
            · exact Or.inr ⟨j, hj, n2, t2, hj2, hl2⟩
      · refine ⟨(s.toType, s.toType, .null) :: rs, ?_, ?_, fun l => ?_⟩
        · simp only [buildFields, hh, h1, Option.map_some, Except.map]
        · intro p hp
          rcases List.mem_cons.1 hp with rfl | hp
          · rfl
          · exact h2 p hp
        · simp only [List.map_cons, Vals.ofList, leavesRec, leaves_null, pre, List.map_nil, List.nil_append,
            h3 l, RSteps.indices, List.mem_cons]
          constructor
          · rintro ⟨j, hj, r⟩; exact ⟨j, Or.inr hj, r⟩
          · rintro ⟨j, hj | hj, n2, t2, hj2, hl2⟩
            · subst hj
              rw [hnull, leaves_null] at hl2
              simp at hl2
            · exact ⟨j, hj, n2, t2, hj2, hl2⟩
end

end Zed.Fuse
