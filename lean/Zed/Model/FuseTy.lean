import Zed.Generated.C20
/-!
  C20 model, layer 1 — structural Zed types and value trees as the fuse code sees them
  (`type.go`, `complex.go`, `context.go`): `TypeUnder`, `Kind`, `CompareTypes`, the
  canonical member order of `Context.LookupTypeUnion` (stable sort by `CompareTypes`, no
  de-duplication), and well-typedness / leaves of value trees.

  Types interned in one `zed.Context` are equal as pointers iff they are structurally equal,
  so pointer equality in the Go code is structural equality here.  Enum and error types are
  opaque leaves for the shaper (it never looks inside their values): a value of such a type is
  carried as `Val.prim idEnum bytes` / `Val.prim idError bytes` with its whole body as bytes.
  Names are byte strings.
-/
namespace Zed.Fuse

abbrev Name := List UInt8
abbrev Bytes := List UInt8

mutual
inductive Ty where
  | prim (id : Nat)
  | record (fs : Fields)
  | array (t : Ty)
  | set (t : Ty)
  | map (k v : Ty)
  | union (ts : Tys)
  | named (n : Name) (t : Ty)
  | enum (syms : List Name)
  | error (t : Ty)
inductive Fields where
  | nil
  | cons (n : Name) (t : Ty) (rest : Fields)
inductive Tys where
  | nil
  | cons (t : Ty) (rest : Tys)
end

deriving instance DecidableEq for Ty, Fields, Tys
deriving instance Repr for Ty, Fields, Tys
instance : Inhabited Ty := ⟨.prim 29⟩

/-- `zed.IDNull` (regenerated from type.go) -/
def idNull : Nat := Generated.C20.idNull
def tyNull : Ty := .prim idNull
/-- synthetic leaf ids for values of enum and error types (carried as opaque bytes) -/
def idEnum : Nat := 1000
def idError : Nat := 1001

namespace Fields
def toList : Fields → List (Name × Ty)
  | .nil => []
  | .cons n t r => (n, t) :: r.toList
def ofList : List (Name × Ty) → Fields
  | [] => .nil
  | (n, t) :: r => .cons n t (ofList r)
def length : Fields → Nat
  | .nil => 0
  | .cons _ _ r => r.length + 1
/-- `TypeRecord.TypeOfField` / `indexOfField`: first field with that name. -/
def lookup (name : Name) : Fields → Option Ty
  | .nil => none
  | .cons n t r => if n = name then some t else lookup name r
def indexOf (name : Name) : Fields → Option Nat
  | .nil => none
  | .cons n _ r => if n = name then some 0 else (indexOf name r).map (· + 1)
def get? : Fields → Nat → Option (Name × Ty)
  | .nil, _ => none
  | .cons n t _, 0 => some (n, t)
  | .cons _ _ r, i + 1 => get? r i
def append : Fields → Fields → Fields
  | .nil, b => b
  | .cons n t r, b => .cons n t (append r b)
end Fields

namespace Tys
def toList : Tys → List Ty
  | .nil => []
  | .cons t r => t :: r.toList
def ofList : List Ty → Tys
  | [] => .nil
  | t :: r => .cons t (ofList r)
def length : Tys → Nat
  | .nil => 0
  | .cons _ r => r.length + 1
def get? : Tys → Nat → Option Ty
  | .nil, _ => none
  | .cons t _, 0 => some t
  | .cons _ r, i + 1 => get? r i
end Tys

namespace Ty

/-- `zed.TypeUnder` -/
def under : Ty → Ty
  | .named _ t => t.under
  | t => t

/-- `Type.Kind()` as its position in the `Kind` iota block (of the underlying type). -/
def kind (t : Ty) : Nat :=
  match t.under with
  | .prim _ => 0
  | .record _ => 1
  | .array _ => 2
  | .set _ => 3
  | .map _ _ => 4
  | .union _ => 5
  | .enum _ => 6
  | .error _ => 7
  | .named _ _ => 0

def isRecord (t : Ty) : Bool := match t.under with | .record _ => true | _ => false
def isUnion (t : Ty) : Bool := match t.under with | .union _ => true | _ => false
def isMap (t : Ty) : Bool := match t.under with | .map _ _ => true | _ => false
/-- `zed.IsPrimitiveType` = not a container: primitives, enums and errors. -/
def isPrim (t : Ty) : Bool :=
  match t.under with | .prim _ => true | .enum _ => true | .error _ => true | _ => false
def isError (t : Ty) : Bool := match t.under with | .error _ => true | _ => false
def isEnum (t : Ty) : Bool := match t.under with | .enum _ => true | _ => false
/-- `zed.InnerType` -/
def inner? (t : Ty) : Option Ty :=
  match t.under with
  | .array i => some i
  | .set i => some i
  | _ => none
def isArray (t : Ty) : Bool := match t.under with | .array _ => true | _ => false
def isSet (t : Ty) : Bool := match t.under with | .set _ => true | _ => false
def fields (t : Ty) : Fields := match t.under with | .record fs => fs | _ => .nil
def members (t : Ty) : Tys := match t.under with | .union ts => ts | _ => .nil

end Ty

/-! ### `CompareTypes` and the union member order -/

def cmpNat (a b : Nat) : Ordering := if a < b then .lt else if a = b then .eq else .gt

/-- `strings.Compare` on byte strings. -/
def cmpName : Name → Name → Ordering
  | [], [] => .eq
  | [], _ :: _ => .lt
  | _ :: _, [] => .gt
  | a :: as, b :: bs => if a < b then .lt else if b < a then .gt else cmpName as bs

/-- The head of `CompareTypes`: equal ids (same underlying type) are ordered by namedness and
    name; different kinds by kind; otherwise `deep`, the kind-specific comparison. -/
def cmpHead (a b : Ty) (deep : Ordering) : Ordering :=
  if a.under = b.under then
    match a, b with
    | .named na _, .named nb _ => cmpName na nb
    | .named _ _, _ => .gt
    | _, .named _ _ => .lt
    | _, _ => .eq
  else if a.kind ≠ b.kind then cmpNat a.kind b.kind
  else deep

def cmpFieldNames : Fields → Fields → Ordering
  | .cons n _ r, .cons n' _ r' => match cmpName n n' with | .eq => cmpFieldNames r r' | o => o
  | _, _ => .eq

def cmpNames : List Name → List Name → Ordering
  | a :: as, b :: bs => match cmpName a b with | .eq => cmpNames as bs | o => o
  | _, _ => .eq

mutual
/-- The kind-specific part of `CompareTypes` (both sides already of the same kind). -/
def cmpDeep : Ty → Ty → Ordering
  | .named _ t, b => cmpDeep t b
  | .prim i, b => match b.under with | .prim j => cmpNat i j | _ => .eq
  | .record fa, b =>
    match b.under with
    | .record fb =>
      match cmpNat fa.length fb.length with
      | .eq => match cmpFieldNames fa fb with
        | .eq => cmpFieldTypes fa fb
        | o => o
      | o => o
    | _ => .eq
  | .array t, b => match b.inner? with | some u => cmpHead t u (cmpDeep t u) | none => .eq
  | .set t, b => match b.inner? with | some u => cmpHead t u (cmpDeep t u) | none => .eq
  | .map k v, b =>
    match b.under with
    | .map k' v' => match cmpHead k k' (cmpDeep k k') with
      | .eq => cmpHead v v' (cmpDeep v v')
      | o => o
    | _ => .eq
  | .union ts, b =>
    match b.under with
    | .union us => match cmpNat ts.length us.length with
      | .eq => cmpTys ts us
      | o => o
    | _ => .eq
  | .enum ss, b =>
    match b.under with
    | .enum ss' => match cmpNat ss.length ss'.length with
      | .eq => cmpNames ss ss'
      | o => o
    | _ => .eq
  | .error t, b => match b.under with | .error u => cmpHead t u (cmpDeep t u) | _ => .eq
def cmpFieldTypes : Fields → Fields → Ordering
  | .cons _ t r, .cons _ t' r' => match cmpHead t t' (cmpDeep t t') with | .eq => cmpFieldTypes r r' | o => o
  | _, _ => .eq
def cmpTys : Tys → Tys → Ordering
  | .cons t r, .cons t' r' => match cmpHead t t' (cmpDeep t t') with | .eq => cmpTys r r' | o => o
  | _, _ => .eq
end

/-- `zed.CompareTypes` -/
def compareTypes (a b : Ty) : Ordering := cmpHead a b (cmpDeep a b)

/-- Insert `x` after every element that is not greater than it (stable). -/
def insertSorted (x : Ty) : List Ty → List Ty
  | [] => [x]
  | y :: ys => if compareTypes x y = .lt then x :: y :: ys else y :: insertSorted x ys

/-- `sort.SliceStable(types, CompareTypes(i,j) < 0)` as a stable insertion sort. -/
def sortTypes : List Ty → List Ty
  | [] => []
  | x :: xs => insertSorted x (sortTypes xs)

/-- `Context.LookupTypeUnion`: members in canonical order, duplicates kept. -/
def lookupUnion (ts : List Ty) : Ty := .union (Tys.ofList (sortTypes ts))

/-! ### Value trees -/

mutual
/-- A value as a tree: self-describing at primitive leaves (id of the underlying primitive
    type), positional elsewhere.  `list` is an array or set body, `map` alternates keys and
    values. -/
inductive Val where
  | null
  | prim (id : Nat) (b : Bytes)
  | recd (vs : Vals)
  | list (vs : Vals)
  | map (vs : Vals)
  | union (tag : Nat) (v : Val)
inductive Vals where
  | nil
  | cons (v : Val) (rest : Vals)
end

deriving instance DecidableEq for Val, Vals
deriving instance Repr for Val, Vals
instance : Inhabited Val := ⟨.null⟩

namespace Vals
def toList : Vals → List Val
  | .nil => []
  | .cons v r => v :: r.toList
def ofList : List Val → Vals
  | [] => .nil
  | v :: r => .cons v (ofList r)
def length : Vals → Nat
  | .nil => 0
  | .cons _ r => r.length + 1
/-- `getNthFromContainer`: a missing element reads as null. -/
def getD : Vals → Nat → Val
  | .nil, _ => .null
  | .cons v _, 0 => v
  | .cons _ r, i + 1 => getD r i
end Vals

/-- One step of a leaf path. -/
inductive PEl where
  | fld (n : Name)
  | idx (i : Nat)
  | key (i : Nat)
  | mval (i : Nat)
  deriving DecidableEq, Repr

/-- A non-null primitive leaf: path, primitive type id (under all names), body bytes. -/
abbrev Leaf := List PEl × Nat × Bytes

def pre (e : PEl) (ls : List Leaf) : List Leaf := ls.map fun l => (e :: l.1, l.2)

mutual
/-- Non-null primitive leaves of a value of type `t`; unions and named types are
    transparent. -/
def leaves : Ty → Val → List Leaf
  | _, .null => []
  | _, .prim id b => [([], id, b)]
  | t, .recd vs => leavesRec t.fields vs
  | t, .list vs => leavesList (t.inner?.getD tyNull) 0 vs
  | t, .map vs =>
    match t.under with
    | .map k v => leavesMap k v 0 vs
    | _ => []
  | t, .union tag v => leaves ((t.members.get? tag).getD tyNull) v
def leavesRec : Fields → Vals → List Leaf
  | .cons n t fs, .cons v vs => pre (.fld n) (leaves t v) ++ leavesRec fs vs
  | _, _ => []
def leavesList : Ty → Nat → Vals → List Leaf
  | t, i, .cons v vs => pre (.idx i) (leaves t v) ++ leavesList t (i + 1) vs
  | _, _, .nil => []
def leavesMap : Ty → Ty → Nat → Vals → List Leaf
  | k, v, i, .cons x (.cons y r) => pre (.key i) (leaves k x) ++ pre (.mval i) (leaves v y) ++ leavesMap k v (i + 1) r
  | _, _, _, _ => []
end

mutual
/-- `v` is a valid value of type `t` (what `Value.Validate` checks, structurally). -/
def hasType : Val → Ty → Bool
  | .null, _ => true
  | .prim id _, t =>
    (t.under == .prim id && id != idNull) || (id == idEnum && t.isEnum) || (id == idError && t.isError)
  | .recd vs, t => t.isRecord && hasTypeRec vs t.fields
  | .list vs, t => match t.inner? with | some i => hasTypeAll vs i | none => false
  | .map vs, t => match t.under with | .map k v => hasTypeMap vs k v | _ => false
  | .union tag v, t =>
    t.isUnion && (match t.members.get? tag with | some m => hasType v m && v != .null | none => false)
def hasTypeRec : Vals → Fields → Bool
  | .nil, .nil => true
  | .cons v vs, .cons _ t fs => hasType v t && hasTypeRec vs fs
  | _, _ => false
def hasTypeAll : Vals → Ty → Bool
  | .nil, _ => true
  | .cons v vs, t => hasType v t && hasTypeAll vs t
def hasTypeMap : Vals → Ty → Ty → Bool
  | .nil, _, _ => true
  | .cons x (.cons y r), k, v => hasType x k && hasType y v && hasTypeMap r k v
  | _, _, _ => false
end

end Zed.Fuse
