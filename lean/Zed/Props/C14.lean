/-
  C14 — pool contents always equal the loaded values minus the deleted ones, in pool-key order.
  Property theorems only (model: Zed/Model/Lake*.lean; lemmas: Zed/Proofs/Lake*.lean).

  `refinement` is the core theorem: for every operation of C14 the contents of a branch after
  the step are what the reference `SpecStep` predicts from the contents before it;
  `contents_correct` is its corollary over every history (by induction), `history_invariant`
  shows that the id-freshness invariant the steps need is preserved by every operation.
-/
import Zed.Proofs.LakeSorted
import Zed.Proofs.LakeRefine
import Zed.Proofs.LakeSeek
import Zed.Proofs.LakeSlicer
namespace Zed.Props.C14
open Zed.Lake

variable {K V : Type} [DecidableEq V]

/-- **history invariant.**  For every history — of any length, of ANY operations (loads,
    deletes, delete-wheres, compactions, vector adds/deletes, vacuums, branch creations, merges,
    reverts, successful or failed) — from a state satisfying the invariant `Good` (object ids
    and file ids below the id counter, every object's `count` = length of its file; in
    particular from the empty pool, `Good.init`), the invariant holds again. -/
theorem history_invariant (cfg : Cfg K V) (s : State K V) (ops : List (Op V)) (g : Good s) :
    Good (run cfg s ops) := run_good cfg s ops g

/-- **refinement** (`abs (step s op) = specStep (abs s) op`), every operation of C14: load,
    delete by id, delete-where, compaction (with or without vectors), vector add / delete,
    vacuum, branch creation — on the branch itself or on any other branch.  If branch `b` is
    readable with contents `cs` (`State.contents`: the values held by the objects of its tip
    snapshot), then after the operation it is readable again and its contents are what the
    reference `SpecStep` says: a load adds exactly the loaded values (any threshold, any
    partition into objects), a delete removes exactly the values of the listed objects (ids in
    any order, repeated or not), a delete-where keeps exactly the values its complement filter
    `keep` holds of, everything else changes nothing.
    Side condition (`Op.okFor`): a vacuum is of the branch's own tip.  (Delete and the vector
    operations may list an id repeatedly: the code de-duplicates since f09056a37 / 3863440f6.) -/
theorem refinement (cfg : Cfg K V) (s s' : State K V) (op : Op V) (b t : Nat) (cs : List V)
    (g : Good s) (ha : apply cfg s op = .ok s') (h14 : op.isC14 = true) (hok : op.okFor t)
    (ht : s.tip b = some t) (hc : s.contents t = .ok cs) :
    ∃ t' cs', s'.tip b = some t' ∧ s'.contents t' = .ok cs' ∧ SpecStep s op b t cs cs' :=
  Zed.Lake.refinement cfg s s' op b t cs g ha h14 hok ht hc

/-- **contents_correct.**  For every history of C14 operations — any length, any mixture of
    successful and failed operations, on any branches — the branch stays readable and its
    contents are exactly what the reference predicts step by step (`SpecRun`): everything loaded
    minus everything deleted.  Corollary of `refinement` and `history_invariant` by induction. -/
theorem contents_correct (cfg : Cfg K V) (ops : List (Op V)) (s : State K V) (b t : Nat) (cs : List V)
    (g : Good s) (ht : s.tip b = some t) (hc : s.contents t = .ok cs) (hok : OkRun cfg s ops b) :
    ∃ t' cs', (run cfg s ops).tip b = some t' ∧ (run cfg s ops).contents t' = .ok cs' ∧
      SpecRun cfg s ops b cs cs' :=
  Zed.Lake.contents_correct cfg ops s b t cs g ht hc hok

omit [DecidableEq V] in
/-- **scan contents** (`contents_correct`, read side).  Whatever the object layout, the lister
    order and the partitioning, the unfiltered scan of a commit returns exactly the values held
    by the objects of its snapshot (as a multiset). -/
theorem scan_contents (cfg : Cfg K V) (s : State K V) (c : Nat) (snap : Snap K) (r : List V)
    (hs : snapAt s.commits c = .ok snap) (h : State.query cfg s c = .ok r) :
    r.Perm (snap.objs.flatMap (pay s.files)) := by
  unfold State.query at h
  simp only [hs] at h
  exact scanObjs_perm cfg s.files snap.objs r h

/-! ### the single steps, at snapshot level -/

/-- **load**: contents = previous contents ⊎ loaded values -/
theorem load_refines (cfg : Cfg K V) (s s' : State K V) (b : Nat) (vals : List V) (parts : List (List V))
    (h : load cfg s b vals parts = .ok s')
    (hfiles : ∀ f ∈ s.files, f.1 < s.nextObj) :
    ∃ t, s.tip b = some t ∧ ∀ snap, snapAt s.commits t = .ok snap → (∀ o ∈ snap.objs, o.id < s.nextObj) →
      ∃ snap', snapAt s'.commits (s.commits.length + 1) = .ok snap' ∧ snap'.vecs = snap.vecs ∧
        (snap'.objs.flatMap (pay s'.files)).Perm (snap.objs.flatMap (pay s.files) ++ vals) ∧
        ∀ o ∈ snap'.objs, o ∈ snap.objs ∨ (fileOf s'.files o.id).isSome = true :=
  Zed.Lake.load_refines cfg s s' b vals parts h hfiles

/-- **delete by id** (object-set refinement).  A successful `delete(ids)` — ids in any order,
    with or without repetitions (`Branch.Delete` de-duplicates the list since fix f09056a37) —
    yields a readable tip whose objects are exactly the previous ones minus `ids`. -/
theorem delete_exact (s s' : State K V) (b : Nat) (ids : List Nat)
    (h : delete s b ids = .ok s') :
    ∃ t snap snap', s.tip b = some t ∧ snapAt s.commits t = .ok snap ∧
      snapAt s'.commits (s.commits.length + 1) = .ok snap' ∧ snap'.vecs = snap.vecs ∧
      ∀ id, snap'.hasObj id = (snap.hasObj id && !ids.contains id) :=
  delete_exact_ s s' b ids h

/-- **compaction**: contents unchanged -/
theorem compact_refines (cfg : Cfg K V) (s s' : State K V) (b : Nat) (ids : List Nat) (vec : Bool)
    (parts : List (List V)) (h : compact cfg s b ids vec parts = .ok s')
    (hfiles : ∀ f ∈ s.files, f.1 < s.nextObj) :
    ∃ t, s.tip b = some t ∧ ∀ snap, snapAt s.commits t = .ok snap →
      (∀ o ∈ snap.objs, o.id < s.nextObj) → (∀ v ∈ snap.vecs, v < s.nextObj) →
      (snap.objs.map (·.id)).Nodup →
      ∃ snap', snapAt s'.commits (s.commits.length + 1) = .ok snap' ∧
        (snap'.objs.flatMap (pay s'.files)).Perm (snap.objs.flatMap (pay s.files)) ∧
        ∀ o ∈ snap'.objs, o ∈ snap.objs ∨ (fileOf s'.files o.id).isSome = true :=
  Zed.Lake.compact_refines cfg s s' b ids vec parts h hfiles

/-- **delete-where** (`deletewhere_exact`): contents = previous values for which the complement
    filter holds; vectors untouched -/
theorem deleteWhere_refines (cfg : Cfg K V) (s s' : State K V) (b : Nat) (keep : V → Bool)
    (parts : List (List V)) (g : Good s) (h : deleteWhere cfg s b keep parts = .ok s') :
    ∃ t, s.tip b = some t ∧ ∀ snap, snapAt s.commits t = .ok snap →
      ∃ snap', snapAt s'.commits (s.commits.length + 1) = .ok snap' ∧ snap'.vecs = snap.vecs ∧
        (snap'.objs.flatMap (pay s'.files)).Perm ((snap.objs.flatMap (pay s.files)).filter keep) ∧
        ∀ o ∈ snap'.objs, o ∈ snap.objs ∨ (fileOf s'.files o.id).isSome = true :=
  Zed.Lake.deleteWhere_refines cfg s s' b keep parts g h

omit [DecidableEq V] in
/-- **vacuum_safe**: vacuuming commit `c` removes no data object of `c`'s own snapshot -/
theorem vacuum_safe (s s' : State K V) (c : Nat) (snap : Snap K) (h : vacuum s c = .ok s')
    (hs : snapAt s.commits c = .ok snap) :
    s'.commits = s.commits ∧ ∀ o ∈ snap.objs, fileOf s'.files o.id = fileOf s.files o.id := by
  obtain ⟨hcm, ids, hv, hf⟩ := vacuum_spec s s' c h
  refine ⟨hcm, ?_⟩
  intro o ho
  rw [hf, fileOf_filter_id s.files (fun i => !ids.contains i)]
  have : ids.contains o.id = false := by
    unfold vacuumable at hv
    rw [hs] at hv
    simp only [Except.ok.injEq] at hv
    subst hv
    cases hcn : (List.filter (fun i => !snap.hasObj i) (addedIds (pathActions s.commits (List.drop 1 (pathAt s.commits c))))).contains o.id with
    | false => rfl
    | true =>
      have hm := List.contains_iff_mem.mp hcn
      have := (List.mem_filter.mp hm).2
      rw [hasObj_of_mem snap o ho] at this; cases this
  simp only [this, Bool.not_false, if_true]

omit [DecidableEq V] in
/-- **object_meta_correct.**  The metadata `data.Writer` records for an object equals that of
    the values it holds: `count` is their number, and — the values being in pool-key order —
    every value's key lies in `[min, max]` (both ascending and descending pools).
    Guard `cfg.mkey = cfg.key` (the key `DerefPath` finds is the key the comparator sorts by):
    false for pool key `this`, see finding C14:this-key. -/
theorem object_meta_correct (cfg : Cfg K V) (L : KeyLaws cfg) (hk : cfg.mkey = cfg.key)
    (id : Nat) (p : List V) (o : Obj K) (h : mkObj cfg id p = some o) (hs : isSorted cfg p = true) :
    o.id = id ∧ o.count = p.length ∧
      ∀ v ∈ p, cfg.kle o.min (cfg.key v) = true ∧ cfg.kle (cfg.key v) o.max = true := by
  refine ⟨mkObj_id cfg id p o h, ?_⟩
  unfold mkObj at h
  split at h
  · rename_i f l hf hl
    have hb := sorted_bounds cfg L p f l hs hf hl
    simp only [Option.some.injEq] at h
    cases hd : cfg.desc
    · simp only [hd, Bool.false_eq_true, if_false] at h
      subst h
      refine ⟨rfl, ?_⟩
      intro v hv
      have := hb v hv
      simp only [kvle, hd, Bool.false_eq_true, if_false] at this
      simpa [hk] using this
    · simp only [hd, if_true] at h
      subst h
      refine ⟨rfl, ?_⟩
      intro v hv
      have := hb v hv
      simp only [kvle, hd, if_true] at this
      simpa [hk] using ⟨this.2, this.1⟩
  · cases h

omit [DecidableEq V] in
/-- **scan_sorted.**  The unfiltered scan of any set of objects — any number, any overlaps, any
    partitioning by the slicer — is in pool-key order, ascending or descending, with null /
    missing keys as the largest key (that is the key order `kle`), provided every object holds
    key-sorted values within its `[min, max]` (`object_meta_correct`, `load_object_sorted`,
    `deleteWhere_objects_sorted`) and `min ≤ max`.  Proved through: `sortObjects`' `lessFunc` is
    the lexicographic order on (range start, range end), so the lister hands the objects over
    ordered by range start (`lister_fromSorted`); the slicer's partitions are then pairwise
    separated in pool order (`slicer_separated`); the merge of a partition is sorted
    (`scan_sorted_partial`).  Laws assumed of the key order: total preorder (`KeyTotal`,
    `OrderLaws`), byte equality of keys = equivalence in the order (`KeqLaw`).  The order among
    values of equal key is not fixed (finding C14:scan:tie-order). -/
theorem scan_sorted (cfg : Cfg K V) (L : OrderLaws cfg) (T : KeyTotal cfg) (hq : KeqLaw cfg)
    (files : List (Nat × List V)) (objs : List (Obj K)) (r : List V)
    (h : scanObjs cfg files objs = .ok r)
    (hwf : ∀ o ∈ objs, cfg.kle o.min o.max = true) (hobj : ∀ o ∈ objs, ObjFine cfg files o) :
    SortedK cfg r :=
  scanObjs_sorted cfg L T files objs r h (lister_fromSorted cfg T hq objs) hwf hobj

omit [DecidableEq V] in
/-- **seek_entries_cover.**  For the key-sorted value sequence `vals` of an object, any seek
    stride and any key sizes, the seek index `data.Writer` writes (`seekSegs`: each entry with the
    values it covers) partitions the object: the covered pieces, in order, are exactly `vals`;
    `val_off` / `val_cnt` chain from 0 without gaps, overlaps or empty entries; and the key of
    every covered value lies in the entry's `[min, max]` (ascending and descending pools).
    This is the hypothesis "seek-entry bounds bound the keys they cover" of C16's `seek_sound`.
    Guard `cfg.mkey = cfg.key` as for `object_meta_correct` (false for pool key `this`). -/
theorem seek_entries_cover (cfg : Cfg K V) (L : KeyLaws cfg) (hk : cfg.mkey = cfg.key) (stride : Nat)
    (kbytes : V → Nat) (vals : List V) (hs : isSorted cfg vals = true) :
    (seekSegs cfg stride kbytes vals).flatMap (·.2) = vals ∧
    OffsetsOk 0 (seekSegs cfg stride kbytes vals) ∧
    ∀ p ∈ seekSegs cfg stride kbytes vals, ∀ v ∈ p.2,
      cfg.kle p.1.min (cfg.key v) = true ∧ cfg.kle (cfg.key v) p.1.max = true :=
  seek_cover cfg L hk stride kbytes vals hs

omit [DecidableEq V] in
/-- **scan_sorted** (partial: one partition).  If every object of a partition holds its values
    in pool-key order, the merged scan of the partition is in pool-key order — ascending or
    descending, null/missing keys largest (that is the key order `kle`).  The order among
    values of equal key is NOT fixed by this (and is nondeterministic in the code: finding
    C14:scan:tie-order).  Across partitions the order follows from the slicer's separation of
    key ranges; that part is tied by correspondence only. -/
theorem scan_sorted_partial (cfg : Cfg K V) (L : OrderLaws cfg) (ls : List (List V))
    (h : ∀ l ∈ ls, SortedK cfg l) : SortedK cfg (mergeK cfg ls) := sortedK_mergeK cfg L ls h

/-- **delete-where rewrites into sorted objects.**  A delete-where is accepted by the model only
    if every object it wrote is non-empty and holds its values in pool-key order (and together
    they hold exactly the kept values): the survivors reach the rewriting `lake.Writer` one
    whole object after another — not in key order when the touched objects overlap — so the
    writer must sort each buffer (`load_object_sorted`).  The harness compares this step with
    the real code also with `compiler.Parallelism = 1`, where all objects go through one
    deleter thread. -/
theorem deleteWhere_objects_sorted (cfg : Cfg K V) (s s' : State K V) (b : Nat) (keep : V → Bool)
    (parts : List (List V)) (h : deleteWhere cfg s b keep parts = .ok s') :
    ∀ p ∈ parts, p ≠ [] ∧ isSorted cfg p = true := by
  have key : ∃ kept, validParts cfg kept parts = true := by
    unfold deleteWhere at h
    split at h
    · cases h
    · split at h
      · cases h
      · split at h
        · cases h
        · rename_i ids kept _
          split at h
          · cases h
          · split at h
            · cases h
            · rename_i hv
              exact ⟨kept, by simpa using hv⟩
  obtain ⟨kept, hv⟩ := key
  intro p hp
  unfold validParts at hv
  simp only [Bool.and_eq_true, List.all_eq_true] at hv
  have := hv.1 p hp
  exact ⟨by intro he; rw [he] at this; simp at this, this.2⟩

omit [DecidableEq V] in
/-- every object a load writes holds its values in pool-key order -/
theorem load_object_sorted (cfg : Cfg K V) (L : OrderLaws cfg) (buf : List V) :
    isSorted cfg (sortVals cfg buf) = true :=
  isSorted_of_sortedK cfg _ (sortedK_sortVals cfg L buf)

/-! negation witness for `lister_fromSorted` without `KeqLaw`: keys with empty bytes -/
private def kleOpt : Option Int → Option Int → Bool
  | _, none => true
  | none, some _ => false
  | some x, some y => decide (x ≤ y)

/-- a descending pool in which, as in zcode, the int64 0 and null are byte-equal -/
private def emptyBytesCfg : Cfg (Option Int) Nat :=
  { key := fun _ => none, mkey := fun _ => none, kle := kleOpt,
    keq := fun a b => a.getD 0 == b.getD 0, vle := Nat.ble, desc := true, thresh := 1, size := fun _ => 1 }

/-- **not_lister_fromSorted**: for the ranges [0,0] and [-1,null] of a descending pool `lessFunc`
    holds in both directions, and the stable sort leaves [0,0] in front of [-1,null] although
    null is the larger range start.  Replayed on the real code (witness:lister-empty-bytes). -/
theorem not_lister_fromSorted :
    let a : Obj (Option Int) := { id := 1, min := some 0, max := some 0, count := 1 }
    let b : Obj (Option Int) := { id := 2, min := some (-1), max := none, count := 2 }
    listerLess emptyBytesCfg a b = true ∧ listerLess emptyBytesCfg b a = true ∧
      lister emptyBytesCfg [b, a] = [a, b] ∧ ¬ fromLe emptyBytesCfg a b := by
  refine ⟨by decide, by decide, ?_, ?_⟩
  · simp [lister, List.mergeSort, List.merge]
    decide
  · simp [fromLe, emptyBytesCfg, kleOpt]

/-! negation witness for `object_meta_correct` without its guard: pool key `this` -/
private def thisCfg : Cfg (Option Nat) Nat :=
  { key := some, mkey := fun _ => none,
    kle := fun a b => match a, b with
      | _, none => true
      | none, some _ => false
      | some x, some y => Nat.ble x y,
    keq := (· == ·), vle := Nat.ble, desc := false, thresh := 4, size := fun _ => 1 }

/-- **not_object_meta_correct** (pool key `this`): the sort key path `this` is looked up as a
    field, so the recorded range is `[null, null]` and does not bound the values' keys.
    Replayed on the real code by the harness (witness:this-key). -/
theorem not_object_meta_correct :
    ∃ o, mkObj thisCfg 1 [1, 2] = some o ∧ isSorted thisCfg [1, 2] = true ∧
      thisCfg.kle o.min (thisCfg.key 1) = false := ⟨_, rfl, rfl, rfl⟩

/-! the former negation witness for the vector operations with a repeated id: since fix
    3863440f6 the model, like the code, de-duplicates -/
private def vecState : State Nat Nat :=
  { commits := [{ parent := 0, acts := [.add { id := 1, min := 1, max := 1, count := 1 }] }],
    branches := [(0, 1)], files := [(1, [1])], nextObj := 2 }

/-- `AddVectors(main, [1, 1])` is acknowledged and leaves `main` readable with one vector
    (replayed on the real code by the harness, witness:duplicate-vector-id) -/
example : ∃ s' snap, addVectors vecState 0 [1, 1] = .ok s' ∧ s'.tip 0 = some 2 ∧
    snapAt s'.commits 2 = .ok snap ∧ snap.vecs = [1] := ⟨_, _, rfl, rfl, rfl, rfl⟩

/-! the former negation witness (one object, `delete [1, 1]`): since fix f09056a37 the model,
    like the code, de-duplicates, and the branch stays readable -/
private def dupState : State Nat Nat :=
  { commits := [{ parent := 0, acts := [.add { id := 1, min := 1, max := 1, count := 1 }] }],
    branches := [(0, 1)], files := [(1, [1])], nextObj := 2 }

/-- `delete(main, [1, 1])` is acknowledged and leaves `main` readable and empty (replayed on the
    real code by the harness, witness:duplicate-id) -/
example : ∃ s' snap, delete dupState 0 [1, 1] = .ok s' ∧ s'.tip 0 = some 2 ∧
    snapAt s'.commits 2 = .ok snap ∧ snap.objs = [] := ⟨_, _, rfl, rfl, rfl, rfl⟩

/-- non-vacuity of `refinement` / `contents_correct`: a state satisfying the invariant with a
    readable branch, and a history satisfying the side conditions -/
example : Good dupState := by
  refine ⟨by decide, ?_⟩
  intro c hc
  simp only [dupState, List.mem_singleton] at hc
  subst hc
  intro a ha
  simp only [List.mem_singleton] at ha
  subst ha
  refine ⟨by decide, ?_⟩
  intro p hp
  have : fileOf dupState.files 1 = some [1] := rfl
  rw [show ({ id := 1, min := 1, max := 1, count := 1 } : Obj Nat).id = 1 from rfl] at hp
  simp only [dupState] at hp this
  rw [this] at hp
  cases hp; rfl
example : dupState.tip 0 = some 1 ∧ dupState.contents 1 = .ok [1] := ⟨rfl, rfl⟩
example (cfg : Cfg Nat Nat) : OkRun cfg dupState [.delete 0 [1, 1]] 0 := ⟨rfl, fun _ _ => trivial, trivial⟩

/-- non-vacuity of `load_refines`: the freshness hypotheses hold in `dupState` -/
example : (∀ f ∈ dupState.files, f.1 < dupState.nextObj) ∧
    ∃ snap, snapAt dupState.commits 1 = .ok snap ∧ ∀ o ∈ snap.objs, o.id < dupState.nextObj := by
  refine ⟨by decide, _, rfl, by decide⟩

private def natCfg : Cfg Nat Nat :=
  { key := id, mkey := id, kle := Nat.ble, keq := (· == ·), vle := Nat.ble, desc := false,
    thresh := 4, size := fun _ => 1 }

/-- non-vacuity of `KeyTotal` / `KeqLaw`: the natural numbers -/
example : KeyTotal natCfg ∧ KeqLaw natCfg := by
  refine ⟨⟨⟨by intro a; simp [natCfg], by intro a b c h1 h2; simp [natCfg] at *; omega⟩,
    by intro a b; simp [natCfg]; omega⟩, ?_⟩
  intro a b
  simp only [natCfg]
  by_cases h : a = b
  · subst h; simp
  · have : (a == b) = false := by simpa using h
    rw [this]
    cases h1 : Nat.ble a b <;> cases h2 : Nat.ble b a <;> simp_all [Nat.ble_eq]
    omega

/-- non-vacuity of `OrderLaws` / `KeyLaws`: the natural numbers -/
example : OrderLaws natCfg where
  refl := by intro a; simp [natCfg]
  trans := by intro a b c h1 h2; simp [natCfg] at *; omega
  vtrans := by intro a b c h1 h2; simp [natCfg] at *; omega
  vtotal := by intro a b; simp [natCfg]; omega
  refine1 := by intro a b h; simpa [kvle, natCfg] using h
  refine2 := by
    intro a b h
    have h0 : a.ble b = false := h
    have h' : ¬ a ≤ b := by
      intro hle
      rw [Nat.ble_eq_true_of_le hle] at h0; cases h0
    simp [kvle, natCfg]; omega

end Zed.Props.C14
