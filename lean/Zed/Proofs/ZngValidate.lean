import Zed.Model.ZngValidate
/-!
  `WellFormed t b`: the body `b` is structurally consistent with the type `t` — stated
  declaratively, not in terms of `walk` — and soundness of the model of `Value.Validate`
  against it for types without sets and enums (for those two the full statement is false of
  the current code: see `Props/C11`).
-/
namespace Zed.Zng

mutual
inductive WellFormed : ZTy → Option Bytes → Prop where
  | null (t : ZTy) : WellFormed t none
  | prim (id : Nat) (b : Bytes) : WellFormed (.prim id) (some b)
  | named (n : Bytes) {t : ZTy} {b : Option Bytes} : WellFormed t b → WellFormed (.named n t) b
  | error {t : ZTy} {b : Option Bytes} : WellFormed t b → WellFormed (.error t) b
  | enum (syms : List Bytes) (body : Bytes) :
      decodeCountedUvarint body < syms.length → WellFormed (.enum syms) (some body)
  | array {e : ZTy} {body : Bytes} {items : List (Option Bytes)} :
      ziterAll body = .ok items → (∀ it ∈ items, WellFormed e it) → WellFormed (.array e) (some body)
  | set {e : ZTy} {body : Bytes} {items : List (Option Bytes)} :
      ziterAll body = .ok items → (∀ it ∈ items, WellFormed e it) → checkSetFrom none body = .ok () →
      WellFormed (.set e) (some body)
  | map {k v : ZTy} {body : Bytes} {items : List (Option Bytes)} :
      ziterAll body = .ok items → PairsWF k v items → WellFormed (.map k v) (some body)
  | record {fs : ZFields} {body : Bytes} : FieldsWF fs body → WellFormed (.record fs) (some body)
  | union {ts : ZTys} {body r1 : Bytes} {tagB inner : Option Bytes} {tm : ZTy} :
      znext body = .ok (tagB, r1) → znext r1 = .ok (inner, []) →
      0 ≤ decodeCountedVarint (tagB.getD []) →
      ts.toList[(decodeCountedVarint (tagB.getD [])).toNat]? = some tm →
      WellFormed tm inner → WellFormed (.union ts) (some body)
/-- one well-formed item per field, in order (trailing items are not constrained) -/
inductive FieldsWF : ZFields → Bytes → Prop where
  | nil (body : Bytes) : FieldsWF .nil body
  | cons {n : Bytes} {t : ZTy} {r : ZFields} {body rest : Bytes} {item : Option Bytes} :
      znext body = .ok (item, rest) → WellFormed t item → FieldsWF r rest → FieldsWF (.cons n t r) body
/-- keys and values alternate -/
inductive PairsWF : ZTy → ZTy → List (Option Bytes) → Prop where
  | nil (k v : ZTy) : PairsWF k v []
  | cons {k v : ZTy} {a b : Option Bytes} {r : List (Option Bytes)} :
      WellFormed k a → WellFormed v b → PairsWF k v r → PairsWF k v (a :: b :: r)
end

/-- leaf types: primitives under names and error wrappers (any body is consistent with them) -/
def ZTy.leafy : ZTy → Bool
  | .prim _ => true
  | .named _ t => t.leafy
  | .error t => t.leafy
  | _ => false

/-! the guard: no enum components, and sets only of leaf types (`Validate` checks the order of a
    set's elements but never walks them) -/
mutual
def ZTy.plain : ZTy → Bool
  | .prim _ => true
  | .record fs => fs.plain
  | .array t => t.plain
  | .set e => e.leafy
  | .map k v => k.plain && v.plain
  | .union ts => ts.plain
  | .enum _ => false
  | .error t => t.plain
  | .named _ t => t.plain
def ZFields.plain : ZFields → Bool
  | .nil => true
  | .cons _ t r => t.plain && r.plain
def ZTys.plain : ZTys → Bool
  | .nil => true
  | .cons t r => t.plain && r.plain
end

theorem leafy_wf : ∀ (t : ZTy), t.leafy = true → ∀ b, WellFormed t b
  | .prim id, _, b => by cases b with
    | none => exact .null _
    | some b => exact .prim id b
  | .named n t, h, b => by simp only [ZTy.leafy] at h; exact .named n (leafy_wf t h b)
  | .error t, h, b => by simp only [ZTy.leafy] at h; exact .error (leafy_wf t h b)
  | .record _, h, _ => by simp [ZTy.leafy] at h
  | .array _, h, _ => by simp [ZTy.leafy] at h
  | .set _, h, _ => by simp [ZTy.leafy] at h
  | .map _ _, h, _ => by simp [ZTy.leafy] at h
  | .union _, h, _ => by simp [ZTy.leafy] at h
  | .enum _, h, _ => by simp [ZTy.leafy] at h

/-- `checkSet` walks the same items as a full iteration -/
theorem checkSet_iter : ∀ (n : Nat) (prev : Option Bytes) (body : Bytes), body.length ≤ n →
    checkSetFrom prev body = .ok () → ∃ items, ziterAll body = .ok items := by
  intro n
  induction n with
  | zero =>
    intro prev body hl _
    have : body = [] := List.eq_nil_of_length_eq_zero (by omega)
    subst this
    exact ⟨[], by rw [ziterAll]; rfl⟩
  | succ n ih =>
    intro prev body hl h
    rw [checkSetFrom] at h
    rw [ziterAll]
    split at h
    · rename_i he; simp only [he, if_true]; exact ⟨[], rfl⟩
    · rename_i he
      have he' : body.isEmpty = false := by simpa using he
      simp only [he', Bool.false_eq_true, if_false]
      split at h
      · cases h
      · rename_i v rest hn
        have hp := znext_progress body v rest hn
        simp only at h
        have hrec : ∃ p', checkSetFrom p' rest = .ok () := by
          split at h
          · split at h
            · cases h
            · split at h
              · cases h
              · exact ⟨_, h⟩
          · exact ⟨_, h⟩
        obtain ⟨p', hp'⟩ := hrec
        obtain ⟨items, hit⟩ := ih p' rest (by omega) hp'
        split
        · rename_i e he2; rw [hn] at he2; cases he2
        · rename_i v2 r2 he2
          rw [hn] at he2; cases he2
          rw [hit]; exact ⟨v :: items, rfl⟩

theorem walkItems_ok {f : Option Bytes → Except VErr Unit} : ∀ {l : List (Option Bytes)},
    walkItems f l = .ok () → ∀ x ∈ l, f x = .ok ()
  | [], _, x, hx => by cases hx
  | a :: r, h, x, hx => by
    simp only [walkItems] at h
    split at h
    · cases h
    · rename_i hfa
      rcases List.mem_cons.mp hx with rfl | hx
      · exact hfa
      · exact walkItems_ok h x hx

theorem walkPairs_ok {wk wv : Option Bytes → Except VErr Unit} {k v : ZTy}
    (hk : ∀ b, wk b = .ok () → WellFormed k b) (hv : ∀ b, wv b = .ok () → WellFormed v b) :
    ∀ (l : List (Option Bytes)), walkPairs wk wv l = .ok () → PairsWF k v l
  | [], _ => .nil k v
  | [a], h => by
    simp only [walkPairs] at h
    split at h <;> cases h
  | a :: b :: r, h => by
    simp only [walkPairs] at h
    split at h
    · cases h
    · rename_i ha
      split at h
      · cases h
      · rename_i hb
        exact .cons (hk a ha) (hv b hb) (walkPairs_ok hk hv r h)

mutual
theorem walk_sound : ∀ (t : ZTy) (b : Option Bytes), t.plain = true → walk t b = .ok () → WellFormed t b
  | .prim id, b, _, _ => by cases b with
    | none => exact .null _
    | some b => exact .prim id b
  | .named n t, b, hp, h => by
    simp only [ZTy.plain] at hp; simp only [walk] at h
    exact .named n (walk_sound t b hp h)
  | .error t, b, hp, h => by
    simp only [ZTy.plain] at hp; simp only [walk] at h
    exact .error (walk_sound t b hp h)
  | .enum _, _, hp, _ => by simp [ZTy.plain] at hp
  | .set e, b, hp, h => by
    simp only [ZTy.plain] at hp
    cases b with
    | none => exact .null _
    | some body =>
      simp only [walk] at h
      obtain ⟨items, hit⟩ := checkSet_iter body.length none body (Nat.le_refl _) h
      exact .set hit (fun it _ => leafy_wf e hp it) h
  | .record fs, b, hp, h => by
    simp only [ZTy.plain] at hp
    cases b with
    | none => exact .null _
    | some body =>
      simp only [walk] at h
      exact .record (walkFields_sound fs body hp h)
  | .array e, b, hp, h => by
    simp only [ZTy.plain] at hp
    cases b with
    | none => exact .null _
    | some body =>
      simp only [walk] at h
      split at h
      · cases h
      · rename_i items hit
        exact .array hit (fun it hm => walk_sound e it hp (walkItems_ok h it hm))
  | .map k v, b, hp, h => by
    simp only [ZTy.plain, Bool.and_eq_true] at hp
    cases b with
    | none => exact .null _
    | some body =>
      simp only [walk] at h
      split at h
      · cases h
      · rename_i items hit
        exact .map hit (walkPairs_ok (fun b hb => walk_sound k b hp.1 hb) (fun b hb => walk_sound v b hp.2 hb) items h)
  | .union ts, b, hp, h => by
    simp only [ZTy.plain] at hp
    cases b with
    | none => exact .null _
    | some body =>
      simp only [walk] at h
      split at h
      · cases h
      · split at h
        · cases h
        · rename_i tagB r1 h1
          split at h
          · split at h <;> cases h
          · rename_i inner r2 h2
            split at h
            · cases h
            · rename_i hrange
              split at h
              · cases h
              · rename_i hempty
                have hr2 : r2 = [] := by
                  cases r2 with
                  | nil => rfl
                  | cons x xs => simp [List.isEmpty] at hempty
                subst hr2
                have hge : 0 ≤ decodeCountedVarint (tagB.getD []) := by omega
                obtain ⟨tm, htm, hw⟩ := walkNth_sound ts _ inner hp h
                exact .union h1 h2 hge htm hw
theorem walkFields_sound : ∀ (fs : ZFields) (body : Bytes), fs.plain = true → walkFields fs body = .ok () → FieldsWF fs body
  | .nil, body, _, _ => .nil body
  | .cons n t r, body, hp, h => by
    simp only [ZFields.plain, Bool.and_eq_true] at hp
    simp only [walkFields] at h
    split at h
    · cases h
    · split at h
      · cases h
      · rename_i item rest hn
        split at h
        · cases h
        · rename_i hw
          exact .cons hn (walk_sound t item hp.1 hw) (walkFields_sound r rest hp.2 h)
theorem walkNth_sound : ∀ (ts : ZTys) (n : Nat) (b : Option Bytes), ts.plain = true → walkNth ts n b = .ok () →
    ∃ tm, ts.toList[n]? = some tm ∧ WellFormed tm b
  | .nil, _, _, _, h => by simp [walkNth] at h
  | .cons t _, 0, b, hp, h => by
    simp only [ZTys.plain, Bool.and_eq_true] at hp
    simp only [walkNth] at h
    exact ⟨t, by simp [ZTys.toList], walk_sound t b hp.1 h⟩
  | .cons _ r, n + 1, b, hp, h => by
    simp only [ZTys.plain, Bool.and_eq_true] at hp
    simp only [walkNth] at h
    obtain ⟨tm, h1, h2⟩ := walkNth_sound r n b hp.2 h
    exact ⟨tm, by simpa [ZTys.toList] using h1, h2⟩
end


/-! ### completeness: a well-formed value never reaches a panic site of Walk -/


theorem znext_nonempty {bs : Bytes} {v : Option Bytes} {r : Bytes} (h : znext bs = .ok (v, r)) : bs.isEmpty = false := by
  cases bs with
  | nil => simp [znext, readUvarint, readUvarintAux] at h
  | cons a b => rfl

theorem walkItems_of {f : Option Bytes → Except VErr Unit} : ∀ {l : List (Option Bytes)},
    (∀ x ∈ l, f x = .ok ()) → walkItems f l = .ok ()
  | [], _ => rfl
  | a :: r, h => by
    simp only [walkItems]
    rw [h a (by simp)]
    exact walkItems_of (fun x hx => h x (by simp [hx]))

theorem walk_null : ∀ (t : ZTy), walk t none = .ok ()
  | .prim _ => by simp [walk]
  | .named _ t => by simp only [walk]; exact walk_null t
  | .error t => by simp only [walk]; exact walk_null t
  | .enum _ => by simp [walk]
  | .set _ => by simp [walk]
  | .record _ => by simp [walk]
  | .array _ => by simp [walk]
  | .map _ _ => by simp [walk]
  | .union _ => by simp [walk]

theorem walkPairs_of {wk wv : Option Bytes → Except VErr Unit} {k v : ZTy}
    (hk : ∀ b, WellFormed k b → wk b = .ok ()) (hv : ∀ b, WellFormed v b → wv b = .ok ()) :
    ∀ (l : List (Option Bytes)), PairsWF k v l → walkPairs wk wv l = .ok ()
  | [], _ => rfl
  | [_], h => by cases h
  | a :: b :: r, h => by
    cases h with
    | cons ha hb hr =>
      simp only [walkPairs]
      rw [hk a ha]
      simp only
      rw [hv b hb]
      exact walkPairs_of hk hv r hr

mutual
theorem walk_complete : ∀ (t : ZTy) (b : Option Bytes), t.plain = true → WellFormed t b → walk t b = .ok ()
  | .prim id, b, _, _ => by simp [walk]
  | .named n t, b, hp, h => by
    simp only [ZTy.plain] at hp
    cases h with
    | null => exact walk_null _
    | named _ h => simp only [walk]; exact walk_complete t b hp h
  | .error t, b, hp, h => by
    simp only [ZTy.plain] at hp
    cases h with
    | null => exact walk_null _
    | error h => simp only [walk]; exact walk_complete t b hp h
  | .enum _, _, hp, _ => by simp [ZTy.plain] at hp
  | .set e, b, hp, h => by
    cases h with
    | null => exact walk_null _
    | set _ _ hcs => simp only [walk]; exact hcs
  | .record fs, b, hp, h => by
    simp only [ZTy.plain] at hp
    cases h with
    | null => exact walk_null _
    | record hf => simp only [walk]; exact walkFields_complete fs _ hp hf
  | .array e, b, hp, h => by
    simp only [ZTy.plain] at hp
    cases h with
    | null => exact walk_null _
    | array hit hall =>
      simp only [walk, hit]
      exact walkItems_of (fun x hx => walk_complete e x hp (hall x hx))
  | .map k v, b, hp, h => by
    simp only [ZTy.plain, Bool.and_eq_true] at hp
    cases h with
    | null => exact walk_null _
    | map hit hpairs =>
      simp only [walk, hit]
      exact walkPairs_of (fun b hb => walk_complete k b hp.1 hb) (fun b hb => walk_complete v b hp.2 hb) _ hpairs
  | .union ts, b, hp, h => by
    simp only [ZTy.plain] at hp
    cases h with
    | null => exact walk_null _
    | union h1 h2 hge hnth hw =>
      rename_i body r1 tagB inner tm
      have hlt : (decodeCountedVarint (tagB.getD [])).toNat < ts.toList.length := by
        have := List.getElem?_eq_some_iff.mp hnth; exact this.1
      have hrange : ¬ (decodeCountedVarint (tagB.getD []) < 0 ∨ decodeCountedVarint (tagB.getD []) ≥ Int.ofNat ts.toList.length) := by
        simp only [Int.ofNat_eq_natCast]; omega
      simp only [walk, znext_nonempty h1, Bool.false_eq_true, if_false, h1, h2, hrange, List.isEmpty_nil, Bool.not_true]
      exact walkNth_complete ts _ inner tm hp hnth hw
theorem walkFields_complete : ∀ (fs : ZFields) (body : Bytes), fs.plain = true → FieldsWF fs body → walkFields fs body = .ok ()
  | .nil, _, _, _ => rfl
  | .cons n t r, body, hp, h => by
    simp only [ZFields.plain, Bool.and_eq_true] at hp
    cases h with
    | cons hn hw hr =>
      simp only [walkFields, znext_nonempty hn, Bool.false_eq_true, if_false, hn]
      rw [walk_complete t _ hp.1 hw]
      exact walkFields_complete r _ hp.2 hr
theorem walkNth_complete : ∀ (ts : ZTys) (n : Nat) (b : Option Bytes) (tm : ZTy), ts.plain = true →
    ts.toList[n]? = some tm → WellFormed tm b → walkNth ts n b = .ok ()
  | .nil, _, _, _, _, h, _ => by simp [ZTys.toList] at h
  | .cons t _, 0, b, tm, hp, h, hw => by
    simp only [ZTys.plain, Bool.and_eq_true] at hp
    simp only [ZTys.toList, List.getElem?_cons_zero, Option.some.injEq] at h
    subst h
    simp only [walkNth]; exact walk_complete t b hp.1 hw
  | .cons _ r, n + 1, b, tm, hp, h, hw => by
    simp only [ZTys.plain, Bool.and_eq_true] at hp
    simp only [ZTys.toList, List.getElem?_cons_succ] at h
    simp only [walkNth]; exact walkNth_complete r n b tm hp.2 h hw
end
end Zed.Zng
