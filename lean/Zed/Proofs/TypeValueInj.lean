import Zed.Proofs.Uvarint
namespace Zed
open Zcode List Generated.C05

theorem uvarint_prefix_free (n m : Nat) (r r' : Bytes) (hn : n < 2 ^ 63) (hm : m < 2 ^ 63)
    (h : uvarint n ++ r = uvarint m ++ r') : n = m ∧ r = r' := by
  have h1 := readUvarint_uvarint n r hn
  rw [h, readUvarint_uvarint m r' hm] at h1
  simp only [Option.some.injEq, Prod.mk.injEq] at h1
  exact ⟨h1.1.symm, h1.2.symm⟩

theorem encodeName_prefix_free (a b : Name) (r r' : Bytes) (ha : a.length < 2 ^ 63) (hb : b.length < 2 ^ 63)
    (h : encodeName a ++ r = encodeName b ++ r') : a = b ∧ r = r' := by
  have h1 := decodeName_encodeName a r ha
  rw [h, decodeName_encodeName b r' hb] at h1
  simp only [Option.some.injEq, Prod.mk.injEq] at h1
  exact ⟨h1.1.symm, h1.2.symm⟩

theorem nameOk_iff (n : Name) : Ctx.nameOk n = true ↔ n.length < 2 ^ 63 := by simp [Ctx.nameOk]

theorem encNames_prefix_free : (a b : List Name) → (r r' : Bytes) → a.length = b.length →
    a.all Ctx.nameOk = true → b.all Ctx.nameOk = true → encNames a ++ r = encNames b ++ r' → a = b ∧ r = r'
  | [], [], r, r', _, _, _, h => ⟨rfl, by simpa [encNames] using h⟩
  | [], _ :: _, _, _, hl, _, _, _ => by simp at hl
  | _ :: _, [], _, _, hl, _, _, _ => by simp at hl
  | x :: xs, y :: ys, r, r', hl, ha, hb, h => by
    simp only [all_cons, Bool.and_eq_true] at ha hb
    simp only [encNames, append_assoc] at h
    obtain ⟨e1, h2⟩ := encodeName_prefix_free x y _ _ ((nameOk_iff x).mp ha.1) ((nameOk_iff y).mp hb.1) h
    obtain ⟨e2, e3⟩ := encNames_prefix_free xs ys r r' (by simpa using hl) ha.2 hb.2 h2
    exact ⟨by rw [e1, e2], e3⟩

theorem byteOf_inj (i j : Nat) (hi : i < 256) (hj : j < 256) (h : byteOf i = byteOf j) : i = j := by
  have := congrArg UInt8.toNat h
  simpa [byteOf, UInt8.toNat_ofNat, Nat.mod_eq_of_lt hi, Nat.mod_eq_of_lt hj] using this

theorem prim_wf_lt {id : Nat} (h : (Ty.prim id).wf = true) : id < 30 := by
  simp only [Ty.wf, Ctx.primitiveByID?, beq_iff_eq] at h
  split at h
  · rename_i hl; simpa [idTypeComplex] using hl
  · simp at h

@[simp] theorem tag_record : byteOf tvRecord = 30 := by decide
@[simp] theorem tag_array : byteOf tvArray = 31 := by decide
@[simp] theorem tag_set : byteOf tvSet = 32 := by decide
@[simp] theorem tag_map : byteOf tvMap = 33 := by decide
@[simp] theorem tag_union : byteOf tvUnion = 34 := by decide
@[simp] theorem tag_enum : byteOf tvEnum = 35 := by decide
@[simp] theorem tag_error : byteOf tvError = 36 := by decide
@[simp] theorem tag_namedef : byteOf tvNameDef = 37 := by decide
@[simp] theorem tag_nameref : byteOf tvNameRef = 38 := by decide

theorem prim_tag_ne (id : Nat) (h : id < 30) (k : Nat) (hk : 30 ≤ k) (hk2 : k < 256) : byteOf id ≠ byteOf k := by
  intro e; have := byteOf_inj id k (by omega) hk2 e; omega

end Zed
namespace Zed
open Zcode List Generated.C05

/-- the value of the first byte of a serialized type -/
def tagOf (t : Ty) (d : EncDefs) : Nat :=
  match t with
  | .prim id => id
  | .record _ => tvRecord
  | .array _ => tvArray
  | .set _ => tvSet
  | .map _ _ => tvMap
  | .union _ => tvUnion
  | .enum _ => tvEnum
  | .error _ => tvError
  | .named n x => if d.lookup n = some x then tvNameRef else tvNameDef

theorem encTy_head (t : Ty) (d : EncDefs) : ∃ body, (encTy t d).1 = byteOf (tagOf t d) :: body := by
  cases t <;> simp only [encTy, tagOf] <;> try exact ⟨_, rfl⟩
  split <;> exact ⟨_, rfl⟩

theorem tagOf_lt (t : Ty) (d : EncDefs) (w : t.wf = true) : tagOf t d < 256 := by
  cases t <;> simp only [tagOf] <;> try decide
  · have := prim_wf_lt w; omega
  · split <;> decide

theorem tag_eq_of_enc_eq (t1 t2 : Ty) (d : EncDefs) (r1 r2 : Bytes) (w1 : t1.wf = true) (w2 : t2.wf = true)
    (h : (encTy t1 d).1 ++ r1 = (encTy t2 d).1 ++ r2) : tagOf t1 d = tagOf t2 d := by
  obtain ⟨b1, e1⟩ := encTy_head t1 d
  obtain ⟨b2, e2⟩ := encTy_head t2 d
  rw [e1, e2] at h
  simp only [cons_append, cons.injEq] at h
  exact byteOf_inj _ _ (tagOf_lt t1 d w1) (tagOf_lt t2 d w2) h.1

end Zed
namespace Zed
open Zcode List Generated.C05

theorem Fields.length_lt {fs : Fields} (h : fs.length ≤ maxRecordFields) : fs.length < 2 ^ 63 := by
  have : maxRecordFields < 2 ^ 63 := by decide
  omega
theorem Tys.length_lt {ts : Tys} (h : ts.length ≤ maxUnionTypes) : ts.length < 2 ^ 63 := by
  have : maxUnionTypes < 2 ^ 63 := by decide
  omega
theorem syms_length_lt {s : List Name} (h : s.length ≤ maxEnumSymbols) : s.length < 2 ^ 63 := by
  have : maxEnumSymbols < 2 ^ 63 := by decide
  omega

mutual
theorem encTy_inj : (t1 t2 : Ty) → (d : EncDefs) → (r1 r2 : Bytes) → t1.wf = true → t2.wf = true →
    (encTy t1 d).1 ++ r1 = (encTy t2 d).1 ++ r2 → t1 = t2 ∧ r1 = r2
  | .prim i, t2, d, r1, r2, w1, w2, h => by
    have ht := tag_eq_of_enc_eq _ t2 d r1 r2 w1 w2 h
    have hi := prim_wf_lt w1
    cases t2 <;> simp only [tagOf] at ht <;> try (exfalso; revert ht; first | (split <;> (intro e; rw [e] at hi; revert hi; decide)) | (intro e; rw [e] at hi; revert hi; decide))
    subst ht
    simp only [encTy, cons_append, nil_append, cons.injEq, true_and] at h
    exact ⟨rfl, h⟩
  | .array x, t2, d, r1, r2, w1, w2, h => by
    have ht := tag_eq_of_enc_eq _ t2 d r1 r2 w1 w2 h
    cases t2 <;> simp only [tagOf] at ht <;> try (exfalso; revert ht; first | (split <;> decide) | decide | (intro e; have := prim_wf_lt w2; rw [← e] at this; revert this; decide))
    rename_i y
    simp only [encTy, cons_append, cons.injEq, true_and] at h
    simp only [Ty.wf] at w1 w2
    obtain ⟨e, hr⟩ := encTy_inj x y d r1 r2 w1 w2 h
    exact ⟨by rw [e], hr⟩
  | .set x, t2, d, r1, r2, w1, w2, h => by
    have ht := tag_eq_of_enc_eq _ t2 d r1 r2 w1 w2 h
    cases t2 <;> simp only [tagOf] at ht <;> try (exfalso; revert ht; first | (split <;> decide) | decide | (intro e; have := prim_wf_lt w2; rw [← e] at this; revert this; decide))
    rename_i y
    simp only [encTy, cons_append, cons.injEq, true_and] at h
    simp only [Ty.wf] at w1 w2
    obtain ⟨e, hr⟩ := encTy_inj x y d r1 r2 w1 w2 h
    exact ⟨by rw [e], hr⟩
  | .error x, t2, d, r1, r2, w1, w2, h => by
    have ht := tag_eq_of_enc_eq _ t2 d r1 r2 w1 w2 h
    cases t2 <;> simp only [tagOf] at ht <;> try (exfalso; revert ht; first | (split <;> decide) | decide | (intro e; have := prim_wf_lt w2; rw [← e] at this; revert this; decide))
    rename_i y
    simp only [encTy, cons_append, cons.injEq, true_and] at h
    simp only [Ty.wf] at w1 w2
    obtain ⟨e, hr⟩ := encTy_inj x y d r1 r2 w1 w2 h
    exact ⟨by rw [e], hr⟩
  | .map k v, t2, d, r1, r2, w1, w2, h => by
    have ht := tag_eq_of_enc_eq _ t2 d r1 r2 w1 w2 h
    cases t2 <;> simp only [tagOf] at ht <;> try (exfalso; revert ht; first | (split <;> decide) | decide | (intro e; have := prim_wf_lt w2; rw [← e] at this; revert this; decide))
    rename_i k' v'
    simp only [encTy, cons_append, cons.injEq, true_and, append_assoc] at h
    simp only [Ty.wf, Bool.and_eq_true] at w1 w2
    obtain ⟨e, hr⟩ := encTy_inj k k' d _ _ w1.1 w2.1 h
    subst e
    obtain ⟨e2, hr2⟩ := encTy_inj v v' _ r1 r2 w1.2 w2.2 hr
    exact ⟨by rw [e2], hr2⟩
  | .enum s, t2, d, r1, r2, w1, w2, h => by
    have ht := tag_eq_of_enc_eq _ t2 d r1 r2 w1 w2 h
    cases t2 <;> simp only [tagOf] at ht <;> try (exfalso; revert ht; first | (split <;> decide) | decide | (intro e; have := prim_wf_lt w2; rw [← e] at this; revert this; decide))
    rename_i s'
    simp only [encTy, cons_append, cons.injEq, true_and, append_assoc] at h
    simp only [Ty.wf, Bool.and_eq_true, decide_eq_true_eq] at w1 w2
    obtain ⟨e, hr⟩ := uvarint_prefix_free _ _ _ _ (syms_length_lt w1.2) (syms_length_lt w2.2) h
    obtain ⟨e2, hr2⟩ := encNames_prefix_free s s' r1 r2 e w1.1 w2.1 hr
    exact ⟨by rw [e2], hr2⟩
  | .record fs, t2, d, r1, r2, w1, w2, h => by
    have ht := tag_eq_of_enc_eq _ t2 d r1 r2 w1 w2 h
    cases t2 <;> simp only [tagOf] at ht <;> try (exfalso; revert ht; first | (split <;> decide) | decide | (intro e; have := prim_wf_lt w2; rw [← e] at this; revert this; decide))
    rename_i gs
    simp only [encTy, cons_append, cons.injEq, true_and, append_assoc] at h
    simp only [Ty.wf, Bool.and_eq_true, decide_eq_true_eq] at w1 w2
    obtain ⟨e, hr⟩ := uvarint_prefix_free _ _ _ _ (Fields.length_lt w1.2) (Fields.length_lt w2.2) h
    obtain ⟨e2, hr2⟩ := encFields_inj fs gs d r1 r2 w1.1.1 w2.1.1 e hr
    exact ⟨by rw [e2], hr2⟩
  | .union ts, t2, d, r1, r2, w1, w2, h => by
    have ht := tag_eq_of_enc_eq _ t2 d r1 r2 w1 w2 h
    cases t2 <;> simp only [tagOf] at ht <;> try (exfalso; revert ht; first | (split <;> decide) | decide | (intro e; have := prim_wf_lt w2; rw [← e] at this; revert this; decide))
    rename_i us
    simp only [encTy, cons_append, cons.injEq, true_and, append_assoc] at h
    simp only [Ty.wf, Bool.and_eq_true, decide_eq_true_eq] at w1 w2
    obtain ⟨e, hr⟩ := uvarint_prefix_free _ _ _ _ (Tys.length_lt w1.1.2) (Tys.length_lt w2.1.2) h
    obtain ⟨e2, hr2⟩ := encTys_inj ts us d r1 r2 w1.1.1 w2.1.1 e hr
    exact ⟨by rw [e2], hr2⟩
  | .named n x, t2, d, r1, r2, w1, w2, h => by
    have ht := tag_eq_of_enc_eq _ t2 d r1 r2 w1 w2 h
    cases t2 <;> simp only [tagOf] at ht <;> try (exfalso; revert ht; first | (split <;> decide) | decide | (split <;> (intro e; have := prim_wf_lt w2; rw [← e] at this; revert this; decide)))
    rename_i m y
    simp only [Ty.wf, Bool.and_eq_true] at w1 w2
    have hn := (nameOk_iff n).mp w1.1.2
    have hm := (nameOk_iff m).mp w2.1.2
    by_cases c1 : d.lookup n = some x <;> by_cases c2 : d.lookup m = some y
    · simp only [encTy, c1, c2, if_true, cons_append, cons.injEq, true_and] at h
      obtain ⟨e, hr⟩ := encodeName_prefix_free n m r1 r2 hn hm h
      subst e
      rw [c1] at c2
      exact ⟨by rw [Option.some.inj c2], hr⟩
    · simp only [c1, c2, if_true, if_false] at ht; exact absurd ht (by decide)
    · simp only [c1, c2, if_true, if_false] at ht; exact absurd ht (by decide)
    · simp only [encTy, c1, c2, if_false, cons_append, cons.injEq, true_and, append_assoc] at h
      obtain ⟨e, hr⟩ := encodeName_prefix_free n m _ _ hn hm h
      subst e
      obtain ⟨e2, hr2⟩ := encTy_inj x y d r1 r2 w1.2 w2.2 hr
      exact ⟨by rw [e2], hr2⟩
theorem encFields_inj : (f1 f2 : Fields) → (d : EncDefs) → (r1 r2 : Bytes) → f1.wf = true → f2.wf = true →
    f1.length = f2.length → (encFields f1 d).1 ++ r1 = (encFields f2 d).1 ++ r2 → f1 = f2 ∧ r1 = r2
  | .nil, .nil, _, r1, r2, _, _, _, h => ⟨rfl, by simpa [encFields] using h⟩
  | .nil, .cons _ _ _, _, _, _, _, _, hl, _ => by simp [Fields.length] at hl
  | .cons _ _ _, .nil, _, _, _, _, _, hl, _ => by simp [Fields.length] at hl
  | .cons n x r, .cons m y s, d, r1, r2, w1, w2, hl, h => by
    simp only [Fields.wf, Bool.and_eq_true] at w1 w2
    simp only [Fields.length, Nat.add_right_cancel_iff] at hl
    simp only [encFields, append_assoc] at h
    obtain ⟨e, hr⟩ := encodeName_prefix_free n m _ _ ((nameOk_iff n).mp w1.1.1) ((nameOk_iff m).mp w2.1.1) h
    subst e
    obtain ⟨e2, hr2⟩ := encTy_inj x y d _ _ w1.1.2 w2.1.2 hr
    subst e2
    obtain ⟨e3, hr3⟩ := encFields_inj r s _ r1 r2 w1.2 w2.2 hl hr2
    exact ⟨by rw [e3], hr3⟩
theorem encTys_inj : (f1 f2 : Tys) → (d : EncDefs) → (r1 r2 : Bytes) → f1.wf = true → f2.wf = true →
    f1.length = f2.length → (encTys f1 d).1 ++ r1 = (encTys f2 d).1 ++ r2 → f1 = f2 ∧ r1 = r2
  | .nil, .nil, _, r1, r2, _, _, _, h => ⟨rfl, by simpa [encTys] using h⟩
  | .nil, .cons _ _, _, _, _, _, _, hl, _ => by simp [Tys.length] at hl
  | .cons _ _, .nil, _, _, _, _, _, hl, _ => by simp [Tys.length] at hl
  | .cons x r, .cons y s, d, r1, r2, w1, w2, hl, h => by
    simp only [Tys.wf, Bool.and_eq_true] at w1 w2
    simp only [Tys.length, Nat.add_right_cancel_iff] at hl
    simp only [encTys, append_assoc] at h
    obtain ⟨e2, hr2⟩ := encTy_inj x y d _ _ w1.1 w2.1 h
    subst e2
    obtain ⟨e3, hr3⟩ := encTys_inj r s _ r1 r2 w1.2 w2.2 hl hr2
    exact ⟨by rw [e3], hr3⟩
end

/-- the serialized type value determines the (well-formed) type -/
theorem encodeTV_injective (t1 t2 : Ty) (w1 : t1.wf = true) (w2 : t2.wf = true)
    (h : encodeTV t1 = encodeTV t2) : t1 = t2 := by
  have := encTy_inj t1 t2 [] [] [] w1 w2 (by simpa [encodeTV] using h)
  exact this.1

end Zed
