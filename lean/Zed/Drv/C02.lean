import Zed.Model.Sexp
import Zed.Model.ZsonFormat
import Zed.Model.ZsonAnalyze
import Zed.Model.ZsonQuote
import Zed.Model.ZsonJson
import Zed.Model.ZsonGuard
/-!
  Driver glue for C02.

  `(C02 fmt <scope> <persist> (T V) …)`    → `(ast …)`            scope = record | format; persist = nopersist | (persist hexname…)
  `(C02 analyze <scope> ast …)`            → `((ok T V)|(err e) …)` scope = stream | value
  `(C02 analyzeil (r ast) …)`              → like analyze, reader r ∈ ℕ has its own name table, all share one context
  `(C02 rt <scope> <persist> (T V) …)`     → `(ok|changed|(err e) …)` model round trip through a stream reader
  `(C02 guard (T V))`                      → the theorem's guard: plain=b wfTy=b wfVal=b bareEmpty=b errOK=b
  `(C02 guardnamed (T V))`                 → 1 | 0: the guard of zson_roundtrip_value_named_top_partial (fresh formatter)
  `(C02 guardnested ((hexname T) …) (T V) …)` → 1 | 0: the guard of zson_roundtrip_stream_nested_partial for the binding table
  `(C02 guardstream (T V) …)`              → 1 | 0: the guard of zson_roundtrip_stream_partial
  `(C02 fmttype T)`                        → type ast
  `(C02 rttype T)`                         → ok | changed | (err e)
  `(C02 quote <kind> <letters-hex> hex)`   → hex of the token; kind = string | name | tname | tnameRaw | enumval;
                                             letters = the non-ASCII characters of the input that unicode.IsLetter accepts
  `(C02 unquote <kind> <letters-hex> hex)` → `(ok hex rest-hex)` | err
  `(C02 json J)`                           → `((T V) (T V))`: the JSON reader's value and the ZSON reading of the same document

  Types:  (prim N) (record (hex T)…) (array T) (set T) (map K V) (union T…) (enum hex…) (error T) (named hex T)
  Values: null (p hex) (rec V…) (arr V…) (set V…) (map (K V)…) (u tag V) (enum sel) (tv T) (err V) (nm V)
-/
namespace Zed.Drv.C02
open Zed Zed.Zson

def hexA (b : List UInt8) : String := Sexp.hexOfBytes b

mutual
partial def decTy : Sexp → Option Ty
  | .list [.atom "prim", .atom n] => do pure (.prim (← n.toNat?))
  | .list (.atom "record" :: fs) => do pure (.record (← decFields fs))
  | .list [.atom "array", t] => do pure (.array (← decTy t))
  | .list [.atom "set", t] => do pure (.set (← decTy t))
  | .list [.atom "map", k, v] => do pure (.map (← decTy k) (← decTy v))
  | .list (.atom "union" :: ts) => do pure (.union (Tys.ofList (← ts.mapM decTy)))
  | .list (.atom "enum" :: ss) => do
    pure (.enum (← ss.mapM fun | .atom s => Sexp.bytesOfHex s | _ => none))
  | .list [.atom "error", t] => do pure (.error (← decTy t))
  | .list [.atom "named", .atom n, t] => do pure (.named (← Sexp.bytesOfHex n) (← decTy t))
  | _ => none
partial def decFields : List Sexp → Option Fields
  | [] => some .nil
  | .list [.atom n, t] :: r => do pure (.cons (← Sexp.bytesOfHex n) (← decTy t) (← decFields r))
  | _ => none
end

mutual
partial def decVal : Sexp → Option Val
  | .atom "null" => some .null
  | .list [.atom "p", .atom h] => do pure (.prim (← Sexp.bytesOfHex h))
  | .list (.atom "rec" :: vs) => do pure (.record (Vals.ofList (← vs.mapM decVal)))
  | .list (.atom "arr" :: vs) => do pure (.array (Vals.ofList (← vs.mapM decVal)))
  | .list (.atom "set" :: vs) => do pure (.set (Vals.ofList (← vs.mapM decVal)))
  | .list (.atom "map" :: es) => do pure (.map (← decEntries es))
  | .list [.atom "u", .atom tag, v] => do pure (.union (← tag.toNat?) (← decVal v))
  | .list [.atom "enum", .atom sel] => do pure (.enum (← sel.toNat?))
  | .list [.atom "tv", t] => do pure (.typeval (← decTy t))
  | .list [.atom "err", v] => do pure (.error (← decVal v))
  | .list [.atom "nm", v] => do pure (.named (← decVal v))
  | _ => none
partial def decEntries : List Sexp → Option Entries
  | [] => some .nil
  | .list [k, v] :: r => do pure (.cons (← decVal k) (← decVal v) (← decEntries r))
  | _ => none
end

/-! rendering of abstract syntax -/
mutual
partial def showATy : ATy → String
  | .prim n => s!"(p {hexA n})"
  | .record fs => "(r" ++ showAFields fs ++ ")"
  | .array t => s!"(a {showATy t})"
  | .set t => s!"(s {showATy t})"
  | .map k v => s!"(m {showATy k} {showATy v})"
  | .union ts => "(u" ++ showATys ts ++ ")"
  | .enum ss => "(e" ++ String.join (ss.map fun s => " " ++ hexA s) ++ ")"
  | .error t => s!"(x {showATy t})"
  | .name n => s!"(n {hexA n})"
  | .def_ n t => s!"(d {hexA n} {showATy t})"
partial def showAFields : AFields → String
  | .nil => ""
  | .cons n t r => s!" ({hexA n} {showATy t})" ++ showAFields r
partial def showATys : ATys → String
  | .nil => ""
  | .cons t r => " " ++ showATy t ++ showATys r
end

mutual
partial def showAVal : AVal → String
  | .implied a => s!"(I {showAAny a})"
  | .def_ a n => s!"(D {showAAny a} {hexA n})"
  | .cast v t => s!"(C {showAVal v} {showATy t})"
partial def showAAny : AAny → String
  | .nil => "nil"
  | .prim ty text => s!"(P {hexA ty} {hexA text})"
  | .record fs => "(R" ++ showAVFields fs ++ ")"
  | .array vs => "(A" ++ showAVals vs ++ ")"
  | .set vs => "(S" ++ showAVals vs ++ ")"
  | .map es => "(M" ++ showAEntries es ++ ")"
  | .enum n => s!"(E {hexA n})"
  | .typeval t => s!"(T {showATy t})"
  | .error v => s!"(X {showAVal v})"
partial def showAVFields : AVFields → String
  | .nil => ""
  | .cons n v r => s!" ({hexA n} {showAVal v})" ++ showAVFields r
partial def showAVals : AVals → String
  | .nil => ""
  | .cons v r => " " ++ showAVal v ++ showAVals r
partial def showAEntries : AEntries → String
  | .nil => ""
  | .cons k v r => s!" ({showAVal k} {showAVal v})" ++ showAEntries r
end

/-! parsing of abstract syntax (the harness sends the real parser's AST) -/
mutual
partial def decATy : Sexp → Option ATy
  | .list [.atom "p", .atom n] => do pure (.prim (← Sexp.bytesOfHex n))
  | .list (.atom "r" :: fs) => do pure (.record (← decAFields fs))
  | .list [.atom "a", t] => do pure (.array (← decATy t))
  | .list [.atom "s", t] => do pure (.set (← decATy t))
  | .list [.atom "m", k, v] => do pure (.map (← decATy k) (← decATy v))
  | .list (.atom "u" :: ts) => do pure (.union (← decATys ts))
  | .list (.atom "e" :: ss) => do pure (.enum (← ss.mapM fun | .atom s => Sexp.bytesOfHex s | _ => none))
  | .list [.atom "x", t] => do pure (.error (← decATy t))
  | .list [.atom "n", .atom n] => do pure (.name (← Sexp.bytesOfHex n))
  | .list [.atom "d", .atom n, t] => do pure (.def_ (← Sexp.bytesOfHex n) (← decATy t))
  | _ => none
partial def decAFields : List Sexp → Option AFields
  | [] => some .nil
  | .list [.atom n, t] :: r => do pure (.cons (← Sexp.bytesOfHex n) (← decATy t) (← decAFields r))
  | _ => none
partial def decATys : List Sexp → Option ATys
  | [] => some .nil
  | t :: r => do pure (.cons (← decATy t) (← decATys r))
end

mutual
partial def decAVal : Sexp → Option AVal
  | .list [.atom "I", a] => do pure (.implied (← decAAny a))
  | .list [.atom "D", a, .atom n] => do pure (.def_ (← decAAny a) (← Sexp.bytesOfHex n))
  | .list [.atom "C", v, t] => do pure (.cast (← decAVal v) (← decATy t))
  | _ => none
partial def decAAny : Sexp → Option AAny
  | .atom "nil" => some .nil
  | .list [.atom "P", .atom ty, .atom text] => do pure (.prim (← Sexp.bytesOfHex ty) (← Sexp.bytesOfHex text))
  | .list (.atom "R" :: fs) => do pure (.record (← decAVFields fs))
  | .list (.atom "A" :: vs) => do pure (.array (← decAVals vs))
  | .list (.atom "S" :: vs) => do pure (.set (← decAVals vs))
  | .list (.atom "M" :: es) => do pure (.map (← decAEntries es))
  | .list [.atom "E", .atom n] => do pure (.enum (← Sexp.bytesOfHex n))
  | .list [.atom "T", t] => do pure (.typeval (← decATy t))
  | .list [.atom "X", v] => do pure (.error (← decAVal v))
  | _ => none
partial def decAVFields : List Sexp → Option AVFields
  | [] => some .nil
  | .list [.atom n, v] :: r => do pure (.cons (← Sexp.bytesOfHex n) (← decAVal v) (← decAVFields r))
  | _ => none
partial def decAVals : List Sexp → Option AVals
  | [] => some .nil
  | v :: r => do pure (.cons (← decAVal v) (← decAVals r))
partial def decAEntries : List Sexp → Option AEntries
  | [] => some .nil
  | .list [k, v] :: r => do pure (.cons (← decAVal k) (← decAVal v) (← decAEntries r))
  | _ => none
end

/-! canonical rendering of typed values (union members as a set, sets/maps sorted) -/
def sortStrs (xs : List String) : List String := (xs.toArray.qsort (· < ·)).toList

mutual
partial def canonTy : Ty → String
  | .prim id => s!"(prim {id})"
  | .record fs => "(record" ++ canonFieldsS fs ++ ")"
  | .array t => s!"(array {canonTy t})"
  | .set t => s!"(set {canonTy t})"
  | .map k v => s!"(map {canonTy k} {canonTy v})"
  | .union ts => "(union" ++ String.join ((sortStrs (ts.toList.map canonTy)).map (" " ++ ·)) ++ ")"
  | .enum ss => "(enum" ++ String.join (ss.map fun s => " " ++ hexA s) ++ ")"
  | .error t => s!"(error {canonTy t})"
  | .named n t => s!"(named {hexA n} {canonTy t})"
partial def canonFieldsS : Fields → String
  | .nil => ""
  | .cons n t r => s!" ({hexA n} {canonTy t})" ++ canonFieldsS r
end

mutual
partial def canonV (t : Ty) (v : Val) : String :=
  match v, t with
  | .null, _ => "null"
  | .named v', .named _ u => canonV u v'
  | .error v', .error u => s!"(err {canonV u v'})"
  | .prim text, .prim _ => s!"(p {hexA text})"
  | .typeval ty, .prim _ => s!"(tv {canonTy ty})"
  | .record vs, .record fs => "(rec" ++ canonFieldVals fs vs ++ ")"
  | .array vs, .array et => "(arr" ++ String.join (vs.toList.map fun x => " " ++ canonV et x) ++ ")"
  | .set vs, .set et => "(set" ++ String.join ((sortStrs (vs.toList.map (canonV et))).map (" " ++ ·)) ++ ")"
  | .map es, .map kt vt => "(map" ++ String.join ((sortStrs (canonEntries kt vt es)).map (" " ++ ·)) ++ ")"
  | .union tag v', .union ts =>
    match ts.get? tag with
    | some m => s!"(u {canonTy m} {canonV m v'})"
    | none => "(bad-tag)"
  | .enum sel, .enum syms => if sel < syms.length then s!"(enum {hexA (syms.getD sel [])})" else s!"(enum-out-of-range {sel})"
  | _, _ => "(ill-typed)"
partial def canonFieldVals : Fields → Vals → String
  | .cons _ t fr, .cons v vr => " " ++ canonV t v ++ canonFieldVals fr vr
  | .nil, .nil => ""
  | _, _ => " (ill-typed)"
partial def canonEntries (kt vt : Ty) : Entries → List String
  | .nil => []
  | .cons k v r => s!"({canonV kt k} {canonV vt v})" :: canonEntries kt vt r
end

def canonTV (tv : TV) : String := s!"(val {canonTy tv.1} {canonV tv.1 tv.2})"

def showErr : Err → String
  | .noSuchType => "noSuchType" | .noSuchPrimitive => "noSuchPrimitive" | .typeMismatch => "typeMismatch"
  | .decoratorConflict => "decoratorConflict" | .notInUnion => "notInUnion"
  | .enumNeedsDecorator => "enumNeedsDecorator" | .enumIncompatible => "enumIncompatible"
  | .enumNotMember => "enumNotMember" | .enumNotEnumType => "enumNotEnumType"
  | .badDecorator => "badDecorator" | .fieldCount => "fieldCount" | .dupField => "dupField"
  | .emptyEnum => "emptyEnum" | .badTypeName => "badTypeName" | .nilAny => "nilAny"
  | .typeValueCast => "typeValueCast"

def decTV : Sexp → Option (Ty × Val)
  | .list [t, v] => do pure (← decTy t, ← decVal v)
  | _ => none

def decPersist : Sexp → Option (Option (List Name))
  | .atom "nopersist" => some none
  | .list (.atom "persist" :: ns) => do
    pure (some (← ns.mapM fun | .atom s => Sexp.bytesOfHex s | _ => none))
  | _ => none

def initF (p : Option (List Name)) : FState :=
  match p with
  | none => {}
  | some ns => { permanent := some [], persist := fun n => ns.contains n }

/-- format a sequence; `reset` = FormatRecord. -/
def fmtSeq (reset : Bool) : FState → List (Ty × Val) → List AVal
  | _, [] => []
  | st, (t, v) :: r =>
    let (st1, a) := if reset then fmtRecordTop st t v else fmtTop st t v
    a :: fmtSeq reset st1 r

/-- analyze a sequence; `fresh` = new analyzer and new context for each value. -/
def analyzeSeq (fresh : Bool) : AState → List AVal → List (Except Err TV)
  | _, [] => []
  | st, a :: r =>
    match analyzeTop (if fresh then {} else st) a with
    | .ok (st1, tv) => .ok tv :: analyzeSeq fresh st1 r
    | .error e => .error e :: analyzeSeq fresh st r

/-- several readers (each with its own analyzer table) interleaved on one context. -/
def analyzeInterleaved : List (Nat × List (Name × Ty)) → List (Name × Ty) → List (Nat × AVal) → List (Except Err TV)
  | _, _, [] => []
  | tabs, ctx, (r, a) :: rest =>
    let names := ((tabs.find? (·.1 == r)).map (·.2)).getD []
    match analyzeTop { names := names, ctxdefs := ctx } a with
    | .ok (st1, tv) =>
      .ok tv :: analyzeInterleaved ((r, st1.names) :: tabs.filter (·.1 != r)) st1.ctxdefs rest
    | .error e => .error e :: analyzeInterleaved tabs ctx rest

def decStep : Sexp → Option (Nat × AVal)
  | .list [.atom r, a] => do pure (← r.toNat?, ← decAVal a)
  | _ => none

def showRes : Except Err TV → String
  | .ok tv => s!"(ok {canonTV tv})"
  | .error e => s!"(err {showErr e})"

def rtSeq (reset : Bool) (st : FState) (tvs : List (Ty × Val)) : List String :=
  let asts := fmtSeq reset st tvs
  let res := analyzeSeq false {} asts
  (tvs.zip res).map fun (tv, r) =>
    match r with
    | .ok got => if canonTV got == canonTV tv then "ok" else "changed"
    | .error e => s!"(err {showErr e})"

def kindOf : String → Option Quote.Kind
  | "name" => some .name | "tname" => some .tname | "string" => some .string
  | "tnameRaw" => some .tnameRaw | "enumval" => some .enumval | _ => none

/-- UTF-8 bridge (Lean's `String`): valid bytes ⇄ code points. -/
def textOfBytes (b : List UInt8) : Option Quote.Text :=
  (String.fromUTF8? (ByteArray.mk b.toArray)).map fun s => s.toList.map Char.toNat
def bytesOfText (t : Quote.Text) : List UInt8 :=
  (String.ofList (t.map Char.ofNat)).toUTF8.toList

def handle : List Sexp → String
  | .atom "fmt" :: .atom scope :: p :: tvs =>
    match decPersist p, tvs.mapM decTV, scope with
    | some p, some tvs, "record" => "(" ++ " ".intercalate ((fmtSeq true (initF p) tvs).map showAVal) ++ ")"
    | some p, some tvs, "format" => "(" ++ " ".intercalate ((fmtSeq false (initF p) tvs).map showAVal) ++ ")"
    | _, _, _ => "bad-op"
  | .atom "analyze" :: .atom scope :: asts =>
    match asts.mapM decAVal, scope with
    | some asts, "stream" => "(" ++ " ".intercalate ((analyzeSeq false {} asts).map showRes) ++ ")"
    | some asts, "value" => "(" ++ " ".intercalate ((analyzeSeq true {} asts).map showRes) ++ ")"
    | _, _ => "bad-op"
  | .atom "analyzeil" :: steps =>
    match steps.mapM decStep with
    | some steps => "(" ++ " ".intercalate ((analyzeInterleaved [] [] steps).map showRes) ++ ")"
    | none => "bad-op"
  | .atom "rt" :: .atom scope :: p :: tvs =>
    match decPersist p, tvs.mapM decTV, scope with
    | some p, some tvs, "record" => "(" ++ " ".intercalate (rtSeq true (initF p) tvs) ++ ")"
    | some p, some tvs, "format" => "(" ++ " ".intercalate (rtSeq false (initF p) tvs) ++ ")"
    | _, _, _ => "bad-op"
  | [.atom "guard", tv] =>
    match decTV tv with
    | some (t, v) =>
      let b (x : Bool) := if x then "1" else "0"
      s!"plain={b (plainTy t)} wfTy={b (wfTy t)} wfVal={b (wfVal t v)} bareEmpty={b (bareEmpty v)} errOK={b (errOK v)}"
    | none => "bad-op"
  | [.atom "guardnamed", tv] =>
    match decTV tv with
    | some (t, v) => if namedTopGuard t v then "1" else "0"
    | none => "bad-op"
  | .atom "guardnested" :: .list bs :: tvs =>
    match bs.mapM (fun | .list [.atom n, t] => do pure (← Sexp.bytesOfHex n, ← decTy t) | _ => none), tvs.mapM decTV with
    | some b, some items => if items.all (itemOKB b) then "1" else "0"
    | _, _ => "bad-op"
  | .atom "guardstream" :: tvs =>
    match tvs.mapM decTV with
    | some items => if items.all itemOK && namesConsistent items then "1" else "0"
    | none => "bad-op"
  | [.atom "fmttype", t] =>
    match decTy t with
    | some t => showATy (fmtTypeTop t)
    | none => "bad-op"
  | [.atom "rttype", t] =>
    match decTy t with
    | some t => match analyzeType {} (fmtTypeTop t) with
      | .ok (_, t') => if canonTy t' == canonTy t then "ok" else "changed"
      | .error e => s!"(err {showErr e})"
    | none => "bad-op"
  | [.atom "quote", .atom k, .atom letters, .atom h] =>
    match kindOf k, (Sexp.bytesOfHex letters).bind textOfBytes, (Sexp.bytesOfHex h).bind textOfBytes with
    | some k, some L, some t => hexA (bytesOfText (Quote.quote L k t))
    | _, _, _ => "bad-op"
  | [.atom "unquote", .atom k, .atom letters, .atom h] =>
    match kindOf k, (Sexp.bytesOfHex letters).bind textOfBytes, (Sexp.bytesOfHex h).bind textOfBytes with
    | some k, some L, some t => match Quote.unquote L k t with
      | some (s, rest) => s!"(ok {hexA (bytesOfText s)} {hexA (bytesOfText rest)})"
      | none => "err"
    | _, _, _ => "bad-op"
  | [.atom "json", j] =>
    match Json.decJ j with
    | some j => s!"({canonTV (Json.jsonBuild j)} {showRes ((analyzeTop {} (Json.toAst j)).map (·.2))})"
    | none => "bad-op"
  | _ => "bad-op"

end Zed.Drv.C02
