package main

// conc: the real meta.Lister and meta.Slicer pulled concurrently by G goroutines.

import (
	"context"
	"encoding/json"
	"fmt"
	"math/rand"
	"runtime"
	"sort"
	"strings"
	"sync"
	. "verifharness/hlib"

	zed "github.com/brimdata/super"
	"github.com/brimdata/super/runtime/sam/op/meta"
	"github.com/brimdata/super/zbuf"
	"github.com/segmentio/ksuid"
)

// item is what one Pull handed out: the object ids of one object or one partition.
type item struct {
	ids []string
	cls string // lister equivalence class of a single object: its (min,max) text
}

func itemOf(b zbuf.Batch) item {
	var it item
	for _, v := range b.Values() {
		u := v.Under()
		if u.Deref("objects") != nil {
			for _, o := range partOf(v).Objs {
				it.ids = append(it.ids, o.ID)
			}
		} else {
			o := objOf(v)
			it.ids = append(it.ids, o.ID)
			it.cls = o.MinT + "|" + o.MaxT
		}
	}
	return it
}

func (it item) key() string {
	ids := append([]string(nil), it.ids...)
	sort.Strings(ids)
	return strings.Join(ids, ",")
}

func newPuller(l *TLake, poolID, commit ksuid.KSUID, slicer bool) (zbuf.Puller, error) {
	ctx := context.Background()
	pool, err := l.Root.OpenPool(ctx, poolID)
	if err != nil {
		return nil, err
	}
	zctx := zed.NewContext()
	lister, err := meta.NewSortedLister(ctx, zctx, pool, commit, nil)
	if err != nil {
		return nil, err
	}
	if slicer {
		return meta.NewSlicer(lister, zctx), nil
	}
	return lister, nil
}

func pullAllItems(p zbuf.Puller) ([]item, error) {
	var out []item
	for {
		b, err := p.Pull(false)
		if err != nil {
			return out, err
		}
		if b == nil {
			return out, nil
		}
		out = append(out, itemOf(b))
	}
}

type concFail struct {
	key, what string
}

// concOnce runs G goroutines against one fresh lister/slicer and checks the hand-out.
func concOnce(l *TLake, poolID, commit ksuid.KSUID, slicer bool, G int, seqItems []item) *concFail {
	name := "lister"
	if slicer {
		name = "slicer"
	}
	p, err := newPuller(l, poolID, commit, slicer)
	if err != nil {
		return &concFail{"C08:conc:" + name + "-error", err.Error()}
	}
	got := make([][]item, G)
	errs := make([]error, G)
	var wg sync.WaitGroup
	start := make(chan struct{})
	for g := 0; g < G; g++ {
		wg.Add(1)
		go func(g int) {
			defer wg.Done()
			<-start
			e, _ := Protect(func() error {
				items, err := pullAllItems(p)
				got[g] = items
				return err
			})
			errs[g] = e
		}(g)
	}
	close(start)
	wg.Wait()
	for _, e := range errs {
		if e != nil {
			return &concFail{"C08:conc:" + name + "-error", e.Error()}
		}
	}
	// position of each sequential item: for the lister, objects with the same (min,max)
	// are one position class (their relative order is not fixed); for the slicer the
	// partition's id set.
	posOf := map[string]int{}
	want := map[string]int{}
	if slicer {
		for i, it := range seqItems {
			posOf[it.key()] = i
			want[it.key()]++
		}
	} else {
		cls := map[string]int{}
		for _, it := range seqItems {
			if _, ok := cls[it.cls]; !ok {
				cls[it.cls] = len(cls)
			}
			posOf[it.key()] = cls[it.cls]
			want[it.key()]++
		}
	}
	seen := map[string]int{}
	for g := range got {
		last := -1
		for _, it := range got[g] {
			k := it.key()
			seen[k]++
			pos, ok := posOf[k]
			if !ok {
				if slicer {
					return &concFail{"C08:conc:slicer-partition", fmt.Sprintf("goroutine %d of %d received a partition %v that the sequential slicer does not produce", g, G, it.ids)}
				}
				return &concFail{"C08:conc:lister-unknown", fmt.Sprintf("goroutine %d received unknown object %v", g, it.ids)}
			}
			if pos < last {
				return &concFail{"C08:conc:" + name + "-order", fmt.Sprintf("goroutine %d of %d received item at position %d after position %d", g, G, pos, last)}
			}
			last = pos
		}
	}
	for k, n := range seen {
		if n > want[k] {
			return &concFail{"C08:conc:" + name + "-dup", fmt.Sprintf("%d goroutines: item {%s} handed out %d times", G, k, n)}
		}
	}
	for k := range want {
		if seen[k] == 0 {
			return &concFail{"C08:conc:" + name + "-missing", fmt.Sprintf("%d goroutines: item {%s} never handed out", G, k)}
		}
	}
	return nil
}

type cpool struct {
	lake   *TLake
	spec   *poolSpec
	id     ksuid.KSUID
	commit ksuid.KSUID
	err    error
	seq    [2][]item
}

// prepare builds the pool and records the sequential lister and slicer outputs.
func (p *cpool) prepare() {
	p.lake, _, p.id, p.err = buildPool(p.spec)
	if p.err != nil {
		return
	}
	l := p.lake
	p.commit, p.err = l.Root.CommitObject(context.Background(), p.id, "main")
	if p.err != nil {
		return
	}
	for s := 0; s < 2; s++ {
		var pl zbuf.Puller
		pl, p.err = newPuller(l, p.id, p.commit, s == 1)
		if p.err != nil {
			return
		}
		e, _ := Protect(func() error {
			var err error
			p.seq[s], err = pullAllItems(pl)
			return err
		})
		if e != nil {
			p.err = e
			return
		}
	}
}

// check runs the concurrent hand-out checks on one pool under the current GOMAXPROCS.
func (p *cpool) check(c *Ctx, g int, Gs []int, variants []int, reps int, first bool) {
	if p.err != nil {
		if first {
			c.Fail("oracle", "C08:conc:setup", p.err.Error(), map[string]any{"check": "conc", "pool": p.spec})
		}
		return
	}
	nobj := 0
	for _, it := range p.seq[0] {
		nobj += len(it.ids)
	}
	if nobj != len(p.spec.Recs) {
		c.Fail("oracle", "C08:conc:lister-missing", fmt.Sprintf("sequential lister lists %d objects for %d loads", nobj, len(p.spec.Recs)), map[string]any{"check": "conc", "pool": p.spec})
		return
	}
	for _, G := range Gs {
		for _, s := range variants {
			name := "lister"
			if s == 1 {
				name = "slicer"
			}
			c.Eval(fmt.Sprintf("conc:%s:G%d:gmp%d:%s:%d", name, G, g, p.spec.Shape, len(p.spec.Recs)))
			c.Stat("conc:" + name)
			c.Stat(fmt.Sprintf("conc:goroutines:%d", G))
			c.Stat(fmt.Sprintf("conc:gomaxprocs:%d", g))
			for rep := 0; rep < reps; rep++ {
				c.Stat("conc:runs")
				if f := concOnce(p.lake, p.id, p.commit, s == 1, G, p.seq[s]); f != nil {
					kind := "oracle"
					if strings.Contains(f.what, "panic:") {
						kind = "panic"
					}
					c.Fail(kind, f.key, fmt.Sprintf("%s (GOMAXPROCS %d, pool of %d objects, %d partitions)", f.what, g, len(p.spec.Recs), len(p.seq[1])),
						map[string]any{"check": "conc", "pool": p.spec, "loads": p.spec.loadTexts(), "goroutines": G, "gomaxprocs": g, "slicer": s == 1})
					break
				}
			}
		}
	}
}

func runConc(c *Ctx) {
	npools := c.N(4, 24)
	reps := c.N(3, 20)
	pools := make([]*cpool, npools)
	for i := range pools {
		r := rand.New(rand.NewSource(c.Rng.Int63()))
		// int keys: the lister order is then fixed up to objects with identical ranges
		pools[i] = &cpool{spec: genPool(r, true)}
	}
	ParallelDo(npools, 8, func(i int) { pools[i].prepare() })
	defer func() {
		for _, p := range pools {
			if p.lake != nil {
				p.lake.Close()
			}
		}
	}()
	old := runtime.GOMAXPROCS(0)
	defer runtime.GOMAXPROCS(old)
	for gi, g := range allGMP {
		runtime.GOMAXPROCS(g)
		for _, p := range pools {
			p.check(c, g, []int{2, 3, 8, 16}, []int{0, 1}, reps, gi == 0)
		}
	}
}

// replayConc re-runs a recorded conc failure: same pool, goroutine count and GOMAXPROCS.
func replayConc(c *Ctx, raw json.RawMessage) bool {
	var r struct {
		Check  string    `json:"check"`
		Pool   *poolSpec `json:"pool"`
		G      int       `json:"goroutines"`
		GMP    int       `json:"gomaxprocs"`
		Slicer bool      `json:"slicer"`
	}
	if err := json.Unmarshal(raw, &r); err != nil || r.Pool == nil || r.Check != "conc" {
		return false
	}
	p := &cpool{spec: r.Pool}
	p.prepare()
	if p.lake != nil {
		defer p.lake.Close()
	}
	old := runtime.GOMAXPROCS(0)
	defer runtime.GOMAXPROCS(old)
	if r.GMP > 0 {
		runtime.GOMAXPROCS(r.GMP)
	}
	if r.G < 2 {
		r.G = 8
	}
	v := 0
	if r.Slicer {
		v = 1
	}
	p.check(c, r.GMP, []int{r.G}, []int{v}, 200, true)
	return true
}
