import Zed.Model.ZsonFormat
import Zed.Model.ZsonAnalyze
import Zed.Model.ZsonJson
import Zed.Proofs.ZsonQuote
import Zed.Proofs.ZsonRoundtrip3
import Zed.Proofs.ZsonJson
import Zed.Proofs.ZsonNamedTop
import Zed.Proofs.ZsonStream
import Zed.Proofs.ZsonNested
/-!
  C02 — ZSON text round trip is the identity; JSON is a subset.

  The model is split at the abstract syntax of `compiler/ast/zed`:
  `fmtTop` (Zed.Model.ZsonFormat) is the real formatter followed by the real lexer+parser,
  `analyzeTop` (Zed.Model.ZsonAnalyze) is the real analyzer followed by `Build`.  Both are
  tied to /repo on every run (T1: `Zed.Generated.C02`; T2: harness/c02 compares the abstract
  syntax and the analysed values of the real code with the model's, case by case).

  The model follows the code as it is, defects included; where the full statement is false
  of the current code its negation is proved on a concrete witness (`not_…`), the witness is
  replayed on the real code by the harness, and the statement is proved under an explicit
  decidable guard (`…_partial`).
-/
namespace Zed.Props.C02
open Zed.Zson Zed.Generated

/-! ## T1 — the regenerated tables are the ones the model implements

  `implied`, `selfDescribing`, `castOk`, `decorateM`, `needsDecoration`, `fmtValue`'s union
  case and `fmtTop` are hand-written mirrors of code whose *shape* is regenerated as text;
  a change of that text breaks these obligations (the primitive sets, name tables, id
  bounds and escape tables are used by the model directly). -/

theorem implied_rules_as_modelled :
    C02.impliedComplex =
      [("record", "!slices.ContainsFunc(typ.Fields, func(f zed.Field) bool { return !Implied(f.Type) })"),
       ("array", "Implied(typ.Type)"), ("set", "Implied(typ.Type)"),
       ("map", "Implied(typ.KeyType) && Implied(typ.ValType)"), ("error", "Implied(typ.Type)")] ∧
    C02.selfDescribing =
      [("record", "true"), ("array", "true"), ("set", "true"), ("map", "true"),
       ("named", "SelfDescribing(typ.Type)")] := ⟨rfl, rfl⟩

theorem cast_rule_as_modelled :
    C02.castTypeCond =
      "typID == castID || typID == zed.IDNull || zed.IsInteger(typID) && (zed.IsInteger(castID) || zed.IsFloat(castID)) || zed.IsFloat(typID) && zed.IsFloat(castID)" ∧
    C02.isIntegerCond = "id <= IDInt256" ∧
    C02.isFloatCond = "id >= IDFloat16 && id <= IDFloat256" := ⟨rfl, rfl, rfl⟩

theorem decorate_rules_as_modelled :
    C02.decorateConds =
      ["known || (!(null && typ != zed.TypeNull) && f.isImplied(typ))",
       "name := f.nameOf(typ); name != \"\"", "f.tab > 0", "SelfDescribing(typ) && !null",
       "typ, ok := typ.(*zed.TypeNamed); ok", "f.tab > 0", "f.tab > 0"] ∧
    C02.needsDecorationBody =
      ["_, isnamed := e.typ.(*zed.TypeNamed)",
       "return e.union != nil && (isnamed || len(e.seen) < len(e.union.Types))"] ∧
    C02.formatUnionBody =
      ["typ, bytes := union.Untag(bytes)", "const known = false", "const parentImplied = true",
       "f.formatValue(indent, typ, bytes, known, parentImplied, true)"] ∧
    C02.formatValueAndDecorateBody =
      ["known := f.hasName(typ)", "implied := f.isImplied(typ)",
       "f.formatValue(0, typ, bytes, known, implied, false)", "f.decorate(typ, false, bytes == nil)"] :=
  ⟨rfl, rfl, rfl, rfl⟩

/-- `Analyzer.convertType`, `case *astzed.TypeName`, as modelled by `convertType (.name n)`:
    the analyzer's own (stream-scoped) table first, the shared context's typedefs only as a
    fallback. -/
theorem typename_lookup_as_modelled :
    C02.convertTypeNameBody =
      ["typ, ok := a[t.Name]",
       "if !ok { named := zctx.LookupTypeDef(t.Name) if named == nil { return nil, fmt.Errorf(\"no such type name: %q\", t.Name) } typ = named }",
       "return typ, nil"] := rfl

/-- a bare type name bound in the reader's own table resolves to that binding whatever the
    shared context says (another reader on the same context may have rebound the name). -/
theorem name_lookup_prefers_stream_table (st : AState) (n : Name) (t : Ty)
    (h : alookup n st.names = some t) : convertType st (.name n) = .ok (st, t) := by
  simp [convertType, h]

/-- … and only a name the reader has not bound itself is looked up in the context. -/
theorem name_lookup_falls_back_to_context (st : AState) (n : Name) (t : Ty)
    (h1 : alookup n st.names = none) (h2 : alookup n st.ctxdefs = some t) :
    convertType st (.name n) = .ok (st, t) := by
  simp [convertType, h1, h2]

example : ∃ st : AState, alookup [120] st.names = some (.prim 9) ∧ alookup [120] st.ctxdefs = some (.prim 25) :=
  ⟨{ names := [([120], .prim 9)], ctxdefs := [([120], .prim 25)] }, by decide⟩

/-- `pretty_irrelevant`, as far as it is decided here: pretty-printing is not part of the model
    (`fmtTop` has no layout parameter: it produces the abstract syntax, and the harness compares
    the syntax the real parser reads from the real text for pretty 0, 2 and 4 with it).  What is
    an obligation is that the layout code of `zson/formatter.go` only ever writes blanks and line
    breaks: every statement guarded by `f.tab > 0` is `f.build(" ")`, `newline` is `""` or
    `"\n"` and is only written as such or after a `","`, and `indent` writes `' '` bytes in
    front of a token that is written anyway (regenerated text; a layout statement that starts to
    write anything else breaks this). -/
theorem layout_writes_only_whitespace :
    C02.prettyGuardedBodies = ["{ f.build(\" \") }", "{ newline = \"\\n\" }"] ∧
    C02.newlineUses = ["f.build(f.newline)", "f.build(newline)", "newline := f.newline", "newline = \"\"",
      "newline = \"\\n\"", "sep := f.newline", "sep = \",\" + f.newline"] ∧
    C02.indentBody = ["for k := 0; k < tab; k++ { f.builder.WriteByte(' ') }", "f.build(s)"] :=
  ⟨rfl, rfl, rfl⟩

/-- every primitive name the formatter can print is read back as the same primitive
    (`PrimitiveName` and `LookupPrimitive` are inverse tables). -/
theorem primitive_names_inverse :
    ∀ p ∈ C02.primitiveName, lookupPrimitive (ascii p.2) = some p.1 := by decide

/-- every primitive type in the regenerated `Implied` set other than `int64` is recognised by
    the lexer from its spelling alone, whatever the text (so leaving the decorator out loses
    nothing); adding a type whose spelling the lexer classifies differently — `int32`,
    `uint8`, `float32` … — to `Implied` breaks this obligation.  (`int64` is the lexer's
    default for decimal integers that fit; `primOK` carries that range condition.) -/
theorem implied_prims_lex_exact :
    ∀ id ∈ C02.impliedPrims, id ≠ 9 → ∀ text, lexClass id text = primName id := by
  have key : ∀ id ∈ C02.impliedPrims, id ≠ 9 →
      (C02.idInt256 < id ∧ (¬ (C02.idFloat16 ≤ id ∧ id ≤ C02.idFloat256) ∨ primName id = ascii "float64")) := by
    decide
  intro id hid hne text
  obtain ⟨h1, h2⟩ := key id hid hne
  have h1' : ¬ id ≤ C02.idInt256 := Nat.not_le.mpr h1
  unfold lexClass
  simp only [h1', if_false]
  rcases h2 with h2 | h2
  · simp [h2]
  · split
    · exact h2.symm
    · rfl

/-! ## quote_roundtrip — names and strings survive the character layer -/

/-- `unquote (quoted s) = s` for string values, for **all** `s` (quotes, backslashes, control
    characters, non-ASCII, keywords …) and whatever follows the closing quote. -/
theorem quote_roundtrip_string (L : List Nat) (s rest : List Nat) :
    Quote.unquote L .string (Quote.quote L .string s ++ rest) = some (s, rest) :=
  Quote.unquote_quotedString s rest

/-- field names and enum symbols inside types (`QuotedName` / `matchSymbol`), for **all** `s`
    (keywords, digits first, empty, unicode, control characters), provided the next character
    does not extend a bare identifier (the formatter always writes `:` `,` or `)` next). -/
theorem quote_roundtrip_name (L : List Nat) (s rest : List Nat)
    (hr : ∀ c, rest.head? = some c → Quote.typeChar L c = false) :
    Quote.unquote L .name (Quote.quote L .name s ++ rest) = some (s, rest) :=
  Quote.unquoteName_quotedName L s rest hr

example : ∃ rest : List Nat, ∀ c, rest.head? = some c → Quote.typeChar [] c = false := ⟨[58], by decide⟩

/- Full statement (false of the current code, see `not_quote_roundtrip_tname_*`):
     ∀ s, unquote .tname (quote .tname s ++ rest) = some (s, rest)
   Proved for the names `tnameGuard` accepts: non-empty, not starting with '.', not `error` /
   `enum`, not a primitive type name (those cannot name a type at all). -/
theorem quote_roundtrip_tname_partial (L : List Nat) (s rest : List Nat)
    (hg : Quote.tnameGuard s = true)
    (hr : ∀ c, rest.head? = some c → Quote.typeChar L c = false) :
    Quote.unquote L .tname (Quote.quote L .tname s ++ rest) = some (s, rest) :=
  Quote.unquoteTName_quotedTypeName L s rest hg hr

example : Quote.tnameGuard (Quote.ascii "a b") = true := by decide
example : Quote.tnameGuard (Quote.ascii "1.5") = true := by decide

/-- a type named `error` (or `enum`) is written bare and read back as the error type keyword. -/
theorem not_quote_roundtrip_tname_keyword :
    Quote.unquote [] .tname (Quote.quote [] .tname (Quote.ascii "error") ++ [41]) ≠
      some (Quote.ascii "error", [41]) := by decide

/-- `IsTypeName` accepts a leading '.', `matchTypeName` does not. -/
theorem not_quote_roundtrip_tname_leading_dot :
    Quote.unquote [] .tname (Quote.quote [] .tname (Quote.ascii ".a") ++ [41]) ≠
      some (Quote.ascii ".a", [41]) := by decide

/-- `Formatter.formatType` writes type names without quoting them. -/
theorem not_quote_roundtrip_tname_in_type_decorator :
    Quote.unquote [] .tnameRaw (Quote.quote [] .tnameRaw (Quote.ascii "a b") ++ [41]) ≠
      some (Quote.ascii "a b", [41]) := by decide

/-- `%symbol` is written without quoting and read with `matchIdentifier`. -/
theorem not_quote_roundtrip_enum_symbol :
    Quote.unquote [] .enumval (Quote.quote [] .enumval (Quote.ascii "a b") ++ [41]) ≠
      some (Quote.ascii "a b", [41]) := by decide


/-! ## zson_roundtrip_type -/

/- Full statement: `∀ t, wfTy t → analyzeType {} (fmtTypeTop t) = ok t` (named types with their
   def-on-first-use / name-afterwards scoping and error types included).  Proved for the plain
   fragment; named and error types are tied by correspondence only (harness sub-check `type`). -/
theorem zson_roundtrip_type_partial (a0 : AState) (t : Ty) (hp : plainTy t = true) (hw : wfTy t = true) :
    analyzeType a0 (fmtTypeTop t) = .ok (a0, t) := by
  simp [analyzeType, fmtTypeTop, canonType_plain [] t hp, convertType_plain a0 t hp hw]

example : plainTy (.map (.prim 25) (.union (.cons (.prim 9) (.cons (.array (.prim 8)) .nil)))) = true ∧
    wfTy (.map (.prim 25) (.union (.cons (.prim 9) (.cons (.array (.prim 8)) .nil)))) = true := by decide

/-! ## implied_inferred — the decorator is dropped exactly when re-inference is exact -/

/-- For every type with `Implied t` (over the regenerated primitive set) the formatter writes
    no decorator after a (non-null, non-empty) value of `t`, and the analyzer infers exactly `t`
    from the bare syntax.  (Nulls and empty containers *inside* the value carry their own
    decorators; an empty container directly inside an error value does not — `errOK`.) -/
theorem implied_inferred (fst : FState) (a0 : AState) (t : Ty) (v : Val) (pi e : Bool)
    (hi : implied t = true) (hp : plainTy t = true) (hw : wfTy t = true) (hv : wfVal t v = true)
    (hn : v.isNull = false) (hb : bareEmpty v = false) (he : errOK v = true) :
    ∃ any, fmtValue fst t v false pi true e = (fst, any, []) ∧
      convertValue a0 (.implied any) none = .ok (a0, (t, strip v)) := by
  obtain ⟨any, ds, hf, _, hA, _⟩ := goodV_all v t e hp hw hv he pi fst a0
  have hnu : t.isUnion = false := implied_notUnion t hi
  have hds : ds = [] := by
    have := implied_ds fst t v pi e hi hp hv hn hb
    rw [hf] at this; exact this
  subst hds
  refine ⟨any, hf, ?_⟩
  simpa [expA, hnu] using hA

example : implied (.record (.cons [97] (.prim 9) (.cons [98] (.array (.prim 25)) .nil))) = true := by decide

/-! ## zson_roundtrip_value -/

/- Full statement (false of the current code — see the `not_zson_roundtrip_value_*` witnesses):

     ∀ t v, wfTy t → wfVal t v → analyze (fmt t v) = ok (t, v)
     (any formatter typedef state mirrored by the analyzer name table)

   Proved for the plain fragment (`plainTy`: no named types — those are covered at the top of a
   value and over streams below —, no record field of union type; error types included) and
   every value that is not an empty array / set / map as a whole (`bareEmpty`) or directly
   inside an error value (`errOK`), for every formatter state and every analyzer state —
   neither is changed. -/
theorem zson_roundtrip_value_partial (fst : FState) (a0 : AState) (t : Ty) (v : Val)
    (hp : plainTy t = true) (hw : wfTy t = true) (hv : wfVal t v = true) (hb : bareEmpty v = false)
    (he : errOK v = true) :
    (fmtTop fst t v).1 = fst ∧ analyzeTop a0 (fmtTop fst t v).2 = .ok (a0, (t, v)) :=
  roundtrip_plain fst a0 t v hp hw hv hb he

/-- `pretty_irrelevant`, per-value vs per-stream scope, `persist`: in the plain fragment what
    is read back does not depend on the formatter's typedef state (and the model has no layout
    parameter at all: pretty-printing produces no tokens), so every formatter setting
    round-trips alike. -/
theorem zson_roundtrip_value_any_settings (fst1 fst2 : FState) (a0 : AState) (t : Ty) (v : Val)
    (hp : plainTy t = true) (hw : wfTy t = true) (hv : wfVal t v = true) (hb : bareEmpty v = false)
    (he : errOK v = true) :
    analyzeTop a0 (fmtTop fst1 t v).2 = analyzeTop a0 (fmtTop fst2 t v).2 :=
  fmtTop_state_irrelevant fst1 fst2 a0 t v hp hw hv hb he

-- non-vacuity: a value that exercises unions, partial population, nulls and nested decorators
example :
    let t : Ty := .record (.cons [97] (.array (.union (.cons (.prim 8) (.cons (.prim 25) .nil))))
      (.cons [98] (.map (.prim 25) (.set (.prim 0))) (.cons [99] (.enum [[120], [121]]) .nil)))
    let v : Val := .record (.cons (.array (.cons (.union 0 (.prim [49])) (.cons .null .nil)))
      (.cons (.map (.cons (.prim [107]) (.set .nil) .nil)) (.cons (.enum 1) .nil)))
    plainTy t = true ∧ wfTy t = true ∧ wfVal t v = true ∧ bareEmpty v = false ∧ errOK v = true ∧
      rtOK t v = true := by
  decide

/- Named types, first step (the general statement with typedef scopes is tied by correspondence
   only): a value of a named type `n = u` over a plain type `u`, at the first occurrence of the
   name (per-value scope, or the name not yet seen in the stream, and not persisted): it is
   written `value (=n)` when `u` is self-describing and `value (n=type)` otherwise, it reads
   back as itself, **and the analyzer's name table receives exactly the binding the formatter's
   typedef table receives** (the coupling invariant of the stream scope).  Guards: the name is
   a legal type name; `u` is not an enum (`named-enum-value`), the value is not an empty
   container (`empty-container-undecorated`) and gets no decorator of its own
   (`named-partial-union-container`). -/
theorem zson_roundtrip_value_named_top_partial (fst : FState) (a0 : AState) (n : Name) (u : Ty) (v : Val)
    (hok : nameOK n = true) (hp : plainTy u = true) (hw : wfTy u = true)
    (hv : wfVal u v = true) (hn : v.isNull = false) (hb : bareEmpty v = false)
    (hod : noOwnDeco u v = true) (hen : enumSyms u = none) (he : errOK v = true)
    (hfst : fst.hasName (.named n u) = false) :
    (fmtTop fst (.named n u) (.named v)).1 = fst.saveType n (.named n u) ∧
    analyzeTop a0 (fmtTop fst (.named n u) (.named v)).2 =
      .ok (aPush a0 n (.named n u), (.named n u, .named v)) :=
  named_top fst a0 n u v hok hp hw hv hn hb hod hen he hfst

example :
    let u : Ty := .record (.cons [97] (.prim 8) (.cons [98] (.array (.prim 25)) .nil))
    let v : Val := .record (.cons (.prim [49]) (.cons (.array (.cons (.prim [120]) .nil)) .nil))
    nameOK [112, 111, 114, 116] = true ∧ plainTy u = true ∧ wfTy u = true ∧ wfVal u v = true ∧
      v.isNull = false ∧ bareEmpty v = false ∧ noOwnDeco u v = true ∧ enumSyms u = none ∧
      ({} : FState).hasName (.named [112, 111, 114, 116] u) = false ∧
      rtOK (.named [112, 111, 114, 116] u) (.named v) = true := by decide

/-- a *later* occurrence of a named type `n = u` the formatter already knows (and the analyzer
    has bound alike): it is written `value (n)` with no decorator inside (`known = true`) and
    reads back as itself; neither table changes.  Guards: `u` plain, not an enum, without
    union-typed container elements (`known-name-union-elements-undecorated`). -/
theorem zson_roundtrip_value_named_later_partial (fst : FState) (a0 : AState) (n : Name) (u : Ty) (v : Val)
    (hp : plainTy u = true) (hw : wfTy u = true) (hk : noUnionElems u = true) (hen : enumSyms u = none)
    (hv : wfVal u v = true) (hnn : v.isNull = false) (he : errOK v = true)
    (hname : fst.nameOf (.named n u) = some n) (hhas : fst.hasName (.named n u) = true)
    (ha : alookup n a0.names = some (.named n u)) :
    (fmtTop fst (.named n u) (.named v)).1 = fst ∧
    analyzeTop a0 (fmtTop fst (.named n u) (.named v)).2 = .ok (a0, (.named n u, .named v)) :=
  named_later fst a0 n u v hp hw hk hen hv hnn he hname hhas ha

/-- **streams**: a sequence of values — plain values and values of named types over plain types,
    one name bound to one type over the whole stream — written by one formatter and read by one
    analyzer comes back value by value, for the per-value typedef scope (`FormatRecord`,
    `reset = true`) and the per-stream scope (`Format`, `reset = false`), with or without a
    `persist` table and for every `persist` predicate.  Proved by induction over the stream with
    the coupling invariant `Coupled`: whatever name the formatter has bound (in the current scope
    or permanently) the analyzer's table binds to the same type; first occurrences extend both
    tables alike (`…named_top_partial`), later occurrences are written by bare name and leave
    both unchanged (`…named_later_partial`), a scope reset only forgets formatter bindings. -/
theorem zson_roundtrip_stream_partial (reset perm : Bool) (persist : Name → Bool) (items : List (Ty × Val))
    (hok : ∀ x ∈ items, itemOK x = true) (hcons : namesConsistent items = true) (a0 : AState) :
    analyzeStream a0
      (fmtStream reset { typedefs := [], permanent := if perm then some [] else none, persist := persist } items) =
      .ok items :=
  stream_roundtrip reset items hcons items (fun _ h => h) hok _ a0 (coupled_init items persist perm a0)

/-- **named types inside values**: a stream of values that are plain, or records / arrays / sets
    (neither null nor empty) whose fields and elements are plain values or values of named types
    over plain types (`spineOK`, against a binding table `b`: one name, one type over the whole
    stream) round-trips value by value — the first occurrence of a name *inside* a value is
    written `v (=n)` / `v (n=type)` and enters both tables, every later occurrence in the same
    value or in a later value of the scope is written `v (n)` — for the per-value scope, the
    per-stream scope and every `persist` predicate.  Same coupling invariant as above, now
    threaded through the fields and elements of each value. -/
theorem zson_roundtrip_stream_nested_partial (reset perm : Bool) (persist : Name → Bool)
    (b : List (Name × Ty)) (items : List (Ty × Val)) (hok : ∀ x ∈ items, itemOKB b x = true) (a0 : AState) :
    analyzeStream a0
      (fmtStream reset { typedefs := [], permanent := if perm then some [] else none, persist := persist } items) =
      .ok items :=
  stream_roundtrip_nested reset b items hok _ a0 (coupledB_init b persist perm a0)

/-- … in particular one value with nested named types, written by a fresh formatter. -/
theorem zson_roundtrip_value_nested_partial (b : List (Name × Ty)) (t : Ty) (v : Val)
    (hok : spineOK b t v = true) (hb : bareEmpty v = false) (a0 : AState) :
    ∃ a1, analyzeTop a0 (fmtTop {} t v).2 = .ok (a1, (t, v)) := by
  obtain ⟨_, a1, _, h, _⟩ := spine_step b {} a0 t v (coupledB_init b (fun _ => false) false a0) hok hb
  exact ⟨a1, h⟩

-- non-vacuity: `[{a:1(int32)}(=x), {a:2}(x)]` inside a record, then the name again in the next value
example :
    let x : Ty := .named [120] (.record (.cons [97] (.prim 8) .nil))
    let b : List (Name × Ty) := [([120], x)]
    let t : Ty := .record (.cons [112] (.array x) (.cons [113] x (.cons [114] (.prim 25) .nil)))
    let r (s : List UInt8) : Val := .named (.record (.cons (.prim s) .nil))
    let v : Val := .record (.cons (.array (.cons (r [49]) (.cons (r [50]) .nil))) (.cons (r [51]) (.cons (.prim [107]) .nil)))
    let items : List (Ty × Val) := [(t, v), (x, r [52])]
    (∀ y ∈ items, itemOKB b y = true) ∧
      analyzeStream {} (fmtStream false {} items) = .ok items ∧
      analyzeStream {} (fmtStream true {} items) = .ok items := by
  decide

-- non-vacuity, and the theorem's conclusion re-computed on a stream with a repeated name
example :
    let x : Ty := .named [120] (.record (.cons [97] (.prim 8) (.cons [98] (.array (.prim 25)) .nil)))
    let v1 : Val := .named (.record (.cons (.prim [49]) (.cons (.array (.cons (.prim [107]) .nil)) .nil)))
    let v2 : Val := .named (.record (.cons .null (.cons (.array .nil) .nil)))
    let items : List (Ty × Val) := [(x, v1), (.array (.prim 8), .array (.cons (.prim [51]) .nil)), (x, v2)]
    (∀ y ∈ items, itemOK y = true) ∧ namesConsistent items = true ∧
      analyzeStream {} (fmtStream false {} items) = .ok items ∧
      analyzeStream {} (fmtStream true { permanent := some [], persist := fun _ => true } items) = .ok items := by
  decide

-- error types are inside the proved fragment: error of a record, of a union, of an error
example :
    let t : Ty := .error (.record (.cons [97] (.error (.union (.cons (.prim 8) (.cons (.prim 25) .nil))))
      (.cons [98] (.array (.prim 9)) .nil)))
    let v : Val := .error (.record (.cons (.error (.union 0 (.prim [49]))) (.cons (.array .nil) .nil)))
    plainTy t = true ∧ wfTy t = true ∧ wfVal t v = true ∧ bareEmpty v = false ∧ errOK v = true ∧
      rtOK t v = true := by
  decide

/-- `error([])` of an implied error type: the empty container is written bare inside `error(…)`
    and nothing supplies its type (the guard `errOK`). -/
theorem not_zson_roundtrip_value_empty_container_in_error :
    rtOK (.record (.cons [97] (.error (.array (.prim 9))) .nil)) (.record (.cons (.error (.array .nil)) .nil)) = false := by
  decide

/-- an empty container as a whole value is written `[]` with no decorator and read back as an
    empty array of nulls (`formatValueAndDecorate` passes `null = false` to `decorate`). -/
theorem not_zson_roundtrip_value_empty_container :
    rtOK (.array (.prim 9)) (.array .nil) = false ∧ rtOK (.map (.prim 25) (.prim 8)) (.map .nil) = false := by
  decide

/-- a value of a *named* enum type cannot be read back (`buildEnum` asserts the unnamed type). -/
theorem not_zson_roundtrip_value_named_enum :
    rtOK (.named [120] (.enum [[97], [98]])) (.named (.enum 0)) = false := by decide

/-- a name bound to a named type of the same name loses one level: `1(=x)`. -/
theorem not_zson_roundtrip_value_named_over_same_name :
    rtOK (.named [120] (.named [120] (.prim 9))) (.named (.named (.prim [49]))) = false := by decide

/-- a named container of partially populated union elements: the `(=x)` that follows the full
    decorator makes the parser drop the value (`parseDecorator(nil, val)`). -/
theorem not_zson_roundtrip_value_named_partial_union_container :
    rtOK (.named [120] (.array (.union (.cons (.prim 9) (.cons (.prim 25) .nil)))))
      (.named (.array (.cons (.union 0 (.prim [49])) .nil))) = false := by decide

/-- a named type first defined *inside* a value and referenced by name in the decorator that
    follows the value: the analyzer converts the decorator before the value. -/
theorem not_zson_roundtrip_value_typedef_in_value_used_by_decorator :
    rtOK (.array (.union (.cons (.prim 9) (.cons (.named [120] (.prim 8)) .nil))))
      (.array (.cons (.union 1 (.named (.prim [49]))) .nil)) = false := by decide

/-- a union-typed record field under a decorator that supplies the field types is converted to
    the union twice: `type "(int32,int64)" is not in union type "(int32,int64)"`. -/
theorem not_zson_roundtrip_value_union_field_under_decorator :
    rtOK (.error (.record (.cons [98] (.union (.cons (.prim 8) (.cons (.prim 9) .nil))) .nil)))
      (.error (.record (.cons (.union 0 (.prim [49])) .nil))) = false := by decide


/-- one name bound to two types in one value: `hasName` looks the *name* up, so the parts of
    the second value lose their decorators (`{c:1}(=z)` for c of type uint8). -/
theorem not_zson_roundtrip_value_same_name_two_types :
    rtOK (.record (.cons [97] (.named [122] (.prim 9)) (.cons [98] (.named [122] (.record (.cons [99] (.prim 0) .nil))) .nil)))
      (.record (.cons .null (.cons (.named (.record (.cons (.prim [49]) .nil))) .nil))) = false := by decide

/-- a short-form typedef `(=x)` under a decorator that already supplies the union type. -/
theorem not_zson_roundtrip_value_short_typedef_under_decorator :
    rtOK (.error (.union (.cons (.prim 9) (.cons (.named [120] (.prim 25)) .nil))))
      (.error (.union 1 (.named (.prim [97])))) = false := by decide

/-- a type value binds its names in the analyzer's table only: the later `(t)` is resolved to
    the type value's `t=int8` instead of the value-level `t=uint8`. -/
theorem not_zson_roundtrip_value_type_value_rebinds_name :
    rtOK (.record (.cons [97] (.named [116] (.prim 0)) (.cons [98] (.prim 28) (.cons [99] (.named [116] (.prim 0)) .nil))))
      (.record (.cons (.named (.prim [49])) (.cons (.typeval (.named [116] (.prim 6))) (.cons (.named (.prim [50])) .nil)))) = false := by
  decide

/-! ## json_subset — every JSON document read as ZSON denotes what the JSON reader builds -/

/- Full statement (false of the current code, see `not_json_subset_*`):
     ∀ j : J, analyze (zsonParse j) = ok (jsonBuild j)
   Proved for documents without a repeated object key and without an integer literal in
   (2^63-1, 2^64-1] (`jsonGuard`), for every analyzer state: integers → int64, other numbers →
   float64, arrays → array of the union of the non-null element types (`[null]` when there is
   none), objects → records.  String escapes and number spelling are below the model (tied by
   the harness oracle `json`). -/
theorem json_subset_partial (j : Json.J) (h : Json.jsonGuard j = true) (st : AState) :
    analyzeTop st (Json.toAst j) = .ok (st, Json.jsonBuild j) :=
  Json.json_subset_core j h st

example : Json.jsonGuard (.obj (.cons [97] (.arr (.cons (.num [49] [49] [49, 46]) (.cons (.str [120]) (.cons .null .nil))))
    (.cons [98] (.obj .nil) .nil))) = true := by decide

/-- a repeated key: the JSON reader keeps the last value, the ZSON parser the first field. -/
theorem not_json_subset_duplicate_key :
    (analyzeTop {} (Json.toAst (.obj (.cons [97] (.num [49] [49] [49, 46]) (.cons [97] (.str [120]) .nil))))).toOption.map (·.2) ≠
      some (Json.jsonBuild (.obj (.cons [97] (.num [49] [49] [49, 46]) (.cons [97] (.str [120]) .nil)))) := by
  decide

/-- 9223372036854775808: float64 for the JSON reader, uint64 for the ZSON lexer. -/
theorem not_json_subset_integer_above_int64 :
    let big : Bytes := [57, 50, 50, 51, 51, 55, 50, 48, 51, 54, 56, 53, 52, 55, 55, 53, 56, 48, 56]
    (analyzeTop {} (Json.toAst (.num big big [57]))).toOption.map (·.2) ≠ some (Json.jsonBuild (.num big big [57])) := by
  decide

end Zed.Props.C02
