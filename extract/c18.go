package main

import (
	"fmt"
	"go/ast"
	"go/token"
	"regexp"
	"strings"
)

// C18 fact set: for every writer file, every call site that reaches the sink (or a callee
// that does) and what the site does with the error: returned / dropped / swallowed.
//
//   returned   the call is the operand of a return, or its error is bound to a variable that
//              a later `if v != nil { return …v… }` or `return …v…` (incl. the close idiom
//              `if x := …; err == nil { err = x }`) hands back
//   swallowed  `if err := call; err != nil { return <no err> }`
//   dropped    result discarded (expression statement, `_ =`), or bound and never looked at

func init() { register("C18", genC18) }

type c18File struct {
	pkg, file string
	callee    *regexp.Regexp
}

var c18Files = []c18File{
	{"zngio", "zio/zngio/writer.go", regexp.MustCompile(`^w\.(write|writeBlock|writeHeader|writeCompHeader|flush|EndStream)$|^w\.writer\.Write$`)},
	{"csvio", "zio/csvio/writer.go", regexp.MustCompile(`^w\.encoder\.(Write|Flush)$|^w\.Flush$`)},
	{"tableio", "zio/tableio/writer.go", regexp.MustCompile(`^w\.table\.(Write|Flush)$|^fmt\.Fprintf$|^w\.flush$|^w\.writeHeader$`)},
	{"bufwriter", "pkg/bufwriter/writer.go", regexp.MustCompile(`^w\.Writer\.Flush$`)},
	{"zsonio", "zio/zsonio/writer.go", regexp.MustCompile(`^io\.WriteString$|^w\.writer\.Write$`)},
	{"zjsonio", "zio/zjsonio/writer.go", regexp.MustCompile(`^w\.writer\.Write$|^w\.write$`)},
	{"zeekio", "zio/zeekio/writer.go", regexp.MustCompile(`^w\.writer\.Write$|^w\.writeHeader$|^io\.WriteString$`)},
	{"textio", "zio/textio/writer.go", regexp.MustCompile(`^fmt\.Fprintln$|^w\.writeRecord$`)},
	{"jsonio", "zio/jsonio/writer.go", regexp.MustCompile(`^w\.writer\.Flush$`)},
	{"vng", "vng/writer.go", regexp.MustCompile(`^w\.writer\.Write$|^w\.finalize$|^w\.dynamic\.Emit$|^io\.Copy$`)},
	{"vngenc", "vng/nulls.go", regexp.MustCompile(`\.Emit$|^w\.Write$`)},
	{"vngenc", "vng/primitive.go", regexp.MustCompile(`\.Emit$|^w\.Write$`)},
	{"vngenc", "vng/record.go", regexp.MustCompile(`\.Emit$|^w\.Write$`)},
	{"vngenc", "vng/field.go", regexp.MustCompile(`\.Emit$|^w\.Write$`)},
	{"vngenc", "vng/array.go", regexp.MustCompile(`\.Emit$|^w\.Write$`)},
	{"vngenc", "vng/map.go", regexp.MustCompile(`\.Emit$|^w\.Write$`)},
	{"vngenc", "vng/union.go", regexp.MustCompile(`\.Emit$|^w\.Write$`)},
	{"vngenc", "vng/dynamic.go", regexp.MustCompile(`\.Emit$|^w\.Write$`)},
	{"lakedata", "lake/data/writer.go", regexp.MustCompile(`^w\.writer\.(Write|EndStream|Close)$|^w\.seekIndex\.(Write|Close)$|^w\.(writeIndex|flushSeekIndex|WriteWithKey)$`)},
}

func genC18(repo string) (string, error) {
	var rows []string
	for _, cf := range c18Files {
		f, err := parseFile(repo, cf.file)
		if err != nil {
			return "", err
		}
		n := 0
		for _, d := range f.f.Decls {
			fd, ok := d.(*ast.FuncDecl)
			if !ok || fd.Body == nil {
				continue
			}
			sites, err := c18Sites(f, fd, cf.callee)
			if err != nil {
				return "", err
			}
			for _, s := range sites {
				rows = append(rows, fmt.Sprintf("(%s, %s, %s, %s)", leanStr(cf.pkg), leanStr(fd.Name.Name), leanStr(s[0]), leanStr(s[1])))
				n++
			}
		}
		if n == 0 {
			return "", fmt.Errorf("%s: no sink-reaching call sites recognised (file rewritten?)", cf.file)
		}
	}
	return "def sites : List (String × String × String × String) :=\n  [" + strings.Join(rows, ",\n   ") + "]\n", nil
}

// c18Sites lists (callee, handling) for the matching calls of fd in source order.
func c18Sites(f *file, fd *ast.FuncDecl, callee *regexp.Regexp) ([][2]string, error) {
	type site struct {
		pos      token.Pos
		callee   string
		handling string
	}
	var sites []site
	matches := func(e ast.Expr) (string, *ast.CallExpr, bool) {
		c, ok := e.(*ast.CallExpr)
		if !ok {
			return "", nil, false
		}
		n, ok := selName(c.Fun)
		if !ok || !callee.MatchString(n) {
			return "", nil, false
		}
		return n, c, true
	}
	mentions := func(n ast.Node, name string) bool {
		found := false
		ast.Inspect(n, func(x ast.Node) bool {
			if id, ok := x.(*ast.Ident); ok && id.Name == name {
				found = true
			}
			return !found
		})
		return found
	}
	// parent map for path reasoning
	parent := map[ast.Node]ast.Node{}
	{
		var stack []ast.Node
		ast.Inspect(fd.Body, func(x ast.Node) bool {
			if x == nil {
				stack = stack[:len(stack)-1]
				return true
			}
			if len(stack) > 0 {
				parent[x] = stack[len(stack)-1]
			}
			stack = append(stack, x)
			return true
		})
	}
	// enclosing returns the chain of blocks (innermost first) around n.
	enclosing := func(n ast.Node) []ast.Node {
		var out []ast.Node
		for x := parent[n]; x != nil; x = parent[x] {
			switch x.(type) {
			case *ast.BlockStmt, *ast.CaseClause:
				out = append(out, x)
			}
		}
		out = append(out, fd.Body)
		return out
	}
	// unconditionalFor: node r (a return or an assignment) is reached, from one of the blocks
	// in chain, without passing under a condition that does not mention v: walking up from r
	// we may only cross `if` statements whose condition mentions v (or block/else wrappers)
	// until we hit a block of the chain.
	unconditionalFor := func(r ast.Node, chain []ast.Node, v string) bool {
		inChain := func(b ast.Node) bool {
			for _, c := range chain {
				if c == b {
					return true
				}
			}
			return false
		}
		for x := parent[r]; x != nil; x = parent[x] {
			switch t := x.(type) {
			case *ast.BlockStmt:
				if inChain(t) {
					return true
				}
			case *ast.IfStmt:
				if !mentions(t.Cond, v) {
					return false
				}
			case *ast.CaseClause, *ast.SwitchStmt, *ast.TypeSwitchStmt, *ast.ForStmt, *ast.RangeStmt, *ast.SelectStmt, *ast.FuncLit:
				if inChain(x) {
					return true
				}
				return false
			}
		}
		return false
	}
	// laterHandsBack: after position p (the statement at node at), is variable v handed back:
	// returned, or copied into a variable that is returned (close idiom), on a path that is
	// unconditional with respect to anything but v itself?
	var laterHandsBack func(at ast.Node, v string, depth int) bool
	laterHandsBack = func(at ast.Node, v string, depth int) bool {
		if depth > 3 {
			return false
		}
		chain := enclosing(at)
		p := at.Pos()
		ok := false
		ast.Inspect(fd.Body, func(x ast.Node) bool {
			if ok || x == nil {
				return false
			}
			switch s := x.(type) {
			case *ast.ReturnStmt:
				if s.Pos() > p && unconditionalFor(s, chain, v) {
					for _, r := range s.Results {
						if mentions(r, v) {
							ok = true
						}
					}
				}
			case *ast.AssignStmt:
				// x = v  (e.g. `err = closeErr`, `firstErr = err`)
				if s.Pos() > p && len(s.Lhs) == 1 && len(s.Rhs) == 1 {
					if id, isID := s.Rhs[0].(*ast.Ident); isID && id.Name == v {
						if l, isL := s.Lhs[0].(*ast.Ident); isL && l.Name != v && laterHandsBack(s, l.Name, depth+1) {
							ok = true
						}
					}
				}
			}
			return true
		})
		return ok
	}
	errVarOf := func(lhs []ast.Expr) string {
		if len(lhs) == 0 {
			return ""
		}
		if id, ok := lhs[len(lhs)-1].(*ast.Ident); ok {
			return id.Name
		}
		return ""
	}
	seen := map[*ast.CallExpr]bool{}
	var walk func(n ast.Node)
	handleAssign := func(as *ast.AssignStmt, ifBody *ast.BlockStmt, ifCond ast.Expr) {
		if len(as.Rhs) != 1 {
			return
		}
		name, call, ok := matches(as.Rhs[0])
		if !ok {
			return
		}
		seen[call] = true
		v := errVarOf(as.Lhs)
		h := "dropped"
		if v != "" && v != "_" {
			if ifBody != nil && ifCond != nil && mentions(ifCond, v) {
				// `if v := call; v != nil { … }` / `if x := call; err == nil { err = x }`
				returnsErr, returnsSomething := false, false
				ast.Inspect(ifBody, func(x ast.Node) bool {
					if r, ok := x.(*ast.ReturnStmt); ok {
						returnsSomething = true
						for _, e := range r.Results {
							if mentions(e, v) {
								returnsErr = true
							}
						}
					}
					return true
				})
				switch {
				case returnsErr:
					h = "returned"
				case returnsSomething:
					h = "swallowed"
				default:
					// body assigns v onward (close idiom)?
					handed := false
					ast.Inspect(ifBody, func(x ast.Node) bool {
						if a, ok := x.(*ast.AssignStmt); ok && len(a.Lhs) == 1 && len(a.Rhs) == 1 {
							if id, ok := a.Rhs[0].(*ast.Ident); ok && id.Name == v {
								if l, ok := a.Lhs[0].(*ast.Ident); ok && laterHandsBack(a, l.Name, 0) {
									handed = true
								}
							}
						}
						return true
					})
					if handed {
						h = "returned"
					}
				}
			} else if laterHandsBack(as, v, 0) {
				h = "returned"
			}
		}
		sites = append(sites, site{call.Pos(), name, h})
	}
	walk = func(n ast.Node) {
		ast.Inspect(n, func(x ast.Node) bool {
			switch s := x.(type) {
			case *ast.IfStmt:
				if as, ok := s.Init.(*ast.AssignStmt); ok {
					handleAssign(as, s.Body, s.Cond)
				}
			case *ast.AssignStmt:
				if len(s.Rhs) == 1 {
					if _, call, ok := matches(s.Rhs[0]); ok && !seen[call] {
						handleAssign(s, nil, nil)
					}
				}
			case *ast.ReturnStmt:
				for _, r := range s.Results {
					if name, call, ok := matches(r); ok && !seen[call] {
						seen[call] = true
						sites = append(sites, site{call.Pos(), name, "returned"})
					}
				}
			case *ast.ExprStmt:
				if name, call, ok := matches(s.X); ok && !seen[call] {
					seen[call] = true
					h := "dropped"
					// encoding/csv and bufio style: `x.Flush()` has no result; the error is
					// fetched with x.Error() — returned iff the *next* statement returns it.
					if strings.HasSuffix(name, ".encoder.Flush") {
						h = c18FlushThenError(fd, s)
					}
					sites = append(sites, site{call.Pos(), name, h})
				}
			case *ast.CallExpr:
				// any other matching call in an unrecognised position (argument, condition …)
				if name, ok := selName(s.Fun); ok && callee.MatchString(name) && !seen[s] {
					// decided after the walk: positions recognised above are marked in seen
					_ = name
				}
			}
			return true
		})
	}
	walk(fd.Body)
	// any matching call not classified above is in a position this extractor does not understand
	var bad error
	ast.Inspect(fd.Body, func(x ast.Node) bool {
		if c, ok := x.(*ast.CallExpr); ok {
			if name, ok := selName(c.Fun); ok && callee.MatchString(name) && !seen[c] {
				bad = fmt.Errorf("%s: call to %s in %s is in a position the extractor does not recognise", f.pos(c), name, fd.Name.Name)
			}
		}
		return true
	})
	if bad != nil {
		return nil, bad
	}
	// source order
	for i := 0; i < len(sites); i++ {
		for j := i + 1; j < len(sites); j++ {
			if sites[j].pos < sites[i].pos {
				sites[i], sites[j] = sites[j], sites[i]
			}
		}
	}
	var out [][2]string
	for _, s := range sites {
		out = append(out, [2]string{s.callee, s.handling})
	}
	return out, nil
}

// c18FlushThenError: `w.encoder.Flush()` followed, as the next statement of the same block,
// by `return w.encoder.Error()`.
func c18FlushThenError(fd *ast.FuncDecl, flush *ast.ExprStmt) string {
	h := "dropped"
	ast.Inspect(fd.Body, func(x ast.Node) bool {
		b, ok := x.(*ast.BlockStmt)
		if !ok {
			return true
		}
		for i, s := range b.List {
			if s == ast.Stmt(flush) && i+1 < len(b.List) {
				if r, ok := b.List[i+1].(*ast.ReturnStmt); ok && len(r.Results) == 1 {
					if args, ok := callTo(r.Results[0], "w.encoder.Error"); ok && len(args) == 0 {
						h = "returned"
					}
				}
			}
		}
		return true
	})
	return h
}
