/-
  Model of a scatter over a shared lister/slicer with merge / combine fan-in (C08).
  Anchors: runtime/sam/op/meta/lister.go Lister.Pull (mutex), slicer.go Slicer.Pull (mutex),
           sequence.go SequenceScanner.Pull, runtime/sam/op/merge/merge.go,
           runtime/sam/op/combine/combine.go, compiler/optimizer/parallelize.go.

  Every scatter leg runs the same SequenceScanner over the *shared* parent: one `Pull` of the
  parent hands the next item (object or partition) to whichever leg called — atomically, the
  parent holds a mutex.  A schedule is therefore the sequence of legs in the order their pulls
  were served: `List Nat`.  The log records, in hand-out order, which leg received which item.
  A leg's output is the concatenation, in hand-out order, of the scans of its items.
-/
import Zed.Model.AggOrder
namespace Zed.Par

variable {α ρ : Type}

structure LState (α : Type) where
  remaining : List α
  log : List (Nat × α) := []

/-- one served Pull by leg `i` (at end of input the leg gets EOS and nothing changes) -/
def pull (st : LState α) (i : Nat) : LState α :=
  match st.remaining with
  | [] => st
  | o :: r => { remaining := r, log := st.log ++ [(i, o)] }

def runSched (items : List α) (sched : List Nat) : LState α :=
  sched.foldl pull { remaining := items }

/-- the items handed to leg `i`, in order -/
def leg (log : List (Nat × α)) (i : Nat) : List α :=
  (log.filter fun p => p.1 == i).map (·.2)

/-- output of leg `i`: scans of its items, concatenated -/
def legOut (scan : α → List ρ) (log : List (Nat × α)) (i : Nat) : List ρ :=
  (leg log i).flatMap scan

def legsOut (scan : α → List ρ) (log : List (Nat × α)) (n : Nat) : List (List ρ) :=
  (List.range n).map (legOut scan log)

/-- parallelism 1: one scanner pulls everything -/
def sequential (scan : α → List ρ) (items : List α) : List ρ := items.flatMap scan

def lt (le : ρ → ρ → Bool) (a b : ρ) : Bool := le a b && !le b a

/-- `merge`: repeatedly emit a head that is minimal among the heads of all legs (ties between
    legs are broken by heap order in the real operator — any choice is allowed here). -/
inductive KMerge (le : ρ → ρ → Bool) : List (List ρ) → List ρ → Prop
  | done {legs : List (List ρ)} : (∀ l ∈ legs, l = []) → KMerge le legs []
  | step {legs : List (List ρ)} {i : Nat} {x : ρ} {t out : List ρ} :
      legs[i]? = some (x :: t) →
      (∀ l ∈ legs, ∀ y, l.head? = some y → le x y = true) →
      KMerge le (legs.set i t) out → KMerge le legs (x :: out)

/-- `combine`: any interleaving of the legs. -/
inductive Interleave : List (List ρ) → List ρ → Prop
  | done {legs : List (List ρ)} : (∀ l ∈ legs, l = []) → Interleave legs []
  | step {legs : List (List ρ)} {i : Nat} {x : ρ} {t out : List ρ} :
      legs[i]? = some (x :: t) → Interleave (legs.set i t) out → Interleave legs (x :: out)

/-- a deterministic instance of `merge` (first minimal head), with fuel = total length -/
def minHead (le : ρ → ρ → Bool) : List (List ρ) → Nat → Option (Nat × ρ) → Option (Nat × ρ)
  | [], _, best => best
  | [] :: ls, i, best => minHead le ls (i + 1) best
  | (x :: _) :: ls, i, none => minHead le ls (i + 1) (some (i, x))
  | (x :: _) :: ls, i, some (j, y) =>
    if lt le x y then minHead le ls (i + 1) (some (i, x)) else minHead le ls (i + 1) (some (j, y))

def kmergeFn (le : ρ → ρ → Bool) : Nat → List (List ρ) → List ρ
  | 0, _ => []
  | fuel + 1, legs =>
    match minHead le legs 0 none with
    | none => []
    | some (i, x) => x :: kmergeFn le fuel (legs.set i (legs[i]!.tail))

end Zed.Par
