import Zed.Model.Ty
/-!
  L1 — `zed.CompareTypes` (type.go) and the member sort of `Context.LookupTypeUnion`.

  `aID == bID` of the Go code is modelled as equality of the underlying structural types
  (ids are canonical inside a context; primitive ids are the ids themselves).  When the ids are
  equal the chains of names are compared from the outside in (since /repo commit "CompareTypes
  ordered distinct named types as equal"; before it only the outermost names were compared and
  `cmpTy` was not a total order).
-/
namespace Zed

/-- `strings.Compare` / `bytes.Compare`: bytewise lexicographic, a proper prefix is smaller. -/
def cmpBytes : Bytes → Bytes → Ordering
  | [], [] => .eq
  | [], _ :: _ => .lt
  | _ :: _, [] => .gt
  | a :: as, b :: bs => (compare a.toNat b.toNat).then (cmpBytes as bs)

/-- pairwise over the common prefix (callers compare the lengths first) -/
def cmpNames : List Name → List Name → Ordering
  | n :: r, m :: s => (cmpBytes n m).then (cmpNames r s)
  | _, _ => .eq

def cmpFieldNames : Fields → Fields → Ordering
  | .cons n _ r, .cons m _ s => (cmpBytes n m).then (cmpFieldNames r s)
  | _, _ => .eq

/-- the `aID == bID` branch of CompareTypes: two named types are ordered by name and, on equal
    names, by the types they name (which again share the underlying id); a named type is above
    the type it names. -/
def cmpRank : Ty → Ty → Ordering
  | .named n x, .named m y => (cmpBytes n m).then (cmpRank x y)
  | .named _ _, _ => .gt
  | _, .named _ _ => .lt
  | _, _ => .eq

/-- CompareTypes on a pair of child types, given the result `r` of the structural branch -/
@[inline] def cmpCombine (x y : Ty) (r : Ordering) : Ordering :=
  if x.under = y.under then cmpRank x y else r

mutual
/-- the `aID != bID` branch of CompareTypes: `a` may still be named (it is stripped here),
    `ub` is already `TypeUnder b`. -/
def cmpS : Ty → Ty → Ordering
  | .named _ x, ub => cmpS x ub
  | .prim i, .prim j => compare i j
  | .record fs, .record gs =>
    (compare fs.length gs.length).then ((cmpFieldNames fs gs).then (cmpFs fs gs))
  | .array x, .array y => cmpCombine x y (cmpS x y.under)
  | .set x, .set y => cmpCombine x y (cmpS x y.under)
  | .map k v, .map k' v' =>
    (cmpCombine k k' (cmpS k k'.under)).then (cmpCombine v v' (cmpS v v'.under))
  | .union ts, .union us => (compare ts.length us.length).then (cmpTs ts us)
  | .enum s, .enum s' => (compare s.length s'.length).then (cmpNames s s')
  | .error x, .error y => cmpCombine x y (cmpS x y.under)
  | .prim i, ub => compare (Ty.prim i).kind ub.kind
  | .record fs, ub => compare (Ty.record fs).kind ub.kind
  | .array x, ub => compare (Ty.array x).kind ub.kind
  | .set x, ub => compare (Ty.set x).kind ub.kind
  | .map k v, ub => compare (Ty.map k v).kind ub.kind
  | .union ts, ub => compare (Ty.union ts).kind ub.kind
  | .enum s, ub => compare (Ty.enum s).kind ub.kind
  | .error x, ub => compare (Ty.error x).kind ub.kind
def cmpFs : Fields → Fields → Ordering
  | .cons _ x r, .cons _ y s => (cmpCombine x y (cmpS x y.under)).then (cmpFs r s)
  | _, _ => .eq
def cmpTs : Tys → Tys → Ordering
  | .cons x r, .cons y s => (cmpCombine x y (cmpS x y.under)).then (cmpTs r s)
  | _, _ => .eq
end

/-- `zed.CompareTypes` -/
def cmpTy (a b : Ty) : Ordering := cmpCombine a b (cmpS a b.under)

def Ordering.toInt : Ordering → Int
  | .lt => -1
  | .eq => 0
  | .gt => 1

/-! ### `sort.SliceStable` as used by `LookupTypeUnion`

  For n ≤ 20 Go's `sort.SliceStable` is exactly one insertion sort in which element `i` moves
  left while `less(data[j], data[j-1])`.  `insRev` is that inner loop on the reversed prefix. -/

def insRev {α} (less : α → α → Bool) (x : α) : List α → List α
  | [] => [x]
  | y :: ys => if less x y then y :: insRev less x ys else x :: y :: ys

def insertionSort {α} (less : α → α → Bool) (l : List α) : List α :=
  (l.foldl (fun acc x => insRev less x acc) []).reverse

def tyLess (a b : Ty) : Bool := cmpTy a b == .lt

def sortTys (l : List Ty) : List Ty := insertionSort tyLess l

end Zed
