import Zed.Model.Sexp
import Zed.Model.OptRewrites
/-!
  Driver glue for C07.  Requests:

  * `(C07 optimize <pools> <seq>)`          → `(ok <seq>)` | `error`
  * `(C07 parallelize <pools> <n> <seq>)`   → `(ok <seq>)` | `error`   (Optimize, then Parallelize n)
  * `(C07 pass <name> <pools> <seq>)`       → `(ok <seq>)` | `error`   (one rewrite alone)
  * `(C07 sortkeys <pools> <seq>)`          → `(keys …)` | `error`     (Optimizer.SortKeys)

  Free strings travel as hex atoms; `<pools>` = `(pools (<id> <sortkeys>) …)`.
-/
namespace Zed.Drv.C07
open Zed Zed.Opt

def hx (s : String) : Sexp := .atom (Sexp.hexOfBytes s.toUTF8.toList)

def unhx (s : String) : Option String := do
  let bs ← Sexp.bytesOfHex s
  String.fromUTF8? (ByteArray.mk bs.toArray)

def boolAtom (b : Bool) : Sexp := .atom (if b then "1" else "0")
def ofBoolAtom : Sexp → Option Bool
  | .atom "1" => some true
  | .atom "0" => some false
  | _ => none

def orderAtom (d : Desc) : Sexp := .atom (if d then "desc" else "asc")
def ofOrderAtom : Sexp → Option Desc
  | .atom "desc" => some true
  | .atom "asc" => some false
  | _ => none

def intAtom (i : Int) : Sexp := .atom (toString i)
def ofIntAtom : Sexp → Option Int
  | .atom s => s.toInt?
  | _ => none

def pathSexp (p : Path) : List Sexp := p.map hx
def ofPath (xs : List Sexp) : Option Path := xs.mapM fun
  | .atom a => unhx a
  | _ => none

mutual
partial def exprOf : Sexp → Option Expr
  | .list (.atom "this" :: p) => do pure (.this (← ofPath p))
  | .list [.atom "lit", .atom v] => do pure (.lit (← unhx v))
  | .list [.atom "bin", .atom op, l, r] => do pure (.bin (← unhx op) (← exprOf l) (← exprOf r))
  | .list [.atom "un", .atom op, e] => do pure (.un (← unhx op) (← exprOf e))
  | .list (.atom "call" :: .atom n :: args) => do pure (.call (← unhx n) (Exprs.ofList (← args.mapM exprOf)))
  | .list [.atom "search", .atom t, .atom v, e] => do pure (.search (← unhx t) (← unhx v) (← exprOf e))
  | .list [.atom "rmatch", .atom p, e] => do pure (.rmatch (← unhx p) (← exprOf e))
  | .list [.atom "rsearch", .atom p, e] => do pure (.rsearch (← unhx p) (← exprOf e))
  | .list [.atom "dot", e, .atom n] => do pure (.dot (← exprOf e) (← unhx n))
  | .list (.atom "rec" :: elems) => do pure (.record (← elemsOf elems))
  | .list (.atom "map" :: es) => do pure (.map (Exprs.ofList (← es.mapM exprOf)))
  | .list [.atom "agg", .atom n, e, w] => do pure (.agg (← unhx n) (← exprOf e) (← exprOf w))
  | .list [.atom "nil"] => some .none
  | .list [.atom "x", .atom k, .atom j] => do pure (.x (← unhx k) (← unhx j))
  | _ => none
partial def elemsOf : List Sexp → Option Elems
  | [] => some .nil
  | .list [.atom "f", .atom n, v] :: r => do pure (.field (← unhx n) (← exprOf v) (← elemsOf r))
  | .list [.atom "s", e] :: r => do pure (.spread (← exprOf e) (← elemsOf r))
  | _ => none
end

mutual
partial def exprSexp : Expr → Sexp
  | .this p => .list (.atom "this" :: pathSexp p)
  | .lit v => .list [.atom "lit", hx v]
  | .bin op l r => .list [.atom "bin", hx op, exprSexp l, exprSexp r]
  | .un op e => .list [.atom "un", hx op, exprSexp e]
  | .call n args => .list (.atom "call" :: hx n :: args.toList.map exprSexp)
  | .search t v e => .list [.atom "search", hx t, hx v, exprSexp e]
  | .rmatch p e => .list [.atom "rmatch", hx p, exprSexp e]
  | .rsearch p e => .list [.atom "rsearch", hx p, exprSexp e]
  | .dot e n => .list [.atom "dot", exprSexp e, hx n]
  | .record el => .list (.atom "rec" :: elemsSexp el)
  | .map es => .list (.atom "map" :: es.toList.map exprSexp)
  | .agg n e w => .list [.atom "agg", hx n, exprSexp e, exprSexp w]
  | .none => .list [.atom "nil"]
  | .x k j => .list [.atom "x", hx k, hx j]
partial def elemsSexp : Elems → List Sexp
  | .nil => []
  | .field n v r => .list [.atom "f", hx n, exprSexp v] :: elemsSexp r
  | .spread e r => .list [.atom "s", exprSexp e] :: elemsSexp r
end

def assignOf : Sexp → Option Assign
  | .list [.atom "a", l, r] => do pure ⟨← exprOf l, ← exprOf r⟩
  | _ => none
def assignSexp (a : Assign) : Sexp := .list [.atom "a", exprSexp a.lhs, exprSexp a.rhs]

def sortKeyOf : Sexp → Option SortKey
  | .list (o :: p) => do pure ⟨← ofOrderAtom o, ← ofPath p⟩
  | _ => none
def sortKeySexp (k : SortKey) : Sexp := .list (orderAtom k.desc :: pathSexp k.key)
def sortKeysOf : Sexp → Option SortKeys
  | .list (.atom "sk" :: ks) => ks.mapM sortKeyOf
  | _ => none
def sortKeysSexp (ks : SortKeys) : Sexp := .list (.atom "sk" :: ks.map sortKeySexp)

def natOf : Sexp → Option Nat
  | .atom s => s.toNat?
  | _ => none

mutual
partial def opOf : Sexp → Option Op
  | .list [.atom "Filter", e] => do pure (.filter (← exprOf e))
  | .list [.atom "Pass"] => some .pass
  | .list [.atom "Head", n] => do pure (.head (← natOf n))
  | .list [.atom "Tail", n] => do pure (.tail (← natOf n))
  | .list (.atom "Cut" :: as) => do pure (.cut (← as.mapM assignOf))
  | .list (.atom "Drop" :: es) => do pure (.drop (← es.mapM exprOf))
  | .list (.atom "Put" :: as) => do pure (.put (← as.mapM assignOf))
  | .list (.atom "Rename" :: as) => do pure (.rename (← as.mapM assignOf))
  | .list (.atom "Yield" :: es) => do pure (.yield (← es.mapM exprOf))
  | .list (.atom "Sort" :: nf :: rev :: ks) => do
    let args ← ks.mapM fun
      | .list [.atom "k", e, o] => do pure (SortArg.mk (← exprOf e) (← ofOrderAtom o))
      | _ => none
    pure (.sort args (← ofBoolAtom nf) (← ofBoolAtom rev))
  | .list [.atom "Uniq", c] => do pure (.uniq (← ofBoolAtom c))
  | .list [.atom "Fuse"] => some .fuse
  | .list [.atom "Summarize", lim, dir, pin, pout, .list (.atom "keys" :: ks), .list (.atom "aggs" :: as)] => do
    pure (.summarize (← natOf lim) (← ks.mapM assignOf) (← as.mapM assignOf) (← ofIntAtom dir) (← ofBoolAtom pin) (← ofBoolAtom pout))
  | .list (.atom "Fork" :: ps) => do pure (.fork (Seqs.ofList (← ps.mapM seqOf)))
  | .list (.atom "Scatter" :: ps) => do pure (.scatter (Seqs.ofList (← ps.mapM seqOf)))
  | .list [.atom "Mirror", m, mi] => do pure (.mirror (← seqOf m) (← seqOf mi))
  | .list [.atom "Scope", .atom h, b] => do pure (.scope (← unhx h) (← seqOf b))
  | .list [.atom "Over", .atom h, hb, b] => do pure (.over (← unhx h) (← ofBoolAtom hb) (← seqOf b))
  | .list [.atom "Merge", e, o] => do pure (.merge (← exprOf e) (← ofOrderAtom o))
  | .list [.atom "Combine"] => some .combine
  | .list [.atom "Join", .atom st, lk, ld, rk, rd, .atom args] => do
    pure (.join (← unhx st) (← exprOf lk) (← ofIntAtom ld) (← exprOf rk) (← ofIntAtom rd) (← unhx args))
  | .list [.atom "Output", .atom n] => do pure (.output (← unhx n))
  | .list [.atom "DefaultScan", f, sk] => do pure (.defaultScan (← exprOf f) (← sortKeysOf sk))
  | .list [.atom "FileScan", .atom h, f, sk] => do pure (.fileScan (← unhx h) (← exprOf f) (← sortKeysOf sk))
  | .list [.atom "PoolScan", .atom id, .atom c] => some (.poolScan id c)
  | .list [.atom "Lister", .atom p, .atom c] => some (.lister p c)
  | .list [.atom "Slicer"] => some .slicer
  | .list [.atom "SeqScan", .atom p, .atom c, .list (.atom "fields" :: fs), f] => do
    let fields ← fs.mapM fun
      | .list p => ofPath p
      | _ => none
    pure (.seqScan p c fields (← exprOf f))
  | .list [.atom "X", .atom k, .atom j] => do pure (.X (← unhx k) (← unhx j))
  | _ => none
partial def seqOf : Sexp → Option Seq
  | .list (.atom "seq" :: ops) => do pure (Seq.ofList (← ops.mapM opOf))
  | _ => none
end

mutual
partial def opSexp : Op → Sexp
  | .filter e => .list [.atom "Filter", exprSexp e]
  | .pass => .list [.atom "Pass"]
  | .head n => .list [.atom "Head", .atom (toString n)]
  | .tail n => .list [.atom "Tail", .atom (toString n)]
  | .cut as => .list (.atom "Cut" :: as.map assignSexp)
  | .drop es => .list (.atom "Drop" :: es.map exprSexp)
  | .put as => .list (.atom "Put" :: as.map assignSexp)
  | .rename as => .list (.atom "Rename" :: as.map assignSexp)
  | .yield es => .list (.atom "Yield" :: es.map exprSexp)
  | .sort args nf rev =>
    .list (.atom "Sort" :: boolAtom nf :: boolAtom rev :: args.map fun a => .list [.atom "k", exprSexp a.key, orderAtom a.desc])
  | .uniq c => .list [.atom "Uniq", boolAtom c]
  | .fuse => .list [.atom "Fuse"]
  | .summarize lim keys aggs dir pin pout =>
    .list [.atom "Summarize", .atom (toString lim), intAtom dir, boolAtom pin, boolAtom pout,
      .list (.atom "keys" :: keys.map assignSexp), .list (.atom "aggs" :: aggs.map assignSexp)]
  | .fork ps => .list (.atom "Fork" :: ps.toList.map seqSexp)
  | .scatter ps => .list (.atom "Scatter" :: ps.toList.map seqSexp)
  | .mirror m mi => .list [.atom "Mirror", seqSexp m, seqSexp mi]
  | .scope h b => .list [.atom "Scope", hx h, seqSexp b]
  | .over h hb b => .list [.atom "Over", hx h, boolAtom hb, seqSexp b]
  | .merge e o => .list [.atom "Merge", exprSexp e, orderAtom o]
  | .combine => .list [.atom "Combine"]
  | .join st lk ld rk rd args => .list [.atom "Join", hx st, exprSexp lk, intAtom ld, exprSexp rk, intAtom rd, hx args]
  | .output n => .list [.atom "Output", hx n]
  | .defaultScan f sk => .list [.atom "DefaultScan", exprSexp f, sortKeysSexp sk]
  | .fileScan h f sk => .list [.atom "FileScan", hx h, exprSexp f, sortKeysSexp sk]
  | .poolScan id c => .list [.atom "PoolScan", .atom id, .atom c]
  | .lister p c => .list [.atom "Lister", .atom p, .atom c]
  | .slicer => .list [.atom "Slicer"]
  | .seqScan p c fs f =>
    .list [.atom "SeqScan", .atom p, .atom c, .list (.atom "fields" :: fs.map fun p => .list (pathSexp p)), exprSexp f]
  | .X k j => .list [.atom "X", hx k, hx j]
partial def seqSexp : Seq → Sexp
  | s => .list (.atom "seq" :: s.toList.map opSexp)
end

def poolsOf : Sexp → Option Pools
  | .list (.atom "pools" :: ps) => ps.mapM fun
    | .list [.atom id, sk] => do pure (id, ← sortKeysOf sk)
    | _ => none
  | _ => none

def okSeq (s : Seq) : String := toString (Sexp.list [.atom "ok", seqSexp s])

def runPass (pools : Pools) (name : String) (s : Seq) : Option Seq :=
  match name with
  | "mergeFilters" => some (mergeFilters s)
  | "removePassOps" => some (removePassOps s)
  | "optimizeParallels" => some (optimizeParallels pools s)
  | "optimizeSourcePaths" => optimizeSourcePaths pools s
  | _ => none

def handle : List Sexp → String
  | [.atom "optimize", p, s] =>
    match poolsOf p, seqOf s with
    | some pools, some seq =>
      match optimize pools seq with
      | .ok r => okSeq r
      | .error => "error"
    | _, _ => "bad-op"
  | [.atom "parallelize", p, n, s] =>
    match poolsOf p, natOf n, seqOf s with
    | some pools, some n, some seq =>
      match optimize pools seq with
      | .ok r =>
        match parallelize pools (nentOf pools seq) n r with
        | some r' => okSeq r'
        | none => "error"
      | .error => "error"
    | _, _, _ => "bad-op"
  | [.atom "pass", .atom name, p, s] =>
    match poolsOf p, seqOf s with
    | some pools, some seq =>
      match runPass pools name seq with
      | some r => okSeq r
      | none => "error"
    | _, _ => "bad-op"
  | [.atom "sortkeys", p, s] =>
    match poolsOf p, seqOf s with
    | some pools, some seq =>
      match (propagateSortKey pools seq [[]]).2 with
      | some ks => toString (Sexp.list (.atom "keys" :: ks.map sortKeysSexp))
      | none => "error"
    | _, _ => "bad-op"
  | [.atom "echo", s] =>
    match seqOf s with
    | some seq => okSeq seq
    | none => "bad-op"
  | _ => "bad-op"

end Zed.Drv.C07
