/-
  Compaction: shape of the patch `CommitCompact` builds, and the refinement theorem
  (a successful compaction leaves the contents of the branch unchanged).  Helper for C14.
-/
import Zed.Proofs.LakeSorted
import Zed.Proofs.LakeRevert
namespace Zed.Lake
variable {K V : Type}

theorem addAll_spec (p p' : Patch K) (os : List (Obj K)) (h : addAll p os = .ok p') :
    p' = { p with diff := { p.diff with objs := p.diff.objs ++ os } } := by
  induction os generalizing p with
  | nil => simp only [addAll, Except.ok.injEq] at h; subst h; simp
  | cons o os ih =>
    unfold addAll at h
    cases ha : p.addObj o with
    | error e => simp [ha] at h
    | ok p1 =>
      simp only [ha] at h
      rw [ih p1 h, (addObj_diff p p1 o ha).2.2]
      simp [List.append_assoc]

theorem addVecAll_spec (p p' : Patch K) (ids : List Nat) (h : addVecAll p ids = .ok p') :
    p' = { p with diff := { p.diff with vecs := p.diff.vecs ++ ids } } := by
  induction ids generalizing p with
  | nil => simp only [addVecAll, Except.ok.injEq] at h; subst h; simp
  | cons i is ih =>
    unfold addVecAll at h
    cases ha : p.addVec i with
    | error e => simp [ha] at h
    | ok p1 =>
      simp only [ha] at h
      have hp1 : p1 = { p with diff := { p.diff with vecs := p.diff.vecs ++ [i] } } := by
        unfold Patch.addVec at ha
        split at ha
        · cases ha
        · cases hd : p.diff.addVec i with
          | error e => simp [hd] at ha
          | ok d =>
            simp only [hd, Except.ok.injEq] at ha
            unfold Snap.addVec at hd
            split at hd
            · cases hd
            · cases hd; rw [← ha]
      rw [ih p1 h, hp1]
      simp [List.append_assoc]

theorem delAll_spec (p p' : Patch K) (ids : List Nat) (hnd : ∀ id ∈ ids, p.diff.hasObj id = false)
    (h : delAll p ids = .ok p') : p' = { p with delObjs := p.delObjs ++ ids } := by
  induction ids generalizing p with
  | nil => simp only [delAll, Except.ok.injEq] at h; subst h; simp
  | cons i is ih =>
    unfold delAll at h
    cases ha : p.delObj i with
    | error e => simp [ha] at h
    | ok p1 =>
      simp only [ha] at h
      have hp1 : p1 = { p with delObjs := p.delObjs ++ [i] } := by
        unfold Patch.delObj at ha
        rw [hnd i (by simp)] at ha
        simp only [Bool.false_eq_true, if_false] at ha
        split at ha
        · cases ha
        · cases ha; rfl
      subst hp1
      rw [ih { p with delObjs := p.delObjs ++ [i] } (fun id hid => hnd id (by simp [hid])) h]
      simp [List.append_assoc]

theorem play_addVecs (s : Snap K) (ids : List Nat) (hn : ids.Nodup) (hout : ∀ id ∈ ids, s.hasVec id = false) :
    play s (ids.map .addVec) = .ok { s with vecs := s.vecs ++ ids } := by
  induction ids generalizing s with
  | nil => simp [play]
  | cons i is ih =>
    have hi := hout i (by simp)
    have hn' := List.nodup_cons.mp hn
    simp only [List.map_cons, play, playAction, Snap.addVec, hi, Bool.false_eq_true, if_false]
    rw [ih { s with vecs := s.vecs ++ [i] } hn'.2 (by
      intro id hid
      have h1 := hout id (by simp [hid])
      have hne : id ≠ i := fun h => hn'.1 (h ▸ hid)
      simp only [Snap.hasVec, List.contains_eq_mem, List.mem_append, List.mem_singleton, decide_eq_false_iff_not] at h1 ⊢
      intro hc
      rcases hc with hc | hc
      · exact h1 hc
      · exact hne hc)]
    simp [List.append_assoc]
end Zed.Lake

namespace Zed.Lake
variable {K V : Type} [DecidableEq V]

theorem commit_snap_ (s : State K V) (b t : Nat) (acts : List (Action K)) (snap : Snap K)
    (h : snapAt s.commits t = .ok snap) :
    snapAt (s.commit b t acts).commits (s.commits.length + 1) = play snap acts := by
  rw [commit_commits, snapAt_new, commitSnap_eq]
  simp only [h]

theorem flatMap_congr'' {α β : Type} (l : List α) (f g : α → List β) (h : ∀ a ∈ l, f a = g a) :
    l.flatMap f = l.flatMap g := by
  induction l with
  | nil => rfl
  | cons a as ih =>
    simp only [List.flatMap_cons]
    rw [h a (by simp), ih (fun x hx => h x (by simp [hx]))]

theorem hasObj_of_mem (snap : Snap K) (o : Obj K) (h : o ∈ snap.objs) : snap.hasObj o.id = true := by
  simp only [Snap.hasObj, List.any_eq_true]; exact ⟨o, h, by simp⟩

theorem hasObj_lt (snap : Snap K) (n id : Nat) (h : ∀ o ∈ snap.objs, o.id < n) (hh : snap.hasObj id = true) : id < n := by
  obtain ⟨o, ho, hoid⟩ := List.any_eq_true.mp hh
  have := h o ho
  have : o.id = id := by simpa using hoid
  omega

/-- **refinement, compaction**: a successful compaction leaves the branch readable with
    exactly the same contents. -/
theorem compact_refines (cfg : Cfg K V) (s s' : State K V) (b : Nat) (ids : List Nat) (vec : Bool)
    (parts : List (List V)) (h : compact cfg s b ids vec parts = .ok s')
    (hfiles : ∀ f ∈ s.files, f.1 < s.nextObj) :
    ∃ t, s.tip b = some t ∧ ∀ snap, snapAt s.commits t = .ok snap →
      (∀ o ∈ snap.objs, o.id < s.nextObj) → (∀ v ∈ snap.vecs, v < s.nextObj) →
      (snap.objs.map (·.id)).Nodup →
      ∃ snap', snapAt s'.commits (s.commits.length + 1) = .ok snap' ∧
        (snap'.objs.flatMap (pay s'.files)).Perm (snap.objs.flatMap (pay s.files)) ∧
        ∀ o ∈ snap'.objs, o ∈ snap.objs ∨ (fileOf s'.files o.id).isSome = true := by
  unfold compact at h
  split at h
  · cases h
  · split at h
    · cases h
    · rename_i t ht
      refine ⟨t, ht, ?_⟩
      intro snap hs hfresh hvfresh hnodup
      simp only [hs] at h
      split at h
      · cases h
      · split at h
        · cases h
        · rename_i merged hscan
          split at h
          · cases h
          · rename_i hvalid
            have w := writeObjs_spec cfg s parts hfiles
            cases hw : writeObjs cfg s parts with
            | mk s1 objs =>
              rw [hw] at h w
              simp only [] at h w
              split at h
              · cases h
              · rename_i p1 hp1
                split at h
                · cases h
                · rename_i p2 hp2
                  split at h
                  · cases h
                  · rename_i p3 hp3
                    cases h
                    have e1 := addAll_spec _ _ _ hp1
                    have e2 := addVecAll_spec _ _ _ hp2
                    have hsrc_lt : ∀ id ∈ (snap.objs.filter (fun o => ids.contains o.id)).map (·.id), id < s.nextObj := by
                      intro id hid
                      obtain ⟨o, ho, hoid⟩ := List.mem_map.mp hid
                      rw [← hoid]; exact hfresh o (List.mem_filter.mp ho).1
                    have e3 := delAll_spec p2 p3 _ (by
                      intro id hid
                      rw [e2, e1]
                      simp only [Patch.new, Snap.hasObj, List.nil_append]
                      rw [List.any_eq_false]
                      intro o ho hc
                      have h1 := (w.ids o ho).1
                      have h2 := hsrc_lt id hid
                      have : o.id = id := by simpa using hc
                      omega) hp3
                    -- the commit object
                    have hacts : p3.commitActions =
                        ((snap.objs.filter (fun o => ids.contains o.id)).map (·.id)).map .del ++ objs.map .add ++
                          (if vec = true then objs.map (·.id) else []).map .addVec := by
                      rw [e3, e2, e1]
                      simp [Patch.commitActions, Patch.new]
                    have hc1 : s1.commits = s.commits := by
                      have := writeObjs_commits cfg s parts; rw [hw] at this; exact this
                    have hs1 : snapAt s1.commits t = .ok snap := by rw [hc1]; exact hs
                    have hlen : s.commits.length = s1.commits.length := by rw [hc1]
                    -- play it on the tip snapshot
                    have hsrcnd : ((snap.objs.filter (fun o => ids.contains o.id)).map (·.id)).Nodup := by
                      rw [ids_filter snap.objs (fun i => ids.contains i)]; exact hnodup.filter _
                    obtain ⟨S1, hS1, _, hm1⟩ := play_dels snap _ hsrcnd (by
                      intro id hid
                      obtain ⟨o, ho, hoid⟩ := List.mem_map.mp hid
                      rw [← hoid]; exact hasObj_of_mem snap o (List.mem_filter.mp ho).1)
                    obtain ⟨hS1o, hS1v⟩ := play_dels_objs snap S1 _ hS1
                    have hadds := play_adds S1 objs w.nodup (by
                      intro o ho
                      rw [hm1]
                      have : snap.hasObj o.id = false := by
                        cases hc : snap.hasObj o.id with
                        | false => rfl
                        | true => have := hasObj_lt snap _ _ hfresh hc; have := (w.ids o ho).1; omega
                      rw [this]; rfl)
                    have hvecs := play_addVecs ({ S1 with objs := S1.objs ++ objs } : Snap K)
                      (if vec = true then objs.map (·.id) else [])
                      (by split; exact w.nodup; simp)
                      (by
                        intro id hid
                        have hin : id ∈ objs.map (·.id) := by
                          split at hid
                          · exact hid
                          · simp at hid
                        obtain ⟨o, ho, hoid⟩ := List.mem_map.mp hin
                        show S1.vecs.contains id = false
                        rw [hS1v]
                        cases hc : snap.vecs.contains id with
                        | false => rfl
                        | true =>
                          have := hvfresh id (by simpa using hc)
                          have := (w.ids o ho).1
                          omega)
                    refine ⟨{ objs := S1.objs ++ objs, vecs := S1.vecs ++ (if vec = true then objs.map (fun x => x.id) else []) }, by
                      rw [hlen, commit_snap_ s1 b t _ snap hs1, hacts, play_append, play_append, hS1]
                      simp only [hadds, hvecs], ?_, ?_⟩
                    rotate_left
                    · intro o ho
                      simp only [List.mem_append] at ho
                      rcases ho with h1 | h1
                      · rw [hS1o] at h1; exact Or.inl (List.mem_filter.mp h1).1
                      · exact Or.inr (by rw [commit_files]; exact w.present o h1)
                    -- contents
                    simp only [commit_files, List.flatMap_append]
                    obtain ⟨e, he, hee⟩ := w.ext
                    have hold : ∀ l : List (Obj K), (∀ o ∈ l, o ∈ snap.objs) →
                        l.flatMap (pay s1.files) = l.flatMap (pay s.files) := by
                      intro l hl
                      apply flatMap_congr''
                      intro o ho
                      unfold pay
                      rw [he, fileOf_append_none]
                      intro f hf
                      have := (hee f hf).1
                      have := hfresh o (hl o ho)
                      omega
                    rw [hS1o, hold _ (fun o ho => (List.mem_filter.mp ho).1), w.payload]
                    have hfil : snap.objs.filter (fun o => !((snap.objs.filter (fun o => ids.contains o.id)).map (·.id)).contains o.id)
                        = snap.objs.filter (fun o => !ids.contains o.id) := by
                      apply List.filter_congr
                      intro o ho
                      congr 1
                      cases hc : ids.contains o.id with
                      | true =>
                        have : o.id ∈ (snap.objs.filter (fun o => ids.contains o.id)).map (·.id) :=
                          List.mem_map.mpr ⟨o, List.mem_filter.mpr ⟨ho, hc⟩, rfl⟩
                        simpa using this
                      | false =>
                        cases hc2 : ((snap.objs.filter (fun o => ids.contains o.id)).map (·.id)).contains o.id with
                        | false => rfl
                        | true =>
                          have hm2 : o.id ∈ (snap.objs.filter (fun o => ids.contains o.id)).map (fun x => x.id) :=
                            List.contains_iff_mem.mp hc2
                          obtain ⟨o', ho', hoid'⟩ := List.mem_map.mp hm2
                          have := (List.mem_filter.mp ho').2
                          rw [hoid', hc] at this; cases this
                    rw [hfil]
                    have hvp : validParts cfg merged parts = true := by
                      have : (validParts cfg merged parts && isSorted cfg parts.flatten && validCuts cfg parts) = true := by
                        simpa using hvalid
                      simp only [Bool.and_eq_true] at this
                      exact this.1.1
                    have hperm : parts.flatten.Perm merged := by
                      unfold validParts at hvp
                      simp only [Bool.and_eq_true] at hvp
                      exact List.isPerm_iff.mp hvp.2
                    have hm := scanObjs_perm cfg s.files _ merged hscan
                    have hsplit := (List.filter_append_perm (fun o => !ids.contains o.id) snap.objs)
                    have h2 : (snap.objs.filter fun o => !!ids.contains o.id) = snap.objs.filter (fun o => ids.contains o.id) := by
                      congr 1; funext o; cases ids.contains o.id <;> rfl
                    rw [h2] at hsplit
                    exact ((List.Perm.append_left _ (hperm.trans hm)).trans
                      (by rw [← List.flatMap_append]; exact hsplit.flatMap_right _))
end Zed.Lake
