package main

// Context-independent trees for Zed types (T) and values (V), conversions to and from the
// real zed.Type / zed.Value, and the s-expression syntax spoken with the Lean driver.
//
//	type:  (p <id>) (r (<hexname> T)…) (a T) (s T) (m K V) (u T…) (n <hexname> T) (e T) (en <hexsym>…)
//	value: n | (p <primid> <hex>) | (r V…) | (l V…) | (m V…) | (u <tag> V)
//
// A value tree is self-describing at the leaves (primitive id under all names) and
// otherwise positional; `(l …)` is an array or set body, `(m …)` alternates keys and values.

import (
	"encoding/hex"
	"fmt"
	"sort"
	"strconv"
	"strings"

	zed "github.com/brimdata/super"
	"github.com/brimdata/super/zcode"
)

type F struct {
	Name string `json:"n"`
	Type *T     `json:"t"`
}

type T struct {
	K      string   `json:"k"` // p r a s m u n e en
	ID     int      `json:"id,omitempty"`
	Name   string   `json:"name,omitempty"`
	Fields []F      `json:"fields,omitempty"`
	Elems  []*T     `json:"elems,omitempty"` // a,s,n,e: 1; m: 2; u: n
	Syms   []string `json:"syms,omitempty"`
}

func hexAtom(b []byte) string {
	if len(b) == 0 {
		return "-"
	}
	return hex.EncodeToString(b)
}

func (t *T) Sexp() string {
	var b strings.Builder
	t.sexp(&b)
	return b.String()
}

func (t *T) sexp(b *strings.Builder) {
	switch t.K {
	case "p":
		fmt.Fprintf(b, "(p %d)", t.ID)
	case "r":
		b.WriteString("(r")
		for _, f := range t.Fields {
			b.WriteString(" (" + hexAtom([]byte(f.Name)) + " ")
			f.Type.sexp(b)
			b.WriteString(")")
		}
		b.WriteString(")")
	case "n":
		b.WriteString("(n " + hexAtom([]byte(t.Name)) + " ")
		t.Elems[0].sexp(b)
		b.WriteString(")")
	case "en":
		b.WriteString("(en")
		for _, s := range t.Syms {
			b.WriteString(" " + hexAtom([]byte(s)))
		}
		b.WriteString(")")
	default:
		b.WriteString("(" + t.K)
		for _, e := range t.Elems {
			b.WriteString(" ")
			e.sexp(b)
		}
		b.WriteString(")")
	}
}

func (t *T) Under() *T {
	for t.K == "n" {
		t = t.Elems[0]
	}
	return t
}

// OfType converts a real type to a tree (exported fields only).
func OfType(t zed.Type) *T {
	switch t := t.(type) {
	case *zed.TypeNamed:
		return &T{K: "n", Name: t.Name, Elems: []*T{OfType(t.Type)}}
	case *zed.TypeRecord:
		r := &T{K: "r"}
		for _, f := range t.Fields {
			r.Fields = append(r.Fields, F{f.Name, OfType(f.Type)})
		}
		return r
	case *zed.TypeArray:
		return &T{K: "a", Elems: []*T{OfType(t.Type)}}
	case *zed.TypeSet:
		return &T{K: "s", Elems: []*T{OfType(t.Type)}}
	case *zed.TypeMap:
		return &T{K: "m", Elems: []*T{OfType(t.KeyType), OfType(t.ValType)}}
	case *zed.TypeUnion:
		r := &T{K: "u"}
		for _, m := range t.Types {
			r.Elems = append(r.Elems, OfType(m))
		}
		return r
	case *zed.TypeError:
		return &T{K: "e", Elems: []*T{OfType(t.Type)}}
	case *zed.TypeEnum:
		return &T{K: "en", Syms: append([]string(nil), t.Symbols...)}
	default:
		return &T{K: "p", ID: t.ID()}
	}
}

// Build enters the tree into a real context.
func (t *T) Build(zctx *zed.Context) (zed.Type, error) {
	switch t.K {
	case "p":
		typ, err := zed.LookupPrimitiveByID(t.ID)
		if err != nil {
			return nil, err
		}
		return typ, nil
	case "r":
		var fs []zed.Field
		for _, f := range t.Fields {
			ft, err := f.Type.Build(zctx)
			if err != nil {
				return nil, err
			}
			fs = append(fs, zed.NewField(f.Name, ft))
		}
		return zctx.LookupTypeRecord(fs)
	case "a", "s", "e", "n":
		inner, err := t.Elems[0].Build(zctx)
		if err != nil {
			return nil, err
		}
		switch t.K {
		case "a":
			return zctx.LookupTypeArray(inner), nil
		case "s":
			return zctx.LookupTypeSet(inner), nil
		case "e":
			return zctx.LookupTypeError(inner), nil
		}
		return zctx.LookupTypeNamed(t.Name, inner)
	case "m":
		k, err := t.Elems[0].Build(zctx)
		if err != nil {
			return nil, err
		}
		v, err := t.Elems[1].Build(zctx)
		if err != nil {
			return nil, err
		}
		return zctx.LookupTypeMap(k, v), nil
	case "u":
		var ts []zed.Type
		for _, e := range t.Elems {
			m, err := e.Build(zctx)
			if err != nil {
				return nil, err
			}
			ts = append(ts, m)
		}
		return zctx.LookupTypeUnion(ts), nil
	case "en":
		return zctx.LookupTypeEnum(t.Syms), nil
	}
	return nil, fmt.Errorf("bad type tree kind %q", t.K)
}

// synthetic leaf ids of the Lean model for values of enum and error types
const (
	idEnumLeaf  = 1000
	idErrorLeaf = 1001
)

// V is a value tree.
type V struct {
	Null  bool   `json:"null,omitempty"`
	K     string `json:"k,omitempty"` // p r l m u
	ID    int    `json:"id,omitempty"`
	Bytes string `json:"b,omitempty"` // hex of the primitive body
	Tag   int    `json:"tag,omitempty"`
	Elems []*V   `json:"e,omitempty"`
}

func (v *V) Sexp() string {
	var b strings.Builder
	v.sexp(&b)
	return b.String()
}

func (v *V) sexp(b *strings.Builder) {
	if v.Null {
		b.WriteString("n")
		return
	}
	switch v.K {
	case "p":
		x := v.Bytes
		if x == "" {
			x = "-"
		}
		fmt.Fprintf(b, "(p %d %s)", v.ID, x)
	case "u":
		fmt.Fprintf(b, "(u %d ", v.Tag)
		v.Elems[0].sexp(b)
		b.WriteString(")")
	default:
		b.WriteString("(" + v.K)
		for _, e := range v.Elems {
			b.WriteString(" ")
			e.sexp(b)
		}
		b.WriteString(")")
	}
}

// OfValue decodes the bytes of a value of the given real type into a tree.
func OfValue(typ zed.Type, b zcode.Bytes) (*V, error) {
	if b == nil {
		return &V{Null: true}, nil
	}
	switch t := zed.TypeUnder(typ).(type) {
	case *zed.TypeRecord:
		v := &V{K: "r"}
		it := b.Iter()
		for _, f := range t.Fields {
			if it.Done() {
				return nil, fmt.Errorf("record body too short")
			}
			e, err := OfValue(f.Type, it.Next())
			if err != nil {
				return nil, err
			}
			v.Elems = append(v.Elems, e)
		}
		if !it.Done() {
			return nil, fmt.Errorf("record body too long")
		}
		return v, nil
	case *zed.TypeArray, *zed.TypeSet:
		v := &V{K: "l"}
		inner := zed.InnerType(t)
		for it := b.Iter(); !it.Done(); {
			e, err := OfValue(inner, it.Next())
			if err != nil {
				return nil, err
			}
			v.Elems = append(v.Elems, e)
		}
		return v, nil
	case *zed.TypeMap:
		v := &V{K: "m"}
		for it := b.Iter(); !it.Done(); {
			k, err := OfValue(t.KeyType, it.Next())
			if err != nil {
				return nil, err
			}
			if it.Done() {
				return nil, fmt.Errorf("map body odd")
			}
			x, err := OfValue(t.ValType, it.Next())
			if err != nil {
				return nil, err
			}
			v.Elems = append(v.Elems, k, x)
		}
		return v, nil
	case *zed.TypeUnion:
		it := b.Iter()
		if it.Done() {
			return nil, fmt.Errorf("union body empty")
		}
		tag := int(zed.DecodeInt(it.Next()))
		if tag < 0 || tag >= len(t.Types) || it.Done() {
			return nil, fmt.Errorf("union tag %d out of range", tag)
		}
		e, err := OfValue(t.Types[tag], it.Next())
		if err != nil {
			return nil, err
		}
		if !it.Done() {
			return nil, fmt.Errorf("union body too long")
		}
		return &V{K: "u", Tag: tag, Elems: []*V{e}}, nil
	case *zed.TypeError:
		// opaque leaf: the shaper never looks inside an error value
		return &V{K: "p", ID: idErrorLeaf, Bytes: hex.EncodeToString(b)}, nil
	case *zed.TypeEnum:
		return &V{K: "p", ID: idEnumLeaf, Bytes: hex.EncodeToString(b)}, nil
	default:
		return &V{K: "p", ID: zed.TypeUnder(typ).ID(), Bytes: hex.EncodeToString(b)}, nil
	}
}

// Encode appends the value tree v of (real) type typ to the builder.  Set bodies are
// normalized by the real zed.NormalizeSet so that inputs are valid values.
func (v *V) Encode(typ zed.Type, b *zcode.Builder) error {
	if v.Null {
		b.Append(nil)
		return nil
	}
	switch t := zed.TypeUnder(typ).(type) {
	case *zed.TypeRecord:
		if v.K != "r" || len(v.Elems) != len(t.Fields) {
			return fmt.Errorf("value does not fit record type")
		}
		b.BeginContainer()
		for i, f := range t.Fields {
			if err := v.Elems[i].Encode(f.Type, b); err != nil {
				return err
			}
		}
		b.EndContainer()
	case *zed.TypeArray, *zed.TypeSet:
		if v.K != "l" {
			return fmt.Errorf("value does not fit array/set type")
		}
		b.BeginContainer()
		for _, e := range v.Elems {
			if err := e.Encode(zed.InnerType(t), b); err != nil {
				return err
			}
		}
		if _, ok := t.(*zed.TypeSet); ok {
			b.TransformContainer(zed.NormalizeSet)
		}
		b.EndContainer()
	case *zed.TypeMap:
		if v.K != "m" || len(v.Elems)%2 != 0 {
			return fmt.Errorf("value does not fit map type")
		}
		b.BeginContainer()
		for i := 0; i < len(v.Elems); i += 2 {
			if err := v.Elems[i].Encode(t.KeyType, b); err != nil {
				return err
			}
			if err := v.Elems[i+1].Encode(t.ValType, b); err != nil {
				return err
			}
		}
		b.TransformContainer(zed.NormalizeMap)
		b.EndContainer()
	case *zed.TypeUnion:
		if v.K != "u" || v.Tag >= len(t.Types) {
			return fmt.Errorf("value does not fit union type")
		}
		b.BeginContainer()
		b.Append(zed.EncodeInt(int64(v.Tag)))
		if err := v.Elems[0].Encode(t.Types[v.Tag], b); err != nil {
			return err
		}
		b.EndContainer()
	case *zed.TypeError:
		if v.K == "x" && len(v.Elems) == 1 {
			// generator form: the inner value as a tree
			return v.Elems[0].Encode(t.Type, b)
		}
		if v.K != "p" || v.ID != idErrorLeaf {
			return fmt.Errorf("value does not fit error type")
		}
		raw, err := hex.DecodeString(v.Bytes)
		if err != nil {
			return err
		}
		if raw == nil {
			raw = []byte{}
		}
		b.Append(raw)
	default:
		if v.K != "p" {
			return fmt.Errorf("value does not fit primitive type")
		}
		raw, err := hex.DecodeString(v.Bytes)
		if err != nil {
			return err
		}
		if raw == nil {
			raw = []byte{}
		}
		b.Append(raw)
	}
	return nil
}

// Canon returns a canonical string of a value tree in which array elements keep their
// order and set bodies are sorted and de-duplicated (isSet is decided by the type tree).
func Canon(t *T, v *V) string {
	if v.Null {
		return "n"
	}
	u := t.Under()
	switch u.K {
	case "r":
		var parts []string
		for i, e := range v.Elems {
			if i < len(u.Fields) {
				parts = append(parts, Canon(u.Fields[i].Type, e))
			} else {
				parts = append(parts, "?")
			}
		}
		return "(r " + strings.Join(parts, " ") + ")"
	case "a", "s":
		var parts []string
		for _, e := range v.Elems {
			parts = append(parts, Canon(u.Elems[0], e))
		}
		if u.K == "s" {
			sort.Strings(parts)
			parts = dedup(parts)
		}
		return "(l " + strings.Join(parts, " ") + ")"
	case "m":
		var parts []string
		for i := 0; i+1 < len(v.Elems); i += 2 {
			parts = append(parts, Canon(u.Elems[0], v.Elems[i])+"=>"+Canon(u.Elems[1], v.Elems[i+1]))
		}
		sort.Strings(parts)
		return "(m " + strings.Join(parts, " ") + ")"
	case "u":
		if v.K != "u" || v.Tag >= len(u.Elems) {
			return "(bad-union)"
		}
		return "(u " + strconv.Itoa(v.Tag) + " " + Canon(u.Elems[v.Tag], v.Elems[0]) + ")"
	default:
		return fmt.Sprintf("(p %d %s)", v.ID, v.Bytes)
	}
}

func dedup(xs []string) []string {
	var out []string
	for i, x := range xs {
		if i == 0 || x != xs[i-1] {
			out = append(out, x)
		}
	}
	return out
}
