/-
  Helper lemmas for C12 / C17: branch commits (Layer 2b).
  Commit ids are fresh; the id of a commit attempt is referenced by nothing until its own journal
  entry exists, so deleting the object of a failed attempt never damages a chain; every
  acknowledged commit stays on the parent path from its branch's tip.
-/
import Zed.Proofs.StoreTables
namespace Zed.Store

def JAct.val : JAct → Option Nat
  | .add _ v => some v
  | .update _ v => some v
  | .delete _ => none

/-- Value v has been written into journal j (as the value of an add or update action). -/
def Ref (s : Store) (j v : Nat) : Prop :=
  ∃ n acts a, s (.ent j n) = some (.entry acts) ∧ a ∈ acts ∧ JAct.val a = some v

theorem Ref.congr {s s' : Store} {j v : Nat} (h : ∀ n, s' (.ent j n) = s (.ent j n)) (r : Ref s j v) : Ref s' j v := by
  obtain ⟨n, acts, a, h1, h2, h3⟩ := r
  exact ⟨n, acts, a, by rw [h n]; exact h1, h2, h3⟩

theorem Ref.put_ent {s : Store} {j n v : Nat} {acts : List JAct} (hnone : s (.ent j n) = none) :
    Ref (s.put (.ent j n) (.entry acts)) j v ↔ (Ref s j v ∨ ∃ a ∈ acts, JAct.val a = some v) := by
  constructor
  · rintro ⟨m, acts', a, h1, h2, h3⟩
    by_cases hm : m = n
    · subst hm; simp at h1; subst h1; exact Or.inr ⟨a, h2, h3⟩
    · rw [Store.put_other _ _ _ _ (by simp [hm])] at h1; exact Or.inl ⟨m, acts', a, h1, h2, h3⟩
  · rintro (⟨m, acts', a, h1, h2, h3⟩ | ⟨a, h2, h3⟩)
    · have hm : m ≠ n := by intro hh; subst hh; rw [hnone] at h1; cases h1
      exact ⟨m, acts', a, by rw [Store.put_other _ _ _ _ (by simp [hm])]; exact h1, h2, h3⟩
    · exact ⟨n, acts, a, by simp, h2, h3⟩

/-- Values of a table obtained by applying actions come from the old table or from the actions. -/
theorem mem_erase {t : Table} {k : Nat} {e : Nat × Nat} (h : e ∈ Table.erase t k) : e ∈ t := by
  simp [Table.erase] at h; exact h.1

theorem mem_applyAct {t t' : Table} {a : JAct} (h : applyAct t a = some t') {k v : Nat} (hm : (k, v) ∈ t') :
    (k, v) ∈ t ∨ JAct.val a = some v := by
  cases a with
  | add k' v' =>
    simp [applyAct, Table.set] at h; subst h
    simp at hm
    rcases hm with ⟨_, rfl⟩ | hm
    · right; rfl
    · left; exact mem_erase hm
  | update k' v' =>
    simp only [applyAct] at h
    split at h
    · simp [Table.set] at h; subst h
      simp at hm
      rcases hm with ⟨_, rfl⟩ | hm
      · right; rfl
      · left; exact mem_erase hm
    · cases h
  | delete k' =>
    simp [applyAct] at h; subst h
    left; exact mem_erase hm

theorem mem_applyActs {acts : List JAct} : ∀ {t t' : Table}, applyActs t acts = some t' → ∀ {k v : Nat}, (k, v) ∈ t' →
    (k, v) ∈ t ∨ ∃ a ∈ acts, JAct.val a = some v := by
  induction acts with
  | nil => intro t t' h k v hm; simp [applyActs] at h; subst h; exact Or.inl hm
  | cons a as ih =>
    intro t t' h k v hm
    simp only [applyActs] at h
    split at h
    · rename_i t1 h1
      rcases ih h hm with h2 | ⟨a', ha', hv⟩
      · rcases mem_applyAct h1 h2 with h3 | h3
        · exact Or.inl h3
        · exact Or.inr ⟨a, by simp, h3⟩
      · exact Or.inr ⟨a', by simp [ha'], hv⟩
    · cases h

/-- Every value of a replayed table was written into the journal. -/
theorem tableAt_ref {s : Store} {j : Nat} : ∀ {n : Nat} {t : Table}, tableAt s j n = some t → ∀ {k v}, (k, v) ∈ t → Ref s j v := by
  intro n
  induction n with
  | zero => intro t h k v hm; simp [tableAt] at h; subst h; cases hm
  | succ m ih =>
    intro t h k v hm
    simp only [tableAt] at h
    split at h
    · rename_i t0 h0
      split at h
      · rename_i acts hx
        rcases mem_applyActs h hm with h1 | ⟨a, ha, hv⟩
        · exact ih h0 h1
        · exact ⟨m + 1, acts, a, hx, ha, hv⟩
      · cases h
    · cases h

theorem Table.get_mem {t : Table} {k v : Nat} (h : Table.get t k = some v) : (k, v) ∈ t := by
  induction t with
  | nil => simp [Table.get] at h
  | cons e t ih =>
    obtain ⟨a, b⟩ := e
    rw [Table.get_cons] at h
    split at h
    · rename_i hk; cases h; subst hk; simp
    · simp; right; exact ih h



/-! ### Paths in the commit graph -/

/-- `CPath s j c id`: following parent pointers from commit c reaches id, through objects whose
    ids were written into the journal. -/
inductive CPath (s : Store) (j : Nat) : Nat → Nat → Prop
  | refl (id : Nat) (h0 : id ≠ 0) : CPath s j id id
  | step (c par id : Nat) (adds dels : List Nat) (hr : Ref s j c)
      (ho : s (.cobj j c) = some (.commit par adds dels)) (hlt : par < c) (hp : CPath s j par id) : CPath s j c id

theorem CPath.le {s j c id} (p : CPath s j c id) : id ≤ c ∧ 1 ≤ id := by
  induction p with
  | refl id h0 => omega
  | step c par id adds dels _ _ hlt _ ih => omega

theorem CPath.mono {s s' : Store} {j c id : Nat} (hr : ∀ v, Ref s j v → Ref s' j v)
    (ho : ∀ v, Ref s j v → s' (.cobj j v) = s (.cobj j v)) (p : CPath s j c id) : CPath s' j c id := by
  induction p with
  | refl id h0 => exact .refl id h0
  | step c par id adds dels hrc hoc hlt _ ih =>
    exact .step c par id adds dels (hr c hrc) (by rw [ho c hrc]; exact hoc) hlt ih

/-- All commit objects of pool j point to older ids. -/
def ObjsDecr (s : Store) (j : Nat) : Prop :=
  ∀ c par adds dels, s (.cobj j c) = some (.commit par adds dels) → par < c

theorem chainF_le {s : Store} {j : Nat} (hd : ObjsDecr s j) : ∀ (fuel c x : Nat), x ∈ chainF s j fuel c → x ≤ c := by
  intro fuel
  induction fuel with
  | zero => intro c x hx; simp [chainF] at hx
  | succ f ih =>
    intro c x hx
    simp only [chainF] at hx
    split at hx
    · cases hx
    · split at hx
      · rename_i par adds dels ho
        simp at hx
        rcases hx with rfl | hx
        · omega
        · have := ih par x hx; have := hd c par adds dels ho; omega
      · simp at hx; omega

theorem CPath.count_chainF {s : Store} {j c id : Nat} (hd : ObjsDecr s j) (p : CPath s j c id) :
    ∀ fuel, c ≤ fuel → (chainF s j fuel c).count id = 1 := by
  induction p with
  | refl id h0 =>
    intro fuel hf
    cases fuel with
    | zero => omega
    | succ f =>
      simp only [chainF, h0, if_false]
      split
      · rename_i par adds dels ho
        have hlt := hd id par adds dels ho
        have : (chainF s j f par).count id = 0 := by
          rw [List.count_eq_zero]
          intro hm; have := chainF_le hd f par id hm; omega
        simp [this]
      · simp
  | step c par id adds dels _ ho hlt hp ih =>
    intro fuel hf
    cases fuel with
    | zero => omega
    | succ f =>
      have hc0 : c ≠ 0 := by omega
      have hne : c ≠ id := by have := hp.le; omega
      simp only [chainF, hc0, if_false, ho]
      rw [List.count_cons_of_ne (by simpa using hne)]
      exact ih f (by omega)

theorem CPath.count_chain {s : Store} {j c id : Nat} (hd : ObjsDecr s j) (p : CPath s j c id) :
    (chain s j c).count id = 1 := p.count_chainF hd c (Nat.le_refl _)


/-- The commit id a running branch commit on pool j has allocated. -/
def Proc.ownedId (j : Nat) : Proc → Option Nat
  | .bc b (.putObj _ id) => if b.pool = j then some id else none
  | .bc b (.update _ id _ _) => if b.pool = j then some id else none
  | .bc b (.cleanup id _) => if b.pool = j then some id else none
  | _ => none

/-- Local facts of a branch commit on pool j: its id is allocated (below `next`), newer than the
    tip it was built against, its object is absent / present as the phase says, and — until its own
    journal entry exists — the id has not been written into the journal. -/
def BcOK (s : Store) (j next : Nat) : Proc → Prop
  | .bc b (.putObj tip id) => b.pool = j →
      1 ≤ id ∧ id < next ∧ tip < id ∧ s (.cobj j id) = none ∧ ¬ Ref s j id
  | .bc b (.update tip id _ pc) => b.pool = j →
      1 ≤ id ∧ id < next ∧ tip < id ∧ s (.cobj j id) = some (.commit tip b.adds b.dels) ∧
        (pc.isPutHead = false → ¬ Ref s j id)
  | .bc b (.cleanup id _) => b.pool = j → 1 ≤ id ∧ id < next ∧ ¬ Ref s j id
  | _ => True

structure Inv3 (j : Nat) (s : Sys) (e : Nat) : Prop where
  kinds : ∀ c op a, (s.cl c).kindOn j = some (.commit op a) →
    (∃ k v, op = .insert k v ∧ (v = 0 ∨ ∃ x ∈ s.acks, x.pool = j ∧ x.id = v)) ∨
    (∃ b tip id att pc, (s.cl c).proc = some (.bc b (.update tip id att pc)) ∧ b.pool = j ∧
      op = .update b.branch tip id)
  refLt : ∀ v, Ref s.store j v → v < s.next
  ackRef : ∀ x ∈ s.acks, x.pool = j → Ref s.store j x.id ∧ x.id ≠ 0
  objs : ∀ c v, s.store (.cobj j c) = some v → ∃ par adds dels, v = .commit par adds dels ∧ par < c ∧ c < s.next
  bc : ∀ c p, (s.cl c).proc = some p → BcOK s.store j s.next p
  distinct : ∀ c c' p p' id, (s.cl c).proc = some p → (s.cl c').proc = some p' →
    p.ownedId j = some id → p'.ownedId j = some id → c = c'
  paths : ∀ x ∈ s.acks, x.pool = j → ∀ n, headOf s.store j ≤ n → n ≤ e →
    ∃ t tip, tableAt s.store j n = some t ∧ Table.get t x.branch = some tip ∧ CPath s.store j tip x.id

/-- BcOK only depends on the entries and commit objects of pool j, and is monotone in `next`. -/
theorem BcOK.congr {s s' : Store} {j next next' : Nat} {p : Proc} (hn : next ≤ next')
    (hent : ∀ n, s' (.ent j n) = s (.ent j n)) (hobj : ∀ c, s' (.cobj j c) = s (.cobj j c))
    (h : BcOK s j next p) : BcOK s' j next' p := by
  have hr : ∀ v, Ref s' j v → Ref s j v := fun v r => Ref.congr (fun n => (hent n).symm) r
  cases p with
  | bc b ph =>
    cases ph with
    | lookup pc => trivial
    | putObj tip id =>
      intro hb; obtain ⟨a1, a2, a3, a4, a5⟩ := h hb
      exact ⟨a1, by omega, a3, by rw [hobj]; exact a4, fun r => a5 (hr _ r)⟩
    | update tip id att pc =>
      intro hb; obtain ⟨a1, a2, a3, a4, a5⟩ := h hb
      exact ⟨a1, by omega, a3, by rw [hobj]; exact a4, fun hp r => a5 hp (hr _ r)⟩
    | cleanup id err =>
      intro hb; obtain ⟨a1, a2, a3⟩ := h hb
      exact ⟨a1, by omega, fun r => a3 (hr _ r)⟩
  | _ => trivial

/-- A step that leaves the entries, HEAD and commit objects of pool j alone, only adds
    acknowledgements of other pools, and leaves every client's procedure as it was or replaces it
    by one that owns no commit id of pool j and runs no commit on journal j. -/
theorem inv3_frame {j : Nat} {s s' : Sys} {e : Nat} (h1 : Inv1 j s e) (h3 : Inv3 j s e)
    (hent : ∀ n, s'.store (.ent j n) = s.store (.ent j n))
    (hhead : s'.store (.head j) = s.store (.head j))
    (hobj : ∀ c, s'.store (.cobj j c) = s.store (.cobj j c))
    (hnext : s.next ≤ s'.next)
    (hacks : ∀ x, x ∈ s'.acks → x.pool = j → x ∈ s.acks) (hacks' : ∀ x, x ∈ s.acks → x ∈ s'.acks)
    (hcl : ∀ c, (s'.cl c).proc = (s.cl c).proc ∨
      ∀ p, (s'.cl c).proc = some p → p.ownedId j = none ∧ BcOK s'.store j s'.next p ∧
        ∀ op a, p.kindOn j = some (.commit op a) →
          ∃ k v, op = .insert k v ∧ (v = 0 ∨ ∃ x ∈ s'.acks, x.pool = j ∧ x.id = v)) : Inv3 j s' e := by
  have hr : ∀ v, Ref s'.store j v ↔ Ref s.store j v :=
    fun v => ⟨Ref.congr (fun n => (hent n).symm), Ref.congr hent⟩
  have hH : headOf s'.store j = headOf s.store j := headOf_congr _ _ _ hhead
  refine ⟨?_, ?_, ?_, ?_, ?_, ?_, ?_⟩
  · intro c op a hk
    rcases hcl c with hp | hp
    · have hk' : (s.cl c).kindOn j = some (.commit op a) := by
        simpa [Client.kindOn, hp] using hk
      rcases h3.kinds c op a hk' with ⟨k, v, h4, h5⟩ | ⟨b, tip, id, att, pc, h4, h5, h6⟩
      · refine Or.inl ⟨k, v, h4, ?_⟩
        rcases h5 with h5 | ⟨x, hx, h5⟩
        · exact Or.inl h5
        · exact Or.inr ⟨x, hacks' x hx, h5⟩
      · exact Or.inr ⟨b, tip, id, att, pc, by rw [hp]; exact h4, h5, h6⟩
    · cases hpp : (s'.cl c).proc with
      | none => simp [Client.kindOn, hpp] at hk
      | some p => exact Or.inl ((hp p hpp).2.2 op a (by simpa [Client.kindOn, hpp] using hk))
  · intro v r; have := h3.refLt v ((hr v).mp r); omega
  · intro x hx hxj; obtain ⟨a1, a2⟩ := h3.ackRef x (hacks x hx hxj) hxj; exact ⟨(hr _).mpr a1, a2⟩
  · intro c v hv; rw [hobj] at hv
    obtain ⟨par, adds, dels, a1, a2, a3⟩ := h3.objs c v hv
    exact ⟨par, adds, dels, a1, a2, by omega⟩
  · intro c p hp
    rcases hcl c with hq | hq
    · rw [hq] at hp; exact (h3.bc c p hp).congr hnext hent hobj
    · exact (hq p hp).2.1
  · intro c c' p p' id hp hp' ho ho'
    rcases hcl c with hq | hq
    · rcases hcl c' with hq' | hq'
      · rw [hq] at hp; rw [hq'] at hp'; exact h3.distinct c c' p p' id hp hp' ho ho'
      · rw [(hq' p' hp').1] at ho'; cases ho'
    · rw [(hq p hp).1] at ho; cases ho
  · intro x hx hxj n hn1 hn2
    rw [hH] at hn1
    obtain ⟨t, tip, a1, a2, a3⟩ := h3.paths x (hacks x hx hxj) hxj n hn1 hn2
    refine ⟨t, tip, ?_, a2, a3.mono (fun v r => (hr v).mpr r) (fun v _ => hobj v)⟩
    rw [tableAt_congr s.store s'.store j n (fun m _ _ => hent m)]; exact a1



/-- The id of a branch commit on pool j whose own journal entry does not exist yet. -/
def Proc.pendingId (j : Nat) : Proc → Option Nat
  | .bc b (.putObj _ id) => if b.pool = j then some id else none
  | .bc b (.update _ id _ pc) => if b.pool = j ∧ pc.isPutHead = false then some id else none
  | .bc b (.cleanup id _) => if b.pool = j then some id else none
  | _ => none

/-- BcOK of an unchanged procedure survives a step of another client: the journal gains only
    values `P` that are not this procedure's pending id, and commit objects change only at ids
    `¬ Q` different from its id. -/
theorem BcOK.other {s s' : Store} {j next next' : Nat} {p : Proc} {P Q : Nat → Prop} (hn : next ≤ next')
    (hr : ∀ v, Ref s' j v → Ref s j v ∨ P v) (hobj : ∀ c, Q c → s' (.cobj j c) = s (.cobj j c))
    (hid : ∀ id, p.ownedId j = some id → Q id) (hpid : ∀ id, p.pendingId j = some id → ¬ P id)
    (h : BcOK s j next p) : BcOK s' j next' p := by
  cases p with
  | bc b ph =>
    cases ph with
    | lookup pc => trivial
    | putObj tip id =>
      intro hb; obtain ⟨a1, a2, a3, a4, a5⟩ := h hb
      have i2 := hid id (by simp [Proc.ownedId, hb])
      have i1 := hpid id (by simp [Proc.pendingId, hb])
      exact ⟨a1, by omega, a3, by rw [hobj id i2]; exact a4, fun r => (hr _ r).elim a5 i1⟩
    | update tip id att pc =>
      intro hb; obtain ⟨a1, a2, a3, a4, a5⟩ := h hb
      have i2 := hid id (by simp [Proc.ownedId, hb])
      refine ⟨a1, by omega, a3, by rw [hobj id i2]; exact a4, fun hp r => ?_⟩
      have i1 := hpid id (by simp [Proc.pendingId, hb, hp])
      exact (hr _ r).elim (a5 hp) i1
    | cleanup id err =>
      intro hb; obtain ⟨a1, a2, a3⟩ := h hb
      have i1 := hpid id (by simp [Proc.pendingId, hb])
      exact ⟨a1, by omega, fun r => (hr _ r).elim a3 i1⟩
  | _ => trivial

/-- Old acknowledgements keep their paths when the replayed tables up to e are unchanged, the
    journal only gains values, referenced objects are untouched and HEAD does not move back. -/
theorem paths_keep {j : Nat} {s s' : Sys} {e : Nat} (h3 : Inv3 j s e)
    (hx : Ext s.store s'.store j e) (hr : ∀ v, Ref s.store j v → Ref s'.store j v)
    (hobj : ∀ v, Ref s.store j v → s'.store (.cobj j v) = s.store (.cobj j v))
    (x : Ack) (hxa : x ∈ s.acks) (hxj : x.pool = j) (n : Nat) (hn1 : headOf s'.store j ≤ n) (hn2 : n ≤ e) :
    ∃ t tip, tableAt s'.store j n = some t ∧ Table.get t x.branch = some tip ∧ CPath s'.store j tip x.id := by
  obtain ⟨t, tip, a1, a2, a3⟩ := h3.paths x hxa hxj n (by have := hx.head; omega) hn2
  exact ⟨t, tip, by rw [hx.tableAt n hn2]; exact a1, a2, a3.mono hr hobj⟩

theorem kinds_keep {j : Nat} {s s' : Sys} {e : Nat} (h3 : Inv3 j s e) (c : Nat)
    (hcl : s'.cl c = s.cl c) (hacks : ∀ x, x ∈ s.acks → x ∈ s'.acks) (op : JOp) (a : Nat)
    (hk : (s'.cl c).kindOn j = some (.commit op a)) :
    (∃ k v, op = .insert k v ∧ (v = 0 ∨ ∃ x ∈ s'.acks, x.pool = j ∧ x.id = v)) ∨
    (∃ b tip id att pc, (s'.cl c).proc = some (.bc b (.update tip id att pc)) ∧ b.pool = j ∧
      op = .update b.branch tip id) := by
  rw [hcl] at hk ⊢
  rcases h3.kinds c op a hk with ⟨k, v, h4, h5⟩ | h4
  · refine Or.inl ⟨k, v, h4, ?_⟩
    rcases h5 with h5 | ⟨x, hx, h5⟩
    · exact Or.inl h5
    · exact Or.inr ⟨x, hacks x hx, h5⟩
  · exact Or.inr h4

theorem check_ne_ok (op : JOp) (t : Table) : op.check t ≠ some .ok := by
  cases op <;> simp only [JOp.check]
  all_goals (repeat' split)
  all_goals simp

/-- A commit procedure ends with `ok` only from its HEAD write. -/
theorem jstep_commit_ok (s : Store) (j : Nat) (jc : JCache) (op : JOp) (a : Nat) (pc : JPc) (st jc' ev)
    (h : jstep s j jc (.commit op a) pc = .done st jc' .ok ev) : ∃ n, pc = .putHead n := by
  cases pc <;> simp only [jstep] at h
  all_goals (repeat' split at h)
  all_goals (first
    | (cases h; done)
    | exact ⟨_, rfl⟩
    | (simp only [afterLoad] at h; split at h
       · rename_i hc; cases h; exact absurd hc (check_ne_ok _ _)
       · cases h))




/-- Labels that start a raw delete / move on journal j (branch removal); the branch-commit
    theorems are stated for runs without them. -/
def Start.drops (j : Nat) : Start → Bool
  | .commit j' _ (.delete ..) => j' == j
  | .commit j' _ (.move ..) => j' == j
  | _ => false

def Label.drops (j : Nat) : Label → Bool
  | .start _ st => st.drops j
  | .step _ => false
  | .truncSnap _ => false

theorem inv3_start {j : Nat} {s : Sys} {e : Nat} (hj : j ≠ 0) (c : Nat) (st : Start) (h1 : Inv1 j s e)
    (h3 : Inv3 j s e) (hd : st.drops j = false) : Inv3 j (s.start c st) e := by
  simp only [Sys.start]
  split
  · exact h3
  · rename_i hnone
    -- every new procedure owns no commit id and, if it is a commit on j, is a permitted insert
    have key : ∀ (p : Proc) (nx : Nat), s.next ≤ nx →
        p.ownedId j = none → BcOK s.store j nx p →
        (∀ op a, p.kindOn j = some (.commit op a) →
          ∃ k v, op = .insert k v ∧ (v = 0 ∨ ∃ x ∈ s.acks, x.pool = j ∧ x.id = v)) →
        Inv3 j { (s.setClient c { (s.cl c) with proc := some p, res := none }) with next := nx } e := by
      intro p nx hnx hown hbc hkind
      refine @inv3_frame j s _ e h1 h3 (fun _ => rfl) rfl (fun _ => rfl) hnx (fun x hx _ => hx) (fun x hx => hx) ?_
      intro c'
      by_cases hcc : c' = c
      · subst hcc
        right; intro p' hp'
        simp [Sys.setClient] at hp'; subst hp'
        exact ⟨hown, hbc, hkind⟩
      · left; simp [Sys.setClient, hcc]
    cases st with
    | load j' slot =>
      exact key _ _ (Nat.le_refl _) rfl trivial (by intro op a hk; simp [Proc.kindOn] at hk)
    | commit j' slot op =>
      simp only []
      split
      · rename_i hok
        refine key _ _ (Nat.le_refl _) rfl trivial ?_
        intro op' a hk
        simp only [Proc.kindOn] at hk
        split at hk
        · rename_i hjj
          cases hk
          cases op with
          | insert k v =>
            refine ⟨k, v, rfl, ?_⟩
            simp [startOK, hjj, hj] at hok
            rcases hok with h | ⟨x, hx, h2, h3'⟩
            · exact Or.inl h
            · exact Or.inr ⟨x, hx, h2, h3'⟩
          | move old new v => simp [Start.drops, hjj] at hd
          | delete k v => simp [Start.drops, hjj] at hd
          | update k old new => simp [startOK] at hok
        · cases hk
      · exact h3
    | bcommit pool slot branch adds dels =>
      simp only []
      split
      · exact h3
      · exact key _ _ (Nat.le_refl _) rfl trivial (by intro op a hk; simp [Proc.kindOn] at hk)
    | create =>
      exact key _ _ (by omega) rfl trivial (by intro op a hk; simp [Proc.kindOn] at hk)
    | openJ j' =>
      exact key _ _ (Nat.le_refl _) rfl trivial (by intro op a hk; simp [Proc.kindOn] at hk)
    | delPool p =>
      simp only []
      split
      · exact h3
      · exact key _ _ (Nat.le_refl _) rfl trivial (by intro op a hk; simp [Proc.kindOn] at hk)
    | resetSlot j' slot =>
      refine @inv3_frame j s _ e h1 h3 (fun _ => rfl) rfl (fun _ => rfl) (Nat.le_refl _) (fun x hx _ => hx) (fun x hx => hx) ?_
      intro c'
      by_cases hcc : c' = c
      · subst hcc; left; simp [Client.setCache]
      · left; simp [Sys.setClient, hcc]


@[simp] theorem setClient_acks (s : Sys) (c x) : (s.setClient c x).acks = s.acks := rfl

/-- Does the procedure work on pool / journal j at all? -/
def Proc.touches (j : Nat) : Proc → Bool
  | .jp j' _ _ _ => j' == j
  | .bc b _ => b.pool == j
  | .create j' _ => j' == j
  | .openJ _ => false
  | .delPool p => p == j

theorem untouched_facts {j : Nat} {p : Proc} (h : p.touches j = false) (s : Store) (nx : Nat) :
    p.ownedId j = none ∧ BcOK s j nx p ∧ ∀ op a, p.kindOn j ≠ some (.commit op a) := by
  cases p with
  | jp j' slot k pc =>
    simp [Proc.touches] at h
    simp [Proc.ownedId, BcOK, Proc.kindOn, h]
  | bc b ph =>
    simp [Proc.touches] at h
    cases ph <;> simp [Proc.ownedId, BcOK, Proc.kindOn, h]
  | create j' st => simp [Proc.ownedId, BcOK, Proc.kindOn]
  | openJ j' => simp [Proc.ownedId, BcOK, Proc.kindOn]
  | delPool p' => simp [Proc.ownedId, BcOK, Proc.kindOn]

/-- A step of a procedure that does not work on pool j leaves pool j alone. -/
theorem step_untouched (s : Sys) (c j : Nat) (p : Proc) (hp : (s.cl c).proc = some p) (ht : p.touches j = false) :
    let s' := (s.step c).1
    (∀ n, s'.store (.ent j n) = s.store (.ent j n)) ∧ s'.store (.head j) = s.store (.head j) ∧
    (∀ x, s'.store (.cobj j x) = s.store (.cobj j x)) ∧ s.next ≤ s'.next ∧
    (∀ x, x ∈ s'.acks → x.pool = j → x ∈ s.acks) ∧ (∀ x, x ∈ s.acks → x ∈ s'.acks) ∧
    (∀ p', (s'.cl c).proc = some p' → p'.touches j = false) := by
  cases p with
  | jp j' slot k pc =>
    simp [Proc.touches] at ht
    have hf := fun q hq => jstep_frame s.store j' ((s.cl c).cache j' slot) k pc q hq
    simp only [Sys.step, hp]
    split <;> rename_i heq <;> rw [heq] at hf <;> simp at hf
    all_goals refine ⟨fun n => hf _ (by simp [Path.pool]; omega), hf _ (by simp [Path.pool]; omega),
      fun x => hf _ (by simp [Path.pool]; omega), by simp, (by intro x hx _; simpa using hx), (by intro x hx; simpa using hx), ?_⟩
    all_goals simp [Proc.touches, ht]
  | bc b ph =>
    simp [Proc.touches] at ht
    cases ph with
    | lookup pc =>
      have hf := fun q hq => jstep_frame s.store b.pool ((s.cl c).cache b.pool b.slot) .load pc q hq
      simp only [Sys.step, hp]
      split <;> rename_i heq <;> rw [heq] at hf <;> simp at hf
      · refine ⟨fun n => hf _ (by simp [Path.pool]; omega), hf _ (by simp [Path.pool]; omega),
          fun x => hf _ (by simp [Path.pool]; omega), by simp, (by intro x hx _; simpa using hx), (by intro x hx; simpa using hx), ?_⟩
        simp [Proc.touches, ht]
      · simp only [bcAfterLookup]
        repeat' split
        all_goals refine ⟨fun n => hf _ (by simp [Path.pool]; omega), hf _ (by simp [Path.pool]; omega),
          fun x => hf _ (by simp [Path.pool]; omega), by simp, (by intro x hx _; simpa using hx), (by intro x hx; simpa using hx), ?_⟩
        all_goals simp [Proc.touches, ht]
    | putObj tip id =>
      simp only [Sys.step, hp]
      refine ⟨fun n => by simp [Store.put], by simp [Store.put], fun x => by simp [Store.put]; intro h; exact absurd h.symm ht, by simp, (by intro x hx _; simpa using hx), (by intro x hx; simpa using hx), ?_⟩
      simp [Proc.touches, ht]
    | update tip id att pc =>
      have hf := fun q hq => jstep_frame s.store b.pool ((s.cl c).cache b.pool b.slot) (.commit (.update b.branch tip id) att) pc q hq
      simp only [Sys.step, hp]
      split <;> rename_i heq <;> rw [heq] at hf <;> simp at hf
      · refine ⟨fun n => hf _ (by simp [Path.pool]; omega), hf _ (by simp [Path.pool]; omega),
          fun x => hf _ (by simp [Path.pool]; omega), by simp, (by intro x hx _; simpa using hx), (by intro x hx; simpa using hx), ?_⟩
        simp [Proc.touches, ht]
      · split
        · refine ⟨fun n => hf _ (by simp [Path.pool]; omega), hf _ (by simp [Path.pool]; omega),
            fun x => hf _ (by simp [Path.pool]; omega), by simp, ?_, ?_, by simp⟩
          · intro x hx hxj; simp at hx
            rcases hx with rfl | hx
            · simp at hxj; omega
            · exact hx
          · intro x hx; simp [hx]
        · refine ⟨fun n => hf _ (by simp [Path.pool]; omega), hf _ (by simp [Path.pool]; omega),
            fun x => hf _ (by simp [Path.pool]; omega), by simp, (by intro x hx _; simpa using hx), (by intro x hx; simpa using hx), ?_⟩
          simp [Proc.touches, ht]
    | cleanup id err =>
      simp only [Sys.step, hp]
      repeat' split
      all_goals refine ⟨fun n => by simp [Store.del], by simp [Store.del], fun x => by simp [Store.del]; intro h; exact absurd h.symm ht, by simp, (by intro x hx _; simpa using hx), (by intro x hx; simpa using hx), ?_⟩
      all_goals simp [Proc.touches, ht]
  | create j' st =>
    simp [Proc.touches] at ht
    simp only [Sys.step, hp]
    split
    all_goals refine ⟨fun n => by simp [Store.put], by simp [Store.put, Ne.symm ht], fun x => by simp [Store.put], by simp, (by intro x hx _; simpa using hx), (by intro x hx; simpa using hx), ?_⟩
    all_goals simp [Proc.touches, ht]
  | openJ j' =>
    simp only [Sys.step, hp]
    exact ⟨fun n => by simp, by simp, fun x => by simp, by simp, (by intro x hx _; simpa using hx), (by intro x hx; simpa using hx), by simp⟩
  | delPool p' =>
    simp [Proc.touches] at ht
    simp only [Sys.step, hp]
    exact ⟨fun n => by simp [Store.delPool, Path.pool, Ne.symm ht], by simp [Store.delPool, Path.pool, Ne.symm ht],
      fun x => by simp [Store.delPool, Path.pool, Ne.symm ht], by simp, (by intro x hx _; simpa using hx), (by intro x hx; simpa using hx), by simp⟩



/-- Assemble Inv3 after a step of client c: the caller supplies what concerns c, the objects,
    the acknowledgements and the paths; everything about the other clients follows. -/
theorem inv3_assemble {j : Nat} {s s' : Sys} {e e' : Nat} (c : Nat) (P Q : Nat → Prop) (h3 : Inv3 j s e)
    (hoth : ∀ c', c' ≠ c → s'.cl c' = s.cl c')
    (hnext : s.next ≤ s'.next)
    (hacks : ∀ x, x ∈ s.acks → x ∈ s'.acks)
    (hr2 : ∀ v, Ref s'.store j v → Ref s.store j v ∨ P v)
    (hP : ∀ v, P v → v < s'.next)
    (hobj : ∀ v, Q v → s'.store (.cobj j v) = s.store (.cobj j v))
    (hothid : ∀ c' p id, c' ≠ c → (s.cl c').proc = some p → p.ownedId j = some id → Q id)
    (hothpid : ∀ c' p id, c' ≠ c → (s.cl c').proc = some p → p.pendingId j = some id → ¬ P id)
    (hkind : ∀ op a, (s'.cl c).kindOn j = some (.commit op a) →
      (∃ k v, op = .insert k v ∧ (v = 0 ∨ ∃ x ∈ s'.acks, x.pool = j ∧ x.id = v)) ∨
      (∃ b tip id att pc, (s'.cl c).proc = some (.bc b (.update tip id att pc)) ∧ b.pool = j ∧
        op = .update b.branch tip id))
    (hobjs : ∀ x v, s'.store (.cobj j x) = some v → ∃ par adds dels, v = .commit par adds dels ∧ par < x ∧ x < s'.next)
    (hbc : ∀ p, (s'.cl c).proc = some p → BcOK s'.store j s'.next p)
    (hown : ∀ p' id, (s'.cl c).proc = some p' → p'.ownedId j = some id →
      (∃ p, (s.cl c).proc = some p ∧ p.ownedId j = some id) ∨
      (∀ c' p, c' ≠ c → (s.cl c').proc = some p → p.ownedId j ≠ some id))
    (hackRef : ∀ x ∈ s'.acks, x.pool = j → Ref s'.store j x.id ∧ x.id ≠ 0)
    (hpaths : ∀ x ∈ s'.acks, x.pool = j → ∀ n, headOf s'.store j ≤ n → n ≤ e' →
      ∃ t tip, tableAt s'.store j n = some t ∧ Table.get t x.branch = some tip ∧ CPath s'.store j tip x.id) :
    Inv3 j s' e' := by
  refine ⟨?_, ?_, hackRef, hobjs, ?_, ?_, hpaths⟩
  · intro c' op a hk
    by_cases hcc : c' = c
    · subst hcc; exact hkind op a hk
    · exact kinds_keep h3 c' (hoth c' hcc) hacks op a hk
  · intro v r
    rcases hr2 v r with r | r
    · have := h3.refLt v r; omega
    · exact hP v r
  · intro c' p hp
    by_cases hcc : c' = c
    · subst hcc; exact hbc p hp
    · rw [hoth c' hcc] at hp
      exact (h3.bc c' p hp).other hnext hr2 hobj (fun id hid => hothid c' p id hcc hp hid)
        (fun id hid => hothpid c' p id hcc hp hid)
  · intro c1 c2 p1 p2 id hp1 hp2 ho1 ho2
    by_cases h1 : c1 = c
    · by_cases h2 : c2 = c
      · rw [h1, h2]
      · subst h1
        rw [hoth c2 h2] at hp2
        rcases hown p1 id hp1 ho1 with ⟨p, hp, ho⟩ | hf
        · exact h3.distinct c1 c2 p p2 id hp hp2 ho ho2
        · exact absurd ho2 (hf c2 p2 h2 hp2)
    · rw [hoth c1 h1] at hp1
      by_cases h2 : c2 = c
      · subst h2
        rcases hown p2 id hp2 ho2 with ⟨p, hp, ho⟩ | hf
        · exact h3.distinct c1 c2 p1 p id hp1 hp ho1 ho
        · exact absurd ho1 (hf c1 p1 h1 hp1)
      · rw [hoth c2 h2] at hp2
        exact h3.distinct c1 c2 p1 p2 id hp1 hp2 ho1 ho2



theorem ext_of_same {s s' : Store} {j e : Nat} (hent : ∀ n, s' (.ent j n) = s (.ent j n))
    (hhead : s' (.head j) = s (.head j)) : Ext s s' j e :=
  ⟨fun m _ _ => hent m, by rw [headOf_congr _ _ _ hhead]; exact Nat.le_refl _⟩

theorem inv3_step_putObj {j : Nat} {s : Sys} {e e' : Nat} (c : Nat) (b : BC) (tip id : Nat)
    (hp : (s.cl c).proc = some (.bc b (.putObj tip id))) (hb : b.pool = j)
    (h1 : Inv1 j s e) (h3 : Inv3 j s e) (h1' : Inv1 j (s.step c).1 e') : Inv3 j (s.step c).1 e' := by
  obtain ⟨a1, a2, a3, a4, a5⟩ := h3.bc c _ hp hb
  have hst : ((s.step c).1).store = s.store.put (.cobj j id) (.commit tip b.adds b.dels) := by
    simp [Sys.step, hp, hb]
  have hpr : (((s.step c).1).cl c).proc = some (.bc b (.update tip id 0 .rdHead)) := by
    simp [Sys.step, hp]
  have hent : ∀ n, ((s.step c).1).store (.ent j n) = s.store (.ent j n) := by intro n; rw [hst]; simp [Store.put]
  have hhead : ((s.step c).1).store (.head j) = s.store (.head j) := by rw [hst]; simp [Store.put]
  have hee : e = e' := EntRange.unique h1.range (by intro n; rw [← hent n]; exact h1'.range n)
  subst hee
  have hr : ∀ v, Ref ((s.step c).1).store j v ↔ Ref s.store j v :=
    fun v => ⟨Ref.congr (fun n => (hent n).symm), Ref.congr hent⟩
  have hobj : ∀ v, v ≠ id → ((s.step c).1).store (.cobj j v) = s.store (.cobj j v) := by
    intro v hv; rw [hst]; exact Store.put_other _ _ _ _ (by simp [hv])
  refine inv3_assemble c (fun _ => False) (fun v => v ≠ id) h3 (step_others s c) (step_next s c)
    (by intro x hx; simpa [Sys.step, hp] using hx) (fun v r => Or.inl ((hr v).mp r)) (fun _ h => h.elim) hobj
    ?_ (fun _ _ _ _ _ _ h => h) ?_ ?_ ?_ ?_ ?_ ?_
  · intro c' p id' hcc hp' ho hh
    subst hh
    exact hcc (h3.distinct c' c p _ id' hp' hp ho (by simp [Proc.ownedId, hb]))
  · intro op a hk
    right
    refine ⟨b, tip, id, 0, .rdHead, hpr, hb, ?_⟩
    have := hk; simp [Client.kindOn, hpr, Proc.kindOn, hb] at this; exact this.1.symm
  · intro x v hv
    by_cases hx : x = id
    · subst hx
      rw [hst] at hv; simp at hv; subst hv
      exact ⟨tip, b.adds, b.dels, rfl, a3, by have := step_next s c; omega⟩
    · rw [hobj x hx] at hv
      obtain ⟨par, adds, dels, b1, b2, b3⟩ := h3.objs x v hv
      exact ⟨par, adds, dels, b1, b2, by have := step_next s c; omega⟩
  · intro p hp'
    rw [hpr] at hp'; cases hp'
    intro _
    exact ⟨a1, by have := step_next s c; omega, a3, by rw [hst]; simp, fun _ r => a5 ((hr _).mp r)⟩
  · intro p' id' hp' ho
    rw [hpr] at hp'; cases hp'
    simp [Proc.ownedId, hb] at ho; subst ho
    exact Or.inl ⟨_, hp, by simp [Proc.ownedId, hb]⟩
  · intro x hx hxj
    have hx' : x ∈ s.acks := by simpa [Sys.step, hp] using hx
    obtain ⟨b1, b2⟩ := h3.ackRef x hx' hxj
    exact ⟨(hr _).mpr b1, b2⟩
  · intro x hx hxj n hn1 hn2
    have hx' : x ∈ s.acks := by simpa [Sys.step, hp] using hx
    exact paths_keep h3 (ext_of_same hent hhead) (fun v r => (hr v).mpr r)
      (fun v r => hobj v (by intro hh; subst hh; exact a5 r)) x hx' hxj n hn1 hn2



theorem inv3_step_cleanup {j : Nat} {s : Sys} {e e' : Nat} (c : Nat) (b : BC) (id : Nat) (err : Res)
    (hp : (s.cl c).proc = some (.bc b (.cleanup id err))) (hb : b.pool = j)
    (h1 : Inv1 j s e) (h3 : Inv3 j s e) (h1' : Inv1 j (s.step c).1 e') : Inv3 j (s.step c).1 e' := by
  obtain ⟨a1, a2, a5⟩ := h3.bc c _ hp hb
  have hst : ((s.step c).1).store = s.store.del (.cobj j id) := by
    simp only [Sys.step, hp]; repeat' split
    all_goals simp [hb]
  have hpr : (((s.step c).1).cl c).proc = none ∨
      ∃ b', b'.pool = j ∧ (((s.step c).1).cl c).proc = some (.bc b' (.lookup .rdHead)) := by
    simp only [Sys.step, hp]; repeat' split
    all_goals simp [hb]
  have hacks : ((s.step c).1).acks = s.acks := by
    simp only [Sys.step, hp]; repeat' split
    all_goals simp
  have hent : ∀ n, ((s.step c).1).store (.ent j n) = s.store (.ent j n) := by intro n; rw [hst]; simp [Store.del]
  have hhead : ((s.step c).1).store (.head j) = s.store (.head j) := by rw [hst]; simp [Store.del]
  have hee : e = e' := EntRange.unique h1.range (by intro n; rw [← hent n]; exact h1'.range n)
  subst hee
  have hr : ∀ v, Ref ((s.step c).1).store j v ↔ Ref s.store j v :=
    fun v => ⟨Ref.congr (fun n => (hent n).symm), Ref.congr hent⟩
  have hobj : ∀ v, v ≠ id → ((s.step c).1).store (.cobj j v) = s.store (.cobj j v) := by
    intro v hv; rw [hst]; exact Store.del_other _ _ _ (by simp [hv])
  have hkn : ∀ op a, (((s.step c).1).cl c).kindOn j ≠ some (.commit op a) := by
    intro op a hk
    rcases hpr with h | ⟨b', hb', h⟩
    · simp [Client.kindOn, h] at hk
    · simp [Client.kindOn, h, Proc.kindOn, hb'] at hk
  refine inv3_assemble c (fun _ => False) (fun v => v ≠ id) h3 (step_others s c) (step_next s c)
    (by intro x hx; rw [hacks]; exact hx) (fun v r => Or.inl ((hr v).mp r)) (fun _ h => h.elim) hobj
    ?_ (fun _ _ _ _ _ _ h => h) (fun op a hk => absurd hk (hkn op a)) ?_ ?_ ?_ ?_ ?_
  · intro c' p id' hcc hp' ho hh
    subst hh
    exact hcc (h3.distinct c' c p _ id' hp' hp ho (by simp [Proc.ownedId, hb]))
  · intro x v hv
    by_cases hx : x = id
    · subst hx; rw [hst] at hv; simp at hv
    · rw [hobj x hx] at hv
      obtain ⟨par, adds, dels, b1, b2, b3⟩ := h3.objs x v hv
      exact ⟨par, adds, dels, b1, b2, by have := step_next s c; omega⟩
  · intro p hp'
    rcases hpr with h | ⟨b', _, h⟩
    · rw [h] at hp'; cases hp'
    · rw [h] at hp'; cases hp'; trivial
  · intro p' id' hp' ho
    rcases hpr with h | ⟨b', _, h⟩
    · rw [h] at hp'; cases hp'
    · rw [h] at hp'; cases hp'; simp [Proc.ownedId] at ho
  · intro x hx hxj
    rw [hacks] at hx
    obtain ⟨b1, b2⟩ := h3.ackRef x hx hxj
    exact ⟨(hr _).mpr b1, b2⟩
  · intro x hx hxj n hn1 hn2
    rw [hacks] at hx
    exact paths_keep h3 (ext_of_same hent hhead) (fun v r => (hr v).mpr r)
      (fun v r => hobj v (by intro hh; subst hh; exact a5 r)) x hx hxj n hn1 hn2



/-- Table at e+1 after an `insert k v` entry: other keys keep their value. -/
theorem tableAt_succ_of {s : Store} {j n : Nat} {t : Table} {acts : List JAct} {t' : Table}
    (ht : tableAt s j n = some t) (he : s (.ent j (n + 1)) = some (.entry acts)) (ha : applyActs t acts = some t') :
    tableAt s j (n + 1) = some t' := by
  simp [tableAt, ht, he, ha]

theorem acts_eq_add {op : JOp} {k v : Nat} (h : op.acts = [.add k v]) : op = .insert k v := by
  cases op <;> simp [JOp.acts] at h
  obtain ⟨rfl, rfl⟩ := h; rfl

theorem acts_eq_update {op : JOp} {k v : Nat} (h : op.acts = [.update k v]) : ∃ old, op = .update k old v := by
  cases op <;> simp [JOp.acts] at h
  obtain ⟨rfl, rfl⟩ := h; exact ⟨_, rfl⟩

theorem pending_facts {s : Store} {j nx : Nat} {p : Proc} {id : Nat} (hp : p.pendingId j = some id)
    (h : BcOK s j nx p) : 1 ≤ id ∧ ¬ Ref s j id := by
  cases p with
  | bc b ph =>
    cases ph with
    | lookup pc => simp [Proc.pendingId] at hp
    | putObj tip id' =>
      simp only [Proc.pendingId] at hp; split at hp
      · rename_i hb; cases hp; obtain ⟨a1, _, _, _, a5⟩ := h hb; exact ⟨a1, a5⟩
      · cases hp
    | update tip id' att pc =>
      simp only [Proc.pendingId] at hp; split at hp
      · rename_i hb; cases hp; obtain ⟨a1, _, _, _, a5⟩ := h hb.1; exact ⟨a1, a5 hb.2⟩
      · cases hp
    | cleanup id' err =>
      simp only [Proc.pendingId] at hp; split at hp
      · rename_i hb; cases hp; obtain ⟨a1, _, a5⟩ := h hb; exact ⟨a1, a5⟩
      · cases hp
  | _ => simp [Proc.pendingId] at hp

theorem inv3_step_jp {j : Nat} {s : Sys} {e e' : Nat} (c slot : Nat) (k : JKind) (pc : JPc)
    (hp : (s.cl c).proc = some (.jp j slot k pc))
    (h1 : Inv1 j s e) (h2 : Inv2 j s e) (h3 : Inv3 j s e) (h1' : Inv1 j (s.step c).1 e') (h2' : Inv2 j (s.step c).1 e') :
    Inv3 j (s.step c).1 e' := by
  have hon : (s.cl c).onJ j = some (slot, pc) := by simp [Client.onJ, hp, Proc.onJ]
  have hkd : (s.cl c).kindOn j = some k := by simp [Client.kindOn, hp, Proc.kindOn]
  have hpcOn := pcOn_of_onJ hon
  have eff := jstep_effect s.store j ((s.cl c).cache j slot) k pc (fun p hp' => h1.known c pc p hpcOn hp') (h1.cache c slot)
  have hst : ((s.step c).1).store = (jstep s.store j ((s.cl c).cache j slot) k pc).store := by
    simp only [Sys.step, hp]; split <;> (rename_i heq; rw [heq]; rfl)
  have hacks : ((s.step c).1).acks = s.acks := by
    simp only [Sys.step, hp]; split <;> rfl
  have hnx : ((s.step c).1).next = s.next := by
    simp only [Sys.step, hp]; split <;> rfl
  -- the client's new procedure is again a plain journal procedure with the same operation
  have hpr : (((s.step c).1).cl c).proc = none ∨ ∃ k' pc', (((s.step c).1).cl c).proc = some (.jp j slot k' pc') ∧
      (k' = k ∨ ∃ op a, k = .commit op a ∧ k' = .commit op (a + 1)) := by
    simp only [Sys.step, hp]
    split
    · rename_i st jc k' pc' ev heq
      right; exact ⟨k', pc', by simp, jstep_kind _ _ _ _ _ _ _ _ _ _ heq⟩
    · left; simp
  have hcobj : ∀ v, ((s.step c).1).store (.cobj j v) = s.store (.cobj j v) := by
    intro v; rw [hst]; exact jstep_cobj _ _ _ _ _ _ _
  have hkind' : ∀ op a, (((s.step c).1).cl c).kindOn j = some (.commit op a) →
      ∃ k0 v0, op = .insert k0 v0 ∧ (v0 = 0 ∨ ∃ x ∈ s.acks, x.pool = j ∧ x.id = v0) := by
    intro op a hk
    rcases hpr with h | ⟨k', pc', h, hk'⟩
    · simp [Client.kindOn, h] at hk
    · simp [Client.kindOn, h, Proc.kindOn] at hk
      have hold : ∃ a0, k = .commit op a0 := by
        rcases hk' with hk' | ⟨op', a', h4, h5⟩
        · exact ⟨a, by rw [← hk', hk]⟩
        · rw [h5] at hk; cases hk; exact ⟨a', h4⟩
      obtain ⟨a0, hk0⟩ := hold
      rcases h3.kinds c op a0 (by rw [hkd, hk0]) with h4 | ⟨b, tip, id, att, pc0, h4, _⟩
      · exact h4
      · rw [hp] at h4; cases h4
  have hbc' : ∀ p, (((s.step c).1).cl c).proc = some p → BcOK ((s.step c).1).store j ((s.step c).1).next p ∧ p.ownedId j = none := by
    intro p hp'
    rcases hpr with h | ⟨k', pc', h, _⟩
    · rw [h] at hp'; cases hp'
    · rw [h] at hp'; cases hp'; exact ⟨trivial, rfl⟩
  cases eff with
  | quiet qent qhead qpc qcache qnot =>
    have hent : ∀ n, ((s.step c).1).store (.ent j n) = s.store (.ent j n) := by intro n; rw [hst]; exact qent n
    have hhead : ((s.step c).1).store (.head j) = s.store (.head j) := by rw [hst]; exact qhead
    have hee : e = e' := EntRange.unique h1.range (by intro n; rw [← hent n]; exact h1'.range n)
    subst hee
    have hr : ∀ v, Ref ((s.step c).1).store j v ↔ Ref s.store j v :=
      fun v => ⟨Ref.congr (fun n => (hent n).symm), Ref.congr hent⟩
    refine inv3_assemble c (fun _ => False) (fun _ => True) h3 (step_others s c) (step_next s c)
      (by intro x hx; rw [hacks]; exact hx) (fun v r => Or.inl ((hr v).mp r)) (fun _ h => h.elim) (fun v _ => hcobj v)
      (fun _ _ _ _ _ _ => trivial) (fun _ _ _ _ _ _ h => h) ?_ ?_ (fun p hp' => (hbc' p hp').1) ?_ ?_ ?_
    · intro op a hk
      obtain ⟨k0, v0, h4, h5⟩ := hkind' op a hk
      exact Or.inl ⟨k0, v0, h4, by rw [hacks]; exact h5⟩
    · intro x v hv; rw [hcobj] at hv
      obtain ⟨par, adds, dels, b1, b2, b3⟩ := h3.objs x v hv
      exact ⟨par, adds, dels, b1, b2, by omega⟩
    · intro p' id hp' ho; rw [(hbc' p' hp').2] at ho; cases ho
    · intro x hx hxj; rw [hacks] at hx
      obtain ⟨b1, b2⟩ := h3.ackRef x hx hxj; exact ⟨(hr _).mpr b1, b2⟩
    · intro x hx hxj n hn1 hn2; rw [hacks] at hx
      exact paths_keep h3 (ext_of_same hent hhead) (fun v r => (hr v).mpr r) (fun v _ => hcobj v) x hx hxj n hn1 hn2
  | newHead n hpc0 hst' hpc' hcache' =>
    have hstore : ((s.step c).1).store = s.store.put (.head j) (.num n) := by rw [hst, hst']
    have hent : ∀ m, ((s.step c).1).store (.ent j m) = s.store (.ent j m) := by
      intro m; rw [hstore]; exact Store.put_other _ _ _ _ (by simp)
    have hee : e = e' := EntRange.unique h1.range (by intro m; rw [← hent m]; exact h1'.range m)
    subst hee
    have hr : ∀ v, Ref ((s.step c).1).store j v ↔ Ref s.store j v :=
      fun v => ⟨Ref.congr (fun n => (hent n).symm), Ref.congr hent⟩
    have hx : Ext s.store ((s.step c).1).store j e := by
      refine ⟨fun m _ _ => hent m, ?_⟩
      obtain ⟨_, _, _, hm, _⟩ := inv1_exec (.step c) h1 rfl
      exact hm
    refine inv3_assemble c (fun _ => False) (fun _ => True) h3 (step_others s c) (step_next s c)
      (by intro x hx; rw [hacks]; exact hx) (fun v r => Or.inl ((hr v).mp r)) (fun _ h => h.elim) (fun v _ => hcobj v)
      (fun _ _ _ _ _ _ => trivial) (fun _ _ _ _ _ _ h => h) ?_ ?_ (fun p hp' => (hbc' p hp').1) ?_ ?_ ?_
    · intro op a hk
      obtain ⟨k0, v0, h4, h5⟩ := hkind' op a hk
      exact Or.inl ⟨k0, v0, h4, by rw [hacks]; exact h5⟩
    · intro x v hv; rw [hcobj] at hv
      obtain ⟨par, adds, dels, b1, b2, b3⟩ := h3.objs x v hv
      exact ⟨par, adds, dels, b1, b2, by omega⟩
    · intro p' id hp' ho; rw [(hbc' p' hp').2] at ho; cases ho
    · intro x hx' hxj; rw [hacks] at hx'
      obtain ⟨b1, b2⟩ := h3.ackRef x hx' hxj; exact ⟨(hr _).mpr b1, b2⟩
    · intro x hx' hxj m hn1 hn2; rw [hacks] at hx'
      exact paths_keep h3 hx (fun v r => (hr v).mpr r) (fun v _ => hcobj v) x hx' hxj m hn1 hn2
  | newEnt pos op attempt hk hpc0 hnone hst' hpc' hcache' =>
    subst hpc0
    have hposH : pos ≤ headOf s.store j := h1.known c _ pos hpcOn (by simp [JPc.known])
    have hpose : pos = e := by
      have h4 := h1.range (pos + 1); rw [hnone] at h4; simp at h4
      have := h1.he; omega
    have hHe : headOf s.store j = e := by have := h1.he; omega
    -- the operation is a permitted insert
    obtain ⟨k0, v0, hop, hv0⟩ : ∃ k0 v0, op = .insert k0 v0 ∧ (v0 = 0 ∨ ∃ x ∈ s.acks, x.pool = j ∧ x.id = v0) := by
      rcases h3.kinds c op attempt (by rw [hkd, hk]) with h4 | ⟨b, tip, id, att, pc0, h4, _⟩
      · exact h4
      · rw [hp] at h4; cases h4
    subst hop
    have hstore : ((s.step c).1).store = s.store.put (.ent j (pos + 1)) (.entry [.add k0 v0]) := by
      rw [hst, hst']; rfl
    have hH' : headOf ((s.step c).1).store j = headOf s.store j := by
      rw [hstore]; exact headOf_put_other _ _ _ _ (by simp)
    have hx : Ext s.store ((s.step c).1).store j e :=
      ⟨fun m _ hm => by rw [hstore]; exact Store.put_other _ _ _ _ (by simp; omega), by rw [hH']; exact Nat.le_refl _⟩
    have hee : e' = e + 1 := by
      apply EntRange.unique h1'.range
      intro m; rw [hstore]
      by_cases hm : m = pos + 1
      · subst hm; simp; omega
      · rw [Store.put_other _ _ _ _ (by simp [hm]), h1.range m]; omega
    subst hee
    have hrput := fun v => @Ref.put_ent s.store j (pos + 1) v [.add k0 v0] hnone
    have hr1 : ∀ v, Ref s.store j v → Ref ((s.step c).1).store j v := by
      intro v r; rw [hstore]; exact (hrput v).mpr (Or.inl r)
    have hv0lt : v0 < s.next := by
      rcases hv0 with h | ⟨x, hx', hxj, hxv⟩
      · have := h1.alloc; omega
      · rw [← hxv]; exact h3.refLt _ (h3.ackRef x hx' hxj).1
    refine inv3_assemble c (fun v => v = v0) (fun _ => True) h3 (step_others s c) (step_next s c)
      (by intro x hx'; rw [hacks]; exact hx') ?_ (by intro v hv; subst hv; rw [hnx]; exact hv0lt) (fun v _ => hcobj v)
      (fun _ _ _ _ _ _ => trivial) ?_ ?_ ?_ (fun p hp' => (hbc' p hp').1) ?_ ?_ ?_
    · intro v r
      rw [hstore] at r
      rcases (hrput v).mp r with r | ⟨a, ha, hv⟩
      · exact Or.inl r
      · simp at ha; subst ha; simp [JAct.val] at hv; exact Or.inr hv.symm
    · intro c' p id hcc hp' hpid hh
      obtain ⟨b1, b2⟩ := pending_facts hpid (h3.bc c' p hp')
      rcases hv0 with h | ⟨x, hx', hxj, hxv⟩
      · omega
      · apply b2; rw [hh, ← hxv]; exact (h3.ackRef x hx' hxj).1
    · intro op a hk'
      obtain ⟨k1, v1, h4, h5⟩ := hkind' op a hk'
      exact Or.inl ⟨k1, v1, h4, by rw [hacks]; exact h5⟩
    · intro x v hv; rw [hcobj] at hv
      obtain ⟨par, adds, dels, b1, b2, b3⟩ := h3.objs x v hv
      exact ⟨par, adds, dels, b1, b2, by omega⟩
    · intro p' id hp' ho; rw [(hbc' p' hp').2] at ho; cases ho
    · intro x hx' hxj; rw [hacks] at hx'
      obtain ⟨b1, b2⟩ := h3.ackRef x hx' hxj; exact ⟨hr1 _ b1, b2⟩
    · intro x hx' hxj n hn1 hn2; rw [hacks] at hx'
      by_cases hne : n ≤ e
      · exact paths_keep h3 hx hr1 (fun v _ => hcobj v) x hx' hxj n hn1 hne
      · have hn : n = e + 1 := by omega
        subst hn
        obtain ⟨t, tip, a1, a2, a3⟩ := h3.paths x hx' hxj e (by omega) (Nat.le_refl _)
        obtain ⟨op', t', b1, b2, b3⟩ := h2'.wf e (by omega)
        rw [hx.tableAt e (Nat.le_refl _), a1] at b1; cases b1
        have hent' : ((s.step c).1).store (.ent j (e + 1)) = some (.entry [.add k0 v0]) := by
          rw [hstore, hpose]; simp
        rw [hent'] at b3
        have := acts_eq_add (by simpa using b3.symm : op'.acts = [.add k0 v0])
        subst this
        have hk0 : Table.get t k0 = none := by
          simp only [JOp.check] at b2
          cases hg : Table.get t k0 with
          | none => rfl
          | some w => simp [hg] at b2
        have hne' : x.branch ≠ k0 := by intro hh; rw [hh, hk0] at a2; cases a2
        refine ⟨Table.set t k0 v0, tip, ?_, ?_, a3.mono hr1 (fun v _ => hcobj v)⟩
        · exact tableAt_succ_of (by rw [hx.tableAt e (Nat.le_refl _)]; exact a1) hent' (by simp [applyActs, applyAct])
        · rw [Table.get_set]; simp [hne', a2]


theorem inv3_step_lookup {j : Nat} {s : Sys} {e e' : Nat} (c : Nat) (b : BC) (pc : JPc)
    (hp : (s.cl c).proc = some (.bc b (.lookup pc))) (hb : b.pool = j)
    (h1 : Inv1 j s e) (h2 : Inv2 j s e) (h3 : Inv3 j s e) (h1' : Inv1 j (s.step c).1 e') (h2' : Inv2 j (s.step c).1 e') :
    Inv3 j (s.step c).1 e' := by
  subst hb
  have hon : (s.cl c).onJ b.pool = some (b.slot, pc) := by simp [Client.onJ, hp, Proc.onJ]
  have hkd : (s.cl c).kindOn b.pool = some .load := by simp [Client.kindOn, hp, Proc.kindOn]
  have hpcOn := pcOn_of_onJ hon
  have eff := jstep_effect s.store b.pool ((s.cl c).cache b.pool b.slot) .load pc
    (fun p hp' => h1.known c pc p hpcOn hp') (h1.cache c b.slot)
  have hst : ((s.step c).1).store = (jstep s.store b.pool ((s.cl c).cache b.pool b.slot) .load pc).store := by
    simp only [Sys.step, hp]; split <;> rename_i heq <;> rw [heq]
    · rfl
    · simp only [bcAfterLookup]; repeat' split
      all_goals rfl
  have hacks : ((s.step c).1).acks = s.acks := by
    simp only [Sys.step, hp]; split
    · rfl
    · simp only [bcAfterLookup]; repeat' split
      all_goals rfl
  have hcobj : ∀ v, ((s.step c).1).store (.cobj b.pool v) = s.store (.cobj b.pool v) := by
    intro v; rw [hst]; exact jstep_cobj _ _ _ _ _ _ _
  -- a load never writes entries or HEAD
  have hq : (∀ n, ((s.step c).1).store (.ent b.pool n) = s.store (.ent b.pool n)) ∧
      ((s.step c).1).store (.head b.pool) = s.store (.head b.pool) := by
    cases eff with
    | quiet qent qhead _ _ _ => exact ⟨fun n => by rw [hst]; exact qent n, by rw [hst]; exact qhead⟩
    | newEnt pos op attempt hk _ _ _ _ _ => cases hk
    | newHead n hpc0 _ _ _ =>
      subst hpc0
      obtain ⟨op, a, hk, _⟩ := h2.pcs c b.slot .load _ hon hkd
      cases hk
  obtain ⟨hent, hhead⟩ := hq
  have hee : e = e' := EntRange.unique h1.range (by intro n; rw [← hent n]; exact h1'.range n)
  subst hee
  have hr : ∀ v, Ref ((s.step c).1).store b.pool v ↔ Ref s.store b.pool v :=
    fun v => ⟨Ref.congr (fun n => (hent n).symm), Ref.congr hent⟩
  -- shape of the client's new procedure
  have hform : (((s.step c).1).next = s.next ∧ ((((s.step c).1).cl c).proc = none ∨
        ∃ pc', (((s.step c).1).cl c).proc = some (.bc b (.lookup pc')))) ∨
      (∃ tip, ((s.step c).1).next = s.next + 1 ∧ (((s.step c).1).cl c).proc = some (.bc b (.putObj tip s.next)) ∧
        (b.branch, tip) ∈ ((((s.step c).1).cl c).cache b.pool b.slot).table) := by
    simp only [Sys.step, hp]
    split
    · rename_i st jc k' pc' ev heq
      left; exact ⟨rfl, Or.inr ⟨pc', by simp⟩⟩
    · simp only [bcAfterLookup]
      split
      · rename_i tip hget _
        split
        · right
          refine ⟨tip, rfl, by simp, ?_⟩
          simp [Client.setCache]
          exact Table.get_mem hget
        · left; exact ⟨rfl, Or.inl (by simp)⟩
      · left; exact ⟨rfl, Or.inl (by simp)⟩
  rcases hform with ⟨hnx, hpr⟩ | ⟨tip, hnx, hpr, hmem⟩
  · -- no id allocated: a frame for pool j
    refine inv3_frame h1 h3 hent hhead hcobj (by omega) (by intro x hx _; rw [hacks] at hx; exact hx)
      (by intro x hx; rw [hacks]; exact hx) ?_
    intro c'
    by_cases hcc : c' = c
    · subst hcc
      right; intro p hp'
      rcases hpr with h | ⟨pc', h⟩
      · rw [h] at hp'; cases hp'
      · rw [h] at hp'; cases hp'
        exact ⟨by simp [Proc.ownedId], trivial, by intro op a hk; simp [Proc.kindOn] at hk⟩
    · left; rw [step_others s c c' hcc]
  · -- a fresh id is allocated for the new commit object
    have hnx1 : 1 ≤ s.next := by have := h1.alloc; omega
    have htip : tip < s.next := by
      obtain ⟨m, hm, htm⟩ := (h2'.cache c b.slot).hist (h1'.cache c b.slot)
      exact h3.refLt tip ((hr tip).mp (tableAt_ref htm hmem))
    have hfresh : s.store (.cobj b.pool s.next) = none := by
      cases hx : s.store (.cobj b.pool s.next) with
      | none => rfl
      | some v => obtain ⟨_, _, _, _, _, h4⟩ := h3.objs _ v hx; omega
    have hnoref : ¬ Ref s.store b.pool s.next := fun r => by have := h3.refLt _ r; omega
    refine inv3_assemble c (fun _ => False) (fun _ => True) h3 (step_others s c) (by omega)
      (by intro x hx; rw [hacks]; exact hx) (fun v r => Or.inl ((hr v).mp r)) (fun _ h => h.elim) (fun v _ => hcobj v)
      (fun _ _ _ _ _ _ => trivial) (fun _ _ _ _ _ _ h => h) ?_ ?_ ?_ ?_ ?_ ?_
    · intro op a hk; simp [Client.kindOn, hpr, Proc.kindOn] at hk
    · intro x v hv; rw [hcobj] at hv
      obtain ⟨par, adds, dels, b1, b2, b3⟩ := h3.objs x v hv
      exact ⟨par, adds, dels, b1, b2, by omega⟩
    · intro p hp'
      rw [hpr] at hp'; cases hp'
      intro _
      exact ⟨hnx1, by omega, htip, by rw [hcobj]; exact hfresh, fun r => hnoref ((hr _).mp r)⟩
    · intro p' id hp' ho
      rw [hpr] at hp'; cases hp'
      simp [Proc.ownedId] at ho; subst ho
      right
      intro c' p hcc hp'' ho'
      -- every id owned before the step is below `next`
      have : ∀ q id', q.ownedId b.pool = some id' → BcOK s.store b.pool s.next q → id' < s.next := by
        intro q id' hq hbq
        cases q with
        | bc b' ph =>
          cases ph with
          | lookup _ => simp [Proc.ownedId] at hq
          | putObj t i => simp only [Proc.ownedId] at hq; split at hq
                          · rename_i hb'; cases hq; exact (hbq hb').2.1
                          · cases hq
          | update t i a' pc' => simp only [Proc.ownedId] at hq; split at hq
                                 · rename_i hb'; cases hq; exact (hbq hb').2.1
                                 · cases hq
          | cleanup i err => simp only [Proc.ownedId] at hq; split at hq
                             · rename_i hb'; cases hq; exact (hbq hb').2.1
                             · cases hq
        | _ => simp [Proc.ownedId] at hq
      have := this p s.next ho' (h3.bc c' p hp'')
      omega
    · intro x hx hxj; rw [hacks] at hx
      obtain ⟨b1, b2⟩ := h3.ackRef x hx hxj; exact ⟨(hr _).mpr b1, b2⟩
    · intro x hx hxj n hn1 hn2; rw [hacks] at hx
      exact paths_keep h3 (ext_of_same hent hhead) (fun v r => (hr v).mpr r) (fun v _ => hcobj v) x hx hxj n hn1 hn2



theorem pending_owned {j : Nat} {p : Proc} {id : Nat} (h : p.pendingId j = some id) : p.ownedId j = some id := by
  cases p with
  | bc b ph =>
    cases ph with
    | lookup pc => simp [Proc.pendingId] at h
    | putObj tip id' => simpa [Proc.pendingId, Proc.ownedId] using h
    | update tip id' att pc =>
      simp only [Proc.pendingId] at h; split at h
      · rename_i hb; cases h; simp [Proc.ownedId, hb.1]
      · cases h
    | cleanup id' err => simpa [Proc.pendingId, Proc.ownedId] using h
  | _ => simp [Proc.pendingId] at h

theorem update_check {t : Table} {k old new : Nat} (h : (JOp.update k old new).check t = none) :
    Table.get t k = some old := by
  simp only [JOp.check] at h
  split at h
  · cases h
  · rename_i x hx
    split at h
    · rename_i hxo; rw [hx, hxo]
    · cases h

theorem inv3_step_update {j : Nat} {s : Sys} {e e' : Nat} (c : Nat) (b : BC) (tip id att : Nat) (pc : JPc)
    (hp : (s.cl c).proc = some (.bc b (.update tip id att pc))) (hb : b.pool = j)
    (h1 : Inv1 j s e) (h2 : Inv2 j s e) (h3 : Inv3 j s e) (h1' : Inv1 j (s.step c).1 e') (h2' : Inv2 j (s.step c).1 e') :
    Inv3 j (s.step c).1 e' := by
  subst hb
  obtain ⟨a1, a2, a3, a4, a5⟩ := h3.bc c _ hp rfl
  have hon : (s.cl c).onJ b.pool = some (b.slot, pc) := by simp [Client.onJ, hp, Proc.onJ]
  have hkd : (s.cl c).kindOn b.pool = some (.commit (.update b.branch tip id) att) := by
    simp [Client.kindOn, hp, Proc.kindOn]
  have hpcOn := pcOn_of_onJ hon
  have eff := jstep_effect s.store b.pool ((s.cl c).cache b.pool b.slot) (.commit (.update b.branch tip id) att) pc
    (fun p hp' => h1.known c pc p hpcOn hp') (h1.cache c b.slot)
  have hst : ((s.step c).1).store =
      (jstep s.store b.pool ((s.cl c).cache b.pool b.slot) (.commit (.update b.branch tip id) att) pc).store := by
    simp only [Sys.step, hp]; split <;> rename_i heq <;> rw [heq]
    · rfl
    · split <;> rfl
  have hnx : ((s.step c).1).next = s.next := by
    simp only [Sys.step, hp]; split
    · rfl
    · split <;> rfl
  have hcobj : ∀ v, ((s.step c).1).store (.cobj b.pool v) = s.store (.cobj b.pool v) := by
    intro v; rw [hst]; exact jstep_cobj _ _ _ _ _ _ _
  have hobjs : ∀ x v, ((s.step c).1).store (.cobj b.pool x) = some v →
      ∃ par adds dels, v = .commit par adds dels ∧ par < x ∧ x < ((s.step c).1).next := by
    intro x v hv; rw [hcobj] at hv
    obtain ⟨par, adds, dels, b1, b2, b3⟩ := h3.objs x v hv
    exact ⟨par, adds, dels, b1, b2, by omega⟩
  have hothid : ∀ c' p id', c' ≠ c → (s.cl c').proc = some p → p.pendingId b.pool = some id' → id' ≠ id := by
    intro c' p id' hcc hp' hpid hh
    subst hh
    exact hcc (h3.distinct c' c p _ id' hp' hp (pending_owned hpid) (by simp [Proc.ownedId]))
  cases eff with
  | quiet qent qhead qpc qcache qnot =>
    have hent : ∀ n, ((s.step c).1).store (.ent b.pool n) = s.store (.ent b.pool n) := by intro n; rw [hst]; exact qent n
    have hhead : ((s.step c).1).store (.head b.pool) = s.store (.head b.pool) := by rw [hst]; exact qhead
    have hee : e = e' := EntRange.unique h1.range (by intro n; rw [← hent n]; exact h1'.range n)
    subst hee
    have hr : ∀ v, Ref ((s.step c).1).store b.pool v ↔ Ref s.store b.pool v :=
      fun v => ⟨Ref.congr (fun n => (hent n).symm), Ref.congr hent⟩
    have hacks : ((s.step c).1).acks = s.acks := by
      simp only [Sys.step, hp]; split
      · rfl
      · rename_i st jc r ev heq
        split
        · obtain ⟨n, hn⟩ := jstep_commit_ok _ _ _ _ _ _ _ _ _ heq
          subst hn; simp [JPc.isPutHead] at qnot
        · rfl
    have hpr : (∃ att' pc', (((s.step c).1).cl c).proc = some (.bc b (.update tip id att' pc')) ∧ pc'.isPutHead = false) ∨
        (∃ err, (((s.step c).1).cl c).proc = some (.bc b (.cleanup id err))) := by
      simp only [Sys.step, hp]; split
      · rename_i st jc k' pc' ev heq
        left
        have hq := (qpc pc' (by rw [heq]; rfl)).1
        cases k' with
        | load => exact ⟨att, pc', by simp, hq⟩
        | commit op a => exact ⟨a, pc', by simp, hq⟩
      · rename_i st jc r ev heq
        split
        · obtain ⟨n, hn⟩ := jstep_commit_ok _ _ _ _ _ _ _ _ _ heq
          subst hn; simp [JPc.isPutHead] at qnot
        · right; exact ⟨r, by simp⟩
    refine inv3_assemble c (fun _ => False) (fun _ => True) h3 (step_others s c) (by omega)
      (by intro x hx; rw [hacks]; exact hx) (fun v r => Or.inl ((hr v).mp r)) (fun _ h => h.elim) (fun v _ => hcobj v)
      (fun _ _ _ _ _ _ => trivial) (fun _ _ _ _ _ _ h => h) ?_ hobjs ?_ ?_ ?_ ?_
    · intro op a hk
      rcases hpr with ⟨att', pc', h, _⟩ | ⟨err, h⟩
      · right; refine ⟨b, tip, id, att', pc', h, rfl, ?_⟩
        have := hk; simp [Client.kindOn, h, Proc.kindOn] at this; exact this.1.symm
      · simp [Client.kindOn, h, Proc.kindOn] at hk
    · intro p hp'
      rcases hpr with ⟨att', pc', h, hnp⟩ | ⟨err, h⟩
      · rw [h] at hp'; cases hp'
        intro _
        exact ⟨a1, by omega, a3, by rw [hcobj]; exact a4, fun _ r => a5 qnot ((hr _).mp r)⟩
      · rw [h] at hp'; cases hp'
        intro _
        exact ⟨a1, by omega, fun r => a5 qnot ((hr _).mp r)⟩
    · intro p' id' hp' ho
      left
      refine ⟨_, hp, ?_⟩
      rcases hpr with ⟨att', pc', h, _⟩ | ⟨err, h⟩
      · rw [h] at hp'; cases hp'; simpa [Proc.ownedId] using ho
      · rw [h] at hp'; cases hp'; simpa [Proc.ownedId] using ho
    · intro x hx hxj; rw [hacks] at hx
      obtain ⟨b1, b2⟩ := h3.ackRef x hx hxj; exact ⟨(hr _).mpr b1, b2⟩
    · intro x hx hxj n hn1 hn2; rw [hacks] at hx
      exact paths_keep h3 (ext_of_same hent hhead) (fun v r => (hr v).mpr r) (fun v _ => hcobj v) x hx hxj n hn1 hn2
  | newEnt pos op attempt hk hpc0 hnone hst' hpc' hcache' =>
    subst hpc0
    cases hk
    have hposH : pos ≤ headOf s.store b.pool := h1.known c _ pos hpcOn (by simp [JPc.known])
    have hpose : pos = e := by
      have h4 := h1.range (pos + 1); rw [hnone] at h4; simp at h4
      have := h1.he; omega
    have hHe : headOf s.store b.pool = e := by have := h1.he; omega
    have hstore : ((s.step c).1).store = s.store.put (.ent b.pool (pos + 1)) (.entry [.update b.branch id]) := by
      rw [hst, hst']; rfl
    have hH' : headOf ((s.step c).1).store b.pool = headOf s.store b.pool := by
      rw [hstore]; exact headOf_put_other _ _ _ _ (by simp)
    have hx : Ext s.store ((s.step c).1).store b.pool e :=
      ⟨fun m _ hm => by rw [hstore]; exact Store.put_other _ _ _ _ (by simp; omega), by rw [hH']; exact Nat.le_refl _⟩
    have hee : e' = e + 1 := by
      apply EntRange.unique h1'.range
      intro m; rw [hstore]
      by_cases hm : m = pos + 1
      · subst hm; simp; omega
      · rw [Store.put_other _ _ _ _ (by simp [hm]), h1.range m]; omega
    subst hee
    have hrput := fun v => @Ref.put_ent s.store b.pool (pos + 1) v [.update b.branch id] hnone
    have hr1 : ∀ v, Ref s.store b.pool v → Ref ((s.step c).1).store b.pool v := by
      intro v r; rw [hstore]; exact (hrput v).mpr (Or.inl r)
    have hrid : Ref ((s.step c).1).store b.pool id := by
      rw [hstore]; exact (hrput id).mpr (Or.inr ⟨.update b.branch id, by simp, rfl⟩)
    -- the constraint was checked under exactly the table at e: the branch's tip there is `tip`
    have htipe : ∃ t, tableAt s.store b.pool e = some t ∧ Table.get t b.branch = some tip := by
      obtain ⟨hjp, op', a', hk', hor⟩ := h2.pcs c b.slot _ _ hon hkd
      cases hk'
      rcases hor with ⟨h4, h5⟩ | h4
      · exact ⟨_, by rw [← hpose]; exact h4, update_check h5⟩
      · omega
    obtain ⟨te, hte, htget⟩ := htipe
    have hacks : ((s.step c).1).acks = s.acks := by
      simp only [Sys.step, hp]; split
      · rfl
      · rename_i st jc r ev heq
        have : (jstep s.store b.pool ((s.cl c).cache b.pool b.slot) (.commit (.update b.branch tip id) att) (.putx pos)).pc? = none := by
          rw [heq]; rfl
        rw [hpc'] at this; cases this
    have hpr : ∃ att', (((s.step c).1).cl c).proc = some (.bc b (.update tip id att' (.putHead (pos + 1)))) := by
      simp only [Sys.step, hp]; split
      · rename_i st jc k' pc' ev heq
        have : pc' = .putHead (pos + 1) := by
          have h4 := hpc'; rw [heq] at h4; simpa using h4
        subst this
        cases k' with
        | load => exact ⟨att, by simp⟩
        | commit op a => exact ⟨a, by simp⟩
      · rename_i st jc r ev heq
        have h4 := hpc'; rw [heq] at h4; cases h4
    obtain ⟨att', hpr⟩ := hpr
    refine inv3_assemble c (fun v => v = id) (fun _ => True) h3 (step_others s c) (by omega)
      (by intro x hx'; rw [hacks]; exact hx') ?_ (by intro v hv; subst hv; omega) (fun v _ => hcobj v)
      (fun _ _ _ _ _ _ => trivial) (fun c' p id' hcc hp' hpid => hothid c' p id' hcc hp' hpid) ?_ hobjs ?_ ?_ ?_ ?_
    · intro v r
      rw [hstore] at r
      rcases (hrput v).mp r with r | ⟨a, ha, hv⟩
      · exact Or.inl r
      · simp at ha; subst ha; simp [JAct.val] at hv; exact Or.inr hv.symm
    · intro op a hk
      right; refine ⟨b, tip, id, att', _, hpr, rfl, ?_⟩
      have := hk; simp [Client.kindOn, hpr, Proc.kindOn] at this; exact this.1.symm
    · intro p hp'
      rw [hpr] at hp'; cases hp'
      intro _
      exact ⟨a1, by omega, a3, by rw [hcobj]; exact a4, fun hh => by simp [JPc.isPutHead] at hh⟩
    · intro p' id' hp' ho
      rw [hpr] at hp'; cases hp'
      exact Or.inl ⟨_, hp, by simpa [Proc.ownedId] using ho⟩
    · intro x hx' hxj; rw [hacks] at hx'
      obtain ⟨b1, b2⟩ := h3.ackRef x hx' hxj; exact ⟨hr1 _ b1, b2⟩
    · intro x hx' hxj n hn1 hn2; rw [hacks] at hx'
      by_cases hne : n ≤ e
      · exact paths_keep h3 hx hr1 (fun v _ => hcobj v) x hx' hxj n hn1 hne
      · have hn : n = e + 1 := by omega
        subst hn
        obtain ⟨t, tipx, c1, c2, c3⟩ := h3.paths x hx' hxj e (by omega) (Nat.le_refl _)
        rw [hte] at c1; cases c1
        have hent' : ((s.step c).1).store (.ent b.pool (e + 1)) = some (.entry [.update b.branch id]) := by
          rw [hstore, hpose]; simp
        have htab : tableAt ((s.step c).1).store b.pool (e + 1) = some (Table.set te b.branch id) :=
          tableAt_succ_of (by rw [hx.tableAt e (Nat.le_refl _)]; exact hte) hent'
            (by simp [applyActs, applyAct, htget])
        by_cases hbr : x.branch = b.branch
        · refine ⟨_, id, htab, by rw [Table.get_set]; simp [hbr], ?_⟩
          rw [hbr, htget] at c2; cases c2
          exact .step id tip x.id b.adds b.dels hrid (by rw [hcobj]; exact a4) a3 (c3.mono hr1 (fun v _ => hcobj v))
        · exact ⟨_, tipx, htab, by rw [Table.get_set]; simp [hbr, c2], c3.mono hr1 (fun v _ => hcobj v)⟩
  | newHead n hpc0 hst' hpc' hcache' =>
    subst hpc0
    obtain ⟨hne, hHe⟩ := h1.ph c n hpcOn
    have hstore : ((s.step c).1).store = s.store.put (.head b.pool) (.num n) := by rw [hst, hst']
    have hent : ∀ m, ((s.step c).1).store (.ent b.pool m) = s.store (.ent b.pool m) := by
      intro m; rw [hstore]; exact Store.put_other _ _ _ _ (by simp)
    have hee : e = e' := EntRange.unique h1.range (by intro m; rw [← hent m]; exact h1'.range m)
    subst hee
    have hH' : headOf ((s.step c).1).store b.pool = n := by rw [hstore]; exact headOf_put_head _ _ _
    have hr : ∀ v, Ref ((s.step c).1).store b.pool v ↔ Ref s.store b.pool v :=
      fun v => ⟨Ref.congr (fun m => (hent m).symm), Ref.congr hent⟩
    have hx : Ext s.store ((s.step c).1).store b.pool e :=
      ⟨fun m _ _ => hent m, by rw [hH']; omega⟩
    -- my entry is entry e
    have hmy : s.store (.ent b.pool n) = some (.entry [.update b.branch id]) := by
      obtain ⟨op', a', hk', hentn⟩ := h2.pcs c b.slot _ _ hon hkd
      cases hk'; exact hentn
    have hrid : Ref s.store b.pool id := ⟨n, _, .update b.branch id, hmy, by simp, rfl⟩
    -- the step acknowledges
    have hdone : ∃ jc ev, jstep s.store b.pool ((s.cl c).cache b.pool b.slot) (.commit (.update b.branch tip id) att) (.putHead n) =
        .done (s.store.put (.head b.pool) (.num n)) jc .ok ev := by
      simp [jstep]
    obtain ⟨jc, ev, hdone⟩ := hdone
    have hacks : ((s.step c).1).acks = ⟨c, b.pool, b.branch, id⟩ :: s.acks := by
      simp only [Sys.step, hp, hdone]; rfl
    have hpr : (((s.step c).1).cl c).proc = none := by
      simp only [Sys.step, hp, hdone]; simp
    -- table at e: the branch points to my commit
    have htabe : ∃ t, tableAt s.store b.pool e = some t ∧ Table.get t b.branch = some id := by
      obtain ⟨op', t0, c1, c2, c3⟩ := h2.wf (e - 1) (by omega)
      have ee : e - 1 + 1 = e := by omega
      rw [ee, ← hne, hmy] at c3
      obtain ⟨old, hop⟩ := acts_eq_update (by simpa using c3.symm : op'.acts = [.update b.branch id])
      subst hop
      have hg := update_check c2
      refine ⟨Table.set t0 b.branch id, ?_, by rw [Table.get_set]; simp⟩
      have := tableAt_succ_of (s := s.store) (j := b.pool) (n := e - 1) (t := t0) c1 (by rw [ee, ← hne]; exact hmy)
        (show applyActs t0 [.update b.branch id] = some (Table.set t0 b.branch id) by simp [applyActs, applyAct, hg])
      rw [ee] at this; exact this
    obtain ⟨te, hte, hteg⟩ := htabe
    refine inv3_assemble c (fun _ => False) (fun _ => True) h3 (step_others s c) (by omega)
      (by intro x hx'; rw [hacks]; exact List.mem_cons_of_mem _ hx') (fun v r => Or.inl ((hr v).mp r)) (fun _ h => h.elim)
      (fun v _ => hcobj v) (fun _ _ _ _ _ _ => trivial) (fun _ _ _ _ _ _ h => h) ?_ hobjs ?_ ?_ ?_ ?_
    · intro op a hk; simp [Client.kindOn, hpr] at hk
    · intro p hp'; rw [hpr] at hp'; cases hp'
    · intro p' id' hp'; rw [hpr] at hp'; cases hp'
    · intro x hx' hxj
      rw [hacks] at hx'
      rcases List.mem_cons.mp hx' with rfl | hx'
      · exact ⟨(hr _).mpr hrid, by show id ≠ 0; omega⟩
      · obtain ⟨b1, b2⟩ := h3.ackRef x hx' hxj; exact ⟨(hr _).mpr b1, b2⟩
    · intro x hx' hxj m hn1 hn2
      rw [hacks] at hx'
      rcases List.mem_cons.mp hx' with rfl | hx'
      · have hm : m = e := by rw [hH'] at hn1; omega
        subst hm
        exact ⟨te, id, by rw [hx.tableAt m (Nat.le_refl _)]; exact hte, hteg, .refl id (by omega)⟩
      · exact paths_keep h3 hx (fun v r => (hr v).mpr r) (fun v _ => hcobj v) x hx' hxj m hn1 hn2


theorem inv3_exec {j : Nat} {s : Sys} {e e' : Nat} (hj : j ≠ 0) (l : Label)
    (h1 : Inv1 j s e) (h2 : Inv2 j s e) (h3 : Inv3 j s e) (hd : l.drops j = false)
    (h1' : Inv1 j (s.exec l) e') (h2' : Inv2 j (s.exec l) e') : Inv3 j (s.exec l) e' := by
  cases l with
  | truncSnap j' =>
    simp only [Sys.exec] at h1' h2' ⊢
    have hent : ∀ n, (s.store.del (.snap j')) (.ent j n) = s.store (.ent j n) := by intro n; simp [Store.del]
    have hee : e = e' := EntRange.unique h1.range (by intro n; rw [← hent n]; exact h1'.range n)
    subst hee
    exact inv3_frame h1 h3 hent (by simp [Store.del]) (fun c => by simp [Store.del]) (Nat.le_refl _)
      (fun x hx _ => hx) (fun x hx => hx) (fun c => Or.inl rfl)
  | start c st =>
    simp only [Sys.exec] at h1' h2' ⊢
    have hst : (s.start c st).store = s.store := by
      simp only [Sys.start]; repeat' split
      all_goals rfl
    have hee : e = e' := EntRange.unique h1.range (by have := h1'.range; rw [hst] at this; exact this)
    subst hee
    exact inv3_start hj c st h1 h3 (by simpa [Label.drops] using hd)
  | step c =>
    simp only [Sys.exec] at h1' h2' ⊢
    cases hp : (s.cl c).proc with
    | none =>
      have : (s.step c).1 = s := by simp [Sys.step, hp]
      rw [this] at h1' ⊢
      have hee : e = e' := EntRange.unique h1.range h1'.range
      subst hee; exact h3
    | some p =>
      by_cases ht : p.touches j = false
      · obtain ⟨b1, b2, b3, b4, b5, b6, b7⟩ := step_untouched s c j p hp ht
        have hee : e = e' := EntRange.unique h1.range (by intro n; rw [← b1 n]; exact h1'.range n)
        subst hee
        refine inv3_frame h1 h3 b1 b2 b3 b4 b5 b6 ?_
        intro c'
        by_cases hcc : c' = c
        · subst hcc
          right; intro p' hp'
          obtain ⟨u1, u2, u3⟩ := untouched_facts (b7 p' hp') ((s.step c').1).store ((s.step c').1).next
          exact ⟨u1, u2, fun op a hk => absurd hk (u3 op a)⟩
        · left; rw [step_others s c c' hcc]
      · have ht' : p.touches j = true := by simpa using ht
        cases p with
        | jp j' slot k pc =>
          have : j' = j := by simpa [Proc.touches] using ht'
          subst this
          exact inv3_step_jp c slot k pc hp h1 h2 h3 h1' h2'
        | bc b ph =>
          have hb : b.pool = j := by simpa [Proc.touches] using ht'
          cases ph with
          | lookup pc => exact inv3_step_lookup c b pc hp hb h1 h2 h3 h1' h2'
          | putObj tip id => exact inv3_step_putObj c b tip id hp hb h1 h3 h1'
          | update tip id att pc => exact inv3_step_update c b tip id att pc hp hb h1 h2 h3 h1' h2'
          | cleanup id err => exact inv3_step_cleanup c b id err hp hb h1 h3 h1'
        | create j' st =>
          have := h1.noreset c _ hp
          simp [Proc.touches] at ht'
          simp [Proc.resets, ht'] at this
        | openJ j' => simp [Proc.touches] at ht'
        | delPool p' =>
          have := h1.noreset c _ hp
          simp [Proc.touches] at ht'
          simp [Proc.resets, ht'] at this

/-- The run starts no raw delete / move on journal j. -/
def NoDrop (j : Nat) (ls : List Label) : Prop := ∀ l ∈ ls, l.drops j = false

theorem inv123_run {j : Nat} (hj : j ≠ 0) (ls : List Label) : ∀ {s : Sys} {e : Nat},
    Inv1 j s e → Inv2 j s e → Inv3 j s e → NoReset j ls → NoDrop j ls →
    ∃ e', Inv1 j (s.run ls) e' ∧ Inv2 j (s.run ls) e' ∧ Inv3 j (s.run ls) e' := by
  induction ls with
  | nil => intro s e h1 h2 h3 _ _; exact ⟨e, h1, h2, h3⟩
  | cons l ls ih =>
    intro s e h1 h2 h3 hn hd
    obtain ⟨e1, h1', _⟩ := inv1_exec l h1 (hn l (by simp))
    have h2' := inv2_exec l h1 h2 (hn l (by simp)) h1'
    have h3' := inv3_exec hj l h1 h2 h3 (hd l (by simp)) h1' h2'
    exact ih h1' h2' h3' (fun l' hl' => hn l' (by simp [hl'])) (fun l' hl' => hd l' (by simp [hl']))

/-- Pool j has just been created: nothing of it exists besides the empty branches journal and
    no procedure works on it. -/
structure PoolFresh (j : Nat) (s : Sys) : Prop where
  untouched : ∀ c p, (s.cl c).proc = some p → p.touches j = false
  noobj : ∀ x, s.store (.cobj j x) = none
  noacks : ∀ x ∈ s.acks, x.pool ≠ j

theorem PoolFresh.inv3 {j s} (hf : JFresh j s) (h : PoolFresh j s) : Inv3 j s 0 := by
  have hnoref : ∀ v, ¬ Ref s.store j v := by
    rintro v ⟨n, acts, a, h1, _, _⟩; rw [hf.noent n] at h1; cases h1
  refine ⟨?_, fun v r => absurd r (hnoref v), fun x hx hxj => absurd hxj (h.noacks x hx), ?_, ?_, ?_,
    fun x hx hxj => absurd hxj (h.noacks x hx)⟩
  · intro c op a hk
    cases hp : (s.cl c).proc with
    | none => simp [Client.kindOn, hp] at hk
    | some p =>
      obtain ⟨_, _, u3⟩ := untouched_facts (h.untouched c p hp) s.store s.next
      exact absurd (by simpa [Client.kindOn, hp] using hk) (u3 op a)
  · intro x v hv; rw [h.noobj x] at hv; cases hv
  · intro c p hp; exact (untouched_facts (h.untouched c p hp) s.store s.next).2.1
  · intro c c' p p' id hp _ ho; rw [(untouched_facts (h.untouched c p hp) s.store s.next).1] at ho; cases ho

/-- States reachable from a freshly created pool j by labels that neither delete the pool nor
    remove / rename its branches. -/
def ReachB (j : Nat) (s : Sys) : Prop :=
  ∃ s0 ls, JFresh j s0 ∧ PoolFresh j s0 ∧ NoReset j ls ∧ NoDrop j ls ∧ s = s0.run ls

theorem ReachB.reach {j s} (h : ReachB j s) : Reach j s := by
  obtain ⟨s0, ls, hf, _, hn, _, rfl⟩ := h; exact ⟨s0, ls, hf, hn, rfl⟩

theorem ReachB.inv {j s} (hj : j ≠ 0) (h : ReachB j s) : ∃ e, Inv1 j s e ∧ Inv2 j s e ∧ Inv3 j s e := by
  obtain ⟨s0, ls, hf, hp, hn, hd, rfl⟩ := h
  exact inv123_run hj ls hf.inv1 hf.inv2 (hp.inv3 hf) hn hd

theorem ReachB.run {j s} (h : ReachB j s) (ls : List Label) (hn : NoReset j ls) (hd : NoDrop j ls) :
    ReachB j (s.run ls) := by
  obtain ⟨s0, l0, hf, hp, hn0, hd0, rfl⟩ := h
  refine ⟨s0, l0 ++ ls, hf, hp, ?_, ?_, (Sys.run_append _ _ _).symm⟩
  · intro l hl; rcases List.mem_append.mp hl with h1 | h1
    · exact hn0 l h1
    · exact hn l h1
  · intro l hl; rcases List.mem_append.mp hl with h1 | h1
    · exact hd0 l h1
    · exact hd l h1

theorem objsDecr_of_inv3 {j s e} (h3 : Inv3 j s e) : ObjsDecr s.store j := by
  intro c par adds dels ho
  obtain ⟨par', adds', dels', h4, h5, _⟩ := h3.objs c _ ho
  cases h4; exact h5



theorem exec_acks_mono (s : Sys) (l : Label) (x : Ack) (h : x ∈ s.acks) : x ∈ (s.exec l).acks := by
  cases l with
  | truncSnap j' => simpa [Sys.exec] using h
  | start c st =>
    simp only [Sys.exec, Sys.start]
    repeat' split
    all_goals simpa using h
  | step c =>
    simp only [Sys.exec, Sys.step]
    repeat' split
    all_goals (first | (simpa using h) | (simp only [bcAfterLookup]; repeat' split) | skip)
    all_goals (first | (simpa using h) | (simp [h]))

theorem run_acks_mono (ls : List Label) : ∀ (s : Sys) (x : Ack), x ∈ s.acks → x ∈ (s.run ls).acks := by
  induction ls with
  | nil => intro s x h; exact h
  | cons l ls ih => intro s x h; exact ih _ x (exec_acks_mono s l x h)


/-! ### A concrete witness (non-vacuity of `ReachB`) -/

/-- A lake in which client 0 has just created pool 1 (Put HEAD, Put TAIL). -/
def poolCreated : Sys := Sys.init.run [.start 0 .create, .step 0, .step 0]

theorem poolCreated_cl (c : Nat) : (poolCreated.cl c).proc = none ∧ ∀ j sl, (poolCreated.cl c).cache j sl = JCache.empty := by
  simp only [poolCreated, Sys.run, Sys.exec, Sys.start, Sys.init, Sys.step, Sys.setClient, Client.idle]
  by_cases h : c = 0 <;> simp [h, Client.idle]

theorem poolCreated_store : poolCreated.store =
    (((Store.empty.put (.head 0) (.num 0)).put (.tail 0) (.tailv 1 0)).put (.head 1) (.num 0)).put (.tail 1) (.tailv 1 0) := by
  simp [poolCreated, Sys.run, Sys.exec, Sys.start, Sys.init, Sys.step, Sys.setClient, Client.idle]

theorem poolCreated_acks : poolCreated.acks = [] := by decide

theorem poolCreated_fresh : JFresh 1 poolCreated ∧ PoolFresh 1 poolCreated := by
  have hcl := poolCreated_cl
  have hst := poolCreated_store
  refine ⟨⟨?_, ?_, ?_, ?_, ?_, ?_, ?_, ?_⟩, ⟨?_, ?_, ?_⟩⟩
  · rw [hst]; simp [Store.put]
  · intro n; rw [hst]; simp [Store.put, Store.empty]
  · intro c; simp [Client.pcOn, Client.onJ, (hcl c).1]
  · intro c sl; exact (hcl c).2 1 sl
  · rw [hst]; simp [Store.put]
  · rw [hst]; simp [Store.put, Store.empty]
  · decide
  · intro c p hp; rw [(hcl c).1] at hp; cases hp
  · intro c p hp; rw [(hcl c).1] at hp; cases hp
  · intro x; rw [hst]; simp [Store.put, Store.empty]
  · intro x hx; rw [poolCreated_acks] at hx; cases hx

/-- Client 1 creates branch 0 ("main") at the Nil commit, then clients 1 and 2 both commit to it,
    interleaved so that client 2 loses the race once, removes its object and retries. -/
def twoCommits : List Label :=
  [.start 1 (.commit 1 0 (.insert 0 0))] ++ List.replicate 3 (.step 1) ++
  [.start 1 (.bcommit 1 0 0 [5] []), .start 2 (.bcommit 1 0 0 [6] [])] ++
  List.replicate 4 (.step 1) ++ List.replicate 5 (.step 2) ++ List.replicate 4 (.step 1) ++ List.replicate 20 (.step 2)


theorem noReset_of_all {j : Nat} {ls : List Label} (h : ls.all (fun l => !(l.resets j)) = true) : NoReset j ls := by
  intro l hl; have := List.all_eq_true.mp h l hl; simpa using this

theorem noDrop_of_all {j : Nat} {ls : List Label} (h : ls.all (fun l => !(l.drops j)) = true) : NoDrop j ls := by
  intro l hl; have := List.all_eq_true.mp h l hl; simpa using this

theorem twoCommits_reach : ReachB 1 (poolCreated.run twoCommits) :=
  ⟨poolCreated, twoCommits, poolCreated_fresh.1, poolCreated_fresh.2, noReset_of_all (by decide), noDrop_of_all (by decide), rfl⟩


/-- Client 1 creates branch 0 and starts a commit; it is preempted before its put-if-absent;
    client 2 deletes pool 1 (DeleteByPrefix); client 1 resumes and is acknowledged. -/
def removedPoolLabels : List Label :=
  [.start 1 (.commit 1 0 (.insert 0 0))] ++ List.replicate 3 (.step 1) ++
  [.start 1 (.bcommit 1 0 0 [5] [])] ++ List.replicate 7 (.step 1) ++
  [.start 2 (.delPool 1), .step 2] ++ List.replicate 2 (.step 1)

end Zed.Store
