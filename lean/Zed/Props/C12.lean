import Zed.Model.BranchCommit
namespace Zed.Props.C12
end Zed.Props.C12
