/-
  L5, second put discipline — the local file engine's create-then-fill puts
  (`pkg/storage/file.go`: Put = O_CREATE|O_TRUNC then the content; PutIfNotExists = O_EXCL create
  then the content), layered over the atomic system of `BranchCommit.lean`.

  Every put of a client becomes two transitions:
    begin     the file is created / truncated and can be read empty (event `create` / `createx`)
    complete  the content is written (event `write`)
  A system state is the atomic state `a` plus the set `half` of files that are between the two
  halves, plus, per client, the file it is in the middle of (`mid`).  The atomic state moves
    * at *begin* for a journal entry (the put-if-absent is decided by the exclusive create: from
      then on every other client's put-if-absent of that entry fails),
    * at *complete* for everything else (HEAD, TAIL, commit objects, snapshot),
    * by `truncSnap` at the begin of a snapshot put (an empty snap.zng reads as "no snapshot").
  What readers see: an empty HEAD makes `readID` retry (the reader does not move); an empty
  snapshot is no snapshot; an empty journal entry would be replayed as "no change" — `broken`
  records that this happened (`Zed.Props.C12.fill_no_empty_entry_read`: it never does, because
  readers trust HEAD and HEAD is written after the entry is complete).
-/
import Zed.Model.BranchCommit
namespace Zed.Store

structure FSys where
  a : Sys
  half : Path → Bool
  mid : Nat → Option Path
  broken : Bool

def FSys.init : FSys := ⟨Sys.init, fun _ => false, fun _ => none, false⟩

def FSys.ofSys (a : Sys) : FSys := ⟨a, fun _ => false, fun _ => none, false⟩

def FSys.setHalf (f : FSys) (c : Nat) (p : Path) : FSys :=
  { f with half := fun q => if q = p then true else f.half q,
           mid := fun c' => if c' = c then some p else f.mid c' }

def FSys.clear (f : FSys) (c : Nat) (p : Path) : FSys :=
  { f with half := fun q => if q = p then false else f.half q,
           mid := fun c' => if c' = c then none else f.mid c' }

/-- What a reader of the file system sees. -/
def FSys.reads (f : FSys) (p : Path) : Option (Option SVal) :=
  if f.half p then some none            -- the file exists and is empty
  else (f.a.store p).map some

def Ev.isWrite (ev : Ev) : Bool :=
  ev.op == .put || (ev.op == .putx && ev.res == .ok)

/-- One storage operation of client c under the create-then-fill discipline. -/
def FSys.step (f : FSys) (c : Nat) : FSys × Option Ev :=
  match f.mid c with
  | some p =>
    match p with
    | .ent _ _ => (f.clear c p, some ⟨.write, p, .ok, f.a.store p⟩)
    | _ =>
      let (a', ev) := f.a.step c
      ({ (f.clear c p) with a := a' }, ev.map fun e => { e with op := .write })
  | none =>
    match (f.a.step c).2 with
    | none => (f, none)
    | some ev =>
      if ev.isWrite then
        match ev.path with
        | .ent _ _ => ({ (f.setHalf c ev.path) with a := (f.a.step c).1 }, some ⟨.createx, ev.path, .ok, none⟩)
        | .snap j => ({ (f.setHalf c ev.path) with a := f.a.exec (.truncSnap j) }, some ⟨.create, ev.path, .ok, none⟩)
        | _ => (f.setHalf c ev.path, some ⟨.create, ev.path, .ok, none⟩)
      else if ev.op == .get && f.half ev.path then
        match ev.path with
        | .head _ => (f, some ⟨.get, ev.path, .empty, none⟩)
        | .ent _ _ => ({ f with a := (f.a.step c).1, broken := true }, some ⟨.get, ev.path, .empty, none⟩)
        | _ => ({ f with a := (f.a.step c).1 }, some ⟨.get, ev.path, .empty, none⟩)
      else
        ({ f with a := (f.a.step c).1 },
         some (if ev.op == .putx then { ev with op := .createx, val := none } else ev))

inductive FLabel where
  | start (c : Nat) (st : Start)
  | step (c : Nat)
  deriving DecidableEq, Repr

def FSys.exec (f : FSys) : FLabel → FSys
  | .start c st => { f with a := f.a.start c st }
  | .step c => (f.step c).1

def FSys.run (f : FSys) : List FLabel → FSys
  | [] => f
  | l :: ls => (f.exec l).run ls

end Zed.Store
