import Zed.Generated.C02
/-!
  C02 — structural Zed types and typed values for the ZSON text layer.

  `Ty` is the structure of a `zed.Type` (inside one `zed.Context` pointer equality of types
  is structural equality: every `Lookup*` interns by type value).  `Val` is a value read
  against a `Ty`; it mirrors the shape of the type, with wrappers for named and error types
  so that every function over values is structurally recursive.  Primitive bodies are carried
  as the *text* the real `formatPrimitive` prints (the text ⇄ bytes conversion of
  `formatPrimitive`/`BuildPrimitive` is a parameter of the model, checked by correspondence
  only); strings are carried as their raw bytes.

  Everything lives in `Zed.Zson` and depends on no other model file.
-/
namespace Zed.Zson

abbrev Name := List UInt8
abbrev Bytes := List UInt8

mutual
inductive Ty where
  | prim (id : Nat)
  | record (fs : Fields)
  | array (t : Ty)
  | set (t : Ty)
  | map (k v : Ty)
  | union (ts : Tys)
  | enum (syms : List Name)
  | error (t : Ty)
  | named (n : Name) (t : Ty)
inductive Fields where
  | nil
  | cons (n : Name) (t : Ty) (rest : Fields)
inductive Tys where
  | nil
  | cons (t : Ty) (rest : Tys)
end

deriving instance DecidableEq for Ty, Fields, Tys
deriving instance Repr for Ty, Fields, Tys
instance : Inhabited Ty := ⟨.prim 29⟩

mutual
inductive Val where
  | null
  | prim (text : Bytes)
  | record (vs : Vals)
  | array (vs : Vals)
  | set (vs : Vals)
  | map (es : Entries)
  | union (tag : Nat) (v : Val)
  | enum (sel : Nat)
  | typeval (t : Ty)
  | error (v : Val)
  | named (v : Val)
inductive Vals where
  | nil
  | cons (v : Val) (rest : Vals)
inductive Entries where
  | nil
  | cons (k v : Val) (rest : Entries)
end

deriving instance DecidableEq for Val, Vals, Entries
deriving instance Repr for Val, Vals, Entries
instance : Inhabited Val := ⟨.null⟩

namespace Tys
def toList : Tys → List Ty
  | .nil => []
  | .cons t r => t :: r.toList
def ofList : List Ty → Tys
  | [] => .nil
  | t :: r => .cons t (ofList r)
def length : Tys → Nat
  | .nil => 0
  | .cons _ r => r.length + 1
def get? : Tys → Nat → Option Ty
  | .nil, _ => none
  | .cons t _, 0 => some t
  | .cons _ r, n + 1 => r.get? n
/-- index of the first member equal to `t` (`convertUnion`'s loop). -/
def indexOf (t : Ty) : Tys → Option Nat
  | .nil => none
  | .cons u r => if u = t then some 0 else (indexOf t r).map (· + 1)
def mem (t : Ty) : Tys → Bool
  | .nil => false
  | .cons u r => u == t || mem t r
theorem toList_ofList (l : List Ty) : (ofList l).toList = l := by
  induction l with
  | nil => rfl
  | cons a l ih => simp [ofList, toList, ih]
theorem ofList_toList : (ts : Tys) → ofList ts.toList = ts
  | .nil => rfl
  | .cons a l => by simp [ofList, toList, ofList_toList l]
end Tys

namespace Fields
def length : Fields → Nat
  | .nil => 0
  | .cons _ _ r => r.length + 1
def names : Fields → List Name
  | .nil => []
  | .cons n _ r => n :: r.names
end Fields

namespace Vals
def length : Vals → Nat
  | .nil => 0
  | .cons _ r => r.length + 1
def toList : Vals → List Val
  | .nil => []
  | .cons v r => v :: r.toList
def ofList : List Val → Vals
  | [] => .nil
  | v :: r => .cons v (ofList r)
end Vals

namespace Entries
def length : Entries → Nat
  | .nil => 0
  | .cons _ _ r => r.length + 1
end Entries

def Val.isNull : Val → Bool
  | .null => true
  | _ => false

/-- `zed.TypeUnder`. -/
def Ty.under : Ty → Ty
  | .named _ t => t.under
  | t => t

/-- `Type.ID()` as far as the text layer looks at it: primitives have their id, a named type
    has the id of its underlying type, every complex type is ≥ `IDTypeComplex`. -/
def Ty.id : Ty → Nat
  | .prim id => id
  | .named _ t => t.id
  | _ => Generated.C02.idTypeComplex

def Ty.isNamed : Ty → Bool
  | .named _ _ => true
  | _ => false

def Ty.isUnion : Ty → Bool
  | .union _ => true
  | _ => false

def tyNull : Ty := .prim Generated.C02.idNull
def tyType : Ty := .prim Generated.C02.idType

/-- ASCII bytes of a Lean string literal (table entries are ASCII). -/
def ascii (s : String) : Name := s.toList.map (fun c => UInt8.ofNat c.toNat)

/-- `zed.PrimitiveName` over the regenerated table. -/
def primName (id : Nat) : Name :=
  match Generated.C02.primitiveName.find? (fun p => p.1 == id) with
  | some p => ascii p.2
  | none => ascii "unknown"

/-- `zed.LookupPrimitive` over the regenerated table. -/
def lookupPrimitive (n : Name) : Option Nat :=
  (Generated.C02.lookupPrimitive.find? (fun p => ascii p.1 == n)).map (·.2)

/-! ### ZSON abstract syntax (`compiler/ast/zed`) -/

mutual
inductive ATy where
  | prim (name : Name)
  | record (fs : AFields)
  | array (t : ATy)
  | set (t : ATy)
  | map (k v : ATy)
  | union (ts : ATys)
  | enum (syms : List Name)
  | error (t : ATy)
  | name (n : Name)
  | def_ (n : Name) (t : ATy)
inductive AFields where
  | nil
  | cons (n : Name) (t : ATy) (rest : AFields)
inductive ATys where
  | nil
  | cons (t : ATy) (rest : ATys)
end

deriving instance DecidableEq for ATy, AFields, ATys
deriving instance Repr for ATy, AFields, ATys

mutual
/-- `astzed.Value`: `ImpliedValue | DefValue | CastValue`. -/
inductive AVal where
  | implied (a : AAny)
  | def_ (a : AAny) (name : Name)
  | cast (v : AVal) (t : ATy)
/-- `astzed.Any`; `nil` is the nil interface the parser produces for a short-form typedef
    decorator that follows another decorator (`parseDecorator(nil, val)` drops `val`). -/
inductive AAny where
  | nil
  | prim (ty : Name) (text : Bytes)
  | record (fs : AVFields)
  | array (vs : AVals)
  | set (vs : AVals)
  | map (es : AEntries)
  | enum (name : Name)
  | typeval (t : ATy)
  | error (v : AVal)
inductive AVFields where
  | nil
  | cons (n : Name) (v : AVal) (rest : AVFields)
inductive AVals where
  | nil
  | cons (v : AVal) (rest : AVals)
inductive AEntries where
  | nil
  | cons (k v : AVal) (rest : AEntries)
end

deriving instance DecidableEq for AVal, AAny, AVFields, AVals, AEntries
deriving instance Repr for AVal, AAny, AVFields, AVals, AEntries

/-- One decorator as the formatter writes it after a value. -/
inductive Deco where
  | def_ (name : Name)        -- `(=name)`
  | cast (t : ATy)            -- `(type)`
  deriving DecidableEq, Repr

/-- `Parser.decorate`: the first decorator applies to the `Any`, later ones wrap the value
    built so far — except that a later short-form typedef forgets it. -/
def wrapDecos : AVal → List Deco → AVal
  | v, [] => v
  | _, .def_ n :: ds => wrapDecos (.def_ .nil n) ds
  | v, .cast t :: ds => wrapDecos (.cast v t) ds

def mkVal (a : AAny) : List Deco → AVal
  | [] => .implied a
  | .def_ n :: ds => wrapDecos (.def_ a n) ds
  | .cast t :: ds => wrapDecos (.cast (.implied a) t) ds

end Zed.Zson
