module verifharness

go 1.23

require (
	github.com/brimdata/super v0.0.0
	github.com/pierrec/lz4/v4 v4.1.18
	github.com/segmentio/ksuid v1.0.2
	github.com/x448/float16 v0.8.4
	go.uber.org/zap v1.23.0
	golang.org/x/text v0.13.0
	gopkg.in/yaml.v3 v3.0.1
)

require (
	github.com/JohnCGriffin/overflow v0.0.0-20211019200055-46fa312c352c // indirect
	github.com/agnivade/levenshtein v1.1.1 // indirect
	github.com/alecthomas/units v0.0.0-20190924025748-f65c72e2690d // indirect
	github.com/andybalholm/brotli v1.0.5 // indirect
	github.com/apache/arrow/go/v14 v14.0.0 // indirect
	github.com/apache/thrift v0.17.0 // indirect
	github.com/araddon/dateparse v0.0.0-20210429162001-6b43995a97de // indirect
	github.com/aws/aws-sdk-go v1.36.17 // indirect
	github.com/axiomhq/hyperloglog v0.0.0-20191112132149-a4c4c47bc57f // indirect
	github.com/beorn7/perks v1.0.1 // indirect
	github.com/cespare/xxhash/v2 v2.2.0
	github.com/dgryski/go-metro v0.0.0-20180109044635-280f6062b5bc // indirect
	github.com/goccy/go-json v0.10.2 // indirect
	github.com/golang-jwt/jwt/v4 v4.4.3 // indirect
	github.com/golang/protobuf v1.5.3 // indirect
	github.com/golang/snappy v0.0.4 // indirect
	github.com/google/flatbuffers v23.5.26+incompatible // indirect
	github.com/gorilla/mux v1.7.5-0.20200711200521-98cb6bf42e08 // indirect
	github.com/hashicorp/golang-lru/v2 v2.0.1 // indirect
	github.com/jmespath/go-jmespath v0.4.0 // indirect
	github.com/klauspost/compress v1.16.7 // indirect
	github.com/klauspost/cpuid/v2 v2.2.5 // indirect
	github.com/kr/text v0.2.0 // indirect
	github.com/lestrrat-go/strftime v1.0.6 // indirect
	github.com/matttproud/golang_protobuf_extensions v1.0.1 // indirect
	github.com/pkg/errors v0.9.1 // indirect
	github.com/prometheus/client_golang v1.14.0 // indirect
	github.com/prometheus/client_model v0.3.0 // indirect
	github.com/prometheus/common v0.37.0 // indirect
	github.com/prometheus/procfs v0.8.0 // indirect
	github.com/rs/cors v1.8.0 // indirect
	github.com/zeebo/xxh3 v1.0.2 // indirect
	go.uber.org/atomic v1.7.0 // indirect
	go.uber.org/multierr v1.8.0 // indirect
	golang.org/x/exp v0.0.0-20231006140011-7918f672742d // indirect
	golang.org/x/net v0.17.0 // indirect
	golang.org/x/sync v0.4.0 // indirect
	golang.org/x/sys v0.13.0 // indirect
	golang.org/x/term v0.13.0 // indirect
	golang.org/x/xerrors v0.0.0-20220907171357-04be3eba64a2 // indirect
	google.golang.org/genproto/googleapis/rpc v0.0.0-20231002182017-d307bd883b97 // indirect
	google.golang.org/grpc v1.58.2 // indirect
	google.golang.org/protobuf v1.31.0 // indirect
)

replace github.com/brimdata/super => /repo
