import Zed.Model.Sexp
import Zed.Model.SvcQueryio
/-!
  Driver glue for C19.
  `(C19 rt <fmt> <ctrl 0|1> <err: - | E<msg>> <event>…)` with events `(b L<label> n…)`,
  `(e L<label>)`, `t`  →  `(<frame>…) (<(L<label> n)>…) <- | E<msg>>`
  where frames are `(v n…)`, `(cs L<label>)`, `(ce L<label>)`, `s`, `(err E<msg>)`.
  `(C19 accept M<mediatype>…)` → the negotiated response format (default zson) or `none`.
  `(C19 mime <format>)` → the media type announced for the format and the format it parses
  back to.  Labels and messages are alphanumeric atoms behind a one-letter prefix.
-/
namespace Zed.Drv.C19
open Zed Zed.Svc

def unprefix (p : Char) (s : String) : Option String :=
  match s.toList with
  | c :: rest => if c == p then some (String.ofList rest) else none
  | [] => none

def eventOf : Sexp → Option Event
  | .list (.atom "b" :: .atom l :: ns) => do
    let label ← unprefix 'L' l
    let vals ← ns.mapM fun | .atom n => n.toNat? | _ => none
    pure (.batch label vals)
  | .list [.atom "e", .atom l] => do pure (.chanEnd (← unprefix 'L' l))
  | .atom "t" => some .tick
  | _ => none

def frameStr : Frame → Sexp
  | .values vs => .list (.atom "v" :: vs.map fun n => .atom (toString n))
  | .channelSet c => .list [.atom "cs", .atom ("L" ++ c)]
  | .channelEnd c => .list [.atom "ce", .atom ("L" ++ c)]
  | .stats => .atom "s"
  | .error m => .list [.atom "err", .atom ("E" ++ m)]

def handle : List Sexp → String
  | .atom "rt" :: .atom fmt :: .atom ctrl :: .atom err :: evs =>
    let e? : Option (Option String) :=
      if err == "-" then some none else (unprefix 'E' err).map some
    match e?, evs.mapM eventOf, (if ctrl == "1" then some true else if ctrl == "0" then some false else none) with
    | some e, some es, some c =>
      let frames := serverEncode fmt c ⟨es, e⟩
      let (vals, de) := clientDecode "" frames
      toString (Sexp.list (frames.map frameStr)) ++ " " ++
        toString (Sexp.list (vals.map fun (l, n) => .list [.atom ("L" ++ l), .atom (toString n)])) ++ " " ++
        (match de with | none => "-" | some m => "E" ++ m)
    | _, _, _ => "bad-op"
  | .atom "accept" :: ms =>
    match ms.mapM (fun | .atom m => unprefix 'M' m | _ => none) with
    | some l => (negotiate "zson" l).getD "none"
    | none => "bad-op"
  | [.atom "mime", .atom f] =>
    match formatToMediaType f with
    | none => "none"
    | some m => m ++ " " ++ ((mediaTypeToFormat m).getD "none")
  | _ => "bad-op"

end Zed.Drv.C19
