import Zed.Proofs.FuseBasic
/-!
  C20 helper lemmas: `merge` neither loses nor invents a leaf path.
-/
namespace Zed.Fuse

/-- the relation a merge function has to satisfy -/
def LeafJoin (m : Ty → Ty → Option Ty) : Prop :=
  ∀ a b c, m a b = some c → ∀ l, l ∈ tleaves c ↔ l ∈ tleaves a ∨ l ∈ tleaves b

theorem tleaves_under (t : Ty) : tleaves t.under = tleaves t := by
  fun_induction Ty.under t <;> simp_all [tleaves]

theorem tleaves_of_under_null {t : Ty} (h : t.under = tyNull) : tleaves t = [] := by
  rw [← tleaves_under, h]; simp [tyNull, tleaves, idNull]

theorem mem_tpre {e : TEl} {ls : List TLeaf} {l : TLeaf} :
    l ∈ tpre e ls ↔ ∃ l' ∈ ls, l = (e :: l'.1, l'.2) := by
  simp [tpre, List.mem_map, eq_comm]

theorem tpre_join {e : TEl} {X A B : List TLeaf} (h : ∀ l, l ∈ X ↔ l ∈ A ∨ l ∈ B) :
    ∀ l, l ∈ tpre e X ↔ l ∈ tpre e A ∨ l ∈ tpre e B := by
  intro l; simp only [mem_tpre]
  constructor
  · rintro ⟨l', h1, h2⟩
    rcases (h l').1 h1 with h3 | h3
    · exact Or.inl ⟨l', h3, h2⟩
    · exact Or.inr ⟨l', h3, h2⟩
  · rintro (⟨l', h1, h2⟩ | ⟨l', h1, h2⟩)
    · exact ⟨l', (h l').2 (Or.inl h1), h2⟩
    · exact ⟨l', (h l').2 (Or.inr h1), h2⟩

/-- some member of the list has the leaf -/
def lsOf (ts : List Ty) (l : TLeaf) : Prop := ∃ t ∈ ts, l ∈ tleaves t

theorem mem_tleavesU : (ts : Tys) → (l : TLeaf) → (l ∈ tleavesU ts ↔ lsOf ts.toList l)
  | .nil, l => by simp [tleavesU, lsOf, Tys.toList]
  | .cons t r, l => by
    simp only [tleavesU, List.mem_append, mem_tleavesU r l, lsOf, Tys.toList, List.mem_cons]
    constructor
    · rintro (h | ⟨t', h1, h2⟩)
      · exact ⟨t, Or.inl rfl, h⟩
      · exact ⟨t', Or.inr h1, h2⟩
    · rintro ⟨t', rfl | h1, h2⟩
      · exact Or.inl h2
      · exact Or.inr ⟨t', h1, h2⟩

theorem toList_ofList : (ts : List Ty) → (Tys.ofList ts).toList = ts
  | [] => rfl
  | t :: r => by simp [Tys.ofList, Tys.toList, toList_ofList r]

theorem mem_insertSorted (x : Ty) (ys : List Ty) (y : Ty) : y ∈ insertSorted x ys ↔ y = x ∨ y ∈ ys := by
  induction ys with
  | nil => simp [insertSorted]
  | cons z zs ih =>
    simp only [insertSorted]
    split
    · simp
    · simp only [List.mem_cons, ih]
      constructor
      · rintro (h | h | h) <;> simp [h]
      · rintro (h | h | h) <;> simp [h]

theorem mem_sortTypes (ts : List Ty) (y : Ty) : y ∈ sortTypes ts ↔ y ∈ ts := by
  induction ts with
  | nil => simp [sortTypes]
  | cons t r ih => simp [sortTypes, mem_insertSorted, ih]

theorem tleaves_lookupUnion (ts : List Ty) (l : TLeaf) : l ∈ tleaves (lookupUnion ts) ↔ lsOf ts l := by
  simp only [lookupUnion, tleaves, mem_tleavesU, toList_ofList, lsOf, mem_sortTypes]

theorem lsOf_append (xs ys : List Ty) (l : TLeaf) : lsOf (xs ++ ys) l ↔ lsOf xs l ∨ lsOf ys l := by
  simp only [lsOf, List.mem_append]
  constructor
  · rintro ⟨t, h1 | h1, h2⟩
    · exact Or.inl ⟨t, h1, h2⟩
    · exact Or.inr ⟨t, h1, h2⟩
  · rintro (⟨t, h1, h2⟩ | ⟨t, h1, h2⟩)
    · exact ⟨t, Or.inl h1, h2⟩
    · exact ⟨t, Or.inr h1, h2⟩

theorem lsOf_singleton (t : Ty) (l : TLeaf) : lsOf [t] l ↔ l ∈ tleaves t := by
  simp [lsOf]

theorem lsOf_nil (l : TLeaf) : ¬ lsOf [] l := by simp [lsOf]

theorem lsOf_appendIfAbsent (ts : List Ty) (t : Ty) (l : TLeaf) :
    lsOf (appendIfAbsent ts t) l ↔ lsOf ts l ∨ l ∈ tleaves t := by
  unfold appendIfAbsent
  split
  · rename_i h
    constructor
    · exact Or.inl
    · rintro (h1 | h1)
      · exact h1
      · exact ⟨t, h, h1⟩
  · rw [lsOf_append, lsOf_singleton]

theorem lsOf_foldl_appendIfAbsent (bs ts : List Ty) (l : TLeaf) :
    lsOf (bs.foldl appendIfAbsent ts) l ↔ lsOf ts l ∨ lsOf bs l := by
  induction bs generalizing ts with
  | nil => simp [lsOf_nil]
  | cons b r ih =>
    simp only [List.foldl_cons, ih, lsOf_appendIfAbsent]
    have : lsOf (b :: r) l ↔ l ∈ tleaves b ∨ lsOf r l := by
      have := lsOf_append [b] r l
      simpa [lsOf_singleton] using this
    rw [this]
    constructor
    · rintro ((h | h) | h)
      · exact Or.inl h
      · exact Or.inr (Or.inl h)
      · exact Or.inr (Or.inr h)
    · rintro (h | h | h)
      · exact Or.inl (Or.inl h)
      · exact Or.inl (Or.inr h)
      · exact Or.inr h

theorem lsOf_set {xs : List Ty} {i : Nat} {r w : Ty} (hi : xs[i]? = some r) (l : TLeaf)
    (hw : l ∈ tleaves w ↔ l ∈ tleaves r ∨ X) :
    lsOf (xs.set i w) l ↔ lsOf xs l ∨ X := by
  obtain ⟨hlt, hr⟩ := List.getElem?_eq_some_iff.1 hi
  have hx : xs = xs.take i ++ r :: xs.drop (i + 1) := by
    rw [← hr, List.getElem_cons_drop, List.take_append_drop]
  have hs : xs.set i w = xs.take i ++ w :: xs.drop (i + 1) := by
    rw [List.set_eq_take_append_cons_drop]; simp [hlt]
  have e1 : ∀ (z : Ty), lsOf (xs.take i ++ z :: xs.drop (i + 1)) l ↔
      lsOf (xs.take i) l ∨ l ∈ tleaves z ∨ lsOf (xs.drop (i + 1)) l := by
    intro z
    rw [lsOf_append]
    have := lsOf_append [z] (xs.drop (i + 1)) l
    simp only [List.singleton_append, lsOf_singleton] at this
    rw [this]
  rw [hs, e1 w]
  conv => rhs; rw [hx, e1 r]
  rw [hw]
  constructor
  · rintro (h | (h | h) | h)
    · exact Or.inl (Or.inl h)
    · exact Or.inl (Or.inr (Or.inl h))
    · exact Or.inr h
    · exact Or.inl (Or.inr (Or.inr h))
  · rintro ((h | h | h) | h)
    · exact Or.inl h
    · exact Or.inr (Or.inl (Or.inl h))
    · exact Or.inr (Or.inr h)
    · exact Or.inr (Or.inl (Or.inr h))

theorem mergeAllRecords_leaves (m : Ty → Ty → Option Ty) (hm : LeafJoin m) :
    ∀ (ts out : List Ty) (ri : Option Nat) (res : List Ty),
      mergeAllRecords m ts out ri = some res → ∀ l, lsOf res l ↔ lsOf out l ∨ lsOf ts l := by
  intro ts
  induction ts with
  | nil =>
    intro out ri res h l
    simp only [mergeAllRecords, Option.some.injEq] at h
    subst h; simp [lsOf_nil]
  | cons t rest ih =>
    intro out ri res h l
    have hcons : lsOf (t :: rest) l ↔ l ∈ tleaves t ∨ lsOf rest l := by
      have := lsOf_append [t] rest l
      simpa [lsOf_singleton] using this
    simp only [mergeAllRecords] at h
    by_cases hrec : t.isRecord = true
    · simp only [hrec, if_true] at h
      cases ri with
      | none =>
        simp only at h
        rw [ih _ _ _ h l, lsOf_append, lsOf_singleton, hcons]
        constructor
        · rintro ((h | h) | h) <;> simp [h]
        · rintro (h | h | h) <;> simp [h]
      | some i =>
        simp only at h
        cases hi : out[i]? with
        | none => simp [hi] at h
        | some r =>
          simp only [hi, Option.bind_eq_some_iff] at h
          obtain ⟨w, hw, h⟩ := h
          rw [ih _ _ _ h l, setAt, lsOf_set hi l (hm r t w hw l), hcons]
          constructor
          · rintro ((h | h) | h) <;> simp [h]
          · rintro (h | h | h) <;> simp [h]
    · simp only [hrec, Bool.false_eq_true, if_false] at h
      rw [ih _ _ _ h l, lsOf_append, lsOf_singleton, hcons]
      constructor
      · rintro ((h | h) | h) <;> simp [h]
      · rintro (h | h | h) <;> simp [h]

theorem finishUnion_leaves (m : Ty → Ty → Option Ty) (hm : LeafJoin m) (types : List Ty) (c : Ty)
    (h : finishUnion m types = some c) : ∀ l, l ∈ tleaves c ↔ lsOf types l := by
  intro l
  simp only [finishUnion, Option.map_eq_some_iff] at h
  obtain ⟨ts, h1, h2⟩ := h
  have := mergeAllRecords_leaves m hm types [] none ts h1 l
  simp only [lsOf_nil, false_or] at this
  rw [← this]
  split at h2
  · subst h2; rw [lsOf_singleton]
  · subst h2; exact tleaves_lookupUnion ts l

theorem tleaves_eq_members {a : Ty} {as : Tys} (h : a.under = .union as) (l : TLeaf) :
    l ∈ tleaves a ↔ lsOf as.toList l := by
  rw [← tleaves_under, h, tleaves, mem_tleavesU]

theorem mergeUnion_leaves (m : Ty → Ty → Option Ty) (hm : LeafJoin m) (a b c : Ty)
    (h : mergeUnion m a b = some c) : ∀ l, l ∈ tleaves c ↔ l ∈ tleaves a ∨ l ∈ tleaves b := by
  intro l
  unfold mergeUnion at h
  split at h
  · rename_i as ha
    rw [finishUnion_leaves m hm _ c h l, tleaves_eq_members ha]
    split
    · rename_i bs hb
      rw [lsOf_foldl_appendIfAbsent, tleaves_eq_members hb]
    · rw [lsOf_appendIfAbsent]
  · split at h
    · rw [hm b a c h l]; exact Or.comm
    · simp only [Option.some.injEq] at h
      subst h
      rw [tleaves_lookupUnion]
      have := lsOf_append [a] [b] l
      simpa [lsOf_singleton] using this

theorem mergeFieldInto_leaves (m : Ty → Ty → Option Ty) (hm : LeafJoin m) (name : Name) (t : Ty) :
    (acc acc' : Fields) → mergeFieldInto m name t acc = some acc' →
      ∀ l, l ∈ tleavesF acc' ↔ l ∈ tleavesF acc ∨ l ∈ tpre (.fld name) (tleaves t)
  | .nil, acc', h, l => by
    simp only [mergeFieldInto, Option.some.injEq] at h
    subst h; simp [tleavesF]
  | .cons n u rest, acc', h, l => by
    simp only [mergeFieldInto] at h
    by_cases hn : n = name
    · simp only [hn, if_true] at h
      by_cases hu : u = t
      · simp only [hu, if_true, Option.some.injEq] at h
        subst h; subst hn; subst hu
        simp only [tleavesF, List.mem_append]
        constructor
        · exact Or.inl
        · rintro (h | h)
          · exact h
          · exact Or.inl h
      · simp only [hu, if_false, Option.map_eq_some_iff] at h
        obtain ⟨w, hw, rfl⟩ := h
        subst hn
        simp only [tleavesF, List.mem_append, tpre_join (hm u t w hw) l]
        constructor
        · rintro ((h | h) | h) <;> simp [h]
        · rintro ((h | h) | h) <;> simp [h]
    · simp only [hn, if_false, Option.map_eq_some_iff] at h
      obtain ⟨r, hr, rfl⟩ := h
      simp only [tleavesF, List.mem_append, mergeFieldInto_leaves m hm name t rest r hr l]
      constructor
      · rintro (h | h | h) <;> simp [h]
      · rintro ((h | h) | h) <;> simp [h]

theorem mergeFields_leaves (m : Ty → Ty → Option Ty) (hm : LeafJoin m) :
    (fb acc res : Fields) → mergeFields m acc fb = some res →
      ∀ l, l ∈ tleavesF res ↔ l ∈ tleavesF acc ∨ l ∈ tleavesF fb
  | .nil, acc, res, h, l => by
    simp only [mergeFields, Option.some.injEq] at h
    subst h; simp [tleavesF]
  | .cons n t rest, acc, res, h, l => by
    simp only [mergeFields, Option.bind_eq_some_iff] at h
    obtain ⟨acc', h1, h2⟩ := h
    rw [mergeFields_leaves m hm rest acc' res h2 l, mergeFieldInto_leaves m hm n t acc acc' h1 l]
    simp only [tleavesF, List.mem_append]
    constructor
    · rintro ((h | h) | h) <;> simp [h]
    · rintro (h | h | h) <;> simp [h]

theorem tleaves_of_under {a u : Ty} (h : a.under = u) : tleaves a = tleaves u := by
  rw [← tleaves_under, h]

/-- **merge neither loses nor invents a leaf**, for every fuel at which it answers. -/
theorem merge_leafJoin : (n : Nat) → LeafJoin (merge n)
  | 0 => by intro a b c h; simp [merge] at h
  | n + 1 => by
    have ih := merge_leafJoin n
    intro a b c h l
    simp only [merge] at h
    by_cases ha : a.under = tyNull
    · simp only [ha, if_true, Option.some.injEq] at h
      subst h; simp [tleaves_of_under_null ha]
    · simp only [ha, if_false] at h
      by_cases hb : b.under = tyNull
      · simp only [hb, if_true, Option.some.injEq] at h
        subst h; simp [tleaves_of_under_null hb]
      · simp only [hb, if_false] at h
        split at h
        · rename_i fa fb hfa hfb
          simp only [Option.map_eq_some_iff] at h
          obtain ⟨fc, h1, rfl⟩ := h
          rw [tleaves_of_under hfa, tleaves_of_under hfb]
          simp only [tleaves]
          exact mergeFields_leaves (merge n) ih fb fa fc h1 l
        · rename_i x y hx hy
          simp only [Option.map_eq_some_iff] at h
          obtain ⟨z, h1, rfl⟩ := h
          rw [tleaves_of_under hx, tleaves_of_under hy]
          simp only [tleaves]
          exact tpre_join (ih x y z h1) l
        · rename_i x y hx hy
          simp only [Option.map_eq_some_iff] at h
          obtain ⟨z, h1, rfl⟩ := h
          rw [tleaves_of_under hx, tleaves_of_under hy]
          simp only [tleaves]
          exact tpre_join (ih x y z h1) l
        · rename_i x y hx hy
          simp only [Option.map_eq_some_iff] at h
          obtain ⟨z, h1, rfl⟩ := h
          rw [tleaves_of_under hx, tleaves_of_under hy]
          simp only [tleaves]
          exact tpre_join (ih x y z h1) l
        · rename_i x y hx hy
          simp only [Option.map_eq_some_iff] at h
          obtain ⟨z, h1, rfl⟩ := h
          rw [tleaves_of_under hx, tleaves_of_under hy]
          simp only [tleaves]
          exact tpre_join (ih x y z h1) l
        · rename_i k v k' v' hx hy
          simp only [Option.bind_eq_some_iff, Option.map_eq_some_iff] at h
          obtain ⟨kk, h1, vv, h2, rfl⟩ := h
          rw [tleaves_of_under hx, tleaves_of_under hy]
          simp only [tleaves, List.mem_append, tpre_join (ih k k' kk h1) l, tpre_join (ih v v' vv h2) l]
          constructor
          · rintro ((h | h) | h | h) <;> simp [h]
          · rintro ((h | h) | h | h) <;> simp [h]
        · exact mergeUnion_leaves (merge n) ih a b c h l

end Zed.Fuse
