import Zed.Proofs.CompareTypesSwap
namespace Zed
open Zed.Ord

/-! ### the guard -/
theorem Ty.nnn_under : (t : Ty) → t.nnn = true → t.under.nnn = true
  | .named _ x, h => by
    simp only [Ty.nnn, Bool.and_eq_true, Bool.not_eq_true'] at h
    simpa [Ty.under] using Ty.nnn_under x h.2
  | .prim _, h | .record _, h | .array _, h | .set _, h | .map _ _, h | .union _, h | .enum _, h | .error _, h => h

/-- for guarded types the underlying type of a named type is its direct inner type -/
theorem Ty.under_named_of_nnn {n : Name} {x : Ty} (h : (Ty.named n x).nnn = true) : (Ty.named n x).under = x := by
  simp only [Ty.nnn, Bool.and_eq_true, Bool.not_eq_true'] at h
  simp [Ty.under, Ty.under_of_not_named h.1]

/-- a guarded type is determined by its underlying type and outermost name -/
theorem Ty.eq_of_under_rk {a b : Ty} (ha : a.nnn = true) (hb : b.nnn = true)
    (hu : a.under = b.under) (hr : a.rk = b.rk) : a = b := by
  cases a with
  | named n x =>
    cases b with
    | named m y =>
      rw [Ty.under_named_of_nnn ha, Ty.under_named_of_nnn hb] at hu
      simp only [Ty.rk, Option.some.injEq] at hr
      rw [hu, hr]
    | _ => simp [Ty.rk] at hr
  | _ =>
    cases b with
    | named m y => simp [Ty.rk] at hr
    | _ => simpa [Ty.under] using hu

theorem cmpON_eq_iff : (a b : Option Name) → (cmpON a b = .eq ↔ a = b)
  | some n, some m => by simp [cmpON, cmpBytes_eq_iff]
  | some _, none => by simp [cmpON]
  | none, some _ => by simp [cmpON]
  | none, none => by simp [cmpON]

end Zed
namespace Zed
open Zed.Ord

theorem cmpS_ne_eq_diffkind (u v : Ty) (hu : u.isNamed = false) (hv : v.isNamed = false) (h : u.kind ≠ v.kind) :
    cmpS u v ≠ .eq := by
  rw [cmpS_kind u v hu hv h]; simpa [Nat.compare_eq_eq] using h

theorem cmpTy_eq_iff_of (a b : Ty) (ha : a.isNamed = false) (ga : a.nnn = true) (gb : b.nnn = true)
    (hS : a ≠ b.under → b.under.isNamed = false → b.under.nnn = true → cmpS a b.under ≠ .eq) :
    (cmpTy a b = .eq ↔ a = b) := by
  rw [cmpTy_def]
  have hau := Ty.under_of_not_named ha
  by_cases h : a.under = b.under
  · rw [if_pos h, cmpRank_eq, cmpON_eq_iff]
    exact ⟨fun hr => Ty.eq_of_under_rk ga gb h hr, fun e => by rw [e]⟩
  · rw [if_neg h]
    constructor
    · intro he
      rw [hau] at h he
      exact absurd he (hS h (Ty.under_not_named b) (Ty.nnn_under b gb))
    · intro e; exact absurd (by rw [e]) h

mutual
theorem cmpTy_eq_iff : (a b : Ty) → a.nnn = true → b.nnn = true → (cmpTy a b = .eq ↔ a = b)
  | .named n x, b, ga, gb => by
    have hx : x.isNamed = false ∧ x.nnn = true := by
      simpa [Ty.nnn, Bool.and_eq_true] using ga
    have hu : (Ty.named n x).under = x := Ty.under_named_of_nnn ga
    rw [cmpTy_def]
    by_cases h : (Ty.named n x).under = b.under
    · rw [if_pos h, cmpRank_eq, cmpON_eq_iff]
      exact ⟨fun hr => Ty.eq_of_under_rk ga gb h hr, fun e => by rw [e]⟩
    · rw [if_neg h]
      constructor
      · intro he
        rw [hu] at h he
        have ih := cmpTy_eq_iff x b.under hx.2 (Ty.nnn_under b gb)
        rw [cmpTy_def, Ty.under_under, Ty.under_of_not_named hx.1, if_neg h] at ih
        exact absurd (ih.mp he) h
      · intro e; exact absurd (by rw [e]) h
  | .prim i, b, ga, gb => by
    refine cmpTy_eq_iff_of _ b rfl ga gb (fun h hv gv => ?_)
    generalize b.under = v at *
    cases v with
    | prim j => simp only [cmpS_prim, ne_eq, Nat.compare_eq_eq]; intro e; exact h (by rw [e])
    | named => simp [Ty.isNamed] at hv
    | _ => exact cmpS_ne_eq_diffkind _ _ rfl rfl (by simp)
  | .record fs, b, ga, gb => by
    refine cmpTy_eq_iff_of _ b rfl ga gb (fun h hv gv => ?_)
    generalize b.under = v at *
    cases v with
    | record gs =>
      intro he
      simp only [cmpS_record, Ordering.then_eq_eq, Nat.compare_eq_eq] at he
      exact h (by rw [cmpFs_eq fs gs ga gv he.1 he.2.1 he.2.2])
    | named => simp [Ty.isNamed] at hv
    | _ => exact cmpS_ne_eq_diffkind _ _ rfl rfl (by simp)
  | .array x, b, ga, gb => by
    refine cmpTy_eq_iff_of _ b rfl ga gb (fun h hv gv => ?_)
    generalize b.under = v at *
    cases v with
    | array y =>
      intro he; rw [cmpS_array] at he
      exact h (by rw [(cmpTy_eq_iff x y ga gv).mp he])
    | named => simp [Ty.isNamed] at hv
    | _ => exact cmpS_ne_eq_diffkind _ _ rfl rfl (by simp)
  | .set x, b, ga, gb => by
    refine cmpTy_eq_iff_of _ b rfl ga gb (fun h hv gv => ?_)
    generalize b.under = v at *
    cases v with
    | set y =>
      intro he; rw [cmpS_set] at he
      exact h (by rw [(cmpTy_eq_iff x y ga gv).mp he])
    | named => simp [Ty.isNamed] at hv
    | _ => exact cmpS_ne_eq_diffkind _ _ rfl rfl (by simp)
  | .error x, b, ga, gb => by
    refine cmpTy_eq_iff_of _ b rfl ga gb (fun h hv gv => ?_)
    generalize b.under = v at *
    cases v with
    | error y =>
      intro he; rw [cmpS_error] at he
      exact h (by rw [(cmpTy_eq_iff x y ga gv).mp he])
    | named => simp [Ty.isNamed] at hv
    | _ => exact cmpS_ne_eq_diffkind _ _ rfl rfl (by simp)
  | .map k w, b, ga, gb => by
    refine cmpTy_eq_iff_of _ b rfl ga gb (fun h hv gv => ?_)
    generalize b.under = v at *
    cases v with
    | map k' w' =>
      intro he
      simp only [cmpS_map, Ordering.then_eq_eq] at he
      simp only [Ty.nnn, Bool.and_eq_true] at ga gv
      exact h (by rw [(cmpTy_eq_iff k k' ga.1 gv.1).mp he.1, (cmpTy_eq_iff w w' ga.2 gv.2).mp he.2])
    | named => simp [Ty.isNamed] at hv
    | _ => exact cmpS_ne_eq_diffkind _ _ rfl rfl (by simp)
  | .union ts, b, ga, gb => by
    refine cmpTy_eq_iff_of _ b rfl ga gb (fun h hv gv => ?_)
    generalize b.under = v at *
    cases v with
    | union us =>
      intro he
      simp only [cmpS_union, Ordering.then_eq_eq, Nat.compare_eq_eq] at he
      exact h (by rw [cmpTs_eq ts us ga gv he.1 he.2])
    | named => simp [Ty.isNamed] at hv
    | _ => exact cmpS_ne_eq_diffkind _ _ rfl rfl (by simp)
  | .enum s, b, ga, gb => by
    refine cmpTy_eq_iff_of _ b rfl ga gb (fun h hv gv => ?_)
    generalize b.under = v at *
    cases v with
    | enum s' =>
      intro he
      simp only [cmpS_enum, Ordering.then_eq_eq, Nat.compare_eq_eq] at he
      exact h (by rw [(cmpNames_eq_iff s s' he.1).mp he.2])
    | named => simp [Ty.isNamed] at hv
    | _ => exact cmpS_ne_eq_diffkind _ _ rfl rfl (by simp)
theorem cmpFs_eq : (fs gs : Fields) → fs.nnn = true → gs.nnn = true → fs.length = gs.length →
    cmpFieldNames fs gs = .eq → cmpFs fs gs = .eq → fs = gs
  | .nil, .nil, _, _, _, _, _ => rfl
  | .nil, .cons _ _ _, _, _, hl, _, _ => by simp [Fields.length] at hl
  | .cons _ _ _, .nil, _, _, hl, _, _ => by simp [Fields.length] at hl
  | .cons n x r, .cons m y s, ga, gb, hl, hn, hc => by
    simp only [Fields.nnn, Bool.and_eq_true] at ga gb
    simp only [Fields.length, Nat.add_right_cancel_iff] at hl
    simp only [cmpFieldNames, Ordering.then_eq_eq, cmpBytes_eq_iff] at hn
    simp only [cmpFs_cons, Ordering.then_eq_eq] at hc
    rw [hn.1, (cmpTy_eq_iff x y ga.1 gb.1).mp hc.1, cmpFs_eq r s ga.2 gb.2 hl hn.2 hc.2]
theorem cmpTs_eq : (ts us : Tys) → ts.nnn = true → us.nnn = true → ts.length = us.length →
    cmpTs ts us = .eq → ts = us
  | .nil, .nil, _, _, _, _ => rfl
  | .nil, .cons _ _, _, _, hl, _ => by simp [Tys.length] at hl
  | .cons _ _, .nil, _, _, hl, _ => by simp [Tys.length] at hl
  | .cons x r, .cons y s, ga, gb, hl, hc => by
    simp only [Tys.nnn, Bool.and_eq_true] at ga gb
    simp only [Tys.length, Nat.add_right_cancel_iff] at hl
    simp only [cmpTs_cons, Ordering.then_eq_eq] at hc
    rw [(cmpTy_eq_iff x y ga.1 gb.1).mp hc.1, cmpTs_eq r s ga.2 gb.2 hl hc.2]
end

end Zed
