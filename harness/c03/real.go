package main

import (
	"bytes"
	"fmt"
	"io"
	"strings"

	. "verifharness/hlib"

	zed "github.com/brimdata/super"
	"github.com/brimdata/super/pkg/field"
	"github.com/brimdata/super/runtime/vam"
	"github.com/brimdata/super/runtime/vcache"
	"github.com/brimdata/super/vng"
	"github.com/brimdata/super/zbuf"
	"github.com/brimdata/super/zcode"
	"github.com/brimdata/super/zio"
	"github.com/brimdata/super/zio/vngio"
	"github.com/brimdata/super/zio/zngio"
	"github.com/brimdata/super/zson"
)

// ---- calls into the real code (run inside the worker process, wrapped in Protect) ------------

type nopCloser struct{ *bytes.Buffer }

func (nopCloser) Close() error { return nil }

// realWrite: vngio.NewWriter over the values.
func realWrite(vals []zed.Value) (out []byte, err error, panicked bool) {
	err, panicked = Protect(func() error {
		var buf bytes.Buffer
		w := vngio.NewWriter(nopCloser{&buf})
		for _, v := range vals {
			if err := w.Write(v); err != nil {
				return err
			}
		}
		if err := w.Close(); err != nil {
			return err
		}
		out = buf.Bytes()
		return nil
	})
	return
}

// row: exact rendering (type + hex body) and model rendering ((type value)).
type row struct {
	Exact string `json:"x"`
	Model string `json:"m"`
}

func rowOf(v zed.Value) row { return row{ValueString(v), ModelRow(v)} }

func readAll(r zio.Reader) ([]row, error) {
	var out []row
	for {
		v, err := r.Read()
		if err != nil {
			return out, err
		}
		if v == nil {
			return out, nil
		}
		out = append(out, rowOf(*v))
	}
}

// realReadRows: vngio.NewReader (row-reconstructing builders).
func realReadRows(b []byte) (out []row, err error, panicked bool) {
	err, panicked = Protect(func() error {
		r, err := vngio.NewReader(zed.NewContext(), bytes.NewReader(b), nil)
		if err != nil {
			return err
		}
		out, err = readAll(r)
		return err
	})
	return
}

// realReadVec: vcache object + projection + materializer.
func realReadVec(b []byte, paths []field.Path) (out []row, err error, panicked bool) {
	err, panicked = Protect(func() error {
		o, err := vng.NewObject(bytes.NewReader(b))
		if err != nil {
			return err
		}
		vo := vcache.NewObjectFromVNG(o)
		p := vam.NewProjection(zed.NewContext(), vo, paths)
		out, err = pullAllRows(p)
		return err
	})
	return
}

func pullAllRows(p zbuf.Puller) ([]row, error) {
	var out []row
	for {
		b, err := p.Pull(false)
		if err != nil {
			return out, err
		}
		if b == nil {
			return out, nil
		}
		for _, v := range b.Values() {
			out = append(out, rowOf(v))
		}
		b.Unref()
	}
}

// ---- dump of a real VNG object as a model `top` ------------------------------------------------

func ints(xs []int32) string {
	var sb strings.Builder
	sb.WriteByte('(')
	for i, x := range xs {
		if i > 0 {
			sb.WriteByte(' ')
		}
		fmt.Fprint(&sb, x)
	}
	sb.WriteByte(')')
	return sb.String()
}

func readSeg(loc vng.Segment, r io.ReaderAt) ([]byte, error) {
	if loc.MemLength == 0 {
		return nil, nil
	}
	buf := make([]byte, loc.MemLength)
	if err := loc.Read(r, buf); err != nil {
		return nil, err
	}
	return buf, nil
}

func dumpTop(b []byte) (s string, err error) {
	e, _ := Protect(func() error {
		o, err := vng.NewObject(bytes.NewReader(b))
		if err != nil {
			return err
		}
		r := o.DataReader()
		if d, ok := o.Metadata().(*vng.Dynamic); ok {
			tags, err := vng.ReadIntVector(d.Tags, r)
			if err != nil {
				return err
			}
			var sb strings.Builder
			fmt.Fprintf(&sb, "(dynamic %s %d", ints(tags), d.Length)
			for _, m := range d.Values {
				c, err := dumpCol(m, r)
				if err != nil {
					return err
				}
				sb.WriteByte(' ')
				sb.WriteString(c)
			}
			sb.WriteByte(')')
			s = sb.String()
			return nil
		}
		c, err := dumpCol(o.Metadata(), r)
		if err != nil {
			return err
		}
		s = "(single " + c + ")"
		return nil
	})
	return s, e
}

func dumpCol(m vng.Metadata, r io.ReaderAt) (string, error) {
	intsOf := func(loc vng.Segment) (string, error) {
		v, err := vng.ReadIntVector(loc, r)
		if err != nil {
			return "", err
		}
		return ints(v), nil
	}
	switch m := m.(type) {
	case *vng.Primitive:
		typ := SpecOf(m.Typ).Descr()
		buf, err := readSeg(m.Location, r)
		if err != nil {
			return "", err
		}
		var sb strings.Builder
		if len(m.Dict) != 0 {
			fmt.Fprintf(&sb, "(prim %s %d (dict (", typ, m.Count)
			for i, e := range m.Dict {
				if i > 0 {
					sb.WriteByte(' ')
				}
				fmt.Fprintf(&sb, "(%s %d)", HexAtom(e.Value.Bytes()), e.Count)
			}
			sb.WriteString(") (")
			for i, x := range buf {
				if i > 0 {
					sb.WriteByte(' ')
				}
				fmt.Fprint(&sb, x)
			}
			sb.WriteString(")))")
			return sb.String(), nil
		}
		fmt.Fprintf(&sb, "(prim %s %d (plain", typ, m.Count)
		for it := zcode.Iter(buf); !it.Done(); {
			sb.WriteByte(' ')
			sb.WriteString(HexAtom(it.Next()))
		}
		sb.WriteString("))")
		return sb.String(), nil
	case *vng.Const:
		return fmt.Sprintf("(prim %s %d (const %s))", SpecOf(m.Value.Type()).Descr(), m.Count, HexAtom(m.Value.Bytes())), nil
	case *vng.Nulls:
		runs, err := intsOf(m.Runs)
		if err != nil {
			return "", err
		}
		c, err := dumpCol(m.Values, r)
		if err != nil {
			return "", err
		}
		return fmt.Sprintf("(nulls %s %d %s)", runs, m.Count, c), nil
	case *vng.Record:
		var sb strings.Builder
		fmt.Fprintf(&sb, "(record %d", m.Length)
		for _, f := range m.Fields {
			c, err := dumpCol(f.Values, r)
			if err != nil {
				return "", err
			}
			fmt.Fprintf(&sb, " (%s %s)", HexAtom([]byte(f.Name)), c)
		}
		sb.WriteByte(')')
		return sb.String(), nil
	case *vng.Array:
		ls, err := intsOf(m.Lengths)
		if err != nil {
			return "", err
		}
		c, err := dumpCol(m.Values, r)
		if err != nil {
			return "", err
		}
		return fmt.Sprintf("(array %d %s %s)", m.Length, ls, c), nil
	case *vng.Set:
		ls, err := intsOf(m.Lengths)
		if err != nil {
			return "", err
		}
		c, err := dumpCol(m.Values, r)
		if err != nil {
			return "", err
		}
		return fmt.Sprintf("(set %d %s %s)", m.Length, ls, c), nil
	case *vng.Map:
		ls, err := intsOf(m.Lengths)
		if err != nil {
			return "", err
		}
		k, err := dumpCol(m.Keys, r)
		if err != nil {
			return "", err
		}
		v, err := dumpCol(m.Values, r)
		if err != nil {
			return "", err
		}
		return fmt.Sprintf("(map %d %s %s %s)", m.Length, ls, k, v), nil
	case *vng.Union:
		tags, err := intsOf(m.Tags)
		if err != nil {
			return "", err
		}
		var sb strings.Builder
		fmt.Fprintf(&sb, "(union %d %s", m.Length, tags)
		for _, v := range m.Values {
			c, err := dumpCol(v, r)
			if err != nil {
				return "", err
			}
			sb.WriteByte(' ')
			sb.WriteString(c)
		}
		sb.WriteByte(')')
		return sb.String(), nil
	case *vng.Named:
		c, err := dumpCol(m.Values, r)
		if err != nil {
			return "", err
		}
		return fmt.Sprintf("(named %s %s)", HexAtom([]byte(m.Name)), c), nil
	case *vng.Error:
		c, err := dumpCol(m.Values, r)
		if err != nil {
			return "", err
		}
		return fmt.Sprintf("(error %s)", c), nil
	}
	return "", fmt.Errorf("dump: unknown metadata %T", m)
}

// ---- a VNG object built from a model `top` (model-encode → real-decode) ------------------------

type vngBuilder struct {
	zctx *zed.Context
	data []byte
}

func (b *vngBuilder) seg(raw []byte) vng.Segment {
	s := vng.Segment{Offset: uint64(len(b.data)), Length: uint64(len(raw)), MemLength: uint64(len(raw)), CompressionFormat: vng.CompressionFormatNone}
	b.data = append(b.data, raw...)
	return s
}

func (b *vngBuilder) intSeg(x *SX) (vng.Segment, error) {
	ns, err := x.Nats()
	if err != nil {
		return vng.Segment{}, err
	}
	var raw zcode.Bytes
	for _, n := range ns {
		raw = zcode.Append(raw, zed.EncodeInt(int64(n)))
	}
	return b.seg(raw), nil
}

func (b *vngBuilder) col(x *SX) (vng.Metadata, error) {
	bad := fmt.Errorf("bad column s-expression %q", x.Head())
	switch x.Head() {
	case "prim":
		if len(x.List) != 4 {
			return nil, bad
		}
		spec, err := TSpecOfSX(x.List[1])
		if err != nil {
			return nil, err
		}
		typ, err := spec.Build(b.zctx)
		if err != nil {
			return nil, err
		}
		count, err := x.List[2].Nat()
		if err != nil {
			return nil, err
		}
		p := x.List[3]
		switch p.Head() {
		case "plain":
			var raw zcode.Bytes
			for _, h := range p.List[1:] {
				v, err := h.Hex()
				if err != nil {
					return nil, err
				}
				raw = zcode.Append(raw, v)
			}
			return &vng.Primitive{Typ: typ, Location: b.seg(raw), Count: uint32(count)}, nil
		case "const":
			v, err := p.List[1].Hex()
			if err != nil {
				return nil, err
			}
			return &vng.Const{Value: zed.NewValue(typ, v), Count: uint32(count)}, nil
		case "dict":
			if len(p.List) != 3 {
				return nil, bad
			}
			var dict []vng.DictEntry
			for _, e := range p.List[1].List {
				v, err := e.List[0].Hex()
				if err != nil {
					return nil, err
				}
				n, err := e.List[1].Nat()
				if err != nil {
					return nil, err
				}
				dict = append(dict, vng.DictEntry{Value: zed.NewValue(typ, v), Count: uint32(n)})
			}
			sel, err := p.List[2].Nats()
			if err != nil {
				return nil, err
			}
			raw := make([]byte, len(sel))
			for i, s := range sel {
				raw[i] = byte(s)
			}
			return &vng.Primitive{Typ: typ, Location: b.seg(raw), Dict: dict, Count: uint32(count)}, nil
		}
		return nil, bad
	case "nulls":
		if len(x.List) != 4 {
			return nil, bad
		}
		runs, err := b.intSeg(x.List[1])
		if err != nil {
			return nil, err
		}
		count, err := x.List[2].Nat()
		if err != nil {
			return nil, err
		}
		inner, err := b.col(x.List[3])
		if err != nil {
			return nil, err
		}
		return &vng.Nulls{Runs: runs, Values: inner, Count: uint32(count)}, nil
	case "record":
		n, err := x.List[1].Nat()
		if err != nil {
			return nil, err
		}
		rec := &vng.Record{Length: uint32(n), Fields: []vng.Field{}}
		for _, f := range x.List[2:] {
			nm, err := f.List[0].Hex()
			if err != nil {
				return nil, err
			}
			c, err := b.col(f.List[1])
			if err != nil {
				return nil, err
			}
			rec.Fields = append(rec.Fields, vng.Field{Name: string(nm), Values: c})
		}
		return rec, nil
	case "array", "set":
		if len(x.List) != 4 {
			return nil, bad
		}
		n, err := x.List[1].Nat()
		if err != nil {
			return nil, err
		}
		ls, err := b.intSeg(x.List[2])
		if err != nil {
			return nil, err
		}
		c, err := b.col(x.List[3])
		if err != nil {
			return nil, err
		}
		if x.Head() == "set" {
			return &vng.Set{Length: uint32(n), Lengths: ls, Values: c}, nil
		}
		return &vng.Array{Length: uint32(n), Lengths: ls, Values: c}, nil
	case "map":
		if len(x.List) != 5 {
			return nil, bad
		}
		n, err := x.List[1].Nat()
		if err != nil {
			return nil, err
		}
		ls, err := b.intSeg(x.List[2])
		if err != nil {
			return nil, err
		}
		k, err := b.col(x.List[3])
		if err != nil {
			return nil, err
		}
		v, err := b.col(x.List[4])
		if err != nil {
			return nil, err
		}
		return &vng.Map{Length: uint32(n), Lengths: ls, Keys: k, Values: v}, nil
	case "union":
		n, err := x.List[1].Nat()
		if err != nil {
			return nil, err
		}
		tags, err := b.intSeg(x.List[2])
		if err != nil {
			return nil, err
		}
		u := &vng.Union{Length: uint32(n), Tags: tags}
		for _, e := range x.List[3:] {
			c, err := b.col(e)
			if err != nil {
				return nil, err
			}
			u.Values = append(u.Values, c)
		}
		return u, nil
	case "named":
		nm, err := x.List[1].Hex()
		if err != nil {
			return nil, err
		}
		c, err := b.col(x.List[2])
		if err != nil {
			return nil, err
		}
		return &vng.Named{Name: string(nm), Values: c}, nil
	case "error":
		c, err := b.col(x.List[1])
		if err != nil {
			return nil, err
		}
		return &vng.Error{Values: c}, nil
	}
	return nil, bad
}

// buildVNG assembles a VNG object (header, ZNG-marshalled metadata, uncompressed segments)
// from a model `top`, the way vng.Writer.finalize does.
func buildVNG(top string) (out []byte, err error) {
	e, _ := Protect(func() error {
		x, err := ParseSX(top)
		if err != nil {
			return err
		}
		b := &vngBuilder{zctx: zed.NewContext()}
		var meta vng.Metadata
		switch x.Head() {
		case "single":
			meta, err = b.col(x.List[1])
			if err != nil {
				return err
			}
		case "dynamic":
			tags, err := b.intSeg(x.List[1])
			if err != nil {
				return err
			}
			n, err := x.List[2].Nat()
			if err != nil {
				return err
			}
			d := &vng.Dynamic{Tags: tags, Length: uint32(n), Values: []vng.Metadata{}}
			for _, e := range x.List[3:] {
				c, err := b.col(e)
				if err != nil {
					return err
				}
				d.Values = append(d.Values, c)
			}
			meta = d
		default:
			return fmt.Errorf("bad top")
		}
		var metaBuf bytes.Buffer
		zw := zngio.NewWriter(zio.NopCloser(&metaBuf))
		m := zson.NewZNGMarshalerWithContext(b.zctx)
		m.Decorate(zson.StyleSimple)
		val, err := m.Marshal(meta)
		if err != nil {
			return err
		}
		if err := zw.Write(val); err != nil {
			return err
		}
		zw.EndStream()
		hdr := vng.Header{Version: vng.Version, MetaSize: uint64(zw.Position()), DataSize: uint64(len(b.data))}.Serialize()
		out = append(out, hdr...)
		out = append(out, metaBuf.Bytes()...)
		out = append(out, b.data...)
		return nil
	})
	return out, e
}

func errClass(err error, panicked bool) string {
	if err == nil {
		return "ok"
	}
	if panicked {
		return "panic"
	}
	return "error"
}

func trunc(s string, n int) string {
	if len(s) > n {
		return s[:n] + "…"
	}
	return s
}
