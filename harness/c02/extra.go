package main

// Further sub-checks:
//
//	guarded  the Lean theorem's guard (evaluated by the driver) ⇒ the real round trip succeeds
//	quote    character layer: real QuotedString/QuotedName/QuotedTypeName and the real lexer
//	         against the model's quote/unquote; direct oracle unquote(quote s) = s
//	type     zson.FormatType → ParseType is the identity; the type AST and its analysis against the model

import (
	"fmt"
	"strings"
	"unicode"
	"unicode/utf8"
	h "verifharness/hlib"

	zed "github.com/brimdata/super"
	astzed "github.com/brimdata/super/compiler/ast/zed"
	"github.com/brimdata/super/zson"
	"golang.org/x/text/unicode/norm"
)

// ---- guarded -----------------------------------------------------------------------------

func guardedRT(c *h.Ctx) {
	m := c.Model()
	n := c.N(600, 10000)
	for i := 0; i < n; i++ {
		g := &gen{r: c.Rng, plain: true, tame: true}
		t, v := g.genCase(1 + c.Rng.Intn(3))
		cs := &rtCase{Mode: rtModes[c.Rng.Intn(len(rtModes))], Pretty: []int{0, 2, 4}[c.Rng.Intn(3)], Vals: []tv{{t, v}}}
		if (cs.Mode == "writer" || cs.Mode == "format") && c.Rng.Intn(2) == 0 {
			cs.Persist = ".*"
		}
		zctx := zed.NewContext()
		val, err := makeValue(zctx, t, v)
		if err != nil {
			continue
		}
		ans := m.Call("(C02 guard (" + modelTy(val.Type()) + " " + modelVal(zctx, val.Type(), val.Bytes()) + "))")
		c.Eval("guarded" + caseKey(cs))
		c.Res.ModelCases++
		holds := ans == "plain=1 wfTy=1 wfVal=1 bareEmpty=0 errOK=1"
		if !holds {
			c.Stat("guarded:guard-false:" + ans)
			if strings.Contains(ans, "wfVal=0") && len(c.Res.Notes) < 3 {
				c.Note("guard wfVal=0 on %s %s", modelTy(val.Type()), clip(modelVal(zctx, val.Type(), val.Bytes()), 300))
			}
			continue
		}
		if caseHazards(cs).any() {
			// primitive text that does not survive the lexer (alone or as a map key:value
			// pair) is below the model: the theorem takes "primitive text round-trips" as a
			// parameter; such cases are the oracle's business
			c.Stat("guarded:skipped:primitive-text-hazard")
			checkRT(c, cs, true)
			continue
		}
		c.Stat("guarded:guard-holds")
		res := runRT(cs)
		if !res.ok {
			kind := "oracle"
			if res.panic {
				kind = "panic"
			}
			c.Fail(kind, "C02:roundtrip:guarded-case-fails", fmt.Sprintf("the guard of zson_roundtrip_value_partial holds but the real round trip fails (%s: %s); text=%q", res.class, res.detail, clip(res.text, 300)), replayObj{Check: "oracle", RT: cs})
		}
	}
}

// guardedNamedRT: a named type over a plain type, first occurrence: the guard of
// zson_roundtrip_value_named_top_partial ⇒ the real round trip succeeds, in every mode that
// starts from a fresh formatter.
func guardedNamedRT(c *h.Ctx) {
	m := c.Model()
	n := c.N(400, 8000)
	for i := 0; i < n; i++ {
		g := &gen{r: c.Rng, plain: true, tame: true}
		u, v := g.genCase(1 + c.Rng.Intn(3))
		name := typeNames[c.Rng.Intn(11)]
		if c.Rng.Intn(4) == 0 {
			name = []string{"a b", "1a", "1.5", "a\"b", "é", "true", "nan", "a,b", "0x1f"}[c.Rng.Intn(9)]
		}
		t := named(name, u)
		cs := &rtCase{Mode: []string{"value", "samectx", "record", "writer", "format"}[c.Rng.Intn(5)], Pretty: []int{0, 2, 4}[c.Rng.Intn(3)], Vals: []tv{{t, v}}}
		zctx := zed.NewContext()
		val, err := makeValue(zctx, t, v)
		if err != nil {
			continue
		}
		ans := m.Call("(C02 guardnamed (" + modelTy(val.Type()) + " " + modelVal(zctx, val.Type(), val.Bytes()) + "))")
		c.Eval("guardednamed" + caseKey(cs))
		c.Res.ModelCases++
		if ans != "1" {
			c.Stat("guardednamed:guard-false")
			continue
		}
		if caseHazards(cs).any() {
			c.Stat("guardednamed:skipped:text-hazard")
			checkRT(c, cs, true)
			continue
		}
		c.Stat("guardednamed:guard-holds")
		res := runRT(cs)
		if !res.ok {
			kind := "oracle"
			if res.panic {
				kind = "panic"
			}
			c.Fail(kind, "C02:roundtrip:guarded-named-case-fails", fmt.Sprintf("the guard of zson_roundtrip_value_named_top_partial holds but the real round trip fails (%s: %s); text=%q", res.class, res.detail, clip(res.text, 300)), replayObj{Check: "oracle", RT: cs})
		}
	}
}

// guardedStreamRT: streams of plain values and values of named types over plain types, the
// same names recurring: the guard of zson_roundtrip_stream_partial (evaluated by the driver)
// ⇒ the real stream round-trips, for per-value scope (zsonio.Writer, FormatRecord), per-stream
// scope (Format) and persist.
func guardedStreamRT(c *h.Ctx) {
	m := c.Model()
	n := c.N(300, 6000)
	for i := 0; i < n; i++ {
		r := c.Rng
		pg := &gen{r: r, plain: true, tame: true}
		names := []string{"x", "y", "port", "a.b", "é"}
		r.Shuffle(len(names), func(i, j int) { names[i], names[j] = names[j], names[i] })
		var pool []*TSpec
		for k := 0; k < 1+r.Intn(3); k++ {
			pool = append(pool, named(names[k], pg.genType(1+r.Intn(2))))
		}
		cs := &rtCase{Mode: []string{"record", "writer", "format", "writer", "format"}[r.Intn(5)], Pretty: []int{0, 2, 4}[r.Intn(3)]}
		if cs.Mode != "record" && r.Intn(2) == 0 {
			cs.Persist = []string{".*", "^x$", "^(x|y)$"}[r.Intn(3)]
		}
		for k := 0; k < 2+r.Intn(4); k++ {
			if r.Intn(4) == 0 {
				t, v := pg.genCase(1 + r.Intn(2))
				cs.Vals = append(cs.Vals, tv{t, v})
				continue
			}
			t := cloneT(pool[r.Intn(len(pool))])
			v := pg.genVal(t, 2, []int{0, 0, 2}[r.Intn(3)])
			cs.Vals = append(cs.Vals, tv{t, v})
		}
		zctx := zed.NewContext()
		var items []string
		bad := false
		for _, x := range cs.Vals {
			val, err := makeValue(zctx, x.T, x.V)
			if err != nil {
				bad = true
				break
			}
			items = append(items, "("+modelTy(val.Type())+" "+modelVal(zctx, val.Type(), val.Bytes())+")")
		}
		if bad {
			continue
		}
		ans := m.Call("(C02 guardstream " + strings.Join(items, " ") + ")")
		c.Eval("guardedstream" + caseKey(cs))
		c.Res.ModelCases++
		if ans != "1" {
			c.Stat("guardedstream:guard-false")
			continue
		}
		if caseHazards(cs).any() {
			c.Stat("guardedstream:skipped:text-hazard")
			checkRT(c, cs, true)
			continue
		}
		c.Stat("guardedstream:guard-holds:" + cs.Mode)
		res := runRT(cs)
		if !res.ok {
			kind := "oracle"
			if res.panic {
				kind = "panic"
			}
			c.Fail(kind, "C02:roundtrip:guarded-stream-fails", fmt.Sprintf("the guard of zson_roundtrip_stream_partial holds but the real stream does not round-trip (%s: %s); text=%q", res.class, res.detail, clip(res.text, 300)), replayObj{Check: "oracle", RT: cs})
		}
	}
}

// guardedNestedRT: values with named types *inside* (records with fields of named types, arrays
// and sets of named types, the same names again in later values): the guard of
// zson_roundtrip_stream_nested_partial ⇒ the real stream round-trips in every scope.
func guardedNestedRT(c *h.Ctx) {
	m := c.Model()
	n := c.N(300, 6000)
	for i := 0; i < n; i++ {
		r := c.Rng
		pg := &gen{r: r, plain: true, tame: true}
		names := []string{"x", "y", "port", "a.b", "é"}
		r.Shuffle(len(names), func(i, j int) { names[i], names[j] = names[j], names[i] })
		var pool []*TSpec
		var bs []string
		for k := 0; k < 1+r.Intn(3); k++ {
			u := pg.genType(1 + r.Intn(2))
			for u.Kind == "union" || u.Kind == "enum" {
				u = pg.genType(1 + r.Intn(2))
			}
			pool = append(pool, named(names[k], u))
		}
		pick := func() *TSpec { return cloneT(pool[r.Intn(len(pool))]) }
		var spine func(d int) *TSpec
		spine = func(d int) *TSpec {
			switch k := r.Intn(6); {
			case d <= 0 || k == 0:
				return pick()
			case k == 1:
				return arr(spine(d - 1))
			case k == 2:
				return set(pick())
			case k == 3:
				t := pg.genType(1)
				for t.Kind == "union" {
					t = pg.genType(1)
				}
				return t
			default:
				rec := &TSpec{Kind: "record"}
				for j, fn := range []string{"a", "b", "c"}[:1+r.Intn(3)] {
					ft := spine(d - 1)
					if j == 0 && r.Intn(2) == 0 {
						ft = pick()
					}
					rec.Fields = append(rec.Fields, TField{Name: fn, Type: ft})
				}
				return rec
			}
		}
		cs := &rtCase{Mode: []string{"value", "record", "writer", "format", "format"}[r.Intn(5)], Pretty: []int{0, 2, 4}[r.Intn(3)]}
		if (cs.Mode == "writer" || cs.Mode == "format") && r.Intn(2) == 0 {
			cs.Persist = []string{".*", "^x$"}[r.Intn(2)]
		}
		nv := 1 + r.Intn(3)
		if cs.Mode == "value" {
			nv = 1
		}
		for k := 0; k < nv; k++ {
			t := spine(2)
			cs.Vals = append(cs.Vals, tv{t, pg.genVal(t, 3, 0)})
		}
		zctx := zed.NewContext()
		var items []string
		bad := false
		for _, x := range cs.Vals {
			val, err := makeValue(zctx, x.T, x.V)
			if err != nil {
				bad = true
				break
			}
			items = append(items, "("+modelTy(val.Type())+" "+modelVal(zctx, val.Type(), val.Bytes())+")")
		}
		if bad {
			continue
		}
		bs = bs[:0]
		for _, p := range pool {
			pt, err := p.Build(zctx)
			if err != nil {
				bad = true
				break
			}
			bs = append(bs, "("+HexAtom([]byte(p.Name))+" "+modelTy(pt)+")")
		}
		if bad {
			continue
		}
		ans := m.Call("(C02 guardnested (" + strings.Join(bs, " ") + ") " + strings.Join(items, " ") + ")")
		c.Eval("guardednested" + caseKey(cs))
		c.Res.ModelCases++
		if ans != "1" {
			c.Stat("guardednested:guard-false")
			continue
		}
		if caseHazards(cs).any() {
			c.Stat("guardednested:skipped:text-hazard")
			checkRT(c, cs, true)
			continue
		}
		c.Stat("guardednested:guard-holds:" + cs.Mode)
		res := runRT(cs)
		if !res.ok {
			kind := "oracle"
			if res.panic {
				kind = "panic"
			}
			c.Fail(kind, "C02:roundtrip:guarded-nested-fails", fmt.Sprintf("the guard of zson_roundtrip_stream_nested_partial holds but the real stream does not round-trip (%s: %s); text=%q", res.class, res.detail, clip(res.text, 300)), replayObj{Check: "oracle", RT: cs})
		}
	}
}

// ---- quote -------------------------------------------------------------------------------

var quotePool = []string{
	"", "a", "ab", "a b", "a\"b", "a\\b", "\"", "\\", "\\\\", "\\\"", "\n", "\r", "\t", "\b", "\f", "\x00", "\x01", "\x1f", "\x7f",
	"é", "日本", "😀", "a😀", "\u0080", " ", " ", "\ufeff", "�", "/", "'", "`", "u0041", "\\u0041", "\\n",
	"true", "false", "null", "error", "enum", "type", "int64", "NaN", "nan", "+Inf", "1", "1a", "a1", "_", "$", "$x", "a.b", ".a", "a.", "0x1",
	"1.5", "1e3", "-1", "a-b", "a:b", "a,b", "a=b", "a(b", "{", "}", "[", "]", "|", "<", ">", "%a", " ", "  a", "a ", "éa", "aé", "Ωmega", "ß",
}

func quoteInput(c *h.Ctx) string {
	r := c.Rng
	switch r.Intn(4) {
	case 0:
		return quotePool[r.Intn(len(quotePool))]
	case 1:
		return quotePool[r.Intn(len(quotePool))] + quotePool[r.Intn(len(quotePool))]
	default:
		s := randString(r)
		if s == "n" {
			s = quotePool[r.Intn(len(quotePool))]
		}
		return s
	}
}

// lettersOf: the non-ASCII characters of s that unicode.IsLetter accepts (the model's
// parameter L).
func lettersOf(s string) string {
	var b strings.Builder
	for _, r := range s {
		if r >= 128 && unicode.IsLetter(r) {
			b.WriteRune(r)
		}
	}
	return b.String()
}

// realUnquote reads the token back with the real lexer/parser in the position of its kind.
func realUnquote(kind, tok string) (string, bool) {
	var name string
	ok := false
	func() {
		defer func() { recover() }()
		switch kind {
		case "string":
			a, err := zson.NewParser(strings.NewReader(tok)).ParseValue()
			if err != nil || a == nil {
				return
			}
			iv, isI := a.(*astzed.ImpliedValue)
			if !isI {
				return
			}
			p, isP := iv.Of.(*astzed.Primitive)
			if !isP || p.Type != "string" {
				return
			}
			name, ok = p.Text, true
		case "name":
			a, err := zson.NewParser(strings.NewReader("{" + tok + ":1}")).ParseValue()
			if err != nil || a == nil {
				return
			}
			iv, isI := a.(*astzed.ImpliedValue)
			if !isI {
				return
			}
			rec, isR := iv.Of.(*astzed.Record)
			if !isR || len(rec.Fields) != 1 {
				return
			}
			name, ok = rec.Fields[0].Name, true
		case "tname":
			a, err := zson.NewParser(strings.NewReader("<" + tok + "=int64>")).ParseValue()
			if err != nil || a == nil {
				return
			}
			iv, isI := a.(*astzed.ImpliedValue)
			if !isI {
				return
			}
			tvv, isT := iv.Of.(*astzed.TypeValue)
			if !isT {
				return
			}
			td, isD := tvv.Value.(*astzed.TypeDef)
			if !isD {
				return
			}
			if p, isP := td.Type.(*astzed.TypePrimitive); !isP || p.Name != "int64" {
				return
			}
			name, ok = td.Name, true
		}
	}()
	return name, ok
}

func quoteCheck(c *h.Ctx) {
	m := c.Model()
	n := c.N(1500, 20000)
	for i := 0; i < n; i++ {
		s := quoteInput(c)
		if !utf8.ValidString(s) || !norm.NFC.IsNormalString(s) {
			continue
		}
		kind := []string{"string", "name", "tname"}[i%3]
		if kind == "tname" && s == "" {
			continue // an empty type name is outside the claim
		}
		var tok, rest string
		switch kind {
		case "string":
			tok, rest = zson.QuotedString([]byte(s)), ""
		case "name":
			tok, rest = zson.QuotedName(s), ":1}"
		case "tname":
			tok, rest = zson.QuotedTypeName(s), "=int64>"
		}
		c.Eval("quote" + kind + s)
		c.Stat("quote:kind:" + kind)
		letters := HexAtom([]byte(lettersOf(s)))
		// model quote == real quote
		mq := m.Call("(C02 quote " + kind + " " + letters + " " + HexAtom([]byte(s)) + ")")
		c.Res.ModelCases++
		replay := map[string]any{"check": "quote", "kind": kind, "s": s}
		if mq != HexAtom([]byte(tok)) {
			c.Fail("correspondence", "C02:corr:quote", fmt.Sprintf("%s %q: real %q, model hex %s", kind, s, tok, mq), replay)
			continue
		}
		// model unquote == real lexer
		got, ok := realUnquote(kind, tok)
		mu := m.Call("(C02 unquote " + kind + " " + letters + " " + HexAtom([]byte(tok+rest)) + ")")
		c.Res.ModelCases++
		var want string
		if ok {
			want = "(ok " + HexAtom([]byte(got)) + " " + HexAtom([]byte(rest)) + ")"
		} else {
			want = "err"
		}
		if mu != want {
			c.Fail("correspondence", "C02:corr:unquote", fmt.Sprintf("%s %q token %q: real %s, model %s", kind, s, tok, want, mu), replay)
			continue
		}
		// oracle
		if !ok || got != s {
			key := "C02:quote:" + kind
			if kind == "tname" {
				if hzc := typeNameHazard(s); hzc != "" {
					key = "C02:roundtrip:" + hzc
				} else if zed.LookupPrimitive(s) != nil {
					// a primitive type name cannot name a type (LookupTypeNamed refuses it)
					c.Stat("quote:skipped:primitive-type-name")
					continue
				}
			}
			c.Fail("oracle", key, fmt.Sprintf("%s %q is written %q and read back as %q (ok=%v)", kind, s, tok, got, ok), replay)
		}
	}
}

func replayQuote(c *h.Ctx, kind, s string) {
	var tok string
	switch kind {
	case "string":
		tok = zson.QuotedString([]byte(s))
	case "name":
		tok = zson.QuotedName(s)
	case "tname":
		tok = zson.QuotedTypeName(s)
	}
	got, ok := realUnquote(kind, tok)
	c.Eval("")
	if !ok || got != s {
		key := "C02:quote:" + kind
		if kind == "tname" {
			if hzc := typeNameHazard(s); hzc != "" {
				key = "C02:roundtrip:" + hzc
			}
		}
		c.Fail("oracle", key, fmt.Sprintf("%s %q is written %q and read back as %q (ok=%v)", kind, s, tok, got, ok), map[string]any{"check": "quote", "kind": kind, "s": s})
	}
}

// ---- type --------------------------------------------------------------------------------

func typeCheckRT(c *h.Ctx) {
	m := c.Model()
	n := c.N(800, 10000)
	for i := 0; i < n; i++ {
		g := &gen{r: c.Rng, noHostle: i%2 == 0, tame: true}
		t := g.genType(1 + c.Rng.Intn(4))
		c.Eval("type" + t.Canon())
		typeCase(c, m, t, true)
	}
}

func typeCase(c *h.Ctx, m *h.Model, t *TSpec, corr bool) {
	zctx := zed.NewContext()
	typ, err := t.Build(zctx)
	if err != nil {
		c.Stat("type:skipped:build-error")
		return
	}
	replay := map[string]any{"check": "type", "t": t}
	var text string
	var got zed.Type
	var perr error
	if e, panicked := h.Protect(func() error {
		text = zson.FormatType(typ)
		got, perr = zson.ParseType(zed.NewContext(), text)
		return nil
	}); panicked {
		c.Fail("panic", "C02:panic:type", e.Error(), replay)
		return
	}
	hz := &hazards{}
	typeHazards(t, hz)
	// in the canonical printer type names go through QuotedTypeName: only keywords, a leading
	// dot and the empty name are hazards there
	var nameHz []string
	for _, x := range hz.typeName {
		if x != "type-name-needs-quotes" {
			nameHz = append(nameHz, x)
		}
	}
	okRT := perr == nil && got != nil && canonType(got) == canonType(typ)
	if !okRT {
		key := "C02:type:unexplained"
		if len(nameHz) > 0 {
			key = "C02:roundtrip:" + nameHz[0]
		}
		c.Fail("oracle", key, fmt.Sprintf("FormatType/ParseType: %q -> %v (err %v), want %s", clip(text, 200), got != nil, perr, clip(canonType(typ), 200)), replay)
	} else {
		c.Stat("type:roundtrip-ok")
	}
	if !corr || len(nameHz) > 0 {
		return
	}
	// the type AST the real parser reads from the canonical text == model fmttype
	a, err := zson.NewParser(strings.NewReader("<" + text + ">")).ParseValue()
	if err != nil || a == nil {
		return
	}
	iv, ok := a.(*astzed.ImpliedValue)
	if !ok {
		return
	}
	tvv, ok := iv.Of.(*astzed.TypeValue)
	if !ok {
		return
	}
	want := m.Call("(C02 fmttype " + modelTy(typ) + ")")
	c.Res.ModelCases++
	if astType(tvv.Value) != want {
		c.Fail("correspondence", "C02:corr:fmttype", fmt.Sprintf("real %s, model %s; text=%q", clip(astType(tvv.Value), 300), clip(want, 300), clip(text, 200)), replay)
		return
	}
	mr := m.Call("(C02 rttype " + modelTy(typ) + ")")
	c.Res.ModelCases++
	if (mr == "ok") != okRT {
		c.Fail("correspondence", "C02:corr:rttype", fmt.Sprintf("model %s, real round trip ok=%v; text=%q", mr, okRT, clip(text, 200)), replay)
	}
}
