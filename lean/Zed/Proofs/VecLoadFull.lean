import Zed.Model.VecGuard
import Zed.Proofs.VecLists
import Zed.Proofs.VecProject
/-! The vector read path over the whole type tree, under the guard `okV`. -/
namespace Zed.Vng
open Zed.Generated.C03

/-! ### error wrappers never carry a null of their own under the guard -/

theorem loadLeaf_errClear (t : Ty) (p : PCol) (n : Nat) (b : Bitmap) (v : Vec)
    (h : loadLeaf t p n b = some v) : Vec.errClear v = true := by
  unfold loadLeaf at h
  split at h
  · cases p with
    | const x c => simp at h; subst h; rfl
    | dict es sel c => simp at h
    | plain vals c => simp at h
  · cases p with
    | const x c => simp at h; subst h; rfl
    | dict es sel c => simp at h; subst h; rfl
    | plain vals c =>
      simp only at h
      split at h
      · cases h; rfl
      · split at h
        · cases h; rfl
        · split at h
          · cases h
          · cases h; rfl

/-! ### bitmaps without a null -/

theorem any_eq_false_iff_count (F : List Bool) : F.any id = false ↔ F.count true = 0 := by
  induction F with
  | nil => simp
  | cons b f ih => cases b <;> simp [ih]

theorem eq_replicate_of_any_false (F : List Bool) (h : F.any id = false) :
    F = List.replicate F.length false := by
  induction F with
  | nil => rfl
  | cons b f ih =>
    cases b with
    | true => simp at h
    | false => simp only [List.any_cons, id, Bool.false_or] at h; simp [List.replicate_succ, ← ih h]

theorem any_of_count (F : List Bool) : F.any id = decide (F.count true > 0) := by
  induction F with
  | nil => simp
  | cons b f ih => cases b <;> simp [ih]

theorem Rep.clear {P : Bitmap} {F : List Bool} (h : Rep P F) (hF : F.any id = false) :
    bitmapClear P = true ∧ ∀ slot, P.get slot = false := by
  cases h with
  | some F =>
    have hr := eq_replicate_of_any_false F hF
    refine ⟨?_, ?_⟩
    · simp only [bitmapClear]; rw [hr]; simp
    · intro slot
      simp only [Bitmap.get]; rw [hr]
      simp only [List.getD_eq_getElem?_getD, List.getElem?_replicate]
      split <;> rfl
  | none n => exact ⟨rfl, fun _ => rfl⟩

/-- `load_nullsWrap` with the null-presence of the flattened bitmap. -/
theorem load_nullsWrap' (vs : List Val) (c : Col) (P : Bitmap) (Fp : List Bool)
    (hR : Rep P Fp) (hlen : Fp.count false = vs.length) :
    ∃ own F, load (nullsWrap vs c) P (Fp.count true) none = load c P (F.count true) own ∧
      Rep (flattenNulls P own) F ∧ F.length = Fp.length ∧ F.count false = (nonNull vs).length ∧
      expandVal Fp vs = expandVal F (nonNull vs) ∧
      F.any id = (Fp.any id || vs.any Val.isNull) := by
  have hfetch : nullsFetch false (nullsEncode (vs.map Val.toOpt)).runs = vs.map Val.isNull := by
    rw [nullsFetch_eq_expand]
    show expand false (nullsState ((vs.map Val.toOpt).map Option.isNone)).finish = _
    rw [(nullsState_spec _).1, map_isNone_toOpt]
  have hcount : (nullsEncode (vs.map Val.toOpt)).count = (vs.map Val.isNull).count true := by
    show (nullsState _).count = _
    rw [(nullsState_spec _).2, map_isNone_toOpt]
  have hany : vs.any Val.isNull = decide ((vs.map Val.isNull).count true > 0) := by
    rw [← any_of_count]; simp [List.any_map, Function.comp_def]
  obtain ⟨e1, e2, e3, e4⟩ := expandVal_convolve Fp vs hlen
  unfold nullsWrap
  simp only
  by_cases h0 : (nullsEncode (vs.map Val.toOpt)).count = 0
  · simp only [h0, if_true]
    have hz := nullsEncode_count_zero _ h0
    rw [filterMap_id_map_toOpt] at hz
    have hvs : nonNull vs = vs := by
      have := congrArg (List.map Val.ofOpt) hz
      rw [map_ofOpt_toOpt] at this
      simpa [List.map_map, Function.comp_def, Val.ofOpt] using this.symm
    refine ⟨none, Fp, rfl, by simpa [flattenNulls] using hR, rfl, by rw [hvs]; exact hlen, by rw [hvs], ?_⟩
    rw [hany, ← hcount, h0]; simp
  · simp only [h0, if_false]
    refine ⟨some ((nullsEncode (vs.map Val.toOpt)).runs, (nullsEncode (vs.map Val.toOpt)).count),
      convolve Fp (vs.map Val.isNull), ?_, ?_, e2, e3, e1, ?_⟩
    · simp only [load, e4, hcount]
    · have := hR.flatten (nullsEncode (vs.map Val.toOpt)).runs (nullsEncode (vs.map Val.toOpt)).count
        (by rw [hfetch]; simpa using hlen.symm)
      rwa [hfetch] at this
    · rw [any_of_count, e4, any_of_count, hany]
      by_cases ha : Fp.count true > 0 <;> by_cases hb : (vs.map Val.isNull).count true > 0 <;>
        simp [ha, hb] <;> omega

def LoadSpecG (t : Ty) : Prop :=
  ∀ (vs : List Val) (P : Bitmap) (Fp : List Bool), Rep P Fp → Fp.count false = vs.length →
    (∀ v ∈ vs, conforms t v = true) → okV t vs (Fp.any id) = true →
    ∃ v, load (enc t vs) P (Fp.count true) none = some v ∧ vecType v = t ∧ v.len = Fp.length ∧
      Vec.errClear v = true ∧
      ∀ slot, slot < Fp.length → serialize v slot = (expandVal Fp vs)[slot]?

def FieldsSpecG (fs : Fields) : Prop :=
  ∀ (rows : List (List Val)) (b : Bitmap) (F : List Bool), Rep b F → F.count false = rows.length →
    (∀ r ∈ rows, conformsRow fs r = true) → okFields fs rows (F.any id) = true →
    ∃ fvs, loadFields (encFields fs rows) b (F.count true) = some fvs ∧ fvecTypes fvs = fs ∧
      FVecs.errClear fvs = true ∧
      ∀ slot, slot < F.length → F.getD slot false = false →
        serializeFields fvs slot = rows[rank F slot]?

def TysSpecG (ts : Tys) : Prop :=
  ∀ (k : Nat) (ps : List (Nat × Val)),
    (∀ p ∈ ps, k ≤ p.1 → conformsTag ts (p.1 - k) p.2 = true) → okTys ts k ps = true →
    ∃ vvs, loadCols (encTys ts k ps) = some vvs ∧ vecTypes vvs = ts ∧
      ∀ j, j < ts.length → ∀ i, i < (partitionBy (k + j) ps).length →
        serializeAt vvs j i = (partitionBy (k + j) ps)[i]?

/-- the top-level form of a child column of an array / set / map / union member. -/
theorem childTop {t : Ty} (h : LoadSpecG t) (vs : List Val) (hconf : ∀ v ∈ vs, conforms t v = true)
    (hok : okV t vs false = true) :
    ∃ v, load (enc t vs) none 0 none = some v ∧ vecType v = t ∧ v.len = vs.length ∧
      ∀ j, j < vs.length → serialize v j = vs[j]? := by
  obtain ⟨v, hv, hty, hl, _, hs⟩ := h vs none (List.replicate vs.length false) (Rep.none _)
    (by rw [List.count_replicate_self]) hconf (by simpa using hok)
  have hc : (List.replicate vs.length false).count true = 0 := by
    rw [List.count_replicate]; simp
  rw [hc] at hv
  simp only [List.length_replicate, expandVal_replicate_false] at hl hs
  exact ⟨v, hv, hty, hl, hs⟩

end Zed.Vng

namespace Zed.Vng
open Zed.Generated.C03

theorem sum_take_succ (lens : List Nat) (r : Nat) (hr : r < lens.length) :
    (lens.take (r + 1)).sum = (lens.take r).sum + lens[r] := by
  induction lens generalizing r with
  | nil => simp at hr
  | cons l rest ih =>
    cases r with
    | zero => simp
    | succ r =>
      have := ih r (by simpa using hr)
      simp only [List.take_succ_cons, List.sum_cons, List.getElem_cons_succ, this]; omega

/-- the offsets of a non-null slot delimit the `rank`-th container. -/
theorem offs_at (F : List Bool) (nulls : Bitmap) (hR : Rep nulls F) (lens : List Nat)
    (hlen : F.count false = lens.length) (slot : Nat) (hs : slot < F.length)
    (hf : F.getD slot false = false) :
    ∃ hr : rank F slot < lens.length,
      (offsetsOf F.length 0 0 nulls lens)[slot]? = some ((lens.take (rank F slot)).sum) ∧
      (offsetsOf F.length 0 0 nulls lens)[slot + 1]? =
        some ((lens.take (rank F slot)).sum + lens[rank F slot]) := by
  have hr : rank F slot < lens.length := (place_getElem F lens slot hs hlen).2 hf
  refine ⟨hr, ?_, ?_⟩
  · simpa using offsetsOf_getElem F nulls 0 0 lens hR.agrees hlen slot (by omega)
  · have := offsetsOf_getElem F nulls 0 0 lens hR.agrees hlen (slot + 1) (by omega)
    rw [rank_succ F slot hs, hf] at this
    simp only [Bool.false_eq_true, if_false, Nat.zero_add] at this
    rw [this, sum_take_succ lens _ hr]

/-- the body of `Array.Serialize` / `Set.Serialize` for one slot. -/
def rangeVal (offs : List Nat) (cv : Vec) (nulls : Bitmap) (slot : Nat) : Option Val :=
  if nulls.get slot then some .null
  else match offs[slot]?, offs[slot + 1]? with
    | some a, some b => (mapRange (serialize cv) a (b - a)).map fun xs => .cont (Vals.ofList xs)
    | _, _ => none

theorem serialize_array (offs : List Nat) (cv : Vec) (nulls : Bitmap) (slot : Nat) :
    serialize (.array offs cv nulls) slot = rangeVal offs cv nulls slot := by
  simp only [serialize, rangeVal]
  cases nulls.get slot <;> cases offs[slot]? <;> cases offs[slot + 1]? <;> rfl

theorem serialize_set (offs : List Nat) (cv : Vec) (nulls : Bitmap) (slot : Nat) :
    serialize (.set offs cv nulls) slot = rangeVal offs cv nulls slot := by
  simp only [serialize, rangeVal]
  cases nulls.get slot <;> cases offs[slot]? <;> cases offs[slot + 1]? <;> rfl

theorem rangeVal_spec (F : List Bool) (nulls : Bitmap) (hR : Rep nulls F) (nn : List Val)
    (hFc : F.count false = nn.length) (hcont : ∀ v ∈ nn, ∃ xs, v = .cont xs) (cv : Vec)
    (hchild : ∀ j, j < (nn.flatMap Val.items).length → serialize cv j = (nn.flatMap Val.items)[j]?)
    (slot : Nat) (hs : slot < F.length) :
    rangeVal (offsetsOf F.length 0 0 nulls (nn.map fun v => v.items.length)) cv nulls slot =
      (expandVal F nn)[slot]? := by
  rw [expandVal_getElem F nn slot hs hFc]
  simp only [rangeVal, hR.get slot hs]
  cases hf : F.getD slot false with
  | true => simp
  | false =>
    obtain ⟨hr, h1, h2⟩ := offs_at F nulls hR (nn.map fun v => v.items.length) (by simpa using hFc) slot hs hf
    have hr' : rank F slot < nn.length := by simpa using hr
    simp only [Bool.false_eq_true, if_false, h1, h2, Nat.add_sub_cancel_left]
    have hx : (nn.map fun v => v.items.length) = (nn.map Val.items).map List.length := by
      simp [List.map_map, Function.comp_def]
    have hr2 : rank F slot < (nn.map Val.items).length := by simpa using hr'
    have hflat : (nn.map Val.items).flatten = nn.flatMap Val.items := by
      simp [List.flatMap_def]
    have hm := mapRange_flatten (serialize cv) (nn.map Val.items)
      (by rw [hflat]; exact hchild) (rank F slot) hr2
    have e1 : (List.take (rank F slot) (nn.map fun v => v.items.length)).sum =
        (((nn.map Val.items).take (rank F slot)).map List.length).sum := by
      rw [hx, List.map_take]
    have e2 : (nn.map fun v => v.items.length)[rank F slot] = ((nn.map Val.items)[rank F slot]).length := by
      simp
    rw [e1, e2, hm]
    simp only [Option.map_some, List.getElem_map, List.getElem?_eq_getElem hr', Val.ofOpt_some,
      Option.some.injEq]
    obtain ⟨xs, hx⟩ := hcont _ (List.getElem_mem hr')
    rw [hx]; simp [Vals.ofList_toList]

end Zed.Vng

namespace Zed.Vng

theorem mapSlot_spec (F : List Bool) (nulls : Bitmap) (hR : Rep nulls F) (nn : List Val)
    (hFc : F.count false = nn.length)
    (hcont : ∀ v ∈ nn, ∃ xs, v = .cont xs ∧ xs.toList.length % 2 = 0) (kv vv : Vec)
    (hk : ∀ j, j < (nn.flatMap fun x => evens x.items).length →
      serialize kv j = (nn.flatMap fun x => evens x.items)[j]?)
    (hv : ∀ j, j < (nn.flatMap fun x => odds x.items).length →
      serialize vv j = (nn.flatMap fun x => odds x.items)[j]?)
    (slot : Nat) (hs : slot < F.length) :
    serialize (.map (offsetsOf F.length 0 0 nulls (nn.map fun x => (odds x.items).length)) kv vv nulls) slot =
      (expandVal F nn)[slot]? := by
  rw [expandVal_getElem F nn slot hs hFc]
  simp only [serialize, hR.get slot hs]
  cases hf : F.getD slot false with
  | true => simp
  | false =>
    obtain ⟨hr, h1, h2⟩ := offs_at F nulls hR (nn.map fun x => (odds x.items).length) (by simpa using hFc) slot hs hf
    have hr' : rank F slot < nn.length := by simpa using hr
    simp only [Bool.false_eq_true, if_false, h1, h2, Nat.add_sub_cancel_left]
    obtain ⟨xs, hx, heven⟩ := hcont _ (List.getElem_mem hr')
    have hlenKV : (nn.map fun x => (evens x.items).length) = nn.map fun x => (odds x.items).length := by
      apply List.map_congr_left
      intro v hv'
      obtain ⟨ys, rfl, he⟩ := hcont v hv'
      exact evens_odds_length _ he
    -- keys
    have hmk := mapRange_flatten (serialize kv) (nn.map fun x => evens x.items)
      (by simpa [List.flatMap_def] using hk) (rank F slot) (by simpa using hr')
    have hmv := mapRange_flatten (serialize vv) (nn.map fun x => odds x.items)
      (by simpa [List.flatMap_def] using hv) (rank F slot) (by simpa using hr')
    have ek : (List.take (rank F slot) (nn.map fun x => (odds x.items).length)).sum =
        (((nn.map fun x => evens x.items).take (rank F slot)).map List.length).sum := by
      rw [← hlenKV, ← List.map_take]; simp [List.map_map, Function.comp_def, List.map_take]
    have ev : (List.take (rank F slot) (nn.map fun x => (odds x.items).length)).sum =
        (((nn.map fun x => odds x.items).take (rank F slot)).map List.length).sum := by
      rw [← List.map_take]; simp [List.map_map, Function.comp_def, List.map_take]
    have lk : (nn.map fun x => (odds x.items).length)[rank F slot] =
        ((nn.map fun x => evens x.items)[rank F slot]'(by simpa using hr')).length := by
      simp only [List.getElem_map]
      rw [hx]; exact (evens_odds_length _ heven).symm
    have lv : (nn.map fun x => (odds x.items).length)[rank F slot] =
        ((nn.map fun x => odds x.items)[rank F slot]'(by simpa using hr')).length := by
      simp
    have rk : mapRange (serialize kv) (List.take (rank F slot) (nn.map fun x => (odds x.items).length)).sum
        ((nn.map fun x => (odds x.items).length)[rank F slot]) = some (evens (nn[rank F slot]).items) := by
      rw [ek, lk, hmk]; simp
    have rv : mapRange (serialize vv) (List.take (rank F slot) (nn.map fun x => (odds x.items).length)).sum
        ((nn.map fun x => (odds x.items).length)[rank F slot]) = some (odds (nn[rank F slot]).items) := by
      rw [ev, lv, hmv]; simp
    simp only [rk, rv, List.getElem?_eq_getElem hr', Val.ofOpt_some, Option.some.injEq]
    rw [hx]
    simp only [Val.items_cont]
    rw [interleaveKV_evens_odds _ heven, Vals.ofList_toList]

end Zed.Vng

namespace Zed.Vng
open Zed.Generated.C03

theorem offsetsOf_len (F : List Bool) (nulls : Bitmap) (lens : List Nat) :
    (offsetsOf F.length 0 0 nulls lens).length - 1 = F.length := by
  rw [offsetsOf_length]; omega

theorem flatMap_conf {t : Ty} {f : Val → List Val} {nn : List Val}
    (h : ∀ v ∈ nn, ∀ x ∈ f v, conforms t x = true) : ∀ x ∈ nn.flatMap f, conforms t x = true := by
  intro x hx
  obtain ⟨v, hv, hx⟩ := List.mem_flatMap.mp hx
  exact h v hv x hx

mutual
theorem loadSpec_all : ∀ t : Ty, LoadSpecG t
  | .prim id => by
    intro vs P Fp hR hlen hconf _
    obtain ⟨own, F, hload, hRF, hFl, hFc, hexp, _⟩ :=
      load_nullsWrap' vs (.prim (.prim id) (primEncode id true ((nonNull vs).map Val.primBytes))) P Fp hR hlen
    have hprim : ∀ v ∈ nonNull vs, ∃ x, v = .prim x := fun v hv =>
      conforms_prim_nonnull (hconf v (mem_nonNull hv).1) (mem_nonNull hv).2
    obtain ⟨v, hv, hty, hlen', hspec⟩ := loadLeaf_spec (.prim id) id (nonNull vs) (flattenNulls P own) F hRF hFc hprim
      rfl
      (by
        intro hn
        have h29 : id = 29 := by
          unfold isNullTy at hn; split at hn
          · rename_i h; cases h; rfl
          · cases hn
        subst h29
        cases hnn : nonNull vs with
        | nil => rfl
        | cons w ws =>
          have hw : w ∈ nonNull vs := by rw [hnn]; simp
          obtain ⟨x, rfl⟩ := hprim w hw
          have := hconf _ (mem_nonNull hw).1
          simp [conforms] at this)
    refine ⟨v, ?_, hty, by rw [hlen', hFl], loadLeaf_errClear _ _ _ _ _ hv, ?_⟩
    · simp only [enc]; rw [hload]; simpa [load] using hv
    · intro slot hs
      rw [hexp]; exact hspec slot (by rw [hFl]; exact hs)
  | .enum _ => by
    intro vs P Fp _ _ _ hok
    simp [okV] at hok
  | .named n t => by
    intro vs P Fp hR hlen hconf hok
    obtain ⟨v, hv, hty, hl, he, hs⟩ := loadSpec_all t vs P Fp hR hlen
      (by simpa [conforms] using hconf) (by simpa [okV] using hok)
    refine ⟨.named n v, by simp [enc, load, hv], by simp [vecType, hty], by simpa [Vec.len] using hl,
      by simpa [Vec.errClear] using he, ?_⟩
    intro slot hslot
    simpa [serialize] using hs slot hslot
  | .error t => by
    intro vs P Fp hR hlen hconf hok
    simp only [okV, Bool.and_eq_true, Bool.not_eq_true'] at hok
    obtain ⟨hpn, hok'⟩ := hok
    have hrep := eq_replicate_of_any_false Fp hpn
    have hc0 : Fp.count true = 0 := (any_eq_false_iff_count Fp).mp hpn
    obtain ⟨hclear, hget⟩ := hR.clear hpn
    obtain ⟨v, hv, hty, hl, he, hs⟩ := loadSpec_all t vs none Fp (by rw [hrep]; exact Rep.none _) hlen
      (by simpa [conforms] using hconf) (by rw [hpn]; exact hok')
    refine ⟨.error v P, ?_, by simp [vecType, hty], by simpa [Vec.len] using hl,
      by simp [Vec.errClear, hclear, he], ?_⟩
    · rw [hc0] at hv ⊢
      simp [enc, load, hv, flattenNulls]
    · intro slot hslot
      simp only [serialize, hget slot, Bool.false_eq_true, if_false]
      exact hs slot hslot
  | .record fs => by
    intro vs P Fp hR hlen hconf hok
    obtain ⟨own, F, hload, hRF, hFl, hFc, hexp, hany⟩ :=
      load_nullsWrap' vs (.record (nonNull vs).length (encFields fs ((nonNull vs).map Val.items))) P Fp hR hlen
    have hnn : ∀ v ∈ nonNull vs, ∃ xs, v = .cont xs ∧ conformsRow fs xs.toList = true :=
      fun v hv => conforms_record_nonnull (hconf v (mem_nonNull hv).1) (mem_nonNull hv).2
    obtain ⟨fvs, hfv, hfty, hfe, hfs⟩ := fieldsSpec_all fs
      ((nonNull vs).map Val.items) (flattenNulls P own) F hRF (by simpa using hFc) (by
        intro r hr
        obtain ⟨v, hv, rfl⟩ := List.mem_map.mp hr
        obtain ⟨xs, rfl, hc⟩ := hnn v hv
        exact hc) (by rw [hany]; simpa [okV] using hok)
    have hL : F.count true + (nonNull vs).length = F.length := by rw [← hFc]; exact count_true_false F
    refine ⟨.record fvs F.length (flattenNulls P own), ?_, by simp [vecType, hfty], by simp [Vec.len, hFl],
      by simpa [Vec.errClear] using hfe, ?_⟩
    · simp only [enc]; rw [hload]; simp only [load, hfv, hL]
    · intro slot hs
      have hs' : slot < F.length := by rw [hFl]; exact hs
      rw [hexp, expandVal_getElem F (nonNull vs) slot hs' hFc]
      simp only [serialize, hRF.get slot hs']
      cases hf : F.getD slot false with
      | true => simp
      | false =>
        have hk := (place_getElem F (nonNull vs) slot hs' hFc).2 hf
        simp only [Bool.false_eq_true, if_false, hfs slot hs' hf, List.getElem?_map,
          List.getElem?_eq_getElem hk, Option.map_some, Val.ofOpt_some, Option.some.injEq]
        obtain ⟨xs, hx, _⟩ := hnn _ (List.getElem_mem hk)
        rw [hx]; simp [Vals.ofList_toList]
  | .array t => by
    intro vs P Fp hR hlen hconf hok
    obtain ⟨own, F, hload, hRF, hFl, hFc, hexp, _⟩ :=
      load_nullsWrap' vs (.array (nonNull vs).length ((nonNull vs).map fun v => v.items.length)
        (enc t ((nonNull vs).flatMap Val.items))) P Fp hR hlen
    have hnn : ∀ v ∈ nonNull vs, ∃ xs, v = .cont xs ∧ ∀ x ∈ xs.toList, conforms t x = true :=
      fun v hv => conforms_array_nonnull (hconf v (mem_nonNull hv).1) (mem_nonNull hv).2
    obtain ⟨cv, hcv, hcty, _, hcs⟩ := childTop (loadSpec_all t) ((nonNull vs).flatMap Val.items)
      (flatMap_conf (fun v hv x hx => by
        obtain ⟨xs, rfl, hc⟩ := hnn v hv
        exact hc x hx)) (by simpa [okV] using hok)
    have hL : F.count true + (nonNull vs).length = F.length := by rw [← hFc]; exact count_true_false F
    refine ⟨.array (offsetsOf F.length 0 0 (flattenNulls P own) ((nonNull vs).map fun v => v.items.length)) cv
        (flattenNulls P own), ?_, by simp [vecType, hcty], ?_, rfl, ?_⟩
    · simp only [enc]; rw [hload]; simp only [load, hcv, hL]
    · simp only [Vec.len]; rw [offsetsOf_len, hFl]
    · intro slot hs
      rw [hexp, serialize_array]
      exact rangeVal_spec F _ hRF (nonNull vs) hFc (fun v hv => let ⟨xs, e, _⟩ := hnn v hv; ⟨xs, e⟩) cv hcs slot
        (by rw [hFl]; exact hs)
  | .set t => by
    intro vs P Fp hR hlen hconf hok
    obtain ⟨own, F, hload, hRF, hFl, hFc, hexp, _⟩ :=
      load_nullsWrap' vs (.set (nonNull vs).length ((nonNull vs).map fun v => v.items.length)
        (enc t ((nonNull vs).flatMap Val.items))) P Fp hR hlen
    have hnn : ∀ v ∈ nonNull vs, ∃ xs, v = .cont xs ∧ ∀ x ∈ xs.toList, conforms t x = true :=
      fun v hv => conforms_set_nonnull (hconf v (mem_nonNull hv).1) (mem_nonNull hv).2
    obtain ⟨cv, hcv, hcty, _, hcs⟩ := childTop (loadSpec_all t) ((nonNull vs).flatMap Val.items)
      (flatMap_conf (fun v hv x hx => by
        obtain ⟨xs, rfl, hc⟩ := hnn v hv
        exact hc x hx)) (by simpa [okV] using hok)
    have hL : F.count true + (nonNull vs).length = F.length := by rw [← hFc]; exact count_true_false F
    refine ⟨.set (offsetsOf F.length 0 0 (flattenNulls P own) ((nonNull vs).map fun v => v.items.length)) cv
        (flattenNulls P own), ?_, by simp [vecType, hcty], ?_, rfl, ?_⟩
    · simp only [enc]; rw [hload]; simp only [load, hcv, hL]
    · simp only [Vec.len]; rw [offsetsOf_len, hFl]
    · intro slot hs
      rw [hexp, serialize_set]
      exact rangeVal_spec F _ hRF (nonNull vs) hFc (fun v hv => let ⟨xs, e, _⟩ := hnn v hv; ⟨xs, e⟩) cv hcs slot
        (by rw [hFl]; exact hs)
  | .map k w => by
    intro vs P Fp hR hlen hconf hok
    obtain ⟨own, F, hload, hRF, hFl, hFc, hexp, _⟩ :=
      load_nullsWrap' vs (.map (nonNull vs).length ((nonNull vs).map fun x => (odds x.items).length)
        (enc k ((nonNull vs).flatMap fun x => evens x.items))
        (enc w ((nonNull vs).flatMap fun x => odds x.items))) P Fp hR hlen
    have hnn : ∀ v ∈ nonNull vs, ∃ xs, v = .cont xs ∧ xs.toList.length % 2 = 0 ∧
        (∀ x ∈ evens xs.toList, conforms k x = true) ∧ (∀ x ∈ odds xs.toList, conforms w x = true) :=
      fun v hv => conforms_map_nonnull (hconf v (mem_nonNull hv).1) (mem_nonNull hv).2
    simp only [okV, Bool.and_eq_true] at hok
    obtain ⟨kv, hkv, hkty, _, hks⟩ := childTop (loadSpec_all k) ((nonNull vs).flatMap fun x => evens x.items)
      (flatMap_conf (fun v hv x hx => by
        obtain ⟨xs, rfl, _, hc, _⟩ := hnn v hv
        exact hc x hx)) hok.1
    obtain ⟨wv, hwv, hwty, _, hws⟩ := childTop (loadSpec_all w) ((nonNull vs).flatMap fun x => odds x.items)
      (flatMap_conf (fun v hv x hx => by
        obtain ⟨xs, rfl, _, _, hc⟩ := hnn v hv
        exact hc x hx)) hok.2
    have hL : F.count true + (nonNull vs).length = F.length := by rw [← hFc]; exact count_true_false F
    refine ⟨.map (offsetsOf F.length 0 0 (flattenNulls P own) ((nonNull vs).map fun x => (odds x.items).length)) kv wv
        (flattenNulls P own), ?_, by simp [vecType, hkty, hwty], ?_, rfl, ?_⟩
    · simp only [enc]; rw [hload]; simp only [load, hkv, hwv, hL]
    · simp only [Vec.len]; rw [offsetsOf_len, hFl]
    · intro slot hs
      rw [hexp]
      exact mapSlot_spec F _ hRF (nonNull vs) hFc (fun v hv => let ⟨xs, e, h2, _⟩ := hnn v hv; ⟨xs, e, h2⟩)
        kv wv hks hws slot (by rw [hFl]; exact hs)
  | .union ts => by
    intro vs P Fp hR hlen hconf hok
    simp only [okV, Bool.and_eq_true, Bool.not_eq_true'] at hok
    obtain ⟨⟨hpn, hvn⟩, hokt⟩ := hok
    obtain ⟨own, F, hload, hRF, hFl, hFc, hexp, hany⟩ :=
      load_nullsWrap' vs (.union (nonNull vs).length ((nonNull vs).map Val.utag)
        (encTys ts 0 ((nonNull vs).map fun x => (x.utag, x.uval)))) P Fp hR hlen
    have hFany : F.any id = false := by rw [hany, hpn, hvn]; rfl
    have hFrep := eq_replicate_of_any_false F hFany
    have hFlen : F.length = (nonNull vs).length := by
      have := count_true_false F
      rw [(any_eq_false_iff_count F).mp hFany] at this; omega
    have hnn : ∀ v ∈ nonNull vs, ∃ tag x, v = .union tag x ∧ conformsTag ts tag x = true :=
      fun v hv => conforms_union_nonnull (hconf v (mem_nonNull hv).1) (mem_nonNull hv).2
    obtain ⟨vvs, hvv, hvty, hvs⟩ := tysSpec_all ts 0 ((nonNull vs).map fun x => (x.utag, x.uval)) (by
      intro p hp _
      obtain ⟨v, hv, rfl⟩ := List.mem_map.mp hp
      obtain ⟨tag, x, rfl, hc⟩ := hnn v hv
      simpa using hc) hokt
    refine ⟨.union ((nonNull vs).map Val.utag) vvs (flattenNulls P own), ?_, by simp [vecType, hvty],
      by simp [Vec.len, ← hFl, hFlen], rfl, ?_⟩
    · simp only [enc]; rw [hload]; simp only [load, hvv]
    · intro slot hs
      have hs' : slot < (nonNull vs).length := by rw [← hFlen, hFl]; exact hs
      rw [hexp, hFrep, hFlen, expandVal_replicate_false]
      obtain ⟨tag, x, hx, hc⟩ := hnn _ (List.getElem_mem hs')
      have hps : slot < ((nonNull vs).map fun x => (x.utag, x.uval)).length := by simpa using hs'
      have hpf := partition_forward ((nonNull vs).map fun x => (x.utag, x.uval)) slot hps
      have hfl := forwardOf_lt ((nonNull vs).map fun x => (x.utag, x.uval)) slot hps
      simp only [List.getElem_map, hx, Val.utag_union, Val.uval_union, List.map_map, Function.comp_def] at hpf hfl
      have := hvs tag (conformsTag_lt hc) _ (by simpa using hfl)
      simp only [Nat.zero_add] at this
      simp only [serialize, List.getElem?_map, List.getElem?_eq_getElem hs', hx, Option.map_some,
        Val.utag_union, this, hpf]

theorem fieldsSpec_all : ∀ fs : Fields, FieldsSpecG fs
  | .nil => by
    intro rows b F hR hlen hconf _
    refine ⟨.nil, rfl, rfl, rfl, ?_⟩
    intro slot hs hf
    have hk := (place_getElem F rows slot hs hlen).2 hf
    have : rows[rank F slot] = [] := conformsRow_nil (hconf _ (List.getElem_mem hk))
    simp [serializeFields, List.getElem?_eq_getElem hk, this]
  | .cons n t rest => by
    intro rows b F hR hlen hconf hok
    simp only [okFields, Bool.and_eq_true] at hok
    obtain ⟨v, hv, hty, _, he, hs⟩ := loadSpec_all t (rows.map headV) b F hR (by simpa using hlen) (by
      intro x hx
      obtain ⟨r, hr, rfl⟩ := List.mem_map.mp hx
      exact (conformsRow_cons (hconf r hr)).2.1) hok.1
    obtain ⟨fvs, hfv, hfty, hfe, hfs⟩ := fieldsSpec_all rest (rows.map List.tail) b F hR (by simpa using hlen) (by
      intro r hr
      obtain ⟨r', hr', rfl⟩ := List.mem_map.mp hr
      exact (conformsRow_cons (hconf r' hr')).2.2) hok.2
    refine ⟨.cons n v fvs, by simp [encFields, loadFields, hv, hfv], by simp [fvecTypes, hty, hfty],
      by simp [FVecs.errClear, he, hfe], ?_⟩
    intro slot hslot hf
    have hk := (place_getElem F rows slot hslot hlen).2 hf
    obtain ⟨e1, _⟩ := expandVal_at_value F (rows.map headV) slot hslot (by simpa using hlen) hf
    simp only [serializeFields, hs slot hslot, e1, hfs slot hslot hf, List.getElem?_map,
      List.getElem?_eq_getElem hk, Option.map_some]
    have hne := (conformsRow_cons (hconf _ (List.getElem_mem hk))).1
    cases hr : rows[rank F slot] with
    | nil => exact absurd hr hne
    | cons x xs => simp [headV]

theorem tysSpec_all : ∀ ts : Tys, TysSpecG ts
  | .nil => by
    intro k ps _ _
    exact ⟨.nil, rfl, rfl, fun j hj => by simp [Tys.length] at hj⟩
  | .cons t rest => by
    intro k ps h hok
    simp only [okTys, Bool.and_eq_true] at hok
    obtain ⟨cv, hcv, hcty, _, hcs⟩ := childTop (loadSpec_all t) (partitionBy k ps) (by
      intro v hv
      simp only [partitionBy, List.mem_map, List.mem_filter] at hv
      obtain ⟨p, ⟨hp, hk⟩, rfl⟩ := hv
      have hk' : p.1 = k := by simpa using hk
      have := h p hp (by omega)
      simpa [hk', conformsTag] using this) hok.1
    obtain ⟨vvs, hvv, hvty, hvs⟩ := tysSpec_all rest (k + 1) ps (by
      intro p hp hk
      have := h p hp (by omega)
      have e : p.1 - k = (p.1 - (k + 1)) + 1 := by omega
      rw [e] at this
      simpa [conformsTag] using this) hok.2
    refine ⟨.cons cv vvs, by simp [encTys, loadCols, hcv, hvv], by simp [vecTypes, hcty, hvty], ?_⟩
    intro j hj i hi
    cases j with
    | zero => simpa [serializeAt] using hcs i (by simpa using hi)
    | succ j =>
      have := hvs j (by simpa [Tys.length] using hj) i (by
        have e : k + 1 + j = k + (j + 1) := by omega
        rw [e]; exact hi)
      have e : k + 1 + j = k + (j + 1) := by omega
      rw [e] at this
      simpa [serializeAt] using this
end

end Zed.Vng

namespace Zed.Vng

/-- top level, whole type tree: the loaded vector has one slot per value, slot `i` serialises
    to the `i`-th value, and materialising it gives the values back with their type. -/
theorem load_top_all (t : Ty) (vs : List Val) (hconf : ∀ v ∈ vs, conforms t v = true)
    (hok : okV t vs false = true) :
    ∃ v, load (enc t vs) none 0 none = some v ∧ vecType v = t ∧ v.len = vs.length ∧
      Vec.wf v = true ∧ Vec.errClear v = true ∧
      (∀ i, i < vs.length → serialize v i = vs[i]?) ∧
      materialize v = some (vs.map fun x => (t, x)) := by
  obtain ⟨v, hv, hty, hl, he, hs⟩ := loadSpec_all t vs none (List.replicate vs.length false)
    (Rep.none _) (by rw [List.count_replicate_self]) hconf (by simpa using hok)
  have hc : (List.replicate vs.length false).count true = 0 := by
    rw [List.count_replicate]; simp
  rw [hc] at hv
  simp only [List.length_replicate, expandVal_replicate_false] at hl hs
  refine ⟨v, hv, hty, hl, load_wf _ _ _ _ v (enc_leafOK t vs) hv, he, hs, ?_⟩
  simp only [materialize, hl, hty]
  rw [mapRange_pointwise (serialize v) vs 0 (by intro i hi; simpa using hs i hi)]
  simp

theorem rewrap_len (ws : List Wrap) (c : Vec) : (Vec.rewrap ws c).len = c.len := by
  induction ws with
  | nil => rfl
  | cons w ws ih => cases w <;> simp [Vec.rewrap, Vec.len, ih]

theorem peel_len : ∀ v : Vec, v.peel.2.len = v.len
  | .named _ v => by simp [Vec.peel, Vec.len, peel_len v]
  | .error v _ => by simp [Vec.peel, Vec.len, peel_len v]
  | .flat _ _ _ => rfl
  | .dict _ _ _ _ => rfl
  | .const _ _ _ _ => rfl
  | .constNull _ => rfl
  | .record _ _ _ => rfl
  | .array _ _ _ => rfl
  | .set _ _ _ => rfl
  | .map _ _ _ _ => rfl
  | .union _ _ _ => rfl
  | .missing _ => rfl

theorem projVec_len (P : Proj) (v : Vec) : (projVec P v).len = v.len := by
  cases P with
  | all => rfl
  | fields fs =>
    simp only [projVec, rewrap_len]
    rw [← peel_len v]
    cases v.peel.2 <;> simp [Vec.len]

/-- **projection, whole type tree**: the projected vectors have the projected type and yield,
    slot by slot, the data of the written value at the requested paths. -/
theorem projection_sound_all (paths : List (List Bytes)) (t : Ty) (vs : List Val)
    (hconf : ∀ v ∈ vs, conforms t v = true) (hok : okV t vs false = true) :
    ∃ v, load (enc t vs) none 0 none = some v ∧
      vecType (projVec (mkProj paths) v) = projTy (mkProj paths) t ∧
      (∀ i, i < vs.length →
        serialize (projVec (mkProj paths) v) i = (vs[i]?).map (projVal (mkProj paths) t)) ∧
      materialize (projVec (mkProj paths) v) = some (vs.map fun x => restrict paths (t, x)) := by
  obtain ⟨v, hv, hty, hl, hwf, hec, hs, _⟩ := load_top_all t vs hconf hok
  obtain ⟨a, b⟩ := pspec (mkProj paths) t v (fun i => i < vs.length) (fun i => vs.getD i .null) hty hwf hec
    (by
      intro i hi
      rw [hs i hi, List.getElem?_eq_getElem hi]
      simp [List.getD_eq_getElem?_getD, List.getElem?_eq_getElem hi])
    (by
      intro i hi
      simp only [List.getD_eq_getElem?_getD, List.getElem?_eq_getElem hi, Option.getD_some]
      exact hconf _ (List.getElem_mem hi))
  have hpt : ∀ i, i < vs.length →
      serialize (projVec (mkProj paths) v) i = (vs[i]?).map (projVal (mkProj paths) t) := by
    intro i hi
    rw [b i hi, List.getElem?_eq_getElem hi]
    simp [List.getD_eq_getElem?_getD, List.getElem?_eq_getElem hi]
  refine ⟨v, hv, a, hpt, ?_⟩
  simp only [materialize, projVec_len, hl, a]
  have := mapRange_pointwise (serialize (projVec (mkProj paths) v)) (vs.map (projVal (mkProj paths) t)) 0 (by
    intro i hi
    simp only [List.length_map] at hi
    simpa [List.getElem?_map] using hpt i hi)
  simp only [List.length_map] at this
  rw [this]
  simp [restrict, List.map_map, Function.comp_def]

/-- … and through `Object.Fetch` + `Materializer` for a single-type object, when the
    projection does not hit the partial-load defect. -/
theorem readVec_single (paths : List (List Bytes)) (t : Ty) (vs : List Val)
    (hconf : ∀ v ∈ vs, conforms t v = true) (hok : okV t vs false = true)
    (hpc : projCrashes (mkProj paths) (enc t vs) = false) :
    readVec paths (.single (enc t vs)) = some (vs.map fun x => restrict paths (t, x)) := by
  obtain ⟨v, hv, _, _, hm⟩ := projection_sound_all paths t vs hconf hok
  simp [readVec, hpc, hv, hm]

end Zed.Vng
