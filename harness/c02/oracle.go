package main

// Direct oracle (S): ParseValue(Format(v)) ≡ v on the real code, for every formatter
// setting and typedef scope.

import (
	"bytes"
	"encoding/json"
	"fmt"
	"regexp"
	"strings"
	h "verifharness/hlib"

	zed "github.com/brimdata/super"
	"github.com/brimdata/super/zio/zsonio"
	"github.com/brimdata/super/zson"
)

type tv struct {
	T *TSpec `json:"t"`
	V *VSpec `json:"v"`
}

// rtCase is one oracle case: a sequence of values written under one configuration.
//
//	mode value    zson.FormatValue(v)                 → zson.ParseValue(fresh context)          per value
//	mode samectx  zson.FormatValue(v)                 → zson.ParseValue(the value's context)    per value; type must be the same pointer
//	mode record   one Formatter, FormatRecord(v)      → zson.ParseValue(fresh context)          per value (typedef scope = value)
//	mode writer   zsonio.Writer{Pretty,Persist}       → zsonio.Reader(fresh context)            sequence
//	mode format   one Formatter, Format(v) (no reset) → zsonio.Reader(fresh context)            sequence (typedef scope = stream)
type rtCase struct {
	Mode    string `json:"mode"`
	Pretty  int    `json:"pretty"`
	Persist string `json:"persist,omitempty"`
	Vals    []tv   `json:"vals"`
}

var rtModes = []string{"value", "samectx", "record", "writer", "format"}

var buildErrSample string

type nopCloser struct{ *bytes.Buffer }

func (nopCloser) Close() error { return nil }

type rtResult struct {
	ok     bool
	panic  bool
	class  string // parse-error | type-mismatch | value-mismatch | count-mismatch | pointer-mismatch | build-error
	detail string
	index  int
	text   string
}

// runRT runs one case on the real code.
func runRT(cs *rtCase) (res rtResult) {
	err, panicked := h.Protect(func() error {
		res = runRT1(cs)
		return nil
	})
	if panicked {
		return rtResult{panic: true, class: "panic", detail: err.Error()}
	}
	return res
}

func runRT1(cs *rtCase) rtResult {
	zctx := zed.NewContext()
	var vals []zed.Value
	var want []string
	for i, x := range cs.Vals {
		v, err := makeValue(zctx, x.T, x.V)
		if err != nil {
			if buildErrSample == "" {
				buildErrSample = err.Error()
			}
			return rtResult{ok: true, class: "build-error", detail: err.Error(), index: i}
		}
		c, err := canonValue(zctx, v, rawPrim)
		if err != nil {
			return rtResult{ok: true, class: "build-error", detail: err.Error(), index: i}
		}
		vals = append(vals, v)
		want = append(want, c)
	}
	var persist *regexp.Regexp
	if cs.Persist != "" {
		persist = regexp.MustCompile(cs.Persist)
	}
	check := func(i int, zc *zed.Context, got zed.Value, text string) *rtResult {
		g, err := canonValue(zc, got, rawPrim)
		if err != nil {
			return &rtResult{class: "value-mismatch", detail: "parsed value is malformed: " + err.Error(), index: i, text: text}
		}
		if g != want[i] {
			cl := "value-mismatch"
			if canonType(got.Type()) != canonType(vals[i].Type()) {
				cl = "type-mismatch"
			}
			return &rtResult{class: cl, detail: fmt.Sprintf("want %s got %s", want[i], g), index: i, text: text}
		}
		return nil
	}
	switch cs.Mode {
	case "value", "samectx", "record":
		f := zson.NewFormatter(cs.Pretty, true, nil)
		for i, v := range vals {
			var text string
			if cs.Mode == "record" {
				text = f.FormatRecord(v)
			} else {
				text = zson.FormatValue(v)
			}
			zc := zctx
			if cs.Mode != "samectx" {
				zc = zed.NewContext()
			}
			got, err := zson.ParseValue(zc, text)
			if err != nil {
				return rtResult{class: "parse-error", detail: err.Error(), index: i, text: text}
			}
			if r := check(i, zc, got, text); r != nil {
				return *r
			}
			if cs.Mode == "samectx" && got.Type() != v.Type() {
				return rtResult{class: "pointer-mismatch", detail: "same context, structurally equal but not the same type", index: i, text: text}
			}
		}
	case "writer", "format":
		var buf bytes.Buffer
		if cs.Mode == "writer" {
			w := zsonio.NewWriter(nopCloser{&buf}, zsonio.WriterOpts{ColorDisabled: true, Pretty: cs.Pretty, Persist: persist})
			for _, v := range vals {
				if err := w.Write(v); err != nil {
					return rtResult{class: "write-error", detail: err.Error()}
				}
			}
			w.Close()
		} else {
			f := zson.NewFormatter(cs.Pretty, true, persist)
			for _, v := range vals {
				buf.WriteString(f.Format(v))
				buf.WriteString("\n")
			}
		}
		text := buf.String()
		zc := zed.NewContext()
		r := zsonio.NewReader(zc, strings.NewReader(text))
		for i := range vals {
			got, err := r.Read()
			if err != nil {
				return rtResult{class: "parse-error", detail: err.Error(), index: i, text: text}
			}
			if got == nil {
				return rtResult{class: "count-mismatch", detail: fmt.Sprintf("stream ended after %d of %d values", i, len(vals)), index: i, text: text}
			}
			if r := check(i, zc, *got, text); r != nil {
				return *r
			}
		}
		got, err := r.Read()
		if err != nil || got != nil {
			return rtResult{class: "count-mismatch", detail: fmt.Sprintf("extra value or error after the last value: %v", err), index: len(vals), text: text}
		}
	default:
		panic("mode " + cs.Mode)
	}
	return rtResult{ok: true}
}

func cloneCase(cs *rtCase) *rtCase {
	b, _ := json.Marshal(cs)
	var out rtCase
	json.Unmarshal(b, &out)
	return &out
}

func cloneT(t *TSpec) *TSpec {
	b, _ := json.Marshal(t)
	var out TSpec
	json.Unmarshal(b, &out)
	return &out
}

func cloneV(v *VSpec) *VSpec {
	b, _ := json.Marshal(v)
	var out VSpec
	json.Unmarshal(b, &out)
	return &out
}
