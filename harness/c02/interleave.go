package main

// interleave: two ZSON streams, each written with a per-stream typedef scope (one Formatter,
// Format without reset, or zsonio.Writer with Persist), that bind the *same type names to
// different types*, read back by two zsonio.Readers that share one zed.Context and are
// advanced alternately.  A bare `(name)` reference in stream A must resolve through reader
// A's own table even though reader B has rebound the name in the shared context in between
// (Analyzer.convertType: `a[name]` first, `zctx.LookupTypeDef` only as a fallback).
// Oracle: every value read equals the value written.  Correspondence: the real analyzers
// against the model's `analyzeil` (own table first, shared context second).

import (
	"bytes"
	"fmt"
	"regexp"
	"strings"
	h "verifharness/hlib"

	zed "github.com/brimdata/super"
	astzed "github.com/brimdata/super/compiler/ast/zed"
	"github.com/brimdata/super/zcode"
	"github.com/brimdata/super/zio/zsonio"
	"github.com/brimdata/super/zson"
)

type ilCase struct {
	Writer  bool    `json:"writer"` // zsonio.Writer{Persist: ".*"} instead of Formatter.Format
	Pretty  int     `json:"pretty"`
	Streams [2][]tv `json:"streams"`
	Order   []int   `json:"order"` // which reader reads next
}

func genIL(c *h.Ctx) *ilCase {
	r := c.Rng
	cs := &ilCase{Writer: r.Intn(2) == 0, Pretty: []int{0, 0, 2, 4}[r.Intn(4)]}
	names := []string{"x", "y", "port"}
	var tries [2]int
	for s := 0; s < 2; s++ {
	retry:
		g := &gen{r: r, noHostle: true, tame: true}
		// named types over plain types: the same names in both streams, different types
		pg := &gen{r: r, plain: true, tame: true}
		for i := 0; i < 1+r.Intn(2); i++ {
			u := pg.genType(1 + r.Intn(2))
			g.pool = append(g.pool, &TSpec{Kind: "named", Name: names[i], Elems: []*TSpec{u}})
		}
		n := 2 + r.Intn(3)
		for i := 0; i < n; i++ {
			t := cloneT(g.pool[r.Intn(len(g.pool))])
			if r.Intn(4) == 0 {
				t = &TSpec{Kind: "record", Fields: []TField{{Name: "a", Type: t}, {Name: "b", Type: cloneT(g.pool[r.Intn(len(g.pool))])}}}
			}
			cs.Streams[s] = append(cs.Streams[s], tv{t, g.genVal(t, 2, []int{0, 0, 2}[r.Intn(3)])})
		}
		// a stream that does not round-trip alone (a recorded defect) is of no use here
		if tries[s] < 20 && !runRT(ilAsRT(cs, s)).ok {
			tries[s]++
			cs.Streams[s] = nil
			goto retry
		}
	}
	a, b := len(cs.Streams[0]), len(cs.Streams[1])
	for a > 0 || b > 0 {
		if b == 0 || (a > 0 && r.Intn(2) == 0) {
			cs.Order = append(cs.Order, 0)
			a--
		} else {
			cs.Order = append(cs.Order, 1)
			b--
		}
	}
	return cs
}

func ilTexts(cs *ilCase, vals [2][]zed.Value) [2]string {
	var out [2]string
	for s := 0; s < 2; s++ {
		var buf bytes.Buffer
		if cs.Writer {
			w := zsonio.NewWriter(nopCloser{&buf}, zsonio.WriterOpts{ColorDisabled: true, Pretty: cs.Pretty, Persist: regexp.MustCompile(".*")})
			for _, v := range vals[s] {
				w.Write(v)
			}
		} else {
			f := zson.NewFormatter(cs.Pretty, true, nil)
			for _, v := range vals[s] {
				buf.WriteString(f.Format(v))
				buf.WriteString("\n")
			}
		}
		out[s] = buf.String()
	}
	return out
}

// runIL: index of the first step whose value differs (or -1), with a description.
func runIL(cs *ilCase) (bad int, class, detail string, texts [2]string, built bool) {
	bad = -1
	var vals [2][]zed.Value
	var want [2][]string
	for s := 0; s < 2; s++ {
		zctx := zed.NewContext()
		for _, x := range cs.Streams[s] {
			v, err := makeValue(zctx, x.T, x.V)
			if err != nil {
				return -1, "build-error", err.Error(), texts, false
			}
			cv, err := canonValue(zctx, v, rawPrim)
			if err != nil {
				return -1, "build-error", err.Error(), texts, false
			}
			vals[s] = append(vals[s], v)
			want[s] = append(want[s], cv)
		}
	}
	err, panicked := h.Protect(func() error {
		texts = ilTexts(cs, vals)
		zc := zed.NewContext()
		readers := [2]*zsonio.Reader{zsonio.NewReader(zc, strings.NewReader(texts[0])), zsonio.NewReader(zc, strings.NewReader(texts[1]))}
		pos := [2]int{}
		for step, s := range cs.Order {
			got, err := readers[s].Read()
			if err != nil || got == nil {
				bad, class, detail = step, "parse-error", fmt.Sprint(err)
				return nil
			}
			g, err := canonValue(zc, *got, rawPrim)
			if err != nil || g != want[s][pos[s]] {
				bad, class = step, "value-mismatch"
				detail = fmt.Sprintf("stream %d value %d: want %s got %s", s, pos[s], clip(want[s][pos[s]], 300), clip(g, 300))
				return nil
			}
			pos[s]++
		}
		return nil
	})
	if panicked {
		return 0, "panic", err.Error(), texts, true
	}
	return bad, class, detail, texts, true
}

func ilAsRT(cs *ilCase, s int) *rtCase {
	mode := "format"
	p := ""
	if cs.Writer {
		mode, p = "writer", ".*"
	}
	return &rtCase{Mode: mode, Pretty: cs.Pretty, Persist: p, Vals: cs.Streams[s]}
}

func interleaveCheck(c *h.Ctx) {
	n := c.N(300, 8000)
	for i := 0; i < n; i++ {
		cs := genIL(c)
		c.Eval("il" + caseKey(cs))
		ilCase1(c, cs)
	}
}

func ilCase1(c *h.Ctx, cs *ilCase) {
	replay := replayObj{Check: "interleave", IL: cs}
	// a stream that does not round-trip on its own is the business of the other sub-checks
	for s := 0; s < 2; s++ {
		rc := ilAsRT(cs, s)
		if r := runRT(rc); !r.ok {
			c.Stat("il:skipped:stream-fails-alone")
			checkRT(c, rc, true)
			return
		}
	}
	bad, class, detail, texts, built := runIL(cs)
	if !built {
		c.Stat("il:skipped:build-error")
		return
	}
	c.Stat("il:cases")
	if bad >= 0 {
		kind := "oracle"
		if class == "panic" {
			kind = "panic"
		}
		c.Fail(kind, "C02:interleave:shared-context-readers", fmt.Sprintf("two readers on one context, step %d: %s: %s; A=%q B=%q", bad, class, detail, clip(texts[0], 200), clip(texts[1], 200)), replay)
		return
	}
	// correspondence: real analyzers vs the model's interleaved analysis
	m := c.Model()
	var asts [2][]astzed.Value
	for s := 0; s < 2; s++ {
		a, err := realASTs([]string{texts[s]}, true, len(cs.Streams[s]))
		if err != nil {
			return
		}
		asts[s] = a
	}
	var steps []string
	pos := [2]int{}
	zc := zed.NewContext()
	an := [2]zson.Analyzer{zson.NewAnalyzer(), zson.NewAnalyzer()}
	builder := zcode.NewBuilder()
	var real []string
	for _, s := range cs.Order {
		a := asts[s][pos[s]]
		pos[s]++
		steps = append(steps, fmt.Sprintf("(%d %s)", s, astValue(a)))
		val, err := an[s].ConvertValue(zc, a)
		if err != nil {
			real = append(real, "(err "+errClass(err)+")")
			break
		}
		zv, err := zson.Build(builder, val)
		if err != nil {
			real = append(real, "(err "+errClass(err)+")")
			break
		}
		sx, _ := canonValue(zc, zv, textPrim)
		real = append(real, "(ok "+sx+")")
	}
	model := splitSexps(m.Call("(C02 analyzeil " + strings.Join(steps, " ") + ")"))
	c.Res.ModelCases++
	for i := range real {
		if i < len(model) && real[i] != model[i] && strings.HasPrefix(real[i], "(err") && strings.HasPrefix(model[i], "(err") {
			// both reject; different reason named (see corr.go)
			c.Stat("il:agree-err-different-class")
			continue
		}
		if i >= len(model) || real[i] != model[i] {
			mm := "<none>"
			if i < len(model) {
				mm = model[i]
			}
			c.Fail("correspondence", "C02:corr:analyze-interleaved", fmt.Sprintf("step %d: real %s, model %s", i, clip(real[i], 300), clip(mm, 300)), replay)
			return
		}
	}
	c.Stat("il:model-agrees")
	// how many bare references crossed a rebinding by the other reader (what the check is for)
	if strings.Contains(texts[0], "(x)") || strings.Contains(texts[1], "(x)") || strings.Contains(texts[0], "(y)") || strings.Contains(texts[1], "(y)") {
		c.Stat("il:has-bare-reference")
	}
}
