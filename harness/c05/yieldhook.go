package main

// Forced schedules of real goroutines through the optional yield hook of zed.Context
// (pending/C05-context-yield: under build tag verif every Lookup* method calls, just before it
// takes the mutex, the Yield method of the expvar "zed.verif.contextYield" if a harness published
// one).  No compile-time dependency: the hook is detected by a probe call.  With it, the
// interleave sub-check additionally runs the REAL LookupByValue of every thread in its own
// goroutine and releases one critical section at a time in the order of the schedule; the names of
// the sections each goroutine enters are compared with the program the model compiled from the
// bytes, and the resulting context and results with the model's runSched.

import (
	"bytes"
	"expvar"
	"fmt"
	"runtime"
	"strconv"
	"strings"
	"sync"

	zed "github.com/brimdata/super"
)

type yieldGate struct {
	mu      sync.Mutex
	zc      any
	workers map[int64]*yieldWorker // by goroutine id
	probe   *int
}

type yieldWorker struct {
	arrive chan string   // the worker reached a yield point (site) or finished ("")
	resume chan struct{} // the scheduler lets it enter the critical section
}

func (g *yieldGate) String() string { return `"verif"` }

func goid() int64 {
	var buf [64]byte
	b := buf[:runtime.Stack(buf[:], false)]
	b = bytes.TrimPrefix(b, []byte("goroutine "))
	if i := bytes.IndexByte(b, ' '); i > 0 {
		n, _ := strconv.ParseInt(string(b[:i]), 10, 64)
		return n
	}
	return -1
}

// Yield is what the hook calls.
func (g *yieldGate) Yield(c any, site string) {
	g.mu.Lock()
	if g.probe != nil {
		*g.probe++
	}
	var w *yieldWorker
	if c == g.zc {
		w = g.workers[goid()]
	}
	g.mu.Unlock()
	if w == nil {
		return
	}
	w.arrive <- site
	<-w.resume
}

var theGate *yieldGate
var gateOnce sync.Once
var gatePresent bool

// hookPresent publishes the gate and finds out whether zed.Context calls it.
func hookPresent() bool {
	gateOnce.Do(func() {
		theGate = &yieldGate{}
		expvar.Publish("zed.verif.contextYield", theGate)
		n := 0
		theGate.probe = &n
		zed.NewContext().LookupTypeArray(zed.TypeInt64)
		theGate.mu.Lock()
		theGate.probe = nil
		theGate.mu.Unlock()
		gatePresent = n > 0
	})
	return gatePresent
}

var siteOf = map[string]string{"arr": "LookupTypeArray", "set": "LookupTypeSet", "err": "LookupTypeError", "map": "LookupTypeMap",
	"u": "LookupTypeUnion", "e": "LookupTypeEnum", "r": "LookupTypeRecord", "n": "LookupTypeNamed", "f": "LookupTypeDef"}

func instrSite(in string) string {
	if s, ok := siteOf[in]; ok {
		return s
	}
	if i := strings.IndexByte(in, ':'); i > 0 {
		return siteOf[in[:i]]
	}
	if strings.HasPrefix(in, "u") {
		return "LookupTypeUnion"
	}
	return ""
}

// runHooked runs one real LookupByValue per thread, each in its own goroutine, letting exactly one
// critical section run at a time in the order of sched.  It returns the results, the context and
// the first disagreement between the sections entered and the model's programs.
func runHooked(tvs [][]byte, progs [][]string, sched []int) (res []zed.Type, failed []bool, zc *zed.Context, err error) {
	g := theGate
	zc = zed.NewContext()
	n := len(tvs)
	res = make([]zed.Type, n)
	failed = make([]bool, n)
	ws := make([]*yieldWorker, n)
	ready := make(chan struct{})
	g.mu.Lock()
	g.zc = zc
	g.workers = map[int64]*yieldWorker{}
	g.mu.Unlock()
	for i := range tvs {
		ws[i] = &yieldWorker{arrive: make(chan string), resume: make(chan struct{})}
		go func(i int) {
			g.mu.Lock()
			g.workers[goid()] = ws[i]
			g.mu.Unlock()
			ready <- struct{}{}
			<-ws[i].resume // start signal
			t, e := zc.LookupByValue(tvs[i])
			if e != nil {
				failed[i] = true
			} else {
				res[i] = t
			}
			ws[i].arrive <- ""
		}(i)
	}
	for range tvs {
		<-ready
	}
	// bring every worker to its first yield point (the probe)
	at := make([]string, n) // the site the worker is blocked at, "" = finished
	for i := range tvs {
		ws[i].resume <- struct{}{}
		at[i] = <-ws[i].arrive
		if at[i] != "LookupByValue.probe" && err == nil {
			err = fmt.Errorf("thread %d: first critical section is %q", i, at[i])
		}
	}
	phase := make([]int, n) // 0 probe, 1 run
	pc := make([]int, n)
	step := func(i int, want string) {
		if at[i] != want && err == nil {
			err = fmt.Errorf("thread %d: the model's program is at %s, the goroutine enters %q", i, want, at[i])
		}
		ws[i].resume <- struct{}{}
		at[i] = <-ws[i].arrive
	}
	for _, s := range sched {
		if s < 0 || s >= n || at[s] == "" {
			continue
		}
		switch {
		case phase[s] == 0:
			phase[s] = 1
			step(s, "LookupByValue.probe")
		case pc[s] < len(progs[s]):
			in := progs[s][pc[s]]
			pc[s]++
			if site := instrSite(in); site != "" {
				if in[0] == 'n' && at[s] != site {
					// LookupTypeNamed rejects a bad name before it takes the mutex: the goroutine is
					// already past it (finished or elsewhere); nothing to release
					continue
				}
				step(s, site)
			}
			// a primitive is a thread-local step: nothing to release
		default:
			step(s, "LookupByValue.store")
		}
	}
	// drain (a schedule that does not finish every thread)
	for i := range tvs {
		for at[i] != "" {
			ws[i].resume <- struct{}{}
			at[i] = <-ws[i].arrive
		}
	}
	g.mu.Lock()
	g.zc, g.workers = nil, nil
	g.mu.Unlock()
	return res, failed, zc, err
}
