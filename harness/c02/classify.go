package main

// Narrow classification of a *minimized* failing round-trip case.  A class is reported only
// when both the failure signature of the real code and the structural feature that triggers
// it are present in the minimal case; everything else is "unexplained" (a VIOLATION).

import (
	"regexp"
	"strings"
)

type feat struct {
	tvNames              map[string]string // names bound inside type values
	bareEmpty            bool              // a non-null empty array/set/map that is the whole value or sits directly under named/error
	namedEnum            bool              // a non-null value of enum type under a name
	namedOverSameName    bool              // named n over named n
	namedUnionContainer  bool              // named over array/set/map whose element/key/value type is a union (under names)
	namedInsideContainer bool              // a named type below a container/union/record (defined inside the value)
	unionField           bool              // a record field of union type (under names)
	anyNamed             bool
	sameNameTwoTypes     bool // one type name bound to two different types in the case
	namedUnionMember     bool // a union with a named member
	typeValueRebinds     bool // a type value binds a name that the values bind to another type
	namedAndBareMember   bool // a union with members n=T and T
	namedRepeated        bool // the same named type occurs more than once
	namedOverNamed       bool // a named type directly over another named type
}

func underSpec(t *TSpec) *TSpec {
	for t.Kind == "named" {
		t = t.Elems[0]
	}
	return t
}

func (f *feat) walkType(t *TSpec, depth int, names map[string]string) {
	switch t.Kind {
	case "named":
		f.anyNamed = true
		if depth > 0 {
			f.namedInsideContainer = true
		}
		d := t.Elems[0].Descr()
		if old, ok := names[t.Name]; ok && old != d {
			f.sameNameTwoTypes = true
		} else if ok {
			f.namedRepeated = true
		}
		names[t.Name] = d
		if t.Elems[0].Kind == "named" && t.Elems[0].Name == t.Name {
			f.namedOverSameName = true
		}
		if t.Elems[0].Kind == "named" {
			f.namedOverNamed = true
		}
		u := underSpec(t)
		switch u.Kind {
		case "array", "set", "map":
			for _, e := range u.Elems {
				if underSpec(e).Kind == "union" {
					f.namedUnionContainer = true
				}
			}
		}
		f.walkType(t.Elems[0], depth, names)
		return
	case "record":
		for _, fl := range t.Fields {
			if underSpec(fl.Type).Kind == "union" {
				f.unionField = true
			}
			f.walkType(fl.Type, depth+1, names)
		}
	default:
		if t.Kind == "union" {
			for _, e := range t.Elems {
				if e.Kind == "named" {
					f.namedUnionMember = true
					for _, o := range t.Elems {
						if o.Canon() == underSpec(e).Canon() {
							f.namedAndBareMember = true
						}
					}
				}
			}
		}
		for _, e := range t.Elems {
			d := depth + 1
			if t.Kind == "error" {
				d = depth
			}
			f.walkType(e, d, names)
		}
	}
}

func (f *feat) walkVal(t *TSpec, v *VSpec, undecorated bool) {
	if v == nil || v.Null {
		return
	}
	switch t.Kind {
	case "named":
		if underSpec(t).Kind == "enum" {
			f.namedEnum = true
		}
		f.walkVal(t.Elems[0], v, true)
	case "error":
		f.walkVal(t.Elems[0], v, true)
	case "array", "set":
		if len(v.Elems) == 0 && undecorated {
			f.bareEmpty = true
		}
		for _, e := range v.Elems {
			f.walkVal(t.Elems[0], e, false)
		}
	case "map":
		if len(v.Elems) == 0 && undecorated {
			f.bareEmpty = true
		}
		for i, e := range v.Elems {
			f.walkVal(t.Elems[i%2], e, false)
		}
	case "record":
		for i, fl := range t.Fields {
			if i < len(v.Elems) {
				f.walkVal(fl.Type, v.Elems[i], false)
			}
		}
	case "union":
		if v.Tag < len(t.Elems) && len(v.Elems) == 1 {
			f.walkVal(t.Elems[v.Tag], v.Elems[0], false)
		}
	case "prim":
		if t.ID == idType && v.T != nil {
			g := &feat{}
			g.walkType(v.T, 1, f.tvNames)
			f.anyNamed = f.anyNamed || g.anyNamed
		}
	}
}

func caseFeatures(cs *rtCase) *feat {
	f := &feat{tvNames: map[string]string{}}
	names := map[string]string{}
	for _, x := range cs.Vals {
		f.walkType(x.T, 0, names)
		f.walkVal(x.T, x.V, true)
	}
	for n, d := range f.tvNames {
		if old, ok := names[n]; ok && old != d {
			f.typeValueRebinds = true
		}
	}
	return f
}

var notInUnionRE = regexp.MustCompile(`type "(.*)" is not in union type "(.*)"$`)

func classifyRT(cs *rtCase, res rtResult) string {
	const p = "C02:roundtrip:"
	hz := caseHazards(cs)
	if len(hz.prim) > 0 {
		return p + hz.prim[0]
	}
	if len(hz.typeName) > 0 {
		return p + hz.typeName[0]
	}
	if hz.enumSym {
		return p + "enum-symbol-not-identifier"
	}
	f := caseFeatures(cs)
	msg := res.detail
	switch {
	case res.class == "parse-error" && strings.HasPrefix(msg, "enum value is not of type enum") && f.namedEnum:
		return p + "named-enum-value"
	case res.class == "parse-error" && strings.Contains(msg, "unknown ast type in Analyzer.convertAny(): <nil>") && f.namedUnionContainer:
		return p + "named-partial-union-container"
	case res.class == "parse-error" && strings.HasPrefix(msg, "no such type name") && f.namedInsideContainer:
		return p + "typedef-in-value-used-by-decorator"
	case f.bareEmpty && (res.class == "type-mismatch" || res.class == "value-mismatch" ||
		(res.class == "parse-error" && (strings.Contains(msg, "null") || notInUnionRE.MatchString(msg) ||
			strings.Contains(msg, "decorator not of type") || strings.Contains(msg, "decorator conflict")))):
		// read back as a container of nulls: the wrong type, or an error where that type is
		// then combined with the right one (a later element, the enclosing union, a name)
		return p + "empty-container-undecorated"
	case f.namedUnionContainer && f.namedRepeated && !f.sameNameTwoTypes &&
		((res.class == "parse-error" && notInUnionRE.MatchString(msg)) || res.class == "value-mismatch"):
		// a later occurrence of a named container of union elements: the elements are written
		// with known=true, i.e. without the member decorators the analyzer needs
		return p + "known-name-union-elements-undecorated"
	case res.class == "parse-error" && f.unionField && notInUnionSame(msg):
		return p + "union-field-under-decorator"
	case res.class == "parse-error" && f.namedUnionMember && notInUnionNamedMember(msg):
		return p + "short-typedef-under-decorator"
	case res.class == "parse-error" && f.anyNamed && conflictDoubleName(msg):
		return p + "short-typedef-under-decorator"
	case res.class == "value-mismatch" && f.namedAndBareMember:
		// the same mechanism when the union also has the bare type: the value is tagged as
		// the bare member instead of the named one
		return p + "short-typedef-under-decorator"
	case res.class == "type-mismatch" && f.namedOverSameName:
		return p + "named-over-same-name"
	case res.class == "type-mismatch" && f.namedOverNamed && !f.sameNameTwoTypes:
		// the same mechanism with two different names: `v(=z)` for z=(y=T) reads back as z=T
		return p + "named-over-named"
	case (res.class == "type-mismatch" || res.class == "value-mismatch" || res.class == "parse-error") && f.typeValueRebinds:
		return p + "type-value-rebinds-name"
	case (res.class == "type-mismatch" || res.class == "value-mismatch" || res.class == "parse-error") && f.sameNameTwoTypes:
		return p + "same-name-two-types"
	}
	return p + "unexplained:" + cs.Mode + ":" + res.class
}

func notInUnionSame(msg string) bool {
	m := notInUnionRE.FindStringSubmatch(msg)
	return m != nil && m[1] == m[2]
}

// the value's bare type is reported missing from a union that has it as a *named* member.
func notInUnionNamedMember(msg string) bool {
	m := notInUnionRE.FindStringSubmatch(msg)
	return m != nil && m[1] != m[2] && strings.Contains(m[2], "="+m[1])
}

var conflictRE = regexp.MustCompile(`decorator conflict enclosing context "(.*)" and decorator cast "(.*)"$`)

// "x=T" against "x=x=T": a short-form typedef `(=x)` applied to a value that the enclosing
// decorator had already given the type x.
func conflictDoubleName(msg string) bool {
	m := conflictRE.FindStringSubmatch(msg)
	if m == nil {
		return false
	}
	a, b := m[1], m[2]
	i := strings.Index(a, "=")
	return i > 0 && b == a[:i+1]+a
}
