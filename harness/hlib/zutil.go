package hlib

import (
	"context"
	"fmt"
	"os"
	"sort"
	"strings"
	"time"

	zed "github.com/brimdata/super"
	"github.com/brimdata/super/api"
	"github.com/brimdata/super/compiler"
	"github.com/brimdata/super/lake"
	lakeapi "github.com/brimdata/super/lake/api"
	"github.com/brimdata/super/lakeparse"
	"github.com/brimdata/super/order"
	"github.com/brimdata/super/runtime"
	"github.com/brimdata/super/zbuf"
	"github.com/brimdata/super/zio"
	"github.com/brimdata/super/zio/zsonio"
	"github.com/brimdata/super/zson"
	"github.com/segmentio/ksuid"
	"go.uber.org/zap"
)

// ---- plain (non-lake) queries ------------------------------------------------------

// PullAll drains a puller into ZSON strings, one per value, in output order.
func PullAll(p zbuf.Puller) ([]string, error) {
	var out []string
	for {
		b, err := p.Pull(false)
		if err != nil {
			return out, err
		}
		if b == nil {
			return out, nil
		}
		for _, v := range b.Values() {
			out = append(out, zson.FormatValue(v))
		}
		b.Unref()
	}
}

// QueryZSON runs program q over the ZSON text input with the real runtime (optimized plan).
func QueryZSON(q, input string) (out []string, err error) {
	e, _ := Protect(func() error {
		zctx := zed.NewContext()
		ast, sset, err := compiler.Parse(q)
		if err != nil {
			return err
		}
		r := zsonio.NewReader(zctx, strings.NewReader(input))
		ctx, cancel := context.WithTimeout(context.Background(), 60*time.Second)
		defer cancel()
		query, err := runtime.CompileQuery(ctx, zctx, compiler.NewCompiler(), ast, sset, []zio.Reader{r})
		if err != nil {
			return err
		}
		defer query.Pull(true)
		out, err = PullAll(query)
		return err
	})
	return out, e
}

func SortedCopy(xs []string) []string {
	ys := append([]string(nil), xs...)
	sort.Strings(ys)
	return ys
}

func SameMultiset(a, b []string) bool {
	if len(a) != len(b) {
		return false
	}
	x, y := SortedCopy(a), SortedCopy(b)
	for i := range x {
		if x[i] != y[i] {
			return false
		}
	}
	return true
}

func SameSeq(a, b []string) bool {
	if len(a) != len(b) {
		return false
	}
	for i := range a {
		if a[i] != b[i] {
			return false
		}
	}
	return true
}

// ---- lakes --------------------------------------------------------------------------

// TLake is a throw-away lake on the local file system under $TMPDIR.
type TLake struct {
	Dir  string
	LK   lakeapi.Interface
	Root *lake.Root
}

func NewTLake() (*TLake, error) {
	dir, err := os.MkdirTemp("", "zvh-lake-")
	if err != nil {
		return nil, err
	}
	lk, err := lakeapi.CreateLocalLake(context.Background(), zap.NewNop(), dir)
	if err != nil {
		os.RemoveAll(dir)
		return nil, err
	}
	return &TLake{Dir: dir, LK: lk, Root: lk.Root()}, nil
}

func (l *TLake) Close() { os.RemoveAll(l.Dir) }

// Reopen returns a fresh handle (cold caches) on the same storage.
func (l *TLake) Reopen() (*TLake, error) {
	lk, err := lakeapi.OpenLocalLake(context.Background(), zap.NewNop(), l.Dir)
	if err != nil {
		return nil, err
	}
	return &TLake{Dir: l.Dir, LK: lk, Root: lk.Root()}, nil
}

// CreatePool: key like "k" or "a.b" or "this"; desc selects descending order.
func (l *TLake) CreatePool(name, key string, desc bool, seekStride int, thresh int64) (ksuid.KSUID, error) {
	spec := key
	if desc {
		spec += ":desc"
	} else {
		spec += ":asc"
	}
	sk, err := order.ParseSortKeys(spec)
	if err != nil {
		return ksuid.Nil, err
	}
	return l.LK.CreatePool(context.Background(), name, sk, seekStride, thresh)
}

// LoadZSON loads the ZSON text as one load operation (one commit; one or more objects
// depending on the pool threshold).
func (l *TLake) LoadZSON(pool ksuid.KSUID, branch, text string) (ksuid.KSUID, error) {
	zctx := zed.NewContext()
	r := zsonio.NewReader(zctx, strings.NewReader(text))
	return l.LK.Load(context.Background(), zctx, pool, branch, r, api.CommitMessage{Author: "verif", Body: "load"})
}

// Query runs a lake query with the default parallelism and returns ZSON strings in order.
func (l *TLake) Query(q string) ([]string, error) { return l.QueryAt(nil, q) }

func (l *TLake) QueryAt(head *lakeparse.Commitish, q string) (out []string, err error) {
	e, _ := Protect(func() error {
		ctx, cancel := context.WithTimeout(context.Background(), 120*time.Second)
		defer cancel()
		query, err := l.LK.Query(ctx, head, q)
		if err != nil {
			return err
		}
		defer query.Pull(true)
		out, err = PullAll(query)
		return err
	})
	return out, e
}

// QueryP runs a lake query at an explicit parallelism.
func (l *TLake) QueryP(q string, parallelism int) (out []string, err error) {
	e, _ := Protect(func() error {
		ctx, cancel := context.WithTimeout(context.Background(), 120*time.Second)
		defer cancel()
		ast, _, err := compiler.Parse(q)
		if err != nil {
			return err
		}
		rctx := runtime.NewContext(ctx, zed.NewContext())
		defer rctx.Cancel()
		query, err := compiler.NewLakeCompiler(l.Root).NewLakeQuery(rctx, ast, parallelism, nil)
		if err != nil {
			return err
		}
		defer query.Pull(true)
		out, err = PullAll(query)
		return err
	})
	return out, e
}

func (l *TLake) DeleteWhere(pool ksuid.KSUID, branch, pred string) (ksuid.KSUID, error) {
	var id ksuid.KSUID
	e, _ := Protect(func() error {
		var err error
		id, err = l.LK.DeleteWhere(context.Background(), pool, branch, pred, api.CommitMessage{Author: "verif", Body: "delete where"})
		return err
	})
	return id, e
}

// ObjectIDs lists the data object ids of pool@branch in lister order.
func (l *TLake) ObjectIDs(pool, branch string) ([]string, error) {
	return l.Query(fmt.Sprintf("from %s@%s:objects | yield ksuid(id)", pool, branch))
}

func ZsonQuoteString(s string) string { return zson.QuotedString([]byte(s)) }

// MsDiff returns up to n elements of a that are not in b (as multisets).
func MsDiff(a, b []string, n int) []string {
	cnt := map[string]int{}
	for _, x := range b {
		cnt[x]++
	}
	var out []string
	for _, x := range a {
		if cnt[x] > 0 {
			cnt[x]--
			continue
		}
		if len(out) < n {
			out = append(out, x)
		}
	}
	return out
}

// MsDiffAll is the multiset difference a - b.
func MsDiffAll(a, b []string) []string { return MsDiff(a, b, len(a)) }
