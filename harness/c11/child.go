package main

// Child process of the C11 harness: runs the real code on one untrusted input at a time and
// reports the outcome class.  It is a separate process because a panic in a scanner goroutine,
// a Go "fatal error" or a runaway allocation would otherwise take the harness down; when the
// child dies the parent records a crash for the job that was running.

import (
	"bufio"
	"bytes"
	"context"
	"encoding/hex"
	"encoding/json"
	"fmt"
	"io"
	"os"
	"runtime"
	"runtime/debug"
	"strings"
	"time"
	. "verifharness/hlib"

	zed "github.com/brimdata/super"
	"github.com/brimdata/super/compiler"
	zruntime "github.com/brimdata/super/runtime"
	"github.com/brimdata/super/vng"
	"github.com/brimdata/super/zio"
	"github.com/brimdata/super/zio/anyio"
	"github.com/brimdata/super/zio/vngio"
	"github.com/brimdata/super/zio/zngio"
	"github.com/brimdata/super/zson"
)

type job struct {
	ID       int    `json:"id"`
	Kind     string `json:"kind"` // zng | typevalue | validate | vng | vnghdr | text | query
	Format   string `json:"format,omitempty"`
	Family   string `json:"family,omitempty"` // text: the format the input was derived from
	Data     string `json:"data"`             // hex
	TypeVal  string `json:"typeval,omitempty"`
	Threads  int    `json:"threads,omitempty"`
	Size     int    `json:"size,omitempty"`
	Max      int    `json:"max,omitempty"`
	Validate bool   `json:"validate,omitempty"`
	Scan     bool   `json:"scan,omitempty"`
	Chunk    int    `json:"chunk,omitempty"`
	WantVals bool   `json:"want_vals,omitempty"`
	// NoConsume: validate jobs: do not hand the accepted value to a consumer
	NoConsume bool `json:"no_consume,omitempty"`
}

type valJ struct {
	Ty   string `json:"t"`
	Body string `json:"b"`
	Null bool   `json:"n,omitempty"`
}

type result struct {
	ID     int    `json:"id"`
	Class  string `json:"class"` // values | error | panic
	N      int    `json:"n"`
	Vals   []valJ `json:"vals,omitempty"`
	Err    string `json:"err,omitempty"`
	Alloc  uint64 `json:"alloc"`
	Leak   int    `json:"leak"`
	Ms     int64  `json:"ms"`
	Accept bool   `json:"accept,omitempty"`
	// After: what a consumer of an accepted value did (validate jobs): "" | "ok" | "panic: …"
	After   string `json:"after,omitempty"`
	AfterFn string `json:"after_fn,omitempty"`
}

func childMain() {
	debug.SetGCPercent(100)
	in := bufio.NewReaderSize(os.Stdin, 1<<20)
	out := bufio.NewWriterSize(os.Stdout, 1<<20)
	for {
		line, err := in.ReadBytes('\n')
		if len(line) == 0 && err != nil {
			return
		}
		var j job
		if e := json.Unmarshal(line, &j); e != nil {
			fmt.Fprintln(os.Stderr, "child: bad job:", e)
			os.Exit(3)
		}
		r := runJob(&j)
		b, _ := json.Marshal(&r)
		out.Write(b)
		out.WriteByte('\n')
		out.Flush()
		if err != nil {
			return
		}
	}
}

func runJob(j *job) result {
	data, _ := hex.DecodeString(j.Data)
	base := runtime.NumGoroutine()
	var ms runtime.MemStats
	runtime.ReadMemStats(&ms)
	before := ms.TotalAlloc
	start := time.Now()
	r := result{ID: j.ID}
	err, panicked := Protect(func() error {
		switch j.Kind {
		case "zng":
			return jobZNG(j, data, &r)
		case "typevalue":
			zctx := zed.NewContext()
			typ, err := zctx.LookupByValue(data)
			if err == nil {
				r.After = TySexp(typ)
			}
			return err
		case "validate":
			return jobValidate(j, data, &r)
		case "vng":
			return jobVNG(data, &r)
		case "vnghdr":
			var h vng.Header
			err := h.Deserialize(data)
			if err == nil {
				r.After = fmt.Sprintf("meta=%d data=%d", h.MetaSize, h.DataSize)
			}
			return err
		case "text":
			return jobText(j, data, &r)
		case "query":
			return jobQuery(string(data))
		}
		return fmt.Errorf("unknown job kind %q", j.Kind)
	})
	r.Ms = time.Since(start).Milliseconds()
	switch {
	case panicked:
		r.Class = "panic"
		r.Err = trimErr(err.Error(), 1500)
	case err != nil:
		r.Class = "error"
		r.Err = trimErr(err.Error(), 300)
	default:
		r.Class = "values"
	}
	runtime.ReadMemStats(&ms)
	r.Alloc = ms.TotalAlloc - before
	// goroutines left behind
	for i := 0; i < 60; i++ {
		if runtime.NumGoroutine() <= base {
			break
		}
		time.Sleep(time.Duration(1+i) * time.Millisecond)
	}
	if n := runtime.NumGoroutine() - base; n > 0 {
		r.Leak = n
	}
	return r
}

func trimErr(s string, n int) string {
	if len(s) > n {
		return s[:n]
	}
	return s
}

func jobZNG(j *job, data []byte, r *result) error {
	vals, err := ZngReadAll(zed.NewContext(), data, ZReadOpts{
		Opts: zngio.ReaderOpts{Validate: j.Validate, Size: j.Size, Max: j.Max, Threads: j.Threads},
		Scan: j.Scan, Chunk: j.Chunk})
	r.N = len(vals)
	if j.WantVals {
		for _, v := range vals {
			r.Vals = append(r.Vals, valJ{v.Ty, HexAtom(v.Body), v.Null})
		}
	}
	return err
}

func jobValidate(j *job, body []byte, r *result) error {
	tv, _ := hex.DecodeString(j.TypeVal)
	zctx := zed.NewContext()
	typ, err := zctx.LookupByValue(tv)
	if err != nil {
		return fmt.Errorf("harness: bad type value: %w", err)
	}
	var b []byte
	if j.Format != "null" {
		b = body
		if b == nil {
			b = []byte{}
		}
	}
	val := zed.NewValue(typ, b)
	if err := val.Validate(); err != nil {
		return err
	}
	r.Accept = true
	if j.NoConsume {
		r.After = "not-consumed"
		return nil
	}
	// a consumer of the validated value: the ZSON formatter walks the whole value
	perr, panicked := Protect(func() error { _ = zson.FormatValue(val); return nil })
	if panicked {
		r.After = "panic: " + trimErr(perr.Error(), 300)
		r.AfterFn = topRepoFrame(perr.Error())
	} else {
		r.After = "ok"
	}
	return nil
}

func jobVNG(data []byte, r *result) error {
	zr, err := vngio.NewReader(zed.NewContext(), bytes.NewReader(data), nil)
	if err != nil {
		return err
	}
	for {
		v, err := zr.Read()
		if err != nil {
			return err
		}
		if v == nil {
			return nil
		}
		r.N++
		if r.N > 1_000_000 {
			return fmt.Errorf("harness: more than 10^6 values")
		}
	}
}

func jobText(j *job, data []byte, r *result) error {
	zctx := zed.NewContext()
	opts := anyio.ReaderOpts{Format: j.Format, ZNG: zngio.ReaderOpts{Validate: true, Threads: 1}}
	var src io.Reader = bytes.NewReader(data) // seekable: auto-detection tries parquet and vng too
	zr, err := anyio.NewReaderWithOpts(zctx, src, nil, opts)
	if err != nil {
		return err
	}
	defer zr.Close()
	for {
		v, err := zr.Read()
		if err != nil {
			return err
		}
		if v == nil {
			return nil
		}
		r.N++
		// a value handed out by a reader must be formattable
		_ = zson.FormatValue(*v)
		if r.N > 1_000_000 {
			return fmt.Errorf("harness: more than 10^6 values")
		}
	}
}

type emptyReader struct{}

func (emptyReader) Read() (*zed.Value, error) { return nil, nil }

func jobQuery(q string) error {
	ast, sset, err := compiler.Parse(q)
	if err != nil {
		return err
	}
	ctx, cancel := context.WithTimeout(context.Background(), 5*time.Second)
	defer cancel()
	query, err := zruntime.CompileQuery(ctx, zed.NewContext(), compiler.NewCompiler(), ast, sset, []zio.Reader{emptyReader{}})
	if err != nil {
		return err
	}
	defer query.Pull(true)
	for {
		b, err := query.Pull(false)
		if err != nil {
			return err
		}
		if b == nil {
			return nil
		}
		b.Unref()
	}
}

var _ = strings.TrimSpace
