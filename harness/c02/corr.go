package main

// T2 — correspondence between the real code and the Lean model, in two halves around the
// abstract syntax:
//
//	(a) fmt      real Formatter → real Lexer+Parser → AST   ==   model `fmt` (AST)
//	(b) analyze  real Analyzer + Build on that AST           ==   model `analyze` on the same AST
//	(c) rt       the model's own round trip says "ok" for every value the real round trip
//	             returns unchanged, and whenever the model's round trip fails the real one fails

import (
	"bytes"
	"fmt"
	"regexp"
	"strings"
	h "verifharness/hlib"

	zed "github.com/brimdata/super"
	astzed "github.com/brimdata/super/compiler/ast/zed"
	"github.com/brimdata/super/zcode"
	"github.com/brimdata/super/zio/zsonio"
	"github.com/brimdata/super/zson"
)

// splitSexps splits "(a b) (c)" at top level.
func splitSexps(s string) []string {
	s = strings.TrimSpace(s)
	if len(s) < 2 || s[0] != '(' || s[len(s)-1] != ')' {
		return nil
	}
	s = s[1 : len(s)-1]
	var out []string
	depth, start := 0, -1
	for i := 0; i < len(s); i++ {
		switch s[i] {
		case '(':
			if depth == 0 && start < 0 {
				start = i
			}
			depth++
		case ')':
			depth--
			if depth == 0 {
				out = append(out, s[start:i+1])
				start = -1
			}
		case ' ':
			if depth == 0 && start >= 0 {
				out = append(out, s[start:i])
				start = -1
			}
		default:
			if depth == 0 && start < 0 {
				start = i
			}
		}
	}
	if start >= 0 {
		out = append(out, s[start:])
	}
	return out
}

// realTexts formats the values of the case the way its mode says: one text per value for
// the per-value modes, one text for the stream modes.
func realTexts(cs *rtCase, vals []zed.Value) (texts []string, stream bool) {
	var persist *regexp.Regexp
	if cs.Persist != "" {
		persist = regexp.MustCompile(cs.Persist)
	}
	switch cs.Mode {
	case "value", "samectx":
		for _, v := range vals {
			texts = append(texts, zson.FormatValue(v))
		}
	case "record":
		f := zson.NewFormatter(cs.Pretty, true, nil)
		for _, v := range vals {
			texts = append(texts, f.FormatRecord(v))
		}
	case "writer":
		var buf bytes.Buffer
		w := zsonio.NewWriter(nopCloser{&buf}, zsonio.WriterOpts{ColorDisabled: true, Pretty: cs.Pretty, Persist: persist})
		for _, v := range vals {
			w.Write(v)
		}
		return []string{buf.String()}, true
	case "format":
		f := zson.NewFormatter(cs.Pretty, true, persist)
		var buf bytes.Buffer
		for _, v := range vals {
			buf.WriteString(f.Format(v))
			buf.WriteString("\n")
		}
		return []string{buf.String()}, true
	}
	return texts, false
}

// realASTs parses the texts; asts[i] == nil from the first value the parser rejects.
func realASTs(texts []string, stream bool, n int) (asts []astzed.Value, perr error) {
	if stream {
		p := zson.NewParser(strings.NewReader(texts[0]))
		for i := 0; i < n; i++ {
			a, err := p.ParseValue()
			if err != nil || a == nil {
				if err == nil {
					err = fmt.Errorf("stream ended")
				}
				return asts, err
			}
			asts = append(asts, a)
		}
		return asts, nil
	}
	for _, t := range texts {
		p := zson.NewParser(strings.NewReader(t))
		a, err := p.ParseValue()
		if err != nil || a == nil {
			if err == nil {
				err = fmt.Errorf("no value")
			}
			return asts, err
		}
		// the whole text must have been one value
		if more, err2 := p.ParseValue(); more != nil || err2 != nil {
			return asts, fmt.Errorf("trailing text after the value")
		}
		asts = append(asts, a)
	}
	return asts, nil
}

func corrCase(c *h.Ctx, cs *rtCase) {
	if hz := caseHazards(cs); hz.any() {
		c.Stat("corr:skipped:hazard-below-the-AST")
		return
	}
	m := c.Model()
	zctx := zed.NewContext()
	var vals []zed.Value
	var tvs []string
	for _, x := range cs.Vals {
		v, err := makeValue(zctx, x.T, x.V)
		if err != nil {
			c.Stat("corr:skipped:build-error")
			return
		}
		vals = append(vals, v)
		tvs = append(tvs, "("+modelTy(v.Type())+" "+modelVal(zctx, v.Type(), v.Bytes())+")")
	}
	scope := "record"
	if cs.Mode == "format" {
		scope = "format"
	}
	persist := persistAtom(cs)
	replay := replayObj{Check: "corr", RT: cs}

	// (a) fmt
	var texts []string
	var stream bool
	var asts []astzed.Value
	var perr error
	if err, panicked := h.Protect(func() error {
		texts, stream = realTexts(cs, vals)
		asts, perr = realASTs(texts, stream, len(vals))
		return nil
	}); panicked {
		c.Fail("panic", "C02:panic:format-or-parse", err.Error(), replay)
		return
	}
	var want []string
	if cs.Mode == "value" || cs.Mode == "samectx" {
		// a fresh formatter per value
		for _, tvx := range tvs {
			r := splitSexps(m.Call("(C02 fmt record nopersist " + tvx + ")"))
			if len(r) != 1 {
				c.Fail("correspondence", "C02:corr:fmt:driver", "driver answer not understood", replay)
				return
			}
			want = append(want, r[0])
		}
	} else {
		ans := m.Call("(C02 fmt " + scope + " " + persist + " " + strings.Join(tvs, " ") + ")")
		want = splitSexps(ans)
		if len(want) != len(vals) {
			c.Fail("correspondence", "C02:corr:fmt:driver", "driver answer not understood: "+clip(ans, 200), replay)
			return
		}
	}
	c.Res.ModelCases++
	for i, a := range asts {
		got := astValue(a)
		if got != want[i] {
			c.Fail("correspondence", "C02:corr:fmt", fmt.Sprintf("value %d: real AST %s, model AST %s; text=%q", i, clip(got, 400), clip(want[i], 400), clip(strings.Join(texts, "\n"), 300)), replay)
			return
		}
		c.Stat("corr:fmt:agree")
	}
	if perr != nil {
		c.Stat("corr:fmt:real-parse-failed")
	}
	if len(asts) == 0 {
		return
	}

	// (b) analyze (not for samectx: the context is not empty there)
	if cs.Mode != "samectx" {
		ascope := "stream"
		if !stream {
			ascope = "value"
		}
		var astS []string
		for _, a := range asts {
			astS = append(astS, astValue(a))
		}
		model := splitSexps(m.Call("(C02 analyze " + ascope + " " + strings.Join(astS, " ") + ")"))
		if len(model) != len(asts) {
			c.Fail("correspondence", "C02:corr:analyze:driver", "driver answer not understood", replay)
			return
		}
		c.Res.ModelCases++
		analyzer := zson.NewAnalyzer()
		zc := zed.NewContext()
		builder := zcode.NewBuilder()
		for i, a := range asts {
			if !stream {
				analyzer = zson.NewAnalyzer()
				zc = zed.NewContext()
			}
			var real string
			if err, panicked := h.Protect(func() error {
				val, err := analyzer.ConvertValue(zc, a)
				if err != nil {
					real = "(err " + errClass(err) + ")"
					return nil
				}
				zv, err := zson.Build(builder, val)
				if err != nil {
					real = "(err " + errClass(err) + ")"
					return nil
				}
				s, err := canonValue(zc, zv, textPrim)
				if err != nil {
					real = "(malformed " + err.Error() + ")"
					return nil
				}
				real = "(ok " + s + ")"
				return nil
			}); panicked {
				c.Fail("panic", "C02:panic:analyze", err.Error(), replay)
				return
			}
			if real != model[i] && strings.HasPrefix(real, "(err") && strings.HasPrefix(model[i], "(err") {
				// Both reject the text; they name different reasons (which of two applicable
				// checks fires first).  Rejection is what the property can observe, so this
				// is an agreement; the difference is kept as a statistic.
				c.Stat("corr:analyze:agree-err-different-class")
				break
			}
			if real != model[i] {
				c.Fail("correspondence", "C02:corr:analyze", fmt.Sprintf("value %d: real %s, model %s; ast=%s", i, clip(real, 400), clip(model[i], 400), clip(astS[i], 300)), replay)
				return
			}
			if strings.HasPrefix(real, "(err") {
				c.Stat("corr:analyze:agree-" + real)
				break // the real analyzer may have changed its table before failing
			}
			c.Stat("corr:analyze:agree-ok")
		}
	}

	// (c) the model's own round trip against the real one
	if cs.Mode != "samectx" {
		res := runRT(cs)
		var mr []string
		if cs.Mode == "value" {
			for _, tvx := range tvs {
				r := splitSexps(m.Call("(C02 rt record nopersist " + tvx + ")"))
				if len(r) != 1 {
					return
				}
				mr = append(mr, r[0])
			}
		} else {
			mr = splitSexps(m.Call("(C02 rt " + scope + " " + persist + " " + strings.Join(tvs, " ") + ")"))
		}
		c.Res.ModelCases++
		firstBad := -1
		for i, r := range mr {
			if r != "ok" {
				firstBad = i
				break
			}
		}
		if res.ok && firstBad >= 0 {
			c.Fail("correspondence", "C02:corr:rt", fmt.Sprintf("model round trip fails at value %d (%s) but the real round trip succeeds", firstBad, mr[firstBad]), replay)
		} else if !res.ok && firstBad >= 0 {
			c.Stat("corr:rt:both-fail")
		} else if res.ok {
			c.Stat("corr:rt:both-ok")
		} else {
			c.Stat("corr:rt:real-fails-below-the-AST:" + res.class)
		}
	}
}
