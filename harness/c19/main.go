package main

// C19 — the lake service behaves exactly like direct access.
//
// Sub-checks:
//   service  (T2/S) operation histories applied to a local handle (lakeapi.FromRoot) and to a
//                   remote handle (lakeapi.NewRemoteLake / api/client against httptest over
//                   service.NewCore on a separate lake): after every step the error class of the
//                   step and the whole observable state (pools, branches, object counts, log
//                   lengths, contents in order) must agree; queries are rendered in every
//                   response format on both sides and compared as value sequences.
//   late     (S)    a query that fails after streaming started (a later data object of the pool is
//                   truncated on disk) through the real service, every response format, ctrl on
//                   and off: the client must learn about the error.
//   bigload  (S)    a load body beyond the client's 16 MiB replay buffer, directly and through the
//                   remote handle (io.Pipe, irregular read sizes): count/sum/min/max and a multiset
//                   hash of the pool must agree.
//   framing  (T2)   api/queryio.Writer + the client-side decode vs the Lean model of the framing.

import (
	"encoding/json"
	"fmt"
	"math/rand"
	"os"
	"sort"
	"strings"
	"time"

	. "verifharness/hlib"
)

func main() { Main("C19", run) }

type History struct {
	Name string `json:"name"`
	Ops  []Op   `json:"ops"`
}

var loadFormats = []string{"zng", "zson", "zjson", "json", "csv", "vng", ""}
var respFormats = []string{"zng", "zson", "zjson", "json", "csv"}

type genState struct {
	r        *rand.Rand
	pools    []string
	branches map[string][]string
	nextKey  int
	nextPool int
	nextBr   int
}

func (g *genState) recs(n int) []string {
	var out []string
	for i := 0; i < n; i++ {
		g.nextKey++
		out = append(out, fmt.Sprintf(`{k:%d,s:"v%d",n:%d}`, g.nextKey, g.r.Intn(50), g.r.Intn(5)))
	}
	return out
}

func (g *genState) pickPool() string {
	if len(g.pools) == 0 || g.r.Intn(25) == 0 {
		return "nopool"
	}
	return g.pools[g.r.Intn(len(g.pools))]
}

func (g *genState) pickBranch(p string) string {
	bs := g.branches[p]
	if len(bs) == 0 || g.r.Intn(25) == 0 {
		return "nobranch"
	}
	return bs[g.r.Intn(len(bs))]
}

func genHistory(r *rand.Rand, n int) History {
	g := &genState{r: r, branches: map[string][]string{}}
	h := History{Name: "random"}
	add := func(op Op) { h.Ops = append(h.Ops, op) }
	newPool := func() {
		name := fmt.Sprintf("p%d", g.nextPool)
		g.nextPool++
		thresh := int64(0)
		if r.Intn(2) == 0 {
			thresh = int64(60 + r.Intn(200)) // several objects per load
		}
		add(Op{Kind: "createPool", Pool: name, Key: "k", Desc: r.Intn(3) == 0, Thresh: thresh})
		g.pools = append(g.pools, name)
		g.branches[name] = []string{"main"}
	}
	newPool()
	for len(h.Ops) < n {
		p := g.pickPool()
		b := g.pickBranch(p)
		// at most one fault per operation: which of two errors is reported first is not part
		// of the property
		faulty := p == "nopool" || b == "nobranch"
		switch x := r.Intn(100); {
		case x < 4 && len(g.pools) < 3:
			newPool()
		case x < 6:
			// duplicate pool name
			if len(g.pools) > 0 {
				add(Op{Kind: "createPool", Pool: g.pools[0], Key: "k"})
			}
		case x < 34:
			f := loadFormats[r.Intn(len(loadFormats))]
			add(Op{Kind: "load", Pool: p, Branch: b, Format: f, Data: g.recs(1 + r.Intn(12)), Gzip: r.Intn(5) == 0, Chunked: r.Intn(4) == 0})
		case x < 37:
			// bodies the reader must reject or that are empty
			if faulty {
				continue
			}
			bad := []Op{
				{Kind: "load", Pool: p, Branch: b, Format: "zson", Raw: "{k:1,"},
				{Kind: "load", Pool: p, Branch: b, Format: "zng", Raw: "this is not zng"},
				{Kind: "load", Pool: p, Branch: b, Format: "json", Raw: `{"k":1`},
				{Kind: "load", Pool: p, Branch: b, Format: "zson", Data: nil},
				{Kind: "load", Pool: p, Branch: b, Format: "", Raw: "\x00\x01\x02garbage\xff"},
				{Kind: "load", Pool: p, Branch: b, Format: "csv", Raw: "k,s\n1,\"unterminated\n"},
				{Kind: "load", Pool: p, Branch: b, Format: "zjson", Raw: `{"type":"nonsense"}` + "\n"},
			}
			add(bad[r.Intn(len(bad))])
		case x < 47:
			idx := r.Intn(4)
			if r.Intn(6) == 0 && !faulty {
				idx = -1
			}
			add(Op{Kind: "delete", Pool: p, Branch: b, Index: idx})
		case x < 55:
			preds := []string{"n==1", "k%3==0", "s=='v7'", fmt.Sprintf("k<%d", r.Intn(g.nextKey+2)), "nosuch==1", "k >", "n==0 or n==4"}
			pred := preds[r.Intn(len(preds))]
			if faulty {
				pred = "n==1"
			}
			add(Op{Kind: "deleteWhere", Pool: p, Branch: b, Src: pred})
		case x < 62:
			name := fmt.Sprintf("b%d", g.nextBr)
			g.nextBr++
			if r.Intn(8) == 0 && len(g.branches[p]) > 0 && !faulty {
				name = g.branches[p][0] // duplicate
			} else if p != "nopool" && b != "nobranch" {
				g.branches[p] = append(g.branches[p], name)
			}
			add(Op{Kind: "branch", Pool: p, Branch: b, Name: name})
		case x < 69:
			child := g.pickBranch(p)
			if faulty && child == "nobranch" {
				continue
			}
			add(Op{Kind: "merge", Pool: p, Branch: b, Name: child})
		case x < 74:
			idx := r.Intn(3)
			if r.Intn(6) == 0 && !faulty {
				idx = -1
			}
			add(Op{Kind: "revert", Pool: p, Branch: b, Index: idx})
		case x < 75 && false:
		case x < 76 && len(g.pools) > 1:
			add(Op{Kind: "removePool", Pool: p})
			if p != "nopool" {
				for i, q := range g.pools {
					if q == p {
						g.pools = append(g.pools[:i:i], g.pools[i+1:]...)
					}
				}
			}
		case x < 78:
			nn := fmt.Sprintf("r%d", g.nextPool)
			g.nextPool++
			add(Op{Kind: "renamePool", Pool: p, Name: nn})
			if p != "nopool" {
				for i, q := range g.pools {
					if q == p {
						g.pools[i] = nn
						g.branches[nn] = g.branches[p]
					}
				}
			}
		case x < 82:
			add(Op{Kind: "compact", Pool: p, Branch: b, Index: r.Intn(3), Vectors: r.Intn(3) == 0})
		case x < 85:
			add(Op{Kind: []string{"addVectors", "delVectors"}[r.Intn(2)], Pool: p, Branch: b, Index: r.Intn(4)})
		case x < 87:
			add(Op{Kind: "vacuum", Pool: p, Branch: b, Dryrun: r.Intn(2) == 0})
		default:
			qs := []string{
				fmt.Sprintf("from %s@%s", p, b),
				fmt.Sprintf("from %s@%s | n==1", p, b),
				fmt.Sprintf("from %s@%s | count() by s | sort s", p, b),
				fmt.Sprintf("from %s@%s | sort -r k | head 3", p, b),
				fmt.Sprintf("from %s@%s | cut k,s", p, b),
				fmt.Sprintf("from %s@%s | put m:=k*2 | tail 2", p, b),
				fmt.Sprintf("from %s@%s | yield k", p, b),
				fmt.Sprintf("from %s@%s | where k >", p, b),
				fmt.Sprintf("from %s@%s | nosuchfunc(k)", p, b),
				"from :pools | sort name | cut name",
				fmt.Sprintf("from %s:branches | sort branch.name | yield branch.name", p),
			}
			q := qs[r.Intn(len(qs))]
			if faulty {
				q = qs[0]
			}
			add(Op{Kind: "query", Src: q, Format: respFormats[r.Intn(len(respFormats))], Ctrl: r.Intn(2) == 0})
		}
	}
	return h
}

// scripted histories: each load format once, each response format on the same data, a
// branch/merge/revert round, error cases.
func scripted() []History {
	var hs []History
	var ops []Op
	ops = append(ops, Op{Kind: "createPool", Pool: "p", Key: "k", Thresh: 80})
	k := 0
	for _, f := range loadFormats {
		var recs []string
		for i := 0; i < 5; i++ {
			k++
			recs = append(recs, fmt.Sprintf(`{k:%d,s:"v%d",n:%d}`, k, k%7, k%3))
		}
		ops = append(ops, Op{Kind: "load", Pool: "p", Branch: "main", Format: f, Data: recs})
	}
	for _, f := range respFormats {
		for _, ctrl := range []bool{false, true} {
			ops = append(ops, Op{Kind: "query", Src: "from p", Format: f, Ctrl: ctrl})
			ops = append(ops, Op{Kind: "query", Src: "from p | count() by s | sort s", Format: f, Ctrl: ctrl})
		}
	}
	hs = append(hs, History{Name: "formats", Ops: ops})
	ops = []Op{
		{Kind: "createPool", Pool: "p", Key: "k"},
		{Kind: "load", Pool: "p", Branch: "main", Format: "zson", Data: []string{`{k:1,s:"a",n:0}`, `{k:2,s:"b",n:1}`}},
		{Kind: "branch", Pool: "p", Branch: "main", Name: "dev"},
		{Kind: "load", Pool: "p", Branch: "dev", Format: "json", Data: []string{`{k:3,s:"c",n:1}`}},
		{Kind: "load", Pool: "p", Branch: "main", Format: "csv", Data: []string{`{k:4,s:"d",n:2}`}},
		{Kind: "deleteWhere", Pool: "p", Branch: "dev", Src: "k==1"},
		{Kind: "merge", Pool: "p", Branch: "main", Name: "dev"},
		{Kind: "query", Src: "from p@main", Format: "zson"},
		{Kind: "revert", Pool: "p", Branch: "main", Index: 0},
		{Kind: "query", Src: "from p@main", Format: "zjson", Ctrl: true},
		{Kind: "delete", Pool: "p", Branch: "main", Index: 0},
		{Kind: "load", Pool: "p", Branch: "nobranch", Format: "zson", Data: []string{`{k:9}`}},
		{Kind: "load", Pool: "nopool", Branch: "main", Format: "zson", Data: []string{`{k:9}`}},
		{Kind: "load", Pool: "p", Branch: "main", Format: "zson", Raw: "{k:"},
		{Kind: "merge", Pool: "p", Branch: "main", Name: "nobranch"},
		{Kind: "query", Src: "from nopool", Format: "zson"},
	}
	hs = append(hs, History{Name: "branch-merge-revert", Ops: ops})
	// a body whose first records are fine and whose tail is not
	for _, bad := range []Op{
		{Kind: "load", Pool: "p", Branch: "main", Format: "zson", Raw: "{k:1,s:\"a\",n:0}\n{k:2,s:\"b\",n:1}\n{k:3,"},
		{Kind: "load", Pool: "p", Branch: "main", Format: "zjson", Raw: goodZJSON() + "{\"type\":\"nonsense\"}\n"},
		{Kind: "load", Pool: "p", Branch: "main", Format: "", Raw: "{k:1,s:\"a\",n:0}\n{k:2,s:\"b\",n:1}\n{k:3,"},
	} {
		hs = append(hs, History{Name: "load-good-prefix-then-garbage", Ops: []Op{
			{Kind: "createPool", Pool: "p", Key: "k"}, bad, {Kind: "query", Src: "from p", Format: "zson"}}})
	}
	// the load direction of "late" errors: an error in the middle of an uploaded body, once per
	// content type, plain / gzip'd / chunked
	good := []string{`{k:1,s:"a",n:0}`, `{k:2,s:"b",n:1}`, `{k:3,s:"c",n:2}`}
	for _, f := range loadFormats {
		for v, variant := range []Op{{}, {Gzip: true}, {Chunked: true}} {
			op := Op{Kind: "load", Pool: "p", Branch: "main", Format: f, Data: good, Damage: "tail", Gzip: variant.Gzip, Chunked: variant.Chunked}
			hs = append(hs, History{Name: fmt.Sprintf("load-midbody-error:%s:%d", orAuto(f), v), Ops: []Op{
				{Kind: "createPool", Pool: "p", Key: "k"}, op, {Kind: "query", Src: "from p", Format: "zson"}}})
		}
	}
	// maintenance operations
	var mops []Op
	mops = append(mops, Op{Kind: "createPool", Pool: "p", Key: "k", Thresh: 60})
	for j := 0; j < 3; j++ {
		mops = append(mops, Op{Kind: "load", Pool: "p", Branch: "main", Format: loadFormats[j], Gzip: j == 1, Chunked: j == 2,
			Data: []string{fmt.Sprintf(`{k:%d,s:"a",n:0}`, 10*j+1), fmt.Sprintf(`{k:%d,s:"b",n:1}`, 10*j+2), fmt.Sprintf(`{k:%d,s:"c",n:2}`, 10*j+3)}})
	}
	mops = append(mops,
		Op{Kind: "addVectors", Pool: "p", Branch: "main", Index: 0},
		Op{Kind: "addVectors", Pool: "p", Branch: "main", Index: 0},
		Op{Kind: "delVectors", Pool: "p", Branch: "main", Index: 0},
		Op{Kind: "delVectors", Pool: "p", Branch: "main", Index: 1},
		Op{Kind: "compact", Pool: "p", Branch: "main", Index: 1, Vectors: true},
		Op{Kind: "query", Src: "from p", Format: "zson"},
		Op{Kind: "vacuum", Pool: "p", Branch: "main", Dryrun: true},
		Op{Kind: "vacuum", Pool: "p", Branch: "main"},
		Op{Kind: "vacuum", Pool: "p", Branch: "main"},
		Op{Kind: "query", Src: "from p | count()", Format: "zjson", Ctrl: true},
		Op{Kind: "compact", Pool: "p", Branch: "nobranch", Index: 0},
		Op{Kind: "vacuum", Pool: "nopool", Branch: "main"},
	)
	hs = append(hs, History{Name: "maintenance", Ops: mops})
	hs = append(hs, History{Name: "empty-pool-name", Ops: []Op{{Kind: "createPool", Pool: "", Key: "k"}}})
	return hs
}

func goodZJSON() string {
	b, err := encodeData("zjson", []string{`{k:1,s:"a",n:0}`, `{k:2,s:"b",n:1}`})
	if err != nil {
		panic(err)
	}
	return string(b)
}

// ---- state ----------------------------------------------------------------------------------

// snapshot reads the observable state: the pool list, and for the pools in only (all pools
// when only is nil) every branch with its object count, log length and contents in order.
func snapshot(s *side, only []string) (map[string]string, error) {
	st := map[string]string{}
	pools, err := queryStrings(s.lk, nil, "from :pools | sort name | yield {name,layout}")
	if err != nil {
		return nil, fmt.Errorf("pools: %w", err)
	}
	st["pools"] = strings.Join(pools, " ")
	names, err := queryStrings(s.lk, nil, "from :pools | sort name | yield name")
	if err != nil {
		return nil, err
	}
	for _, qn := range names {
		p := strings.Trim(qn, `"`)
		if only != nil && !contains(only, p) {
			continue
		}
		bs, err := queryStrings(s.lk, nil, fmt.Sprintf("from %s:branches | sort branch.name | yield branch.name", p))
		if err != nil {
			return nil, fmt.Errorf("branches of %s: %w", p, err)
		}
		st["branches:"+p] = strings.Join(bs, " ")
		for _, qb := range bs {
			b := strings.Trim(qb, `"`)
			for tag, q := range map[string]string{
				"objects":  fmt.Sprintf("from %s@%s:objects | count()", p, b),
				"log":      fmt.Sprintf("from %s@%s:log | count()", p, b),
				"vectors":  fmt.Sprintf("from %s@%s:vectors | count()", p, b),
				"contents": fmt.Sprintf("from %s@%s", p, b),
			} {
				out, err := queryStrings(s.lk, nil, q)
				if err != nil {
					out = []string{"error:" + classify(err)}
				}
				st[tag+":"+p+"@"+b] = strings.Join(out, " ")
			}
		}
	}
	return st, nil
}

func contains(xs []string, x string) bool {
	for _, y := range xs {
		if x == y {
			return true
		}
	}
	return false
}

func diffState(a, b map[string]string) string {
	var keys []string
	for k := range a {
		keys = append(keys, k)
	}
	for k := range b {
		if _, ok := a[k]; !ok {
			keys = append(keys, k)
		}
	}
	sort.Strings(keys)
	for _, k := range keys {
		if a[k] != b[k] {
			return fmt.Sprintf("%s: local %q, remote %q", k, clip(a[k]), clip(b[k]))
		}
	}
	return ""
}

func clip(s string) string {
	if len(s) > 300 {
		return s[:300] + "…"
	}
	return s
}

func stateClass(k string) string {
	if i := strings.IndexByte(k, ':'); i >= 0 {
		return k[:i]
	}
	return k
}

// safeRunHistory shields the run from environment trouble (temp space, descriptors): a
// panic of the harness itself makes the history run once more; only a repeated one is reported.
func safeRunHistory(h History) (res histResult) {
	try := func() (r histResult, panicked string) {
		defer func() {
			if e := recover(); e != nil {
				panicked = fmt.Sprintf("%v\n%s", e, Stack())
			}
		}()
		return runHistory(h), ""
	}
	res, p := try()
	if p == "" {
		return res
	}
	res, p = try()
	if p == "" {
		if res.Stats == nil {
			res.Stats = map[string]int{}
		}
		res.Stats["retried-after-harness-panic"]++
		return res
	}
	return histResult{Stats: map[string]int{}, Abort: 0,
		Fails: []histFail{{0, "C19:service:harness-panic", "the harness panicked twice on this history: " + p}}}
}

type histFail struct {
	Step int
	Key  string
	What string
}

type histResult struct {
	Fails []histFail
	Stats map[string]int
	Abort int // step at which the comparison had to stop (-1: ran to the end)
}

func (r *histResult) hasKey(k string) bool {
	for _, f := range r.Fails {
		if f.Key == k {
			return true
		}
	}
	return false
}

// runHistory applies h to fresh local and remote lakes and compares after every step.
// A difference that leaves both lakes in step (an error class, a dropped late error) is
// recorded and the history goes on; one that makes them diverge stops it.
func runHistory(h History) (res histResult) {
	res.Stats = map[string]int{}
	res.Abort = -1
	loc, err := newLocal()
	if err != nil {
		panic(err)
	}
	defer loc.close()
	rem, err := newRemote()
	if err != nil {
		panic(err)
	}
	defer rem.close()
	for i, op := range h.Ops {
		a := loc.exec(op)
		b := rem.exec(op)
		res.Stats["op:"+op.Kind]++
		res.Stats["class:"+op.Kind+":"+a.Class]++
		if op.Kind == "load" {
			res.Stats["load-format:"+orAuto(op.Format)]++
		}
		if op.Kind == "query" {
			res.Stats[fmt.Sprintf("resp-format:%s:ctrl=%v", op.Format, op.Ctrl)]++
		}
		note := func(key, what string) {
			res.Fails = append(res.Fails, histFail{i, key, fmt.Sprintf("history %s step %d (%s): %s", h.Name, i, opString(op), what)})
		}
		stop := func(key, what string) histResult {
			note(key, what)
			res.Abort = i
			return res
		}
		if a.Class == "panic" || b.Class == "panic" {
			return stop("C19:panic:"+op.Kind, fmt.Sprintf("panic: local %q remote %q", firstLine(a.Err), firstLine(b.Err)))
		}
		detail := op.Kind
		switch {
		case op.Kind == "load" && op.Raw != "":
			// a body that is malformed by construction; prefix = it starts with good records
			detail = "load:malformed-body:prefix=0"
			if strings.HasPrefix(h.Name, "load-good-prefix") {
				detail = "load:malformed-body:prefix=some"
			}
		case op.Kind == "load" && op.Damage != "":
			detail = "load:malformed-body:prefix=some"
		case op.Kind == "createPool" && op.Pool == "":
			detail = "createPool:empty-name"
		}
		if op.Kind == "query" && a.Class != "ok" && b.Class == "ok" && strings.HasPrefix(a.Err, "render: ") {
			// the query ran; writing the result in the response format failed after the
			// response had started: the same situation as a late runtime error
			note(fmt.Sprintf("C19:late-error:dropped:%s:ctrl=%v", op.Format, op.Ctrl),
				fmt.Sprintf("direct access reports %q while writing the result as %s; the service answers 200 with %d values and no error", clip(a.Err), op.Format, len(b.Values)))
			continue
		}
		if (a.Class == "ok") != (b.Class == "ok") {
			return stop(fmt.Sprintf("C19:error-presence:%s:local=%s:remote=%s", detail, a.Class, b.Class),
				fmt.Sprintf("direct access: %s (%s); through the service: %s (%s)", a.Class, clip(a.Err), b.Class, clip(b.Err)))
		}
		if a.Class != b.Class {
			// both fail, differently: recorded; the state is still compared below
			note(fmt.Sprintf("C19:error-class:%s:local=%s:remote=%s", detail, a.Class, b.Class),
				fmt.Sprintf("direct access: %s (%s); through the service: %s (%s)", a.Class, clip(a.Err), b.Class, clip(b.Err)))
		}
		if op.Kind == "query" && a.Class == "ok" {
			f := op.Format
			if !SameSeq(a.Values, b.Values) {
				return stop("C19:query-output:"+f, fmt.Sprintf("results differ: direct %s; service %s", clip(strings.Join(a.Values, " ")), clip(strings.Join(b.Values, " "))))
			}
			if want := mediaType(f); len(b.Values) > 0 && !strings.HasPrefix(b.CType, want) {
				return stop("C19:content-type:"+f, fmt.Sprintf("asked for %s, response Content-Type is %q", want, b.CType))
			}
			if a.Body != b.Body {
				res.Stats["body-bytes-differ:"+f]++
			} else {
				res.Stats["body-bytes-equal:"+f]++
			}
		}
		var only []string
		if i < len(h.Ops)-1 {
			only = []string{op.Pool, op.Name}
		}
		if op.Kind == "query" && i < len(h.Ops)-1 {
			continue // read-only: the state is compared again after the next mutating step
		}
		sa, err := snapshot(loc, only)
		if err != nil {
			return stop("C19:snapshot:local", err.Error())
		}
		sb, err := snapshot(rem, only)
		if err != nil {
			return stop("C19:snapshot:remote", err.Error())
		}
		if d := diffState(sa, sb); d != "" {
			return stop("C19:state:"+op.Kind+":"+stateClass(d), "state after the step differs: "+d)
		}
	}
	return res
}

func orAuto(f string) string {
	if f == "" {
		return "auto"
	}
	return f
}

func opString(op Op) string {
	b, _ := json.Marshal(op)
	return clip(string(b))
}

func firstLine(s string) string {
	if i := strings.IndexByte(s, '\n'); i >= 0 {
		return s[:i]
	}
	return s
}

func run(c *Ctx) {
	c.Rule("service: a history = 8..20 lake operations (create/rename/remove pool with asc/desc key and small thresholds, load in {zng,zson,zjson,json,csv,vng,auto} incl. malformed and empty bodies, " +
		"delete by object, delete-where, branch, merge, revert, queries in {zng,zson,zjson,json,csv} with ctrl on/off, incl. unknown pools/branches and syntax errors) applied to a local handle and to a remote handle over httptest; " +
		"after every step error class and full state (pools, branches, object counts, log lengths, contents in order) are compared; ids are never compared. " +
		"late: pools of 2..5 objects, a later object truncated on the served lake's disk, `from p` in every response format with ctrl on/off. " +
		"framing: event sequences (batches, channel switches, channel ends, progress, a late error at every position) through api/queryio.Writer and the client decode vs the Lean model")
	if c.Replay != nil {
		replay(c)
		return
	}
	for _, rc := range c.CorpusCases() {
		c.Replay = rc
		replay(c)
		c.Replay = nil
	}
	t0 := time.Now()
	lap := func(what string) {
		c.Note("phase %s: %.1fs", what, time.Since(t0).Seconds())
		t0 = time.Now()
	}
	if c.Want("service") {
		var hs []History
		hs = append(hs, scripted()...)
		for i := 0; i < c.N(12, 200); i++ {
			hs = append(hs, genHistory(rand.New(rand.NewSource(c.Rng.Int63())), 8+c.Rng.Intn(c.N(9, 13))))
		}
		results := make([]histResult, len(hs))
		// histories are independent: each has its own lakes and server
		ParallelDo(len(hs), 8, func(i int) { results[i] = safeRunHistory(hs[i]) })
		lap("service: histories")
		shrunk := map[string]bool{}
		for i, h := range hs {
			reportHistory(c, h, results[i], shrunk)
		}
		lap("service: shrinking the first failure of each class")
		runAccept(c)
		lap("service: Accept negotiation")
	}
	if c.Want("bigload") {
		runBigLoad(c)
		lap("bigload")
	}
	if c.Want("late") {
		runLate(c)
		lap("late")
	}
	if c.Want("framing") {
		runFraming(c)
		lap("framing")
	}
}

func historyKey(h History) string {
	b, _ := json.Marshal(h.Ops)
	return string(b)
}

func reportHistory(c *Ctx, h History, r histResult, shrunk map[string]bool) {
	c.Eval(historyKey(h))
	c.Stat(fmt.Sprintf("history-len:%d", len(h.Ops)/5*5))
	for k, n := range r.Stats {
		c.StatN(k, n)
	}
	if os.Getenv("C19_DEBUG") != "" {
		fmt.Printf("HIST %s abort=%d fails=%d class=%v\n", h.Name, r.Abort, len(r.Fails), r.Stats)
	}
	for _, f := range r.Fails {
		hh := History{Name: h.Name, Ops: h.Ops[:f.Step+1]}
		if shrunk != nil && !shrunk[f.Key] {
			// minimise the first history of every failure class
			shrunk[f.Key] = true
			hh = shrinkHistory(hh, f.Key)
		}
		c.Fail("oracle", f.Key, f.What, hh)
	}
}

// shrinkHistory first keeps only the operations on the pool of the failing step, then (for
// short histories) drops operations one at a time, as long as the history still fails with key.
func shrinkHistory(h History, key string) History {
	last := h.Ops[len(h.Ops)-1]
	pool := last.Pool
	if last.Kind == "query" {
		for _, f := range strings.Fields(last.Src) {
			if i := strings.IndexAny(f, "@:"); i > 0 {
				pool = f[:i]
				break
			}
		}
	}
	if pool != "" {
		cand := History{Name: h.Name}
		for i, op := range h.Ops {
			if op.Pool == pool || op.Name == pool || i == len(h.Ops)-1 {
				cand.Ops = append(cand.Ops, op)
			}
		}
		if r := runHistory(cand); len(cand.Ops) < len(h.Ops) && r.hasKey(key) {
			h = cand
		}
	}
	if len(h.Ops) > 8 {
		return h
	}
	for i := len(h.Ops) - 2; i >= 0; i-- {
		cand := History{Name: h.Name, Ops: append(append([]Op{}, h.Ops[:i]...), h.Ops[i+1:]...)}
		if r := runHistory(cand); r.hasKey(key) {
			h = cand
		}
	}
	return h
}

func replay(c *Ctx) {
	var h History
	if err := json.Unmarshal(c.Replay, &h); err == nil && len(h.Ops) > 0 {
		reportHistory(c, h, runHistory(h), nil)
		return
	}
	var lc lateCase
	if err := json.Unmarshal(c.Replay, &lc); err == nil && lc.Objects > 0 {
		c.Eval("replay")
		runLateCase(c, lc)
		return
	}
	var bc bigCase
	if err := json.Unmarshal(c.Replay, &bc); err == nil && bc.Records > 0 {
		runBigCase(c, bc)
		return
	}
	var fc frameCase
	if err := json.Unmarshal(c.Replay, &fc); err == nil && fc.Format != "" {
		c.Eval("replay")
		runFrameCases(c, []frameCase{fc})
		return
	}
	c.Note("replay not understood")
}
