package main

import (
	"fmt"
	"os"
	"strconv"
)

// c07Dump prints the rendered bodies the C07 fact set pins (developer aid: regenerate
// c07shapes.go after reviewing a deliberate change of the optimizer; EXTRACT_C07_DUMP=1).
func c07Dump(repo string) {
	pr := func(name, s string) { fmt.Fprintf(os.Stderr, "%s = %s\n", name, strconv.Quote(s)) }
	fo, _ := parseFile(repo, "compiler/optimizer/optimizer.go")
	fp, _ := parseFile(repo, "compiler/optimizer/op.go")
	fpar, _ := parseFile(repo, "compiler/optimizer/parallelize.go")
	fdem, _ := parseFile(repo, "compiler/optimizer/demand.go")
	for _, p := range []struct {
		f          *file
		recv, name string
	}{
		{fo, "", "mergeFilters"}, {fo, "", "removePassOps"}, {fo, "Optimizer", "Optimize"},
		{fp, "", "sortKeysOfSort"}, {fp, "", "sortKeyOfExpr"}, {fp, "", "analyzeCuts"}, {fp, "", "isKeyOfSummarize"},
		{fp, "", "fieldOf"}, {fpar, "", "parallelPaths"}, {fo, "", "matchFilter"}, {fpar, "Optimizer", "parallelizeSeqScan"},
	} {
		fd, err := p.f.funcDecl(p.recv, p.name)
		if err != nil {
			fmt.Fprintln(os.Stderr, err)
			continue
		}
		pr("BODY "+p.name, funcSkeleton(p.f, fd))
	}
	for _, p := range []struct {
		f          *file
		recv, name string
	}{
		{fo, "Optimizer", "propagateSortKeyOp"}, {fo, "Optimizer", "optimizeSourcePaths"}, {fo, "Optimizer", "sortKeysOfSource"},
		{fp, "Optimizer", "analyzeSortKeys"}, {fp, "", "FieldsOf"}, {fpar, "Optimizer", "concurrentPath"},
		{fpar, "Optimizer", "liftIntoParPaths"}, {fdem, "", "inferDemandSeqOutWith"}, {fdem, "", "inferDemandExprIn"},
	} {
		fd, err := p.f.funcDecl(p.recv, p.name)
		if err != nil {
			fmt.Fprintln(os.Stderr, err)
			continue
		}
		for i, sw := range typeSwitches(p.f, fd.Body) {
			for _, c := range sw {
				pr(fmt.Sprintf("SWITCH %s #%d %v", p.name, i, c.types), c.body)
			}
		}
	}
}
