import Zed.Model.TyContext
import Zed.Generated.C06
/-!
  L2 — Zed values as the comparison code sees them (`value.go`, `primitive.go`).

  A `Val` is a typed tree: numbers are decoded (`Num`), strings / bytes / ips keep their bytes,
  a type value is the decoded `Ty`, arrays and sets are the list of their elements, everything
  else (records, maps, unions, enums, errors, nets) is kept as its zcode body because
  `compareValues` compares those bytewise.

  Floats never use Lean's `Float`: a float64 is decoded to `FVal`, the exact value scaled by
  2^1074 (so every finite float64, float32, float16 is an integer), with NaN and the infinities
  as separate constructors.
-/
namespace Zed
open Zcode

/-! ### id classes (regenerated from type.go) -/

def evalBound (id : Nat) (b : String × Int) : Bool :=
  let v : Int := id
  if b.1 = "<=" then v ≤ b.2
  else if b.1 = "<" then v < b.2
  else if b.1 = ">=" then v ≥ b.2
  else if b.1 = ">" then v > b.2
  else if b.1 = "==" then v = b.2
  else if b.1 = "!=" then v ≠ b.2
  else false

def evalBounds (bs : List (String × Int)) (id : Nat) : Bool := bs.all (evalBound id)

def isNumberId (id : Nat) : Bool := evalBounds Generated.C06.isNumber id
def isFloatId (id : Nat) : Bool := evalBounds Generated.C06.isFloat id
def isSignedId (id : Nat) : Bool := evalBounds Generated.C06.isSigned id
def isUnsignedId (id : Nat) : Bool := evalBounds Generated.C06.isUnsigned id
def fastPathId (id : Nat) : Bool := evalBounds Generated.C06.fastPathGuard id

def idNamed (n : String) : Nat := (Generated.C05.ids.lookup n).getD 1000
def idBool : Nat := idNamed "IDBool"
def idBytes : Nat := idNamed "IDBytes"
def idString : Nat := idNamed "IDString"
def idIP : Nat := idNamed "IDIP"
def idType : Nat := idNamed "IDType"

/-! ### floats -/

inductive FVal where
  | nan
  | ninf
  | fin (z : Int)   -- value × 2^1074
  | pinf
  deriving DecidableEq, Repr

/-- decode an IEEE-754 binary format with `eb` exponent bits and `mb` mantissa bits;
    `sc` = exponent of the scaling that makes the smallest subnormal of *float64* equal 1. -/
def decodeIEEE (eb mb sc : Nat) (bits : Nat) : FVal :=
  let m := bits % 2 ^ mb
  let e := (bits / 2 ^ mb) % 2 ^ eb
  let neg := (bits / 2 ^ (mb + eb)) % 2 = 1
  if e = 2 ^ eb - 1 then
    if m ≠ 0 then .nan else if neg then .ninf else .pinf
  else
    let mag : Nat := if e = 0 then m * 2 ^ sc else (2 ^ mb + m) * 2 ^ (e - 1 + sc)
    .fin (if neg then -(mag : Int) else mag)

/-- `zed.DecodeFloat` by body length (2, 4, 8) -/
def decodeFloat (bs : Bytes) : Option FVal :=
  if bs.length = 8 then some (decodeIEEE 11 52 0 (leNat bs))
  else if bs.length = 4 then some (decodeIEEE 8 23 925 (leNat bs))
  else if bs.length = 2 then some (decodeIEEE 5 10 1050 (leNat bs))
  else none

def FVal.rank : FVal → Nat
  | .nan => 0
  | .ninf => 1
  | .fin _ => 2
  | .pinf => 3

/-- Go's `cmp.Compare` on float64: NaN is below everything and equal to itself; -0 = +0. -/
def cmpF : FVal → FVal → Ordering
  | .fin x, .fin y => compare x y
  | a, b => compare a.rank b.rank

/-- the `k` with 2^(52+k) ≤ n < 2^(53+k) (n ≥ 2^53), searched upwards on fuel -/
def roundShift : Nat → Nat → Nat → Nat
  | 0, _, k => k
  | f+1, n, k => if n < 2 ^ (53 + k) then k else roundShift f n (k + 1)

/-- `float64(n)` for a natural number `n` (`uint64`, or the magnitude of an `int64`): round to
    nearest, ties to even, to 53 significant bits.  The result is integral. -/
def roundNat (n : Nat) : Nat :=
  if n < 2 ^ 53 then n else
  let k := roundShift 64 n 1
  let q := n / 2 ^ k
  let r := n % 2 ^ k
  let half := 2 ^ (k - 1)
  let q' := if r > half ∨ (r = half ∧ q % 2 = 1) then q + 1 else q
  q' * 2 ^ k

def scale : Nat := 2 ^ 1074

inductive Num where
  | int (v : Int)
  | uint (v : Nat)
  | float (f : FVal)
  deriving DecidableEq, Repr

/-- `coerce.ToNumeric[float64]` -/
def Num.toF : Num → FVal
  | .float f => f
  | .uint n => .fin (roundNat n * scale)
  | .int i => if i < 0 then .fin (-((roundNat i.natAbs * scale : Nat) : Int)) else .fin (roundNat i.toNat * scale : Nat)

/-- `expr.compareNumbers` (eval.go) -/
def cmpNum : Num → Num → Ordering
  | .float x, b => cmpF x b.toF
  | a, .float y => cmpF a.toF y
  | .int x, .uint y => if x < 0 then .lt else compare x.toNat y
  | .int x, .int y => compare x y
  | .uint x, .int y => if y < 0 then .gt else compare x y.toNat
  | .uint x, .uint y => compare x y

/-! ### values -/

mutual
inductive Val where
  | null (t : Ty)
  | num (t : Ty) (n : Num)
  | bool (t : Ty) (b : Bool)
  | bytes (t : Ty) (bs : Bytes)
  | string (t : Ty) (bs : Bytes)
  | ip (t : Ty) (bs : Bytes)
  | typ (t : Ty) (x : Ty)
  | seq (t : Ty) (elems : Vals)
  | raw (t : Ty) (bs : Bytes)
inductive Vals where
  | nil
  | cons (v : Val) (rest : Vals)
end

deriving instance Repr for Val, Vals
instance : Inhabited Val := ⟨.null (.prim 29)⟩

namespace Vals
def toList : Vals → List Val
  | .nil => []
  | .cons v r => v :: r.toList
def ofList : List Val → Vals
  | [] => .nil
  | v :: r => .cons v (ofList r)
end Vals

namespace Val

def ty : Val → Ty
  | .null t | .num t _ | .bool t _ | .bytes t _ | .string t _ | .ip t _ | .typ t _ | .seq t _ | .raw t _ => t

def isNull : Val → Bool
  | .null _ => true
  | _ => false

/-- the bytes a bytewise comparison sees -/
def payload : Val → Bytes
  | .bytes _ b | .string _ b | .ip _ b | .raw _ b => b
  | _ => []

end Val

def Ty.isNumber (t : Ty) : Bool :=
  match t.primId? with
  | some id => isNumberId id
  | none => false

def maxInt64 : Int := 2 ^ 63 - 1
def minInt64 : Int := -(2 ^ 63)

/-! ### well-formed values

  `Val.ok v`: the shape of `v` is the one its type prescribes (what `Value.Validate` and the
  decoders guarantee: numbers in the range of their class, ips of 4 or 16 bytes, array and set
  elements of the element type). -/

def numOk (id : Nat) : Num → Bool
  | .int i => isSignedId id && decide (minInt64 ≤ i) && decide (i ≤ maxInt64)
  | .uint u => isUnsignedId id && decide (u < 2 ^ 64)
  | .float _ => isFloatId id

def specialPrim (id : Nat) : Bool :=
  id == idBool || id == idBytes || id == idString || id == idIP || id == idType

mutual
def Val.ok : Val → Bool
  | .null _ => true
  | .num t n =>
    match t.primId? with
    | some id => isNumberId id && numOk id n
    | none => false
  | .bool t _ => t.primId? == some idBool
  | .bytes t _ => t.primId? == some idBytes
  | .string t _ => t.primId? == some idString
  | .ip t bs => t.primId? == some idIP && (bs.length == 4 || bs.length == 16)
  | .typ t _ => t.primId? == some idType
  | .seq t es =>
    match t.inner? with
    | some e => es.okAll e
    | none => false
  | .raw t _ =>
    t.inner?.isNone && match t.primId? with
      | some id => !isNumberId id && !specialPrim id
      | none => true
def Vals.okAll : Vals → Ty → Bool
  | .nil, _ => true
  | .cons v r, e => (v.ty == e) && v.ok && r.okAll e
end

/-- decode a number body according to the id class (`Value.Uint/Int/Float`) -/
def decodeNum (id : Nat) (bs : Bytes) : Option Num :=
  if isUnsignedId id then some (.uint (countedUvarint bs))
  else if isSignedId id then some (.int (countedVarint bs))
  else if isFloatId id then (decodeFloat bs).map .float
  else none

mutual
/-- `(type, zcode body)` → `Val`; `none` body = null.  `none` result = the real code would
    panic or the body is not a well-formed value of the type. -/
def decodeVal : Nat → Ty → Option Bytes → Option Val
  | _, t, none => some (.null t)
  | 0, _, _ => none
  | f+1, t, some bs =>
    match t.under with
    | .prim id =>
      if isNumberId id then (decodeNum id bs).map (.num t)
      else if id = idBool then
        match bs with
        | [b] => some (.bool t (b != 0))
        | _ => none
      else if id = idBytes then some (.bytes t bs)
      else if id = idString then some (.string t bs)
      else if id = idIP then (if bs.length = 4 ∨ bs.length = 16 then some (.ip t bs) else none)
      else if id = idType then
        match Ctx.empty.decode bs with
        | some (x, [], _) => some (.typ t x)
        | _ => none
      else some (.raw t bs)
    | .array e => (decodeElems f e bs).map (.seq t)
    | .set e => (decodeElems f e bs).map (.seq t)
    | _ => some (.raw t bs)
def decodeElems : Nat → Ty → Bytes → Option Vals
  | 0, _, _ => none
  | f+1, e, bs =>
    match elems (bs.length + 1) bs with
    | none => none
    | some bodies => decodeList f e bodies
def decodeList : Nat → Ty → List (Option Bytes) → Option Vals
  | _, _, [] => some .nil
  | 0, _, _ :: _ => none
  | f+1, e, b :: rest =>
    match decodeVal f e b with
    | none => none
    | some v => (decodeList f e rest).map (.cons v)
end

end Zed
