package main

// C09 — the vector runtime agrees with the sequential runtime and never crashes the query.
//
// Every call into the real code runs in a child process (hlib.Worker).
//
// Sub-checks:
//   ops    (T2 + S)  k objects (1..3) of records {k, f:<anything> | no f}: the real vcache
//                    vectors of the projection [f] are fed to the REAL CountByString / Sum
//                    operators; compared with the Lean model (vector kinds, rows / sum /
//                    panic: correspondence) and with the sequential runtime over the same
//                    values (oracle).  A failing input is shrunk and keyed by the modelled
//                    mechanism that explains it.
//   lake   (S)       the same pool queried before and after AddVectors (count() by f, sum(f)).
//   vcomp  (S)       compiler.VectorCompile vs runtime.CompileQuery for programs of the
//                    operator / expression subset the vector compiler accepts (lists read
//                    from the generated tables through the driver).
//   known            fixed witnesses of the recorded findings.

import (
	"encoding/json"
	"fmt"
	"sort"
	"strings"
	"time"

	. "verifharness/hlib"

	zed "github.com/brimdata/super"
)

func main() {
	WorkerMain(workerHandle)
	Main("C09", runC09)
}

// ---- cases ------------------------------------------------------------------------------------

// A record of an object: the value of f (nil = the record has no field f) and whether the
// record has the extra field g (a different top-level type).
type rec struct {
	F     *VVal
	T     int // index into Types (type of f); -1 = no field f
	Extra bool
}

type ocase struct {
	Types   []*TSpec // types of f
	Objects [][]rec
	Label   string
}

type rrec struct {
	T     int  `json:"t"`
	Body  any  `json:"b"` // hex | null
	Extra bool `json:"g,omitempty"`
}

type rcase struct {
	Check   string     `json:"check"`
	Types   []*TSpec   `json:"types,omitempty"`
	Objects [][]rrec   `json:"objects,omitempty"`
	Label   string     `json:"label,omitempty"`
	Query   string     `json:"query,omitempty"`
	Input   string     `json:"input,omitempty"`
	Queries []string   `json:"queries,omitempty"`
	ZSON    [][]string `json:"zson,omitempty"`
	XCase   *xcase     `json:"xcase,omitempty"`
}

func (c *ocase) replay(check string) *rcase {
	r := &rcase{Check: check, Types: c.Types, Label: c.Label}
	for _, o := range c.Objects {
		var ro []rrec
		var zs []string
		for _, x := range o {
			var body any
			if x.T >= 0 && !x.F.Null {
				body = HexAtom(x.F.Body())
			}
			ro = append(ro, rrec{T: x.T, Body: body, Extra: x.Extra})
		}
		r.Objects = append(r.Objects, ro)
		r.ZSON = append(r.ZSON, zs)
	}
	return r
}

func caseOfReplay(r *rcase) *ocase {
	c := &ocase{Types: r.Types, Label: r.Label}
	for _, o := range r.Objects {
		var recs []rec
		for _, x := range o {
			if x.T < 0 || x.T >= len(r.Types) {
				recs = append(recs, rec{T: -1, Extra: x.Extra})
				continue
			}
			recs = append(recs, rec{F: VValOfBody(r.Types[x.T], decodeBody(x.Body)), T: x.T, Extra: x.Extra})
		}
		c.Objects = append(c.Objects, recs)
	}
	return c
}

// shapeKey identifies the top-level record type of a record.
func (x rec) shapeKey() string { return fmt.Sprintf("%d/%v", x.T, x.Extra) }

// modelObjects renders the objects for the driver: per object its top-level types in
// first-seen order, each with the column of f.
func (c *ocase) modelObjects() string {
	var sb strings.Builder
	for _, o := range c.Objects {
		sb.WriteString(" (obj")
		var order []string
		groups := map[string][]rec{}
		for _, x := range o {
			k := x.shapeKey()
			if _, ok := groups[k]; !ok {
				order = append(order, k)
			}
			groups[k] = append(groups[k], x)
		}
		for _, k := range order {
			g := groups[k]
			if g[0].T < 0 {
				fmt.Fprintf(&sb, " (missing %d)", len(g))
				continue
			}
			t := c.Types[g[0].T]
			sb.WriteString(" (col " + t.Descr())
			for _, x := range g {
				sb.WriteByte(' ')
				sb.WriteString(x.F.SexpT(t))
			}
			sb.WriteByte(')')
		}
		sb.WriteByte(')')
	}
	return sb.String()
}

func (c *ocase) key() string { return c.modelObjects() }

// modelObjectList: one "(obj …)" per object.
func (c *ocase) modelObjectList() []string {
	var out []string
	for i := range c.Objects {
		x := &ocase{Types: c.Types, Objects: c.Objects[i : i+1]}
		out = append(out, strings.TrimSpace(x.modelObjects()))
	}
	return out
}

// intVals: (hex int) for every body of an integer-kind column (what Sum decodes).
func (c *ocase) intVals() string {
	seen := map[string]bool{}
	var sb strings.Builder
	sb.WriteString("(vals")
	for _, o := range c.Objects {
		for _, x := range o {
			if x.T < 0 || x.F.Null || x.F.Cont {
				continue
			}
			t := c.Types[x.T]
			if t.Kind != "prim" {
				continue
			}
			h := HexAtom(x.F.Prim)
			var v int64
			switch {
			case t.ID <= zed.IDUint64:
				v = int64(zed.DecodeUint(x.F.Prim))
			case t.ID >= zed.IDInt8 && t.ID <= zed.IDTime:
				v = zed.DecodeInt(x.F.Prim)
			default:
				continue
			}
			k := fmt.Sprintf("%d:%s", kindClass(t.ID), h)
			if seen[k] {
				continue
			}
			seen[k] = true
			fmt.Fprintf(&sb, " (%s %d)", h, v)
		}
	}
	sb.WriteByte(')')
	return sb.String()
}

// intValsAmbiguous: the same body stands for different numbers under a signed and an unsigned
// integer type of this case (int32 "02" = 1, uint8 "02" = 2).  The model's value map is keyed
// by the body alone, so it cannot represent such a case: the Sum tie is skipped for it (the
// vector-vs-sequential oracle is not).
func (c *ocase) intValsAmbiguous() bool {
	vals := map[string]int64{}
	for _, o := range c.Objects {
		for _, x := range o {
			if x.T < 0 || x.F.Null || x.F.Cont {
				continue
			}
			t := c.Types[x.T]
			if t.Kind != "prim" {
				continue
			}
			var v int64
			switch {
			case t.ID <= zed.IDUint64:
				v = int64(zed.DecodeUint(x.F.Prim))
			case t.ID >= zed.IDInt8 && t.ID <= zed.IDTime:
				v = zed.DecodeInt(x.F.Prim)
			default:
				continue
			}
			h := HexAtom(x.F.Prim)
			if w, ok := vals[h]; ok && w != v {
				return true
			}
			vals[h] = v
		}
	}
	return false
}

func kindClass(id int) int {
	if id <= zed.IDUint64 {
		return 0
	}
	return 1
}

// ---- worker -----------------------------------------------------------------------------------

type wReq struct {
	Op      string   `json:"op"` // ops | lake | vcompile
	Types   []*TSpec `json:"types,omitempty"`
	Objects [][]rrec `json:"objects,omitempty"`
	Queries []string `json:"queries,omitempty"`
	Input   string   `json:"input,omitempty"`
	// Parallelism > 0: lake queries run with this many scan legs (compiler.NewLakeQuery)
	Parallelism int `json:"parallelism,omitempty"`
}

type qRes struct {
	Out  []string `json:"out"`
	Rows []aggRow `json:"rows,omitempty"` // count() by: typed rows
	Err  string   `json:"err,omitempty"`
}

type wResp struct {
	Err    string     `json:"err,omitempty"`
	Ops    *opsResult `json:"ops,omitempty"`
	Before []qRes     `json:"before,omitempty"`
	After  []qRes     `json:"after,omitempty"`
	ZSON   []string   `json:"zson,omitempty"`
}

var theLake *TLake
var poolSeq int

// buildObjects: records {k:int64, f:T} / {k:int64, f:T, g:int64} / {k:int64, g:int64}.
func buildObjects(zctx *zed.Context, req *wReq) ([][]zed.Value, error) {
	var ftypes []zed.Type
	for _, s := range req.Types {
		t, err := s.Build(zctx)
		if err != nil {
			return nil, err
		}
		ftypes = append(ftypes, t)
	}
	var out [][]zed.Value
	k := int64(0)
	for _, o := range req.Objects {
		var vals []zed.Value
		for _, x := range o {
			k++
			fields := []zed.Field{{Name: "k", Type: zed.TypeInt64}}
			items := []*VVal{VPrim(zed.EncodeInt(k))}
			if x.T >= 0 {
				fields = append(fields, zed.Field{Name: "f", Type: ftypes[x.T]})
				items = append(items, VValOfBody(req.Types[x.T], decodeBody(x.Body)))
			}
			if x.Extra || x.T < 0 {
				fields = append(fields, zed.Field{Name: "g", Type: zed.TypeInt64})
				items = append(items, VPrim(zed.EncodeInt(1)))
			}
			rt, err := zctx.LookupTypeRecord(fields)
			if err != nil {
				return nil, err
			}
			vals = append(vals, zed.NewValue(rt, VCont(items...).Body()))
		}
		out = append(out, vals)
	}
	return out, nil
}

func workerHandle(raw json.RawMessage) any {
	var req wReq
	var resp wResp
	if err := json.Unmarshal(raw, &req); err != nil {
		resp.Err = err.Error()
		return &resp
	}
	switch req.Op {
	case "vcompile":
		for _, q := range req.Queries {
			s, err := QueryZSON(q, req.Input)
			r := qRes{Out: s}
			if err != nil {
				r.Err = err.Error()
			}
			resp.Before = append(resp.Before, r)
			v, err, p := vectorQuery(q, req.Input)
			r = qRes{Out: v}
			if err != nil {
				r.Err = errStr(err, p)
			}
			resp.After = append(resp.After, r)
		}
		return &resp
	case "ops":
		zctx := zed.NewContext()
		objs, err := buildObjects(zctx, &req)
		if err != nil {
			resp.Err = err.Error()
			return &resp
		}
		resp.Ops = runOps(zctx, objs)
		if resp.Ops.Err != "" {
			// a loader goroutine may be panicking: let the process die first
			time.Sleep(150 * time.Millisecond)
		}
		return &resp
	case "lake":
		zctx := zed.NewContext()
		objs, err := buildObjects(zctx, &req)
		if err != nil {
			resp.Err = err.Error()
			return &resp
		}
		if theLake == nil {
			theLake, err = NewTLake()
			if err != nil {
				resp.Err = err.Error()
				return &resp
			}
		}
		l := theLake
		poolSeq++
		pname := fmt.Sprintf("p%d", poolSeq)
		pool, err := l.CreatePool(pname, "k", false, 0, 0)
		if err != nil {
			resp.Err = err.Error()
			return &resp
		}
		for _, o := range objs {
			var sb strings.Builder
			for _, v := range o {
				sb.WriteString(ZsonOf(v))
				sb.WriteByte('\n')
			}
			resp.ZSON = append(resp.ZSON, sb.String())
			if _, err := l.LoadZSON(pool, "main", sb.String()); err != nil {
				resp.Err = "load: " + err.Error()
				return &resp
			}
		}
		run := func() []qRes {
			var out []qRes
			for _, q := range req.Queries {
				vals, err := lakeQueryValues(l, "from "+pname+" | "+q, req.Parallelism)
				qr := qRes{}
				for _, v := range vals {
					qr.Out = append(qr.Out, ZsonOf(v))
					qr.Rows = append(qr.Rows, cbRowOf(v))
				}
				if err != nil {
					qr.Err = err.Error()
				}
				out = append(out, qr)
			}
			return out
		}
		resp.Before = run()
		if _, err := l.AddVectors(pname, "main"); err != nil {
			resp.Err = "addvectors: " + err.Error()
			return &resp
		}
		resp.After = run()
		return &resp
	}
	resp.Err = "bad op"
	return &resp
}

func trunc(s string, n int) string {
	if len(s) > n {
		return s[:n] + "…"
	}
	return s
}

func sorted(xs []string) []string {
	ys := append([]string{}, xs...)
	sort.Strings(ys)
	return ys
}
