/-
  Proofs about the scatter model (C08): the shared lister hands every item out exactly once
  under every schedule; the legs partition the log; merge fan-in of the legs equals the
  sequential scan (for every schedule and every tie-break) when partitions are strictly
  separated; combine fan-in is a permutation of the sequential scan.
-/
import Zed.Model.ParScatter
namespace Zed.Proofs.ParScatter
open Zed.Par Zed.Agg
variable {α ρ : Type}

/-! ### the lister under an arbitrary schedule -/

theorem foldl_pull_conserve (sched : List Nat) : ∀ (st : LState α),
    ((sched.foldl pull st).log.map (·.2)) ++ (sched.foldl pull st).remaining
      = (st.log.map (·.2)) ++ st.remaining := by
  induction sched with
  | nil => intro st; rfl
  | cons i sched ih =>
    intro st
    simp only [List.foldl_cons]
    rw [ih]
    unfold pull
    split
    · rfl
    · rename_i o r heq
      simp [heq]

/-- every item is handed out exactly once, in order, under every schedule -/
theorem lister_exactly_once (items : List α) (sched : List Nat) :
    ((runSched items sched).log.map (·.2)) ++ (runSched items sched).remaining = items := by
  unfold runSched
  rw [foldl_pull_conserve]
  rfl

theorem foldl_pull_remaining_length (sched : List Nat) : ∀ (st : LState α),
    (sched.foldl pull st).remaining.length = st.remaining.length - sched.length := by
  induction sched with
  | nil => intro st; simp
  | cons i sched ih =>
    intro st
    simp only [List.foldl_cons, List.length_cons]
    rw [ih]
    unfold pull
    split
    · rename_i heq; simp [heq]
    · rename_i o r heq
      simp only [heq, List.length_cons]
      omega

/-- enough pulls drain the lister -/
theorem lister_drains (items : List α) (sched : List Nat) (h : items.length ≤ sched.length) :
    (runSched items sched).remaining = [] := by
  have := foldl_pull_remaining_length sched ({ remaining := items } : LState α)
  apply List.eq_nil_of_length_eq_zero
  unfold runSched
  simp only at this
  omega

theorem foldl_pull_log_legs (sched : List Nat) : ∀ (st : LState α),
    ∀ p ∈ (sched.foldl pull st).log, p ∈ st.log ∨ p.1 ∈ sched := by
  induction sched with
  | nil => intro st p hp; exact Or.inl hp
  | cons i sched ih =>
    intro st p hp
    simp only [List.foldl_cons] at hp
    rcases ih _ p hp with h | h
    · unfold pull at h
      split at h
      · exact Or.inl h
      · simp only [List.mem_append, List.mem_singleton] at h
        rcases h with h | h
        · exact Or.inl h
        · subst h; exact Or.inr (by simp)
    · exact Or.inr (by simp [h])

/-- the log only names legs that pulled -/
theorem log_legs_in_sched (items : List α) (sched : List Nat) :
    ∀ p ∈ (runSched items sched).log, p.1 ∈ sched := by
  intro p hp
  rcases foldl_pull_log_legs sched ({ remaining := items } : LState α) p hp with h | h
  · simp at h
  · exact h

/-- when the lister is drained the log lists exactly the items, in order -/
theorem log_items_of_drained (items : List α) (sched : List Nat)
    (hdone : (runSched items sched).remaining = []) :
    (runSched items sched).log.map (·.2) = items := by
  have := lister_exactly_once items sched
  rw [hdone, List.append_nil] at this
  exact this

/-! ### legs -/

theorem leg_cons (p : Nat × α) (log : List (Nat × α)) (j : Nat) :
    leg (p :: log) j = if p.1 = j then p.2 :: leg log j else leg log j := by
  unfold leg
  by_cases h : p.1 = j <;> simp [h]

theorem mem_leg {log : List (Nat × α)} {j : Nat} {o : α} :
    o ∈ leg log j ↔ ∃ p ∈ log, p.1 = j ∧ p.2 = o := by
  unfold leg
  simp only [List.mem_map, List.mem_filter, beq_iff_eq]
  constructor
  · rintro ⟨p, ⟨hp, hj⟩, ho⟩; exact ⟨p, hp, hj, ho⟩
  · rintro ⟨p, hp, hj, ho⟩; exact ⟨p, ⟨hp, hj⟩, ho⟩

theorem range_flatMap_leg (log : List (Nat × α)) (n : Nat) :
    ((List.range n).flatMap (leg log)).Perm ((log.filter (fun p => decide (p.1 < n))).map (·.2)) := by
  induction n with
  | zero => simp
  | succ n ih =>
    rw [List.range_succ, List.flatMap_append]
    have h1 : (log.filter (fun p => decide (p.1 < n + 1))).filter (fun p => decide (p.1 < n))
        = log.filter (fun p => decide (p.1 < n)) := by
      rw [List.filter_filter]
      apply List.filter_congr
      intro x _
      by_cases h : x.1 < n
      · have : x.1 < n + 1 := by omega
        simp [h, this]
      · simp [h]
    have h2 : (log.filter (fun p => decide (p.1 < n + 1))).filter (fun p => !decide (p.1 < n))
        = log.filter (fun p => p.1 == n) := by
      rw [List.filter_filter]
      apply List.filter_congr
      intro x _
      rw [Bool.eq_iff_iff]
      simp only [Bool.and_eq_true, Bool.not_eq_true', decide_eq_true_eq,
        decide_eq_false_iff_not, beq_iff_eq]
      omega
    have hp := List.filter_append_perm (fun p : Nat × α => decide (p.1 < n))
      (log.filter (fun p => decide (p.1 < n + 1)))
    rw [h1, h2] at hp
    have hp' := hp.map (·.2)
    rw [List.map_append] at hp'
    refine List.Perm.trans ?_ hp'
    apply List.Perm.append ih
    simp [leg]

/-- the legs partition the log: with all legs < n, concatenating the legs gives a permutation
    of the handed items -/
theorem legs_perm (log : List (Nat × α)) (n : Nat) (h : ∀ p ∈ log, p.1 < n) :
    ((List.range n).flatMap (leg log)).Perm (log.map (·.2)) := by
  have := range_flatMap_leg log n
  have hf : log.filter (fun p => decide (p.1 < n)) = log := by
    apply List.filter_eq_self.2
    intro p hp
    simpa using h p hp
  rw [hf] at this
  exact this

theorem eq_of_nodup_map {β γ : Type} (f : β → γ) : ∀ (l : List β), (l.map f).Nodup →
    ∀ a ∈ l, ∀ b ∈ l, f a = f b → a = b := by
  intro l
  induction l with
  | nil => intro _ a ha; simp at ha
  | cons c l ih =>
    intro hnd a ha b hb hab
    simp only [List.map_cons, List.nodup_cons, List.mem_map, not_exists, not_and] at hnd
    rcases List.mem_cons.1 ha with ha' | ha' <;> rcases List.mem_cons.1 hb with hb' | hb'
    · rw [ha', hb']
    · rw [ha'] at hab; exact absurd hab.symm (hnd.1 b hb')
    · rw [hb'] at hab; exact absurd hab (hnd.1 a ha')
    · exact ih hnd.2 a ha' b hb' hab

/-- an item (items duplicate-free) is in exactly one leg once the lister is drained -/
theorem exactly_one_leg (items : List α) (hnd : items.Nodup) (sched : List Nat) (n : Nat)
    (hn : ∀ i ∈ sched, i < n) (hdone : (runSched items sched).remaining = []) :
    ∀ o ∈ items, ∃ i, i < n ∧ o ∈ leg (runSched items sched).log i ∧
      ∀ j, o ∈ leg (runSched items sched).log j → j = i := by
  intro o ho
  have hlog := log_items_of_drained items sched hdone
  rw [← hlog] at ho hnd
  obtain ⟨p, hp, hpo⟩ := List.mem_map.1 ho
  refine ⟨p.1, hn _ (log_legs_in_sched items sched p hp), mem_leg.2 ⟨p, hp, rfl, hpo⟩, ?_⟩
  intro j hj
  obtain ⟨q, hq, hqj, hqo⟩ := mem_leg.1 hj
  have : q = p := eq_of_nodup_map (·.2) _ hnd q hq p hp (by rw [hqo, hpo])
  rw [← hqj, this]

/-! ### combine fan-in -/

theorem flatten_perm_of_getElem? : ∀ (legs : List (List ρ)) (i : Nat) (x : ρ) (t : List ρ),
    legs[i]? = some (x :: t) → legs.flatten.Perm (x :: (legs.set i t).flatten) := by
  intro legs
  induction legs with
  | nil => intro i x t h; simp at h
  | cons l legs ih =>
    intro i x t h
    cases i with
    | zero =>
      simp only [List.getElem?_cons_zero, Option.some.injEq] at h
      subst h
      simp
    | succ i =>
      simp only [List.getElem?_cons_succ] at h
      simp only [List.set_cons_succ, List.flatten_cons]
      have := (ih i x t h).append_left l
      exact this.trans List.perm_middle

/-- any interleaving of lists is a permutation of their concatenation -/
theorem interleave_perm_flatten {legs : List (List ρ)} {out : List ρ}
    (h : Interleave legs out) : out.Perm legs.flatten := by
  induction h with
  | done hall =>
    rename_i legs
    have : legs.flatten = [] := by
      apply List.flatten_eq_nil_iff.2
      exact hall
    rw [this]
  | step hget _ ih =>
    exact ((flatten_perm_of_getElem? _ _ _ _ hget).trans (ih.cons _).symm).symm

theorem legsOut_flatten (scan : α → List ρ) (log : List (Nat × α)) (n : Nat) :
    (legsOut scan log n).flatten = ((List.range n).flatMap (leg log)).flatMap scan := by
  unfold legsOut legOut
  rw [← List.flatMap_def, List.flatMap_assoc]

/-- combine fan-in: any interleaving of the legs is a permutation of the sequential scan -/
theorem scatter_combine_equiv (scan : α → List ρ) (items : List α) (sched : List Nat) (n : Nat)
    (hn : ∀ i ∈ sched, i < n) (hdone : (runSched items sched).remaining = [])
    (out : List ρ) (hi : Interleave (legsOut scan (runSched items sched).log n) out) :
    out.Perm (sequential scan items) := by
  have h1 := interleave_perm_flatten hi
  rw [legsOut_flatten] at h1
  have h2 := legs_perm (runSched items sched).log n
    (fun p hp => hn _ (log_legs_in_sched items sched p hp))
  rw [log_items_of_drained items sched hdone] at h2
  exact h1.trans (h2.flatMap_right scan)

/-! ### merge fan-in: the tagged-list lemma -/

/-- the legs of a tagged list -/
def legs (T : List (Nat × ρ)) (n : Nat) : List (List ρ) := (List.range n).map (leg T)

theorem legs_getElem? (T : List (Nat × ρ)) (n j : Nat) :
    (legs T n)[j]? = if j < n then some (leg T j) else none := by
  unfold legs
  by_cases h : j < n
  · simp [h]
  · simp [h]

theorem mem_legs {T : List (Nat × ρ)} {n : Nat} {l : List ρ} :
    l ∈ legs T n ↔ ∃ j, j < n ∧ l = leg T j := by
  unfold legs
  simp only [List.mem_map, List.mem_range]
  constructor
  · rintro ⟨j, hj, h⟩; exact ⟨j, hj, h.symm⟩
  · rintro ⟨j, hj, h⟩; exact ⟨j, hj, h.symm⟩

theorem legs_set_head (p : Nat × ρ) (T : List (Nat × ρ)) (n : Nat) :
    (legs (p :: T) n).set p.1 (leg T p.1) = legs T n := by
  apply List.ext_getElem?
  intro k
  rw [List.getElem?_set, legs_getElem?, legs_getElem?]
  by_cases hk : p.1 = k
  · subst hk
    simp only [if_true]
    have : (legs (p :: T) n).length = n := by simp [legs]
    rw [this]
  · simp only [hk, if_false, leg_cons]

/-- Tagged-list lemma: if elements with different tags are strictly ordered (earlier < later),
    every k-way merge of the legs of `T` reproduces `T`.  (No sortedness within a tag is needed:
    the order inside a leg is fixed by the leg itself.) -/
theorem kmerge_legs_unique (le : ρ → ρ → Bool) (n : Nat) : ∀ (T : List (Nat × ρ)),
    (∀ p ∈ T, p.1 < n) →
    T.Pairwise (fun a b => a.1 ≠ b.1 → lt le a.2 b.2 = true) →
    ∀ out, KMerge le (legs T n) out → out = T.map (·.2) := by
  intro T
  induction T with
  | nil =>
    intro _ _ out hm
    generalize hL : legs ([] : List (Nat × ρ)) n = L at hm
    cases hm with
    | done _ => rfl
    | step hget _ _ =>
      rename_i j x t out'
      rw [← hL, legs_getElem?] at hget
      split at hget
      · simp [leg] at hget
      · simp at hget
  | cons p T ih =>
    intro htag hsep out hm
    have hp : p.1 < n := htag p (by simp)
    have hsep' := List.pairwise_cons.1 hsep
    have hhead : leg (p :: T) p.1 = p.2 :: leg T p.1 := by simp [leg_cons]
    have hmem : (p.2 :: leg T p.1) ∈ legs (p :: T) n := mem_legs.2 ⟨p.1, hp, hhead.symm⟩
    generalize hL : legs (p :: T) n = L at hm
    cases hm with
    | done hall =>
      have := hall _ (hL ▸ hmem)
      simp at this
    | step hget hmin hrest =>
      rename_i j y t out'
      subst hL
      rw [legs_getElem?] at hget
      split at hget
      · rename_i hj
        simp only [Option.some.injEq] at hget
        by_cases hjp : p.1 = j
        · subst hjp
          rw [hhead] at hget
          simp only [List.cons.injEq] at hget
          obtain ⟨hy, ht⟩ := hget
          subst hy; subst ht
          rw [legs_set_head] at hrest
          have := ih (fun q hq => htag q (by simp [hq])) hsep'.2 out' hrest
          simp [this]
        · exfalso
          rw [leg_cons, if_neg hjp] at hget
          have hyin : y ∈ leg T j := by rw [hget]; simp
          obtain ⟨q, hq, hqj, hqy⟩ := mem_leg.1 hyin
          have hlt : lt le p.2 y = true := by
            have := hsep'.1 q hq (by rw [hqj]; exact hjp)
            rw [hqy] at this; exact this
          have hle : le y p.2 = true := hmin _ hmem p.2 (by simp)
          unfold lt at hlt
          simp [hle] at hlt
      · simp at hget

/-- the tagged list of a log: every scanned value tagged with the leg that scanned it -/
def tagged (scan : α → List ρ) (log : List (Nat × α)) : List (Nat × ρ) :=
  log.flatMap (fun p => (scan p.2).map (fun x => (p.1, x)))

theorem leg_tagged (scan : α → List ρ) (log : List (Nat × α)) (i : Nat) :
    leg (tagged scan log) i = legOut scan log i := by
  induction log with
  | nil => simp [tagged, leg, legOut]
  | cons p log ih =>
    have hcons : tagged scan (p :: log) = (scan p.2).map (fun x => (p.1, x)) ++ tagged scan log := by
      simp [tagged]
    have happ : leg (tagged scan (p :: log)) i
        = leg ((scan p.2).map (fun x => (p.1, x))) i ++ leg (tagged scan log) i := by
      rw [hcons]; simp [leg]
    rw [happ, ih]
    unfold legOut
    rw [leg_cons]
    by_cases h : p.1 = i
    · have : leg ((scan p.2).map (fun x => (p.1, x))) i = scan p.2 := by
        simp [leg, List.filter_map, h, Function.comp_def]
      rw [this, if_pos h, List.flatMap_cons]
    · have : leg ((scan p.2).map (fun x => (p.1, x))) i = [] := by
        simp [leg, List.filter_map, h, Function.comp_def]
      rw [this, if_neg h, List.nil_append]

theorem legs_tagged (scan : α → List ρ) (log : List (Nat × α)) (n : Nat) :
    legs (tagged scan log) n = legsOut scan log n := by
  unfold legs legsOut
  apply List.map_congr_left
  intro i _
  exact leg_tagged scan log i

theorem tagged_map_snd (scan : α → List ρ) (log : List (Nat × α)) :
    (tagged scan log).map (·.2) = sequential scan (log.map (·.2)) := by
  induction log with
  | nil => simp [tagged, sequential]
  | cons p log ih =>
    simp only [tagged, sequential, List.flatMap_cons, List.map_append, List.map_cons] at ih ⊢
    rw [ih]
    simp [Function.comp_def]

theorem mem_tagged {scan : α → List ρ} {log : List (Nat × α)} {a : Nat × ρ} :
    a ∈ tagged scan log ↔ ∃ p ∈ log, a.1 = p.1 ∧ a.2 ∈ scan p.2 := by
  unfold tagged
  simp only [List.mem_flatMap, List.mem_map]
  constructor
  · rintro ⟨p, hp, x, hx, rfl⟩; exact ⟨p, hp, rfl, hx⟩
  · rintro ⟨p, hp, h1, h2⟩; exact ⟨p, hp, a.2, h2, by rw [← h1]⟩

theorem tagged_sep (le : ρ → ρ → Bool) (scan : α → List ρ) : ∀ (log : List (Nat × α)),
    (log.map (·.2)).Pairwise (fun p q => ∀ x ∈ scan p, ∀ y ∈ scan q, lt le x y = true) →
    (tagged scan log).Pairwise (fun a b => a.1 ≠ b.1 → lt le a.2 b.2 = true) := by
  intro log
  induction log with
  | nil => intro _; simp [tagged]
  | cons p log ih =>
    intro h
    simp only [List.map_cons, List.pairwise_cons] at h
    have hcons : tagged scan (p :: log) = (scan p.2).map (fun x => (p.1, x)) ++ tagged scan log := by
      simp [tagged]
    rw [hcons, List.pairwise_append]
    refine ⟨?_, ih h.2, ?_⟩
    · rw [List.pairwise_map]
      exact List.Pairwise.imp (R := fun _ _ => True) (fun _ hne => absurd rfl hne)
        (List.pairwise_of_forall (fun _ _ => trivial))
    · intro a ha b hb hne
      obtain ⟨x, hx, rfl⟩ := List.mem_map.1 ha
      obtain ⟨q, hq, _, hb2⟩ := mem_tagged.1 hb
      exact h.1 q.2 (List.mem_map.2 ⟨q, hq, rfl⟩) x hx b.2 hb2

/-- merge fan-in, strong form: strict separation of the partitions alone forces every merge of
    the legs (any schedule, any tie-break) to be the sequential scan. -/
theorem scatter_merge_equiv_of_sep (le : ρ → ρ → Bool) (scan : α → List ρ)
    (items : List α) (sched : List Nat) (n : Nat)
    (hn : ∀ i ∈ sched, i < n)
    (hdone : (runSched items sched).remaining = [])
    (hsep : items.Pairwise (fun p q => ∀ x ∈ scan p, ∀ y ∈ scan q, lt le x y = true))
    (out : List ρ) (hm : KMerge le (legsOut scan (runSched items sched).log n) out) :
    out = sequential scan items := by
  have hlog := log_items_of_drained items sched hdone
  rw [← legs_tagged] at hm
  have := kmerge_legs_unique le n (tagged scan (runSched items sched).log)
    (by
      intro a ha
      obtain ⟨p, hp, h1, _⟩ := mem_tagged.1 ha
      rw [h1]; exact hn _ (log_legs_in_sched items sched p hp))
    (tagged_sep le scan _ (by rw [hlog]; exact hsep))
    out hm
  rw [this, tagged_map_snd, hlog]

set_option linter.unusedVariables false in
/-- merge fan-in: for every schedule (= assignment of partitions to legs) and every tie-breaking
    of the merge, the merged legs equal the sequential scan, when each partition's scan is sorted
    and partitions are strictly separated.  (`hle` and `hsorted` are not used by the proof: see
    `scatter_merge_equiv_of_sep`; they make the result a *sorted* list, `sequential_sorted`.) -/
theorem scatter_merge_equiv (le : ρ → ρ → Bool) (hle : TotalPreorder le) (scan : α → List ρ)
    (items : List α) (sched : List Nat) (n : Nat)
    (hn : ∀ i ∈ sched, i < n)
    (hdone : (runSched items sched).remaining = [])
    (hsorted : ∀ it ∈ items, (scan it).Pairwise (fun x y => le x y = true))
    (hsep : items.Pairwise (fun p q => ∀ x ∈ scan p, ∀ y ∈ scan q, lt le x y = true))
    (out : List ρ) (hm : KMerge le (legsOut scan (runSched items sched).log n) out) :
    out = sequential scan items :=
  scatter_merge_equiv_of_sep le scan items sched n hn hdone hsep out hm

/-- under the hypotheses of `scatter_merge_equiv` the common result is sorted -/
theorem sequential_sorted (le : ρ → ρ → Bool) (scan : α → List ρ) (items : List α)
    (hsorted : ∀ it ∈ items, (scan it).Pairwise (fun x y => le x y = true))
    (hsep : items.Pairwise (fun p q => ∀ x ∈ scan p, ∀ y ∈ scan q, lt le x y = true)) :
    (sequential scan items).Pairwise (fun x y => le x y = true) := by
  unfold sequential
  rw [List.pairwise_flatMap]
  refine ⟨hsorted, hsep.imp ?_⟩
  intro p q h x hx y hy
  have := h x hx y hy
  unfold lt at this
  simp only [Bool.and_eq_true] at this
  exact this.1

/-! ### the deterministic merge `kmergeFn` is one of the allowed merges -/

/-- invariant of the `minHead` scan: `best` is a minimal head among the legs in `pre` -/
def Good (le : ρ → ρ → Bool) (full pre : List (List ρ)) : Option (Nat × ρ) → Prop
  | none => ∀ l ∈ pre, l = []
  | some (j, y) => (∃ t, full[j]? = some (y :: t)) ∧
      ∀ l ∈ pre, ∀ z, l.head? = some z → le y z = true

theorem minHead_good (le : ρ → ρ → Bool) (hle : TotalPreorder le) (full : List (List ρ)) :
    ∀ (ls pre : List (List ρ)) (i : Nat) (best : Option (Nat × ρ)),
    full = pre ++ ls → pre.length = i → Good le full pre best →
    Good le full full (minHead le ls i best) := by
  intro ls
  induction ls with
  | nil =>
    intro pre i best hfull _ hg
    simp only [List.append_nil] at hfull
    subst hfull
    simpa [minHead] using hg
  | cons l ls ih =>
    intro pre i best hfull hlen hg
    have hfull' : full = (pre ++ [l]) ++ ls := by simp [hfull]
    have hlen' : (pre ++ [l]).length = i + 1 := by simp [hlen]
    cases l with
    | nil =>
      simp only [minHead]
      apply ih (pre ++ [[]]) (i + 1) best hfull' hlen'
      cases best with
      | none =>
        intro l hl
        rcases List.mem_append.1 hl with h | h
        · exact hg l h
        · simpa using h
      | some b =>
        obtain ⟨j, y⟩ := b
        refine ⟨hg.1, ?_⟩
        intro l hl z hz
        rcases List.mem_append.1 hl with h | h
        · exact hg.2 l h z hz
        · have : l = [] := by simpa using h
          subst this; simp at hz
    | cons x t =>
      have hget : full[i]? = some (x :: t) := by
        rw [hfull, ← hlen]; simp
      cases best with
      | none =>
        simp only [minHead]
        apply ih (pre ++ [x :: t]) (i + 1) (some (i, x)) hfull' hlen'
        refine ⟨⟨t, hget⟩, ?_⟩
        intro l hl z hz
        rcases List.mem_append.1 hl with h | h
        · have := hg l h
          subst this; simp at hz
        · have : l = x :: t := by simpa using h
          subst this
          simp only [List.head?_cons, Option.some.injEq] at hz
          subst hz; exact hle.refl _
      | some b =>
        obtain ⟨j, y⟩ := b
        simp only [minHead]
        split
        · rename_i hlt
          have hxy : le x y = true := by
            unfold lt at hlt
            simp only [Bool.and_eq_true] at hlt
            exact hlt.1
          apply ih (pre ++ [x :: t]) (i + 1) (some (i, x)) hfull' hlen'
          refine ⟨⟨t, hget⟩, ?_⟩
          intro l hl z hz
          rcases List.mem_append.1 hl with h | h
          · exact hle.trans _ _ _ hxy (hg.2 l h z hz)
          · have : l = x :: t := by simpa using h
            subst this
            simp only [List.head?_cons, Option.some.injEq] at hz
            subst hz; exact hle.refl _
        · rename_i hlt
          have hyx : le y x = true := by
            rcases hle.total x y with h | h
            · unfold lt at hlt
              simpa [h] using hlt
            · exact h
          apply ih (pre ++ [x :: t]) (i + 1) (some (j, y)) hfull' hlen'
          refine ⟨hg.1, ?_⟩
          intro l hl z hz
          rcases List.mem_append.1 hl with h | h
          · exact hg.2 l h z hz
          · have : l = x :: t := by simpa using h
            subst this
            simp only [List.head?_cons, Option.some.injEq] at hz
            subst hz; exact hyx

/-- the deterministic merge is one of the merges allowed by `KMerge` (given enough fuel) -/
theorem kmergeFn_isKMerge (le : ρ → ρ → Bool) (hle : TotalPreorder le) :
    ∀ (fuel : Nat) (legs : List (List ρ)), legs.flatten.length ≤ fuel →
    KMerge le legs (kmergeFn le fuel legs) := by
  intro fuel
  induction fuel with
  | zero =>
    intro legs h
    simp only [kmergeFn]
    apply KMerge.done
    apply List.flatten_eq_nil_iff.1
    apply List.eq_nil_of_length_eq_zero
    omega
  | succ fuel ih =>
    intro legs h
    have hg := minHead_good le hle legs legs [] 0 none (by simp) rfl (by intro l hl; simp at hl)
    simp only [kmergeFn]
    cases hmh : minHead le legs 0 none with
    | none =>
      rw [hmh] at hg
      exact KMerge.done hg
    | some b =>
      obtain ⟨i, x⟩ := b
      rw [hmh] at hg
      obtain ⟨⟨t, hget⟩, hmin⟩ := hg
      have htail : legs[i]!.tail = t := by
        simp [getElem!_def, hget]
      simp only [htail]
      have hlen := (flatten_perm_of_getElem? legs i x t hget).length_eq
      simp only [List.length_cons] at hlen
      exact KMerge.step hget hmin (ih _ (by omega))

/-- existence: under a total preorder every family of legs has a merge -/
theorem kmerge_exists (le : ρ → ρ → Bool) (hle : TotalPreorder le) (legs : List (List ρ)) :
    ∃ out, KMerge le legs out :=
  ⟨_, kmergeFn_isKMerge le hle _ legs (Nat.le_refl _)⟩

/-! ### non-vacuity: a 3-leg schedule over 4 partitions of Int keys -/

private def exItems : List (List Int) := [[1, 2], [3, 3], [4, 6], [7]]
private def exSched : List Nat := [0, 1, 2, 0]
private def exLe : Int → Int → Bool := fun a b => decide (a ≤ b)

example : (runSched exItems exSched).log = [(0, [1, 2]), (1, [3, 3]), (2, [4, 6]), (0, [7])] := by
  decide
example : (runSched exItems exSched).remaining = [] := by decide
example : legsOut id (runSched exItems exSched).log 3 = [[1, 2, 7], [3, 3], [4, 6]] := by decide
example : ∀ i ∈ exSched, i < 3 := by decide
example : ∀ it ∈ exItems, (id it).Pairwise (fun x y => exLe x y = true) := by decide
example : exItems.Pairwise (fun p q => ∀ x ∈ id p, ∀ y ∈ id q, lt exLe x y = true) := by decide
example : exItems.Nodup := by decide
example : sequential id exItems = [1, 2, 3, 3, 4, 6, 7] := by decide

/-- the deterministic merge is a `KMerge` on the instance, and it computes the sequential scan -/
example : KMerge exLe (legsOut id (runSched exItems exSched).log 3) [1, 2, 3, 3, 4, 6, 7] := by
  have h := kmergeFn_isKMerge exLe intLe_totalPreorder 7
    (legsOut id (runSched exItems exSched).log 3) (by decide)
  have e : kmergeFn exLe 7 (legsOut id (runSched exItems exSched).log 3) = [1, 2, 3, 3, 4, 6, 7] := by
    decide
  rw [e] at h
  exact h

/-- all hypotheses of `scatter_merge_equiv` hold on the instance (so the theorem is not vacuous),
    and its conclusion is the expected list -/
example : kmergeFn exLe 7 (legsOut id (runSched exItems exSched).log 3) = sequential id exItems :=
  scatter_merge_equiv exLe intLe_totalPreorder id exItems exSched 3 (by decide) (by decide)
    (by decide) (by decide) _
    (kmergeFn_isKMerge exLe intLe_totalPreorder 7 _ (by decide))

/-- an explicit interleaving of the three legs (round robin) and the combine theorem on it -/
example : Interleave (legsOut id (runSched exItems exSched).log 3) [1, 3, 4, 2, 3, 6, 7] := by
  have e : legsOut id (runSched exItems exSched).log 3 = [[1, 2, 7], [3, 3], [4, 6]] := by decide
  rw [e]
  refine Interleave.step (i := 0) (t := [2, 7]) rfl ?_
  refine Interleave.step (i := 1) (t := [3]) rfl ?_
  refine Interleave.step (i := 2) (t := [6]) rfl ?_
  refine Interleave.step (i := 0) (t := [7]) rfl ?_
  refine Interleave.step (i := 1) (t := []) rfl ?_
  refine Interleave.step (i := 2) (t := []) rfl ?_
  refine Interleave.step (i := 0) (t := []) rfl ?_
  exact Interleave.done (by decide)

/-- separation matters: with overlapping partitions a legal merge differs from the sequential
    scan (items [[1,5],[2]] on two legs: the merge gives [1,2,5], the scan [1,5,2]). -/
example : KMerge exLe (legsOut id (runSched [[1, 5], [2]] [0, 1]).log 2) [1, 2, 5] ∧
    sequential id [[1, 5], [(2 : Int)]] ≠ [1, 2, 5] := by
  refine ⟨?_, by decide⟩
  have h := kmergeFn_isKMerge exLe intLe_totalPreorder 3
    (legsOut id (runSched [[1, 5], [(2 : Int)]] [0, 1]).log 2) (by decide)
  have e : kmergeFn exLe 3 (legsOut id (runSched [[1, 5], [(2 : Int)]] [0, 1]).log 2) = [1, 2, 5] := by
    decide
  rw [e] at h
  exact h

end Zed.Proofs.ParScatter
