/-
  C11 — untrusted bytes never crash or hang the process; with validation on, values handed out
  are structurally consistent.
  Property theorems only.  The binary decoders are the TOTAL functions of Zed/Model/Zng*.lean
  (`List UInt8 → …`, every bound check of the Go code, panic sites as values); the theorems say
  that every loop consumes input (so termination is a theorem, not fuel), that the allocation
  requests are bounded by the configured read limit, that the reader reaches no panic site, and what
  `Validate` guarantees (with negations on concrete witnesses that the harness replays on the real code).
  The text readers and the query compiler have no model: fuzzing only (evidence: search).
-/
import Zed.Proofs.ZngAlloc
import Zed.Proofs.ZngValidate
import Zed.Proofs.ZngTypes
import Zed.Proofs.ZngPanics
import Zed.Proofs.ZngTypeValue
import Zed.Model.ZngVng
namespace Zed.Props.C11
open Zed.Zng Zed.Generated.C01

/-! ## progress: every decoder loop consumes at least one byte per iteration -/

/-- varint: a successful read consumes 1 … 10 bytes and yields a 64-bit value -/
theorem progress_uvarint (bs : Bytes) (v : Nat) (r : Bytes) (h : readUvarint bs = .ok (v, r)) :
    r.length < bs.length ∧ (∃ p, bs = p ++ r ∧ p.length ≤ 10) ∧ v < two64 :=
  ⟨readUvarint_progress bs v r h, readUvarintAux_suffix 10 true bs v r h, readUvarint_lt bs v r h⟩

/-- zcode iterator (`Iter.Next`, used by Walk/Validate) -/
theorem progress_zcode (bs : Bytes) (v : Option Bytes) (r : Bytes) (h : znext bs = .ok (v, r)) :
    r.length < bs.length := znext_progress bs v r h

/-- typedef decoder: one typedef consumes its code byte and never grows the input; the counted
    loops (`for k < n`) consume at least one byte (two for record fields) per trip, so a count
    taken from the input cannot make them spin -/
theorem progress_typedef {ctx ctx' : Ctx} {code : Nat} {bs r : Bytes}
    (h : decTypedef ctx code bs = .ok (ctx', r)) : r.length ≤ bs.length := decTypedef_progress h

theorem progress_typedef_loops {ctx : Ctx} {n : Nat} {bs r : Bytes} :
    (∀ fs, rdFields ctx n bs = .ok (fs, r) → r.length + 2 * n ≤ bs.length) ∧
    (∀ ts, rdTypes ctx n bs = .ok (ts, r) → r.length + n ≤ bs.length) ∧
    (∀ ss, rdSyms n bs = .ok (ss, r) → r.length + n ≤ bs.length) :=
  ⟨fun _ h => (rdFields_progress h).1, fun _ h => (rdTypes_progress h).1, fun _ h => (rdSyms_progress h).1⟩

/-- value decoder (`decodeVal`, the loop of `scanBatch`) -/
theorem progress_value {o : ROpts} {ctx : Ctx} {bs r : Bytes} {v : RVal}
    (h : decodeVal o ctx bs = .ok v r) : r.length < bs.length := decodeVal_progress h

/-- frame parser (`parser.read`): a frame that is not the end of the stream leaves strictly less
    input (its code byte is consumed before `step`) -/
theorem progress_frame {o : ROpts} {decomp : Bytes → Nat → Option Bytes} {ctx ctx' : Ctx} {code : UInt8}
    {bs rest : Bytes} {vs : List RVal} {al : List Nat}
    (h : step o decomp ctx code bs = .cont ctx' vs al rest) : rest.length < (code :: bs).length := by
  have := step_progress h; simp; omega

/-! ## allocation -/

/-- **alloc_bounded.**  For every input, every LZ4 behaviour and every starting context, each
    buffer the ZNG parser asks for (peeker growth, pooled frame buffers for compressed and
    uncompressed payloads) is at most `ReaderOpts.Max`. -/
theorem alloc_bounded (o : ROpts) (decomp : Bytes → Nat → Option Bytes) (ctx : Ctx) (bs : Bytes) :
    ∀ a ∈ (readStream o decomp ctx bs).allocs, a ≤ o.maxSize :=
  readStream_allocs o decomp bs.length ctx bs (Nat.le_refl _)

/-! ## no panic in the ZNG reader -/

/-- **reader_never_panics.**  For every input, every option setting, every LZ4 behaviour and every
    starting context the modelled ZNG reader ends with values/EOF or an error — it reaches no panic
    site.  (Until repo commit 0b09f99cc this was FALSE of the code: three `int`s taken from 64-bit
    varints — a value's type id, a compressed frame's declared size, a typedef's string length —
    were used as index / length without a sign check; the negations `not_reader_panic_free_*` were
    proved here on the 13-byte witnesses below and replayed on the real code, where they killed the
    process from the scanner's goroutines.  The repair added the three sign checks, the model
    follows the repaired code, and the full statement is now a theorem.) -/
theorem reader_never_panics (o : ROpts) (decomp : Bytes → Nat → Option Bytes) (ctx : Ctx) (bs : Bytes)
    (s : String) : (readStream o decomp ctx bs).out ≠ .panic s :=
  readStream_no_panic o decomp bs.length ctx bs s (Nat.le_refl _)

/-- the former panic witnesses (the harness replays them on the real code on every run) -/
def witnessNegId : Bytes := [0x1b, 0x00, 0x80, 0x80, 0x80, 0x80, 0x80, 0x80, 0x80, 0x80, 0x80, 0x01, 0x01]
def witnessNegSize : Bytes := [0x5b, 0x00, 0x00, 0x80, 0x80, 0x80, 0x80, 0x80, 0x80, 0x80, 0x80, 0x80, 0x01]
def witnessNegStr : Bytes := [0x0b, 0x00, 0x07, 0x80, 0x80, 0x80, 0x80, 0x80, 0x80, 0x80, 0x80, 0x80, 0x01]

/-- a value whose type id is 2^63 is now an ordinary error -/
theorem former_witness_type_id (decomp : Bytes → Nat → Option Bytes) :
    (readAll ⟨1073741824, false⟩ decomp witnessNegId).out = .err := by
  have hd : decodeVal ⟨1073741824, false⟩ [] [0x80, 0x80, 0x80, 0x80, 0x80, 0x80, 0x80, 0x80, 0x80, 0x01, 0x01]
      = .err := by decide
  have hv : decodeVals ⟨1073741824, false⟩ [] [0x80, 0x80, 0x80, 0x80, 0x80, 0x80, 0x80, 0x80, 0x80, 0x01, 0x01]
      = .error .err := by
    rw [decodeVals]
    simp only [List.isEmpty_cons, Bool.false_eq_true, if_false]
    split
    · rfl
    · rename_i h; rw [hd] at h; cases h
    · rename_i h; rw [hd] at h; cases h
  have hs : step ⟨1073741824, false⟩ decomp [] 0x1b [0x00, 0x80, 0x80, 0x80, 0x80, 0x80, 0x80, 0x80, 0x80, 0x80, 0x01, 0x01]
      = .done .err [11, 11] := by
    simp only [step, readFrame, readPlainFrame]
    simp (config := { decide := true }) [eos, versionMask, frameTypeOf, typesFrame, valuesFrame, compressedMask, frameLen, readUvarint, readUvarintAux, decodeLengthExpr, asInt, two63, two64, peekRead, hasLen]
    rw [hv]
  unfold readAll witnessNegId
  rw [readStream]
  split
  · rename_i e al h; rw [hs] at h; cases h; rfl
  · rename_i h; rw [hs] at h; cases h

/-! ## type values (`Context.DecodeTypeValue` / `LookupByValue`) -/

/-- **typevalue_decode_total.**  The model of `DecodeTypeValue` is a fuel-indexed function; with
    fuel `length + 1` it never runs out: every recursive call and every iteration of the record,
    union and enum loops first consumes a byte (the loop counts are taken from the input and checked
    against `MaxRecordFields` / `MaxUnionTypes` / `MaxEnumSymbols`, so they bound the `make` calls). -/
theorem typevalue_decode_total (tv : Bytes) : TV.lookupByValue tv ≠ .fuelOut :=
  TV.lookupByValue_total tv

/-- FULL statement "decoding a type value ends with a type or an error" is FALSE of the current
    code at three places (witnesses replayed on the real code by the harness on every run):
    a union member that fails to decode is appended as nil and `LookupTypeUnion` panics on it … -/
theorem not_typevalue_panic_free_union :
    (∃ p, TV.lookupByValue [UInt8.ofNat typeValueUnion, 1] = .panic p) ∧
    (∃ p, TV.lookupByValue [UInt8.ofNat typeValueUnion, 2, 9] = .panic p) :=
  ⟨⟨_, rfl⟩, ⟨_, rfl⟩⟩

set_option maxRecDepth 8000 in
/-- … a name length ≥ 2^63 is a negative `int` that passes `namelen > len(tv)` and `tv[:namelen]`
    panics … -/
theorem not_typevalue_panic_free_name :
    ∃ p, TV.lookupByValue [UInt8.ofNat typeValueNameDef, 0x80, 0x80, 0x80, 0x80, 0x80, 0x80, 0x80, 0x80, 0x80, 0x01, 9] = .panic p :=
  ⟨_, rfl⟩

set_option maxRecDepth 8000 in
/-- … and a field/member count ≥ 2^63 passes `n > MaxRecordFields` and `make(…, 0, n)` panics. -/
theorem not_typevalue_panic_free_count :
    ∃ p, TV.lookupByValue [UInt8.ofNat typeValueRecord, 0x80, 0x80, 0x80, 0x80, 0x80, 0x80, 0x80, 0x80, 0x80, 0x01] = .panic p :=
  ⟨_, rfl⟩

/-- non-vacuity: a well-formed type value decodes -/
example : ∃ t r d, TV.lookupByValue [UInt8.ofNat typeValueRecord, 1, 1, 97, 9] = .ok t r d := ⟨_, _, _, rfl⟩

/-! ## VNG header and vector segments -/

/-- T1: `Header.Deserialize` tests each field against its own limit (it tested `MetaSize` twice
    until repo commit 0b09f99cc), and the two vector readers allocate `MemLength` bytes with no
    guard in front — what the model below is written against. -/
theorem vng_shape :
    Zed.Generated.C11.vngHeaderChecks = ["len(bytes) != HeaderSize || bytes[0] != 'V' || bytes[1] != 'N' || bytes[2] != 'G' || bytes[3] != 0",
      "h.Version != Version", "h.MetaSize > MaxMetaSize", "h.DataSize > MaxDataSize"] ∧
    Zed.Generated.C11.vngHeaderFields = ["h.Version = binary.LittleEndian.Uint32(bytes[4:])",
      "h.MetaSize = binary.LittleEndian.Uint64(bytes[8:])", "h.DataSize = binary.LittleEndian.Uint64(bytes[16:])"] ∧
    Zed.Generated.C11.vngPrimitiveBuilderMakes = ["make([]byte, p.loc.MemLength)"] ∧
    Zed.Generated.C11.vngPrimitiveBuilderLengthGuards = [] ∧
    Zed.Generated.C11.vngDictBuilderMakes = ["make([]byte, d.loc.MemLength)"] ∧
    Zed.Generated.C11.vngDictBuilderLengthGuards = [] := by decide

/-- **vng_header_bounded.**  Every header `Deserialize` accepts has the supported version and
    section sizes within the declared limits. -/
theorem vng_header_bounded (bs : Bytes) (h : Vng.Header) (hd : Vng.deserialize bs = some h) :
    h.version = Zed.Generated.C11.vngVersion ∧ h.metaSize ≤ Zed.Generated.C11.vngMaxMetaSize ∧
    h.dataSize ≤ Zed.Generated.C11.vngMaxDataSize := by
  unfold Vng.deserialize at hd
  split at hd
  · cases hd
  · split at hd
    · cases hd
    · simp only at hd
      split at hd
      · cases hd
      · split at hd
        · cases hd
        · split at hd
          · cases hd
          · cases hd; simp only at *; omega

/-- non-vacuity: a header is accepted -/
example : (Vng.deserialize [86, 78, 71, 0, 4, 0, 0, 0, 10, 0, 0, 0, 0, 0, 0, 0, 6, 0, 0, 0, 0, 0, 0, 0]).isSome = true := by decide

/-- **not_vng_alloc_bounded.**  FULL statement "every buffer the VNG reader requests is bounded by a
    function of the declared limits" is FALSE of the current code: the segment's `MemLength`
    comes from the metadata and is allocated unchecked, so for every bound there is a segment
    descriptor (any 64-bit value is accepted) whose read requests more. -/
theorem not_vng_alloc_bounded (bound : Nat) :
    ∃ s : Vng.Segment, ∃ a ∈ Vng.readAllocs s, a > bound :=
  ⟨⟨0, 0, bound + 1, false⟩, bound + 1, by simp [Vng.readAllocs], Nat.lt_succ_self _⟩

/-- **vng_alloc_bounded_partial.**  Guard: the descriptor's lengths do not exceed the data section
    the (checked) header declares; then so do the requests. -/
theorem vng_alloc_bounded_partial (s : Vng.Segment) (dataSize : Nat)
    (hg : s.memLength ≤ dataSize ∧ s.length ≤ dataSize) : ∀ a ∈ Vng.readAllocs s, a ≤ dataSize := by
  intro a ha
  unfold Vng.readAllocs at ha
  split at ha <;> simp at ha <;> rcases ha with rfl | rfl <;> omega

/-! ## Validate -/

/-- **validate_sound_partial.**  FULL statement (false of the current code, see the two negations
    below): `validate t b = true → WellFormed t b` for every type.  Proved: for every type without
    enum components whose sets are sets of leaf types — primitives, possibly named or wrapped in
    error — (guard `ZTy.plain`, decidable; `Validate` checks a set's element order but never walks
    the elements, so sets of containers are exactly where the code is wrong), every body the model of
    `Value.Validate` accepts is structurally consistent with the type: containers split into
    items, one well-formed item per record field in order, well-formed array elements, alternating
    well-formed map keys and values, union bodies of exactly a tag in range and a well-formed
    member value. -/
theorem validate_sound_partial (t : ZTy) (b : Option Bytes) (hg : t.plain = true)
    (h : validate t b = true) : WellFormed t b := by
  unfold validate at h
  split at h
  · rename_i hw; exact walk_sound t b hg hw
  · cases h

/-- **wellformed_walk_total.**  Conversely, on a structurally consistent value of such a type
    `Walk` reaches none of the panic sites of `zcode.Iter` (and reports no error): for these types
    `Validate` accepts exactly the well-formed values. -/
theorem wellformed_walk_total (t : ZTy) (b : Option Bytes) (hg : t.plain = true) (h : WellFormed t b) :
    walk t b = .ok () := walk_complete t b hg h

theorem validate_iff_wellformed (t : ZTy) (b : Option Bytes) (hg : t.plain = true) :
    validate t b = true ↔ WellFormed t b := by
  constructor
  · exact validate_sound_partial t b hg
  · intro h; simp [validate, walk_complete t b hg h]

/-- **validate_enum_sound_partial.**  For an enum the code is right exactly when the selector is
    below 2^63 (guard on the value: `checkEnum` compares a signed int): then an accepted selector is
    in range. -/
theorem validate_enum_sound_partial (syms : List Bytes) (body : Bytes)
    (hg : decodeCountedUvarint body < two63) (h : validate (.enum syms) (some body) = true) :
    WellFormed (.enum syms) (some body) := by
  apply WellFormed.enum
  simp only [validate, walk] at h
  split at h
  · rename_i hw
    split at hw
    · cases hw
    · rename_i hlt
      have hu : decodeCountedUvarint body % two64 = decodeCountedUvarint body := by
        unfold two63 two64 at *; omega
      simp only [asInt, hu, hg, if_true, Int.ofNat_eq_natCast] at hlt
      omega
  · cases h

/-- non-vacuity of the guard and of the hypothesis -/
example : (ZTy.record (.cons [97] (.array (.prim 9)) (.cons [98] (.union (.cons (.prim 9) (.cons (.set (.named [112] (.prim 25))) .nil))) .nil))).plain = true := by
  decide

/-- The full statement is false: `Validate` never looks inside the elements of a set. -/
theorem not_validate_sound_set :
    let t : ZTy := .set (.record (.cons [97] (.prim 9) .nil))
    validate t (some [2, 5]) = true ∧ ¬ WellFormed t (some [2, 5]) := by
  have hn : znext [2, 5] = .ok (some [5], []) := by rfl
  have hn5 : znext [5] = .error .outOfRange := by rfl
  have hit : ziterAll [2, 5] = .ok [some [5]] := by
    rw [ziterAll]; simp only [List.isEmpty_cons, Bool.false_eq_true, if_false]
    split
    · rename_i h; rw [hn] at h; cases h
    · rename_i h; rw [hn] at h; cases h; rw [ziterAll]; rfl
  have hcs : checkSetFrom none [2, 5] = .ok () := by
    rw [checkSetFrom]
    simp only [List.isEmpty_cons, Bool.false_eq_true, if_false]
    split
    · rename_i h; rw [hn] at h; cases h
    · rename_i h; rw [hn] at h; cases h
      rw [checkSetFrom]; rfl
  refine ⟨?_, ?_⟩
  · simp only [validate, walk, hcs]
  · intro hw
    cases hw with
    | set hi hall _ =>
      rw [hit] at hi; cases hi
      have := hall (some [5]) (by simp)
      cases this with
      | record hf =>
        cases hf with
        | cons hz _ _ => rw [hn5] at hz; cases hz

/-- … and an enum selector ≥ 2^63 is accepted because the range test is on a signed int. -/
theorem not_validate_sound_enum :
    let t : ZTy := .enum [[97], [98]]
    let body : Bytes := [0, 0, 0, 0, 0, 0, 0, 128]
    validate t (some body) = true ∧ ¬ WellFormed t (some body) := by
  refine ⟨by decide, ?_⟩
  intro hw
  cases hw with
  | enum _ _ h => revert h; decide

end Zed.Props.C11
