/-
  `head n`, `tail n` and filters lifted into the scatter legs (C08): the optimizer copies the operator
  into every leg of a scatter whose sorted outputs are fanned in with `merge` (and keeps head/tail
  after the merge).  Results are defined only up to the order of ties, so soundness is stated as:
  the parallel result is a sorted "smallest n" (head) / "largest n" (tail) selection of ALL rows,
  resp. a sorted permutation of the filtered rows.  Everything below uses only that a merge is a
  sorted permutation of the legs' contents (`kmerge_perm`, `kmerge_sorted`).
-/
import Zed.Model.ParScatter
import Zed.Proofs.ParScatter
import Zed.Proofs.ParSortLift
namespace Zed.Proofs.ParLifts
open Zed.Par Zed.Agg
open Zed.Proofs.ParSortLift
variable {ρ : Type}

/-! ### generic list facts -/

/-- in a sorted list everything in `take n` is below everything in `drop n` -/
theorem sorted_take_le_drop (le : ρ → ρ → Bool) {L : List ρ}
    (hs : L.Pairwise (fun x y => le x y = true)) (n : Nat) :
    ∀ x ∈ L.take n, ∀ y ∈ L.drop n, le x y = true := by
  have h : (L.take n ++ L.drop n).Pairwise (fun x y => le x y = true) := by
    rw [List.take_append_drop]; exact hs
  exact (List.pairwise_append.1 h).2.2

/-- `(a ++ b) ++ (c ++ d) ~ (a ++ c) ++ (b ++ d)` -/
theorem perm_shuffle4 (a b c d : List ρ) : ((a ++ b) ++ (c ++ d)).Perm ((a ++ c) ++ (b ++ d)) := by
  rw [List.append_assoc, List.append_assoc]
  refine List.Perm.append_left a ?_
  rw [← List.append_assoc, ← List.append_assoc]
  exact List.Perm.append_right d List.perm_append_comm

/-- splitting every leg in two parts splits the whole -/
theorem flatten_split_perm (f g : List ρ → List ρ) (hfg : ∀ l, (f l ++ g l).Perm l) :
    ∀ (legs : List (List ρ)), legs.flatten.Perm ((legs.map f).flatten ++ (legs.map g).flatten) := by
  intro legs
  induction legs with
  | nil => simp
  | cons l ls ih =>
    simp only [List.flatten_cons, List.map_cons]
    exact (((hfg l).symm).append ih).trans (perm_shuffle4 _ _ _ _)

/-- truncating every leg at `n` does not change `min n` of the total length -/
theorem min_flatten_length (n : Nat) (f : List ρ → List ρ) (hf : ∀ l, (f l).length = min n l.length) :
    ∀ (legs : List (List ρ)), min n (legs.map f).flatten.length = min n legs.flatten.length := by
  intro legs
  induction legs with
  | nil => simp
  | cons l ls ih =>
    simp only [List.flatten_cons, List.map_cons, List.length_append, hf]
    omega

/-- counting core: if `A ++ R ~ F`, `M` is a sublist of `F` all of whose elements satisfy `q`, and no
    element of `R` satisfies `q`, then `A` has at least `|M|` elements satisfying `q` -/
theorem count_le (q : ρ → Bool) {A R F M : List ρ} (hp : (A ++ R).Perm F) (hM : M.Sublist F)
    (hq : ∀ z ∈ M, q z = true) (hR : ∀ w ∈ R, q w = false) : M.length ≤ (A.filter q).length := by
  have h1 : M.filter q = M := List.filter_eq_self.2 hq
  have h2 : (M.filter q).length ≤ (F.filter q).length := (hM.filter q).length_le
  have h3 : (F.filter q).length = ((A ++ R).filter q).length := ((hp.filter q).length_eq).symm
  have h4 : R.filter q = [] := List.filter_eq_nil_iff.2 (fun a ha => by simp [hR a ha])
  rw [List.filter_append, h4, List.append_nil] at h3
  rw [h1] at h2
  omega

/-- … and strictly fewer than `|A|` when some element of `A` fails `q` -/
theorem count_lt (q : ρ → Bool) {A R F M : List ρ} (hp : (A ++ R).Perm F) (hM : M.Sublist F)
    (hq : ∀ z ∈ M, q z = true) (hR : ∀ w ∈ R, q w = false) {x : ρ} (hx : x ∈ A) (hqx : q x = false) :
    M.length < A.length := by
  have h1 := count_le q hp hM hq hR
  have h2 : (A.filter q).length < A.length :=
    List.length_filter_lt_length_iff_exists.2 ⟨x, hx, by simp [hqx]⟩
  omega

/-! ### head -/

/-- `T` is a sorted selection of smallest elements of `all`: `all` is a permutation of `T ++ rest`, T is sorted,
    and everything in `rest` is ≥ everything in T -/
structure SmallestSel (le : ρ → ρ → Bool) (T rest all : List ρ) : Prop where
  perm : all.Perm (T ++ rest)
  sorted : T.Pairwise (fun x y => le x y = true)
  below : ∀ x ∈ T, ∀ y ∈ rest, le x y = true

/-- sequential plan, stated for any sorted permutation `out` of the rows -/
theorem head_seq_core (le : ρ → ρ → Bool) (n : Nat) {all out : List ρ}
    (hp : out.Perm all) (hso : out.Pairwise (fun x y => le x y = true)) :
    SmallestSel le (out.take n) (out.drop n) all ∧ (out.take n).length = min n all.length := by
  refine ⟨⟨?_, ?_, ?_⟩, ?_⟩
  · rw [List.take_append_drop]; exact hp.symm
  · exact hso.sublist (List.take_sublist n out)
  · exact sorted_take_le_drop le hso n
  · rw [List.length_take, hp.length_eq]

/-- sequential plan: `head n` of a merge of the legs is a smallest-n selection -/
theorem head_seq (le : ρ → ρ → Bool) (hle : TotalPreorder le) (n : Nat) {legs : List (List ρ)} {out : List ρ}
    (hs : ∀ l ∈ legs, l.Pairwise (fun x y => le x y = true)) (h : KMerge le legs out) :
    SmallestSel le (out.take n) (out.drop n) legs.flatten ∧ (out.take n).length = min n legs.flatten.length :=
  head_seq_core le n (kmerge_perm le h) (kmerge_sorted le hle hs h)

/-- parallel plan, stated for any sorted permutation `out'` of the truncated legs -/
theorem head_lift_core (le : ρ → ρ → Bool) (hle : TotalPreorder le) (n : Nat) {legs : List (List ρ)} {out' : List ρ}
    (hs : ∀ l ∈ legs, l.Pairwise (fun x y => le x y = true))
    (hp : out'.Perm (legs.map (List.take n)).flatten) (hso : out'.Pairwise (fun x y => le x y = true)) :
    SmallestSel le (out'.take n) (out'.drop n ++ (legs.map (List.drop n)).flatten) legs.flatten ∧
    (out'.take n).length = min n legs.flatten.length := by
  refine ⟨⟨?_, ?_, ?_⟩, ?_⟩
  · have h1 := flatten_split_perm (List.take n) (List.drop n)
      (fun l => by rw [List.take_append_drop]) legs
    have h2 : ((legs.map (List.take n)).flatten ++ (legs.map (List.drop n)).flatten).Perm
        (out' ++ (legs.map (List.drop n)).flatten) := List.Perm.append_right _ hp.symm
    have h3 : out' ++ (legs.map (List.drop n)).flatten
        = out'.take n ++ (out'.drop n ++ (legs.map (List.drop n)).flatten) := by
      rw [← List.append_assoc, List.take_append_drop]
    rw [← h3]
    exact h1.trans h2
  · exact hso.sublist (List.take_sublist n out')
  · intro x hx y hy
    rcases List.mem_append.1 hy with hy | hy
    · exact sorted_take_le_drop le hso n x hx y hy
    · obtain ⟨l', hl', hyl'⟩ := List.mem_flatten.1 hy
      obtain ⟨l, hl, rfl⟩ := List.mem_map.1 hl'
      cases hxy : le x y with
      | true => rfl
      | false =>
        exfalso
        have hM : (l.take n).Sublist (legs.map (List.take n)).flatten :=
          List.sublist_flatten_of_mem (List.mem_map.2 ⟨l, hl, rfl⟩)
        have hq : ∀ z ∈ l.take n, (!le x z) = true := by
          intro z hz
          have hzy := sorted_take_le_drop le (hs l hl) n z hz y hyl'
          cases hxz : le x z with
          | false => rfl
          | true => rw [hle.trans _ _ _ hxz hzy] at hxy; cases hxy
        have hR : ∀ w ∈ out'.drop n, (!le x w) = false := by
          intro w hw
          rw [sorted_take_le_drop le hso n x hx w hw]; rfl
        have hp' : (out'.take n ++ out'.drop n).Perm (legs.map (List.take n)).flatten := by
          rw [List.take_append_drop]; exact hp
        have hlt := count_lt (fun z => !le x z) hp' hM hq hR hx (by simp [hle.refl x])
        have hpos : 0 < (l.drop n).length := List.length_pos_of_mem hyl'
        rw [List.length_drop] at hpos
        rw [List.length_take, List.length_take] at hlt
        omega
  · rw [List.length_take, hp.length_eq]
    exact min_flatten_length n (List.take n) (fun l => List.length_take) legs

/-- **head_lift_sound** — parallel plan: `head n` in every leg, merge, `head n` again: also a smallest-n selection
    of ALL rows (so it equals the sequential result up to the choice among tied rows at the cut) -/
theorem head_lift_sound (le : ρ → ρ → Bool) (hle : TotalPreorder le) (n : Nat) {legs : List (List ρ)} {out' : List ρ}
    (hs : ∀ l ∈ legs, l.Pairwise (fun x y => le x y = true))
    (h : KMerge le (legs.map (List.take n)) out') :
    SmallestSel le (out'.take n) (out'.drop n ++ (legs.map (List.drop n)).flatten) legs.flatten ∧
    (out'.take n).length = min n legs.flatten.length := by
  have hs' : ∀ l ∈ legs.map (List.take n), l.Pairwise (fun x y => le x y = true) := by
    intro l' hl'
    obtain ⟨l, hl, rfl⟩ := List.mem_map.1 hl'
    exact (hs l hl).sublist (List.take_sublist n l)
  exact head_lift_core le hle n hs (kmerge_perm le h) (kmerge_sorted le hle hs' h)

/-- the final re-application is needed: without it the parallel plan returns up to k·n rows -/
theorem not_head_lift_without_reapply :
    ∃ (legs : List (List Int)) (out' : List Int) (n : Nat),
      KMerge (fun a b => decide (a ≤ b)) (legs.map (List.take n)) out' ∧ out'.length > n := by
  refine ⟨[[1, 2], [1, 3]], [1, 1], 1, ?_, by decide⟩
  refine KMerge.step (i := 0) (t := []) rfl (by decide) ?_
  refine KMerge.step (i := 1) (t := []) rfl (by decide) ?_
  exact KMerge.done (by decide)

/-! ### tail -/

/-- largest-n selection (mirror image) -/
structure LargestSel (le : ρ → ρ → Bool) (T rest all : List ρ) : Prop where
  perm : all.Perm (rest ++ T)
  sorted : T.Pairwise (fun x y => le x y = true)
  above : ∀ x ∈ T, ∀ y ∈ rest, le y x = true

def lastN (n : Nat) (l : List ρ) : List ρ := l.drop (l.length - n)
def dropLastN (n : Nat) (l : List ρ) : List ρ := l.take (l.length - n)

theorem dropLastN_append_lastN (n : Nat) (l : List ρ) : dropLastN n l ++ lastN n l = l :=
  List.take_append_drop _ _

theorem length_lastN (n : Nat) (l : List ρ) : (lastN n l).length = min n l.length := by
  simp only [lastN, List.length_drop]; omega

theorem lastN_sublist (n : Nat) (l : List ρ) : (lastN n l).Sublist l := List.drop_sublist _ _

theorem sorted_dropLastN_le_lastN (le : ρ → ρ → Bool) {L : List ρ}
    (hs : L.Pairwise (fun x y => le x y = true)) (n : Nat) :
    ∀ x ∈ dropLastN n L, ∀ y ∈ lastN n L, le x y = true :=
  sorted_take_le_drop le hs _

theorem tail_seq_core (le : ρ → ρ → Bool) (n : Nat) {all out : List ρ}
    (hp : out.Perm all) (hso : out.Pairwise (fun x y => le x y = true)) :
    LargestSel le (lastN n out) (dropLastN n out) all ∧ (lastN n out).length = min n all.length := by
  refine ⟨⟨?_, ?_, ?_⟩, ?_⟩
  · rw [dropLastN_append_lastN]; exact hp.symm
  · exact hso.sublist (lastN_sublist n out)
  · intro x hx y hy
    exact sorted_dropLastN_le_lastN le hso n y hy x hx
  · rw [length_lastN, hp.length_eq]

theorem tail_seq (le : ρ → ρ → Bool) (hle : TotalPreorder le) (n : Nat) {legs : List (List ρ)} {out : List ρ}
    (hs : ∀ l ∈ legs, l.Pairwise (fun x y => le x y = true)) (h : KMerge le legs out) :
    LargestSel le (lastN n out) (dropLastN n out) legs.flatten ∧ (lastN n out).length = min n legs.flatten.length :=
  tail_seq_core le n (kmerge_perm le h) (kmerge_sorted le hle hs h)

/-- parallel plan, stated for any sorted permutation `out'` of the truncated legs -/
theorem tail_lift_core (le : ρ → ρ → Bool) (hle : TotalPreorder le) (n : Nat) {legs : List (List ρ)} {out' : List ρ}
    (hs : ∀ l ∈ legs, l.Pairwise (fun x y => le x y = true))
    (hp : out'.Perm (legs.map (lastN n)).flatten) (hso : out'.Pairwise (fun x y => le x y = true)) :
    LargestSel le (lastN n out') (dropLastN n out' ++ (legs.map (dropLastN n)).flatten) legs.flatten ∧
    (lastN n out').length = min n legs.flatten.length := by
  refine ⟨⟨?_, ?_, ?_⟩, ?_⟩
  · have h1 := flatten_split_perm (lastN n) (dropLastN n)
      (fun l => List.perm_append_comm.trans (by rw [dropLastN_append_lastN])) legs
    have h2 : ((legs.map (lastN n)).flatten ++ (legs.map (dropLastN n)).flatten).Perm
        (out' ++ (legs.map (dropLastN n)).flatten) := List.Perm.append_right _ hp.symm
    have h3 : (out' ++ (legs.map (dropLastN n)).flatten).Perm
        ((dropLastN n out' ++ (legs.map (dropLastN n)).flatten) ++ lastN n out') := by
      have e : out' ++ (legs.map (dropLastN n)).flatten
          = dropLastN n out' ++ (lastN n out' ++ (legs.map (dropLastN n)).flatten) := by
        rw [← List.append_assoc, dropLastN_append_lastN]
      rw [e, List.append_assoc]
      exact List.Perm.append_left _ List.perm_append_comm
    exact (h1.trans h2).trans h3
  · exact hso.sublist (lastN_sublist n out')
  · intro x hx y hy
    rcases List.mem_append.1 hy with hy | hy
    · exact sorted_dropLastN_le_lastN le hso n y hy x hx
    · obtain ⟨l', hl', hyl'⟩ := List.mem_flatten.1 hy
      obtain ⟨l, hl, rfl⟩ := List.mem_map.1 hl'
      cases hyx : le y x with
      | true => rfl
      | false =>
        exfalso
        have hM : (lastN n l).Sublist (legs.map (lastN n)).flatten :=
          List.sublist_flatten_of_mem (List.mem_map.2 ⟨l, hl, rfl⟩)
        have hq : ∀ z ∈ lastN n l, (!le z x) = true := by
          intro z hz
          have hyz := sorted_dropLastN_le_lastN le (hs l hl) n y hyl' z hz
          cases hzx : le z x with
          | false => rfl
          | true => rw [hle.trans _ _ _ hyz hzx] at hyx; cases hyx
        have hR : ∀ w ∈ dropLastN n out', (!le w x) = false := by
          intro w hw
          rw [sorted_dropLastN_le_lastN le hso n w hw x hx]; rfl
        have hp' : (lastN n out' ++ dropLastN n out').Perm (legs.map (lastN n)).flatten := by
          refine List.perm_append_comm.trans ?_
          rw [dropLastN_append_lastN]; exact hp
        have hlt := count_lt (fun z => !le z x) hp' hM hq hR hx (by simp [hle.refl x])
        have hpos : 0 < (dropLastN n l).length := List.length_pos_of_mem hyl'
        simp only [dropLastN, List.length_take] at hpos
        rw [length_lastN, length_lastN] at hlt
        omega
  · rw [length_lastN, hp.length_eq]
    exact min_flatten_length n (lastN n) (length_lastN n) legs

/-- **tail_lift_sound** — `tail n` in every leg, merge, `tail n` again -/
theorem tail_lift_sound (le : ρ → ρ → Bool) (hle : TotalPreorder le) (n : Nat) {legs : List (List ρ)} {out' : List ρ}
    (hs : ∀ l ∈ legs, l.Pairwise (fun x y => le x y = true))
    (h : KMerge le (legs.map (lastN n)) out') :
    LargestSel le (lastN n out') (dropLastN n out' ++ (legs.map (dropLastN n)).flatten) legs.flatten ∧
    (lastN n out').length = min n legs.flatten.length := by
  have hs' : ∀ l ∈ legs.map (lastN n), l.Pairwise (fun x y => le x y = true) := by
    intro l' hl'
    obtain ⟨l, hl, rfl⟩ := List.mem_map.1 hl'
    exact (hs l hl).sublist (lastN_sublist n l)
  exact tail_lift_core le hle n hs (kmerge_perm le h) (kmerge_sorted le hle hs' h)

/-! ### filter -/

/-- **filter_lift_sound** — a filter copied into the legs: the merge of the filtered legs is sorted and is a permutation
    of the filter of ANY merge of the unfiltered legs (equal up to the order of ties) -/
theorem filter_lift_sound (le : ρ → ρ → Bool) (hle : TotalPreorder le) (p : ρ → Bool) {legs : List (List ρ)} {out out' : List ρ}
    (hs : ∀ l ∈ legs, l.Pairwise (fun x y => le x y = true))
    (h' : KMerge le (legs.map (List.filter p)) out') (h : KMerge le legs out) :
    out'.Perm (out.filter p) ∧ out'.Pairwise (fun x y => le x y = true) ∧ (out.filter p).Pairwise (fun x y => le x y = true) := by
  refine ⟨?_, ?_, ?_⟩
  · have h1 := kmerge_perm le h'
    rw [← List.filter_flatten] at h1
    exact h1.trans ((kmerge_perm le h).filter p).symm
  · refine kmerge_sorted le hle ?_ h'
    intro l' hl'
    obtain ⟨l, hl, rfl⟩ := List.mem_map.1 hl'
    exact (hs l hl).sublist List.filter_sublist
  · exact (kmerge_sorted le hle hs h).sublist List.filter_sublist

/-! ### sorted permutations agree up to ties -/

/-- one direction: the i-th element of `a` is below the i-th element of `b` -/
theorem sorted_perm_getElem_le (le : ρ → ρ → Bool) (hle : TotalPreorder le) {a b : List ρ}
    (hp : a.Perm b) (ha : a.Pairwise (fun x y => le x y = true)) (hb : b.Pairwise (fun x y => le x y = true))
    (i : Nat) (hi : i < a.length) (hi' : i < b.length) : le a[i] b[i] = true := by
  cases hab : le a[i] b[i] with
  | true => rfl
  | false =>
    exfalso
    -- the `i + 1` elements of `b.take (i + 1)` are all strictly below `a[i]`, but in `a` only
    -- elements of `a.take i` can be
    have hM : (b.take (i + 1)).Sublist b := List.take_sublist _ _
    have hq : ∀ z ∈ b.take (i + 1), (!le a[i] z) = true := by
      intro z hz
      have hzb : le z b[i] = true := by
        rw [List.take_succ_eq_append_getElem hi'] at hz
        rcases List.mem_append.1 hz with hz | hz
        · refine sorted_take_le_drop le hb i z hz b[i] ?_
          rw [List.drop_eq_getElem_cons hi']; exact List.mem_cons_self
        · rw [List.mem_singleton.1 hz]; exact hle.refl _
      cases haz : le a[i] z with
      | false => rfl
      | true => rw [hle.trans _ _ _ haz hzb] at hab; cases hab
    have hR : ∀ w ∈ a.drop i, (!le a[i] w) = false := by
      intro w hw
      have hd : (a.drop i).Pairwise (fun x y => le x y = true) := ha.sublist (List.drop_sublist _ _)
      rw [List.drop_eq_getElem_cons hi] at hw hd
      rcases List.mem_cons.1 hw with hw | hw
      · rw [hw, hle.refl]; rfl
      · rw [(List.pairwise_cons.1 hd).1 w hw]; rfl
    have hp' : (a.take i ++ a.drop i).Perm b := by rw [List.take_append_drop]; exact hp
    have h1 := count_le (fun z => !le a[i] z) hp' hM hq hR
    have h2 := List.length_filter_le (fun z => !le a[i] z) (a.take i)
    rw [List.length_take] at h1 h2
    omega

/-- two sorted permutations of each other agree position by position up to ties: their i-th elements compare equal -/
theorem sorted_perm_pointwise_equiv (le : ρ → ρ → Bool) (hle : TotalPreorder le) {a b : List ρ}
    (hp : a.Perm b) (ha : a.Pairwise (fun x y => le x y = true)) (hb : b.Pairwise (fun x y => le x y = true)) :
    ∀ i (hi : i < a.length), le a[i] (b[i]'(by rw [← hp.length_eq]; exact hi)) = true ∧
                              le (b[i]'(by rw [← hp.length_eq]; exact hi)) a[i] = true := by
  intro i hi
  have hi' : i < b.length := by rw [← hp.length_eq]; exact hi
  exact ⟨sorted_perm_getElem_le le hle hp ha hb i hi hi', sorted_perm_getElem_le le hle hp.symm hb ha i hi' hi⟩

/-! ### non-vacuity: sorted legs with ties across legs (and ties at the cut) -/

private def exLe : Int → Int → Bool := fun a b => decide (a ≤ b)
private def exLegs : List (List Int) := [[1, 3, 3, 7], [2, 3, 5], [], [3, 7, 7]]

example : ∀ l ∈ exLegs, l.Pairwise (fun x y => exLe x y = true) := by decide

/-- head 4: the cut falls inside the run of four tied 3s spread over three legs -/
example : kmergeFn exLe 10 exLegs = [1, 2, 3, 3, 3, 3, 5, 7, 7, 7] ∧
    kmergeFn exLe 10 (exLegs.map (List.take 4)) = [1, 2, 3, 3, 3, 3, 5, 7, 7, 7] ∧
    kmergeFn exLe 10 (exLegs.map (List.take 2)) = [1, 2, 3, 3, 3, 7] := by decide

example : SmallestSel exLe ((kmergeFn exLe 10 exLegs).take 4) ((kmergeFn exLe 10 exLegs).drop 4) exLegs.flatten ∧
    ((kmergeFn exLe 10 exLegs).take 4).length = min 4 exLegs.flatten.length :=
  head_seq exLe intLe_totalPreorder 4 (by decide)
    (Zed.Proofs.ParScatter.kmergeFn_isKMerge exLe intLe_totalPreorder 10 exLegs (by decide))

example : SmallestSel exLe ((kmergeFn exLe 10 (exLegs.map (List.take 2))).take 2)
      ((kmergeFn exLe 10 (exLegs.map (List.take 2))).drop 2 ++ (exLegs.map (List.drop 2)).flatten) exLegs.flatten ∧
    ((kmergeFn exLe 10 (exLegs.map (List.take 2))).take 2).length = min 2 exLegs.flatten.length :=
  head_lift_sound exLe intLe_totalPreorder 2 (by decide)
    (Zed.Proofs.ParScatter.kmergeFn_isKMerge exLe intLe_totalPreorder 10 _ (by decide))

example : kmergeFn exLe 10 (exLegs.map (lastN 2)) = [3, 3, 5, 7, 7, 7] ∧
    lastN 2 (kmergeFn exLe 10 (exLegs.map (lastN 2))) = [7, 7] := by decide

example : LargestSel exLe (lastN 2 (kmergeFn exLe 10 exLegs)) (dropLastN 2 (kmergeFn exLe 10 exLegs)) exLegs.flatten ∧
    (lastN 2 (kmergeFn exLe 10 exLegs)).length = min 2 exLegs.flatten.length :=
  tail_seq exLe intLe_totalPreorder 2 (by decide)
    (Zed.Proofs.ParScatter.kmergeFn_isKMerge exLe intLe_totalPreorder 10 exLegs (by decide))

example : LargestSel exLe (lastN 2 (kmergeFn exLe 10 (exLegs.map (lastN 2))))
      (dropLastN 2 (kmergeFn exLe 10 (exLegs.map (lastN 2))) ++ (exLegs.map (dropLastN 2)).flatten) exLegs.flatten ∧
    (lastN 2 (kmergeFn exLe 10 (exLegs.map (lastN 2)))).length = min 2 exLegs.flatten.length :=
  tail_lift_sound exLe intLe_totalPreorder 2 (by decide)
    (Zed.Proofs.ParScatter.kmergeFn_isKMerge exLe intLe_totalPreorder 10 _ (by decide))

private def exP : Int → Bool := fun a => decide (a % 2 = 1)

example : kmergeFn exLe 10 (exLegs.map (List.filter exP)) = [1, 3, 3, 3, 3, 5, 7, 7, 7] := by decide

example : (kmergeFn exLe 10 (exLegs.map (List.filter exP))).Perm ((kmergeFn exLe 10 exLegs).filter exP) ∧
    (kmergeFn exLe 10 (exLegs.map (List.filter exP))).Pairwise (fun x y => exLe x y = true) ∧
    ((kmergeFn exLe 10 exLegs).filter exP).Pairwise (fun x y => exLe x y = true) :=
  filter_lift_sound exLe intLe_totalPreorder exP (by decide)
    (Zed.Proofs.ParScatter.kmergeFn_isKMerge exLe intLe_totalPreorder 10 _ (by decide))
    (Zed.Proofs.ParScatter.kmergeFn_isKMerge exLe intLe_totalPreorder 10 exLegs (by decide))

/-- a comparator with genuine ties between distinct rows (compare on the first component): two sorted
    permutations that differ in the order of the tied rows agree pointwise up to ties -/
private def exLe2 : Int × Int → Int × Int → Bool := fun a b => decide (a.1 ≤ b.1)

private theorem exLe2_totalPreorder : TotalPreorder exLe2 :=
  ⟨fun a b => by simp only [exLe2, decide_eq_true_eq]; omega,
   fun a b c => by simp only [exLe2, decide_eq_true_eq]; omega⟩

private def exA : List (Int × Int) := [(1, 0), (2, 0), (2, 1)]
private def exB : List (Int × Int) := [(1, 0), (2, 1), (2, 0)]

private theorem exA_perm_exB : exA.Perm exB := List.Perm.cons _ (List.Perm.swap _ _ _)

example : exA ≠ exB ∧ ∀ i (hi : i < exA.length),
    exLe2 exA[i] (exB[i]'(by rw [← exA_perm_exB.length_eq]; exact hi)) = true ∧
    exLe2 (exB[i]'(by rw [← exA_perm_exB.length_eq]; exact hi)) exA[i] = true :=
  ⟨by decide, sorted_perm_pointwise_equiv exLe2 exLe2_totalPreorder exA_perm_exB (by decide) (by decide)⟩

end Zed.Proofs.ParLifts
