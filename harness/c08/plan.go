package main

// Plan shapes: the optimized (and parallelized) DAG of a program, summarised as a short
// string; used as generator-coverage statistics for the branches of parallelize.go and to
// explain failures.

import (
	"context"
	"fmt"
	"strings"
	. "verifharness/hlib"

	zed "github.com/brimdata/super"
	"github.com/brimdata/super/compiler"
	"github.com/brimdata/super/compiler/ast/dag"
	"github.com/brimdata/super/compiler/data"
	"github.com/brimdata/super/pkg/storage"
	"github.com/brimdata/super/runtime"
)

func opShape(op dag.Op) string {
	switch op := op.(type) {
	case *dag.Scatter:
		if len(op.Paths) == 0 {
			return "scatter()"
		}
		return fmt.Sprintf("scatter(%s)", seqShape(op.Paths[0]))
	case *dag.Merge:
		return "merge"
	case *dag.Combine:
		return "combine"
	case *dag.Summarize:
		s := "summarize"
		if op.PartialsOut {
			s += "-pout"
		}
		if op.PartialsIn {
			s += "-pin"
		}
		if op.InputSortDir != 0 {
			s += "-sorted"
		}
		return s
	case *dag.SeqScan:
		if op.Filter != nil {
			return "scan-filter"
		}
		return "scan"
	case *dag.Output:
		return ""
	default:
		return strings.ToLower(strings.TrimPrefix(fmt.Sprintf("%T", op), "*dag."))
	}
}

func seqShape(seq dag.Seq) string {
	var xs []string
	for _, op := range seq {
		if s := opShape(op); s != "" {
			xs = append(xs, s)
		}
	}
	return strings.Join(xs, "|")
}

func planShape(l *TLake, q string, par int) (shape string, err error) {
	err, _ = Protect(func() error {
		ast, _, err := compiler.Parse(q)
		if err != nil {
			return err
		}
		rctx := runtime.NewContext(context.Background(), zed.NewContext())
		defer rctx.Cancel()
		job, err := compiler.NewJob(rctx, ast, data.NewSource(storage.NewRemoteEngine(), l.Root), nil)
		if err != nil {
			return err
		}
		if err := job.Optimize(); err != nil {
			return err
		}
		if par > 1 {
			if err := job.Parallelize(par); err != nil {
				return err
			}
		}
		shape = seqShape(job.Entry())
		return nil
	})
	return shape, err
}
